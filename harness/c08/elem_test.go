package c08

// Element-wise functions of floats and cmplxs: bit-for-bit equality with the
// scalar loop (separate multiply and add), for every length, alignment,
// placement, data class and documented alias pattern; documented length
// panics must be package panics that leave every operand untouched.

import (
	"strings"
	"math"
	"math/big"
	"math/cmplx"
	"testing"

	"gonum.org/v1/gonum/cmplxs"
	"gonum.org/v1/gonum/floats"
	"pgregory.net/rapid"
	"verifharness/vk"
)

// elemSpec describes one element-wise function over element type T.
type elemSpec[T any] struct {
	name    string
	to      bool  // has a destination separate from the inputs
	nIn     int   // number of input slices (not counting an in-place dst)
	aliases []int // alias patterns exercised
	panics  bool  // documents a panic on length mismatch
	numeric bool  // compare numerically (+0 == -0) instead of bit-for-bit
	// cumOK, when set, replaces the bit-for-bit comparison: cumulative sums
	// and products are prefix reductions and are compared with a high
	// precision reference within the rounding bound. It returns the first
	// index whose value is outside the bound.
	cumOK func(got, in []T) (i int, want, tol float64, ok bool)
	// ref computes the expected destination from the original destination d
	// (in-place functions) and the inputs.
	ref func(d, s, t []T, a T) []T
	// call invokes the function; the returned slice is nil for functions
	// without a result.
	call func(d, s, t []T, a T) []T
}

func mapF(n int, f func(i int) float64) []float64 {
	out := make([]float64, n)
	for i := range out {
		out[i] = f(i)
	}
	return out
}

var (
	toAliases1 = []int{aliasNone, aliasDst1}
	toAliases2 = []int{aliasNone, aliasDst1, aliasDst2}
	noAlias    = []int{aliasNone}
)

var floatsElem = []elemSpec[float64]{
	{name: "floats.Add", nIn: 1, aliases: noAlias, panics: true,
		ref:  func(d, s, _ []float64, _ float64) []float64 { return mapF(len(d), func(i int) float64 { return d[i] + s[i] }) },
		call: func(d, s, _ []float64, _ float64) []float64 { floats.Add(d, s); return nil }},
	{name: "floats.AddTo", to: true, nIn: 2, aliases: toAliases2, panics: true,
		ref:  func(_, s, t []float64, _ float64) []float64 { return mapF(len(s), func(i int) float64 { return s[i] + t[i] }) },
		call: func(d, s, t []float64, _ float64) []float64 { return floats.AddTo(d, s, t) }},
	{name: "floats.AddConst", nIn: 0, aliases: noAlias,
		ref:  func(d, _, _ []float64, a float64) []float64 { return mapF(len(d), func(i int) float64 { return d[i] + a }) },
		call: func(d, _, _ []float64, a float64) []float64 { floats.AddConst(a, d); return nil }},
	{name: "floats.AddScaled", nIn: 1, aliases: noAlias, panics: true,
		ref: func(d, s, _ []float64, a float64) []float64 {
			return mapF(len(d), func(i int) float64 { return d[i] + float64(a*s[i]) })
		},
		call: func(d, s, _ []float64, a float64) []float64 { floats.AddScaled(d, a, s); return nil }},
	// AddScaledTo(dst, y, alpha, s): inputs are (y, s).
	{name: "floats.AddScaledTo", to: true, nIn: 2, aliases: toAliases2, panics: true,
		ref: func(_, y, s []float64, a float64) []float64 {
			return mapF(len(y), func(i int) float64 { return y[i] + float64(a*s[i]) })
		},
		call: func(d, y, s []float64, a float64) []float64 { return floats.AddScaledTo(d, y, a, s) }},
	{name: "floats.Sub", nIn: 1, aliases: noAlias, panics: true,
		ref:  func(d, s, _ []float64, _ float64) []float64 { return mapF(len(d), func(i int) float64 { return d[i] - s[i] }) },
		call: func(d, s, _ []float64, _ float64) []float64 { floats.Sub(d, s); return nil }},
	{name: "floats.SubTo", to: true, nIn: 2, aliases: toAliases2, panics: true,
		ref:  func(_, s, t []float64, _ float64) []float64 { return mapF(len(s), func(i int) float64 { return s[i] - t[i] }) },
		call: func(d, s, t []float64, _ float64) []float64 { return floats.SubTo(d, s, t) }},
	{name: "floats.Mul", nIn: 1, aliases: noAlias, panics: true,
		ref:  func(d, s, _ []float64, _ float64) []float64 { return mapF(len(d), func(i int) float64 { return d[i] * s[i] }) },
		call: func(d, s, _ []float64, _ float64) []float64 { floats.Mul(d, s); return nil }},
	{name: "floats.MulTo", to: true, nIn: 2, aliases: toAliases2, panics: true,
		ref:  func(_, s, t []float64, _ float64) []float64 { return mapF(len(s), func(i int) float64 { return s[i] * t[i] }) },
		call: func(d, s, t []float64, _ float64) []float64 { return floats.MulTo(d, s, t) }},
	{name: "floats.Div", nIn: 1, aliases: noAlias, panics: true,
		ref:  func(d, s, _ []float64, _ float64) []float64 { return mapF(len(d), func(i int) float64 { return d[i] / s[i] }) },
		call: func(d, s, _ []float64, _ float64) []float64 { floats.Div(d, s); return nil }},
	{name: "floats.DivTo", to: true, nIn: 2, aliases: toAliases2, panics: true,
		ref:  func(_, s, t []float64, _ float64) []float64 { return mapF(len(s), func(i int) float64 { return s[i] / t[i] }) },
		call: func(d, s, t []float64, _ float64) []float64 { return floats.DivTo(d, s, t) }},
	{name: "floats.Scale", nIn: 0, aliases: noAlias,
		ref:  func(d, _, _ []float64, a float64) []float64 { return mapF(len(d), func(i int) float64 { return a * d[i] }) },
		call: func(d, _, _ []float64, a float64) []float64 { floats.Scale(a, d); return nil }},
	{name: "floats.ScaleTo", to: true, nIn: 1, aliases: toAliases1, panics: true,
		ref:  func(_, s, _ []float64, a float64) []float64 { return mapF(len(s), func(i int) float64 { return a * s[i] }) },
		call: func(d, s, _ []float64, a float64) []float64 { return floats.ScaleTo(d, a, s) }},
	{name: "floats.CumSum", to: true, nIn: 1, aliases: toAliases1, panics: true, cumOK: cumSumOK,
		ref: func(_, s, _ []float64, _ float64) []float64 {
			out := make([]float64, len(s))
			acc := 0.0
			for i, v := range s {
				if i == 0 {
					acc = v
				} else {
					acc = acc + v
				}
				out[i] = acc
			}
			return out
		},
		call: func(d, s, _ []float64, _ float64) []float64 { return floats.CumSum(d, s) }},
	{name: "floats.CumProd", to: true, nIn: 1, aliases: toAliases1, panics: true, cumOK: cumProdOK,
		ref: func(_, s, _ []float64, _ float64) []float64 {
			out := make([]float64, len(s))
			acc := 0.0
			for i, v := range s {
				if i == 0 {
					acc = v
				} else {
					acc = acc * v
				}
				out[i] = acc
			}
			return out
		},
		call: func(d, s, _ []float64, _ float64) []float64 { return floats.CumProd(d, s) }},
	{name: "floats.Reverse", nIn: 0, aliases: noAlias,
		ref:  func(d, _, _ []float64, _ float64) []float64 { return mapF(len(d), func(i int) float64 { return d[len(d)-1-i] }) },
		call: func(d, _, _ []float64, _ float64) []float64 { floats.Reverse(d); return nil }},
}

// Complex arithmetic with every rounding explicit.
func cmul(a, b complex128) complex128 {
	ar, ai, br, bi := real(a), imag(a), real(b), imag(b)
	return complex(float64(ar*br)-float64(ai*bi), float64(ar*bi)+float64(ai*br))
}

func cadd(a, b complex128) complex128 { return complex(real(a)+real(b), imag(a)+imag(b)) }
func csub(a, b complex128) complex128 { return complex(real(a)-real(b), imag(a)-imag(b)) }

func mapC(n int, f func(i int) complex128) []complex128 {
	out := make([]complex128, n)
	for i := range out {
		out[i] = f(i)
	}
	return out
}

var cmplxsElem = []elemSpec[complex128]{
	// Add/AddTo/Sub/SubTo are documented as element-wise sums/differences and
	// are implemented as axpy with alpha = ±1; the complex product (±1+0i)*v
	// can flip the sign of a zero component, so these four are compared
	// numerically (+0 == -0) with the plain sum/difference.
	{name: "cmplxs.Add", nIn: 1, aliases: noAlias, panics: true, numeric: true,
		ref: func(d, s, _ []complex128, _ complex128) []complex128 {
			return mapC(len(d), func(i int) complex128 { return cadd(d[i], s[i]) })
		},
		call: func(d, s, _ []complex128, _ complex128) []complex128 { cmplxs.Add(d, s); return nil }},
	{name: "cmplxs.AddTo", to: true, nIn: 2, aliases: toAliases2, panics: true, numeric: true,
		ref: func(_, s, t []complex128, _ complex128) []complex128 {
			return mapC(len(s), func(i int) complex128 { return cadd(s[i], t[i]) })
		},
		call: func(d, s, t []complex128, _ complex128) []complex128 { return cmplxs.AddTo(d, s, t) }},
	{name: "cmplxs.Sub", nIn: 1, aliases: noAlias, panics: true, numeric: true,
		ref: func(d, s, _ []complex128, _ complex128) []complex128 {
			return mapC(len(d), func(i int) complex128 { return csub(d[i], s[i]) })
		},
		call: func(d, s, _ []complex128, _ complex128) []complex128 { cmplxs.Sub(d, s); return nil }},
	{name: "cmplxs.SubTo", to: true, nIn: 2, aliases: toAliases2, panics: true, numeric: true,
		ref: func(_, s, t []complex128, _ complex128) []complex128 {
			return mapC(len(s), func(i int) complex128 { return csub(s[i], t[i]) })
		},
		call: func(d, s, t []complex128, _ complex128) []complex128 { return cmplxs.SubTo(d, s, t) }},
	{name: "cmplxs.AddConst", nIn: 0, aliases: noAlias,
		ref: func(d, _, _ []complex128, a complex128) []complex128 {
			return mapC(len(d), func(i int) complex128 { return cadd(d[i], a) })
		},
		call: func(d, _, _ []complex128, a complex128) []complex128 { cmplxs.AddConst(a, d); return nil }},
	{name: "cmplxs.AddScaled", nIn: 1, aliases: noAlias, panics: true,
		ref: func(d, s, _ []complex128, a complex128) []complex128 {
			return mapC(len(d), func(i int) complex128 { return cadd(d[i], cmul(a, s[i])) })
		},
		call: func(d, s, _ []complex128, a complex128) []complex128 { cmplxs.AddScaled(d, a, s); return nil }},
	{name: "cmplxs.AddScaledTo", to: true, nIn: 2, aliases: toAliases2, panics: true,
		ref: func(_, y, s []complex128, a complex128) []complex128 {
			return mapC(len(y), func(i int) complex128 { return cadd(y[i], cmul(a, s[i])) })
		},
		call: func(d, y, s []complex128, a complex128) []complex128 { return cmplxs.AddScaledTo(d, y, a, s) }},
	{name: "cmplxs.Mul", nIn: 1, aliases: noAlias, panics: true,
		ref: func(d, s, _ []complex128, _ complex128) []complex128 {
			return mapC(len(d), func(i int) complex128 { return cmul(d[i], s[i]) })
		},
		call: func(d, s, _ []complex128, _ complex128) []complex128 { cmplxs.Mul(d, s); return nil }},
	{name: "cmplxs.MulTo", to: true, nIn: 2, aliases: toAliases2, panics: true,
		ref: func(_, s, t []complex128, _ complex128) []complex128 {
			return mapC(len(s), func(i int) complex128 { return cmul(t[i], s[i]) })
		},
		call: func(d, s, t []complex128, _ complex128) []complex128 { return cmplxs.MulTo(d, s, t) }},
	{name: "cmplxs.MulConj", nIn: 1, aliases: noAlias, panics: true,
		ref: func(d, s, _ []complex128, _ complex128) []complex128 {
			return mapC(len(d), func(i int) complex128 { return cmul(d[i], cmplx.Conj(s[i])) })
		},
		call: func(d, s, _ []complex128, _ complex128) []complex128 { cmplxs.MulConj(d, s); return nil }},
	{name: "cmplxs.MulConjTo", to: true, nIn: 2, aliases: toAliases2, panics: true,
		ref: func(_, s, t []complex128, _ complex128) []complex128 {
			return mapC(len(s), func(i int) complex128 { return cmul(cmplx.Conj(t[i]), s[i]) })
		},
		call: func(d, s, t []complex128, _ complex128) []complex128 { return cmplxs.MulConjTo(d, s, t) }},
	// Complex division is Go's own operator in every build; the loop structure
	// is what is compared.
	{name: "cmplxs.Div", nIn: 1, aliases: noAlias, panics: true,
		ref: func(d, s, _ []complex128, _ complex128) []complex128 {
			return mapC(len(d), func(i int) complex128 { return d[i] / s[i] })
		},
		call: func(d, s, _ []complex128, _ complex128) []complex128 { cmplxs.Div(d, s); return nil }},
	{name: "cmplxs.DivTo", to: true, nIn: 2, aliases: toAliases2, panics: true,
		ref: func(_, s, t []complex128, _ complex128) []complex128 {
			return mapC(len(s), func(i int) complex128 { return s[i] / t[i] })
		},
		call: func(d, s, t []complex128, _ complex128) []complex128 { return cmplxs.DivTo(d, s, t) }},
	{name: "cmplxs.Scale", nIn: 0, aliases: noAlias,
		ref: func(d, _, _ []complex128, a complex128) []complex128 {
			return mapC(len(d), func(i int) complex128 { return cmul(d[i], a) })
		},
		call: func(d, _, _ []complex128, a complex128) []complex128 { cmplxs.Scale(a, d); return nil }},
	{name: "cmplxs.ScaleTo", to: true, nIn: 1, aliases: toAliases1, panics: true,
		ref: func(_, s, _ []complex128, a complex128) []complex128 {
			return mapC(len(s), func(i int) complex128 { return cmul(a, s[i]) })
		},
		call: func(d, s, _ []complex128, a complex128) []complex128 { return cmplxs.ScaleTo(d, a, s) }},
	// ScaleReal uses real(a) only.
	{name: "cmplxs.ScaleReal", nIn: 0, aliases: noAlias,
		ref: func(d, _, _ []complex128, a complex128) []complex128 {
			f := real(a)
			return mapC(len(d), func(i int) complex128 { return complex(f*real(d[i]), f*imag(d[i])) })
		},
		call: func(d, _, _ []complex128, a complex128) []complex128 { cmplxs.ScaleReal(real(a), d); return nil }},
	{name: "cmplxs.ScaleRealTo", to: true, nIn: 1, aliases: toAliases1, panics: true,
		ref: func(_, s, _ []complex128, a complex128) []complex128 {
			f := real(a)
			return mapC(len(s), func(i int) complex128 { return complex(f*real(s[i]), f*imag(s[i])) })
		},
		call: func(d, s, _ []complex128, a complex128) []complex128 { return cmplxs.ScaleRealTo(d, real(a), s) }},
	{name: "cmplxs.CumSum", to: true, nIn: 1, aliases: toAliases1, panics: true, cumOK: cumSumCOK,
		ref: func(_, s, _ []complex128, _ complex128) []complex128 {
			out := make([]complex128, len(s))
			var acc complex128
			for i, v := range s {
				if i == 0 {
					acc = v
				} else {
					acc = cadd(acc, v)
				}
				out[i] = acc
			}
			return out
		},
		call: func(d, s, _ []complex128, _ complex128) []complex128 { return cmplxs.CumSum(d, s) }},
	{name: "cmplxs.CumProd", to: true, nIn: 1, aliases: toAliases1, panics: true, cumOK: cumProdCOK,
		ref: func(_, s, _ []complex128, _ complex128) []complex128 {
			out := make([]complex128, len(s))
			var acc complex128
			for i, v := range s {
				if i == 0 {
					acc = v
				} else {
					acc = cmul(acc, v)
				}
				out[i] = acc
			}
			return out
		},
		call: func(d, s, _ []complex128, _ complex128) []complex128 { return cmplxs.CumProd(d, s) }},
	{name: "cmplxs.Reverse", nIn: 0, aliases: noAlias,
		ref: func(d, _, _ []complex128, _ complex128) []complex128 {
			return mapC(len(d), func(i int) complex128 { return d[len(d)-1-i] })
		},
		call: func(d, _, _ []complex128, _ complex128) []complex128 { cmplxs.Reverse(d); return nil }},
}

// coperand returns complex data for an operand slot.
func (c vcase) coperand(slot int) []complex128 {
	var re, im []float64
	if slot == 0 {
		re, im = c.operand(0), c.operand(1)
	} else {
		cc := c
		cc.X, cc.Y = nil, nil
		re, im = cc.operand(2*slot+2), cc.operand(2*slot+3)
	}
	out := make([]complex128, c.N)
	for i := range out {
		out[i] = complex(re[i], im[i])
	}
	return out
}

func (c vcase) foperand(slot int) []float64 { return c.operand(slot) }

func grow[T any](x []T) []T {
	var z T
	if len(x) > 0 {
		z = x[len(x)-1]
	}
	return append(append([]T(nil), x...), z)
}

// elemOps are the comparisons of an element type.
type elemOps[T any] struct {
	same    func(x, y T) bool    // the required equality
	numEq   func(x, y T) bool    // numeric equality (+0 == -0, NaN == NaN)
	absDiff func(x, y T) float64 // |x-y|
	abs     func(x T) float64
}

var floatOps = elemOps[float64]{
	same:    vk.SameBits,
	numEq:   func(x, y float64) bool { return x == y || (x != x && y != y) },
	absDiff: func(x, y float64) float64 { return math.Abs(x - y) },
	abs:     math.Abs,
}

var complexOps = elemOps[complex128]{
	same:    sameC,
	numEq:   numEqC,
	absDiff: func(x, y complex128) float64 { return cmplx.Abs(x - y) },
	abs:     cmplx.Abs,
}

// mismatchKey classifies a mismatch at index i of an element-wise result:
// "signed-zero" when the values are numerically equal, "value" otherwise.
func mismatchKey[T any](ops elemOps[T], got, want []T, i int) string {
	if ops.numEq(got[i], want[i]) {
		return "signed-zero"
	}
	return "value"
}

// cumSumOK checks every prefix sum within 2(i+4)u*sum|s[j]| of the
// double-double prefix sum; prefixes whose absolute sum is in the overflow
// range are skipped. The sign of a zero is not asserted.
func cumSumOK(got, in []float64) (int, float64, float64, bool) {
	var d, a vk.DD
	for i, v := range in {
		d.Add(v)
		a.Add(math.Abs(v))
		S := a.Float()
		if !(S < math.MaxFloat64/4) {
			return 0, 0, 0, true
		}
		tol := vk.SumBound(i+1, vk.Eps, S) + float64(i+1)*5e-324
		if !(math.Abs(got[i]-d.Float()) <= tol) {
			return i, d.Float(), tol, false
		}
	}
	return 0, 0, 0, true
}

// cumProdOK checks every prefix product within the relative bound 2(i+4)u of
// the exact product while the factors stay far from overflow and underflow
// in every association order (sum of |log2| below 900).
func cumProdOK(got, in []float64) (int, float64, float64, bool) {
	p := new(big.Float).SetPrec(300).SetInt64(1)
	l2 := 0.0
	for i, v := range in {
		if !isFinite(v) {
			return 0, 0, 0, true
		}
		if v != 0 {
			l2 += math.Abs(math.Log2(math.Abs(v)))
		}
		if l2 > 900 {
			return 0, 0, 0, true
		}
		p.Mul(p, bigOf(v))
		want := bigF64(p)
		tol := 2 * float64(i+4) * vk.Eps * math.Abs(want)
		if !(math.Abs(got[i]-want) <= tol) {
			return i, want, tol, false
		}
	}
	return 0, 0, 0, true
}

func cumSumCOK(got, in []complex128) (int, float64, float64, bool) {
	re, im := make([]float64, len(in)), make([]float64, len(in))
	gr, gi := make([]float64, len(in)), make([]float64, len(in))
	for i := range in {
		re[i], im[i], gr[i], gi[i] = real(in[i]), imag(in[i]), real(got[i]), imag(got[i])
	}
	if i, w, t, ok := cumSumOK(gr, re); !ok {
		return i, w, t, false
	}
	return cumSumOK(gi, im)
}

func cumProdCOK(got, in []complex128) (int, float64, float64, bool) {
	re := new(big.Float).SetPrec(300).SetInt64(1)
	im := new(big.Float).SetPrec(300)
	l2, mod := 0.0, 1.0
	mul := func(a, b *big.Float) *big.Float { return new(big.Float).SetPrec(300).Mul(a, b) }
	for i, v := range in {
		m := cmplx.Abs(v)
		if !isFinite(m) {
			return 0, 0, 0, true
		}
		for _, c := range []float64{real(v), imag(v)} {
			if c != 0 {
				l2 += math.Abs(math.Log2(math.Abs(c))) // components, so that no partial product under/overflows
			}
		}
		if l2 > 900 {
			return 0, 0, 0, true
		}
		a, b := bigOf(real(v)), bigOf(imag(v))
		nr := new(big.Float).SetPrec(300).Sub(mul(re, a), mul(im, b))
		ni := new(big.Float).SetPrec(300).Add(mul(re, b), mul(im, a))
		re, im = nr, ni
		mod *= m
		tol := 4*float64(i+4)*vk.Eps*mod + 5e-324
		if !(math.Abs(real(got[i])-bigF64(re)) <= tol) {
			return i, bigF64(re), tol, false
		}
		if !(math.Abs(imag(got[i])-bigF64(im)) <= tol) {
			return i, bigF64(im), tol, false
		}
	}
	return 0, 0, 0, true
}

// runElem executes one element-wise case.
func runElem[T any](sub string, c vcase, sp elemSpec[T], data func(slot int) []T, a T, ops elemOps[T], odd bool) *vk.Failure {
	same := ops.same
	if sp.numeric {
		same = ops.numEq
	}
	record(sub, c, odd)
	n := c.N
	// Original contents: slot 0 is the in-place destination or the first input.
	var dData, sData, tData []T
	if sp.to {
		sData = data(0)
		if sp.nIn == 2 {
			tData = data(1)
		}
		dData = data(2) // garbage that must be overwritten
	} else {
		dData = data(0)
		if sp.nIn == 1 {
			sData = data(1)
		}
	}
	bad := c.Bad
	if !sp.panics {
		bad = 0
	}
	switch bad {
	case 1:
		dData = grow(dData)
	case 2:
		if sp.nIn == 2 {
			tData = grow(tData)
		} else {
			sData = grow(sData)
		}
	case 3:
		if sp.nIn == 2 {
			sData = grow(sData)
		} else {
			dData = grow(dData)
		}
	}
	alias := c.Alias
	if bad != 0 || !sp.to {
		alias = aliasNone
	}
	if alias == aliasDst2 && sp.nIn < 2 {
		alias = aliasDst1
	}
	var db, sb, tb *buf[T]
	if sData != nil || sp.nIn >= 1 {
		sb = place(c, 1, sData)
	}
	if sp.nIn == 2 {
		tb = place(c, 2, tData)
	}
	switch alias {
	case aliasDst1:
		db = sb
	case aliasDst2:
		db = tb
	default:
		db = place(c, 0, dData)
	}
	var d, s, t []T
	d = db.s
	if sb != nil {
		s = sb.s
	}
	if tb != nil {
		t = tb.s
	}
	all := []*buf[T]{db, sb, tb}
	if bad != 0 {
		if f := vk.MustPanic(sp.name+"/length-panic", func() { sp.call(d, s, t, a) }); f != nil {
			return f
		}
		return checkBufs(sp.name+" (panicking call)", all, all)
	}
	want := sp.ref(dData, sData, tData, a)
	var ret []T
	if f := vk.MustReturn(sp.name+"/returns", func() { ret = sp.call(d, s, t, a) }); f != nil {
		return f
	}
	if len(d) != n || len(want) != n {
		return vk.Failf(sp.name+"/length", "destination length %d, want %d", len(d), n)
	}
	if sp.cumOK != nil {
		if i, w, tol, ok := sp.cumOK(d, sData); !ok {
			return vk.Failf(sp.name+"/bound", "%v: dst[%d] = %v, exact prefix value %v, bound %g", c, i, d[i], w, tol)
		}
		// Outside the magnitude range of the bound above, re-association must at
		// least not overflow or underflow where the documented left-to-right
		// loop (want) stays comfortably inside the float64 range.
		for i := range want {
			wr, wi, gr, gi := parts(want[i]), partsIm(want[i]), parts(d[i]), partsIm(d[i])
			for k, w := range []float64{wr, wi} {
				g := []float64{gr, gi}[k]
				lost := isFinite(w) && math.Abs(w) < 1e290 && !isFinite(g)
				// a zero where the loop gives a normal number is an underflow only
				// for products (for sums it is legitimate cancellation)
				lost = lost || (strings.Contains(sp.name, "CumProd") && math.Abs(w) > 1e-290 && isFinite(w) && g == 0)
				if lost {
					return vk.Failf(sp.name+"/spurious-overflow-or-underflow", "%v: dst[%d] = %v, the documented left-to-right loop gives %v", c, i, d[i], want[i])
				}
			}
		}
		want = append([]T(nil), d...) // the returned slice must hold the same values
	}
	for i := range want {
		if !same(d[i], want[i]) {
			return vk.Failf(sp.name+"/"+mismatchKey(ops, d, want, i), "%v: dst[%d] = %v, scalar loop gives %v", c, i, d[i], want[i])
		}
	}
	if sp.to {
		if len(ret) != n {
			return vk.Failf(sp.name+"/result", "returned slice has length %d, want %d", len(ret), n)
		}
		for i := range want {
			if !same(ret[i], want[i]) {
				return vk.Failf(sp.name+"/result", "returned[%d] = %v, want %v", i, ret[i], want[i])
			}
		}
	}
	var ro []*buf[T]
	if sb != nil && sb != db {
		ro = append(ro, sb)
	}
	if tb != nil && tb != db {
		ro = append(ro, tb)
	}
	return checkBufs(sp.name, all, ro)
}

var (
	floatsElemIdx = map[string]int{}
	cmplxsElemIdx = map[string]int{}
)

func init() {
	for i, sp := range floatsElem {
		floatsElemIdx[sp.name] = i
	}
	for i, sp := range cmplxsElem {
		cmplxsElemIdx[sp.name] = i
	}
}

func checkFloatsElem(c vcase) *vk.Failure {
	i, ok := floatsElemIdx[c.Fn]
	if !ok {
		return vk.Failf("bad-case", "unknown function %q", c.Fn)
	}
	odd := hasOdd(c.operand(0), c.operand(1))
	return runElem("floats-elem", c, floatsElem[i], c.foperand, float64(c.A), floatOps, odd)
}

func checkCmplxsElem(c vcase) *vk.Failure {
	i, ok := cmplxsElemIdx[c.Fn]
	if !ok {
		return vk.Failf("bad-case", "unknown function %q", c.Fn)
	}
	odd := hasOdd(c.operand(0), c.operand(1))
	return runElem("cmplxs-elem", c, cmplxsElem[i], c.coperand, complex(float64(c.A), float64(c.B)), complexOps, odd)
}

// elemGrid enumerates (function, n, offset, class, alias, bad) with the other
// fields derived from a hash of the index.
func elemGrid[T any](specs []elemSpec[T]) []vcase {
	var out []vcase
	scal := []float64{2.5, -1, 0.3, 1, 0, -0.75, 3}
	for fi, sp := range specs {
		for n := 0; n < gridLens(); n++ {
			for off := 0; off < 8; off++ {
				for _, cls := range []int{clsFinite, clsExtreme} {
					for _, al := range sp.aliases {
						h := mixHash(fi, n, off, cls, al)
						c := vcase{Fn: sp.name, N: n, Off: off, Cls: cls, Alias: al, Seed: h,
							Place: int(h>>8) % 3, Trim: (h>>12)&1 == 1,
							A: vk.F(scal[int(h>>16)%len(scal)]), B: vk.F(scal[int(h>>24)%len(scal)])}
						if cls == clsExtreme && (h>>32)%3 == 0 {
							c.A = vk.F(extremes[int(h>>40)%len(extremes)])
						}
						out = append(out, c)
					}
				}
			}
			if sp.panics && n < 10 {
				for bad := 1; bad <= 3; bad++ {
					h := mixHash(fi, n, bad, 77)
					out = append(out, vcase{Fn: sp.name, N: n, Off: int(h % 8), Bad: bad, Seed: h, Place: int(h>>8) % 3, A: 2, B: 1})
				}
			}
		}
	}
	return out
}

func drawElem[T any](specs []elemSpec[T]) func(t *rapid.T) vcase {
	return func(t *rapid.T) vcase {
		sp := specs[rapid.IntRange(0, len(specs)-1).Draw(t, "fn")]
		c := vcase{Fn: sp.name}
		drawShape(t, &c, []int{clsFinite, clsFinite, clsExtreme}, sp.aliases, 10000)
		c.A = vk.F(drawScalar(t, "a", c.Cls))
		c.B = vk.F(drawScalar(t, "b", c.Cls))
		if sp.panics && rapid.IntRange(0, 9).Draw(t, "badp") == 0 {
			c.Bad = rapid.IntRange(1, 3).Draw(t, "bad")
		}
		return c
	}
}

func TestFloatsElem(t *testing.T) {
	grid := elemGrid(floatsElem)
	vk.Enumerate(t, "floats-elem", len(grid), func(i int) vcase { return grid[i] }, checkFloatsElem)
	vk.Run(t, "floats-elem", vk.Opts{Quick: 12000, Thorough: 150000, NoCrumb: true}, drawElem(floatsElem), checkFloatsElem)
}

func TestCmplxsElem(t *testing.T) {
	grid := elemGrid(cmplxsElem)
	vk.Enumerate(t, "cmplxs-elem", len(grid), func(i int) vcase { return grid[i] }, checkCmplxsElem)
	vk.Run(t, "cmplxs-elem", vk.Opts{Quick: 12000, Thorough: 150000, NoCrumb: true}, drawElem(cmplxsElem), checkCmplxsElem)
}

// parts / partsIm return the real and imaginary part of a float64 or
// complex128 element (imaginary part 0 for a float64).
func parts(v any) float64 {
	switch x := v.(type) {
	case float64:
		return x
	case complex128:
		return real(x)
	}
	return 0
}

func partsIm(v any) float64 {
	if x, ok := v.(complex128); ok {
		return imag(x)
	}
	return 0
}
