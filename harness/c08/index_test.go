package c08

// Search, ordering and predicate helpers of floats: exact agreement with the
// documented index / sequence / truth value, including ties and the NaN/Inf
// cases.

import (
	"math"
	"sort"
	"testing"

	"gonum.org/v1/gonum/floats"
	"gonum.org/v1/gonum/floats/scalar"
	"pgregory.net/rapid"
	"verifharness/vk"
)

var indexFns = []struct {
	name    string
	classes []int
}{
	{"floats.MaxIdx", []int{clsFinite, clsExtreme, clsSpecial}},
	{"floats.MinIdx", []int{clsFinite, clsExtreme, clsSpecial}},
	{"floats.Max", []int{clsFinite, clsExtreme, clsSpecial}},
	{"floats.Min", []int{clsFinite, clsExtreme, clsSpecial}},
	{"floats.NearestIdx", []int{clsFinite, clsExtreme, clsSpecial}},
	{"floats.Within", []int{clsFinite, clsExtreme, clsSpecial}},
	{"floats.Find", []int{clsFinite, clsExtreme}},
	{"floats.Count", []int{clsFinite, clsExtreme}},
	{"floats.Argsort", []int{clsFinite, clsExtreme}},
	{"floats.ArgsortStable", []int{clsFinite, clsExtreme}},
	{"floats.HasNaN", []int{clsFinite, clsSpecial}},
	{"floats.Equal", []int{clsFinite, clsExtreme, clsSpecial}},
	{"floats.Same", []int{clsFinite, clsExtreme, clsSpecial}},
	{"floats.EqualApprox", []int{clsFinite, clsExtreme, clsSpecial}},
	{"floats.EqualFunc", []int{clsFinite, clsSpecial}},
	{"floats.EqualLengths", []int{clsFinite}},
}

// perturbed derives the second operand of the comparison predicates from x:
// K%4 == 0 identical copy, 1 one element changed, 2 independent data, 3 other
// length.
func perturbed(c vcase, x []float64) []float64 {
	r := vk.NewSplitMix(c.Seed + 77)
	y := append([]float64(nil), x...)
	switch c.K % 4 {
	case 1:
		if len(y) > 0 {
			p := r.Intn(len(y))
			switch r.Intn(6) {
			case 0:
				y[p] = math.Nextafter(y[p], math.Inf(1))
			case 1:
				y[p] = -y[p]
			case 2:
				y[p] = math.NaN()
			case 3:
				if math.IsNaN(y[p]) {
					y[p] = math.Float64frombits(math.Float64bits(y[p]) ^ 0x5) // other NaN payload
				} else {
					y[p] += float64(c.B)
				}
			case 4:
				y[p] *= 1 + float64(c.B)
			default:
				y[p] = r.Finite()
			}
		}
	case 2:
		return c.operand(1)
	case 3:
		if len(y) > 0 && r.Intn(2) == 0 {
			return y[:len(y)-1]
		}
		return append(y, 1)
	}
	return y
}

func firstExtreme(s []float64, max bool) int {
	ind, have := 0, false
	var best float64
	for i, v := range s {
		if math.IsNaN(v) {
			continue
		}
		if !have || (max && v > best) || (!max && v < best) {
			best, ind, have = v, i, true
		}
	}
	return ind
}

func allNaN(s []float64) bool {
	for _, v := range s {
		if !math.IsNaN(v) {
			return false
		}
	}
	return true
}

// withinRef is the documented result of Within for a sorted s.
func withinRef(s []float64, v float64) int {
	for i := 0; i+1 < len(s); i++ {
		if s[i] <= v && v < s[i+1] {
			return i
		}
	}
	return -1
}

func checkIndex(c vcase) *vk.Failure {
	const sub = "index"
	n := c.N
	x := c.operand(0)
	record(sub, c, hasOdd(x))
	key := c.Fn
	v := float64(c.A)
	xb := place(c, 0, x)
	bufs := []*buf[float64]{xb}
	ro := func() *vk.Failure { return checkBufs(key, bufs, bufs) }
	switch c.Fn {
	case "floats.MaxIdx", "floats.MinIdx", "floats.Max", "floats.Min":
		max := c.Fn == "floats.MaxIdx" || c.Fn == "floats.Max"
		val := c.Fn == "floats.Max" || c.Fn == "floats.Min"
		var gi int
		var gv float64
		call := func() {
			switch c.Fn {
			case "floats.MaxIdx":
				gi = floats.MaxIdx(xb.s)
			case "floats.MinIdx":
				gi = floats.MinIdx(xb.s)
			case "floats.Max":
				gv = floats.Max(xb.s)
			case "floats.Min":
				gv = floats.Min(xb.s)
			}
		}
		if n == 0 {
			return vk.MustPanic(key+"/empty-panic", call)
		}
		if f := vk.MustReturn(key+"/returns", call); f != nil {
			return f
		}
		if f := ro(); f != nil {
			return f
		}
		if allNaN(x) {
			vk.Class(c.Fn + "/all-NaN")
			if val {
				if !math.IsNaN(gv) {
					return vk.Failf(key+"/all-nan", "all elements NaN but got %v", gv)
				}
			} else if gi < 0 || gi >= n {
				return vk.Failf(key+"/range", "index %d out of range", gi)
			}
			return nil
		}
		w := firstExtreme(x, max)
		if val {
			// the value of the first extremal element (±0 are equal but the first one must be returned)
			if !vk.SameBits(gv, x[w]) {
				return vk.Failf(key+"/value", "%v: got %v want x[%d]=%v", c, gv, w, x[w])
			}
		} else if gi != w {
			return vk.Failf(key+"/index", "%v: got %d want %d (first extremal non-NaN element)", c, gi, w)
		}
		return nil

	case "floats.NearestIdx":
		var g int
		call := func() { g = floats.NearestIdx(xb.s, v) }
		if n == 0 {
			return vk.MustPanic(key+"/empty-panic", call)
		}
		if f := vk.MustReturn(key+"/returns", call); f != nil {
			return f
		}
		if f := ro(); f != nil {
			return f
		}
		if g < 0 || g >= n {
			return vk.Failf(key+"/range", "index %d out of range", g)
		}
		w := nearestRef(x, v)
		if w >= 0 && g != w {
			return vk.Failf(key+"/index", "%v: got %d want %d", c, g, w)
		}
		return nil

	case "floats.Within":
		// K selects sorted (even) or raw (odd) data.
		s := append([]float64(nil), x...)
		if c.K%2 == 0 {
			sort.Float64s(s)
		}
		sb := place(c, 1, s)
		bufs = append(bufs, sb)
		var g int
		call := func() { g = floats.Within(sb.s, v) }
		if n < 2 || !sort.Float64sAreSorted(s) {
			vk.Class("floats.Within/must-panic")
			if f := vk.MustPanic(key+"/panic", call); f != nil {
				return f
			}
			return ro()
		}
		if f := vk.MustReturn(key+"/returns", call); f != nil {
			return f
		}
		if f := ro(); f != nil {
			return f
		}
		w := withinRef(s, v)
		if g != w {
			if math.IsNaN(s[0]) && g >= 0 && g < n-1 && math.IsNaN(s[g]) && v < s[g+1] {
				// s[g] is NaN, so s[g] <= v is false: no index satisfies the documented relation.
				return vk.Failf(key+"/leading-nan", "Within(%v, %v) = %d but s[%d] is NaN; no i satisfies s[i] <= v < s[i+1]", s, v, g, g)
			}
			return vk.Failf(key+"/index", "Within(%v, %v) = %d, want %d", s, v, g, w)
		}
		return nil

	case "floats.Find", "floats.Count":
		pred := func(a float64) bool { return a > v }
		var want []int
		for i, a := range x {
			if pred(a) {
				want = append(want, i)
			}
		}
		if c.Fn == "floats.Count" {
			var g int
			if f := vk.MustReturn(key+"/returns", func() { g = floats.Count(pred, xb.s) }); f != nil {
				return f
			}
			if g != len(want) {
				return vk.Failf(key+"/count", "got %d want %d", g, len(want))
			}
			return ro()
		}
		k := c.K
		var inds []int
		switch (c.Seed >> 3) % 3 {
		case 1:
			inds = []int{-7, -8, -9}
		case 2:
			inds = make([]int, n+2)
		}
		var got []int
		var err error
		if f := vk.MustReturn(key+"/returns", func() { got, err = floats.Find(inds, pred, xb.s, k) }); f != nil {
			return f
		}
		exp := want
		wantErr := false
		switch {
		case k == 0:
			exp = nil
		case k > 0 && len(want) >= k:
			exp = want[:k]
		case k > 0:
			wantErr = true
		}
		if (err != nil) != wantErr {
			return vk.Failf(key+"/error", "k=%d found %d: err=%v", k, len(want), err)
		}
		if len(got) != len(exp) {
			return vk.Failf(key+"/indices", "k=%d got %v want %v", k, got, exp)
		}
		for i := range exp {
			if got[i] != exp[i] {
				return vk.Failf(key+"/indices", "k=%d got %v want %v", k, got, exp)
			}
		}
		return ro()

	case "floats.Argsort", "floats.ArgsortStable":
		stable := c.Fn == "floats.ArgsortStable"
		ib := place(c, 1, make([]int, n))
		call := func(d []float64, inds []int) func() {
			return func() {
				if stable {
					floats.ArgsortStable(d, inds)
				} else {
					floats.Argsort(d, inds)
				}
			}
		}
		if c.Bad != 0 {
			ib2 := place(c, 1, make([]int, n+1))
			if f := vk.MustPanic(key+"/length-panic", call(xb.s, ib2.s)); f != nil {
				return f
			}
			if !ib2.intact() || !ib2.unchanged() {
				return vk.Failf(key+"/panic-modified", "inds modified by a panicking call")
			}
			return ro()
		}
		if f := vk.MustReturn(key+"/returns", call(xb.s, ib.s)); f != nil {
			return f
		}
		if !xb.intact() || !ib.intact() {
			return vk.Failf(key+"/padding-modified", "padding modified")
		}
		d, inds := xb.s, ib.s
		seen := make([]bool, n)
		for i, p := range inds {
			if p < 0 || p >= n || seen[p] {
				return vk.Failf(key+"/permutation", "%v: inds=%v is not a permutation", c, inds)
			}
			seen[p] = true
			if !vk.SameBits(d[i], x[p]) {
				return vk.Failf(key+"/tracking", "%v: dst[%d]=%v but orig[inds[%d]=%d]=%v", c, i, d[i], i, p, x[p])
			}
			if i > 0 && !(d[i-1] <= d[i]) {
				return vk.Failf(key+"/sorted", "%v: dst[%d]=%v > dst[%d]=%v", c, i-1, d[i-1], i, d[i])
			}
			if stable && i > 0 && d[i-1] == d[i] && inds[i-1] > p {
				return vk.Failf(key+"/stability", "%v: equal elements %v out of original order: inds %d before %d", c, d[i], inds[i-1], p)
			}
		}
		return nil

	case "floats.HasNaN":
		var g bool
		if f := vk.MustReturn(key+"/returns", func() { g = floats.HasNaN(xb.s) }); f != nil {
			return f
		}
		if g != hasNaN(x) {
			return vk.Failf(key+"/value", "%v: got %v", c, g)
		}
		return ro()

	case "floats.Equal", "floats.Same", "floats.EqualApprox", "floats.EqualFunc":
		y := perturbed(c, x)
		cc := c
		cc.N = len(y)
		yb := place(cc, 1, y)
		bufs = append(bufs, yb)
		tol := math.Abs(float64(c.B))
		ncalls, order := 0, true
		fn := func(a, b float64) bool {
			// asymmetric so that swapped arguments are noticed
			if ncalls < len(x) && ncalls < len(y) && !(vk.SameBits(a, x[ncalls]) && vk.SameBits(b, y[ncalls])) {
				order = false
			}
			ncalls++
			return a <= b
		}
		var g bool
		if f := vk.MustReturn(key+"/returns", func() {
			switch c.Fn {
			case "floats.Equal":
				g = floats.Equal(xb.s, yb.s)
			case "floats.Same":
				g = floats.Same(xb.s, yb.s)
			case "floats.EqualApprox":
				g = floats.EqualApprox(xb.s, yb.s, tol)
			case "floats.EqualFunc":
				g = floats.EqualFunc(xb.s, yb.s, fn)
			}
		}); f != nil {
			return f
		}
		w := len(x) == len(y)
		if w {
			for i := range x {
				a, b := x[i], y[i]
				var ok bool
				switch c.Fn {
				case "floats.Equal":
					ok = a == b
				case "floats.Same":
					ok = a == b || (math.IsNaN(a) && math.IsNaN(b))
				case "floats.EqualApprox":
					ok = scalar.EqualWithinAbsOrRel(a, b, tol, tol) // checked on its own in scalar_test.go
				case "floats.EqualFunc":
					ok = a <= b
				}
				if !ok {
					w = false
					break
				}
			}
		}
		vk.Class(key + "/result=" + map[bool]string{true: "true", false: "false"}[w])
		if g != w {
			return vk.Failf(key+"/value", "%v: y=%v got %v want %v", c, y, g, w)
		}
		if c.Fn == "floats.EqualFunc" && !order {
			return vk.Failf(key+"/argument-order", "%v: f was not called with (s1[i], s2[i]) in order", c)
		}
		return ro()

	case "floats.EqualLengths":
		r := vk.NewSplitMix(c.Seed)
		k := c.K % 5
		if k < 0 {
			k = -k
		}
		sl := make([][]float64, k)
		want := true
		for i := range sl {
			l := n
			if r.Intn(4) == 0 {
				l = n + 1 + r.Intn(2)
			}
			sl[i] = make([]float64, l)
			if len(sl[i]) != len(sl[0]) {
				want = false
			}
		}
		if g := floats.EqualLengths(sl...); g != want {
			return vk.Failf(key+"/value", "k=%d got %v want %v", k, g, want)
		}
		return nil
	}
	return vk.Failf("bad-case", "unknown function %q", c.Fn)
}

// nearestRef returns the documented result of NearestIdx, or -1 when the
// documentation does not determine it (v NaN, or all elements NaN).
func nearestRef(s []float64, v float64) int {
	switch {
	case math.IsNaN(v) || allNaN(s):
		return -1
	case math.IsInf(v, 1):
		return firstExtreme(s, true)
	case math.IsInf(v, -1):
		return firstExtreme(s, false)
	}
	ind, have := -1, false
	best := 0.0
	for i, a := range s {
		d := math.Abs(v - a)
		if math.IsNaN(d) {
			continue
		}
		if !have || d < best {
			best, ind, have = d, i, true
		}
	}
	return ind
}

// probeValue chooses the query value of NearestIdx/Within/Find from the data.
func probeValue(x []float64, cls int, h uint64) float64 {
	r := vk.NewSplitMix(h)
	if len(x) == 0 {
		return r.Finite()
	}
	a, b := x[r.Intn(len(x))], x[r.Intn(len(x))]
	switch r.Intn(8) {
	case 0:
		return a
	case 1:
		return a/2 + b/2 // halfway: ties
	case 2:
		return math.Nextafter(a, math.Inf(1))
	case 3:
		return math.Nextafter(a, math.Inf(-1))
	case 4:
		if cls == clsSpecial {
			return specials[r.Intn(len(specials))]
		}
		return r.Finite()
	case 5:
		if cls != clsFinite {
			return extremes[r.Intn(len(extremes))]
		}
		return a + 0.5
	}
	return r.Finite()
}

func indexGrid() []vcase {
	var out []vcase
	for fi, fn := range indexFns {
		for n := 0; n < gridLens(); n++ {
			for off := 0; off < 8; off++ {
				for _, cls := range fn.classes {
					for rep := 0; rep < 2; rep++ {
						h := mixHash(fi, n, off, cls, rep)
						c := vcase{Fn: fn.name, N: n, Off: off, Cls: cls, Seed: h, Place: int(h>>8) % 3, Trim: (h>>12)&1 == 1,
							K: int(h>>16)%7 - 2, B: vk.F([]float64{0, 1e-9, 0.25, 1}[int(h>>24)%4])}
						c.A = vk.F(probeValue(c.operand(0), cls, h>>5))
						if fn.name == "floats.Within" {
							c.K = 0
							if rep == 1 && (h>>20)%4 == 0 {
								c.K = 1 // raw (mostly unsorted) data
							}
						}
						out = append(out, c)
					}
				}
			}
			if (fn.name == "floats.Argsort" || fn.name == "floats.ArgsortStable") && n < 10 {
				h := mixHash(fi, n, 99)
				out = append(out, vcase{Fn: fn.name, N: n, Off: int(h % 8), Bad: 1, Seed: h, Place: int(h>>8) % 3})
			}
		}
	}
	return out
}

func drawIndex(t *rapid.T) vcase {
	fn := indexFns[rapid.IntRange(0, len(indexFns)-1).Draw(t, "fn")]
	c := vcase{Fn: fn.name}
	maxN := 10000
	if fn.name == "floats.EqualLengths" {
		maxN = 64
	}
	drawShape(t, &c, fn.classes, noAlias, maxN)
	c.K = rapid.IntRange(-2, 6).Draw(t, "k")
	c.B = vk.F(rapid.SampledFrom([]float64{0, 1e-12, 1e-9, 0.25, 1, 5e-324, 1e300}).Draw(t, "tol"))
	if rapid.Bool().Draw(t, "vdata") {
		c.A = vk.F(probeValue(c.operand(0), c.Cls, c.Seed>>7))
	} else {
		c.A = vk.F(drawScalar(t, "v", c.Cls))
	}
	if fn.name == "floats.Within" {
		c.K = 0
		if rapid.IntRange(0, 7).Draw(t, "raw") == 0 {
			c.K = 1
		}
	}
	if (fn.name == "floats.Argsort" || fn.name == "floats.ArgsortStable") && rapid.IntRange(0, 19).Draw(t, "badp") == 0 {
		c.Bad = 1
	}
	return c
}

func TestIndex(t *testing.T) {
	grid := indexGrid()
	vk.Enumerate(t, "index", len(grid), func(i int) vcase { return grid[i] }, checkIndex)
	vk.Run(t, "index", vk.Opts{Quick: 12000, Thorough: 150000, NoCrumb: true}, drawIndex, checkIndex)
}
