package c08

// cmplxs: conversions (Abs, Real, Imag, Complex), predicates and index
// helpers. The element-wise functions are in elem_test.go, the reductions in
// reduce_test.go, Span/LogSpan in span_test.go.

import (
	"math"
	"math/cmplx"
	"testing"

	"gonum.org/v1/gonum/cmplxs"
	"gonum.org/v1/gonum/cmplxs/cscalar"
	"pgregory.net/rapid"
	"verifharness/vk"
)

var cindexFns = []struct {
	name    string
	classes []int
}{
	{"cmplxs.Abs", []int{clsFinite, clsExtreme}},
	{"cmplxs.Real", []int{clsFinite, clsExtreme, clsSpecial}},
	{"cmplxs.Imag", []int{clsFinite, clsExtreme, clsSpecial}},
	{"cmplxs.Complex", []int{clsFinite, clsExtreme, clsSpecial}},
	{"cmplxs.Count", []int{clsFinite, clsExtreme}},
	{"cmplxs.Find", []int{clsFinite, clsExtreme}},
	{"cmplxs.HasNaN", []int{clsFinite, clsSpecial}},
	{"cmplxs.Equal", []int{clsFinite, clsExtreme, clsSpecial}},
	{"cmplxs.Same", []int{clsFinite, clsExtreme, clsSpecial}},
	{"cmplxs.EqualApprox", []int{clsFinite, clsExtreme, clsSpecial}},
	{"cmplxs.EqualFunc", []int{clsFinite, clsSpecial}},
	{"cmplxs.EqualLengths", []int{clsFinite}},
	{"cmplxs.MaxAbsIdx", []int{clsFinite, clsExtreme, clsSpecial}},
	{"cmplxs.MinAbsIdx", []int{clsFinite, clsExtreme, clsSpecial}},
	{"cmplxs.MaxAbs", []int{clsFinite, clsExtreme, clsSpecial}},
	{"cmplxs.MinAbs", []int{clsFinite, clsExtreme, clsSpecial}},
	{"cmplxs.NearestIdx", []int{clsFinite, clsExtreme, clsSpecial}},
}

// firstAbsExtreme: first index of the extremal cmplx.Abs over the elements
// that are not cmplx.IsNaN; -1 when there is none.
func firstAbsExtreme(z []complex128, max bool) int {
	ind := -1
	var best float64
	for i, v := range z {
		if cmplx.IsNaN(v) {
			continue
		}
		a := cmplx.Abs(v)
		if ind < 0 || (max && a > best) || (!max && a < best) {
			best, ind = a, i
		}
	}
	return ind
}

func cNearestRef(z []complex128, v complex128) int {
	switch {
	case cmplx.IsNaN(v):
		return -1
	case cmplx.IsInf(v):
		return firstAbsExtreme(z, true)
	}
	ind := -1
	var best float64
	for i, a := range z {
		d := cmplx.Abs(v - a)
		if math.IsNaN(d) {
			continue
		}
		if ind < 0 || d < best {
			best, ind = d, i
		}
	}
	return ind
}

func checkCIndex(c vcase) *vk.Failure {
	const sub = "cmplxs-index"
	n := c.N
	z := c.coperand(0)
	record(sub, c, hasOdd(flatten(z)))
	key := c.Fn
	v := complex(float64(c.A), float64(c.V))
	zb := place(c, 0, z)
	cb := []*buf[complex128]{zb}
	ro := func() *vk.Failure { return checkBufs(key, cb, cb) }
	switch c.Fn {
	case "cmplxs.Abs", "cmplxs.Real", "cmplxs.Imag":
		m := n
		if c.Bad != 0 {
			m = n + 1
		}
		db := place(c, 1, expand(vk.NewSplitMix(c.Seed+3), clsFinite, m))
		var ret []float64
		call := func() {
			switch c.Fn {
			case "cmplxs.Abs":
				cmplxs.Abs(db.s, zb.s)
				ret = db.s
			case "cmplxs.Real":
				ret = cmplxs.Real(db.s, zb.s)
			default:
				ret = cmplxs.Imag(db.s, zb.s)
			}
		}
		if c.Bad != 0 {
			if f := vk.MustPanic(key+"/length-panic", call); f != nil {
				return f
			}
			if !db.intact() || !db.unchanged() {
				return vk.Failf(key+"/panic-modified", "dst modified by a panicking call")
			}
			return ro()
		}
		if f := vk.MustReturn(key+"/returns", call); f != nil {
			return f
		}
		if !db.intact() {
			return vk.Failf(key+"/padding-modified", "padding of dst modified")
		}
		if len(ret) != n {
			return vk.Failf(key+"/result", "result length %d", len(ret))
		}
		for i, w := range z {
			var want float64
			switch c.Fn {
			case "cmplxs.Abs":
				want = cmplx.Abs(w)
			case "cmplxs.Real":
				want = real(w)
			default:
				want = imag(w)
			}
			if !vk.SameBits(db.s[i], want) || !vk.SameBits(ret[i], want) {
				return vk.Failf(key+"/value", "%v: dst[%d] = %v want %v", c, i, db.s[i], want)
			}
		}
		return ro()

	case "cmplxs.Complex":
		re, im := c.operand(0), c.operand(1)
		if c.Bad == 2 {
			im = grow(im)
		}
		rb, ib := place(c, 1, re), place(c, 2, im)
		m := n
		if c.Bad == 1 {
			m = n + 1
		}
		db := place(c, 0, make([]complex128, m))
		fb := []*buf[float64]{rb, ib}
		var ret []complex128
		call := func() { ret = cmplxs.Complex(db.s, rb.s, ib.s) }
		if c.Bad != 0 {
			if f := vk.MustPanic(key+"/length-panic", call); f != nil {
				return f
			}
			if !db.intact() || !db.unchanged() {
				return vk.Failf(key+"/panic-modified", "dst modified by a panicking call")
			}
			return checkBufs(key, fb, fb)
		}
		if f := vk.MustReturn(key+"/returns", call); f != nil {
			return f
		}
		if !db.intact() {
			return vk.Failf(key+"/padding-modified", "padding of dst modified")
		}
		if len(ret) != n {
			return vk.Failf(key+"/result", "result length %d", len(ret))
		}
		for i := range re {
			want := complex(re[i], im[i])
			if !sameC(db.s[i], want) || !sameC(ret[i], want) {
				return vk.Failf(key+"/value", "%v: dst[%d] = %v want %v", c, i, db.s[i], want)
			}
		}
		return checkBufs(key, fb, fb)

	case "cmplxs.Count", "cmplxs.Find":
		thr := math.Abs(float64(c.A))
		pred := func(a complex128) bool { return real(a) > imag(a)+thr-1 }
		var want []int
		for i, a := range z {
			if pred(a) {
				want = append(want, i)
			}
		}
		if c.Fn == "cmplxs.Count" {
			var g int
			if f := vk.MustReturn(key+"/returns", func() { g = cmplxs.Count(pred, zb.s) }); f != nil {
				return f
			}
			if g != len(want) {
				return vk.Failf(key+"/count", "got %d want %d", g, len(want))
			}
			return ro()
		}
		k := c.K
		var inds []int
		switch (c.Seed >> 3) % 3 {
		case 1:
			inds = []int{-7, -8, -9}
		case 2:
			inds = make([]int, n+2)
		}
		var got []int
		var err error
		if f := vk.MustReturn(key+"/returns", func() { got, err = cmplxs.Find(inds, pred, zb.s, k) }); f != nil {
			return f
		}
		exp := want
		wantErr := false
		switch {
		case k == 0:
			exp = nil
		case k > 0 && len(want) >= k:
			exp = want[:k]
		case k > 0:
			wantErr = true
		}
		if (err != nil) != wantErr {
			return vk.Failf(key+"/error", "k=%d found %d: err=%v", k, len(want), err)
		}
		if len(got) != len(exp) {
			return vk.Failf(key+"/indices", "k=%d got %v want %v", k, got, exp)
		}
		for i := range exp {
			if got[i] != exp[i] {
				return vk.Failf(key+"/indices", "k=%d got %v want %v", k, got, exp)
			}
		}
		return ro()

	case "cmplxs.HasNaN":
		w := false
		for _, a := range z {
			if cmplx.IsNaN(a) {
				w = true
			}
		}
		if g := cmplxs.HasNaN(zb.s); g != w {
			return vk.Failf(key+"/value", "%v: got %v", c, g)
		}
		return ro()

	case "cmplxs.Equal", "cmplxs.Same", "cmplxs.EqualApprox", "cmplxs.EqualFunc":
		// second operand: perturb the real and imaginary parts like the float64 predicates
		re := mapF(n, func(i int) float64 { return real(z[i]) })
		im := mapF(n, func(i int) float64 { return imag(z[i]) })
		c2 := c
		c2.K = c.K / 4
		re2, im2 := perturbed(c, re), im
		if c.K%4 == 2 || c.K%8 >= 4 {
			im2 = perturbed(c2, im)
		}
		m := len(re2)
		if len(im2) < m {
			m = len(im2)
		}
		y := make([]complex128, m)
		for i := range y {
			y[i] = complex(re2[i], im2[i])
		}
		yb := place(c, 1, y)
		cb = append(cb, yb)
		tol := math.Abs(float64(c.B))
		ncalls, order := 0, true
		fn := func(a, b complex128) bool {
			if ncalls < len(z) && ncalls < len(y) && !(sameC(a, z[ncalls]) && sameC(b, y[ncalls])) {
				order = false
			}
			ncalls++
			return real(a) <= real(b)
		}
		var g bool
		if f := vk.MustReturn(key+"/returns", func() {
			switch c.Fn {
			case "cmplxs.Equal":
				g = cmplxs.Equal(zb.s, yb.s)
			case "cmplxs.Same":
				g = cmplxs.Same(zb.s, yb.s)
			case "cmplxs.EqualApprox":
				g = cmplxs.EqualApprox(zb.s, yb.s, tol)
			default:
				g = cmplxs.EqualFunc(zb.s, yb.s, fn)
			}
		}); f != nil {
			return f
		}
		w := len(z) == len(y)
		infNaN := false // an element pair is the same only part by part (an infinite and a NaN part)
		if w {
			for i := range z {
				a, b := z[i], y[i]
				var ok bool
				switch c.Fn {
				case "cmplxs.Equal":
					ok = a == b
				case "cmplxs.Same":
					ok = a == b || (cmplx.IsNaN(a) && cmplx.IsNaN(b))
					if !ok && sameParts(a, b) {
						ok, infNaN = true, true
					}
				case "cmplxs.EqualApprox":
					ok = cscalar.EqualWithinAbsOrRel(a, b, tol, tol)
				default:
					ok = real(a) <= real(b)
				}
				if !ok {
					w = false
					break
				}
			}
		}
		vk.Class(key + "/result=" + map[bool]string{true: "true", false: "false"}[w])
		if g != w {
			if w && infNaN {
				return vk.Failf(key+"/inf-nan-parts", "Same reports false for slices whose elements have the same parts (an element has an infinite and a NaN part): %v vs %v", z, y)
			}
			return vk.Failf(key+"/value", "%v: y=%v got %v want %v", c, y, g, w)
		}
		if c.Fn == "cmplxs.EqualFunc" && !order {
			return vk.Failf(key+"/argument-order", "%v: f was not called with (s1[i], s2[i]) in order", c)
		}
		return ro()

	case "cmplxs.EqualLengths":
		r := vk.NewSplitMix(c.Seed)
		k := c.K % 5
		if k < 0 {
			k = -k
		}
		sl := make([][]complex128, k)
		want := true
		for i := range sl {
			l := n
			if r.Intn(4) == 0 {
				l = n + 1 + r.Intn(2)
			}
			sl[i] = make([]complex128, l)
			if len(sl[i]) != len(sl[0]) {
				want = false
			}
		}
		if g := cmplxs.EqualLengths(sl...); g != want {
			return vk.Failf(key+"/value", "k=%d got %v want %v", k, g, want)
		}
		return nil

	case "cmplxs.MaxAbsIdx", "cmplxs.MinAbsIdx", "cmplxs.MaxAbs", "cmplxs.MinAbs":
		max := c.Fn == "cmplxs.MaxAbsIdx" || c.Fn == "cmplxs.MaxAbs"
		val := c.Fn == "cmplxs.MaxAbs" || c.Fn == "cmplxs.MinAbs"
		var gi int
		var gv complex128
		call := func() {
			switch c.Fn {
			case "cmplxs.MaxAbsIdx":
				gi = cmplxs.MaxAbsIdx(zb.s)
			case "cmplxs.MinAbsIdx":
				gi = cmplxs.MinAbsIdx(zb.s)
			case "cmplxs.MaxAbs":
				gv = cmplxs.MaxAbs(zb.s)
			default:
				gv = cmplxs.MinAbs(zb.s)
			}
		}
		if n == 0 {
			return vk.MustPanic(key+"/empty-panic", call)
		}
		if f := vk.MustReturn(key+"/returns", call); f != nil {
			return f
		}
		if f := ro(); f != nil {
			return f
		}
		w := firstAbsExtreme(z, max)
		if w < 0 {
			vk.Class(c.Fn + "/all-NaN")
			if !val && (gi < 0 || gi >= n) {
				return vk.Failf(key+"/range", "index %d out of range", gi)
			}
			return nil
		}
		if val {
			if !sameC(gv, z[w]) {
				return vk.Failf(key+"/value", "%v: got %v want z[%d]=%v", c, gv, w, z[w])
			}
		} else if gi != w {
			return vk.Failf(key+"/index", "%v: got %d want %d", c, gi, w)
		}
		return nil

	case "cmplxs.NearestIdx":
		var g int
		call := func() { g = cmplxs.NearestIdx(zb.s, v) }
		if n == 0 {
			return vk.MustPanic(key+"/empty-panic", call)
		}
		if f := vk.MustReturn(key+"/returns", call); f != nil {
			return f
		}
		if f := ro(); f != nil {
			return f
		}
		if g < 0 || g >= n {
			return vk.Failf(key+"/range", "index %d out of range", g)
		}
		if w := cNearestRef(z, v); w >= 0 && g != w {
			return vk.Failf(key+"/index", "%v: v=%v got %d want %d", c, v, g, w)
		}
		return nil
	}
	return vk.Failf("bad-case", "unknown function %q", c.Fn)
}

func cindexGrid() []vcase {
	var out []vcase
	for fi, fn := range cindexFns {
		for n := 0; n < gridLens(); n++ {
			for off := 0; off < 8; off++ {
				for _, cls := range fn.classes {
					h := mixHash(fi, n, off, cls)
					c := vcase{Fn: fn.name, N: n, Off: off, Cls: cls, Seed: h, Place: int(h>>8) % 3, Trim: (h>>12)&1 == 1,
						K: int(h>>16)%7 - 2, B: vk.F([]float64{0, 1e-9, 0.25, 1}[int(h>>24)%4])}
					c.A = vk.F(probeValue(c.operand(0), cls, h>>5))
					c.V = vk.F(probeValue(c.operand(1), cls, h>>7))
					out = append(out, c)
				}
			}
			switch fn.name {
			case "cmplxs.Abs", "cmplxs.Real", "cmplxs.Imag", "cmplxs.Complex":
				if n < 10 {
					for bad := 1; bad <= 2; bad++ {
						h := mixHash(fi, n, bad, 99)
						out = append(out, vcase{Fn: fn.name, N: n, Off: int(h % 8), Bad: bad, Seed: h, Place: int(h>>8) % 3})
					}
				}
			}
		}
	}
	return out
}

func drawCIndex(t *rapid.T) vcase {
	fn := cindexFns[rapid.IntRange(0, len(cindexFns)-1).Draw(t, "fn")]
	c := vcase{Fn: fn.name}
	maxN := 10000
	if fn.name == "cmplxs.EqualLengths" {
		maxN = 64
	}
	drawShape(t, &c, fn.classes, noAlias, maxN)
	c.K = rapid.IntRange(-2, 9).Draw(t, "k")
	c.B = vk.F(rapid.SampledFrom([]float64{0, 1e-12, 1e-9, 0.25, 1, 5e-324, 1e300}).Draw(t, "tol"))
	if rapid.Bool().Draw(t, "vdata") {
		c.A = vk.F(probeValue(c.operand(0), c.Cls, c.Seed>>7))
		c.V = vk.F(probeValue(c.operand(1), c.Cls, c.Seed>>9))
	} else {
		c.A = vk.F(drawScalar(t, "vr", c.Cls))
		c.V = vk.F(drawScalar(t, "vi", c.Cls))
	}
	switch fn.name {
	case "cmplxs.Abs", "cmplxs.Real", "cmplxs.Imag", "cmplxs.Complex":
		if rapid.IntRange(0, 19).Draw(t, "badp") == 0 {
			c.Bad = rapid.IntRange(1, 2).Draw(t, "bad")
		}
	}
	return c
}

func TestCmplxsIndex(t *testing.T) {
	grid := cindexGrid()
	vk.Enumerate(t, "cmplxs-index", len(grid), func(i int) vcase { return grid[i] }, checkCIndex)
	vk.Run(t, "cmplxs-index", vk.Opts{Quick: 10000, Thorough: 120000, NoCrumb: true}, drawCIndex, checkCIndex)
}
