package c08

// Span, LogSpan and NearestIdxForSpan of floats; Span and LogSpan of cmplxs.

import (
	"math"
	"math/big"
	"math/cmplx"
	"testing"
	"unsafe"

	"gonum.org/v1/gonum/cmplxs"
	"gonum.org/v1/gonum/floats"
	"pgregory.net/rapid"
	"verifharness/vk"
)

var spanFns = []string{"floats.Span", "floats.NearestIdxForSpan", "floats.LogSpan", "cmplxs.Span", "cmplxs.LogSpan"}

// spanExact returns the exact point l + i(u-l)/(n-1) rounded to float64 and
// the acceptance tolerance for the documented formula evaluated in float64:
// d = fl(u-l), step = fl(d/(n-1)), p = fl(step*i), r = fl(l+p) give
// |r - x_i| <= u|x_i| + 3u|u-l|i/(n-1) + (i+1)*2^-1075; slack factor 2.
func spanExact(n int, l, u float64, i int) (x, tol float64) {
	return newSpanRef(n, l, u).at(i)
}

// spanRef evaluates exact span points.
type spanRef struct {
	bl, d, den *big.Float
}

func newSpanRef(n int, l, u float64) *spanRef {
	bl, bu := bigOf(l), bigOf(u)
	return &spanRef{bl: bl, d: new(big.Float).SetPrec(400).Sub(bu, bl), den: bigOf(float64(n - 1))}
}

func (r *spanRef) at(i int) (x, tol float64) {
	t := new(big.Float).SetPrec(400).Mul(r.d, bigOf(float64(i)))
	t.Quo(t, r.den)
	part := math.Abs(bigF64(t))
	t.Add(t, r.bl)
	x = bigF64(t)
	tol = 2*vk.Eps*(math.Abs(x)+3*part) + float64(i+2)*5e-324
	return x, tol
}

// spanIdx returns the indices that are compared: all of them up to 160
// points, otherwise both ends and a pseudo-random selection.
func spanIdx(n int, seed uint64) []int {
	if n <= 160 {
		out := make([]int, n)
		for i := range out {
			out[i] = i
		}
		return out
	}
	var out []int
	for i := 0; i < 24; i++ {
		out = append(out, i, n-1-i)
	}
	r := vk.NewSplitMix(seed)
	for i := 0; i < 64; i++ {
		out = append(out, r.Intn(n))
	}
	return out
}

// spanFormula evaluates Span's documented float64 formula (the hypothetical
// vector of NearestIdxForSpan).
func spanFormula(n int, l, u float64) []float64 {
	step := (u - l) / float64(n-1)
	return mapF(n, func(i int) float64 { return l + float64(step*float64(i)) })
}

// spanSpecial returns the fill pattern of Span for a non-finite bound.
func spanSpecial(n int, l, u float64) []float64 {
	s := make([]float64, n)
	nan := math.NaN()
	switch {
	case math.IsNaN(l):
		for i := range s {
			s[i] = nan
		}
		s[n-1] = u
	case math.IsNaN(u):
		for i := range s {
			s[i] = nan
		}
		s[0] = l
	case math.IsInf(l, 0) && math.IsInf(u, 0):
		for i := 0; i < n/2; i++ {
			s[i], s[n-1-i] = l, u
		}
		if n%2 == 1 {
			s[n/2] = 0
			if l == u {
				s[n/2] = l
			}
		}
	case math.IsInf(l, 0):
		for i := range s {
			s[i] = l
		}
		s[n-1] = u
	default: // u infinite
		for i := range s {
			s[i] = u
		}
		s[0] = l
	}
	return s
}

func shares[T any](a, b []T) bool {
	if len(a) != len(b) {
		return false
	}
	return len(a) == 0 || unsafe.Pointer(&a[0]) == unsafe.Pointer(&b[0])
}

func checkSpan(c vcase) *vk.Failure {
	const sub = "span"
	n := c.N
	l, u, v := float64(c.A), float64(c.B), float64(c.V)
	record(sub, c, hasOdd([]float64{l, u, v}))
	key := c.Fn
	switch c.Fn {
	case "floats.Span", "floats.LogSpan":
		logs := c.Fn == "floats.LogSpan"
		if logs {
			l, u = math.Abs(l), math.Abs(u)
			if !(l >= 1e-300 && l <= 1e300 && u >= 1e-300 && u <= 1e300) {
				l, u = 1+math.Mod(l, 7), 1+math.Mod(u, 5)
				if !isFinite(l) || !isFinite(u) {
					l, u = 2, 3
				}
			}
		}
		garbage := expand(vk.NewSplitMix(c.Seed), clsFinite, n)
		db := place(c, 0, garbage)
		bufs := []*buf[float64]{db}
		var ret []float64
		call := func() {
			if logs {
				ret = floats.LogSpan(db.s, l, u)
			} else {
				ret = floats.Span(db.s, l, u)
			}
		}
		if n < 2 {
			if f := vk.MustPanic(key+"/short-panic", call); f != nil {
				return f
			}
			return checkBufs(key, bufs, bufs)
		}
		if f := vk.MustReturn(key+"/returns", call); f != nil {
			return f
		}
		if f := checkBufs(key, bufs, nil); f != nil {
			return f
		}
		if !shares(ret, db.s) {
			return vk.Failf(key+"/result", "the returned slice is not dst")
		}
		d := db.s
		if logs {
			ref := newSpanRef(n, math.Log(l), math.Log(u))
			for _, i := range spanIdx(n, c.Seed) {
				x, tol := ref.at(i)
				want := math.Exp(x)
				rel := 2*(tol+vk.Eps*math.Abs(x)) + 16*vk.Eps
				if !(math.Abs(d[i]-want) <= rel*want) {
					return vk.Failf(key+"/value", "LogSpan(n=%d, %v, %v)[%d] = %v want %v (rel %g bound %g)", n, l, u, i, d[i], want, math.Abs(d[i]-want)/want, rel)
				}
			}
			return nil
		}
		if !isFinite(l) || !isFinite(u) {
			vk.Class("floats.Span/special-bounds")
			want := spanSpecial(n, l, u)
			if i, ok := sameSlice(d, want); !ok {
				return vk.Failf(key+"/special-pattern", "Span(n=%d, %v, %v)[%d] = %v want %v", n, l, u, i, d[i], want[i])
			}
			return nil
		}
		// When |u-l| is within a factor two of MaxFloat64 the documented formula
		// can overflow (u-l itself, or step*i); failures there have their own key.
		zone := !(math.Abs(u-l) <= math.MaxFloat64/2)
		valueKey, firstKey, lastKey := key+"/value", key+"/first", key+"/last"
		if zone {
			vk.Class("floats.Span/range-overflow-zone")
			valueKey, firstKey, lastKey = key+"/range-overflow", key+"/range-overflow", key+"/range-overflow"
		}
		if d[0] != l {
			return vk.Failf(firstKey, "Span(n=%d, %v, %v)[0] = %v, documented l", n, l, u, d[0])
		}
		ref := newSpanRef(n, l, u)
		for _, i := range spanIdx(n, c.Seed) {
			x, tol := ref.at(i)
			if !(math.Abs(d[i]-x) <= tol) {
				k := valueKey
				if i == n-1 {
					k = lastKey
				}
				return vk.Failf(k, "Span(n=%d, %v, %v)[%d] = %v want %v (diff %g tol %g)", n, l, u, i, d[i], x, math.Abs(d[i]-x), tol)
			}
		}
		// "The first element of the destination is l, the final element of the
		// destination is u." (Outside the overflow zone, where the interpolation
		// formula gives u exactly as well.)
		if d[n-1] != u {
			return vk.Failf(key+"/last-is-not-u", "Span(n=%d, %v, %v)[%d] = %v, documented u (off by %g)", n, l, u, n-1, d[n-1], d[n-1]-u)
		}
		return nil

	case "floats.NearestIdxForSpan":
		var g int
		call := func() { g = floats.NearestIdxForSpan(n, l, u, v) }
		if n < 2 {
			return vk.MustPanic(key+"/short-panic", call)
		}
		if f := vk.MustReturn(key+"/returns", call); f != nil {
			return f
		}
		finiteBounds := isFinite(l) && isFinite(u)
		if finiteBounds && !(math.Abs(u-l) <= math.MaxFloat64/2) {
			vk.Class("floats.NearestIdxForSpan/range-overflow-zone")
			if g < 0 || g >= n {
				if isFinite(v) && math.IsInf(u-l, 0) {
					return vk.Failf(key+"/huge-range-index", "NearestIdxForSpan(%d, %v, %v, %v) = %d out of range (u-l overflows)", n, l, u, v, g)
				}
				return vk.Failf(key+"/range", "NearestIdxForSpan(%d, %v, %v, %v) = %d out of range", n, l, u, v, g)
			}
			// u-l may overflow in float64; the exact position is still well defined.
			if isFinite(v) {
				if tf := spanPosition(n, l, u, v); math.Abs(float64(g)-tf) > 0.5+8*float64(n)*vk.Eps {
					return vk.Failf(key+"/huge-range-index", "NearestIdxForSpan(%d, %v, %v, %v) = %d but the exact position is %v", n, l, u, v, g, tf)
				}
			}
			return nil
		}
		if g < 0 || g >= n {
			if finiteBounds && isFinite(v) && math.IsInf(float64(n-1)/(u-l), 0) {
				return vk.Failf(key+"/tiny-range-index", "NearestIdxForSpan(%d, %v, %v, %v) = %d out of range ((n-1)/(u-l) overflows)", n, l, u, v, g)
			}
			return vk.Failf(key+"/range", "NearestIdxForSpan(%d, %v, %v, %v) = %d out of range", n, l, u, v, g)
		}
		if !finiteBounds || math.IsNaN(v) {
			// Special cases defined by Span: exactly NearestIdx(Span(...), v).
			vk.Class("floats.NearestIdxForSpan/special")
			var s []float64
			if finiteBounds {
				s = spanFormula(n, l, u)
			} else {
				s = spanSpecial(n, l, u)
			}
			w := nearestRef(s, v)
			if math.IsNaN(v) || allNaN(s) {
				w = 0 // NearestIdx returns 0 here
			}
			// Documented exceptions to the equivalence with NearestIdx (ties
			// between elements at infinite distance): "a finite v is nearest to
			// the elements holding the infinity with the sign of v, and a v equal
			// to an infinite u is nearest to the final element".
			switch {
			case math.IsInf(l, 0) && math.IsInf(u, 0) && l != u && n%2 == 0 && isFinite(v):
				w = 0
				if math.Signbit(v) != math.Signbit(l) {
					w = n / 2
				}
			case isFinite(l) && math.IsInf(u, 0) && v == u:
				w = n - 1
			}
			if g != w {
				return vk.Failf(key+"/special", "NearestIdxForSpan(%d, %v, %v, %v) = %d, want %d (span %v)", n, l, u, v, g, w, clip(s))
			}
			return nil
		}
		s := spanFormula(n, l, u)
		w := nearestRef(s, v)
		if math.IsInf(v, 0) {
			if s[g] != s[w] {
				return vk.Failf(key+"/infinite-v", "NearestIdxForSpan(%d, %v, %v, %v) = %d, NearestIdx(Span) = %d", n, l, u, v, g, w)
			}
			return nil
		}
		if l == u {
			if g != 0 {
				return vk.Failf(key+"/degenerate", "l == u but index %d", g)
			}
			return nil
		}
		// (a) position check in exact arithmetic: t = (v-l)(n-1)/(u-l), |g - clamp(t)| <= 1/2 + 8nu.
		tf := spanPosition(n, l, u, v)
		if math.Abs(float64(g)-tf) > 0.5+8*float64(n)*vk.Eps {
			return vk.Failf(key+"/position", "NearestIdxForSpan(%d, %v, %v, %v) = %d but the exact position is %v", n, l, u, v, g, tf)
		}
		// (b) against NearestIdx over the Span vector: the same index, or a
		// point whose distance exceeds the minimum by rounding only.
		if g != w {
			M := math.Max(math.Max(math.Abs(l), math.Abs(u)), math.Abs(v))
			if !(math.Abs(s[g]-v) <= math.Abs(s[w]-v)+64*vk.Eps*M+5e-323) {
				return vk.Failf(key+"/nearest", "NearestIdxForSpan(%d, %v, %v, %v) = %d (distance %g) but NearestIdx(Span) = %d (distance %g)", n, l, u, v, g, math.Abs(s[g]-v), w, math.Abs(s[w]-v))
			}
			vk.Class("floats.NearestIdxForSpan/halfway-other-index")
		}
		return nil

	case "cmplxs.Span", "cmplxs.LogSpan":
		logs := c.Fn == "cmplxs.LogSpan"
		zl, zu := complex(l, u), complex(v, float64(c.W))
		if logs {
			fix := func(z complex128) complex128 {
				if a := cmplx.Abs(z); !(a >= 1e-100 && a <= 1e100) {
					return complex(1.5, 0.5)
				}
				return z
			}
			zl, zu = fix(zl), fix(zu)
		}
		db := place(c, 0, make([]complex128, n))
		bufs := []*buf[complex128]{db}
		var ret []complex128
		call := func() {
			if logs {
				ret = cmplxs.LogSpan(db.s, zl, zu)
			} else {
				ret = cmplxs.Span(db.s, zl, zu)
			}
		}
		if n < 2 {
			if f := vk.MustPanic(key+"/short-panic", call); f != nil {
				return f
			}
			return checkBufs(key, bufs, bufs)
		}
		if f := vk.MustReturn(key+"/returns", call); f != nil {
			return f
		}
		if f := checkBufs(key, bufs, nil); f != nil {
			return f
		}
		if !shares(ret, db.s) {
			return vk.Failf(key+"/result", "the returned slice is not dst")
		}
		d := db.s
		if logs {
			a, b := cmplx.Log(zl), cmplx.Log(zu)
			rr, ri := newSpanRef(n, real(a), real(b)), newSpanRef(n, imag(a), imag(b))
			for _, i := range spanIdx(n, c.Seed) {
				xr, tr := rr.at(i)
				xi, ti := ri.at(i)
				want := cmplx.Exp(complex(xr, xi))
				rel := 2*(tr+ti+vk.Eps*(math.Abs(xr)+math.Abs(xi))) + 32*vk.Eps
				if !(cmplx.Abs(d[i]-want) <= rel*cmplx.Abs(want)) {
					return vk.Failf(key+"/value", "LogSpan(n=%d, %v, %v)[%d] = %v want %v (bound %g)", n, zl, zu, i, d[i], want, rel)
				}
			}
			return nil
		}
		fl := []float64{real(zl), imag(zl), real(zu), imag(zu)}
		if !allFinite(fl) {
			vk.Class("cmplxs.Span/special-bounds")
			same := func(got, want complex128) bool {
				switch {
				case cmplx.IsNaN(want):
					return cmplx.IsNaN(got)
				case cmplx.IsInf(want):
					return cmplx.IsInf(got)
				}
				return got == want
			}
			for i := range d {
				var want complex128
				switch {
				case cmplx.IsNaN(zl):
					want = cmplx.NaN()
					if i == n-1 {
						want = zu
					}
				case cmplx.IsNaN(zu):
					want = cmplx.NaN()
					if i == 0 {
						want = zl
					}
				case cmplx.IsInf(zl) && cmplx.IsInf(zu):
					want = cmplx.Inf()
				case cmplx.IsInf(zl):
					want = zl
					if i == n-1 {
						want = zu
					}
				default:
					want = zu
					if i == 0 {
						want = zl
					}
				}
				if !same(d[i], want) {
					return vk.Failf(key+"/special-pattern", "Span(n=%d, %v, %v)[%d] = %v want %v", n, zl, zu, i, d[i], want)
				}
			}
			return nil
		}
		if !(math.Abs(real(zu)-real(zl)) <= math.MaxFloat64/2) || !(math.Abs(imag(zu)-imag(zl)) <= math.MaxFloat64/2) {
			vk.Class("cmplxs.Span/range-overflow")
			return nil
		}
		if d[0] != zl {
			return vk.Failf(key+"/first", "Span(n=%d, %v, %v)[0] = %v, documented l", n, zl, zu, d[0])
		}
		rr, ri := newSpanRef(n, real(zl), real(zu)), newSpanRef(n, imag(zl), imag(zu))
		for _, i := range spanIdx(n, c.Seed) {
			xr, tr := rr.at(i)
			xi, ti := ri.at(i)
			if !(math.Abs(real(d[i])-xr) <= tr) || !(math.Abs(imag(d[i])-xi) <= ti) {
				return vk.Failf(key+"/value", "Span(n=%d, %v, %v)[%d] = %v want (%v,%v) tol (%g,%g)", n, zl, zu, i, d[i], xr, xi, tr, ti)
			}
		}
		if d[n-1] != zu {
			return vk.Failf(key+"/last-is-not-u", "Span(n=%d, %v, %v)[%d] = %v, documented u", n, zl, zu, n-1, d[n-1])
		}
		return nil
	}
	return vk.Failf("bad-case", "unknown function %q", c.Fn)
}

// spanPosition returns the exact fractional index (v-l)(n-1)/(u-l) of v in
// the span, clamped to [0, n-1]. l != u, all arguments finite.
func spanPosition(n int, l, u, v float64) float64 {
	t := new(big.Float).SetPrec(400).Sub(bigOf(v), bigOf(l))
	t.Mul(t, bigOf(float64(n-1)))
	t.Quo(t, new(big.Float).SetPrec(400).Sub(bigOf(u), bigOf(l)))
	tf := bigF64(t)
	if tf < 0 {
		tf = 0
	}
	if tf > float64(n-1) {
		tf = float64(n - 1)
	}
	return tf
}

func clip(s []float64) []float64 {
	if len(s) > 12 {
		return s[:12]
	}
	return s
}

// spanQuery chooses v for NearestIdxForSpan: grid points, midpoints and their
// neighbours, the bounds, outside values.
func spanQuery(n int, l, u float64, h uint64) float64 {
	r := vk.NewSplitMix(h)
	if n < 2 || !isFinite(l) || !isFinite(u) {
		return r.Finite()
	}
	i := r.Intn(n)
	step := (u - l) / float64(n-1)
	p := l + step*float64(i)
	switch r.Intn(8) {
	case 0:
		return p
	case 1:
		return p + step/2
	case 2:
		return math.Nextafter(p+step/2, math.Inf(1))
	case 3:
		return math.Nextafter(p+step/2, math.Inf(-1))
	case 4:
		return p + step*r.Float()
	case 5:
		return l - math.Abs(step)*r.Float()*3
	case 6:
		return u + math.Abs(step)*r.Float()*3
	}
	return r.Finite()
}

var spanBounds = []float64{0, 1, -1, 2.5, -3, 7, 8.2, 100, -0.125, 1e-3}

func spanGrid() []vcase {
	var out []vcase
	sp := append(append([]float64{}, specials...), 0, 1, -2.5)
	for fi, fn := range spanFns {
		for n := 0; n < gridLens(); n++ {
			for off := 0; off < 8; off++ {
				for rep := 0; rep < 4; rep++ {
					h := mixHash(fi, n, off, rep)
					c := vcase{Fn: fn, N: n, Off: off, Seed: h, Place: int(h>>8) % 3, Trim: (h>>12)&1 == 1,
						A: vk.F(spanBounds[int(h>>16)%len(spanBounds)]), B: vk.F(spanBounds[int(h>>24)%len(spanBounds)])}
					if rep == 3 {
						c.Cls = clsExtreme
						c.A = vk.F(extremes[int(h>>16)%len(extremes)])
						if (h>>40)%2 == 0 {
							c.B = vk.F(extremes[int(h>>24)%len(extremes)])
						}
					}
					c.V = vk.F(spanQuery(n, float64(c.A), float64(c.B), h>>3))
					c.W = vk.F(spanBounds[int(h>>32)%len(spanBounds)])
					out = append(out, c)
				}
			}
		}
	}
	// every combination of special bounds and query values for small n
	for _, fn := range []string{"floats.Span", "floats.NearestIdxForSpan", "cmplxs.Span"} {
		for n := 2; n <= 7; n++ {
			for _, l := range sp {
				for _, u := range sp {
					for _, v := range sp {
						out = append(out, vcase{Fn: fn, N: n, Cls: clsSpecial, A: vk.F(l), B: vk.F(u), V: vk.F(v), W: vk.F(l), Seed: uint64(n)})
					}
				}
			}
		}
	}
	return out
}

func drawSpan(t *rapid.T) vcase {
	c := vcase{Fn: rapid.SampledFrom(spanFns).Draw(t, "fn")}
	drawShape(t, &c, []int{clsFinite, clsFinite, clsExtreme, clsSpecial}, noAlias, 10000)
	c.X, c.Y = nil, nil
	c.A = vk.F(drawScalar(t, "l", c.Cls))
	c.B = vk.F(drawScalar(t, "u", c.Cls))
	if rapid.Bool().Draw(t, "vgrid") {
		c.V = vk.F(spanQuery(c.N, float64(c.A), float64(c.B), c.Seed))
	} else {
		c.V = vk.F(drawScalar(t, "v", c.Cls))
	}
	c.W = vk.F(drawScalar(t, "w", c.Cls))
	return c
}

func TestSpan(t *testing.T) {
	grid := spanGrid()
	vk.Enumerate(t, "span", len(grid), func(i int) vcase { return grid[i] }, checkSpan)
	vk.Run(t, "span", vk.Opts{Quick: 6000, Thorough: 60000, NoCrumb: true}, drawSpan, checkSpan)
}
