package c08

// Reductions of floats and cmplxs (Dot, Sum, SumCompensated, Prod, Norm,
// Distance, LogSumExp): within the rounding bound 2(n+4)u*sum|terms| of a
// double-double reference; 2-norms by the overflow/underflow rules of the
// property.

import (
	"math"
	"math/big"
	"math/cmplx"
	"testing"

	"gonum.org/v1/gonum/cmplxs"
	"gonum.org/v1/gonum/floats"
	"pgregory.net/rapid"
	"verifharness/vk"
)

// reduceFns lists the functions of this group with their data classes.
var reduceFns = []struct {
	name    string
	classes []int
	twoIn   bool
	lNorm   bool // takes a norm order in A
}{
	{"floats.Dot", []int{clsFinite, clsExtreme}, true, false},
	{"floats.Sum", []int{clsFinite, clsExtreme}, false, false},
	{"floats.SumCompensated", []int{clsFinite, clsExtreme}, false, false},
	{"floats.Prod", []int{clsFinite}, false, false},
	{"floats.Norm", []int{clsFinite, clsExtreme, clsSpecial}, false, true},
	{"floats.Distance", []int{clsFinite, clsExtreme, clsSpecial}, true, true},
	{"floats.LogSumExp", []int{clsFinite, clsExtreme}, false, false},
	{"cmplxs.Dot", []int{clsFinite, clsExtreme}, true, false},
	{"cmplxs.Sum", []int{clsFinite, clsExtreme}, false, false},
	{"cmplxs.Prod", []int{clsFinite}, false, false},
	{"cmplxs.Norm", []int{clsFinite, clsExtreme, clsSpecial}, false, true},
	{"cmplxs.Distance", []int{clsFinite, clsExtreme, clsSpecial}, true, true},
}

var normOrders = []float64{2, 2, 1, math.Inf(1), 3, 1.5, 0.5, 4}

// boundedSum checks got against the double-double sum of terms.
func boundedSum(key string, got float64, terms []float64, k int) *vk.Failure {
	want, S := sumRef(terms)
	if !(S < math.MaxFloat64/4) {
		vk.Class("reduce:overflow-range-skipped")
		return nil
	}
	tol := vk.SumBound(k, vk.Eps, S) + float64(k+1)*5e-324
	if !(math.Abs(got-want) <= tol) {
		return vk.Failf(key, "k=%d got %v want %v diff %g bound %g", k, got, want, math.Abs(got-want), tol)
	}
	return nil
}

// prodTerms returns the exact products x[i]*y[i] rounded to float64 pairs for
// the reference: hi parts and error parts.
func dotTerms(x, y []float64) (terms []float64, ok bool) {
	terms = make([]float64, 0, 2*len(x))
	for i := range x {
		p := x[i] * y[i]
		if math.IsInf(p, 0) {
			return nil, false
		}
		terms = append(terms, p, math.FMA(x[i], y[i], -p))
	}
	return terms, true
}

// prodData returns data for Prod whose partial products (in any order) stay
// far from overflow and underflow: magnitudes in [1/2, 2) with a spread that
// shrinks with n, and occasionally an exact zero or small integers.
func prodData(c vcase) []float64 {
	if len(c.X) == c.N && c.N > 0 {
		return vk.Fs(c.X)
	}
	r := vk.NewSplitMix(c.Seed + 11)
	x := make([]float64, c.N)
	k := float64(c.N/400 + 1)
	for i := range x {
		m := 1 + float64(r.Intn(33)-16)/(32*k)
		if c.N <= 40 && r.Intn(4) == 0 {
			m = float64(r.Intn(7) - 3) // small integer, possibly zero
		}
		if r.Intn(2) == 0 {
			m = -m
		}
		x[i] = m
	}
	return x
}

func log2Sum(x []float64) float64 {
	s := 0.0
	for _, v := range x {
		if v != 0 {
			s += math.Abs(math.Log2(math.Abs(v)))
		}
	}
	return s
}

// lpRef is the reference for the general p-norm of the non-negative values a.
func checkLp(key string, got float64, a []float64, p float64) *vk.Failure {
	n := len(a)
	var d vk.DD
	for _, v := range a {
		d.Add(math.Pow(v, p))
	}
	sum := d.Float()
	want := math.Pow(sum, 1/p)
	if sum == 0 || !isFinite(sum) || !isFinite(want) {
		if !vk.SameBits(got, want) && !(sum == 0 && got == 0) {
			return vk.Failf(key, "p=%v degenerate sum %v got %v want %v", p, sum, got, want)
		}
		return nil
	}
	rel := 8*vk.Eps*float64(n+4)*math.Max(1, 1/p) + 32*vk.Eps
	if math.Abs(got-want) > rel*want {
		return vk.Failf(key, "p=%v n=%d got %v want %v rel %g bound %g", p, n, got, want, math.Abs(got-want)/want, rel)
	}
	return nil
}

// checkSpecialL2 applies the NaN/Inf rules of the 2-norm to the per-element
// magnitudes; it reports whether the rules decided the case.
func checkSpecialL2(key string, got float64, mags []float64) (bool, *vk.Failure) {
	if hasNaN(mags) {
		if !math.IsNaN(got) {
			return true, vk.Failf(key+"-nan", "an element is NaN but the norm is %v", got)
		}
		return true, nil
	}
	if hasInf(mags) {
		if !math.IsInf(got, 1) {
			return true, vk.Failf(key+"-inf", "an element is infinite (none NaN) but the norm is %v", got)
		}
		return true, nil
	}
	return false, nil
}

// checkLinf: maximum absolute value; with NaN present either NaN or the
// maximum over the other elements is accepted here (the documentation only
// says "maximum absolute value"); that Distance treats NaN exactly as Norm
// does is asserted separately (key linf-nan-unlike-norm).
func checkLinf(key string, got float64, mags []float64) *vk.Failure {
	m := 0.0
	for _, a := range mags {
		if a > m {
			m = a
		}
	}
	if hasNaN(mags) {
		if math.IsNaN(got) || got == m {
			return nil
		}
		return vk.Failf(key, "got %v want NaN or %v", got, m)
	}
	if got != m || math.Signbit(got) {
		return vk.Failf(key, "got %v want %v", got, m)
	}
	return nil
}

func flatten(z []complex128) []float64 {
	out := make([]float64, 0, 2*len(z))
	for _, v := range z {
		out = append(out, real(v), imag(v))
	}
	return out
}

func checkReduce(c vcase) *vk.Failure {
	const sub = "reduce"
	n := c.N
	L := float64(c.A)
	x, y := c.operand(0), c.operand(1)
	record(sub, c, hasOdd(x, y))
	key := c.Fn
	switch c.Fn {
	case "floats.Dot", "floats.Distance":
		xb, yb := place(c, 0, x), place(c, 1, y)
		bufs := []*buf[float64]{xb, yb}
		if c.Bad != 0 {
			yb = place(c, 1, grow(y))
			bufs[1] = yb
			if f := vk.MustPanic(key+"/length-panic", func() {
				if c.Fn == "floats.Dot" {
					floats.Dot(xb.s, yb.s)
				} else {
					floats.Distance(xb.s, yb.s, L)
				}
			}); f != nil {
				return f
			}
			return checkBufs(key, bufs, bufs)
		}
		var got float64
		if f := vk.MustReturn(key+"/returns", func() {
			if c.Fn == "floats.Dot" {
				got = floats.Dot(xb.s, yb.s)
			} else {
				got = floats.Distance(xb.s, yb.s, L)
			}
		}); f != nil {
			return f
		}
		if f := checkBufs(key, bufs, bufs); f != nil {
			return f
		}
		if c.Fn == "floats.Dot" {
			terms, ok := dotTerms(x, y)
			if !ok {
				vk.Class("reduce:overflow-range-skipped")
				return nil
			}
			return boundedSum(key+"/bound", got, terms, 2*n)
		}
		d := mapF(n, func(i int) float64 { return x[i] - y[i] })
		if math.IsInf(L, 1) && hasNaN(d) {
			// "Distance computes the L-norm of s - t. See Norm for special
			// cases": a NaN difference must be treated as Norm treats it.
			if nv := floats.Norm(d, L); !vk.SameBits(got, nv) {
				return vk.Failf(key+"/linf-nan-unlike-norm", "Distance(%v, %v, +Inf) = %v but Norm(s-t, +Inf) = %v", clip(x), clip(y), got, nv)
			}
		}
		return checkNormOf(key, got, d, L)
	case "floats.Sum", "floats.SumCompensated", "floats.Norm", "floats.LogSumExp", "floats.Prod":
		if c.Fn == "floats.Prod" {
			x = prodData(c)
		}
		xb := place(c, 0, x)
		bufs := []*buf[float64]{xb}
		if c.Fn == "floats.LogSumExp" && n == 0 {
			return vk.MustPanic(key+"/empty-panic", func() { floats.LogSumExp(xb.s) })
		}
		var got float64
		if f := vk.MustReturn(key+"/returns", func() {
			switch c.Fn {
			case "floats.Sum":
				got = floats.Sum(xb.s)
			case "floats.SumCompensated":
				got = floats.SumCompensated(xb.s)
			case "floats.Norm":
				got = floats.Norm(xb.s, L)
			case "floats.LogSumExp":
				got = floats.LogSumExp(xb.s)
			case "floats.Prod":
				got = floats.Prod(xb.s)
			}
		}); f != nil {
			return f
		}
		if f := checkBufs(key, bufs, bufs); f != nil {
			return f
		}
		switch c.Fn {
		case "floats.Sum":
			return boundedSum(key+"/bound", got, x, n)
		case "floats.SumCompensated":
			// Documented as more accurate than Sum: it must meet Sum's bound and
			// the bound of Neumaier's algorithm u|s| + (nu)^2*S (with slack 2).
			if f := boundedSum(key+"/bound", got, x, n); f != nil {
				return f
			}
			want, S := sumRef(x)
			if S < math.MaxFloat64/4 {
				nu := float64(n) * vk.Eps
				tol := 2*vk.Eps*math.Abs(want) + 2*nu*nu*S + 5e-324
				if !(math.Abs(got-want) <= tol) {
					return vk.Failf(key+"/compensated-bound", "n=%d got %v want %v diff %g bound %g", n, got, want, math.Abs(got-want), tol)
				}
			}
			return nil
		case "floats.Norm":
			return checkNormOf(key, got, x, L)
		case "floats.LogSumExp":
			return checkLogSumExp(key, got, x)
		case "floats.Prod":
			return checkProd(key, got, x)
		}
	case "cmplxs.Dot", "cmplxs.Distance":
		zx, zy := c.coperand(0), c.coperand(1)
		xb, yb := place(c, 0, zx), place(c, 1, zy)
		bufs := []*buf[complex128]{xb, yb}
		if c.Bad != 0 {
			yb = place(c, 1, grow(zy))
			bufs[1] = yb
			if f := vk.MustPanic(key+"/length-panic", func() {
				if c.Fn == "cmplxs.Dot" {
					cmplxs.Dot(xb.s, yb.s)
				} else {
					cmplxs.Distance(xb.s, yb.s, L)
				}
			}); f != nil {
				return f
			}
			return checkBufs(key, bufs, bufs)
		}
		var got complex128
		if f := vk.MustReturn(key+"/returns", func() {
			if c.Fn == "cmplxs.Dot" {
				got = cmplxs.Dot(xb.s, yb.s)
			} else {
				got = complex(cmplxs.Distance(xb.s, yb.s, L), 0)
			}
		}); f != nil {
			return f
		}
		if f := checkBufs(key, bufs, bufs); f != nil {
			return f
		}
		if c.Fn == "cmplxs.Dot" {
			// conj(x)*y = (ac+bd) + (ad-bc)i
			var re, im []float64
			for i := range zx {
				a, b, cc, d := real(zx[i]), imag(zx[i]), real(zy[i]), imag(zy[i])
				t1, ok1 := dotTerms([]float64{a, b}, []float64{cc, d})
				t2, ok2 := dotTerms([]float64{a, -b}, []float64{d, cc})
				if !ok1 || !ok2 {
					vk.Class("reduce:overflow-range-skipped")
					return nil
				}
				re = append(re, t1...)
				im = append(im, t2...)
			}
			if f := boundedSum(key+"/bound-real", real(got), re, 2*n+2); f != nil {
				return f
			}
			return boundedSum(key+"/bound-imag", imag(got), im, 2*n+2)
		}
		d := make([]complex128, n)
		for i := range d {
			d[i] = csub(zx[i], zy[i])
		}
		if math.IsInf(L, 1) {
			nan := false
			for _, v := range d {
				nan = nan || math.IsNaN(cmplx.Abs(v))
			}
			if nv := cmplxs.Norm(d, L); nan && math.IsNaN(nv) != math.IsNaN(real(got)) {
				return vk.Failf(key+"/linf-nan-unlike-norm", "Distance(s, t, +Inf) = %v but Norm(s-t, +Inf) = %v (a difference has a NaN modulus)", real(got), nv)
			}
		}
		return checkCNormOf(key, real(got), d, L)
	case "cmplxs.Sum", "cmplxs.Norm", "cmplxs.Prod":
		zx := c.coperand(0)
		if c.Fn == "cmplxs.Prod" {
			// unit-modulus-like factors: (cos, sin) of dyadic angles scaled by prodData magnitudes
			m := prodData(c)
			r := vk.NewSplitMix(c.Seed + 5)
			for i := range zx {
				switch r.Intn(4) {
				case 0:
					zx[i] = complex(m[i], 0)
				case 1:
					zx[i] = complex(0, m[i])
				default:
					zx[i] = complex(m[i]*0.8, m[i]*0.6)
				}
			}
		}
		xb := place(c, 0, zx)
		bufs := []*buf[complex128]{xb}
		var got complex128
		if f := vk.MustReturn(key+"/returns", func() {
			switch c.Fn {
			case "cmplxs.Sum":
				got = cmplxs.Sum(xb.s)
			case "cmplxs.Norm":
				got = complex(cmplxs.Norm(xb.s, L), 0)
			case "cmplxs.Prod":
				got = cmplxs.Prod(xb.s)
			}
		}); f != nil {
			return f
		}
		if f := checkBufs(key, bufs, bufs); f != nil {
			return f
		}
		switch c.Fn {
		case "cmplxs.Sum":
			re := mapF(n, func(i int) float64 { return real(zx[i]) })
			im := mapF(n, func(i int) float64 { return imag(zx[i]) })
			if f := boundedSum(key+"/bound-real", real(got), re, n); f != nil {
				return f
			}
			return boundedSum(key+"/bound-imag", imag(got), im, n)
		case "cmplxs.Norm":
			return checkCNormOf(key, real(got), zx, L)
		case "cmplxs.Prod":
			return checkCProd(key, got, zx)
		}
	}
	return vk.Failf("bad-case", "unknown function %q", c.Fn)
}

// checkNormOf checks the L-norm of the real vector d.
func checkNormOf(key string, got float64, d []float64, L float64) *vk.Failure {
	n := len(d)
	if n == 0 {
		if got != 0 {
			return vk.Failf(key+"/empty", "norm of an empty slice is %v", got)
		}
		return nil
	}
	mags := mapF(n, func(i int) float64 { return math.Abs(d[i]) })
	switch {
	case L == 2:
		if done, f := checkSpecialL2(key+"/l2", got, mags); done {
			return f
		}
		return checkL2(key+"/l2", got, d)
	case math.IsInf(L, 1):
		return checkLinf(key+"/linf", got, mags)
	}
	if !allFinite(d) {
		return nil // not covered by the documentation
	}
	if L == 1 {
		return boundedSum(key+"/l1", got, mags, n)
	}
	for _, a := range mags {
		if a != 0 && (a < 1e-60 || a > 1e60) {
			return nil // powers may overflow or underflow
		}
	}
	return checkLp(key+"/lp", got, mags, L)
}

// checkCNormOf checks the L-norm of the complex vector d.
func checkCNormOf(key string, got float64, d []complex128, L float64) *vk.Failure {
	n := len(d)
	if n == 0 {
		if got != 0 {
			return vk.Failf(key+"/empty", "norm of an empty slice is %v", got)
		}
		return nil
	}
	mags := mapF(n, func(i int) float64 { return cmplx.Abs(d[i]) })
	flat := flatten(d)
	switch {
	case L == 2:
		if !allFinite(flat) {
			// cmplx.Abs semantics: infinite if a component is infinite, else NaN if a component is NaN.
			_, f := checkSpecialL2(key+"/l2", got, mags)
			return f
		}
		return checkL2(key+"/l2", got, flat)
	case math.IsInf(L, 1):
		if !allFinite(flat) {
			return checkLinf(key+"/linf", got, mags)
		}
		m := 0.0
		for _, a := range mags {
			m = math.Max(m, a)
		}
		if got != m && !(math.Abs(got-m) <= 4*vk.Eps*m) {
			return vk.Failf(key+"/linf", "got %v want %v", got, m)
		}
		return nil
	}
	if !allFinite(flat) || !allFinite(mags) {
		return nil
	}
	if L == 1 {
		// each |z| carries up to 2 ulp of error of Hypot
		_, S := sumRef(mags)
		if S < math.MaxFloat64/4 {
			var dd vk.DD
			for i := range d {
				mant, e := scaledNorm([]float64{real(d[i]), imag(d[i])})
				dd.Add(math.Ldexp(mant, e))
			}
			tol := vk.SumBound(n+4, vk.Eps, S) + float64(n+1)*5e-324
			if !(math.Abs(got-dd.Float()) <= tol) {
				return vk.Failf(key+"/l1", "n=%d got %v want %v diff %g bound %g", n, got, dd.Float(), math.Abs(got-dd.Float()), tol)
			}
		}
		return nil
	}
	for _, a := range mags {
		if a != 0 && (a < 1e-60 || a > 1e60) {
			return nil
		}
	}
	return checkLp(key+"/lp", got, mags, L)
}

func checkLogSumExp(key string, got float64, x []float64) *vk.Failure {
	n := len(x)
	m := math.Inf(-1)
	for _, v := range x {
		if v > m {
			m = v
		}
	}
	var d vk.DD
	for _, v := range x {
		d.Add(math.Exp(v - m))
	}
	want := math.Log(d.Float()) + m
	if !isFinite(want) {
		return nil
	}
	tol := 4*vk.Eps*float64(n+8) + 4*vk.Eps*math.Abs(want)
	if !(math.Abs(got-want) <= tol) {
		return vk.Failf(key+"/value", "n=%d got %v want %v diff %g tol %g", n, got, want, math.Abs(got-want), tol)
	}
	return nil
}

func checkProd(key string, got float64, x []float64) *vk.Failure {
	n := len(x)
	if n == 0 {
		if got != 1 {
			return vk.Failf(key+"/empty", "Prod of an empty slice is %v, documented 1", got)
		}
		return nil
	}
	if !allFinite(x) || log2Sum(x) > 900 {
		return nil
	}
	p := new(big.Float).SetPrec(300).SetInt64(1)
	for _, v := range x {
		p.Mul(p, bigOf(v))
	}
	want := bigF64(p)
	tol := 2 * float64(n) * vk.Eps * math.Abs(want)
	if !(math.Abs(got-want) <= tol) {
		return vk.Failf(key+"/value", "n=%d got %v want %v diff %g tol %g", n, got, want, math.Abs(got-want), tol)
	}
	return nil
}

func checkCProd(key string, got complex128, z []complex128) *vk.Failure {
	n := len(z)
	if n == 0 {
		if got != 1 {
			return vk.Failf(key+"/empty", "Prod of an empty slice is %v, documented 1", got)
		}
		return nil
	}
	flat := flatten(z)
	if !allFinite(flat) {
		return nil
	}
	mags := mapF(n, func(i int) float64 { return cmplx.Abs(z[i]) })
	if log2Sum(mags) > 900 {
		return nil
	}
	re := new(big.Float).SetPrec(300).SetInt64(1)
	im := new(big.Float).SetPrec(300)
	mod := 1.0
	for i, v := range z {
		a, b := bigOf(real(v)), bigOf(imag(v))
		nr := new(big.Float).SetPrec(300).Sub(new(big.Float).SetPrec(300).Mul(re, a), new(big.Float).SetPrec(300).Mul(im, b))
		ni := new(big.Float).SetPrec(300).Add(new(big.Float).SetPrec(300).Mul(re, b), new(big.Float).SetPrec(300).Mul(im, a))
		re, im = nr, ni
		mod *= mags[i]
	}
	// each complex multiplication has a relative error of at most sqrt(5)u in modulus
	tol := 4*float64(n)*vk.Eps*mod*(1+8*float64(n)*vk.Eps) + 5e-324
	wr, wi := bigF64(re), bigF64(im)
	if !(math.Abs(real(got)-wr) <= tol) || !(math.Abs(imag(got)-wi) <= tol) {
		return vk.Failf(key+"/value", "n=%d got %v want (%v,%v) tol %g", n, got, wr, wi, tol)
	}
	return nil
}

func reduceGrid() []vcase {
	var out []vcase
	for fi, fn := range reduceFns {
		orders := []float64{0}
		if fn.lNorm {
			orders = []float64{2, 1, math.Inf(1), 3}
		}
		for n := 0; n < gridLens(); n++ {
			for off := 0; off < 8; off++ {
				for _, cls := range fn.classes {
					for oi, L := range orders {
						h := mixHash(fi, n, off, cls, oi)
						out = append(out, vcase{Fn: fn.name, N: n, Off: off, Cls: cls, Seed: h, A: vk.F(L),
							Place: int(h>>8) % 3, Trim: (h>>12)&1 == 1})
					}
				}
			}
			if fn.twoIn && n < 10 {
				h := mixHash(fi, n, 99)
				out = append(out, vcase{Fn: fn.name, N: n, Off: int(h % 8), Bad: 1, Seed: h, A: 2, Place: int(h>>8) % 3})
			}
		}
	}
	return out
}

func drawReduce(t *rapid.T) vcase {
	fn := reduceFns[rapid.IntRange(0, len(reduceFns)-1).Draw(t, "fn")]
	c := vcase{Fn: fn.name}
	maxN := 10000
	if fn.name == "floats.Prod" || fn.name == "cmplxs.Prod" {
		maxN = 3000
	}
	drawShape(t, &c, fn.classes, noAlias, maxN)
	if fn.lNorm {
		c.A = vk.F(rapid.SampledFrom(normOrders).Draw(t, "L"))
	}
	if fn.twoIn && rapid.IntRange(0, 19).Draw(t, "badp") == 0 {
		c.Bad = 1
	}
	return c
}

func TestReduce(t *testing.T) {
	grid := reduceGrid()
	vk.Enumerate(t, "reduce", len(grid), func(i int) vcase { return grid[i] }, checkReduce)
	vk.Run(t, "reduce", vk.Opts{Quick: 12000, Thorough: 150000, NoCrumb: true}, drawReduce, checkReduce)
}
