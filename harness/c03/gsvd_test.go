package c03

import (
	"fmt"
	"math"
	"strings"
	"testing"

	"gonum.org/v1/gonum/blas/blas64"
	"gonum.org/v1/gonum/lapack"
	"gonum.org/v1/gonum/lapack/lapack64"
	"pgregory.net/rapid"
	"verifharness/vk"
)

const iSentinel = -7777777

// emptyAFault re-keys the known runtime fault of the GSVD routines on an empty A
// (m == 0): Dggsvp3 evaluates a[n-l:] and Dtgsja a[n-l+j:] on a zero-length
// slice.
func emptyAFault(f *vk.Failure, m int) *vk.Failure {
	if f != nil && f.Key == "valid-call-panics" && m == 0 && strings.Contains(f.Msg, "slice bounds out of range") {
		return vk.Failf("empty-a-runtime-fault", "%s", f.Msg)
	}
	return f
}

// genPair builds the m×n and p×n inputs of the GSVD routines.
// cls: 0 Gaussian, 1 common rank deficiency ([A;B] = G*W), 2 A low rank, 3 B low
// rank, 4 A zero, 5 B zero, 6 B upper triangular, 7 both zero.
func genPair(cls, m, p, n int, rng *vk.SplitMix) (a, b mat) {
	switch cls {
	case 1:
		r := rng.Intn(n + 1)
		w := gaussN(r, n, rng)
		return mul(gaussN(m, r, rng), w), mul(gaussN(p, r, rng), w)
	case 2:
		return genRect(rcRankDef, m, n, rng), gauss(p, n, rng)
	case 3:
		return gauss(m, n, rng), genRect(rcRankDef, p, n, rng)
	case 4:
		return newMat(m, n), gauss(p, n, rng)
	case 5:
		return gauss(m, n, rng), newMat(p, n)
	case 6:
		return gauss(m, n, rng), genRect(rcTriangular, p, n, rng)
	case 7:
		return newMat(m, n), newMat(p, n)
	}
	return gauss(m, n, rng), gauss(p, n, rng)
}

var pairNames = []string{"gauss", "common-null-space", "A-low-rank", "B-low-rank", "A-zero", "B-zero", "B-triangular", "both-zero"}

func gsvdJob(sel int, compute lapack.GSVDJob) lapack.GSVDJob {
	switch sel {
	case 1:
		return compute
	case 2:
		return lapack.GSVDUnit
	}
	return lapack.GSVDNone
}

// zeroR builds the (k+l)×n matrix [0 R] from the outputs as documented.
func zeroR(aout, bout mat, m, n, k, l int) mat {
	r := newMat(k+l, n)
	for i := 0; i < k+l; i++ {
		for j := i; j < k+l; j++ {
			col := n - k - l + j
			if i < m {
				r.d[i*n+col] = aout.d[i*n+col]
			} else {
				r.d[i*n+col] = bout.d[(i-k)*n+col]
			}
		}
	}
	return r
}

// checkAlphaBeta verifies the documented structure of the generalized singular
// value pairs.
func checkAlphaBeta(alpha, beta []float64, m, n, k, l int) *vk.Failure {
	for i := 0; i < n; i++ {
		a, b := alpha[i], beta[i]
		if math.IsNaN(a) || math.IsNaN(b) {
			return vk.Failf("alpha-beta-not-set", "alpha[%d] = %v, beta[%d] = %v (k=%d l=%d m=%d n=%d)", i, a, i, b, k, l, m, n)
		}
		switch {
		case i < k:
			if a != 1 || b != 0 {
				return vk.Failf("alpha-beta-structure", "i=%d < k=%d: (alpha,beta) = (%v,%v), documented (1,0)", i, k, a, b)
			}
		case i < min(k+l, m):
			if a < 0 || b < 0 || math.Abs(a*a+b*b-1) > 16*eps {
				return vk.Failf("alpha-beta-not-on-unit-circle", "i=%d (k=%d l=%d m=%d): alpha=%v beta=%v, alpha²+beta²-1 = %.3g", i, k, l, m, a, b, a*a+b*b-1)
			}
		case i < k+l:
			if a != 0 || b != 1 {
				return vk.Failf("alpha-beta-structure", "m=%d <= i=%d < k+l=%d: (alpha,beta) = (%v,%v), documented (0,1)", m, i, k+l, a, b)
			}
		default:
			if a != 0 || b != 0 {
				return vk.Failf("alpha-beta-structure", "i=%d >= k+l=%d: (alpha,beta) = (%v,%v), documented (0,0)", i, k+l, a, b)
			}
		}
	}
	return nil
}

// gsvdResiduals checks A = U D1 [0 R] Qᵀ and B = V D2 [0 R] Qᵀ for the factors
// that are available (nil-sized matrices are skipped).
func gsvdResiduals(name string, a0, b0, u, v, q, zr mat, haveU, haveV, haveQ bool, alpha, beta []float64, k, l int) *vk.Failure {
	m, p, n := a0.r, b0.r, a0.c
	big := float64(max(m, max(n, p)))
	tolO := cN * big * eps
	if haveU {
		if e := orthCols(u); !(e <= tolO) {
			return vk.Failf("u-not-orthogonal", "%s m=%d p=%d n=%d: ||UᵀU-I||_F = %.3g > %.3g", name, m, p, n, e, tolO)
		}
	}
	if haveV {
		if e := orthCols(v); !(e <= tolO) {
			return vk.Failf("v-not-orthogonal", "%s m=%d p=%d n=%d: ||VᵀV-I||_F = %.3g > %.3g", name, m, p, n, e, tolO)
		}
	}
	if haveQ {
		if e := orthCols(q); !(e <= tolO) {
			return vk.Failf("q-not-orthogonal", "%s m=%d p=%d n=%d: ||QᵀQ-I||_F = %.3g > %.3g", name, m, p, n, e, tolO)
		}
	}
	if !haveQ {
		return nil
	}
	d1 := newMat(m, k+l)
	for i := 0; i < min(k+l, m); i++ {
		d1.d[i*(k+l)+i] = alpha[i]
	}
	d2 := newMat(p, k+l)
	for i := 0; i < l && i < p; i++ {
		d2.d[i*(k+l)+k+i] = beta[k+i]
	}
	if haveU {
		r := sub(mul(mul(u.T(), a0), q), mul(d1, zr))
		if e := frob(r); !(e <= tolO*frob(a0)) {
			return vk.Failf("a-residual", "%s m=%d p=%d n=%d k=%d l=%d: ||UᵀAQ - D1[0 R]||_F = %.3g > %.3g", name, m, p, n, k, l, e, tolO*frob(a0))
		}
	}
	if haveV {
		r := sub(mul(mul(v.T(), b0), q), mul(d2, zr))
		if e := frob(r); !(e <= tolO*frob(b0)) {
			return vk.Failf("b-residual", "%s m=%d p=%d n=%d k=%d l=%d: ||VᵀBQ - D2[0 R]||_F = %.3g > %.3g", name, m, p, n, k, l, e, tolO*frob(b0))
		}
	}
	return nil
}

// rankDefBranch models the recorded defect ggsvp3/rank-deficient-input narrowly.
// Dggsvp3 passes iwork[i] = 0 to Dgeqp3, which in gonum means "leading column"
// (free columns are -1), so the "QR with column pivoting" never pivots. That is
// harmless as long as B and the block A11 have full numerical rank (all diagonal
// entries of the unpivoted R exceed the tolerance, l = min(p,n), k = min(m,n-l));
// structurally wide stacks m+p < n with generic A and B belong to that class and
// are judged in full. When B or A11 is numerically rank deficient the rank is
// read off a diagonal that is not monotone and non-negligible rows are zeroed, so
// the relations that tie the outputs to the inputs (residuals, norms, and the
// non-singularity of A12/B13/R) fail. Only those are re-keyed; orthogonality of
// U, V, Q, the zero structure, alpha/beta, index ranges, untouched operands and
// panics are still reported under their own keys.
func rankDefBranch(f *vk.Failure, m, p, n, k, l int, wantq bool) *vk.Failure {
	if f == nil || k < 0 {
		return f
	}
	if !(l < min(p, n) || k < min(m, n-l)) {
		return f
	}
	switch f.Key {
	case "a-residual", "b-residual", "a-norm", "b-norm", "a12-singular", "b13-singular", "r-singular":
		return vk.Failf("rank-deficient-input", "[%s] %s", f.Key, f.Msg)
	}
	return f
}

// fields: J[0..2] jobU/jobV/jobQ (0 none, 1 compute), M, N, P, Pad[0..4] (lda,
// ldb, ldu, ldv, ldq), LW (query or query+7), Cls, Wrap
func checkGgsvd3(c kase) *vk.Failure {
	k, l := -1, -1
	f := checkGgsvd3Inner(c, &k, &l)
	return rankDefBranch(f, c.M, c.P, c.N, k, l, c.J[2] == 1)
}

func checkGgsvd3Inner(c kase, kOut, lOut *int) *vk.Failure {
	m, n, p := c.M, c.N, c.P
	rng := c.rng(13)
	a0, b0 := genPair(c.Cls, m, p, n, rng)
	jobU, jobV, jobQ := gsvdJob(c.J[0], lapack.GSVDU), gsvdJob(c.J[1], lapack.GSVDV), gsvdJob(c.J[2], lapack.GSVDQ)
	lda, ldb := max(1, n)+c.Pad[0], max(1, n)+c.Pad[1]
	a := newPmat("a", m, n, lda, rng, false).fill(a0)
	b := newPmat("b", p, n, ldb, rng, false).fill(b0)
	mk := func(name string, want bool, k, pad int) (*pmat, int) {
		if want {
			return newPmat(name, k, k, max(1, k)+pad, rng, false), max(1, k) + pad
		}
		return newPmat(name, 0, 0, 1+pad, rng, false), 1 + pad
	}
	u, ldu := mk("u", c.J[0] == 1, m, c.Pad[2])
	v, ldv := mk("v", c.J[1] == 1, p, c.Pad[3])
	q, ldq := mk("q", c.J[2] == 1, n, c.Pad[4])
	alpha := newPvec("alpha", n, rng, true)
	beta := newPvec("beta", n, rng, true)
	iwork := make([]int, n)
	for i := range iwork {
		iwork[i] = iSentinel
	}
	var k, l int
	var ok bool
	call := func(work []float64, lwork int) {
		k, l, ok = impl.Dggsvd3(jobU, jobV, jobQ, m, n, p, a.data, lda, b.data, ldb, alpha.data, beta.data, u.data, ldu, v.data, ldv, q.data, ldq, work, lwork, iwork)
	}
	if c.Wrap {
		call = func(work []float64, lwork int) {
			k, l, ok = lapack64.Ggsvd3(jobU, jobV, jobQ, blas64.General{Rows: m, Cols: n, Data: a.data, Stride: lda}, blas64.General{Rows: p, Cols: n, Data: b.data, Stride: ldb},
				alpha.data, beta.data, blas64.General{Rows: u.r, Cols: u.c, Data: u.data, Stride: ldu}, blas64.General{Rows: v.r, Cols: v.c, Data: v.data, Stride: ldv},
				blas64.General{Rows: q.r, Cols: q.c, Data: q.data, Stride: ldq}, work, lwork, iwork)
		}
	}
	cc := c
	if cc.LW == 0 || cc.LW == 2 {
		cc.LW++ // no usable documented minimum: only the queried size and above
	}
	lwork, query, f := withWork(cc, rng, 1, call, a, b, u, v, q, alpha, beta)
	if f != nil {
		return emptyAFault(f, m)
	}
	*kOut, *lOut = k, l
	name := fmt.Sprintf("Dggsvd3(%c,%c,%c)", jobU, jobV, jobQ)
	vk.Class("ggsvd3:" + name)
	vk.Class("ggsvd3:cls=" + pairNames[c.Cls])
	vk.Class("ggsvd3:" + lwClass(c, lwork, query, 1))
	vk.Sample("ggsvd3", c)
	if !ok {
		vk.Inconclusive("ggsvd3-not-converged")
		return nil
	}
	if k < 0 || l < 0 || k+l > n || l > p || k+l > m+p {
		return vk.Failf("k-l-range", "%s m=%d p=%d n=%d: k=%d l=%d", name, m, p, n, k, l)
	}
	if k+l < n && !(l < min(p, n) || k < min(m, n-l)) {
		vk.Class("ggsvd3:wide-stack(k+l<n),full-row-rank")
	}
	switch {
	case k+l == n && m-k-l >= 0:
		vk.Class("ggsvd3:full-rank,m>=k+l")
	case k+l == n:
		vk.Class("ggsvd3:full-rank,m<k+l")
	case m-k-l >= 0:
		vk.Class("ggsvd3:rank-deficient,m>=k+l")
	default:
		vk.Class("ggsvd3:rank-deficient,m<k+l")
	}
	nonTrivial(c, min(n, max(m, p)), a0, c.J[0]+c.J[1]+c.J[2] > 0, anyPad(c.Pad, 5), false)
	for _, pm := range []struct {
		p    *pmat
		want bool
		key  string
	}{{u, c.J[0] == 1, "unrequested-u-written"}, {v, c.J[1] == 1, "unrequested-v-written"}, {q, c.J[2] == 1, "unrequested-q-written"}} {
		if !pm.want {
			if f := pm.p.same(pm.key); f != nil {
				return f
			}
		} else if f := pm.p.elemsFinite(); f != nil {
			return f
		}
	}
	if f := firstFail(a.elemsFinite(), b.elemsFinite()); f != nil {
		return f
	}
	al, be := alpha.vec(), beta.vec()
	if f := checkAlphaBeta(al, be, m, n, k, l); f != nil {
		f.Msg = name + ": " + f.Msg
		return f
	}
	// iwork: the interchanges that sort alpha[k:min(m,k+l)] descending
	srt := append([]float64(nil), al...)
	for i := k; i < min(m, k+l); i++ {
		j := iwork[i]
		if j < i || j >= min(m, k+l) {
			return vk.Failf("iwork-not-a-pivot", "%s: iwork[%d] = %d (k=%d l=%d m=%d)", name, i, j, k, l, m)
		}
		srt[i], srt[j] = srt[j], srt[i]
	}
	for i := k + 1; i < min(m, k+l); i++ {
		if srt[i-1] < srt[i] {
			return vk.Failf("iwork-does-not-sort-alpha", "%s: after the interchanges alpha[%d]=%v < alpha[%d]=%v", name, i-1, srt[i-1], i, srt[i])
		}
	}
	zr := zeroR(a.dense(), b.dense(), m, n, k, l)
	for i := 0; i < k+l; i++ {
		if zr.d[i*n+n-k-l+i] == 0 {
			return vk.Failf("r-singular", "%s k=%d l=%d: R[%d,%d] == 0, R is documented non-singular", name, k, l, i, i)
		}
	}
	return gsvdResiduals(name, a0, b0, u.dense(), v.dense(), q.dense(), zr, c.J[0] == 1, c.J[1] == 1, c.J[2] == 1, al, be, k, l)
}

func drawGsvdDims(t *rapid.T, c *kase) {
	c.N = dimN(t, "n", 40, 0, 1, 2, 10, 16)
	switch rapid.IntRange(0, 5).Draw(t, "shape") {
	case 5: // structurally wide stack, m+p < n: the extra RQ step (n-l > k) runs
		// although A and B have full row rank
		c.N = max(c.N, 3)
		c.M = rapid.IntRange(0, c.N-1).Draw(t, "m")
		c.P = rapid.IntRange(0, c.N-1-c.M).Draw(t, "p")
	case 0:
		c.M, c.P = c.N, c.N
	case 1: // m < k+l is possible
		c.M = rapid.IntRange(0, max(0, c.N-1)).Draw(t, "m")
		c.P = c.N + rapid.IntRange(0, 5).Draw(t, "p")
	case 2:
		c.M = c.N + rapid.IntRange(0, 8).Draw(t, "m")
		c.P = rapid.IntRange(0, c.N).Draw(t, "p")
	default:
		c.M = dimN(t, "m", 40, 0, 1, 2)
		c.P = dimN(t, "p", 40, 0, 1, 2)
	}
}

func drawGgsvd3(t *rapid.T) kase {
	c := kase{R: "Dggsvd3"}
	for i := 0; i < 3; i++ {
		c.J[i] = rapid.IntRange(0, 1).Draw(t, "job")
	}
	drawGsvdDims(t, &c)
	c.Pad = drawPads(t, 5)
	c.LW = drawLW(t)
	c.Cls = rapid.SampledFrom([]int{0, 0, 0, 1, 1, 2, 3, 4, 5, 6, 7}).Draw(t, "cls")
	c.Wrap = rapid.IntRange(0, 4).Draw(t, "wrap") == 0
	c.Seed = drawSeed(t)
	return c
}

func TestGgsvd3(t *testing.T) {
	vk.Run(t, "ggsvd3", vk.Opts{Quick: 1200, Thorough: 12000}, drawGgsvd3, checkGgsvd3)
}

// ---- Dggsvp3 ---------------------------------------------------------------------

// fields as checkGgsvd3 (no Wrap)
func checkGgsvp3(c kase) *vk.Failure {
	k, l := -1, -1
	f := checkGgsvp3Inner(c, &k, &l)
	return rankDefBranch(f, c.M, c.P, c.N, k, l, c.J[2] == 1)
}

func checkGgsvp3Inner(c kase, kOut, lOut *int) *vk.Failure {
	m, n, p := c.M, c.N, c.P
	rng := c.rng(14)
	a0, b0 := genPair(c.Cls, m, p, n, rng)
	jobU, jobV, jobQ := gsvdJob(c.J[0], lapack.GSVDU), gsvdJob(c.J[1], lapack.GSVDV), gsvdJob(c.J[2], lapack.GSVDQ)
	lda, ldb := max(1, n)+c.Pad[0], max(1, n)+c.Pad[1]
	a := newPmat("a", m, n, lda, rng, false).fill(a0)
	b := newPmat("b", p, n, ldb, rng, false).fill(b0)
	mk := func(name string, want bool, k, pad int) (*pmat, int) {
		if want {
			return newPmat(name, k, k, max(1, k)+pad, rng, false), max(1, k) + pad
		}
		return newPmat(name, 0, 0, 1+pad, rng, false), 1 + pad
	}
	u, ldu := mk("u", c.J[0] == 1, m, c.Pad[2])
	v, ldv := mk("v", c.J[1] == 1, p, c.Pad[3])
	q, ldq := mk("q", c.J[2] == 1, n, c.Pad[4])
	tau := newPvec("tau", n, rng, false)
	iwork := make([]int, n)
	na, nb := frob(a0), frob(b0)
	const safmin = 0x1p-1022
	tola := float64(max(m, n)) * math.Max(na, safmin) * 2 * eps
	tolb := float64(max(p, n)) * math.Max(nb, safmin) * 2 * eps
	var k, l int
	cc := c
	if cc.LW == 0 || cc.LW == 2 {
		cc.LW++
	}
	lwork, query, f := withWork(cc, rng, 1, func(work []float64, lwork int) {
		k, l = impl.Dggsvp3(jobU, jobV, jobQ, m, p, n, a.data, lda, b.data, ldb, tola, tolb, u.data, ldu, v.data, ldv, q.data, ldq, iwork, tau.data, work, lwork)
	}, a, b, u, v, q, tau)
	if f != nil {
		return emptyAFault(f, m)
	}
	*kOut, *lOut = k, l
	name := fmt.Sprintf("Dggsvp3(%c,%c,%c)", jobU, jobV, jobQ)
	vk.Class("ggsvp3:" + name)
	vk.Class("ggsvp3:cls=" + pairNames[c.Cls])
	vk.Class("ggsvp3:" + lwClass(c, lwork, query, 1))
	vk.Sample("ggsvp3", c)
	if k < 0 || l < 0 || k+l > n || l > p || k > m {
		return vk.Failf("k-l-range", "%s m=%d p=%d n=%d: k=%d l=%d", name, m, p, n, k, l)
	}
	switch {
	case l < min(p, n) || k < min(m, n-l):
		vk.Class("ggsvp3:numerically-rank-deficient")
	case k+l < n:
		vk.Class("ggsvp3:wide-stack(k+l<n),full-row-rank")
	default:
		vk.Class("ggsvp3:full-rank")
	}
	if m-k-l < 0 {
		vk.Class("ggsvp3:m<k+l")
	}
	nonTrivial(c, min(n, max(m, p)), a0, c.J[0]+c.J[1]+c.J[2] > 0, anyPad(c.Pad, 5), false)
	for _, pm := range []struct {
		p    *pmat
		want bool
		key  string
	}{{u, c.J[0] == 1, "unrequested-u-written"}, {v, c.J[1] == 1, "unrequested-v-written"}, {q, c.J[2] == 1, "unrequested-q-written"}} {
		if !pm.want {
			if f := pm.p.same(pm.key); f != nil {
				return f
			}
		} else if f := pm.p.elemsFinite(); f != nil {
			return f
		}
	}
	if f := firstFail(a.elemsFinite(), b.elemsFinite()); f != nil {
		return f
	}
	ao, bo := a.dense(), b.dense()
	// documented shapes: row i of UᵀAQ starts at column n-k-l+i (i < min(k+l,m)),
	// row i of VᵀBQ at column n-l+i (i < l)
	sa, sb := newMat(m, n), newMat(p, n)
	for i := 0; i < min(k+l, m); i++ {
		for j := n - k - l + i; j < n; j++ {
			sa.d[i*n+j] = ao.d[i*n+j]
		}
	}
	for i := 0; i < l; i++ {
		for j := n - l + i; j < n; j++ {
			sb.d[i*n+j] = bo.d[i*n+j]
		}
	}
	for i := 0; i < m; i++ {
		for j := 0; j < n; j++ {
			if sa.d[i*n+j] == 0 && ao.d[i*n+j] != 0 {
				return vk.Failf("a-not-in-documented-form", "%s m=%d p=%d n=%d k=%d l=%d: output a[%d,%d] = %v lies in a zero block", name, m, p, n, k, l, i, j, ao.d[i*n+j])
			}
		}
	}
	for i := 0; i < p; i++ {
		for j := 0; j < n; j++ {
			if sb.d[i*n+j] == 0 && bo.d[i*n+j] != 0 {
				return vk.Failf("b-not-in-documented-form", "%s m=%d p=%d n=%d k=%d l=%d: output b[%d,%d] = %v lies in a zero block", name, m, p, n, k, l, i, j, bo.d[i*n+j])
			}
		}
	}
	for i := 0; i < k; i++ {
		if sa.d[i*n+n-k-l+i] == 0 {
			return vk.Failf("a12-singular", "%s k=%d l=%d: A12[%d,%d] == 0", name, k, l, i, i)
		}
	}
	for i := 0; i < l; i++ {
		if sb.d[i*n+n-l+i] == 0 {
			return vk.Failf("b13-singular", "%s k=%d l=%d: B13[%d,%d] == 0", name, k, l, i, i)
		}
	}
	big := float64(max(m, max(n, p)))
	tolO := cN * big * eps
	ud, vd, qd := u.dense(), v.dense(), q.dense()
	if c.J[0] == 1 {
		if e := orthCols(ud); !(e <= tolO) {
			return vk.Failf("u-not-orthogonal", "%s: ||UᵀU-I||_F = %.3g", name, e)
		}
	}
	if c.J[1] == 1 {
		if e := orthCols(vd); !(e <= tolO) {
			return vk.Failf("v-not-orthogonal", "%s: ||VᵀV-I||_F = %.3g", name, e)
		}
	}
	if c.J[2] == 1 {
		if e := orthCols(qd); !(e <= tolO) {
			return vk.Failf("q-not-orthogonal", "%s: ||QᵀQ-I||_F = %.3g", name, e)
		}
		if c.J[0] == 1 {
			if e := frob(sub(mul(mul(ud.T(), a0), qd), sa)); !(e <= tolO*na) {
				return vk.Failf("a-residual", "%s m=%d p=%d n=%d k=%d l=%d: ||UᵀAQ - [0 A12 A13; 0 0 A23]||_F = %.3g > %.3g", name, m, p, n, k, l, e, tolO*na)
			}
		}
		if c.J[1] == 1 {
			if e := frob(sub(mul(mul(vd.T(), b0), qd), sb)); !(e <= tolO*nb) {
				return vk.Failf("b-residual", "%s m=%d p=%d n=%d k=%d l=%d: ||VᵀBQ - [0 0 B13]||_F = %.3g > %.3g", name, m, p, n, k, l, e, tolO*nb)
			}
		}
	} else {
		// without Q: the singular values of the structured factor are those of the input
		if d := math.Abs(frob(sa) - na); !(d <= tolO*na) {
			return vk.Failf("a-norm", "%s: | ||UᵀAQ||_F - ||A||_F | = %.3g > %.3g", name, d, tolO*na)
		}
		if d := math.Abs(frob(sb) - nb); !(d <= tolO*nb) {
			return vk.Failf("b-norm", "%s: | ||VᵀBQ||_F - ||B||_F | = %.3g > %.3g", name, d, tolO*nb)
		}
	}
	return nil
}

func drawGgsvp3(t *rapid.T) kase {
	c := drawGgsvd3(t)
	c.R = "Dggsvp3"
	c.Wrap = false
	return c
}

func TestGgsvp3(t *testing.T) {
	vk.Run(t, "ggsvp3", vk.Opts{Quick: 900, Thorough: 9000}, drawGgsvp3, checkGgsvp3)
}

// ---- Dtgsja ----------------------------------------------------------------------

// fields: J[0..2] jobU/V/Q (0 none, 1 accumulate into a given orthogonal matrix,
// 2 unit start), M, N, P, K (k), Ilo (per-mille of l), Pad[0..4], Cls (0 generic,
// 1 graded triangles, 2 A23 zero)
func checkTgsja(c kase) *vk.Failure {
	m, n, p := c.M, c.N, c.P
	rng := c.rng(15)
	k := min(c.K, min(m, n))
	l := min(n-k, p) * c.Ilo / 1000
	// structured inputs
	a0, b0 := newMat(m, n), newMat(p, n)
	diag := func() float64 {
		v := 1 + math.Abs(rng.Norm())
		if rng.Intn(2) == 0 {
			v = -v
		}
		return v
	}
	for i := 0; i < k; i++ {
		for j := n - k - l + i; j < n; j++ {
			a0.d[i*n+j] = rng.Finite()
		}
		a0.d[i*n+n-k-l+i] = diag()
	}
	for i := k; i < min(k+l, m); i++ {
		for j := n - l + (i - k); j < n; j++ {
			if c.Cls != 2 {
				a0.d[i*n+j] = rng.Finite()
			}
		}
	}
	for i := 0; i < l; i++ {
		for j := n - l + i; j < n; j++ {
			b0.d[i*n+j] = rng.Finite()
		}
		b0.d[i*n+n-l+i] = diag()
	}
	if c.Cls == 1 {
		for i := 0; i < m; i++ {
			for j := 0; j < n; j++ {
				a0.d[i*n+j] = math.Ldexp(a0.d[i*n+j], -i)
			}
		}
		for i := 0; i < p; i++ {
			for j := 0; j < n; j++ {
				b0.d[i*n+j] = math.Ldexp(b0.d[i*n+j], i-p)
			}
		}
	}
	jobU, jobV, jobQ := gsvdJob(c.J[0], lapack.GSVDU), gsvdJob(c.J[1], lapack.GSVDV), gsvdJob(c.J[2], lapack.GSVDQ)
	lda, ldb := max(1, n)+c.Pad[0], max(1, n)+c.Pad[1]
	a := newPmat("a", m, n, lda, rng, false).fill(a0)
	b := newPmat("b", p, n, ldb, rng, false).fill(b0)
	mk := func(name string, sel, k, pad int) (*pmat, int, mat) {
		if sel == 0 {
			return newPmat(name, 0, 0, 1+pad, rng, false), 1 + pad, mat{}
		}
		pm := newPmat(name, k, k, max(1, k)+pad, rng, false)
		o := eye(k)
		if sel == 1 {
			o = randOrth(k, rng)
			pm.fill(o)
		}
		return pm, max(1, k) + pad, o
	}
	u, ldu, u1 := mk("u", c.J[0], m, c.Pad[2])
	v, ldv, v1 := mk("v", c.J[1], p, c.Pad[3])
	q, ldq, q1 := mk("q", c.J[2], n, c.Pad[4])
	alpha := newPvec("alpha", n, rng, true)
	beta := newPvec("beta", n, rng, true)
	work := newPvec("work", 2*n, rng, false)
	na, nb := frob(a0), frob(b0)
	const safmin = 0x1p-1022
	tola := float64(max(m, n)) * math.Max(na, safmin) * 2 * eps
	tolb := float64(max(p, n)) * math.Max(nb, safmin) * 2 * eps
	var ok bool
	var cycles int
	if f := runPlain(func() {
		cycles, ok = impl.Dtgsja(jobU, jobV, jobQ, m, p, n, k, l, a.data, lda, b.data, ldb, tola, tolb, alpha.data, beta.data, u.data, ldu, v.data, ldv, q.data, ldq, work.data)
	}, a, b, u, v, q, alpha, beta, work); f != nil {
		return emptyAFault(f, m)
	}
	name := fmt.Sprintf("Dtgsja(%c,%c,%c)", jobU, jobV, jobQ)
	vk.Class("tgsja:" + name)
	if m-k-l < 0 {
		vk.Class("tgsja:m<k+l")
	} else {
		vk.Class("tgsja:m>=k+l")
	}
	vk.Class(fmt.Sprint("tgsja:cycles=", min(cycles, 6)))
	vk.Sample("tgsja", c)
	if !ok {
		vk.Inconclusive("tgsja-not-converged")
		return nil
	}
	nonTrivial(c, min(n, max(m, p)), a0, c.J[0]+c.J[1]+c.J[2] > 0, anyPad(c.Pad, 5), false)
	for _, pm := range []struct {
		p   *pmat
		sel int
		key string
	}{{u, c.J[0], "unrequested-u-written"}, {v, c.J[1], "unrequested-v-written"}, {q, c.J[2], "unrequested-q-written"}} {
		if pm.sel == 0 {
			if f := pm.p.same(pm.key); f != nil {
				return f
			}
		} else if f := pm.p.elemsFinite(); f != nil {
			return f
		}
	}
	if f := firstFail(a.elemsFinite(), b.elemsFinite()); f != nil {
		return f
	}
	al, be := alpha.vec(), beta.vec()
	if f := checkAlphaBeta(al, be, m, n, k, l); f != nil {
		f.Msg = name + ": " + f.Msg
		return f
	}
	zr := zeroR(a.dense(), b.dense(), m, n, k, l)
	rel := func(o1 mat, pm *pmat, sel int) mat {
		if sel == 0 {
			return mat{}
		}
		return mul(o1.T(), pm.dense())
	}
	return gsvdResiduals(name, a0, b0, rel(u1, u, c.J[0]), rel(v1, v, c.J[1]), rel(q1, q, c.J[2]), zr, c.J[0] != 0, c.J[1] != 0, c.J[2] != 0, al, be, k, l)
}

func drawTgsja(t *rapid.T) kase {
	c := kase{R: "Dtgsja"}
	for i := 0; i < 3; i++ {
		c.J[i] = rapid.IntRange(0, 2).Draw(t, "job")
	}
	drawGsvdDims(t, &c)
	c.K = rapid.IntRange(0, 12).Draw(t, "k")
	c.Ilo = rapid.SampledFrom([]int{0, 300, 500, 700, 1000, 1000, 1000}).Draw(t, "l")
	c.Pad = drawPads(t, 5)
	c.Cls = rapid.SampledFrom([]int{0, 0, 1, 2}).Draw(t, "cls")
	c.Seed = drawSeed(t)
	return c
}

func TestTgsja(t *testing.T) {
	vk.Run(t, "tgsja", vk.Opts{Quick: 900, Thorough: 9000}, drawTgsja, checkTgsja)
}

// ---- Dgghrd ----------------------------------------------------------------------

var orthoComps = []lapack.OrthoComp{lapack.OrthoNone, lapack.OrthoExplicit, lapack.OrthoPostmul}

// fields: J[0] compq, J[1] compz, N, Ilo, Ihi, Pad[0..3], Cls
func checkGghrd(c kase) *vk.Failure {
	n := c.N
	rng := c.rng(16)
	ilo, ihi := c.ilohi(n)
	a0 := genSquare(c.Cls, n, rng)
	triangularOutside(a0, ilo, ihi)
	b0 := genSquare(clsTriangular, n, rng)
	if rng.Intn(4) == 0 {
		for i := 0; i < n; i++ {
			if rng.Intn(3) == 0 {
				b0.d[i*n+i] = 0 // singular B is allowed
			}
		}
	}
	compq, compz := orthoComps[c.J[0]], orthoComps[c.J[1]]
	lda, ldb := max(1, n)+c.Pad[0], max(1, n)+c.Pad[1]
	a := newPmat("a", n, n, lda, rng, false).fill(a0)
	b := newPmat("b", n, n, ldb, rng, false).fill(b0)
	mk := func(name string, sel, pad int) (*pmat, int, mat) {
		if sel == 0 {
			return newPmat(name, 0, 0, 1+pad, rng, false), 1 + pad, mat{}
		}
		pm := newPmat(name, n, n, max(1, n)+pad, rng, false)
		o := eye(n)
		if sel == 2 {
			o = randOrth(n, rng)
			pm.fill(o)
		}
		return pm, max(1, n) + pad, o
	}
	q, ldq, q1 := mk("q", c.J[0], c.Pad[2])
	z, ldz, z1 := mk("z", c.J[1], c.Pad[3])
	if f := runPlain(func() {
		impl.Dgghrd(compq, compz, n, ilo, ihi, a.data, lda, b.data, ldb, q.data, ldq, z.data, ldz)
	}, a, b, q, z); f != nil {
		return f
	}
	name := fmt.Sprintf("Dgghrd(%c,%c)", compq, compz)
	vk.Class("gghrd:" + name)
	vk.Class("gghrd:cls=" + clsName(c.Cls))
	if n == 0 {
		return nil
	}
	vk.Sample("gghrd", c)
	nonTrivial(c, n, a0, c.J[0]+c.J[1] > 0, anyPad(c.Pad, 4), false)
	if c.J[0] == 0 {
		if f := q.same("unrequested-q-written"); f != nil {
			return f
		}
	}
	if c.J[1] == 0 {
		if f := z.same("unrequested-z-written"); f != nil {
			return f
		}
	}
	if f := firstFail(a.elemsFinite(), b.elemsFinite(), q.elemsFinite(), z.elemsFinite()); f != nil {
		return f
	}
	h, t := a.dense(), b.dense()
	for i := 0; i < n; i++ {
		for j := 0; j < i; j++ {
			if t.d[i*n+j] != 0 {
				return vk.Failf("t-not-upper-triangular", "%s n=%d ilo=%d ihi=%d: T[%d,%d] = %v", name, n, ilo, ihi, i, j, t.d[i*n+j])
			}
			if j+1 < i && h.d[i*n+j] != 0 {
				return vk.Failf("h-not-hessenberg", "%s n=%d ilo=%d ihi=%d: H[%d,%d] = %v", name, n, ilo, ihi, i, j, h.d[i*n+j])
			}
		}
	}
	tolO := cN * float64(n) * eps
	na, nb := frob(a0), frob(b0)
	var qd, zd mat
	if c.J[0] != 0 {
		qd = q.dense()
		if e := orthCols(qd); !(e <= tolO) {
			return vk.Failf("q-not-orthogonal", "%s n=%d: ||QᵀQ-I||_F = %.3g", name, n, e)
		}
	}
	if c.J[1] != 0 {
		zd = z.dense()
		if e := orthCols(zd); !(e <= tolO) {
			return vk.Failf("z-not-orthogonal", "%s n=%d: ||ZᵀZ-I||_F = %.3g", name, n, e)
		}
	}
	if c.J[0] != 0 && c.J[1] != 0 {
		// Q1 A Z1ᵀ = (Q1 Q) H (Z1 Z)ᵀ
		wa := mul(mul(q1, a0), z1.T())
		wb := mul(mul(q1, b0), z1.T())
		if r := frob(sub(mul(mul(qd, h), zd.T()), wa)); !(r <= tolO*na) {
			return vk.Failf("a-residual", "%s n=%d ilo=%d ihi=%d: ||Q H Zᵀ - A||_F = %.3g > %.3g", name, n, ilo, ihi, r, tolO*na)
		}
		if r := frob(sub(mul(mul(qd, t), zd.T()), wb)); !(r <= tolO*nb) {
			return vk.Failf("b-residual", "%s n=%d ilo=%d ihi=%d: ||Q T Zᵀ - B||_F = %.3g > %.3g", name, n, ilo, ihi, r, tolO*nb)
		}
	} else {
		if d := math.Abs(frob(h) - na); !(d <= tolO*na) {
			return vk.Failf("a-norm", "%s n=%d: | ||H||_F - ||A||_F | = %.3g", name, n, d)
		}
		if d := math.Abs(frob(t) - nb); !(d <= tolO*nb) {
			return vk.Failf("b-norm", "%s n=%d: | ||T||_F - ||B||_F | = %.3g", name, n, d)
		}
		// one-sided identities
		if c.J[0] != 0 {
			// (Q1ᵀ Qout)ᵀ A = H Zᵀ: Gram matrices agree, A Aᵀ = Q H Hᵀ Qᵀ
			qq := mul(q1.T(), qd)
			if r := frob(sub(mul(mul(qq, mul(h, h.T())), qq.T()), mul(a0, a0.T()))); !(r <= tolO*na*na) {
				return vk.Failf("a-left-residual", "%s n=%d: ||Q H Hᵀ Qᵀ - A Aᵀ||_F = %.3g > %.3g", name, n, r, tolO*na*na)
			}
		}
		if c.J[1] != 0 {
			zz := mul(z1.T(), zd)
			if r := frob(sub(mul(mul(zz, mul(h.T(), h)), zz.T()), mul(a0.T(), a0))); !(r <= tolO*na*na) {
				return vk.Failf("a-right-residual", "%s n=%d: ||Z Hᵀ H Zᵀ - Aᵀ A||_F = %.3g > %.3g", name, n, r, tolO*na*na)
			}
		}
	}
	return nil
}

func drawGghrd(t *rapid.T) kase {
	c := kase{R: "Dgghrd"}
	c.J[0] = rapid.IntRange(0, 2).Draw(t, "compq")
	c.J[1] = rapid.IntRange(0, 2).Draw(t, "compz")
	c.N = dimN(t, "n", 40, 0, 1, 2, 3, 16)
	c.Ilo, c.Ihi = drawIloIhi(t)
	c.Pad = drawPads(t, 4)
	c.Cls = rapid.IntRange(0, numSquareCls-1).Draw(t, "cls")
	c.Seed = drawSeed(t)
	return c
}

func TestGghrd(t *testing.T) {
	vk.Run(t, "gghrd", vk.Opts{Quick: 700, Thorough: 8000}, drawGghrd, checkGghrd)
}
