package c03

import (
	"fmt"
	"math"
	"math/cmplx"
	"os"
	"sort"

	"gonum.org/v1/gonum/lapack/gonum"
	"pgregory.net/rapid"
	"verifharness/vk"
)

var impl = gonum.Implementation{}

// cN is the family constant of the normwise bound C*max(m,n)*eps*||A||_F
// (DESIGN section 3, "Rounding bounds"): two orders above what Householder / QR
// iteration methods deliver, ten orders below the effect of an indexing or sign
// error. The harness's own reference products are plain float64 triple loops
// whose worst-case error n^1.5*eps*||A||_F stays a factor >= 16 below this bound
// for n <= 150.
const cN = 200.0

const eps = vk.Eps

// ---------------------------------------------------------------------------
// The generic case. One JSON-encodable struct is shared by all sub-checks; each
// sub-check documents which fields it uses.
// ---------------------------------------------------------------------------

type kase struct {
	R    string // routine / variant
	J    [4]int // job-flag selectors (meaning per sub-check)
	M    int
	N    int
	P    int
	K    int    // auxiliary size (ncc, nrhs, other dimension ...)
	Pad  [5]int // extra leading dimension per matrix operand
	LW   int    // lwork mode: 0 min, 1 query, 2 between, 3 query+7
	Cls  int    // matrix class
	Sc   int    // power-of-two exponent applied to the data
	Ilo  int    // per-mille position of ilo inside [0,n)
	Ihi  int    // per-mille position of ihi
	Wrap bool   // call through lapack64
	Seed uint64
}

func (c kase) rng(salt uint64) *vk.SplitMix { return vk.NewSplitMix(c.Seed ^ (salt * 0x9e3779b97f4a7c15)) }

// ---------------------------------------------------------------------------
// Dense helper matrices (row major, stride == cols).
// ---------------------------------------------------------------------------

type mat struct {
	r, c int
	d    []float64
}

func newMat(r, c int) mat              { return mat{r, c, make([]float64, r*c)} }
func (a mat) at(i, j int) float64     { return a.d[i*a.c+j] }
func (a mat) set(i, j int, v float64) { a.d[i*a.c+j] = v }
func (a mat) clone() mat              { return mat{a.r, a.c, append([]float64(nil), a.d...)} }

func eye(n int) mat {
	a := newMat(n, n)
	for i := 0; i < n; i++ {
		a.d[i*n+i] = 1
	}
	return a
}

func (a mat) T() mat {
	t := newMat(a.c, a.r)
	for i := 0; i < a.r; i++ {
		for j := 0; j < a.c; j++ {
			t.d[j*a.r+i] = a.d[i*a.c+j]
		}
	}
	return t
}

func mul(a, b mat) mat {
	if a.c != b.r {
		panic(fmt.Sprintf("mul: %dx%d * %dx%d", a.r, a.c, b.r, b.c))
	}
	c := newMat(a.r, b.c)
	for i := 0; i < a.r; i++ {
		ci := c.d[i*b.c : (i+1)*b.c]
		for k := 0; k < a.c; k++ {
			aik := a.d[i*a.c+k]
			if aik == 0 {
				continue
			}
			bk := b.d[k*b.c : (k+1)*b.c]
			for j, v := range bk {
				ci[j] += aik * v
			}
		}
	}
	return c
}

func sub(a, b mat) mat {
	c := newMat(a.r, a.c)
	for i := range c.d {
		c.d[i] = a.d[i] - b.d[i]
	}
	return c
}

func frob(a mat) float64 { return nrm2(a.d) }

func nrm2(x []float64) float64 {
	var scale, ssq float64 = 0, 1
	for _, v := range x {
		if v == 0 {
			continue
		}
		av := math.Abs(v)
		if math.IsNaN(av) {
			return math.NaN()
		}
		if scale < av {
			ssq = 1 + ssq*(scale/av)*(scale/av)
			scale = av
		} else {
			ssq += (av / scale) * (av / scale)
		}
	}
	return scale * math.Sqrt(ssq)
}

func (a mat) scaled(f float64) mat {
	c := a.clone()
	for i := range c.d {
		c.d[i] *= f
	}
	return c
}

func (a mat) sub(i0, i1, j0, j1 int) mat {
	s := newMat(i1-i0, j1-j0)
	for i := i0; i < i1; i++ {
		copy(s.d[(i-i0)*s.c:(i-i0+1)*s.c], a.d[i*a.c+j0:i*a.c+j1])
	}
	return s
}

func (a mat) finite() bool {
	for _, v := range a.d {
		if math.IsNaN(v) || math.IsInf(v, 0) {
			return false
		}
	}
	return true
}

// orthCols returns ||QᵀQ - I||_F.
func orthCols(q mat) float64 {
	g := mul(q.T(), q)
	for i := 0; i < g.r; i++ {
		g.d[i*g.c+i] -= 1
	}
	return frob(g)
}

// orthRows returns ||QQᵀ - I||_F.
func orthRows(q mat) float64 { return orthCols(q.T()) }

func diagMat(r, c int, d []float64) mat {
	a := newMat(r, c)
	for i, v := range d {
		if i < r && i < c {
			a.d[i*c+i] = v
		}
	}
	return a
}

// ---------------------------------------------------------------------------
// Sentinel-padded operands.
// ---------------------------------------------------------------------------

// sentinel returns a quiet NaN whose payload encodes (tag, index).
func sentinel(tag, i int) float64 {
	return math.Float64frombits(0x7ff8000000000000 | uint64(tag&0x7fff)<<32 | uint64(uint32(i)))
}

// pmat is an r×c matrix with leading dimension ld embedded in a larger buffer.
// Everything that is not an element (prefix, suffix, the ld-c slots after each
// row, entries excluded by mask) holds position-encoding NaNs.
type pmat struct {
	name      string
	buf, snap []float64
	off       int
	r, c, ld  int
	need      int
	data      []float64
	mask      func(i, j int) bool // nil: all entries are elements
}

var tagCounter int

func newPmat(name string, r, c, ld int, rng *vk.SplitMix, exact bool) *pmat {
	if ld < 1 {
		ld = 1
	}
	pre := rng.Intn(4)
	post := rng.Intn(4)
	need := 0
	if r > 0 {
		need = (r-1)*ld + c
	}
	tail := 0
	if !exact && rng.Intn(2) == 0 {
		tail = post
	}
	tag := 0
	for _, ch := range name {
		tag = tag*31 + int(ch)
	}
	p := &pmat{name: name, off: pre, r: r, c: c, ld: ld, need: need}
	p.buf = make([]float64, pre+need+post)
	for i := range p.buf {
		p.buf[i] = sentinel(tag, i)
	}
	if rng.Intn(2) == 0 {
		p.data = p.buf[pre : pre+need+tail : pre+need+tail]
	} else {
		p.data = p.buf[pre : pre+need+tail]
	}
	return p
}

// newPvec is a length-n vector operand. exact => len(data) == n.
func newPvec(name string, n int, rng *vk.SplitMix, exact bool) *pmat {
	return newPmat(name, 1, n, max(n, 1), rng, exact)
}

func (p *pmat) isElem(k int) (i, j int, ok bool) {
	q := k - p.off
	if q < 0 || q >= p.need {
		return 0, 0, false
	}
	i, j = q/p.ld, q%p.ld
	if j >= p.c || i >= p.r {
		return i, j, false
	}
	if p.mask != nil && !p.mask(i, j) {
		return i, j, false
	}
	return i, j, true
}

func (p *pmat) set(i, j int, v float64) { p.buf[p.off+i*p.ld+j] = v }
func (p *pmat) at(i, j int) float64     { return p.buf[p.off+i*p.ld+j] }

// fill copies a dense matrix into the element positions.
func (p *pmat) fill(a mat) *pmat {
	for i := 0; i < p.r; i++ {
		for j := 0; j < p.c; j++ {
			if p.mask == nil || p.mask(i, j) {
				p.set(i, j, a.d[i*a.c+j])
			}
		}
	}
	return p
}

func (p *pmat) fillVec(x []float64) *pmat {
	for j := 0; j < p.c; j++ {
		p.set(0, j, x[j])
	}
	return p
}

func (p *pmat) zero() *pmat {
	for i := 0; i < p.r; i++ {
		for j := 0; j < p.c; j++ {
			if p.mask == nil || p.mask(i, j) {
				p.set(i, j, 0)
			}
		}
	}
	return p
}

// dense extracts the r×c matrix (masked-out entries as stored).
func (p *pmat) dense() mat {
	a := newMat(p.r, p.c)
	for i := 0; i < p.r; i++ {
		copy(a.d[i*p.c:(i+1)*p.c], p.buf[p.off+i*p.ld:p.off+i*p.ld+p.c])
	}
	return a
}

func (p *pmat) vec() []float64 { return append([]float64(nil), p.buf[p.off:p.off+p.c]...) }

func (p *pmat) snapshot() { p.snap = append(p.snap[:0], p.buf...) }

func bitsEq(a, b float64) bool { return math.Float64bits(a) == math.Float64bits(b) }

// padOK verifies that every non-element slot is bit-identical to the snapshot.
func (p *pmat) padOK() *vk.Failure {
	for k := range p.buf {
		if _, _, ok := p.isElem(k); ok {
			continue
		}
		if !bitsEq(p.buf[k], p.snap[k]) {
			i, j, _ := p.isElem(k)
			return vk.Failf("padding-written", "%s: slot %d (offset %d, row %d col %d of %dx%d ld %d) outside the matrix changed from %x to %v",
				p.name, k, k-p.off, i, j, p.r, p.c, p.ld, math.Float64bits(p.snap[k]), p.buf[k])
		}
	}
	return nil
}

// same verifies that the whole buffer is bit-identical to the snapshot.
func (p *pmat) same(key string) *vk.Failure {
	for k := range p.buf {
		if !bitsEq(p.buf[k], p.snap[k]) {
			i, j, _ := p.isElem(k)
			return vk.Failf(key, "%s: slot %d (row %d col %d of %dx%d ld %d) changed from %v to %v",
				p.name, k, i, j, p.r, p.c, p.ld, p.snap[k], p.buf[k])
		}
	}
	return nil
}

// elemsFinite verifies that no element is NaN/Inf (a read of padding or of NaN
// workspace would propagate).
func (p *pmat) elemsFinite() *vk.Failure {
	for i := 0; i < p.r; i++ {
		for j := 0; j < p.c; j++ {
			if p.mask != nil && !p.mask(i, j) {
				continue
			}
			v := p.at(i, j)
			if math.IsNaN(v) || math.IsInf(v, 0) {
				return vk.Failf("non-finite-output", "%s[%d,%d] = %v (%dx%d ld %d)", p.name, i, j, v, p.r, p.c, p.ld)
			}
		}
	}
	return nil
}

func firstFail(fs ...*vk.Failure) *vk.Failure {
	for _, f := range fs {
		if f != nil {
			return f
		}
	}
	return nil
}

// snapAll / padAll / sameAll operate on operand lists.
func snapAll(ps ...*pmat) {
	for _, p := range ps {
		if p != nil {
			p.snapshot()
		}
	}
}

func padAll(ps ...*pmat) *vk.Failure {
	for _, p := range ps {
		if p != nil {
			if f := p.padOK(); f != nil {
				return f
			}
		}
	}
	return nil
}

func sameAll(key string, ps ...*pmat) *vk.Failure {
	for _, p := range ps {
		if p != nil {
			if f := p.same(key); f != nil {
				return f
			}
		}
	}
	return nil
}

// ---------------------------------------------------------------------------
// Workspace protocol.
// ---------------------------------------------------------------------------

// withWork runs the workspace query (when the routine has one) and then the real
// call. call(work, lwork) must invoke the routine on ops. minL is the documented
// minimum lwork. The query must change nothing but work[0] and report a value >=
// minL that the routine then accepts. The chosen lwork follows c.LW. Workspace
// is pre-filled with NaN: its content on entry is unspecified, so a result that
// depends on it is wrong.
func withWork(c kase, rng *vk.SplitMix, minL int, call func(work []float64, lwork int), ops ...*pmat) (lwork, query int, f *vk.Failure) {
	return withWorkP(c, rng, minL, false, nil, call, ops...)
}

func withWorkE(c kase, rng *vk.SplitMix, minL int, emptyProblem bool, call func(work []float64, lwork int), ops ...*pmat) (lwork, query int, f *vk.Failure) {
	return withWorkP(c, rng, minL, emptyProblem, nil, call, ops...)
}

// withWorkP: pick, when not nil, chooses lwork for c.LW == 4 (routine-specific
// probing of internal workspace thresholds); the result is clamped to >= minL.
func withWorkP(c kase, rng *vk.SplitMix, minL int, emptyProblem bool, pick func(minL, query int) int, call func(work []float64, lwork int), ops ...*pmat) (lwork, query int, f *vk.Failure) {
	wq := newPvec("work(query)", 1, rng, false)
	snapAll(ops...)
	wq.snapshot()
	if r := vk.Call(func() { call(wq.data, -1) }); r.Outcome != vk.Returned {
		return 0, 0, vk.Failf("query-panics", "workspace query ended in %v: %s", r.Outcome, r.Text)
	}
	if f := firstFail(wq.padOK(), sameAll("query-writes-operand", ops...)); f != nil {
		return 0, 0, f
	}
	q := wq.at(0, 0)
	if math.IsNaN(q) || q != math.Floor(q) || q > 1e9 {
		return 0, 0, vk.Failf("query-value", "work[0] after the query is %v", q)
	}
	query = int(q)
	if query < minL {
		if !emptyProblem {
			return 0, query, vk.Failf("query-below-minimum", "query returned %d, documented minimum is %d", query, minL)
		}
		// Reference LAPACK and gonum answer an empty problem (min(m,n) == 0) with
		// work[0] = 1 before looking at lwork, while still enforcing
		// lwork >= max(1,m,n) on entry. Counted, not judged.
		vk.Class("query-below-documented-minimum(tolerated:empty-problem-or-Dlaqr04)")
		query = minL
	}
	switch c.LW {
	case 0:
		lwork = minL
	case 1:
		lwork = query
	case 2:
		// uniform in (minL, query): internal path-selection thresholds on lwork
		// (Dgesvd has a dozen) are hit with probability ~ width/range
		lwork = minL
		if query > minL+1 {
			lwork = minL + 1 + rng.Intn(query-minL-1)
		} else if query > minL {
			lwork = minL + 1
		}
	case 4:
		lwork = query
		if pick != nil {
			lwork = max(minL, pick(minL, query))
		}
	default:
		lwork = query + 7
	}
	f = runWork(rng, lwork, call, ops...)
	return lwork, query, f
}

// runWork runs the real call with a NaN-filled work array of usable length lwork
// inside a longer buffer and verifies the padding of all operands.
func runWork(rng *vk.SplitMix, lwork int, call func(work []float64, lwork int), ops ...*pmat) *vk.Failure {
	// len(work) == lwork exactly: what happens to a longer work slice beyond
	// lwork is the business of the separate "worktail" sub-check.
	w := newPvec("work", lwork, rng, true)
	snapAll(ops...)
	w.snapshot()
	if r := doCall(func() { call(w.data, lwork) }); r.Outcome != vk.Returned {
		return vk.Failf("valid-call-panics", "call with lwork=%d ended in %v: %s", lwork, r.Outcome, r.Text)
	}
	return firstFail(w.padOK(), padAll(ops...))
}

// doCall is vk.Call; with C03_NORECOVER set (debugging only) the panic escapes so
// that the stack is printed.
func doCall(f func()) vk.Result {
	if os.Getenv("C03_NORECOVER") != "" {
		f()
		return vk.Result{Outcome: vk.Returned}
	}
	return vk.Call(f)
}

// runPlain runs a call without lwork protocol.
func runPlain(call func(), ops ...*pmat) *vk.Failure {
	snapAll(ops...)
	if r := doCall(call); r.Outcome != vk.Returned {
		return vk.Failf("valid-call-panics", "call ended in %v: %s", r.Outcome, r.Text)
	}
	return padAll(ops...)
}

func lwClass(c kase, lwork, query, minL int) string {
	switch {
	case lwork == minL && lwork < query:
		return "lwork=min<query"
	case lwork == minL:
		return "lwork=min=query"
	case lwork < query:
		return "lwork=between"
	case lwork == query:
		return "lwork=query"
	}
	return "lwork>query"
}

// ---------------------------------------------------------------------------
// Generators.
// ---------------------------------------------------------------------------

// applyReflLeft overwrites A (rows r0..r0+len(v)-1) with (I - tau v vᵀ) A.
func applyReflLeft(a mat, r0 int, v []float64, tau float64) {
	if tau == 0 {
		return
	}
	for j := 0; j < a.c; j++ {
		var s float64
		for k, vk := range v {
			s += vk * a.d[(r0+k)*a.c+j]
		}
		s *= tau
		for k, vk := range v {
			a.d[(r0+k)*a.c+j] -= s * vk
		}
	}
}

// applyReflRight overwrites A (columns c0..) with A (I - tau v vᵀ).
func applyReflRight(a mat, c0 int, v []float64, tau float64) {
	if tau == 0 {
		return
	}
	for i := 0; i < a.r; i++ {
		row := a.d[i*a.c+c0 : i*a.c+c0+len(v)]
		var s float64
		for k, vk := range v {
			s += vk * row[k]
		}
		s *= tau
		for k, vk := range v {
			row[k] -= s * vk
		}
	}
}

// randOrth returns an n×n orthogonal matrix (product of n-1 random reflectors,
// orthogonal to a few n*eps by construction).
func randOrth(n int, rng *vk.SplitMix) mat {
	q := eye(n)
	for k := 0; k < n-1; k++ {
		v := make([]float64, n-k)
		for i := range v {
			v[i] = rng.Norm()
		}
		nv := nrm2(v)
		if nv == 0 {
			continue
		}
		applyReflLeft(q, k, v, 2/(nv*nv))
	}
	return q
}

func gauss(r, c int, rng *vk.SplitMix) mat {
	a := newMat(r, c)
	for i := range a.d {
		a.d[i] = rng.Finite()
	}
	return a
}

func gaussN(r, c int, rng *vk.SplitMix) mat {
	a := newMat(r, c)
	for i := range a.d {
		a.d[i] = rng.Norm()
	}
	return a
}

// Square matrix classes.
const (
	clsGauss = iota
	clsSymRepeated
	clsGraded
	clsCompanion
	clsJordan
	clsComplexPairs
	clsHessenberg
	clsTriangular
	clsDiagonal
	clsZero
	clsRankDef
	clsPermTri
	clsSparse
	clsOrthogonal
	numSquareCls
)

var clsNames = []string{"gauss", "sym-repeated", "graded", "companion", "jordan", "complex-pairs", "hessenberg", "triangular", "diagonal", "zero", "rank-deficient", "permuted-triangular", "sparse", "orthogonal"}

func clsName(c int) string {
	if c >= 0 && c < len(clsNames) {
		return clsNames[c]
	}
	return fmt.Sprint("cls", c)
}

// repeatedSpectrum returns n values drawn from a small set (so that eigenvalues
// repeat) in random order.
func repeatedSpectrum(n int, rng *vk.SplitMix) []float64 {
	k := 1 + rng.Intn(3)
	vals := make([]float64, k)
	for i := range vals {
		vals[i] = float64(rng.Intn(9) - 4)
	}
	d := make([]float64, n)
	for i := range d {
		d[i] = vals[rng.Intn(k)]
	}
	return d
}

// similarity returns Q D Qᵀ for a random orthogonal Q.
func similarity(d mat, rng *vk.SplitMix) mat {
	q := randOrth(d.r, rng)
	return mul(mul(q, d), q.T())
}

// genSquare builds an n×n matrix of the given class.
func genSquare(cls, n int, rng *vk.SplitMix) mat {
	a := newMat(n, n)
	if n == 0 {
		return a
	}
	switch cls {
	case clsGauss:
		return gauss(n, n, rng)
	case clsSymRepeated:
		s := similarity(diagMat(n, n, repeatedSpectrum(n, rng)), rng)
		for i := 0; i < n; i++ {
			for j := 0; j < i; j++ {
				s.d[i*n+j] = s.d[j*n+i]
			}
		}
		return s
	case clsGraded:
		g := gauss(n, n, rng)
		step := 1 + rng.Intn(3)
		for i := 0; i < n; i++ {
			for j := 0; j < n; j++ {
				g.d[i*n+j] = math.Ldexp(g.d[i*n+j], gexp(step, j-i, n-1))
			}
		}
		return g
	case clsCompanion:
		for i := 1; i < n; i++ {
			a.d[i*n+i-1] = 1
		}
		for j := 0; j < n; j++ {
			a.d[j] = rng.Finite()
		}
		return a
	case clsJordan:
		// Jordan blocks with few distinct eigenvalues, optionally hidden by an
		// orthogonal similarity.
		lam := float64(rng.Intn(5) - 2)
		for i := 0; i < n; i++ {
			if rng.Intn(4) == 0 {
				lam = float64(rng.Intn(5) - 2)
			}
			a.d[i*n+i] = lam
			if i+1 < n && rng.Intn(5) != 0 {
				a.d[i*n+i+1] = 1
			}
		}
		if rng.Intn(2) == 0 {
			return similarity(a, rng)
		}
		return a
	case clsComplexPairs:
		for i := 0; i < n; {
			if i+1 < n && rng.Intn(3) != 0 {
				re, im := rng.Finite(), 0.25+math.Abs(rng.Finite())
				a.d[i*n+i], a.d[i*n+i+1] = re, im
				a.d[(i+1)*n+i], a.d[(i+1)*n+i+1] = -im, re
				i += 2
			} else {
				a.d[i*n+i] = rng.Finite()
				i++
			}
		}
		if rng.Intn(3) != 0 {
			return similarity(a, rng)
		}
		return a
	case clsHessenberg:
		g := gauss(n, n, rng)
		for i := 0; i < n; i++ {
			for j := 0; j+1 < i; j++ {
				g.d[i*n+j] = 0
			}
		}
		return g
	case clsTriangular:
		g := gauss(n, n, rng)
		for i := 0; i < n; i++ {
			for j := 0; j < i; j++ {
				g.d[i*n+j] = 0
			}
		}
		return g
	case clsDiagonal:
		for i := 0; i < n; i++ {
			a.d[i*n+i] = rng.Finite()
		}
		return a
	case clsZero:
		return a
	case clsRankDef:
		r := rng.Intn(n/2 + 1)
		return mul(gaussN(n, r, rng), gaussN(r, n, rng))
	case clsPermTri:
		// P T Pᵀ with T upper triangular, possibly with a dense middle block so
		// that Dgebal finds 0 < ilo <= ihi < n-1.
		t := gauss(n, n, rng)
		for i := 0; i < n; i++ {
			for j := 0; j < i; j++ {
				t.d[i*n+j] = 0
			}
		}
		if n >= 4 && rng.Intn(2) == 0 {
			lo := rng.Intn(n / 2)
			hi := lo + 1 + rng.Intn(n-lo-1)
			for i := lo; i <= hi; i++ {
				for j := lo; j <= hi; j++ {
					v := rng.Finite()
					if v == 0 {
						v = 1
					}
					t.d[i*n+j] = v
				}
			}
		}
		p := rng.Perm(n)
		for i := 0; i < n; i++ {
			for j := 0; j < n; j++ {
				a.d[p[i]*n+p[j]] = t.d[i*n+j]
			}
		}
		return a
	case clsSparse:
		dens := 1 + rng.Intn(3)
		for i := range a.d {
			if rng.Intn(5) < dens {
				a.d[i] = rng.Finite()
			}
		}
		return a
	case clsOrthogonal:
		return randOrth(n, rng)
	}
	return gauss(n, n, rng)
}

func isDiagonal(a mat) bool {
	for i := 0; i < a.r; i++ {
		for j := 0; j < a.c; j++ {
			if i != j && a.d[i*a.c+j] != 0 {
				return false
			}
		}
	}
	return true
}

// Rectangular classes for the SVD family.
const (
	rcGauss = iota
	rcRankDef
	rcGraded
	rcZero
	rcDiagonal
	rcTriangular
	rcRepeated
	rcOnes
	numRectCls
)

var rcNames = []string{"gauss", "rank-deficient", "graded", "zero", "diagonal", "triangular", "repeated-sv", "rank-one"}

func genRect(cls, m, n int, rng *vk.SplitMix) mat {
	a := newMat(m, n)
	if m == 0 || n == 0 {
		return a
	}
	mn := min(m, n)
	switch cls {
	case rcGauss:
		return gauss(m, n, rng)
	case rcRankDef:
		r := rng.Intn(mn/2 + 1)
		return mul(gaussN(m, r, rng), gaussN(r, n, rng))
	case rcGraded:
		g := gauss(m, n, rng)
		step := 1 + rng.Intn(3)
		for i := 0; i < m; i++ {
			for j := 0; j < n; j++ {
				g.d[i*n+j] = math.Ldexp(g.d[i*n+j], -gexp(step, i+j, m+n-2))
			}
		}
		return g
	case rcZero:
		return a
	case rcDiagonal:
		for i := 0; i < mn; i++ {
			a.d[i*n+i] = rng.Finite()
		}
		return a
	case rcTriangular:
		g := gauss(m, n, rng)
		for i := 0; i < m; i++ {
			for j := 0; j < i && j < n; j++ {
				g.d[i*n+j] = 0
			}
		}
		return g
	case rcRepeated:
		// U diag(repeated) Vᵀ
		s := repeatedSpectrum(mn, rng)
		u := randOrth(m, rng)
		v := randOrth(n, rng)
		return mul(mul(u, diagMat(m, n, s)), v.T())
	case rcOnes:
		x, y := gaussN(m, 1, rng), gaussN(1, n, rng)
		return mul(x, y)
	}
	return gauss(m, n, rng)
}

// ---------------------------------------------------------------------------
// Independent references.
// ---------------------------------------------------------------------------

// jacobiSVD returns the singular values (descending) of the r×c matrix a by
// one-sided (Hestenes) Jacobi. It does not call any LAPACK code.
func jacobiSVD(a mat) []float64 {
	if a.r < a.c {
		a = a.T()
	}
	m, n := a.r, a.c
	if n == 0 {
		return nil
	}
	// column-major working copy, pre-scaled into a safe range
	var amax float64
	for _, v := range a.d {
		amax = math.Max(amax, math.Abs(v))
	}
	if amax == 0 {
		return make([]float64, n)
	}
	_, e := math.Frexp(amax)
	cols := make([][]float64, n)
	for j := range cols {
		cols[j] = make([]float64, m)
		for i := 0; i < m; i++ {
			cols[j][i] = math.Ldexp(a.d[i*n+j], -e)
		}
	}
	for sweep := 0; sweep < 60; sweep++ {
		rotated := false
		for p := 0; p < n-1; p++ {
			for q := p + 1; q < n; q++ {
				var alpha, beta, gamma float64
				cp, cq := cols[p], cols[q]
				for i := 0; i < m; i++ {
					alpha += cp[i] * cp[i]
					beta += cq[i] * cq[i]
					gamma += cp[i] * cq[i]
				}
				if gamma == 0 || math.Abs(gamma) <= eps*math.Sqrt(alpha*beta) {
					continue
				}
				rotated = true
				zeta := (beta - alpha) / (2 * gamma)
				t := math.Copysign(1, zeta) / (math.Abs(zeta) + math.Sqrt(1+zeta*zeta))
				if math.IsInf(zeta, 0) {
					t = 0
				}
				cs := 1 / math.Sqrt(1+t*t)
				sn := cs * t
				for i := 0; i < m; i++ {
					x, y := cp[i], cq[i]
					cp[i] = cs*x - sn*y
					cq[i] = sn*x + cs*y
				}
			}
		}
		vk.Progress()
		if !rotated {
			break
		}
	}
	s := make([]float64, n)
	for j := range s {
		s[j] = math.Ldexp(nrm2(cols[j]), e)
	}
	sort.Sort(sort.Reverse(sort.Float64Slice(s)))
	return s
}

// jacobiEig returns the eigenvalues (ascending) of the symmetric matrix a by the
// cyclic two-sided Jacobi method.
func jacobiEig(a mat) []float64 {
	n := a.r
	w := a.clone()
	for sweep := 0; sweep < 60; sweep++ {
		var off, tot float64
		for i := 0; i < n; i++ {
			for j := 0; j < n; j++ {
				v := w.d[i*n+j]
				tot += v * v
				if i != j {
					off += v * v
				}
			}
		}
		if off == 0 || off <= 1e-34*tot {
			break
		}
		for p := 0; p < n-1; p++ {
			for q := p + 1; q < n; q++ {
				apq := w.d[p*n+q]
				if apq == 0 {
					continue
				}
				app, aqq := w.d[p*n+p], w.d[q*n+q]
				theta := (aqq - app) / (2 * apq)
				t := math.Copysign(1, theta) / (math.Abs(theta) + math.Sqrt(1+theta*theta))
				if math.IsInf(theta, 0) {
					t = 0
				}
				cs := 1 / math.Sqrt(1+t*t)
				sn := t * cs
				for k := 0; k < n; k++ {
					akp, akq := w.d[k*n+p], w.d[k*n+q]
					w.d[k*n+p] = cs*akp - sn*akq
					w.d[k*n+q] = sn*akp + cs*akq
				}
				for k := 0; k < n; k++ {
					apk, aqk := w.d[p*n+k], w.d[q*n+k]
					w.d[p*n+k] = cs*apk - sn*aqk
					w.d[q*n+k] = sn*apk + cs*aqk
				}
			}
		}
		vk.Progress()
	}
	ev := make([]float64, n)
	for i := range ev {
		ev[i] = w.d[i*n+i]
	}
	sort.Float64s(ev)
	return ev
}

// sigmaMinWitness returns an upper bound of sigma_min(A - lambda I): the value
// ||(A-lambda I)x|| / ||x|| for a vector x obtained by inverse iteration with the
// harness's own complex LU. Any x gives a valid upper bound, so accuracy of the
// LU matters only for the tightness of the bound.
func sigmaMinWitness(a mat, lam complex128) float64 {
	n := a.r
	if n == 0 {
		return 0
	}
	m := make([]complex128, n*n)
	var mnorm float64
	for i := 0; i < n; i++ {
		for j := 0; j < n; j++ {
			v := complex(a.d[i*n+j], 0)
			if i == j {
				v -= lam
			}
			m[i*n+j] = v
			mnorm = math.Max(mnorm, cmplx.Abs(v))
		}
	}
	if mnorm == 0 {
		return 0
	}
	lu := append([]complex128(nil), m...)
	piv := make([]int, n)
	tiny := complex(mnorm*eps, 0)
	for k := 0; k < n; k++ {
		p := k
		best := cmplx.Abs(lu[k*n+k])
		for i := k + 1; i < n; i++ {
			if v := cmplx.Abs(lu[i*n+k]); v > best {
				best, p = v, i
			}
		}
		piv[k] = p
		if p != k {
			for j := 0; j < n; j++ {
				lu[k*n+j], lu[p*n+j] = lu[p*n+j], lu[k*n+j]
			}
		}
		if best < real(tiny) {
			lu[k*n+k] = tiny
		}
		d := lu[k*n+k]
		for i := k + 1; i < n; i++ {
			f := lu[i*n+k] / d
			lu[i*n+k] = f
			if f == 0 {
				continue
			}
			ri, rk := lu[i*n+k+1:i*n+n], lu[k*n+k+1:k*n+n]
			for j := range ri {
				ri[j] -= f * rk[j]
			}
		}
	}
	renorm := func(x []complex128) {
		var s float64
		for _, v := range x {
			s = math.Max(s, cmplx.Abs(v))
		}
		if s == 0 || math.IsInf(s, 0) || math.IsNaN(s) {
			return
		}
		for i := range x {
			x[i] /= complex(s, 0)
		}
	}
	// solve M y = x  (P M = L U)
	solve := func(x []complex128) {
		for k := 0; k < n; k++ {
			x[k], x[piv[k]] = x[piv[k]], x[k]
		}
		for i := 1; i < n; i++ {
			var s complex128
			for j := 0; j < i; j++ {
				s += lu[i*n+j] * x[j]
			}
			x[i] -= s
		}
		for i := n - 1; i >= 0; i-- {
			var s complex128
			for j := i + 1; j < n; j++ {
				s += lu[i*n+j] * x[j]
			}
			x[i] = (x[i] - s) / lu[i*n+i]
		}
	}
	// solve Mᴴ y = x: Mᴴ = Uᴴ Lᴴ P
	solveH := func(x []complex128) {
		for i := 0; i < n; i++ {
			var s complex128
			for j := 0; j < i; j++ {
				s += cmplx.Conj(lu[j*n+i]) * x[j]
			}
			x[i] = (x[i] - s) / cmplx.Conj(lu[i*n+i])
		}
		for i := n - 1; i >= 0; i-- {
			var s complex128
			for j := i + 1; j < n; j++ {
				s += cmplx.Conj(lu[j*n+i]) * x[j]
			}
			x[i] -= s
		}
		for k := n - 1; k >= 0; k-- {
			x[k], x[piv[k]] = x[piv[k]], x[k]
		}
	}
	resid := func(x []complex128) float64 {
		var rn, xn float64
		for i := 0; i < n; i++ {
			var s complex128
			for j := 0; j < n; j++ {
				s += m[i*n+j] * x[j]
			}
			rn += real(s)*real(s) + imag(s)*imag(s)
			xn += real(x[i])*real(x[i]) + imag(x[i])*imag(x[i])
		}
		if xn == 0 || math.IsNaN(rn) || math.IsNaN(xn) {
			return math.Inf(1)
		}
		return math.Sqrt(rn / xn)
	}
	x := make([]complex128, n)
	for i := range x {
		x[i] = complex(1+float64(i%3)*0.25, float64(i%2)*0.5)
	}
	best := math.Inf(1)
	for it := 0; it < 3; it++ {
		// one step of inverse iteration on MᴴM: x <- M^{-1} M^{-H} x
		solveH(x)
		renorm(x)
		solve(x)
		renorm(x)
		if r := resid(x); r < best {
			best = r
		}
	}
	return best
}

// sigmaMinExact computes sigma_min(A - lambda I) with the Jacobi SVD of the real
// 2n×2n embedding (n×n for real lambda).
func sigmaMinExact(a mat, lam complex128) float64 {
	n := a.r
	if imag(lam) == 0 {
		b := a.clone()
		for i := 0; i < n; i++ {
			b.d[i*n+i] -= real(lam)
		}
		s := jacobiSVD(b)
		return s[len(s)-1]
	}
	b := newMat(2*n, 2*n)
	for i := 0; i < n; i++ {
		for j := 0; j < n; j++ {
			v := a.d[i*n+j]
			if i == j {
				v -= real(lam)
			}
			b.d[i*2*n+j] = v
			b.d[(n+i)*2*n+n+j] = v
		}
		b.d[i*2*n+n+i] = imag(lam)
		b.d[(n+i)*2*n+i] = -imag(lam)
	}
	s := jacobiSVD(b)
	return s[len(s)-1]
}

// eigenvalueValid checks sigma_min(A - lambda I) <= tol.
func eigenvalueValid(a mat, lam complex128, tol float64) (ok bool, bound float64) {
	w := sigmaMinWitness(a, lam)
	if w <= tol {
		return true, w
	}
	vk.Class("sigma-min:jacobi-fallback")
	s := sigmaMinExact(a, lam)
	return s <= tol, s
}

// checkEigenvalues applies the ordering rules, the sigma_min validity test (all
// eigenvalues for n <= 40, a subset of 8 beyond), the trace identity and Schur's
// inequality to computed eigenvalues (wr, wi) of a.
func checkEigenvalues(pfx string, a mat, wr, wi []float64, rng *vk.SplitMix) *vk.Failure {
	n := a.r
	na := frob(a)
	tol := cN * float64(n) * eps * na
	for i := 0; i < n; i++ {
		if math.IsNaN(wr[i]) || math.IsNaN(wi[i]) || math.IsInf(wr[i], 0) || math.IsInf(wi[i], 0) {
			return vk.Failf(pfx+"eigenvalue-non-finite", "n=%d eigenvalue %d = (%v,%v)", n, i, wr[i], wi[i])
		}
	}
	// conjugate pairs adjacent, positive imaginary part first, equal real parts
	for i := 0; i < n; {
		switch {
		case wi[i] == 0:
			i++
		case wi[i] > 0:
			if i+1 >= n || wi[i+1] != -wi[i] || !bitsEq(wr[i+1], wr[i]) {
				var nx [2]float64
				if i+1 < n {
					nx = [2]float64{wr[i+1], wi[i+1]}
				}
				return vk.Failf(pfx+"conjugate-pairing", "n=%d eigenvalue %d = (%v,%v) is not followed by its conjugate: next = %v", n, i, wr[i], wi[i], nx)
			}
			i += 2
		default:
			return vk.Failf(pfx+"conjugate-pairing", "n=%d eigenvalue %d = (%v,%v) has negative imaginary part but does not follow its conjugate", n, i, wr[i], wi[i])
		}
	}
	idx := make([]int, 0, n)
	if n <= 40 {
		for i := 0; i < n; i++ {
			idx = append(idx, i)
		}
	} else {
		for len(idx) < 8 {
			idx = append(idx, rng.Intn(n))
		}
	}
	for _, i := range idx {
		if wi[i] < 0 {
			continue // conjugate of the previous one: same singular values
		}
		ok, s := eigenvalueValid(a, complex(wr[i], wi[i]), tol)
		if !ok {
			return vk.Failf(pfx+"eigenvalue-not-valid", "n=%d: reported eigenvalue %d = (%v,%v) has sigma_min(A-lambda I) = %.3g > %.3g = %g*n*eps*||A||_F", n, i, wr[i], wi[i], s, tol, cN)
		}
	}
	var tr, sum, sq vk.DD
	for i := 0; i < n; i++ {
		tr.Add(a.d[i*n+i])
		sum.Add(wr[i])
		sq.AddProd(wr[i], wr[i])
		sq.AddProd(wi[i], wi[i])
	}
	if d := math.Abs(tr.Float() - sum.Float()); d > tol {
		return vk.Failf(pfx+"trace", "n=%d: sum of eigenvalues %v differs from trace %v by %.3g > %.3g", n, sum.Float(), tr.Float(), d, tol)
	}
	if s := sq.Float(); s > na*na*(1+2*cN*float64(n)*eps) {
		return vk.Failf(pfx+"schur-inequality", "n=%d: sum |lambda|^2 = %v exceeds ||A||_F^2 = %v", n, s, na*na)
	}
	return nil
}

// checkQuasiTri verifies the Schur canonical form of rows/cols lo..hi of t:
// zeros below the first subdiagonal, no two consecutive non-zero subdiagonal
// entries, and every 2×2 block standardised (equal diagonal, off-diagonal
// product negative).
func checkQuasiTri(pfx string, t mat, lo, hi int) *vk.Failure {
	n := t.r
	for i := lo; i <= hi; i++ {
		for j := lo; j+1 < i; j++ {
			if t.d[i*n+j] != 0 {
				return vk.Failf(pfx+"schur-form-not-hessenberg", "T[%d,%d] = %v below the first subdiagonal (n=%d)", i, j, t.d[i*n+j], n)
			}
		}
	}
	for i := lo; i < hi; i++ {
		if t.d[(i+1)*n+i] == 0 {
			continue
		}
		if i+2 <= hi && t.d[(i+2)*n+i+1] != 0 {
			return vk.Failf(pfx+"schur-form-3x3-block", "T[%d,%d] and T[%d,%d] both non-zero (n=%d)", i+1, i, i+2, i+1, n)
		}
		a, b, c, d := t.d[i*n+i], t.d[i*n+i+1], t.d[(i+1)*n+i], t.d[(i+1)*n+i+1]
		if a != d || !((b > 0 && c < 0) || (b < 0 && c > 0)) {
			return vk.Failf(pfx+"schur-block-not-standard", "2x2 block at %d: [%v %v; %v %v] (need equal diagonal and b*c<0), n=%d", i, a, b, c, d, n)
		}
	}
	return nil
}

// blockStarts returns for each index whether it is the first row of a 1×1 block
// (1), of a 2×2 block (2), or the second row of a 2×2 block (0).
func blockSizes(t mat) []int {
	n := t.r
	bs := make([]int, n)
	for i := 0; i < n; {
		if i+1 < n && t.d[(i+1)*n+i] != 0 {
			bs[i], bs[i+1] = 2, 0
			i += 2
		} else {
			bs[i] = 1
			i++
		}
	}
	return bs
}

// genSchur builds an n×n upper quasi-triangular matrix in Schur canonical form.
// mode 0: generic; 1: repeated / close eigenvalues; 2: all real; 3: graded; 4:
// mostly 2×2 blocks.
func genSchur(n, mode int, rng *vk.SplitMix) mat {
	t := gauss(n, n, rng)
	for i := 0; i < n; i++ {
		for j := 0; j < i; j++ {
			t.d[i*n+j] = 0
		}
	}
	if mode == 1 {
		d := repeatedSpectrum(n, rng)
		for i := 0; i < n; i++ {
			t.d[i*n+i] = d[i]
		}
	}
	if mode == 3 {
		for i := 0; i < n; i++ {
			for j := i; j < n; j++ {
				t.d[i*n+j] = math.Ldexp(t.d[i*n+j], -gexp(2, i, n-1))
			}
		}
	}
	for i := 0; i+1 < n; {
		if mode != 2 && (rng.Intn(3) == 0 || (mode == 4 && rng.Intn(2) == 0)) {
			b := 0.25 + math.Abs(rng.Finite())
			c := -(0.25 + math.Abs(rng.Finite()))
			if rng.Intn(2) == 0 {
				b, c = -b, -c
			}
			if mode == 3 {
				b, c = math.Ldexp(b, -gexp(2, i, n-1)), math.Ldexp(c, -gexp(2, i, n-1))
			}
			t.d[i*n+i+1] = b
			t.d[(i+1)*n+i] = c
			t.d[(i+1)*n+i+1] = t.d[i*n+i]
			i += 2
		} else {
			i++
		}
	}
	return t
}

// ---------------------------------------------------------------------------
// Drawing helpers.
// ---------------------------------------------------------------------------

var dimBoundaries = []int{0, 1, 2, 10, 11, 14, 15, 16, 74, 75, 76}

func drawPads(t *rapid.T, k int) (p [5]int) {
	for i := 0; i < k; i++ {
		p[i] = vk.Pad(t, fmt.Sprint("pad", i))
	}
	return
}

func drawSeed(t *rapid.T) uint64 { return rapid.Uint64().Draw(t, "seed") }

func drawLW(t *rapid.T) int { return rapid.SampledFrom([]int{0, 0, 1, 1, 2, 2, 3}).Draw(t, "lw") }

// ilohi maps the per-mille fields to 0 <= ilo <= ihi < n (n > 0). 0/1000 => full
// range.
func (c kase) ilohi(n int) (ilo, ihi int) {
	if n == 0 {
		return 0, -1
	}
	ilo = c.Ilo * n / 1001
	ihi = c.Ihi * n / 1001
	if ilo > ihi {
		ilo, ihi = ihi, ilo
	}
	return ilo, ihi
}

func drawIloIhi(t *rapid.T) (int, int) {
	if rapid.IntRange(0, 9).Draw(t, "full") < 6 {
		return 0, 1000
	}
	return rapid.IntRange(0, 1000).Draw(t, "ilo"), rapid.IntRange(0, 1000).Draw(t, "ihi")
}

// nonTrivial implements the rule of the property: n >= 3, non-diagonal input and
// (vectors requested or non-minimal leading dimension or lwork < query).
func nonTrivial(c kase, n int, a mat, vectors, ldpad, lwBelow bool) {
	if n >= 3 && !isDiagonal(a) && (vectors || ldpad || lwBelow) {
		vk.NonTrivial(c.R, c.J, c.M, c.N, c.P, c.K, c.Pad, c.LW, c.Cls, c.Sc, c.Ilo, c.Ihi, c.Wrap, c.Seed)
	}
}

func anyPad(p [5]int, k int) bool {
	for i := 0; i < k; i++ {
		if p[i] != 0 {
			return true
		}
	}
	return false
}

// gexp returns the grading exponent step*idx, with the step reduced so that the
// exponents stay within +-150 over idx in [-span, span]: the harness's own
// products must not overflow and data scaled by 2^+-510 must stay normal (exact).
func gexp(step, idx, span int) int {
	if span*step <= 150 {
		return step * idx
	}
	return int(math.Round(float64(idx) * 150 / float64(span)))
}

// pow2 returns 2^k exactly.
func pow2(k int) float64 { return math.Ldexp(1, k) }

// dimN draws a size in [0,hi] like vk.Dim (tiny values, the listed boundaries and
// their neighbours, the uniform range) but with less weight on the tiny sizes,
// which cannot be non-trivial under the rule of this property (n >= 3).
func dimN(t *rapid.T, label string, hi int, boundaries ...int) int {
	var cand []int
	for _, b := range boundaries {
		for _, v := range []int{b - 1, b, b + 1} {
			if v >= 0 && v <= hi {
				cand = append(cand, v)
			}
		}
	}
	k := rapid.IntRange(0, 99).Draw(t, label+"_mix")
	switch {
	case k < 12:
		return min(hi, rapid.IntRange(0, 3).Draw(t, label+"_tiny"))
	case k < 40 && len(cand) > 0:
		return rapid.SampledFrom(cand).Draw(t, label+"_bnd")
	}
	return rapid.IntRange(min(4, hi), hi).Draw(t, label)
}
