package c03

import (
	"fmt"
	"math"
	"sort"
	"strings"
	"testing"

	"gonum.org/v1/gonum/blas"
	"gonum.org/v1/gonum/lapack"
	"pgregory.net/rapid"
	"verifharness/vk"
)

// ---- Dlartg -----------------------------------------------------------------------

type rotCase struct {
	F, G   vk.F
	Ef, Eg int // binary exponents applied to F and G
}

func checkLartg(c rotCase) *vk.Failure {
	f := math.Ldexp(float64(c.F), c.Ef)
	g := math.Ldexp(float64(c.G), c.Eg)
	vk.NonTrivial("lartg", c.F, c.G, c.Ef, c.Eg)
	vk.Sample("lartg", c)
	cs, sn, r := impl.Dlartg(f, g)
	desc := fmt.Sprintf("Dlartg(%v,%v) = (cs=%v, sn=%v, r=%v)", f, g, cs, sn, r)
	if math.IsNaN(cs) || math.IsNaN(sn) || math.IsNaN(r) || math.IsInf(r, 0) {
		return vk.Failf("non-finite", "%s", desc)
	}
	if g == 0 && (cs != 1 || sn != 0) {
		return vk.Failf("g-zero", "%s: documented cs=1 sn=0", desc)
	}
	if f == 0 && g != 0 && (cs != 0 || sn != math.Copysign(1, g)) {
		return vk.Failf("f-zero", "%s: documented cs=0 sn=sign(g)", desc)
	}
	if cs < 0 {
		return vk.Failf("cs-negative", "%s", desc)
	}
	if math.Abs(cs*cs+sn*sn-1) > 32*eps {
		return vk.Failf("not-a-rotation", "%s: cs²+sn²-1 = %.3g", desc, cs*cs+sn*sn-1)
	}
	// bring the data to unit scale (exact powers of two; underflow of the smaller
	// entry is below the tolerance)
	_, e1 := math.Frexp(f)
	_, e2 := math.Frexp(g)
	e := max(e1, e2)
	if f == 0 {
		e = e2
	}
	if g == 0 {
		e = e1
	}
	fs, gs, rs := math.Ldexp(f, -e), math.Ldexp(g, -e), math.Ldexp(r, -e)
	nrm := math.Hypot(fs, gs)
	// 8 ulps, plus the quantisation of r itself when it is subnormal
	tol := 8*eps*nrm + math.Ldexp(1, -1074-e)
	if d := math.Abs(cs*fs + sn*gs - rs); d > tol {
		return vk.Failf("first-row", "%s: cs*f+sn*g-r = %.3g (scaled by 2^%d)", desc, d, -e)
	}
	if d := math.Abs(-sn*fs + cs*gs); d > tol {
		return vk.Failf("second-row", "%s: -sn*f+cs*g = %.3g (scaled by 2^%d)", desc, d, -e)
	}
	if d := math.Abs(math.Abs(rs) - nrm); d > tol {
		return vk.Failf("r-magnitude", "%s: |r| differs from hypot(f,g) by %.3g (scaled)", desc, d)
	}
	return nil
}

func TestLartg(t *testing.T) {
	vk.Run(t, "lartg", vk.Opts{Quick: 4000, Thorough: 300000, NoCrumb: true}, func(t *rapid.T) rotCase {
		g := vk.FiniteGen()
		c := rotCase{F: vk.F(g.Draw(t, "f")), G: vk.F(g.Draw(t, "g"))}
		ex := rapid.SampledFrom([]int{0, 0, 0, 1, -1, 30, -30, 500, -500, 511, -511, 1000, -1000, 1015, -1060})
		c.Ef, c.Eg = ex.Draw(t, "ef"), ex.Draw(t, "eg")
		return c
	}, checkLartg)
}

// ---- Dlasrt -------------------------------------------------------------------------

type sortCase struct {
	N    int
	Dec  bool
	Kind int // 0 random, 1 many duplicates, 2 sorted, 3 reversed, 4 constant
	Seed uint64
}

func checkLasrt(c sortCase) *vk.Failure {
	rng := vk.NewSplitMix(c.Seed)
	n := c.N
	x := make([]float64, n)
	for i := range x {
		switch c.Kind {
		case 1:
			x[i] = float64(rng.Intn(5))
		case 4:
			x[i] = 2.5
		default:
			x[i] = rng.Finite()
		}
	}
	if c.Kind == 2 || c.Kind == 3 {
		sort.Float64s(x)
		if c.Kind == 3 {
			for i, j := 0, n-1; i < j; i, j = i+1, j-1 {
				x[i], x[j] = x[j], x[i]
			}
		}
	}
	vk.NonTrivial("lasrt", c.N, c.Dec, c.Kind, c.Seed)
	vk.Sample("lasrt", c)
	vk.Class(fmt.Sprintf("lasrt:dec=%v,kind=%d,n>20=%v", c.Dec, c.Kind, n > 20))
	d := newPvec("d", n, rng, false).fillVec(x)
	s := lapack.SortIncreasing
	if c.Dec {
		s = lapack.SortDecreasing
	}
	if f := runPlain(func() { impl.Dlasrt(s, n, d.data) }, d); f != nil {
		return f
	}
	got := d.vec()
	want := append([]float64(nil), x...)
	sort.Float64s(want)
	if c.Dec {
		for i, j := 0, n-1; i < j; i, j = i+1, j-1 {
			want[i], want[j] = want[j], want[i]
		}
	}
	for i := range want {
		if got[i] != want[i] {
			return vk.Failf("not-sorted-permutation", "Dlasrt(%c, n=%d): position %d is %v, the sorted input has %v", s, n, i, got[i], want[i])
		}
	}
	return nil
}

func TestLasrt(t *testing.T) {
	vk.Run(t, "lasrt", vk.Opts{Quick: 1500, Thorough: 60000, NoCrumb: true}, func(t *rapid.T) sortCase {
		return sortCase{
			N:    dimN(t, "n", 300, 0, 1, 2, 20, 21),
			Dec:  rapid.Bool().Draw(t, "dec"),
			Kind: rapid.IntRange(0, 4).Draw(t, "kind"),
			Seed: drawSeed(t),
		}
	}, checkLasrt)
}

// ---- Dlasr --------------------------------------------------------------------------

type lasrCase struct {
	Side, Pivot, Direct int
	M, N, Pad           int
	Kind                int // 0 random angles, 1 includes identity rotations, 2 includes quarter turns
	Seed                uint64
}

func checkLasr(c lasrCase) *vk.Failure {
	rng := vk.NewSplitMix(c.Seed)
	m, n := c.M, c.N
	side := []blas.Side{blas.Left, blas.Right}[c.Side]
	pivot := []lapack.Pivot{lapack.Variable, lapack.Top, lapack.Bottom}[c.Pivot]
	direct := []lapack.Direct{lapack.Forward, lapack.Backward}[c.Direct]
	z := m
	if side == blas.Right {
		z = n
	}
	nr := max(z-1, 0)
	cs, sn := make([]float64, nr), make([]float64, nr)
	for i := range cs {
		th := 2 * math.Pi * rng.Float()
		cs[i], sn[i] = math.Cos(th), math.Sin(th)
		switch {
		case c.Kind == 1 && rng.Intn(2) == 0:
			cs[i], sn[i] = 1, 0
		case c.Kind == 2 && rng.Intn(2) == 0:
			cs[i], sn[i] = 0, 1
		}
	}
	a0 := gauss(m, n, rng)
	lda := max(1, n) + c.Pad
	a := newPmat("a", m, n, lda, rng, false).fill(a0)
	cv := newPvec("c", nr, rng, false).fillVec(cs)
	sv := newPvec("s", nr, rng, false).fillVec(sn)
	vk.NonTrivial("lasr", c.Side, c.Pivot, c.Direct, c.M, c.N, c.Pad, c.Kind, c.Seed)
	vk.Sample("lasr", c)
	vk.Class(fmt.Sprintf("lasr:%c%c%c", side, pivot, direct))
	if f := runPlain(func() { impl.Dlasr(side, pivot, direct, m, n, cv.data, sv.data, a.data, lda) }, a, cv, sv); f != nil {
		return f
	}
	if f := firstFail(cv.same("c-modified"), sv.same("s-modified")); f != nil {
		return f
	}
	// reference: rotation k acts on the plane (p,q) as new_p = c x_p + s x_q,
	// new_q = -s x_p + c x_q; forward applies k = 0,1,...; backward k = z-2,...,0
	want := a0.clone()
	w := want
	if side == blas.Right {
		w = want.T() // A Pᵀ: the same update on the columns
	}
	rot := func(k int) {
		var p, q int
		switch pivot {
		case lapack.Variable:
			p, q = k, k+1
		case lapack.Top:
			p, q = 0, k+1
		default:
			p, q = k, z-1
		}
		for j := 0; j < w.c; j++ {
			xp, xq := w.d[p*w.c+j], w.d[q*w.c+j]
			w.d[p*w.c+j] = cs[k]*xp + sn[k]*xq
			w.d[q*w.c+j] = -sn[k]*xp + cs[k]*xq
		}
	}
	if direct == lapack.Forward {
		for k := 0; k < nr; k++ {
			rot(k)
		}
	} else {
		for k := nr - 1; k >= 0; k-- {
			rot(k)
		}
	}
	if side == blas.Right {
		want = w.T()
	}
	tol := 8 * float64(nr+1) * eps * frob(a0)
	if d := frob(sub(a.dense(), want)); !(d <= tol) {
		key := "rotation-sequence"
		if side == blas.Left && pivot == lapack.Top && direct == lapack.Backward {
			key = "left-top-backward" // known finding: the column loop is nested twice
		}
		return vk.Failf(key, "Dlasr(%c,%c,%c, m=%d, n=%d): ||A - P A||_F = %.3g > %.3g", side, pivot, direct, m, n, d, tol)
	}
	return nil
}

func TestLasr(t *testing.T) {
	vk.Run(t, "lasr", vk.Opts{Quick: 1500, Thorough: 60000, NoCrumb: true}, func(t *rapid.T) lasrCase {
		return lasrCase{
			Side:   rapid.IntRange(0, 1).Draw(t, "side"),
			Pivot:  rapid.IntRange(0, 2).Draw(t, "pivot"),
			Direct: rapid.IntRange(0, 1).Draw(t, "direct"),
			M:      dimN(t, "m", 14, 0, 1, 2),
			N:      dimN(t, "n", 14, 0, 1, 2),
			Pad:    vk.Pad(t, "pad"),
			Kind:   rapid.IntRange(0, 2).Draw(t, "kind"),
			Seed:   drawSeed(t),
		}
	}, checkLasr)
}

// ---- Dlarft (forward) ------------------------------------------------------------------
//
// Not named in the property, but every blocked reduction and back-transformation
// under it (Dorgqr/Dorglq/Dormqr/Dormlq behind Dorgbr, Dormbr, Dorghr, Dormhr,
// Dorgtr, Dgehrd, Dgesvd, the deflation window of Dlaqr23) multiplies by
// I - V*T*Vᵀ with T from Dlarft. The generator concentrates on what the blocked
// callers produce for degenerate matrices: reflector vectors with trailing zeros.

type larftCase struct {
	N, K, Pad int
	RowWise   bool
	Zeros     []int // number of trailing zeros of reflector i (clamped)
	TauZero   []bool
	Seed      uint64
}

// larftRun builds V and tau, calls Dlarft(Forward, ...) and returns
// ||(I - V T Vᵀ) - H_0 H_1 ... H_{k-1}||_F together with the acceptance bound.
func larftRun(c larftCase) (diff, tol float64, f *vk.Failure) {
	rng := vk.NewSplitMix(c.Seed)
	n, k := c.N, c.K
	vm := newMat(n, k) // column i = v_i, unit lower trapezoidal
	tau := make([]float64, k)
	for i := 0; i < k; i++ {
		z := 0
		if i < len(c.Zeros) {
			z = min(c.Zeros[i], n-1-i)
		}
		vm.d[i*k+i] = 1
		for r := i + 1; r < n-z; r++ {
			x := rng.Finite()
			if x == 0 {
				x = 0.5
			}
			vm.d[r*k+i] = x
		}
		var s float64
		for r := i; r < n; r++ {
			s += vm.d[r*k+i] * vm.d[r*k+i]
		}
		tau[i] = 2 / s
		if i < len(c.TauZero) && c.TauZero[i] {
			tau[i] = 0
		}
	}
	var v *pmat
	store := lapack.ColumnWise
	if c.RowWise {
		store = lapack.RowWise
		v = newPmat("v", k, n, n+c.Pad, rng, false).fill(vm.T())
	} else {
		v = newPmat("v", n, k, k+c.Pad, rng, false).fill(vm)
	}
	tv := newPvec("tau", k, rng, false).fillVec(tau)
	t := newPmat("t", k, k, k+c.Pad, rng, false)
	t.mask = func(i, j int) bool { return i <= j }
	t.zero()
	if f := runPlain(func() { impl.Dlarft(lapack.Forward, store, n, k, v.data, v.ld, tv.data, t.data, t.ld) }, v, tv, t); f != nil {
		return 0, 0, f
	}
	if f := firstFail(v.same("v-modified"), tv.same("tau-modified"), t.elemsFinite()); f != nil {
		return 0, 0, f
	}
	td := t.dense()
	for i := 0; i < k; i++ {
		for j := 0; j < i; j++ {
			td.d[i*k+j] = 0
		}
	}
	h := eye(n)
	for i := 0; i < k; i++ {
		col := make([]float64, n-i)
		for r := i; r < n; r++ {
			col[r-i] = vm.d[r*k+i]
		}
		applyReflRight(h, i, col, tau[i])
	}
	blockH := sub(eye(n), mul(mul(vm, td), vm.T()))
	nv := frob(vm)
	return frob(sub(blockH, h)), 50 * float64(k) * eps * (1 + nv*nv), nil
}

func checkLarft(c larftCase) *vk.Failure {
	vk.NonTrivial("larft", c.N, c.K, c.Pad, c.RowWise, fmt.Sprint(c.Zeros), fmt.Sprint(c.TauZero), c.Seed)
	vk.Sample("larft", c)
	vk.Class(fmt.Sprintf("larft:rowwise=%v", c.RowWise))
	d, tol, f := larftRun(c)
	if f != nil {
		return f
	}
	if !(d <= tol) {
		return vk.Failf("block-reflector", "Dlarft(Forward, rowwise=%v, n=%d, k=%d), trailing zeros %v: ||(I - V T Vᵀ) - H_0...H_{k-1}||_F = %.3g > %.3g", c.RowWise, c.N, c.K, c.Zeros, d, tol)
	}
	return nil
}

func TestLarft(t *testing.T) {
	vk.Run(t, "larft", vk.Opts{Quick: 1500, Thorough: 60000, NoCrumb: true}, func(t *rapid.T) larftCase {
		k := rapid.IntRange(1, 8).Draw(t, "k")
		n := k + 1 + rapid.IntRange(0, 10).Draw(t, "extra")
		return larftCase{
			N: n, K: k, Pad: vk.Pad(t, "pad"),
			RowWise: rapid.Bool().Draw(t, "rowwise"),
			Zeros:   rapid.SliceOfN(rapid.SampledFrom([]int{0, 0, 0, 1, 2, 3, 5, 100}), k, k).Draw(t, "zeros"),
			TauZero: rapid.SliceOfN(rapid.SampledFrom([]bool{false, false, false, false, true}), k, k).Draw(t, "tauzero"),
			Seed:    drawSeed(t),
		}
	}, checkLarft)
}

// dlarftBroken reports whether Dlarft(Forward) mishandles a second reflector
// with more trailing zeros than the first (known finding larft/block-reflector:
// 'if i > 1' instead of 'if i > 0' when updating prevlastv). It is a fixed
// property of the library under test, evaluated once.
var dlarftBroken = func() bool {
	for _, rw := range []bool{false, true} {
		d, tol, f := larftRun(larftCase{N: 7, K: 3, RowWise: rw, Zeros: []int{0, 4, 0}, Seed: 1})
		if f != nil || !(d <= tol) {
			return true
		}
	}
	return false
}()

// viaDlarft re-keys a failure of a sub-check that can reach blocked reflector
// code (some dimension >= 33: Dormqr/Dormlq switch to Dlarft+Dlarfb above the
// block size 32, Dorgqr/Dorglq/Dgehrd above the crossover 128) while Dlarft is
// demonstrably broken in this build. Once Dlarft is repaired the probe passes and
// nothing is re-keyed.
func viaDlarft(f *vk.Failure, dims ...int) *vk.Failure {
	if f == nil || !dlarftBroken || strings.Contains(f.Key, "rescaling-path") || strings.Contains(f.Key, "runtime-fault") || strings.Contains(f.Key, "dlas2-order-ulps") {
		return f
	}
	for _, d := range dims {
		if d >= 33 {
			return vk.Failf("blocked-reflectors-while-dlarft-broken", "[%s] %s", f.Key, f.Msg)
		}
	}
	return f
}
