package c03

import (
	"fmt"
	"math"
	"sort"
	"testing"

	"gonum.org/v1/gonum/blas"
	"gonum.org/v1/gonum/lapack"
	"pgregory.net/rapid"
	"verifharness/vk"
)

// ---- Dlartg -----------------------------------------------------------------------

type rotCase struct {
	F, G   vk.F
	Ef, Eg int // binary exponents applied to F and G
}

func checkLartg(c rotCase) *vk.Failure {
	f := math.Ldexp(float64(c.F), c.Ef)
	g := math.Ldexp(float64(c.G), c.Eg)
	vk.NonTrivial("lartg", c.F, c.G, c.Ef, c.Eg)
	vk.Sample("lartg", c)
	cs, sn, r := impl.Dlartg(f, g)
	desc := fmt.Sprintf("Dlartg(%v,%v) = (cs=%v, sn=%v, r=%v)", f, g, cs, sn, r)
	if math.IsNaN(cs) || math.IsNaN(sn) || math.IsNaN(r) || math.IsInf(r, 0) {
		return vk.Failf("non-finite", "%s", desc)
	}
	if g == 0 && (cs != 1 || sn != 0) {
		return vk.Failf("g-zero", "%s: documented cs=1 sn=0", desc)
	}
	if f == 0 && g != 0 && (cs != 0 || sn != math.Copysign(1, g)) {
		return vk.Failf("f-zero", "%s: documented cs=0 sn=sign(g)", desc)
	}
	if cs < 0 {
		return vk.Failf("cs-negative", "%s", desc)
	}
	if math.Abs(cs*cs+sn*sn-1) > 32*eps {
		return vk.Failf("not-a-rotation", "%s: cs²+sn²-1 = %.3g", desc, cs*cs+sn*sn-1)
	}
	// bring the data to unit scale (exact powers of two; underflow of the smaller
	// entry is below the tolerance)
	_, e1 := math.Frexp(f)
	_, e2 := math.Frexp(g)
	e := max(e1, e2)
	if f == 0 {
		e = e2
	}
	if g == 0 {
		e = e1
	}
	fs, gs, rs := math.Ldexp(f, -e), math.Ldexp(g, -e), math.Ldexp(r, -e)
	nrm := math.Hypot(fs, gs)
	// 8 ulps, plus the quantisation of r itself when it is subnormal
	tol := 8*eps*nrm + math.Ldexp(1, -1074-e)
	if d := math.Abs(cs*fs + sn*gs - rs); d > tol {
		return vk.Failf("first-row", "%s: cs*f+sn*g-r = %.3g (scaled by 2^%d)", desc, d, -e)
	}
	if d := math.Abs(-sn*fs + cs*gs); d > tol {
		return vk.Failf("second-row", "%s: -sn*f+cs*g = %.3g (scaled by 2^%d)", desc, d, -e)
	}
	if d := math.Abs(math.Abs(rs) - nrm); d > tol {
		return vk.Failf("r-magnitude", "%s: |r| differs from hypot(f,g) by %.3g (scaled)", desc, d)
	}
	return nil
}

func TestLartg(t *testing.T) {
	vk.Run(t, "lartg", vk.Opts{Quick: 4000, Thorough: 300000, NoCrumb: true}, func(t *rapid.T) rotCase {
		g := vk.FiniteGen()
		c := rotCase{F: vk.F(g.Draw(t, "f")), G: vk.F(g.Draw(t, "g"))}
		ex := rapid.SampledFrom([]int{0, 0, 0, 1, -1, 30, -30, 500, -500, 511, -511, 1000, -1000, 1015, -1060})
		c.Ef, c.Eg = ex.Draw(t, "ef"), ex.Draw(t, "eg")
		return c
	}, checkLartg)
}

// ---- Dlasrt -------------------------------------------------------------------------

type sortCase struct {
	N    int
	Dec  bool
	Kind int // 0 random, 1 many duplicates, 2 sorted, 3 reversed, 4 constant
	Seed uint64
}

func checkLasrt(c sortCase) *vk.Failure {
	rng := vk.NewSplitMix(c.Seed)
	n := c.N
	x := make([]float64, n)
	for i := range x {
		switch c.Kind {
		case 1:
			x[i] = float64(rng.Intn(5))
		case 4:
			x[i] = 2.5
		default:
			x[i] = rng.Finite()
		}
	}
	if c.Kind == 2 || c.Kind == 3 {
		sort.Float64s(x)
		if c.Kind == 3 {
			for i, j := 0, n-1; i < j; i, j = i+1, j-1 {
				x[i], x[j] = x[j], x[i]
			}
		}
	}
	vk.NonTrivial("lasrt", c.N, c.Dec, c.Kind, c.Seed)
	vk.Sample("lasrt", c)
	vk.Class(fmt.Sprintf("lasrt:dec=%v,kind=%d,n>20=%v", c.Dec, c.Kind, n > 20))
	d := newPvec("d", n, rng, false).fillVec(x)
	s := lapack.SortIncreasing
	if c.Dec {
		s = lapack.SortDecreasing
	}
	if f := runPlain(func() { impl.Dlasrt(s, n, d.data) }, d); f != nil {
		return f
	}
	got := d.vec()
	want := append([]float64(nil), x...)
	sort.Float64s(want)
	if c.Dec {
		for i, j := 0, n-1; i < j; i, j = i+1, j-1 {
			want[i], want[j] = want[j], want[i]
		}
	}
	for i := range want {
		if got[i] != want[i] {
			return vk.Failf("not-sorted-permutation", "Dlasrt(%c, n=%d): position %d is %v, the sorted input has %v", s, n, i, got[i], want[i])
		}
	}
	return nil
}

func TestLasrt(t *testing.T) {
	vk.Run(t, "lasrt", vk.Opts{Quick: 1500, Thorough: 60000, NoCrumb: true}, func(t *rapid.T) sortCase {
		return sortCase{
			N:    dimN(t, "n", 300, 0, 1, 2, 20, 21),
			Dec:  rapid.Bool().Draw(t, "dec"),
			Kind: rapid.IntRange(0, 4).Draw(t, "kind"),
			Seed: drawSeed(t),
		}
	}, checkLasrt)
}

// ---- Dlasr --------------------------------------------------------------------------

type lasrCase struct {
	Side, Pivot, Direct int
	M, N, Pad           int
	Kind                int // 0 random angles, 1 includes identity rotations, 2 includes quarter turns
	Seed                uint64
}

func checkLasr(c lasrCase) *vk.Failure {
	rng := vk.NewSplitMix(c.Seed)
	m, n := c.M, c.N
	side := []blas.Side{blas.Left, blas.Right}[c.Side]
	pivot := []lapack.Pivot{lapack.Variable, lapack.Top, lapack.Bottom}[c.Pivot]
	direct := []lapack.Direct{lapack.Forward, lapack.Backward}[c.Direct]
	z := m
	if side == blas.Right {
		z = n
	}
	nr := max(z-1, 0)
	cs, sn := make([]float64, nr), make([]float64, nr)
	for i := range cs {
		th := 2 * math.Pi * rng.Float()
		cs[i], sn[i] = math.Cos(th), math.Sin(th)
		switch {
		case c.Kind == 1 && rng.Intn(2) == 0:
			cs[i], sn[i] = 1, 0
		case c.Kind == 2 && rng.Intn(2) == 0:
			cs[i], sn[i] = 0, 1
		}
	}
	a0 := gauss(m, n, rng)
	lda := max(1, n) + c.Pad
	a := newPmat("a", m, n, lda, rng, false).fill(a0)
	cv := newPvec("c", nr, rng, false).fillVec(cs)
	sv := newPvec("s", nr, rng, false).fillVec(sn)
	vk.NonTrivial("lasr", c.Side, c.Pivot, c.Direct, c.M, c.N, c.Pad, c.Kind, c.Seed)
	vk.Sample("lasr", c)
	vk.Class(fmt.Sprintf("lasr:%c%c%c", side, pivot, direct))
	if f := runPlain(func() { impl.Dlasr(side, pivot, direct, m, n, cv.data, sv.data, a.data, lda) }, a, cv, sv); f != nil {
		return f
	}
	if f := firstFail(cv.same("c-modified"), sv.same("s-modified")); f != nil {
		return f
	}
	// reference: rotation k acts on the plane (p,q) as new_p = c x_p + s x_q,
	// new_q = -s x_p + c x_q; forward applies k = 0,1,...; backward k = z-2,...,0
	want := a0.clone()
	w := want
	if side == blas.Right {
		w = want.T() // A Pᵀ: the same update on the columns
	}
	rot := func(k int) {
		var p, q int
		switch pivot {
		case lapack.Variable:
			p, q = k, k+1
		case lapack.Top:
			p, q = 0, k+1
		default:
			p, q = k, z-1
		}
		for j := 0; j < w.c; j++ {
			xp, xq := w.d[p*w.c+j], w.d[q*w.c+j]
			w.d[p*w.c+j] = cs[k]*xp + sn[k]*xq
			w.d[q*w.c+j] = -sn[k]*xp + cs[k]*xq
		}
	}
	if direct == lapack.Forward {
		for k := 0; k < nr; k++ {
			rot(k)
		}
	} else {
		for k := nr - 1; k >= 0; k-- {
			rot(k)
		}
	}
	if side == blas.Right {
		want = w.T()
	}
	tol := 8 * float64(nr+1) * eps * frob(a0)
	if d := frob(sub(a.dense(), want)); !(d <= tol) {
		key := "rotation-sequence"
		if side == blas.Left && pivot == lapack.Top && direct == lapack.Backward {
			key = "left-top-backward" // known finding: the column loop is nested twice
		}
		return vk.Failf(key, "Dlasr(%c,%c,%c, m=%d, n=%d): ||A - P A||_F = %.3g > %.3g", side, pivot, direct, m, n, d, tol)
	}
	return nil
}

func TestLasr(t *testing.T) {
	vk.Run(t, "lasr", vk.Opts{Quick: 1500, Thorough: 60000, NoCrumb: true}, func(t *rapid.T) lasrCase {
		return lasrCase{
			Side:   rapid.IntRange(0, 1).Draw(t, "side"),
			Pivot:  rapid.IntRange(0, 2).Draw(t, "pivot"),
			Direct: rapid.IntRange(0, 1).Draw(t, "direct"),
			M:      dimN(t, "m", 14, 0, 1, 2),
			N:      dimN(t, "n", 14, 0, 1, 2),
			Pad:    vk.Pad(t, "pad"),
			Kind:   rapid.IntRange(0, 2).Draw(t, "kind"),
			Seed:   drawSeed(t),
		}
	}, checkLasr)
}
