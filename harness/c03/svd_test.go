package c03

import (
	"fmt"
	"math"
	"strings"
	"testing"

	"gonum.org/v1/gonum/blas"
	"gonum.org/v1/gonum/blas/blas64"
	"gonum.org/v1/gonum/lapack"
	"gonum.org/v1/gonum/lapack/lapack64"
	"pgregory.net/rapid"
	"verifharness/vk"
)

// checkSingular verifies finite, non-negative, non-increasing values.
func checkSingular(s []float64) *vk.Failure {
	for i, v := range s {
		if math.IsNaN(v) || math.IsInf(v, 0) {
			return vk.Failf("singular-value-non-finite", "s[%d] = %v", i, v)
		}
		if v < 0 || (v == 0 && math.Signbit(v) && false) {
			return vk.Failf("singular-value-negative", "s[%d] = %v", i, v)
		}
		if i > 0 && s[i-1] < v {
			if len(s) == 2 && v-s[0] <= 16*eps*v {
				// known finding: a 2×2 bidiagonal matrix without vectors is handed
				// to Dlas2 (Dlasq1, n == 2), whose two results can cross by ulps
				return vk.Failf("dlas2-order-ulps", "s[0] = %v < s[1] = %v", s[0], v)
			}
			return vk.Failf("singular-values-not-descending", "s[%d] = %v < s[%d] = %v", i-1, s[i-1], i, v)
		}
	}
	return nil
}

// drawShape draws (m, n) including the m >= 1.6 n and n >= 1.6 m regions.
func drawShape(t *rapid.T, hi int) (m, n int) {
	k := dimN(t, "k", hi, dimBoundaries...)
	switch rapid.SampledFrom([]int{0, 1, 2, 3, 3, 4, 4, 5}).Draw(t, "shape") {
	case 0: // square
		return k, k
	case 1: // m much larger than n (>= mnthr)
		k = min(k, hi*5/8)
		return k*8/5 + rapid.IntRange(0, 6).Draw(t, "extra"), k
	case 2:
		k = min(k, hi*5/8)
		return k, k*8/5 + rapid.IntRange(0, 6).Draw(t, "extra")
	case 3: // m slightly larger (below mnthr)
		return k + rapid.IntRange(1, max(1, k/2)).Draw(t, "extra"), k
	case 4:
		return k, k + rapid.IntRange(1, max(1, k/2)).Draw(t, "extra")
	}
	return dimN(t, "m", hi, dimBoundaries...), k
}

// ---- Dgesvd -------------------------------------------------------------------

var svdJobs = []lapack.SVDJob{lapack.SVDAll, lapack.SVDStore, lapack.SVDNone}

// fields: J[0] jobU, J[1] jobVT (0 all, 1 store, 2 none), M, N, Pad[0..2], LW,
// Cls (rect class), Sc, Wrap
func checkGesvd(c kase) *vk.Failure {
	return viaDlarft(checkGesvdBody(c), c.M, c.N)
}

func checkGesvdBody(c kase) *vk.Failure {
	m, n := c.M, c.N
	mn := min(m, n)
	rng := c.rng(4)
	a0 := genRect(c.Cls, m, n, rng)
	sc := pow2(c.Sc)
	jobU, jobVT := svdJobs[c.J[0]], svdJobs[c.J[1]]
	lda := max(1, n) + c.Pad[0]
	a := newPmat("a", m, n, lda, rng, false).fill(a0.scaled(sc))
	ur, uc := 0, 0
	switch jobU {
	case lapack.SVDAll:
		ur, uc = m, m
	case lapack.SVDStore:
		ur, uc = m, mn
	}
	vr, vc := 0, 0
	switch jobVT {
	case lapack.SVDAll:
		vr, vc = n, n
	case lapack.SVDStore:
		vr, vc = mn, n
	}
	ldu := max(1, uc) + c.Pad[1]
	ldvt := max(1, vc) + c.Pad[2]
	u := newPmat("u", ur, uc, ldu, rng, false)
	vt := newPmat("vt", vr, vc, ldvt, rng, false)
	s := newPvec("s", mn, rng, false)
	var ok bool
	call := func(work []float64, lwork int) {
		ok = impl.Dgesvd(jobU, jobVT, m, n, a.data, lda, s.data, u.data, ldu, vt.data, ldvt, work, lwork)
	}
	if c.Wrap {
		call = func(work []float64, lwork int) {
			ok = lapack64.Gesvd(jobU, jobVT, blas64.General{Rows: m, Cols: n, Data: a.data, Stride: lda},
				blas64.General{Rows: ur, Cols: uc, Data: u.data, Stride: ldu},
				blas64.General{Rows: vr, Cols: vc, Data: vt.data, Stride: ldvt}, s.data, work, lwork)
		}
	}
	minL := 1
	if mn > 0 {
		minL = max(3*mn+max(m, n), 5*mn)
	}
	// LW == 4 probes the neighbourhood of the workspace thresholds that select
	// the "fast" variants of paths 2-9 (k*k + max(4k, 5k) and k*k + max(m+n, 5k)
	// with k = min(m,n)).
	pick := func(minL, query int) int {
		t := mn*mn + 5*mn
		if c.K&1 != 0 {
			t = mn*mn + max(m+n, 5*mn)
		}
		return t + c.K/2 - mn
	}
	lwork, query, f := withWorkP(c, rng, minL, false, pick, call, a, u, vt, s)
	if f != nil {
		if f.Key == "valid-call-panics" && n == 1 && anyPad(c.Pad, 3) && strings.Contains(f.Msg, "slice bounds out of range") {
			// known finding: the m >= mnthr paths slice a[lda:] / vt[ldvt:]
			// although a length of (m-1)*ld+n == 1 is all that is required
			return vk.Failf("1x1-padded-leading-dimension-runtime-fault", "%s", f.Msg)
		}
		return f
	}
	shape := "square"
	switch {
	case mn == 0:
		shape = "empty"
	case m >= int(float64(mn)*1.6) && m > n:
		shape = "m>=mnthr"
	case n >= int(float64(mn)*1.6) && n > m:
		shape = "n>=mnthr"
	case m > n:
		shape = "m>n"
	case n > m:
		shape = "n>m"
	}
	vk.Class(fmt.Sprintf("gesvd:jobs=%c%c,%s", jobU, jobVT, shape))
	vk.Class("gesvd:" + lwClass(c, lwork, query, minL))
	vk.Class("gesvd:cls=" + rcNames[c.Cls])
	vk.Sample("gesvd", c)
	if !ok {
		if mn == 0 {
			return vk.Failf("ok-false-empty", "Dgesvd(m=%d,n=%d) returned false", m, n)
		}
		vk.Inconclusive("gesvd-not-converged")
		return nil
	}
	if jobU == lapack.SVDNone {
		if f := u.same("unrequested-u-written"); f != nil {
			return f
		}
	}
	if jobVT == lapack.SVDNone {
		if f := vt.same("unrequested-vt-written"); f != nil {
			return f
		}
	}
	if mn == 0 {
		// U (m×m) / VT (n×n) for an empty A are not specified beyond the shapes
		return nil
	}
	if f := firstFail(s.elemsFinite(), u.elemsFinite(), vt.elemsFinite()); f != nil {
		return f
	}
	nonTrivial(c, mn, a0, jobU != lapack.SVDNone || jobVT != lapack.SVDNone, anyPad(c.Pad, 3), lwork < query)
	sv := scaleVec(s.vec(), 1/sc)
	if f := checkSingular(sv); f != nil {
		return f
	}
	na := frob(a0)
	big := float64(max(m, n))
	tol := cN * big * eps * na
	if f := compareSorted("singular-values-vs-jacobi", sv, jacobiSVD(a0), tol); f != nil {
		return f
	}
	var ud, vd mat
	if jobU != lapack.SVDNone {
		ud = u.dense()
		if e := orthCols(ud); !(e <= cN*float64(m)*eps) {
			return vk.Failf("u-not-orthogonal", "m=%d n=%d jobU=%c: ||UᵀU-I||_F = %.3g > %.3g", m, n, jobU, e, cN*float64(m)*eps)
		}
	}
	if jobVT != lapack.SVDNone {
		vd = vt.dense()
		if e := orthRows(vd); !(e <= cN*float64(n)*eps) {
			return vk.Failf("vt-not-orthogonal", "m=%d n=%d jobVT=%c: ||VᵀᵀVᵀ-I||_F = %.3g > %.3g", m, n, jobVT, e, cN*float64(n)*eps)
		}
	}
	switch {
	case jobU != lapack.SVDNone && jobVT != lapack.SVDNone:
		uk := ud.sub(0, m, 0, mn)
		vk_ := vd.sub(0, mn, 0, n)
		r := sub(mul(mul(uk, diagMat(mn, mn, sv)), vk_), a0)
		if e := frob(r); !(e <= tol) {
			return vk.Failf("decomposition-residual", "m=%d n=%d jobs=%c%c: ||U S Vᵀ - A||_F = %.3g > %.3g", m, n, jobU, jobVT, e, tol)
		}
		// the additional columns of U / rows of Vᵀ span the null spaces
		if ud.c > mn {
			if e := frob(mul(ud.sub(0, m, mn, ud.c).T(), a0)); !(e <= tol) {
				return vk.Failf("u-extra-columns", "m=%d n=%d: ||U[:,min:]ᵀ A||_F = %.3g > %.3g", m, n, e, tol)
			}
		}
		if vd.r > mn {
			if e := frob(mul(a0, vd.sub(mn, vd.r, 0, n).T())); !(e <= tol) {
				return vk.Failf("vt-extra-rows", "m=%d n=%d: ||A Vᵀ[min:,:]ᵀ||_F = %.3g > %.3g", m, n, e, tol)
			}
		}
	case jobU != lapack.SVDNone:
		// UᵀA has orthogonal rows of norms s_i (and zero rows beyond min(m,n))
		w := mul(ud.T(), a0)
		g := mul(w, w.T())
		s2 := make([]float64, ud.c)
		for i := 0; i < mn; i++ {
			s2[i] = sv[i] * sv[i]
		}
		if e := frob(sub(g, diagMat(ud.c, ud.c, s2))); !(e <= tol*na) {
			return vk.Failf("left-vectors-residual", "m=%d n=%d jobU=%c: ||UᵀAAᵀU - S²||_F = %.3g > %.3g", m, n, jobU, e, tol*na)
		}
	case jobVT != lapack.SVDNone:
		w := mul(a0, vd.T())
		g := mul(w.T(), w)
		s2 := make([]float64, vd.r)
		for i := 0; i < mn; i++ {
			s2[i] = sv[i] * sv[i]
		}
		if e := frob(sub(g, diagMat(vd.r, vd.r, s2))); !(e <= tol*na) {
			return vk.Failf("right-vectors-residual", "m=%d n=%d jobVT=%c: ||VᵀAᵀAV - S²||_F = %.3g > %.3g", m, n, jobVT, e, tol*na)
		}
	}
	return nil
}

func drawGesvd(t *rapid.T) kase {
	c := kase{R: "Dgesvd"}
	c.J[0] = rapid.IntRange(0, 2).Draw(t, "jobU")
	c.J[1] = rapid.IntRange(0, 2).Draw(t, "jobVT")
	hi := 40
	if rapid.IntRange(0, 19).Draw(t, "big") == 0 {
		hi = 110
	}
	c.M, c.N = drawShape(t, hi)
	c.Pad = drawPads(t, 3)
	c.LW = rapid.SampledFrom([]int{0, 0, 1, 1, 2, 2, 3, 4, 4}).Draw(t, "lw")
	if c.LW == 4 {
		c.K = rapid.IntRange(0, 2*(min(c.M, c.N)+3)).Draw(t, "lwdelta")
	}
	c.Cls = rapid.IntRange(0, numRectCls-1).Draw(t, "cls")
	c.Sc = rapid.SampledFrom([]int{0, 0, 0, 0, 500, -500}).Draw(t, "sc")
	c.Wrap = rapid.IntRange(0, 4).Draw(t, "wrap") == 0
	c.Seed = drawSeed(t)
	return c
}

func TestGesvd(t *testing.T) {
	vk.Run(t, "gesvd", vk.Opts{Quick: 2400, Thorough: 18000}, drawGesvd, checkGesvd)
}

// ---- Dgebrd / Dgebd2 / Dorgbr / Dormbr ----------------------------------------------

// bidiagQP accumulates Q (m×m) and P (n×n) documented for Dgebrd from the output
// matrix ar and the scalar factors.
func bidiagQP(ar mat, tauQ, tauP []float64) (q, p mat) {
	m, n := ar.r, ar.c
	q, p = eye(m), eye(n)
	if m >= n {
		for i := 0; i < n; i++ {
			v := make([]float64, m-i)
			v[0] = 1
			for k := i + 1; k < m; k++ {
				v[k-i] = ar.d[k*n+i]
			}
			applyReflRight(q, i, v, tauQ[i])
		}
		for i := 0; i < n-1; i++ {
			u := make([]float64, n-i-1)
			u[0] = 1
			for k := i + 2; k < n; k++ {
				u[k-i-1] = ar.d[i*n+k]
			}
			applyReflRight(p, i+1, u, tauP[i])
		}
		return
	}
	for i := 0; i < m-1; i++ {
		v := make([]float64, m-i-1)
		v[0] = 1
		for k := i + 2; k < m; k++ {
			v[k-i-1] = ar.d[k*n+i]
		}
		applyReflRight(q, i+1, v, tauQ[i])
	}
	for i := 0; i < m; i++ {
		u := make([]float64, n-i)
		u[0] = 1
		for k := i + 1; k < n; k++ {
			u[k-i] = ar.d[i*n+k]
		}
		applyReflRight(p, i, u, tauP[i])
	}
	return
}

func bidiagDense(m, n int, d, e []float64) mat {
	b := newMat(m, n)
	for i := range d {
		b.d[i*n+i] = d[i]
	}
	for i := range e {
		if m >= n {
			b.d[i*n+i+1] = e[i]
		} else {
			b.d[(i+1)*n+i] = e[i]
		}
	}
	return b
}

// fields: J[0] 0 Dgebrd 1 Dgebd2; J[1] column count selector of Dorgbr(Q); J[2]
// row count selector of Dorgbr(PT); J[3] bits vect|side<<1|trans<<2 of Dormbr; K
// other dimension of C; M, N; Pad[0] lda, Pad[1] Dorgbr Q, Pad[2] Dorgbr PT,
// Pad[3] ldc; LW; Cls
func checkGebrd(c kase) *vk.Failure {
	return viaDlarft(checkGebrdBody(c), c.M, c.N)
}

func checkGebrdBody(c kase) *vk.Failure {
	m, n := c.M, c.N
	mn := min(m, n)
	rng := c.rng(5)
	a0 := genRect(c.Cls, m, n, rng).scaled(pow2(c.Sc))
	lda := max(1, n) + c.Pad[0]
	a := newPmat("a", m, n, lda, rng, false).fill(a0)
	d := newPvec("d", mn, rng, false)
	e := newPvec("e", max(mn-1, 0), rng, false)
	tq := newPvec("tauQ", mn, rng, false)
	tp := newPvec("tauP", mn, rng, false)
	name := "Dgebrd"
	minL := max(1, max(m, n))
	var lwork, query int
	if c.J[0] == 0 {
		var f *vk.Failure
		lwork, query, f = withWorkE(c, rng, minL, mn == 0, func(work []float64, lwork int) {
			impl.Dgebrd(m, n, a.data, lda, d.data, e.data, tq.data, tp.data, work, lwork)
		}, a, d, e, tq, tp)
		if f != nil {
			return f
		}
		vk.Class("gebrd:" + lwClass(c, lwork, query, minL))
	} else {
		name = "Dgebd2"
		work := newPvec("work", max(m, n), rng, false)
		if f := runPlain(func() {
			impl.Dgebd2(m, n, a.data, lda, d.data, e.data, tq.data, tp.data, work.data)
		}, a, d, e, tq, tp, work); f != nil {
			return f
		}
	}
	shape := "m>=n"
	if m < n {
		shape = "m<n"
	}
	vk.Class("gebrd:" + name + "," + shape)
	vk.Class("gebrd:cls=" + rcNames[c.Cls])
	if mn == 0 {
		return nil
	}
	vk.Sample("gebrd", c)
	nonTrivial(c, mn, a0, true, anyPad(c.Pad, 4), lwork < query)
	if f := firstFail(a.elemsFinite(), d.elemsFinite(), e.elemsFinite(), tq.elemsFinite(), tp.elemsFinite()); f != nil {
		return f
	}
	ar := a.dense()
	dv, ev, tqv, tpv := d.vec(), e.vec(), tq.vec(), tp.vec()
	for i := 0; i < mn; i++ {
		if !bitsEq(ar.d[i*n+i], dv[i]) {
			return vk.Failf("d-not-on-diagonal", "%s %dx%d: a[%d,%d]=%v, d[%d]=%v", name, m, n, i, i, ar.d[i*n+i], i, dv[i])
		}
		if i < mn-1 {
			off := ar.d[i*n+i+1]
			if m < n {
				off = ar.d[(i+1)*n+i]
			}
			if !bitsEq(off, ev[i]) {
				return vk.Failf("e-not-on-offdiagonal", "%s %dx%d: off-diagonal %d of a is %v, e[%d]=%v", name, m, n, i, off, i, ev[i])
			}
		}
	}
	q, p := bidiagQP(ar, tqv, tpv)
	big := float64(max(m, n))
	tolO := cN * big * eps
	na := frob(a0)
	if eo := orthCols(q); !(eo <= tolO) {
		return vk.Failf("q-not-orthogonal", "%s %dx%d: ||QᵀQ-I||_F = %.3g > %.3g", name, m, n, eo, tolO)
	}
	if eo := orthCols(p); !(eo <= tolO) {
		return vk.Failf("p-not-orthogonal", "%s %dx%d: ||PᵀP-I||_F = %.3g > %.3g", name, m, n, eo, tolO)
	}
	b := bidiagDense(m, n, dv, ev)
	if r := frob(sub(mul(mul(q, b), p.T()), a0)); !(r <= tolO*na) {
		return vk.Failf("reduction-residual", "%s %dx%d: ||Q B Pᵀ - A||_F = %.3g > %.3g", name, m, n, r, tolO*na)
	}

	// ---- Dorgbr, Q ----
	pick := func(sel, lo, hi int) int {
		switch sel {
		case 0:
			return lo
		case 1:
			return hi
		}
		return lo + (hi-lo)/2
	}
	{
		k := n
		nc := m // m < k: m×m
		if m >= k {
			nc = pick(c.J[1], k, m)
		}
		ldq := max(1, nc) + c.Pad[1]
		qa := newPmat("a(Dorgbr Q)", m, nc, ldq, rng, false)
		for i := 0; i < m; i++ {
			for j := 0; j < min(nc, n); j++ {
				qa.set(i, j, ar.d[i*n+j])
			}
		}
		tau := newPvec("tau(Dorgbr Q)", mn, rng, false).fillVec(tqv)
		minQ := max(1, min(m, nc))
		lw2, q2, f := withWork(c, rng, minQ, func(work []float64, lwork int) {
			impl.Dorgbr(lapack.GenerateQ, m, nc, k, qa.data, ldq, tau.data, work, lwork)
		}, qa, tau)
		if f != nil {
			f.Key = "dorgbr-q-" + f.Key
			return f
		}
		vk.Class(fmt.Sprintf("orgbr:Q,%s,cols=%d/3", shape, c.J[1]))
		vk.Class("orgbr:" + lwClass(c, lw2, q2, minQ))
		if f := firstFail(qa.elemsFinite(), tau.same("dorgbr-tau-modified")); f != nil {
			return f
		}
		if dd := frob(sub(qa.dense(), q.sub(0, m, 0, nc))); !(dd <= tolO) {
			return vk.Failf("dorgbr-q-differs-from-reflector-product", "Dorgbr(Q, m=%d, n=%d, k=%d): ||Q - H_0...H_k||_F = %.3g > %.3g", m, nc, k, dd, tolO)
		}
	}
	// ---- Dorgbr, Pᵀ ----
	{
		k := m
		nr := n // k >= n: n×n
		if k < n {
			nr = pick(c.J[2], k, n)
		}
		ldp := max(1, n) + c.Pad[2]
		pa := newPmat("a(Dorgbr PT)", nr, n, ldp, rng, false)
		for i := 0; i < min(nr, m); i++ {
			for j := 0; j < n; j++ {
				pa.set(i, j, ar.d[i*n+j])
			}
		}
		tau := newPvec("tau(Dorgbr PT)", mn, rng, false).fillVec(tpv)
		minP := max(1, min(nr, n))
		lw2, q2, f := withWork(c, rng, minP, func(work []float64, lwork int) {
			impl.Dorgbr(lapack.GeneratePT, nr, n, k, pa.data, ldp, tau.data, work, lwork)
		}, pa, tau)
		if f != nil {
			f.Key = "dorgbr-pt-" + f.Key
			return f
		}
		vk.Class(fmt.Sprintf("orgbr:PT,%s,rows=%d/3", shape, c.J[2]))
		vk.Class("orgbr:" + lwClass(c, lw2, q2, minP))
		if f := firstFail(pa.elemsFinite(), tau.same("dorgbr-tau-modified")); f != nil {
			return f
		}
		if dd := frob(sub(pa.dense(), p.T().sub(0, nr, 0, n))); !(dd <= tolO) {
			return vk.Failf("dorgbr-pt-differs-from-reflector-product", "Dorgbr(PT, m=%d, n=%d, k=%d): ||Pᵀ - (G_0...G_k)ᵀ||_F = %.3g > %.3g", nr, n, k, dd, tolO)
		}
	}
	// ---- Dormbr ----
	{
		vect, side, trans := lapack.ApplyQ, blas.Left, blas.NoTrans
		o, nq, k := q, m, n
		if c.J[3]&1 != 0 {
			vect, o, nq, k = lapack.ApplyP, p, n, m
		}
		if c.J[3]&2 != 0 {
			side = blas.Right
		}
		if c.J[3]&4 != 0 {
			trans = blas.Trans
			o = o.T()
		}
		cr, cc := nq, c.K
		if side == blas.Right {
			cr, cc = c.K, nq
		}
		c0 := gauss(cr, cc, rng)
		ldc := max(1, cc) + c.Pad[3]
		cm := newPmat("c", cr, cc, ldc, rng, false).fill(c0)
		tau := newPvec("tau(Dormbr)", mn, rng, true)
		if vect == lapack.ApplyQ {
			tau.fillVec(tqv)
		} else {
			tau.fillVec(tpv)
		}
		nw := cc
		if side == blas.Right {
			nw = cr
		}
		minW := max(1, nw)
		lw2, q2, f := withWork(c, rng, minW, func(work []float64, lwork int) {
			impl.Dormbr(vect, side, trans, cr, cc, k, a.data, lda, tau.data, cm.data, ldc, work, lwork)
		}, a, tau, cm)
		if f != nil {
			f.Key = "dormbr-" + f.Key
			return f
		}
		vk.Class(fmt.Sprintf("ormbr:%c%c%c,%s", vect, side, trans, shape))
		vk.Class("ormbr:" + lwClass(c, lw2, q2, minW))
		if f := firstFail(cm.elemsFinite(), tau.same("dormbr-tau-modified"), a.same("dormbr-a-not-restored")); f != nil {
			return f
		}
		var want mat
		if side == blas.Left {
			want = mul(o, c0)
		} else {
			want = mul(c0, o)
		}
		tolC := cN * float64(max(nq, 1)) * eps * frob(c0)
		if dd := frob(sub(cm.dense(), want)); !(dd <= tolC) {
			return vk.Failf("dormbr-product", "Dormbr(%c,%c,%c, m=%d, n=%d, k=%d) after Dgebrd(%d,%d): ||C - op(Q)C||_F = %.3g > %.3g", vect, side, trans, cr, cc, k, m, n, dd, tolC)
		}
	}
	return nil
}

func drawGebrd(t *rapid.T) kase {
	c := kase{R: "Dgebrd"}
	c.J[0] = rapid.IntRange(0, 2).Draw(t, "routine") / 2
	c.J[1] = rapid.IntRange(0, 2).Draw(t, "qcols")
	c.J[2] = rapid.IntRange(0, 2).Draw(t, "ptrows")
	c.J[3] = rapid.IntRange(0, 7).Draw(t, "ormbr")
	c.K = rapid.IntRange(0, 12).Draw(t, "k")
	c.M, c.N = drawShape(t, 40)
	if rapid.IntRange(0, 7).Draw(t, "big") == 0 {
		// the blocked path needs min(m,n) > nx = 128
		k := rapid.SampledFrom([]int{100, 128, 129, 130, 140, 150, 161}).Draw(t, "kbig")
		e := rapid.SampledFrom([]int{0, 1, 5, 40}).Draw(t, "ebig")
		switch rapid.IntRange(0, 2).Draw(t, "bigshape") {
		case 0:
			c.M, c.N = k, k
		case 1:
			c.M, c.N = k+e, k
		default:
			c.M, c.N = k, k+e
		}
	}
	c.Pad = drawPads(t, 4)
	c.LW = drawLW(t)
	c.Cls = rapid.IntRange(0, numRectCls-1).Draw(t, "cls")
	c.Sc = rapid.SampledFrom([]int{0, 0, 0, 60, -60}).Draw(t, "sc")
	c.Seed = drawSeed(t)
	return c
}

func TestGebrd(t *testing.T) {
	vk.Run(t, "gebrd", vk.Opts{Quick: 1000, Thorough: 10000}, drawGebrd, checkGebrd)
}

// ---- Dbdsqr / Dlasq1 -----------------------------------------------------------------

func genBidiag(cls, n int, rng *vk.SplitMix) (d, e []float64) {
	d = make([]float64, n)
	e = make([]float64, max(n-1, 0))
	switch cls {
	case 0:
		for i := range d {
			d[i] = rng.Finite()
		}
		for i := range e {
			e[i] = rng.Finite()
		}
	case 1: // graded
		for i := range d {
			d[i] = math.Ldexp(1+rng.Float(), -gexp(4, i, n))
		}
		for i := range e {
			e[i] = math.Ldexp(rng.Norm(), -gexp(4, i, n)-1)
		}
	case 2: // diagonal, unsorted, with signs
		for i := range d {
			d[i] = rng.Finite()
		}
	case 3: // singular: some zero diagonal entries
		for i := range d {
			if rng.Intn(3) != 0 {
				d[i] = rng.Finite()
			}
		}
		for i := range e {
			e[i] = rng.Finite()
		}
	case 4: // zero
	case 5: // clustered
		for i := range d {
			d[i] = 1
		}
		for i := range e {
			e[i] = 1e-9 * rng.Norm()
		}
	case 6: // reverse graded
		for i := range d {
			d[i] = math.Ldexp(1+rng.Float(), gexp(4, i-n, n))
		}
		for i := range e {
			e[i] = math.Ldexp(rng.Norm(), gexp(4, i-n, n))
		}
	case 7: // Kahan-like: d=1, e=-const
		for i := range d {
			d[i] = 1
		}
		for i := range e {
			e[i] = -1
		}
	}
	return
}

// fields: J[0] 0 Dbdsqr 1 Dlasq1; J[1] uplo; J[2] ncvt selector, J[3] nru selector
// (0: none, 1: n with identity input, 2: K with Gaussian input); P ncc selector;
// K other dimension; N; Pad[0..2]; Cls; Sc
func checkBdsqr(c kase) *vk.Failure {
	n := c.N
	rng := c.rng(6)
	d0, e0 := genBidiag(c.Cls, n, rng)
	sc := pow2(c.Sc)
	d := newPvec("d", n, rng, false).fillVec(scaleVec(d0, sc))
	e := newPvec("e", max(n-1, 0), rng, false).fillVec(scaleVec(e0, sc))
	uplo := uploOf(c.J[1])
	b := newMat(n, n)
	for i := 0; i < n; i++ {
		b.d[i*n+i] = d0[i]
		if i+1 < n {
			if uplo == blas.Upper {
				b.d[i*n+i+1] = e0[i]
			} else {
				b.d[(i+1)*n+i] = e0[i]
			}
		}
	}
	nb := frob(b)
	tol := cN * float64(max(n, 1)) * eps * nb
	if c.J[0] == 1 {
		work := newPvec("work", 4*n, rng, false)
		var info int
		if f := runPlain(func() { info = impl.Dlasq1(n, d.data, e.data, work.data) }, d, e, work); f != nil {
			return f
		}
		vk.Class("bdsqr:Dlasq1")
		vk.Class(fmt.Sprint("bdsqr:cls=", c.Cls))
		if n == 0 {
			return nil
		}
		vk.Sample("bdsqr", c)
		if info != 0 {
			vk.Inconclusive(fmt.Sprint("dlasq1-info=", info))
			return nil
		}
		sv := scaleVec(d.vec(), 1/sc)
		if f := checkSingular(sv); f != nil {
			return f
		}
		return compareSorted("dlasq1-singular-values-vs-jacobi", sv, jacobiSVD(b), tol)
	}
	dims := func(sel int) (k int, ident bool) {
		switch sel {
		case 0:
			return 0, false
		case 1:
			return n, true
		}
		return c.K, false
	}
	ncvt, vtI := dims(c.J[2])
	nru, uI := dims(c.J[3])
	ncc, cI := dims(c.P)
	gen := func(r, cc int, ident bool) mat {
		if ident {
			return eye(n)
		}
		return gauss(r, cc, rng)
	}
	vt0 := gen(n, ncvt, vtI)
	u0 := gen(nru, n, uI)
	c0 := gen(n, ncc, cI)
	ldvt := max(1, ncvt) + c.Pad[0]
	ldu := max(1, n) + c.Pad[1]
	ldc := max(1, ncc) + c.Pad[2]
	vt := newPmat("vt", n, ncvt, ldvt, rng, false).fill(vt0)
	u := newPmat("u", nru, n, ldu, rng, false).fill(u0)
	cm := newPmat("c", n, ncc, ldc, rng, false).fill(c0)
	work := newPvec("work", max(1, 4*n), rng, false)
	var ok bool
	if f := runPlain(func() {
		ok = impl.Dbdsqr(uplo, n, ncvt, nru, ncc, d.data, e.data, vt.data, ldvt, u.data, ldu, cm.data, ldc, work.data)
	}, d, e, vt, u, cm, work); f != nil {
		return f
	}
	vk.Class(fmt.Sprintf("bdsqr:uplo=%c", uplo))
	vk.Class(fmt.Sprintf("bdsqr:vt=%d,u=%d,c=%d", c.J[2], c.J[3], c.P))
	vk.Class(fmt.Sprint("bdsqr:cls=", c.Cls))
	if n == 0 {
		if !ok {
			return vk.Failf("ok-false-n0", "Dbdsqr(n=0) returned false")
		}
		return nil
	}
	vk.Sample("bdsqr", c)
	nonTrivial(c, n, b, ncvt+nru+ncc > 0, anyPad(c.Pad, 3), false)
	if !ok {
		vk.Inconclusive("dbdsqr-not-converged")
		return nil
	}
	if f := firstFail(d.elemsFinite(), vt.elemsFinite(), u.elemsFinite(), cm.elemsFinite()); f != nil {
		return f
	}
	sv := scaleVec(d.vec(), 1/sc)
	if f := checkSingular(sv); f != nil {
		return f
	}
	if f := compareSorted("singular-values-vs-jacobi", sv, jacobiSVD(b), tol); f != nil {
		return f
	}
	s := diagMat(n, n, sv)
	s2 := mul(s, s)
	uo, vo, co := u.dense(), vt.dense(), cm.dense()
	nu, nv, nc := frob(u0), frob(vt0), frob(c0)
	fn := float64(n)
	if nru > 0 && ncvt > 0 {
		if r := frob(sub(mul(mul(uo, s), vo), mul(mul(u0, b), vt0))); !(r <= cN*fn*eps*nu*nb*nv) {
			return vk.Failf("u-s-vt-residual", "n=%d nru=%d ncvt=%d: ||(UQ) S (PᵀVT) - U B VT||_F = %.3g > %.3g", n, nru, ncvt, r, cN*fn*eps*nu*nb*nv)
		}
	}
	if nru > 0 && ncc > 0 {
		if r := frob(sub(mul(uo, co), mul(u0, c0))); !(r <= cN*fn*eps*nu*nc) {
			return vk.Failf("u-c-residual", "n=%d nru=%d ncc=%d: ||(UQ)(QᵀC) - U C||_F = %.3g > %.3g", n, nru, ncc, r, cN*fn*eps*nu*nc)
		}
	}
	if ncc > 0 && ncvt > 0 {
		if r := frob(sub(mul(mul(co.T(), s), vo), mul(mul(c0.T(), b), vt0))); !(r <= cN*fn*eps*nc*nb*nv) {
			return vk.Failf("c-s-vt-residual", "n=%d ncc=%d ncvt=%d: ||(QᵀC)ᵀ S (PᵀVT) - Cᵀ B VT||_F = %.3g > %.3g", n, ncc, ncvt, r, cN*fn*eps*nc*nb*nv)
		}
	}
	if ncvt > 0 {
		btb := mul(b.T(), b)
		if r := frob(sub(mul(mul(vo.T(), s2), vo), mul(mul(vt0.T(), btb), vt0))); !(r <= cN*fn*eps*nv*nv*nb*nb) {
			return vk.Failf("vt-residual", "n=%d ncvt=%d: ||(PᵀVT)ᵀ S² (PᵀVT) - VTᵀ BᵀB VT||_F = %.3g > %.3g", n, ncvt, r, cN*fn*eps*nv*nv*nb*nb)
		}
		if vtI {
			if eo := orthRows(vo); !(eo <= cN*fn*eps) {
				return vk.Failf("vt-not-orthogonal", "n=%d: ||PᵀP-I||_F = %.3g", n, eo)
			}
		}
	}
	bbt := mul(b, b.T())
	if nru > 0 {
		if r := frob(sub(mul(mul(uo, s2), uo.T()), mul(mul(u0, bbt), u0.T()))); !(r <= cN*fn*eps*nu*nu*nb*nb) {
			return vk.Failf("u-residual", "n=%d nru=%d: ||(UQ) S² (UQ)ᵀ - U BBᵀ Uᵀ||_F = %.3g > %.3g", n, nru, r, cN*fn*eps*nu*nu*nb*nb)
		}
		if uI {
			if eo := orthCols(uo); !(eo <= cN*fn*eps) {
				return vk.Failf("u-not-orthogonal", "n=%d: ||QᵀQ-I||_F = %.3g", n, eo)
			}
		}
	}
	if ncc > 0 {
		if r := frob(sub(mul(mul(co.T(), s2), co), mul(mul(c0.T(), bbt), c0))); !(r <= cN*fn*eps*nc*nc*nb*nb) {
			return vk.Failf("c-residual", "n=%d ncc=%d: ||(QᵀC)ᵀ S² (QᵀC) - Cᵀ BBᵀ C||_F = %.3g > %.3g", n, ncc, r, cN*fn*eps*nc*nc*nb*nb)
		}
	}
	return nil
}

func drawBdsqr(t *rapid.T) kase {
	c := kase{R: "Dbdsqr"}
	c.J[0] = rapid.IntRange(0, 3).Draw(t, "routine") / 3
	c.J[1] = rapid.IntRange(0, 1).Draw(t, "uplo")
	c.J[2] = rapid.IntRange(0, 2).Draw(t, "ncvt")
	c.J[3] = rapid.IntRange(0, 2).Draw(t, "nru")
	c.P = rapid.IntRange(0, 2).Draw(t, "ncc")
	c.K = rapid.IntRange(1, 9).Draw(t, "k")
	c.N = dimN(t, "n", 50, dimBoundaries...)
	c.Pad = drawPads(t, 3)
	c.Cls = rapid.IntRange(0, 7).Draw(t, "cls")
	c.Sc = rapid.SampledFrom([]int{0, 0, 0, 100, -100, 400, -400}).Draw(t, "sc")
	c.Seed = drawSeed(t)
	return c
}

func TestBdsqr(t *testing.T) {
	vk.Run(t, "bdsqr", vk.Opts{Quick: 1500, Thorough: 14000}, drawBdsqr, checkBdsqr)
}

// ---- Dlasv2 / Dlas2 ---------------------------------------------------------------------

func checkLasv2(c s2Case) *vk.Failure {
	f, g, h := float64(c.A), float64(c.B), float64(c.C)
	s := pow2(c.Sc)
	for _, v := range []float64{f, g, h} {
		if v != 0 && math.Abs(v) < 1e-100 {
			s = 1
		}
	}
	vk.NonTrivial("lasv2", c.A, c.B, c.C, c.Sc)
	vk.Sample("lasv2", c)
	ssmin, ssmax, snr, csr, snl, csl := impl.Dlasv2(f*s, g*s, h*s)
	tmin, tmax := impl.Dlas2(f*s, g*s, h*s)
	ssmin, ssmax, tmin, tmax = ssmin/s, ssmax/s, tmin/s, tmax/s
	nrm := nrm2([]float64{f, g, h})
	tol := 16*eps*nrm + 0x1p-1070/s // relative bound plus a few quanta of the subnormal range
	if math.Abs(ssmin) > math.Abs(ssmax) {
		return vk.Failf("ssmin-larger", "Dlasv2(%v,%v,%v): |ssmin|=%v > |ssmax|=%v", f, g, h, ssmin, ssmax)
	}
	if tmin < 0 || tmax < tmin {
		if tmin >= 0 && tmin-tmax <= 16*eps*tmax {
			// known finding: for |f| ~ |h| (ratio within a few ulps of 1) the two
			// independently rounded values can cross
			return vk.Failf("dlas2-order-ulps", "Dlas2(%v,%v,%v) = (ssmin=%v, ssmax=%v): ssmin > ssmax", f, g, h, tmin, tmax)
		}
		return vk.Failf("dlas2-order", "Dlas2(%v,%v,%v) = (%v,%v)", f, g, h, tmin, tmax)
	}
	if math.Abs(tmin-math.Abs(ssmin)) > tol || math.Abs(tmax-math.Abs(ssmax)) > tol {
		return vk.Failf("dlas2-vs-dlasv2", "(%v,%v,%v): Dlas2 (%v,%v), Dlasv2 (%v,%v)", f, g, h, tmin, tmax, ssmin, ssmax)
	}
	if math.Abs(csl*csl+snl*snl-1) > 32*eps || math.Abs(csr*csr+snr*snr-1) > 32*eps {
		return vk.Failf("rotation-not-unit", "(%v,%v,%v): left (%v,%v) right (%v,%v)", f, g, h, csl, snl, csr, snr)
	}
	// [csl snl; -snl csl] [f g; 0 h] [csr -snr; snr csr] = diag(ssmax, ssmin)
	b11, b12 := csl*f, csl*g+snl*h
	b21, b22 := -snl*f, -snl*g+csl*h
	m11 := b11*csr + b12*snr
	m12 := -b11*snr + b12*csr
	m21 := b21*csr + b22*snr
	m22 := -b21*snr + b22*csr
	if math.Abs(m11-ssmax) > tol || math.Abs(m22-ssmin) > tol || math.Abs(m12) > tol || math.Abs(m21) > tol {
		return vk.Failf("diagonalisation", "(%v,%v,%v): LᵀBR = [%v %v; %v %v], ss = (%v,%v)", f, g, h, m11, m12, m21, m22, ssmax, ssmin)
	}
	return nil
}

func TestLasv2(t *testing.T) {
	vk.Run(t, "lasv2", vk.Opts{Quick: 3000, Thorough: 200000, NoCrumb: true}, func(t *rapid.T) s2Case {
		g := vk.FiniteGen()
		c := s2Case{A: vk.F(g.Draw(t, "f")), B: vk.F(g.Draw(t, "g")), C: vk.F(g.Draw(t, "h"))}
		switch rapid.IntRange(0, 7).Draw(t, "tiny") {
		case 0:
			c.B = vk.F(float64(c.B) * 1e-12)
		case 1:
			c.A = vk.F(float64(c.A) * 1e-12)
		case 2:
			c.B = vk.F(float64(c.B) * 1e12)
		case 3, 4:
			// |f| and |h| a few ulps apart, g negligible or zero
			h := float64(c.A)
			for k := rapid.IntRange(0, 4).Draw(t, "ulps"); k > 0; k-- {
				h = math.Nextafter(h, math.Inf(1))
			}
			c.C = vk.F(h)
			c.B = vk.F(rapid.SampledFrom([]float64{0, 1e-20, 1e-9, -1e-8}).Draw(t, "gsmall"))
		}
		c.Sc = rapid.SampledFrom([]int{0, 0, 400, -400}).Draw(t, "sc")
		return c
	}, checkLasv2)
}
