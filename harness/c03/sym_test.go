package c03

import (
	"math"
	"testing"

	"gonum.org/v1/gonum/blas"
	"gonum.org/v1/gonum/blas/blas64"
	"gonum.org/v1/gonum/lapack"
	"gonum.org/v1/gonum/lapack/lapack64"
	"pgregory.net/rapid"
	"verifharness/vk"
)

// ---- symmetric classes -----------------------------------------------------

const (
	syGauss = iota
	syRepeated
	syGraded
	syTridiag
	syDiagonal
	syZero
	syLowRank
	syArrow
	syWilkinson
	syCluster
	numSymCls
)

var syNames = []string{"gauss", "repeated", "graded", "tridiagonal", "diagonal", "zero", "low-rank", "arrowhead", "wilkinson", "cluster"}

func symmetrize(a mat) mat {
	n := a.r
	for i := 0; i < n; i++ {
		for j := 0; j < i; j++ {
			a.d[i*n+j] = a.d[j*n+i]
		}
	}
	return a
}

func genSym(cls, n int, rng *vk.SplitMix) mat {
	a := newMat(n, n)
	if n == 0 {
		return a
	}
	switch cls {
	case syGauss:
		return symmetrize(gauss(n, n, rng))
	case syRepeated:
		return genSquare(clsSymRepeated, n, rng)
	case syGraded:
		g := gauss(n, n, rng)
		step := 1 + rng.Intn(3)
		for i := 0; i < n; i++ {
			for j := 0; j < n; j++ {
				g.d[i*n+j] = math.Ldexp(g.d[i*n+j], -gexp(step, i+j, 2*n-2))
			}
		}
		return symmetrize(g)
	case syTridiag:
		for i := 0; i < n; i++ {
			a.d[i*n+i] = rng.Finite()
			if i+1 < n {
				a.d[i*n+i+1] = rng.Finite()
			}
		}
		return symmetrize(a)
	case syDiagonal:
		return genSquare(clsDiagonal, n, rng)
	case syZero:
		return a
	case syLowRank:
		r := rng.Intn(n/2 + 1)
		g := gaussN(n, r, rng)
		return symmetrize(mul(g, g.T()))
	case syArrow:
		for i := 0; i < n; i++ {
			a.d[i*n+i] = rng.Finite()
			a.d[i*n+n-1] = rng.Finite()
		}
		return symmetrize(a)
	case syWilkinson:
		for i := 0; i < n; i++ {
			a.d[i*n+i] = math.Abs(float64(i) - float64(n-1)/2)
			if i+1 < n {
				a.d[i*n+i+1] = 1
			}
		}
		return symmetrize(a)
	case syCluster:
		g := symmetrize(gaussN(n, n, rng))
		for i := range g.d {
			g.d[i] *= 1e-9
		}
		for i := 0; i < n; i++ {
			g.d[i*n+i] += 1
		}
		return g
	}
	return symmetrize(gauss(n, n, rng))
}

// tridiagonal data (d, e) for Dsteqr / Dsterf.
func genTridiag(cls, n int, rng *vk.SplitMix) (d, e []float64) {
	d = make([]float64, n)
	e = make([]float64, max(n-1, 0))
	switch cls {
	case 0: // generic
		for i := range d {
			d[i] = rng.Finite()
		}
		for i := range e {
			e[i] = rng.Finite()
		}
	case 1: // repeated eigenvalues, many zero couplings
		copy(d, repeatedSpectrum(n, rng))
		for i := range e {
			if rng.Intn(3) == 0 {
				e[i] = rng.Finite()
			}
		}
	case 2: // Wilkinson
		for i := range d {
			d[i] = math.Abs(float64(i) - float64(n-1)/2)
		}
		for i := range e {
			e[i] = 1
		}
	case 3: // graded
		for i := range d {
			d[i] = math.Ldexp(rng.Finite(), -gexp(3, i, n))
		}
		for i := range e {
			e[i] = math.Ldexp(rng.Finite(), -gexp(3, i, n)-1)
		}
	case 4: // diagonal
		for i := range d {
			d[i] = rng.Finite()
		}
	case 5: // zero
	case 6: // clustered: 1 on the diagonal, tiny couplings
		for i := range d {
			d[i] = 1
		}
		for i := range e {
			e[i] = 1e-9 * rng.Norm()
		}
	case 7: // (1,2,1) Toeplitz, reverse graded
		for i := range d {
			d[i] = math.Ldexp(2, 2*i-n)
		}
		for i := range e {
			e[i] = math.Ldexp(1, 2*i-n)
		}
	}
	return d, e
}

func tridiagDense(d, e []float64) mat {
	n := len(d)
	t := newMat(n, n)
	for i := 0; i < n; i++ {
		t.d[i*n+i] = d[i]
		if i+1 < n {
			t.d[i*n+i+1] = e[i]
			t.d[(i+1)*n+i] = e[i]
		}
	}
	return t
}

func uploOf(k int) blas.Uplo {
	if k == 0 {
		return blas.Upper
	}
	return blas.Lower
}

func triMask(uplo blas.Uplo) func(i, j int) bool {
	if uplo == blas.Upper {
		return func(i, j int) bool { return i <= j }
	}
	return func(i, j int) bool { return i >= j }
}

// checkAscending verifies finite, non-decreasing values.
func checkAscending(key string, w []float64) *vk.Failure {
	for i, v := range w {
		if math.IsNaN(v) || math.IsInf(v, 0) {
			return vk.Failf("eigenvalue-non-finite", "w[%d] = %v", i, v)
		}
		if i > 0 && w[i-1] > v {
			return vk.Failf(key, "w[%d] = %v > w[%d] = %v", i-1, w[i-1], i, v)
		}
	}
	return nil
}

// compareSorted compares two sorted value lists within tol (Weyl: an absolute
// bound, sound for clustered values).
func compareSorted(key string, got, want []float64, tol float64) *vk.Failure {
	for i := range want {
		if d := math.Abs(got[i] - want[i]); !(d <= tol) {
			return vk.Failf(key, "value %d of %d: got %v, independent Jacobi reference %v, |diff| = %.3g > %.3g", i, len(want), got[i], want[i], d, tol)
		}
	}
	return nil
}

func scaleVec(x []float64, f float64) []float64 {
	y := make([]float64, len(x))
	for i, v := range x {
		y[i] = v * f
	}
	return y
}

// ---- Dsyev ------------------------------------------------------------------

// fields: J[0] jobz (0 none, 1 vectors), J[1] uplo, N, Pad[0], LW, Cls, Sc, Wrap
func checkSyev(c kase) *vk.Failure {
	return viaDlarft(checkSyevBody(c), c.N)
}

func checkSyevBody(c kase) *vk.Failure {
	n := c.N
	rng := c.rng(1)
	a0 := genSym(c.Cls, n, rng)
	uplo := uploOf(c.J[1])
	jobz := lapack.EVNone
	if c.J[0] == 1 {
		jobz = lapack.EVCompute
	}
	sc := pow2(c.Sc)
	lda := max(1, n) + c.Pad[0]
	a := newPmat("a", n, n, lda, rng, false)
	a.mask = triMask(uplo)
	a.fill(a0.scaled(sc))
	if jobz == lapack.EVCompute {
		a.mask = nil // the whole square is output; the other triangle starts as NaN
	}
	w := newPvec("w", n, rng, false)
	call := func(work []float64, lwork int) {}
	var ok bool
	if c.Wrap {
		call = func(work []float64, lwork int) {
			ok = lapack64.Syev(jobz, blas64.Symmetric{Uplo: uplo, N: n, Data: a.data, Stride: lda}, w.data, work, lwork)
		}
	} else {
		call = func(work []float64, lwork int) {
			ok = impl.Dsyev(jobz, uplo, n, a.data, lda, w.data, work, lwork)
		}
	}
	minL := max(1, 3*n-1)
	vk.Class("syev:job=" + string(rune(jobz)) + ",uplo=" + string(rune(uplo)))
	vk.Class("syev:cls=" + syNames[c.Cls])
	var lwork, query int
	if n == 0 {
		// the quick return precedes the workspace query
		if f := runWork(rng, 1, call, a, w); f != nil {
			return f
		}
		if !ok {
			return vk.Failf("ok-false-n0", "Dsyev(n=0) returned false")
		}
		return nil
	}
	// With jobz == EVNone Dsyev scales a tiny matrix up to rmin = 2^-485 and
	// hands it to Dsterf, whose own rescaling path (entries < 2^-405) is broken
	// (known finding); such failures get their own key.
	rescaled := func(f *vk.Failure) *vk.Failure {
		if f != nil && jobz == lapack.EVNone && c.Sc < -400 {
			return vk.Failf("dsterf-rescaling-path", "[%s] %s", f.Key, f.Msg)
		}
		return f
	}
	var f *vk.Failure
	lwork, query, f = withWork(c, rng, minL, call, a, w)
	if f != nil {
		return rescaled(f)
	}
	vk.Class("syev:" + lwClass(c, lwork, query, minL))
	vk.Sample("syev", c)
	nonTrivial(c, n, a0, jobz == lapack.EVCompute, c.Pad[0] > 0, lwork < query)
	if !ok {
		vk.Inconclusive("syev-not-converged")
		return nil
	}
	wv := scaleVec(w.vec(), 1/sc)
	if f := checkAscending("eigenvalues-not-ascending", wv); f != nil {
		return rescaled(f)
	}
	na := frob(a0)
	tol := cN * float64(n) * eps * na
	if f := compareSorted("eigenvalues-vs-jacobi", wv, jacobiEig(a0), tol); f != nil {
		return rescaled(f)
	}
	if jobz == lapack.EVCompute {
		if f := a.elemsFinite(); f != nil {
			return f
		}
		z := a.dense()
		if e := orthCols(z); !(e <= cN*float64(n)*eps) {
			return vk.Failf("eigenvectors-not-orthogonal", "n=%d ||ZᵀZ-I||_F = %.3g > %.3g", n, e, cN*float64(n)*eps)
		}
		r := sub(mul(mul(z, diagMat(n, n, wv)), z.T()), a0)
		if e := frob(r); !(e <= tol) {
			return vk.Failf("decomposition-residual", "n=%d ||Z W Zᵀ - A||_F = %.3g > %.3g", n, e, tol)
		}
	}
	return nil
}

func drawSyev(t *rapid.T) kase {
	c := kase{R: "Dsyev"}
	c.J[0] = rapid.IntRange(0, 1).Draw(t, "jobz")
	c.J[1] = rapid.IntRange(0, 1).Draw(t, "uplo")
	c.N = dimN(t, "n", 40, dimBoundaries...)
	if rapid.IntRange(0, 19).Draw(t, "big") == 0 {
		c.N = rapid.IntRange(41, 120).Draw(t, "nbig")
	}
	c.Pad = drawPads(t, 1)
	c.LW = drawLW(t)
	c.Cls = rapid.IntRange(0, numSymCls-1).Draw(t, "cls")
	c.Sc = rapid.SampledFrom([]int{0, 0, 0, 0, 500, -500}).Draw(t, "sc")
	c.Wrap = rapid.IntRange(0, 4).Draw(t, "wrap") == 0
	c.Seed = drawSeed(t)
	return c
}

func TestSyev(t *testing.T) {
	vk.Run(t, "syev", vk.Opts{Quick: 1200, Thorough: 12000}, drawSyev, checkSyev)
}

// ---- Dsytrd / Dsytd2 / Dorgtr -------------------------------------------------

// symQ accumulates the orthogonal factor documented for Dsytrd from the
// reflector storage in ar (the output matrix) and tau.
func symQ(uplo blas.Uplo, ar mat, tau []float64) mat {
	n := ar.r
	q := eye(n)
	if uplo == blas.Upper {
		// Q = H_{n-2} ... H_0, v[i] = 1, v[0:i] = A[0:i, i+1]
		for i := n - 2; i >= 0; i-- {
			v := make([]float64, i+1)
			for k := 0; k < i; k++ {
				v[k] = ar.d[k*n+i+1]
			}
			v[i] = 1
			applyReflRight(q, 0, v, tau[i])
		}
		return q
	}
	// Q = H_0 ... H_{n-2}, v[i+1] = 1, v[i+2:n] = A[i+2:n, i]
	for i := 0; i < n-1; i++ {
		v := make([]float64, n-i-1)
		v[0] = 1
		for k := i + 2; k < n; k++ {
			v[k-i-1] = ar.d[k*n+i]
		}
		applyReflRight(q, i+1, v, tau[i])
	}
	return q
}

// fields: J[0] 0 Dsytrd 1 Dsytd2, J[1] uplo, N, Pad[0] (lda), Pad[1] (lda of
// Dorgtr), LW, Cls
func checkSytrd(c kase) *vk.Failure {
	return viaDlarft(checkSytrdBody(c), c.N)
}

func checkSytrdBody(c kase) *vk.Failure {
	n := c.N
	rng := c.rng(2)
	a0 := genSym(c.Cls, n, rng).scaled(pow2(c.Sc))
	uplo := uploOf(c.J[1])
	lda := max(1, n) + c.Pad[0]
	a := newPmat("a", n, n, lda, rng, false)
	a.mask = triMask(uplo)
	a.fill(a0)
	d := newPvec("d", n, rng, false)
	e := newPvec("e", max(n-1, 0), rng, false)
	tau := newPvec("tau", max(n-1, 0), rng, false)
	name := "Dsytrd"
	var lwork, query int
	if c.J[0] == 0 {
		call := func(work []float64, lwork int) {
			impl.Dsytrd(uplo, n, a.data, lda, d.data, e.data, tau.data, work, lwork)
		}
		var f *vk.Failure
		if n == 0 {
			f = runWork(rng, 1, call, a, d, e, tau)
		} else {
			lwork, query, f = withWork(c, rng, 1, call, a, d, e, tau)
		}
		if f != nil {
			return f
		}
	} else {
		name = "Dsytd2"
		if f := runPlain(func() { impl.Dsytd2(uplo, n, a.data, lda, d.data, e.data, tau.data) }, a, d, e, tau); f != nil {
			return f
		}
	}
	vk.Class("sytrd:" + name + ",uplo=" + string(rune(uplo)))
	vk.Class("sytrd:cls=" + syNames[c.Cls])
	if c.J[0] == 0 && n > 0 {
		vk.Class("sytrd:" + lwClass(c, lwork, query, 1))
	}
	if n == 0 {
		return nil
	}
	vk.Sample("sytrd", c)
	nonTrivial(c, n, a0, true, c.Pad[0] > 0 || c.Pad[1] > 0, lwork < query)
	if f := firstFail(a.elemsFinite(), d.elemsFinite(), e.elemsFinite(), tau.elemsFinite()); f != nil {
		return f
	}
	ar := a.dense()
	dv, ev, tv := d.vec(), e.vec(), tau.vec()
	// T is also stored on the diagonal and first off-diagonal of a
	for i := 0; i < n; i++ {
		if !bitsEq(ar.d[i*n+i], dv[i]) {
			return vk.Failf("d-not-on-diagonal", "%s n=%d: a[%d,%d]=%v but d[%d]=%v", name, n, i, i, ar.d[i*n+i], i, dv[i])
		}
		if i+1 < n {
			off := ar.d[i*n+i+1]
			if uplo == blas.Lower {
				off = ar.d[(i+1)*n+i]
			}
			if !bitsEq(off, ev[i]) {
				return vk.Failf("e-not-on-offdiagonal", "%s n=%d uplo=%c: off-diagonal %d of a is %v but e[%d]=%v", name, n, uplo, i, off, i, ev[i])
			}
		}
	}
	q := symQ(uplo, ar, tv)
	na := frob(a0)
	tolO := cN * float64(n) * eps
	if eo := orthCols(q); !(eo <= tolO) {
		return vk.Failf("q-not-orthogonal", "%s n=%d: Q assembled from reflectors has ||QᵀQ-I||_F = %.3g > %.3g", name, n, eo, tolO)
	}
	tm := tridiagDense(dv, ev)
	if r := frob(sub(mul(mul(q, tm), q.T()), a0)); !(r <= tolO*na) {
		return vk.Failf("reduction-residual", "%s n=%d uplo=%c: ||Q T Qᵀ - A||_F = %.3g > %.3g", name, n, uplo, r, tolO*na)
	}

	// Dorgtr on the reflectors
	ldq := max(1, n) + c.Pad[1]
	qa := newPmat("a(Dorgtr)", n, n, ldq, rng, false)
	qa.mask = a.mask
	qa.fill(ar)
	qa.mask = nil
	tau2 := newPvec("tau(Dorgtr)", max(n-1, 0), rng, false).fillVec(tv)
	callQ := func(work []float64, lwork int) {
		impl.Dorgtr(uplo, n, qa.data, ldq, tau2.data, work, lwork)
	}
	minQ := max(1, n-1)
	lw2, q2, f := withWork(c, rng, minQ, callQ, qa, tau2)
	if f != nil {
		f.Key = "dorgtr-" + f.Key
		return f
	}
	vk.Class("orgtr:" + lwClass(c, lw2, q2, minQ))
	if f := firstFail(qa.elemsFinite(), tau2.same("dorgtr-tau-modified")); f != nil {
		return f
	}
	qg := qa.dense()
	if d := frob(sub(qg, q)); !(d <= tolO) {
		return vk.Failf("dorgtr-differs-from-reflector-product", "n=%d uplo=%c: ||Dorgtr - H...H||_F = %.3g > %.3g", n, uplo, d, tolO)
	}
	if eo := orthCols(qg); !(eo <= tolO) {
		return vk.Failf("dorgtr-not-orthogonal", "n=%d ||QᵀQ-I||_F = %.3g > %.3g", n, eo, tolO)
	}
	return nil
}

func drawSytrd(t *rapid.T) kase {
	c := kase{R: "Dsytrd"}
	c.J[0] = rapid.IntRange(0, 2).Draw(t, "routine") / 2 // 2/3 blocked driver
	c.J[1] = rapid.IntRange(0, 1).Draw(t, "uplo")
	c.N = dimN(t, "n", 40, dimBoundaries...)
	if rapid.IntRange(0, 7).Draw(t, "big") == 0 {
		c.N = rapid.SampledFrom([]int{64, 100, 128, 129, 130, 140, 150, 161}).Draw(t, "nbig") // blocked path needs n > nx = 128
	}
	c.Pad = drawPads(t, 2)
	c.LW = drawLW(t)
	c.Cls = rapid.IntRange(0, numSymCls-1).Draw(t, "cls")
	c.Sc = rapid.SampledFrom([]int{0, 0, 0, 60, -60}).Draw(t, "sc")
	c.Seed = drawSeed(t)
	return c
}

func TestSytrd(t *testing.T) {
	vk.Run(t, "sytrd", vk.Opts{Quick: 900, Thorough: 9000}, drawSytrd, checkSytrd)
}

// ---- Dsteqr / Dsterf ----------------------------------------------------------

// fields: J[0] 0 Dsterf, 1 Dsteqr none, 2 Dsteqr tridiag, 3 Dsteqr orig; N,
// Pad[0] (ldz), Cls (tridiagonal class), Sc
func checkSteqr(c kase) *vk.Failure {
	f := checkSteqrInner(c)
	// Both routines rescale a diagonal block whose largest entry is outside
	// [ssfmin, ssfmax] = [2^-405, 2^511/3]; both rescaling paths are broken
	// (known findings: Dsterf passes stride n to Dlascl; Dsteqr never resets
	// iscale, so a later in-range block is "unscaled" although it was not scaled).
	// Failures with data in that range get their own keys so that the rest of the
	// domain stays fully checked.
	if f != nil && (c.Sc > 500 || c.Sc < -400) {
		key := "dsteqr-rescaling-path"
		if c.J[0] == 0 {
			key = "dsterf-rescaling-path"
		}
		return vk.Failf(key, "[%s] %s", f.Key, f.Msg)
	}
	return f
}

func checkSteqrInner(c kase) *vk.Failure {
	n := c.N
	rng := c.rng(3)
	d0, e0 := genTridiag(c.Cls, n, rng)
	sc := pow2(c.Sc)
	d := newPvec("d", n, rng, false).fillVec(scaleVec(d0, sc))
	e := newPvec("e", max(n-1, 0), rng, false).fillVec(scaleVec(e0, sc))
	var ok bool
	var z *pmat
	var z0 mat
	name := "Dsterf"
	var compz lapack.EVComp
	if c.J[0] == 0 {
		if f := runPlain(func() { ok = impl.Dsterf(n, d.data, e.data) }, d, e); f != nil {
			return f
		}
	} else {
		name = "Dsteqr"
		compz = []lapack.EVComp{lapack.EVCompNone, lapack.EVTridiag, lapack.EVOrig}[c.J[0]-1]
		ldz := 1 + c.Pad[0]
		zr := 0
		if compz != lapack.EVCompNone {
			ldz = max(1, n) + c.Pad[0]
			zr = n
		}
		z = newPmat("z", zr, zr, ldz, rng, false)
		if compz == lapack.EVOrig {
			z0 = randOrth(n, rng)
			z.fill(z0)
		}
		lw := 1
		if compz != lapack.EVCompNone {
			lw = max(1, 2*n-2)
		}
		work := newPvec("work", lw, rng, false)
		if f := runPlain(func() { ok = impl.Dsteqr(compz, n, d.data, e.data, z.data, ldz, work.data) }, d, e, z, work); f != nil {
			return f
		}
		name += ",compz=" + string(rune(compz))
	}
	vk.Class("steqr:" + name)
	vk.Class("steqr:cls=" + []string{"generic", "repeated", "wilkinson", "graded", "diagonal", "zero", "cluster", "toeplitz-graded"}[c.Cls])
	if n == 0 {
		if !ok {
			return vk.Failf("ok-false-n0", "%s(n=0) returned false", name)
		}
		return nil
	}
	vk.Sample("steqr", c)
	tm := tridiagDense(d0, e0)
	nonTrivial(c, n, tm, c.J[0] >= 2, c.Pad[0] > 0, false)
	if !ok {
		vk.Inconclusive("steqr-not-converged")
		return nil
	}
	wv := scaleVec(d.vec(), 1/sc)
	if f := checkAscending("eigenvalues-not-ascending", wv); f != nil {
		f.Msg = name + ": " + f.Msg
		return f
	}
	nt := frob(tm)
	tol := cN * float64(n) * eps * nt
	if f := compareSorted("eigenvalues-vs-jacobi", wv, jacobiEig(tm), tol); f != nil {
		f.Msg = name + ": " + f.Msg
		return f
	}
	if c.J[0] >= 2 {
		if f := z.elemsFinite(); f != nil {
			return f
		}
		zo := z.dense()
		if eo := orthCols(zo); !(eo <= cN*float64(n)*eps) {
			return vk.Failf("eigenvectors-not-orthogonal", "%s n=%d ||ZᵀZ-I||_F = %.3g", name, n, eo)
		}
		want := tm
		if compz == lapack.EVOrig {
			want = mul(mul(z0, tm), z0.T())
		}
		if r := frob(sub(mul(mul(zo, diagMat(n, n, wv)), zo.T()), want)); !(r <= tol) {
			return vk.Failf("decomposition-residual", "%s n=%d: ||Z W Zᵀ - A||_F = %.3g > %.3g", name, n, r, tol)
		}
	} else if z != nil {
		if f := z.same("unrequested-z-written"); f != nil {
			return f
		}
	}
	return nil
}

func drawSteqr(t *rapid.T) kase {
	c := kase{R: "Dsteqr"}
	c.J[0] = rapid.IntRange(0, 3).Draw(t, "routine")
	c.N = dimN(t, "n", 60, dimBoundaries...)
	c.Pad = drawPads(t, 1)
	c.Cls = rapid.IntRange(0, 7).Draw(t, "cls")
	c.Sc = rapid.SampledFrom([]int{0, 0, 0, 200, -200, 509, -509}).Draw(t, "sc")
	c.Seed = drawSeed(t)
	return c
}

func TestSteqr(t *testing.T) {
	vk.Run(t, "steqr", vk.Opts{Quick: 1200, Thorough: 12000}, drawSteqr, checkSteqr)
}

// ---- Dlae2 / Dlaev2 -------------------------------------------------------------

type s2Case struct {
	A, B, C vk.F
	Sc      int
}

func checkLaev2(c s2Case) *vk.Failure {
	a, b, cc := float64(c.A), float64(c.B), float64(c.C)
	s := pow2(c.Sc)
	for _, v := range []float64{a, b, cc} {
		if v != 0 && math.Abs(v) < 1e-100 {
			s = 1 // keep the scaled data clear of the subnormal range
		}
	}
	vk.NonTrivial("laev2", c.A, c.B, c.C, c.Sc)
	vk.Sample("laev2", c)
	rt1, rt2, cs, sn := impl.Dlaev2(a*s, b*s, cc*s)
	e1, e2 := impl.Dlae2(a*s, b*s, cc*s)
	rt1, rt2, e1, e2 = rt1/s, rt2/s, e1/s, e2/s
	nrm := nrm2([]float64{a, b, b, cc})
	tol := 16*eps*nrm + 0x1p-1070/s // relative bound plus a few quanta of the subnormal range
	// Oracle correction: "rt1 is the eigenvalue of larger absolute value" holds up
	// to the rounding of the two values (Dlaev2(1, 0, 1.0000000000000002) returns
	// rt1 = 1, rt2 = 1.0000000000000002); every caller sorts afterwards, so only an
	// ordering error beyond a few ulps is a failure here.
	if math.Abs(rt1) < math.Abs(rt2)*(1-8*eps) {
		return vk.Failf("rt1-not-larger", "Dlaev2(%v,%v,%v): |rt1|=%v < |rt2|=%v", a, b, cc, rt1, rt2)
	}
	if math.Abs(e1) < math.Abs(e2)*(1-8*eps) {
		return vk.Failf("dlae2-rt1-not-larger", "Dlae2(%v,%v,%v): |rt1|=%v < |rt2|=%v", a, b, cc, e1, e2)
	}
	if math.Abs(e1-rt1) > tol || math.Abs(e2-rt2) > tol {
		return vk.Failf("dlae2-vs-dlaev2", "(%v,%v,%v): Dlae2 (%v,%v) Dlaev2 (%v,%v)", a, b, cc, e1, e2, rt1, rt2)
	}
	if math.Abs(cs*cs+sn*sn-1) > 32*eps {
		return vk.Failf("rotation-not-unit", "(%v,%v,%v): cs=%v sn=%v", a, b, cc, cs, sn)
	}
	// [cs sn; -sn cs] [a b; b c] [cs -sn; sn cs] = diag(rt1, rt2)
	m11 := cs*(a*cs+b*sn) + sn*(b*cs+cc*sn)
	m12 := cs*(-a*sn+b*cs) + sn*(-b*sn+cc*cs)
	m22 := -sn*(-a*sn+b*cs) + cs*(-b*sn+cc*cs)
	if math.Abs(m11-rt1) > tol || math.Abs(m22-rt2) > tol || math.Abs(m12) > tol {
		return vk.Failf("diagonalisation", "(%v,%v,%v): RᵀAR = [%v %v; . %v], rt = (%v,%v)", a, b, cc, m11, m12, m22, rt1, rt2)
	}
	// trace and determinant
	if math.Abs((rt1+rt2)-(a+cc)) > tol {
		return vk.Failf("trace", "(%v,%v,%v): rt1+rt2=%v", a, b, cc, rt1+rt2)
	}
	return nil
}

func TestLaev2(t *testing.T) {
	vk.Run(t, "laev2", vk.Opts{Quick: 3000, Thorough: 200000, NoCrumb: true}, func(t *rapid.T) s2Case {
		g := vk.FiniteGen()
		c := s2Case{A: vk.F(g.Draw(t, "a")), B: vk.F(g.Draw(t, "b")), C: vk.F(g.Draw(t, "c"))}
		switch rapid.IntRange(0, 7).Draw(t, "tiny") {
		case 0:
			c.B = vk.F(float64(c.B) * 1e-12)
		case 1, 2:
			// a and c (or a and -c) a few ulps apart, b negligible or zero
			h := float64(c.A)
			for k := rapid.IntRange(0, 4).Draw(t, "ulps"); k > 0; k-- {
				h = math.Nextafter(h, math.Inf(1))
			}
			if rapid.Bool().Draw(t, "neg") {
				h = -h
			}
			c.C = vk.F(h)
			c.B = vk.F(rapid.SampledFrom([]float64{0, 1e-20, 1e-9, -1e-8}).Draw(t, "bsmall"))
		}
		c.Sc = rapid.SampledFrom([]int{0, 0, 400, -400}).Draw(t, "sc")
		return c
	}, checkLaev2)
}
