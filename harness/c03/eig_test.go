package c03

import (
	"fmt"
	"math"
	"testing"

	"gonum.org/v1/gonum/blas"
	"gonum.org/v1/gonum/blas/blas64"
	"gonum.org/v1/gonum/lapack"
	"gonum.org/v1/gonum/lapack/lapack64"
	"pgregory.net/rapid"
	"verifharness/vk"
)

// drawN draws the order of a general eigenproblem: mostly <= 40, about 10% in
// 75..150 so that the multishift path (n > NMIN = 75) runs.
func drawN(t *rapid.T) int {
	if rapid.IntRange(0, 9).Draw(t, "big") == 0 {
		return rapid.SampledFrom([]int{74, 75, 76, 77, 80, 90, 100, 120, 149, 150, 151, 160, 200}).Draw(t, "nbig") // nh >= 150: Dlaqr5 accumulates reflectors (kacc22 > 0)
	}
	return dimN(t, "n", 40, 0, 1, 2, 10, 11, 14, 15, 16)
}

// ---- Dgebal / Dgebak -----------------------------------------------------------------

var balJobs = []lapack.BalanceJob{lapack.BalanceNone, lapack.Permute, lapack.Scale, lapack.PermuteScale}

// balanceModel reconstructs the permutation (as an index map idx with
// (PᵀAP)[i,j] = A[idx[i],idx[j]]) and the scaling D documented for Dgebal from
// (scale, ilo, ihi), and returns the matrix the documentation promises:
// D⁻¹PᵀAPD.
func balanceModel(a0 mat, scale []float64, ilo, ihi int) (idx []int, dd []float64, want mat, f *vk.Failure) {
	n := a0.r
	idx = make([]int, n)
	for i := range idx {
		idx[i] = i
	}
	swap := func(j int) *vk.Failure {
		k := scale[j]
		if k != math.Floor(k) || k < 0 || k >= float64(n) {
			return vk.Failf("scale-not-a-permutation-index", "scale[%d] = %v is not an index in [0,%d) (ilo=%d ihi=%d)", j, k, n, ilo, ihi)
		}
		idx[j], idx[int(k)] = idx[int(k)], idx[j]
		return nil
	}
	for j := n - 1; j > ihi; j-- {
		if f := swap(j); f != nil {
			return nil, nil, mat{}, f
		}
	}
	for j := 0; j < ilo; j++ {
		if f := swap(j); f != nil {
			return nil, nil, mat{}, f
		}
	}
	dd = make([]float64, n)
	for i := range dd {
		dd[i] = 1
		if i >= ilo && i <= ihi {
			dd[i] = scale[i]
			if !(dd[i] > 0) || math.IsInf(dd[i], 0) {
				return nil, nil, mat{}, vk.Failf("scale-factor-not-positive", "scale[%d] = %v (ilo=%d ihi=%d)", i, dd[i], ilo, ihi)
			}
		}
	}
	want = newMat(n, n)
	for i := 0; i < n; i++ {
		for j := 0; j < n; j++ {
			want.d[i*n+j] = a0.d[idx[i]*n+idx[j]] * (dd[j] / dd[i])
		}
	}
	return idx, dd, want, nil
}

// checkBalanced verifies the output b of Dgebal(job) on a0 against the
// documentation and returns the reconstruction.
func checkBalanced(job lapack.BalanceJob, a0, b mat, scale []float64, ilo, ihi int) (idx []int, dd []float64, f *vk.Failure) {
	n := a0.r
	if n == 0 {
		if ilo != 0 || ihi != -1 {
			return nil, nil, vk.Failf("ilo-ihi-range", "n=0: ilo=%d ihi=%d, documented 0 and -1", ilo, ihi)
		}
		return nil, nil, nil
	}
	if !(0 <= ilo && ilo <= ihi && ihi < n) {
		return nil, nil, vk.Failf("ilo-ihi-range", "n=%d job=%c: ilo=%d ihi=%d", n, job, ilo, ihi)
	}
	if (job == lapack.BalanceNone || job == lapack.Scale) && (ilo != 0 || ihi != n-1) {
		return nil, nil, vk.Failf("ilo-ihi-without-permutation", "n=%d job=%c: ilo=%d ihi=%d, documented 0 and n-1", n, job, ilo, ihi)
	}
	if job == lapack.BalanceNone {
		for i, v := range scale {
			if v != 1 {
				return nil, nil, vk.Failf("scale-not-one", "job=None: scale[%d] = %v", i, v)
			}
		}
	}
	if job == lapack.Permute {
		for i := ilo; i <= ihi; i++ {
			if scale[i] != 1 {
				return nil, nil, vk.Failf("scale-not-one", "job=Permute: scale[%d] = %v inside [ilo,ihi]=[%d,%d]", i, scale[i], ilo, ihi)
			}
		}
	}
	idx, dd, want, f := balanceModel(a0, scale, ilo, ihi)
	if f != nil {
		return nil, nil, f
	}
	for i := 0; i < n; i++ {
		for j := 0; j < n; j++ {
			w, g := want.d[i*n+j], b.d[i*n+j]
			if !(math.Abs(g-w) <= 4*eps*math.Abs(w)) {
				return nil, nil, vk.Failf("balanced-matrix", "n=%d job=%c ilo=%d ihi=%d: output[%d,%d] = %v, documented D⁻¹PᵀAPD gives %v", n, job, ilo, ihi, i, j, g, w)
			}
		}
	}
	if job == lapack.Permute || job == lapack.PermuteScale {
		for i := 0; i < n; i++ {
			for j := 0; j < i; j++ {
				if (j < ilo || i > ihi) && b.d[i*n+j] != 0 {
					return nil, nil, vk.Failf("not-block-triangular", "n=%d job=%c ilo=%d ihi=%d: output[%d,%d] = %v should be zero", n, job, ilo, ihi, i, j, b.d[i*n+j])
				}
			}
		}
		// "B contains at least one nonzero off-diagonal element in each row and
		// column" (otherwise another eigenvalue could have been isolated)
		if ihi > ilo {
			for i := ilo; i <= ihi; i++ {
				rowNZ, colNZ := false, false
				for j := ilo; j <= ihi; j++ {
					if j != i && b.d[i*n+j] != 0 {
						rowNZ = true
					}
					if j != i && b.d[j*n+i] != 0 {
						colNZ = true
					}
				}
				if !rowNZ || !colNZ {
					return nil, nil, vk.Failf("block-has-isolated-eigenvalue", "n=%d job=%c ilo=%d ihi=%d: row/column %d of the central block has no off-diagonal nonzero (row %v col %v)", n, job, ilo, ihi, i, rowNZ, colNZ)
				}
			}
		}
	}
	return idx, dd, nil
}

// fields: J[0] job, J[1] side of Dgebak (0 right 1 left), K columns of V, N,
// Pad[0] lda, Pad[1] ldv, Cls, Sc
func checkGebal(c kase) *vk.Failure {
	n := c.N
	rng := c.rng(7)
	a0 := genSquare(c.Cls, n, rng).scaled(pow2(c.Sc))
	job := balJobs[c.J[0]]
	lda := max(1, n) + c.Pad[0]
	a := newPmat("a", n, n, lda, rng, false).fill(a0)
	sc := newPvec("scale", n, rng, true)
	var ilo, ihi int
	if f := runPlain(func() { ilo, ihi = impl.Dgebal(job, n, a.data, lda, sc.data) }, a, sc); f != nil {
		return f
	}
	vk.Class(fmt.Sprintf("gebal:job=%c", job))
	vk.Class("gebal:cls=" + clsName(c.Cls))
	if n > 0 {
		switch {
		case ilo == 0 && ihi == n-1:
			vk.Class("gebal:no-eigenvalue-isolated")
		case ilo == ihi:
			vk.Class("gebal:fully-triangularised")
		default:
			vk.Class("gebal:partial-permutation")
		}
	}
	if job == lapack.BalanceNone {
		if f := a.same("job-none-modifies-a"); f != nil {
			return f
		}
	}
	if n > 0 {
		if f := firstFail(a.elemsFinite(), sc.elemsFinite()); f != nil {
			return f
		}
	}
	scale := sc.vec()
	idx, dd, f := checkBalanced(job, a0, a.dense(), scale, ilo, ihi)
	if f != nil {
		return f
	}
	if n == 0 {
		return nil
	}
	vk.Sample("gebal", c)
	scaled := false
	for _, v := range dd {
		if v != 1 {
			scaled = true
		}
	}
	if scaled {
		vk.Class("gebal:scaling-applied")
	}
	nonTrivial(c, n, a0, true, anyPad(c.Pad, 2), false)

	// Dgebak: V <- P D V (right) or P D⁻¹ V (left)
	side := lapack.EVRight
	if c.J[1] == 1 {
		side = lapack.EVLeft
	}
	m := c.K
	v0 := gauss(n, m, rng)
	ldv := max(1, m) + c.Pad[1]
	v := newPmat("v", n, m, ldv, rng, false).fill(v0)
	sc2 := newPvec("scale(Dgebak)", n, rng, false).fillVec(scale)
	if f := runPlain(func() { impl.Dgebak(job, side, n, ilo, ihi, sc2.data, m, v.data, ldv) }, sc2, v); f != nil {
		f.Key = "dgebak-" + f.Key
		return f
	}
	vk.Class(fmt.Sprintf("gebak:job=%c,side=%c", job, side))
	if f := sc2.same("dgebak-scale-modified"); f != nil {
		return f
	}
	vo := v.dense()
	for i := 0; i < n; i++ {
		for j := 0; j < m; j++ {
			w := v0.d[i*m+j] * dd[i]
			if side == lapack.EVLeft {
				w = v0.d[i*m+j] / dd[i]
			}
			g := vo.d[idx[i]*m+j]
			if !(math.Abs(g-w) <= 4*eps*math.Abs(w)) {
				return vk.Failf("dgebak-transform", "n=%d job=%c side=%c ilo=%d ihi=%d: V[%d,%d] = %v, documented P D V gives %v (source row %d, factor %v)", n, job, side, ilo, ihi, idx[i], j, g, w, i, dd[i])
			}
		}
	}
	return nil
}

func drawGebal(t *rapid.T) kase {
	c := kase{R: "Dgebal"}
	c.J[0] = rapid.SampledFrom([]int{0, 1, 1, 2, 2, 3, 3, 3}).Draw(t, "job")
	c.J[1] = rapid.IntRange(0, 1).Draw(t, "side")
	c.K = rapid.IntRange(0, 6).Draw(t, "m")
	c.N = dimN(t, "n", 40, 0, 1, 2, 10, 16)
	c.Pad = drawPads(t, 2)
	c.Cls = rapid.SampledFrom([]int{clsGauss, clsGraded, clsGraded, clsCompanion, clsJordan, clsComplexPairs, clsHessenberg, clsTriangular, clsDiagonal, clsZero, clsPermTri, clsPermTri, clsPermTri, clsSparse, clsSparse, clsSparse}).Draw(t, "cls")
	c.Sc = rapid.SampledFrom([]int{0, 0, 0, 60, -60, 500, -500}).Draw(t, "sc")
	c.Seed = drawSeed(t)
	return c
}

func TestGebal(t *testing.T) {
	vk.Run(t, "gebal", vk.Opts{Quick: 1200, Thorough: 14000}, drawGebal, checkGebal)
}

// ---- Dgehrd / Dgehd2 / Dorghr / Dormhr ---------------------------------------------

// triangularOutside zeroes the strictly lower entries in columns < ilo and rows >
// ihi (the precondition of Dgehrd / Dhseqr / Dgghrd on a matrix balanced by
// Dgebal).
func triangularOutside(a mat, ilo, ihi int) {
	n := a.r
	for i := 0; i < n; i++ {
		for j := 0; j < i; j++ {
			if j < ilo || i > ihi {
				a.d[i*n+j] = 0
			}
		}
	}
}

func hessQ(ar mat, tau []float64, ilo, ihi int) mat {
	n := ar.r
	q := eye(n)
	for i := ilo; i < ihi; i++ {
		v := make([]float64, ihi-i)
		v[0] = 1
		for k := i + 2; k <= ihi; k++ {
			v[k-i-1] = ar.d[k*n+i]
		}
		applyReflRight(q, i+1, v, tau[i])
	}
	return q
}

// fields: J[0] 0 Dgehrd 1 Dgehd2, J[1] bits side|trans<<1 of Dormhr, K other
// dimension of C, N, Ilo, Ihi, Pad[0] lda, Pad[1] Dorghr, Pad[2] ldc, LW, Cls
func checkGehrd(c kase) *vk.Failure {
	return viaDlarft(checkGehrdBody(c), c.N)
}

func checkGehrdBody(c kase) *vk.Failure {
	n := c.N
	rng := c.rng(8)
	ilo, ihi := c.ilohi(n)
	a0 := genSquare(c.Cls, n, rng).scaled(pow2(c.Sc))
	triangularOutside(a0, ilo, ihi)
	lda := max(1, n) + c.Pad[0]
	a := newPmat("a", n, n, lda, rng, false).fill(a0)
	tau := newPvec("tau", max(n-1, 0), rng, true)
	name := "Dgehrd"
	minL := max(1, n)
	var lwork, query int
	if c.J[0] == 0 {
		var f *vk.Failure
		lwork, query, f = withWork(c, rng, minL, func(work []float64, lwork int) {
			impl.Dgehrd(n, ilo, ihi, a.data, lda, tau.data, work, lwork)
		}, a, tau)
		if f != nil {
			return f
		}
		vk.Class("gehrd:" + lwClass(c, lwork, query, minL))
	} else {
		name = "Dgehd2"
		work := newPvec("work", n, rng, false)
		if f := runPlain(func() { impl.Dgehd2(n, ilo, ihi, a.data, lda, tau.data, work.data) }, a, tau, work); f != nil {
			return f
		}
	}
	vk.Class("gehrd:" + name)
	vk.Class("gehrd:cls=" + clsName(c.Cls))
	if n == 0 {
		return nil
	}
	if ilo == 0 && ihi == n-1 {
		vk.Class("gehrd:full-range")
	} else {
		vk.Class("gehrd:inner-block")
	}
	vk.Sample("gehrd", c)
	nonTrivial(c, n, a0, true, anyPad(c.Pad, 3), lwork < query)
	ar := a.dense()
	tv := tau.vec()
	// outside columns ilo..ihi-1 nothing is stored below the diagonal; tau is
	// defined on [ilo, ihi) (Dgehrd zeroes the rest)
	for i := 0; i < n-1; i++ {
		if i >= ilo && i < ihi {
			if math.IsNaN(tv[i]) {
				return vk.Failf("tau-not-set", "%s n=%d ilo=%d ihi=%d: tau[%d] = %v", name, n, ilo, ihi, i, tv[i])
			}
		} else if c.J[0] == 0 && tv[i] != 0 {
			return vk.Failf("tau-outside-block-not-zero", "%s n=%d ilo=%d ihi=%d: tau[%d] = %v, documented 0", name, n, ilo, ihi, i, tv[i])
		} else {
			tv[i] = 0
		}
	}
	if f := a.elemsFinite(); f != nil {
		return f
	}
	h := ar.clone()
	for i := 0; i < n; i++ {
		for j := 0; j+1 < i; j++ {
			inBlock := j >= ilo && j < ihi-1 && i <= ihi
			if !inBlock && ar.d[i*n+j] != 0 {
				return vk.Failf("entry-outside-reflector-storage", "%s n=%d ilo=%d ihi=%d: a[%d,%d] = %v below the subdiagonal outside the block", name, n, ilo, ihi, i, j, ar.d[i*n+j])
			}
			h.d[i*n+j] = 0
		}
	}
	q := hessQ(ar, tv, ilo, ihi)
	tolO := cN * float64(n) * eps
	na := frob(a0)
	if eo := orthCols(q); !(eo <= tolO) {
		return vk.Failf("q-not-orthogonal", "%s n=%d ilo=%d ihi=%d: ||QᵀQ-I||_F = %.3g > %.3g", name, n, ilo, ihi, eo, tolO)
	}
	if r := frob(sub(mul(mul(q, h), q.T()), a0)); !(r <= tolO*na) {
		return vk.Failf("reduction-residual", "%s n=%d ilo=%d ihi=%d: ||Q H Qᵀ - A||_F = %.3g > %.3g", name, n, ilo, ihi, r, tolO*na)
	}

	// Dorghr
	{
		ldq := max(1, n) + c.Pad[1]
		qa := newPmat("a(Dorghr)", n, n, ldq, rng, false).fill(ar)
		tau2 := newPvec("tau(Dorghr)", n-1, rng, true).fillVec(tau.vec())
		minQ := max(1, ihi-ilo)
		lw2, q2, f := withWork(c, rng, minQ, func(work []float64, lwork int) {
			impl.Dorghr(n, ilo, ihi, qa.data, ldq, tau2.data, work, lwork)
		}, qa, tau2)
		if f != nil {
			f.Key = "dorghr-" + f.Key
			return f
		}
		vk.Class("orghr:" + lwClass(c, lw2, q2, minQ))
		if f := firstFail(qa.elemsFinite(), tau2.same("dorghr-tau-modified")); f != nil {
			return f
		}
		if dd := frob(sub(qa.dense(), q)); !(dd <= tolO) {
			return vk.Failf("dorghr-differs-from-reflector-product", "n=%d ilo=%d ihi=%d: ||Dorghr - H...H||_F = %.3g > %.3g", n, ilo, ihi, dd, tolO)
		}
	}
	// Dormhr
	{
		side, trans := blas.Left, blas.NoTrans
		o := q
		if c.J[1]&1 != 0 {
			side = blas.Right
		}
		if c.J[1]&2 != 0 {
			trans = blas.Trans
			o = q.T()
		}
		cr, cc := n, c.K
		if side == blas.Right {
			cr, cc = c.K, n
		}
		c0 := gauss(cr, cc, rng)
		ldc := max(1, cc) + c.Pad[2]
		cm := newPmat("c", cr, cc, ldc, rng, false).fill(c0)
		tau2 := newPvec("tau(Dormhr)", n-1, rng, true).fillVec(tau.vec())
		nw := cc
		if side == blas.Right {
			nw = cr
		}
		minW := max(1, nw)
		lw2, q2, f := withWork(c, rng, minW, func(work []float64, lwork int) {
			impl.Dormhr(side, trans, cr, cc, ilo, ihi, a.data, lda, tau2.data, cm.data, ldc, work, lwork)
		}, a, tau2, cm)
		if f != nil {
			f.Key = "dormhr-" + f.Key
			return f
		}
		vk.Class(fmt.Sprintf("ormhr:%c%c", side, trans))
		vk.Class("ormhr:" + lwClass(c, lw2, q2, minW))
		if f := firstFail(cm.elemsFinite(), tau2.same("dormhr-tau-modified"), a.same("dormhr-a-not-restored")); f != nil {
			return f
		}
		var want mat
		if side == blas.Left {
			want = mul(o, c0)
		} else {
			want = mul(c0, o)
		}
		tolC := tolO * frob(c0)
		if dd := frob(sub(cm.dense(), want)); !(dd <= tolC) {
			return vk.Failf("dormhr-product", "Dormhr(%c,%c,m=%d,n=%d,ilo=%d,ihi=%d): ||C - op(Q)C||_F = %.3g > %.3g", side, trans, cr, cc, ilo, ihi, dd, tolC)
		}
	}
	return nil
}

func drawGehrd(t *rapid.T) kase {
	c := kase{R: "Dgehrd"}
	c.J[0] = rapid.IntRange(0, 2).Draw(t, "routine") / 2
	c.J[1] = rapid.IntRange(0, 3).Draw(t, "ormhr")
	c.K = rapid.IntRange(0, 12).Draw(t, "k")
	c.N = dimN(t, "n", 40, dimBoundaries...)
	if rapid.IntRange(0, 7).Draw(t, "big") == 0 {
		c.N = rapid.SampledFrom([]int{64, 100, 128, 129, 130, 140, 161, 170}).Draw(t, "nbig") // blocked Dgehrd needs ihi-ilo+1 > nx = 128
		if rapid.IntRange(0, 2).Draw(t, "bigfull") != 0 {
			c.Ilo, c.Ihi = 0, 1000
			c.Pad = drawPads(t, 3)
			c.LW = drawLW(t)
			c.Cls = rapid.IntRange(0, numSquareCls-1).Draw(t, "cls")
			c.Seed = drawSeed(t)
			return c
		}
	}
	c.Ilo, c.Ihi = drawIloIhi(t)
	c.Pad = drawPads(t, 3)
	c.LW = drawLW(t)
	c.Cls = rapid.IntRange(0, numSquareCls-1).Draw(t, "cls")
	c.Sc = rapid.SampledFrom([]int{0, 0, 0, 60, -60}).Draw(t, "sc")
	c.Seed = drawSeed(t)
	return c
}

func TestGehrd(t *testing.T) {
	vk.Run(t, "gehrd", vk.Opts{Quick: 900, Thorough: 9000}, drawGehrd, checkGehrd)
}

// ---- Dhseqr / Dlahqr / Dlaqr04 ----------------------------------------------------

// hessReduce reduces a to upper Hessenberg form with the harness's own
// Householder reflectors (so that every matrix class can feed the QR routines).
func hessReduce(a mat) mat {
	n := a.r
	h := a.clone()
	for k := 0; k+2 < n; k++ {
		v := make([]float64, n-k-1)
		for i := k + 1; i < n; i++ {
			v[i-k-1] = h.d[i*n+k]
		}
		alpha := nrm2(v)
		if alpha == 0 || nrm2(v[1:]) == 0 {
			continue
		}
		if v[0] > 0 {
			alpha = -alpha
		}
		v[0] -= alpha
		nv := nrm2(v)
		tau := 2 / (nv * nv)
		applyReflLeft(h, k+1, v, tau)
		applyReflRight(h, k+1, v, tau)
		for i := k + 2; i < n; i++ {
			h.d[i*n+k] = 0
		}
	}
	return h
}

// makeHess prepares the Hessenberg input for ilo/ihi: the block is isolated and
// everything outside it is upper triangular.
func makeHess(cls, n, ilo, ihi int, rng *vk.SplitMix) mat {
	h := hessReduce(genSquare(cls, n, rng))
	for i := 0; i+1 < n; i++ {
		if !(i >= ilo && i+1 <= ihi) {
			h.d[(i+1)*n+i] = 0
		}
	}
	return h
}

// checkSchurOutputs verifies wr/wi against the diagonal blocks of t on lo..hi.
func checkSchurEigs(pfx string, t mat, wr, wi []float64, lo, hi int) *vk.Failure {
	n := t.r
	for i := lo; i <= hi; {
		if i < hi && t.d[(i+1)*n+i] != 0 {
			b, cc := t.d[i*n+i+1], t.d[(i+1)*n+i]
			want := math.Sqrt(math.Abs(b)) * math.Sqrt(math.Abs(cc))
			if !bitsEq(wr[i], t.d[i*n+i]) || !bitsEq(wr[i+1], t.d[(i+1)*n+i+1]) ||
				!(math.Abs(wi[i]-want) <= 8*eps*want) || wi[i+1] != -wi[i] || !(wi[i] > 0) {
				return vk.Failf(pfx+"eigenvalues-vs-schur-form", "block at %d: T = [%v %v; %v %v], (wr,wi) = (%v,%v),(%v,%v)", i, t.d[i*n+i], b, cc, t.d[(i+1)*n+i+1], wr[i], wi[i], wr[i+1], wi[i+1])
			}
			i += 2
		} else {
			if !bitsEq(wr[i], t.d[i*n+i]) && !(wr[i] == 0 && t.d[i*n+i] == 0) || wi[i] != 0 {
				return vk.Failf(pfx+"eigenvalues-vs-schur-form", "T[%d,%d] = %v but (wr,wi) = (%v,%v)", i, i, t.d[i*n+i], wr[i], wi[i])
			}
			i++
		}
	}
	return nil
}

// fields: J[0] routine (0 Dhseqr, 1 Dlahqr, 2 Dlaqr04 recur=1, 3 Dlaqr04 recur=0),
// J[1] 0 eigenvalues only / 1 Schur form, J[2] Z: 0 none, 1 identity start
// (SchurHess), 2 orthogonal start (SchurOrig), J[3] 1: garbage below the
// subdiagonal (Dhseqr) / restrict iloz..ihiz to ilo..ihi (others); N, Ilo, Ihi,
// Pad[0] ldh, Pad[1] ldz, LW, Cls
func checkHseqr(c kase) *vk.Failure {
	return viaDlarft(checkHseqrBody(c), c.N)
}

func checkHseqrBody(c kase) *vk.Failure {
	n := c.N
	rng := c.rng(9)
	ilo, ihi := c.ilohi(n)
	h0 := makeHess(c.Cls, n, ilo, ihi, rng)
	ldh := max(1, n) + c.Pad[0]
	h := newPmat("h", n, n, ldh, rng, false).fill(h0)
	garbage := c.J[0] == 0 && c.J[3] == 1
	if garbage {
		// what Dgehrd leaves behind: reflector data below the subdiagonal of the
		// active block
		for j := ilo; j+2 <= ihi; j++ {
			for i := j + 2; i <= ihi; i++ {
				h.set(i, j, rng.Norm())
			}
		}
	}
	wantt := c.J[1] == 1
	wantz := c.J[2] != 0
	var z0 mat
	zr := 0
	ldz := 1 + c.Pad[1]
	if wantz {
		zr = n
		ldz = max(1, n) + c.Pad[1]
	}
	z := newPmat("z", zr, zr, ldz, rng, false)
	if wantz {
		if c.J[2] == 2 {
			if c.J[0] == 0 {
				// SchurOrig documents Q as the identity outside [ilo,ihi]
				z0 = eye(n)
				k := ihi - ilo + 1
				qb := randOrth(k, rng)
				for i := 0; i < k; i++ {
					for j := 0; j < k; j++ {
						z0.d[(ilo+i)*n+ilo+j] = qb.d[i*k+j]
					}
				}
			} else {
				z0 = randOrth(n, rng)
			}
			z.fill(z0)
		} else {
			z0 = eye(n)
			if c.J[0] != 0 {
				z.fill(z0) // Dlahqr / Dlaqr04 update a given Z; Dhseqr(SchurHess) initialises it
			}
		}
	}
	wlen := n
	if c.J[0] != 0 {
		wlen = ihi + 1
	}
	wr := newPvec("wr", wlen, rng, true)
	wi := newPvec("wi", wlen, rng, true)
	iloz, ihiz := 0, n-1
	if c.J[0] != 0 && c.J[3] == 1 && c.J[2] == 1 {
		iloz, ihiz = ilo, ihi
	}
	var unconv int
	var name string
	var lwork, query int
	var f *vk.Failure
	switch c.J[0] {
	case 0:
		job := lapack.EigenvaluesOnly
		if wantt {
			job = lapack.EigenvaluesAndSchur
		}
		compz := []lapack.SchurComp{lapack.SchurNone, lapack.SchurHess, lapack.SchurOrig}[c.J[2]]
		name = fmt.Sprintf("Dhseqr(%c,%c)", job, compz)
		minL := max(1, n)
		lwork, query, f = withWork(c, rng, minL, func(work []float64, lwork int) {
			unconv = impl.Dhseqr(job, compz, n, ilo, ihi, h.data, ldh, wr.data, wi.data, z.data, ldz, work, lwork)
		}, h, wr, wi, z)
		if f == nil {
			vk.Class("hseqr:Dhseqr," + lwClass(c, lwork, query, minL))
		}
	case 1:
		name = fmt.Sprintf("Dlahqr(wantt=%v,wantz=%v)", wantt, wantz)
		f = runPlain(func() {
			unconv = impl.Dlahqr(wantt, wantz, n, ilo, ihi, h.data, ldh, wr.data, wi.data, iloz, ihiz, z.data, ldz)
		}, h, wr, wi, z)
	default:
		recur := 3 - c.J[0]
		name = fmt.Sprintf("Dlaqr04(wantt=%v,wantz=%v,recur=%d)", wantt, wantz, recur)
		// documented: lwork >= n for n > 11, not enforced (TODO in the prologue);
		// up to ntiny = 15 the routine defers to Dlahqr, needs no workspace and
		// answers the query with 1
		minL := 1
		if n > 15 {
			minL = n
		}
		// the optimum depends on ihi-ilo and may be below the documented minimum
		lwork, query, f = withWorkE(c, rng, minL, true, func(work []float64, lwork int) {
			unconv = impl.Dlaqr04(wantt, wantz, n, ilo, ihi, h.data, ldh, wr.data, wi.data, iloz, ihiz, z.data, ldz, work, lwork, recur)
		}, h, wr, wi, z)
		if f == nil {
			vk.Class("hseqr:Dlaqr04," + lwClass(c, lwork, query, minL))
		}
	}
	if f != nil {
		f.Msg = name + ": " + f.Msg
		return f
	}
	vk.Class("hseqr:" + name)
	vk.Class("hseqr:cls=" + clsName(c.Cls))
	switch {
	case n > 75:
		vk.Class("hseqr:n>75(multishift)")
	case n > 15:
		vk.Class("hseqr:15<n<=75")
	default:
		vk.Class("hseqr:n<=15")
	}
	if garbage {
		vk.Class("hseqr:garbage-below-subdiagonal")
	}
	if n == 0 {
		return nil
	}
	vk.Sample("hseqr", c)
	nonTrivial(c, n, h0, wantz, anyPad(c.Pad, 2), lwork < query)
	if !wantz {
		if f := z.same("unrequested-z-written"); f != nil {
			return f
		}
	}
	if unconv != 0 {
		vk.Inconclusive("hseqr-unconverged")
		return nil
	}
	lo, hi := 0, n-1
	if c.J[0] != 0 {
		lo, hi = ilo, ihi
	}
	wrv, wiv := wr.vec(), wi.vec()
	blk := h0.sub(lo, hi+1, lo, hi+1)
	if f := checkEigenvalues("", blk, wrv[lo:hi+1], wiv[lo:hi+1], rng); f != nil {
		f.Msg = fmt.Sprintf("%s n=%d ilo=%d ihi=%d: %s", name, n, ilo, ihi, f.Msg)
		return f
	}
	nh := frob(h0)
	tol := cN * float64(n) * eps * nh
	var t mat
	if wantt {
		if f := h.elemsFinite(); f != nil {
			return f
		}
		t = h.dense()
		if c.J[0] >= 2 {
			// Oracle correction: like DLAQR0/DLAQR4, Dlaqr04 uses the entries below
			// the first subdiagonal as scratch space and leaves them dirty (Dhseqr
			// zeroes them afterwards); "H contains T" refers to the Hessenberg part.
			for i := 0; i < n; i++ {
				for j := 0; j+1 < i; j++ {
					t.d[i*n+j] = 0
				}
			}
		}
		if f := firstFail(checkQuasiTri("", t, 0, n-1), checkSchurEigs("", t, wrv, wiv, lo, hi)); f != nil {
			f.Msg = fmt.Sprintf("%s n=%d ilo=%d ihi=%d: %s", name, n, ilo, ihi, f.Msg)
			return f
		}
		if d := math.Abs(frob(t) - nh); !(d <= tol) {
			return vk.Failf("schur-form-norm", "%s n=%d: | ||T||_F - ||H||_F | = %.3g > %.3g", name, n, d, tol)
		}
	}
	if wantz {
		if f := z.elemsFinite(); f != nil {
			return f
		}
		zo := z.dense()
		if eo := orthCols(zo); !(eo <= cN*float64(n)*eps) {
			return vk.Failf("z-not-orthogonal", "%s n=%d ilo=%d ihi=%d: ||ZᵀZ-I||_F = %.3g", name, n, ilo, ihi, eo)
		}
		if wantt {
			want := mul(mul(z0, h0), z0.T())
			if r := frob(sub(mul(mul(zo, t), zo.T()), want)); !(r <= tol) {
				return vk.Failf("schur-residual", "%s n=%d ilo=%d ihi=%d: ||Z T Zᵀ - Q H Qᵀ||_F = %.3g > %.3g", name, n, ilo, ihi, r, tol)
			}
		}
	}
	return nil
}

func drawHseqr(t *rapid.T) kase {
	c := kase{R: "Dhseqr"}
	c.J[0] = rapid.SampledFrom([]int{0, 0, 0, 1, 1, 2, 2, 3}).Draw(t, "routine")
	c.J[1] = rapid.IntRange(0, 1).Draw(t, "schur")
	c.J[2] = rapid.IntRange(0, 2).Draw(t, "z")
	c.J[3] = rapid.IntRange(0, 1).Draw(t, "variant")
	c.N = drawN(t)
	c.Ilo, c.Ihi = drawIloIhi(t)
	c.Pad = drawPads(t, 2)
	c.LW = drawLW(t)
	c.Cls = rapid.IntRange(0, numSquareCls-1).Draw(t, "cls")
	c.Seed = drawSeed(t)
	return c
}

func TestHseqr(t *testing.T) {
	vk.Run(t, "hseqr", vk.Opts{Quick: 1500, Thorough: 12000}, drawHseqr, checkHseqr)
}

// ---- Dgeev -------------------------------------------------------------------------

// eigvecResidual returns ||B y - lambda y|| / ||y|| for the complex vector
// y = yr + i*yi (right) or ||yᴴB - lambda yᴴ|| / ||y|| (left).
func eigvecResidual(b mat, wr, wi float64, yr, yi []float64, left bool) float64 {
	n := b.r
	bm := b
	if left {
		// yᴴ B = λ yᴴ  <=>  Bᵀ conj(y) = λ conj(y)
		bm = b.T()
		yi = scaleVec(yi, -1)
	}
	var rs, ys float64
	for i := 0; i < n; i++ {
		var sr, si float64
		row := bm.d[i*n : (i+1)*n]
		for j, v := range row {
			sr += v * yr[j]
			si += v * yi[j]
		}
		sr -= wr*yr[i] - wi*yi[i]
		si -= wr*yi[i] + wi*yr[i]
		rs += sr*sr + si*si
		ys += yr[i]*yr[i] + yi[i]*yi[i]
	}
	if ys == 0 {
		return math.Inf(1)
	}
	return math.Sqrt(rs / ys)
}

// fields: J[0] jobvl, J[1] jobvr, N, Pad[0..2], LW, Cls, Sc, Wrap
func checkGeev(c kase) *vk.Failure {
	return viaDlarft(checkGeevBody(c), c.N)
}

func checkGeevBody(c kase) *vk.Failure {
	n := c.N
	rng := c.rng(10)
	a0 := genSquare(c.Cls, n, rng)
	sc := pow2(c.Sc)
	wantvl, wantvr := c.J[0] == 1, c.J[1] == 1
	jobvl, jobvr := lapack.LeftEVNone, lapack.RightEVNone
	if wantvl {
		jobvl = lapack.LeftEVCompute
	}
	if wantvr {
		jobvr = lapack.RightEVCompute
	}
	lda := max(1, n) + c.Pad[0]
	a := newPmat("a", n, n, lda, rng, false).fill(a0.scaled(sc))
	mk := func(name string, want bool, pad int) (*pmat, int) {
		if want {
			ld := max(1, n) + pad
			return newPmat(name, n, n, ld, rng, false), ld
		}
		return newPmat(name, 0, 0, 1+pad, rng, false), 1 + pad
	}
	vl, ldvl := mk("vl", wantvl, c.Pad[1])
	vr, ldvr := mk("vr", wantvr, c.Pad[2])
	wr := newPvec("wr", n, rng, true)
	wi := newPvec("wi", n, rng, true)
	var first int
	call := func(work []float64, lwork int) {
		first = impl.Dgeev(jobvl, jobvr, n, a.data, lda, wr.data, wi.data, vl.data, ldvl, vr.data, ldvr, work, lwork)
	}
	if c.Wrap {
		call = func(work []float64, lwork int) {
			vlr, vrr := 0, 0
			if wantvl {
				vlr = n
			}
			if wantvr {
				vrr = n
			}
			first = lapack64.Geev(jobvl, jobvr, blas64.General{Rows: n, Cols: n, Data: a.data, Stride: lda}, wr.data, wi.data,
				blas64.General{Rows: vlr, Cols: vlr, Data: vl.data, Stride: ldvl},
				blas64.General{Rows: vrr, Cols: vrr, Data: vr.data, Stride: ldvr}, work, lwork)
		}
	}
	minL := max(1, 3*n)
	if wantvl || wantvr {
		minL = max(1, 4*n)
	}
	lwork, query, f := withWork(c, rng, minL, call, a, wr, wi, vl, vr)
	if f != nil {
		return f
	}
	vk.Class(fmt.Sprintf("geev:jobs=%c%c", jobvl, jobvr))
	vk.Class("geev:" + lwClass(c, lwork, query, minL))
	vk.Class("geev:cls=" + clsName(c.Cls))
	if n > 75 {
		vk.Class("geev:n>75(multishift)")
	}
	if n == 0 {
		return nil
	}
	vk.Sample("geev", c)
	nonTrivial(c, n, a0, wantvl || wantvr, anyPad(c.Pad, 3), lwork < query)
	if !wantvl {
		if f := vl.same("unrequested-vl-written"); f != nil {
			return f
		}
	}
	if !wantvr {
		if f := vr.same("unrequested-vr-written"); f != nil {
			return f
		}
	}
	if first != 0 {
		vk.Inconclusive("geev-not-converged")
		return nil
	}
	// The matrix Dgeev actually factors is the balanced one. Obtain it from
	// Dgebal, but trust nothing: the output is verified entry by entry against
	// the documented P and D before it is used.
	bal := a0.clone()
	scale := make([]float64, n)
	ilo, ihi := impl.Dgebal(lapack.PermuteScale, n, bal.d, n, scale)
	idx, dd, f := checkBalanced(lapack.PermuteScale, a0, bal, scale, ilo, ihi)
	if f != nil {
		f.Key = "dgebal-" + f.Key
		return f
	}
	balanced := false
	for _, v := range dd {
		if v != 1 {
			balanced = true
		}
	}
	if balanced {
		vk.Class("geev:balancing-scales")
	}
	wrv, wiv := scaleVec(wr.vec(), 1/sc), scaleVec(wi.vec(), 1/sc)
	if f := checkEigenvalues("", bal, wrv, wiv, rng); f != nil {
		f.Msg = fmt.Sprintf("Dgeev(%c,%c) n=%d: %s", jobvl, jobvr, n, f.Msg)
		return f
	}
	nb := frob(bal)
	tol := cN * float64(n) * eps * nb
	checkVecs := func(v *pmat, left bool, nm string) *vk.Failure {
		if f := v.elemsFinite(); f != nil {
			return f
		}
		vd := v.dense()
		col := func(j int) []float64 {
			x := make([]float64, n)
			for i := range x {
				x[i] = vd.d[i*n+j]
			}
			return x
		}
		for j := 0; j < n; j++ {
			if wiv[j] < 0 {
				continue
			}
			xr := col(j)
			xi := make([]float64, n)
			if wiv[j] > 0 {
				xi = col(j + 1)
			}
			// unit Euclidean norm
			nr := math.Hypot(nrm2(xr), nrm2(xi))
			if !(math.Abs(nr-1) <= float64(n+16)*eps) {
				return vk.Failf(nm+"-not-unit-norm", "n=%d: eigenvector %d (eigenvalue (%v,%v)) has 2-norm %v", n, j, wrv[j], wiv[j], nr)
			}
			// largest component real
			if wiv[j] > 0 {
				var big float64
				for i := 0; i < n; i++ {
					big = math.Max(big, xr[i]*xr[i]+xi[i]*xi[i])
				}
				found := false
				for i := 0; i < n; i++ {
					if xi[i] == 0 && xr[i]*xr[i] >= big*(1-1e-10) {
						found = true
					}
				}
				if !found {
					return vk.Failf(nm+"-largest-component-not-real", "n=%d: complex eigenvector %d (eigenvalue (%v,%v)): no component of maximal modulus %v has zero imaginary part", n, j, wrv[j], wiv[j], math.Sqrt(big))
				}
			}
			// back to the balanced coordinates: y = D⁻¹Pᵀx (right), y = DPᵀx (left)
			yr, yi := make([]float64, n), make([]float64, n)
			for i := 0; i < n; i++ {
				if left {
					yr[i], yi[i] = xr[idx[i]]*dd[i], xi[idx[i]]*dd[i]
				} else {
					yr[i], yi[i] = xr[idx[i]]/dd[i], xi[idx[i]]/dd[i]
				}
			}
			if r := eigvecResidual(bal, wrv[j], wiv[j], yr, yi, left); !(r <= tol) {
				return vk.Failf(nm+"-residual", "n=%d: eigenpair %d (eigenvalue (%v,%v)): residual/||y|| = %.3g > %.3g = %g*n*eps*||B||_F (B the balanced matrix)", n, j, wrv[j], wiv[j], r, tol, cN)
			}
		}
		return nil
	}
	if wantvr {
		if f := checkVecs(vr, false, "right-eigenvector"); f != nil {
			f.Msg = fmt.Sprintf("Dgeev(%c,%c) ", jobvl, jobvr) + f.Msg
			return f
		}
	}
	if wantvl {
		if f := checkVecs(vl, true, "left-eigenvector"); f != nil {
			f.Msg = fmt.Sprintf("Dgeev(%c,%c) ", jobvl, jobvr) + f.Msg
			return f
		}
	}
	return nil
}

func drawGeev(t *rapid.T) kase {
	c := kase{R: "Dgeev"}
	c.J[0] = rapid.IntRange(0, 1).Draw(t, "jobvl")
	c.J[1] = rapid.IntRange(0, 1).Draw(t, "jobvr")
	c.N = drawN(t)
	c.Pad = drawPads(t, 3)
	c.LW = drawLW(t)
	c.Cls = rapid.IntRange(0, numSquareCls-1).Draw(t, "cls")
	c.Sc = rapid.SampledFrom([]int{0, 0, 0, 0, 500, -500}).Draw(t, "sc")
	c.Wrap = rapid.IntRange(0, 4).Draw(t, "wrap") == 0
	c.Seed = drawSeed(t)
	return c
}

func TestGeev(t *testing.T) {
	vk.Run(t, "geev", vk.Opts{Quick: 1500, Thorough: 12000}, drawGeev, checkGeev)
}

// ---- Dtrevc3 ----------------------------------------------------------------------

// fields: J[0] side (0 right, 1 left, 2 both), J[1] howmny (0 all, 1 all*Q, 2
// selected), N, K extra columns, Pad[0] ldt, Pad[1] ldvl, Pad[2] ldvr, LW, Cls
// (Schur form mode)
func checkTrevc3(c kase) *vk.Failure {
	n := c.N
	rng := c.rng(11)
	t0 := genSchur(n, c.Cls, rng)
	side := []lapack.EVSide{lapack.EVRight, lapack.EVLeft, lapack.EVBoth}[c.J[0]]
	howmny := []lapack.EVHowMany{lapack.EVAll, lapack.EVAllMulQ, lapack.EVSelected}[c.J[1]]
	bs := blockSizes(t0)
	var sel, sel0 []bool
	wantCols := n
	if howmny == lapack.EVSelected {
		sel = make([]bool, n)
		for i := range sel {
			sel[i] = rng.Intn(2) == 0
		}
		sel0 = append([]bool(nil), sel...)
		wantCols = 0
		for i := 0; i < n; i++ {
			switch bs[i] {
			case 1:
				if sel[i] {
					wantCols++
				}
			case 2:
				if sel[i] || sel[i+1] {
					wantCols += 2
				}
			}
		}
	}
	mm := wantCols + c.K
	ldt := max(1, n) + c.Pad[0]
	tm := newPmat("t", n, n, ldt, rng, false).fill(t0)
	rightv := side != lapack.EVLeft
	leftv := side != lapack.EVRight
	q := eye(n)
	if howmny == lapack.EVAllMulQ {
		q = randOrth(n, rng)
	}
	mk := func(name string, want bool, pad int) (*pmat, int) {
		if !want {
			return newPmat(name, 0, 0, 1+pad, rng, false), 1 + pad
		}
		ld := max(1, mm) + pad
		p := newPmat(name, n, mm, ld, rng, false)
		if howmny == lapack.EVAllMulQ {
			for i := 0; i < n; i++ {
				for j := 0; j < n; j++ {
					p.set(i, j, q.d[i*n+j])
				}
			}
		}
		return p, ld
	}
	vl, ldvl := mk("vl", leftv, c.Pad[1])
	vr, ldvr := mk("vr", rightv, c.Pad[2])
	var m int
	minL := max(1, 3*n)
	lwork, query, f := withWork(c, rng, minL, func(work []float64, lwork int) {
		m = impl.Dtrevc3(side, howmny, sel, n, tm.data, ldt, vl.data, ldvl, vr.data, ldvr, mm, work, lwork)
	}, tm, vl, vr)
	if f != nil {
		return f
	}
	vk.Class(fmt.Sprintf("trevc3:side=%c,howmny=%c", side, howmny))
	vk.Class("trevc3:" + lwClass(c, lwork, query, minL))
	vk.Class(fmt.Sprint("trevc3:schur-mode=", c.Cls))
	if n == 0 {
		return nil
	}
	vk.Sample("trevc3", c)
	nonTrivial(c, n, t0, true, anyPad(c.Pad, 3), lwork < query)
	if f := tm.same("t-modified"); f != nil {
		return f
	}
	if m != wantCols {
		return vk.Failf("column-count", "Dtrevc3(%c,%c) n=%d: returned m=%d, the selection needs %d columns", side, howmny, n, m, wantCols)
	}
	// which eigenvalues were computed, in order
	type ev struct {
		i  int
		cx bool
	}
	var list []ev
	for i := 0; i < n; i++ {
		switch bs[i] {
		case 1:
			if sel == nil || sel0[i] {
				list = append(list, ev{i, false})
			}
			if sel != nil && sel[i] != sel0[i] {
				return vk.Failf("selected-modified", "selected[%d] (real eigenvalue) changed from %v to %v", i, sel0[i], sel[i])
			}
		case 2:
			if sel == nil || sel0[i] || sel0[i+1] {
				list = append(list, ev{i, true})
				if sel != nil && (!sel[i] || sel[i+1]) {
					return vk.Failf("selected-not-standardised", "complex pair at %d: selected = (%v,%v) on entry, (%v,%v) on return; documented (true,false)", i, sel0[i], sel0[i+1], sel[i], sel[i+1])
				}
			} else if sel != nil && (sel[i] || sel[i+1]) {
				return vk.Failf("selected-modified", "unselected complex pair at %d became (%v,%v)", i, sel[i], sel[i+1])
			}
		}
	}
	nt := frob(t0)
	tol := cN * float64(n) * eps * nt
	am := t0
	if howmny == lapack.EVAllMulQ {
		am = mul(mul(q, t0), q.T())
	}
	checkSide := func(v *pmat, left bool, nm string) *vk.Failure {
		vd := v.dense()
		// unused columns stay untouched
		for i := 0; i < n; i++ {
			for j := m; j < mm; j++ {
				if !bitsEq(v.at(i, j), v.snap[v.off+i*v.ld+j]) {
					return vk.Failf(nm+"-unused-column-written", "n=%d m=%d mm=%d: %s[%d,%d] changed", n, m, mm, v.name, i, j)
				}
			}
		}
		col := 0
		for _, e := range list {
			xr := make([]float64, n)
			xi := make([]float64, n)
			for i := 0; i < n; i++ {
				xr[i] = vd.d[i*mm+col]
				if e.cx {
					xi[i] = vd.d[i*mm+col+1]
				}
			}
			wr := t0.d[e.i*n+e.i]
			var wi float64
			if e.cx {
				wi = math.Sqrt(math.Abs(t0.d[e.i*n+e.i+1])) * math.Sqrt(math.Abs(t0.d[(e.i+1)*n+e.i]))
			}
			var big float64
			for i := 0; i < n; i++ {
				if math.IsNaN(xr[i]) || math.IsNaN(xi[i]) || math.IsInf(xr[i], 0) || math.IsInf(xi[i], 0) {
					return vk.Failf(nm+"-non-finite", "n=%d: eigenvector for T[%d,%d] has component %d = (%v,%v)", n, e.i, e.i, i, xr[i], xi[i])
				}
				big = math.Max(big, math.Abs(xr[i])+math.Abs(xi[i]))
			}
			if !(math.Abs(big-1) <= 8*eps) {
				return vk.Failf(nm+"-normalisation", "Dtrevc3(%c,%c) n=%d: eigenvector of eigenvalue (%v,%v) at %d has max(|re|+|im|) = %v, documented 1", side, howmny, n, wr, wi, e.i, big)
			}
			if r := eigvecResidual(am, wr, wi, xr, xi, left); !(r <= tol) {
				return vk.Failf(nm+"-residual", "Dtrevc3(%c,%c) n=%d: eigenvalue (%v,%v) at %d: residual/||x|| = %.3g > %.3g", side, howmny, n, wr, wi, e.i, r, tol)
			}
			col++
			if e.cx {
				col++
			}
		}
		return nil
	}
	if rightv {
		if f := checkSide(vr, false, "right-eigenvector"); f != nil {
			return f
		}
	}
	if leftv {
		if f := checkSide(vl, true, "left-eigenvector"); f != nil {
			return f
		}
	}
	return nil
}

func drawTrevc3(t *rapid.T) kase {
	c := kase{R: "Dtrevc3"}
	c.J[0] = rapid.IntRange(0, 2).Draw(t, "side")
	c.J[1] = rapid.IntRange(0, 2).Draw(t, "howmny")
	c.N = dimN(t, "n", 40, 0, 1, 2, 10, 16)
	if rapid.IntRange(0, 14).Draw(t, "big") == 0 {
		c.N = rapid.IntRange(41, 140).Draw(t, "nbig")
	}
	c.K = rapid.SampledFrom([]int{0, 0, 1, 3}).Draw(t, "extra")
	c.Pad = drawPads(t, 3)
	c.LW = drawLW(t)
	c.Cls = rapid.IntRange(0, 4).Draw(t, "mode")
	c.Seed = drawSeed(t)
	return c
}

func TestTrevc3(t *testing.T) {
	vk.Run(t, "trevc3", vk.Opts{Quick: 900, Thorough: 9000}, drawTrevc3, checkTrevc3)
}

// ---- Dtrexc / Dlaexc ----------------------------------------------------------------

// fields: J[0] 0 Dtrexc 1 Dlaexc, J[1] update Q, N, Ilo -> ifst / j1, Ihi -> ilst,
// Pad[0] ldt, Pad[1] ldq, Cls (Schur form mode)
func checkTrexc(c kase) *vk.Failure {
	n := c.N
	rng := c.rng(12)
	t0 := genSchur(n, c.Cls, rng)
	wantq := c.J[1] == 1
	ldt := max(1, n) + c.Pad[0]
	tm := newPmat("t", n, n, ldt, rng, false).fill(t0)
	q0 := eye(n)
	if rng.Intn(2) == 0 {
		q0 = randOrth(n, rng)
	}
	qr := 0
	ldq := 1 + c.Pad[1]
	if wantq {
		qr = n
		ldq = max(1, n) + c.Pad[1]
	}
	qm := newPmat("q", qr, qr, ldq, rng, false)
	if wantq {
		qm.fill(q0)
	}
	work := newPvec("work", n, rng, false)
	bs := blockSizes(t0)
	var ok bool
	name := "Dtrexc"
	if n == 0 {
		if c.J[0] == 0 {
			if f := runPlain(func() { _, _, ok = impl.Dtrexc(lapack.UpdateSchurNone, 0, tm.data, ldt, qm.data, ldq, 0, 0, work.data) }, tm, qm, work); f != nil {
				return f
			}
			if !ok {
				return vk.Failf("ok-false-n0", "Dtrexc(n=0) returned false")
			}
		}
		return nil
	}
	ifst := c.Ilo * n / 1001
	ilst := c.Ihi * n / 1001
	if c.J[0] == 0 {
		compq := lapack.UpdateSchurNone
		if wantq {
			compq = lapack.UpdateSchur
		}
		var ifstOut, ilstOut int
		if f := runPlain(func() {
			ifstOut, ilstOut, ok = impl.Dtrexc(compq, n, tm.data, ldt, qm.data, ldq, ifst, ilst, work.data)
		}, tm, qm, work); f != nil {
			return f
		}
		wantIfst := ifst
		if bs[ifst] == 0 {
			wantIfst = ifst - 1
		}
		if ifstOut != wantIfst {
			return vk.Failf("ifst-out", "Dtrexc n=%d ifst=%d (block sizes %v): ifstOut = %d, documented %d", n, ifst, bs, ifstOut, wantIfst)
		}
		if ok && (ilstOut < ilst-1 || ilstOut > ilst+1) {
			return vk.Failf("ilst-out", "Dtrexc n=%d ifst=%d ilst=%d: ilstOut = %d differs from ilst by more than 1", n, ifst, ilst, ilstOut)
		}
		if ilstOut < 0 || ilstOut >= n {
			return vk.Failf("ilst-out", "Dtrexc n=%d: ilstOut = %d out of range", n, ilstOut)
		}
		if !ok {
			vk.Inconclusive("dtrexc-blocks-too-close")
		}
		t1 := tm.dense()
		if ok && ilstOut > 0 && t1.d[ilstOut*n+ilstOut-1] != 0 {
			return vk.Failf("ilst-out-not-block-start", "Dtrexc n=%d ifst=%d ilst=%d: ilstOut = %d is the second row of a 2x2 block", n, ifst, ilst, ilstOut)
		}
		dir := "down"
		if ifst > ilst {
			dir = "up"
		} else if ifst == ilst {
			dir = "none"
		}
		vk.Class(fmt.Sprintf("trexc:Dtrexc,compq=%c,move=%s,block=%d", compq, dir, max(bs[wantIfst], 1)))
	} else {
		name = "Dlaexc"
		// j1 = start of the block containing row ifst; n2 = size of the next block
		j1 := ifst
		if bs[j1] == 0 {
			j1--
		}
		n1 := bs[j1]
		n2 := 0
		if j1+n1 < n {
			n2 = bs[j1+n1]
		}
		if f := runPlain(func() {
			ok = impl.Dlaexc(wantq, n, tm.data, ldt, qm.data, ldq, j1, n1, n2, work.data)
		}, tm, qm, work); f != nil {
			return f
		}
		vk.Class(fmt.Sprintf("trexc:Dlaexc,wantq=%v,n1=%d,n2=%d", wantq, n1, n2))
		if !ok {
			if n1 == 1 && n2 == 1 {
				return vk.Failf("dlaexc-1x1-swap-rejected", "Dlaexc n=%d j1=%d: swap of two 1x1 blocks returned false", n, j1)
			}
			vk.Inconclusive("dlaexc-swap-rejected")
			return firstFail(tm.same("dlaexc-rejected-but-t-modified"), qm.same("dlaexc-rejected-but-q-modified"))
		}
	}
	vk.Class(fmt.Sprint("trexc:schur-mode=", c.Cls))
	vk.Sample("trexc", c)
	nonTrivial(c, n, t0, wantq, anyPad(c.Pad, 2), false)
	if !wantq {
		if f := qm.same("unrequested-q-written"); f != nil {
			return f
		}
	}
	if f := tm.elemsFinite(); f != nil {
		return f
	}
	t1 := tm.dense()
	if f := checkQuasiTri("", t1, 0, n-1); f != nil {
		f.Msg = name + ": " + f.Msg
		return f
	}
	nt := frob(t0)
	tol := cN * float64(n) * eps * nt
	if wantq {
		if f := qm.elemsFinite(); f != nil {
			return f
		}
		q1 := qm.dense()
		if eo := orthCols(q1); !(eo <= cN*float64(n)*eps) {
			return vk.Failf("q-not-orthogonal", "%s n=%d: ||QᵀQ-I||_F = %.3g", name, n, eo)
		}
		want := mul(mul(q0, t0), q0.T())
		if r := frob(sub(mul(mul(q1, t1), q1.T()), want)); !(r <= tol) {
			return vk.Failf("similarity-residual", "%s n=%d: ||Q'T'Q'ᵀ - QTQᵀ||_F = %.3g > %.3g", name, n, r, tol)
		}
	} else {
		if d := math.Abs(frob(t1) - nt); !(d <= tol) {
			return vk.Failf("norm-not-preserved", "%s n=%d: | ||T'||_F - ||T||_F | = %.3g > %.3g", name, n, d, tol)
		}
		var tr0, tr1 vk.DD
		for i := 0; i < n; i++ {
			tr0.Add(t0.d[i*n+i])
			tr1.Add(t1.d[i*n+i])
		}
		if d := math.Abs(tr0.Float() - tr1.Float()); !(d <= tol) {
			return vk.Failf("trace-not-preserved", "%s n=%d: traces %v and %v", name, n, tr0.Float(), tr1.Float())
		}
	}
	return nil
}

func drawTrexc(t *rapid.T) kase {
	c := kase{R: "Dtrexc"}
	c.J[0] = rapid.IntRange(0, 2).Draw(t, "routine") / 2
	c.J[1] = rapid.IntRange(0, 1).Draw(t, "q")
	c.N = dimN(t, "n", 30, 0, 1, 2, 5)
	c.Ilo = rapid.IntRange(0, 1000).Draw(t, "ifst")
	c.Ihi = rapid.IntRange(0, 1000).Draw(t, "ilst")
	c.Pad = drawPads(t, 2)
	c.Cls = rapid.IntRange(0, 4).Draw(t, "mode")
	c.Seed = drawSeed(t)
	return c
}

func TestTrexc(t *testing.T) {
	vk.Run(t, "trexc", vk.Opts{Quick: 1200, Thorough: 14000}, drawTrexc, checkTrexc)
}

// ---- Dlanv2 -----------------------------------------------------------------------------

type s4Case struct {
	A, B, C, D vk.F
	Sc         int
}

func checkLanv2(c s4Case) *vk.Failure {
	a, b, cc, d := float64(c.A), float64(c.B), float64(c.C), float64(c.D)
	s := pow2(c.Sc)
	for _, v := range []float64{a, b, cc, d} {
		if v != 0 && math.Abs(v) < 1e-100 {
			s = 1
		}
	}
	vk.NonTrivial("lanv2", c.A, c.B, c.C, c.D, c.Sc)
	vk.Sample("lanv2", c)
	aa, bb, c2, dd, rt1r, rt1i, rt2r, rt2i, cs, sn := impl.Dlanv2(a*s, b*s, cc*s, d*s)
	aa, bb, c2, dd, rt1r, rt1i, rt2r, rt2i = aa/s, bb/s, c2/s, dd/s, rt1r/s, rt1i/s, rt2r/s, rt2i/s
	nrm := nrm2([]float64{a, b, cc, d})
	tol := 32*eps*nrm + 0x1p-1070/s // relative bound plus a few quanta of the subnormal range
	desc := fmt.Sprintf("Dlanv2(%v,%v,%v,%v) = [%v %v; %v %v] cs=%v sn=%v rt1=(%v,%v) rt2=(%v,%v)", a, b, cc, d, aa, bb, c2, dd, cs, sn, rt1r, rt1i, rt2r, rt2i)
	for _, v := range []float64{aa, bb, c2, dd, cs, sn, rt1r, rt1i, rt2r, rt2i} {
		if math.IsNaN(v) || math.IsInf(v, 0) {
			return vk.Failf("non-finite", "%s", desc)
		}
	}
	if math.Abs(cs*cs+sn*sn-1) > 32*eps {
		return vk.Failf("rotation-not-unit", "%s", desc)
	}
	if c2 != 0 && !(aa == dd && ((bb > 0 && c2 < 0) || (bb < 0 && c2 > 0))) {
		return vk.Failf("block-not-standard", "%s: cc != 0 needs aa == dd and bb*cc < 0", desc)
	}
	// [a b; c d] = [cs -sn; sn cs] [aa bb; cc dd] [cs sn; -sn cs]
	m11, m12 := cs*aa-sn*c2, cs*bb-sn*dd
	m21, m22 := sn*aa+cs*c2, sn*bb+cs*dd
	r11, r12 := m11*cs-m12*sn, m11*sn+m12*cs
	r21, r22 := m21*cs-m22*sn, m21*sn+m22*cs
	if math.Abs(r11-a) > tol || math.Abs(r12-b) > tol || math.Abs(r21-cc) > tol || math.Abs(r22-d) > tol {
		return vk.Failf("factorisation", "%s: R S Rᵀ = [%v %v; %v %v]", desc, r11, r12, r21, r22)
	}
	if rt1r != aa || rt2r != dd {
		return vk.Failf("eigenvalue-real-parts", "%s", desc)
	}
	if c2 == 0 {
		if rt1i != 0 || rt2i != 0 {
			return vk.Failf("eigenvalue-imag-parts", "%s: cc == 0 but imaginary parts non-zero", desc)
		}
	} else {
		want := math.Sqrt(math.Abs(bb)) * math.Sqrt(math.Abs(c2))
		if !(math.Abs(rt1i-want) <= 8*eps*want) || rt2i != -rt1i || !(rt1i > 0) {
			return vk.Failf("eigenvalue-imag-parts", "%s: expected +-%v", desc, want)
		}
	}
	return nil
}

func TestLanv2(t *testing.T) {
	vk.Run(t, "lanv2", vk.Opts{Quick: 4000, Thorough: 300000, NoCrumb: true}, func(t *rapid.T) s4Case {
		g := vk.FiniteGen()
		c := s4Case{A: vk.F(g.Draw(t, "a")), B: vk.F(g.Draw(t, "b")), C: vk.F(g.Draw(t, "c")), D: vk.F(g.Draw(t, "d"))}
		switch rapid.IntRange(0, 9).Draw(t, "special") {
		case 0:
			c.D = c.A
		case 1:
			c.D = c.A
			c.C = vk.F(-float64(c.B))
		case 2:
			c.C = vk.F(float64(c.C) * 1e-14)
		case 3:
			c.D = vk.F(float64(c.A) * (1 + 1e-15))
		case 4:
			c.B = vk.F(float64(c.B) * 1e-14)
		}
		c.Sc = rapid.SampledFrom([]int{0, 0, 400, -400}).Draw(t, "sc")
		return c
	}, checkLanv2)
}

// ---- Dlaqr5 ------------------------------------------------------------------------

// fields: J[0] wantt, J[1] wantz (0 no, 1 identity start, 2 orthogonal start), J[2]
// kacc22, J[3] number of shift pairs; N, Ilo/Ihi -> ktop/kbot, K -> nv, P -> nh
// (0: n), Pad[0] ldh, Pad[1] ldz, Pad[2..4] ldu/ldwv/ldwh, Cls
//
// One multi-shift sweep is an orthogonal similarity: with U the accumulated
// transformation, H' = UᵀHU stays upper Hessenberg and Z' = ZU. Reaches the
// "accumulate reflections" code (kacc22 = 1, 2), which Dhseqr never selects
// because Iparmq returns at most 4 shifts.
func checkLaqr5(c kase) *vk.Failure {
	n := c.N
	rng := c.rng(17)
	ktop, kbot := c.ilohi(n)
	if kbot-ktop < 3 && n >= 4 { // a sweep needs room for a bulge
		ktop, kbot = 0, n-1
	}
	h0 := makeHess(c.Cls, n, ktop, kbot, rng)
	wantt, wantz := c.J[0] == 1, c.J[1] != 0
	ns := 2 * max(1, c.J[3])
	sr, si := make([]float64, ns), make([]float64, ns)
	for i := 0; i < ns; i += 2 {
		if rng.Intn(2) == 0 {
			x, y := rng.Finite(), 0.25+math.Abs(rng.Finite())
			sr[i], si[i], sr[i+1], si[i+1] = x, y, x, -y
		} else {
			sr[i], sr[i+1] = rng.Finite(), rng.Finite()
		}
	}
	ldh := n + c.Pad[0]
	h := newPmat("h", n, n, ldh, rng, false).fill(h0)
	z0 := eye(n)
	if c.J[1] == 2 {
		z0 = randOrth(n, rng)
	}
	zr, ldz := 0, 1+c.Pad[1]
	if wantz {
		zr, ldz = n, n+c.Pad[1]
	}
	z := newPmat("z", zr, zr, ldz, rng, false)
	if wantz {
		z.fill(z0)
	}
	nv, nh := c.K, c.P
	if nv <= 0 || nv > n {
		nv = n
	}
	if nh <= 0 || nh > n {
		nh = n
	}
	srv := newPvec("sr", ns, rng, true).fillVec(sr)
	siv := newPvec("si", ns, rng, true).fillVec(si)
	v := newPmat("v", ns/2, 3, 3+c.Pad[2]%2, rng, false)
	ldu, ldwv, ldwh := 2*ns+c.Pad[2], 2*ns+c.Pad[3], nh+c.Pad[4]
	u := newPmat("u", 2*ns, 2*ns, ldu, rng, false)
	wv := newPmat("wv", nv, 2*ns, ldwv, rng, false)
	wh := newPmat("wh", 2*ns, nh, ldwh, rng, false)
	if f := runPlain(func() {
		impl.Dlaqr5(wantt, wantz, c.J[2], n, ktop, kbot, ns, srv.data, siv.data, h.data, ldh, 0, n-1, z.data, ldz,
			v.data, v.ld, u.data, ldu, nv, wv.data, ldwv, nh, wh.data, ldwh)
	}, h, z, srv, siv, v, u, wv, wh); f != nil {
		return f
	}
	vk.Class(fmt.Sprintf("laqr5:wantt=%v,wantz=%v,kacc22=%d", wantt, wantz, c.J[2]))
	vk.Class(fmt.Sprintf("laqr5:shifts=%d", ns))
	vk.Sample("laqr5", c)
	nonTrivial(c, n, h0, wantz, anyPad(c.Pad, 2), false)
	if !wantz {
		if f := z.same("unrequested-z-written"); f != nil {
			return f
		}
	}
	if f := firstFail(h.elemsFinite(), z.elemsFinite()); f != nil {
		return f
	}
	h1 := h.dense()
	nh0 := frob(h0)
	tol := cN * float64(n) * eps * nh0
	var low float64
	for i := ktop; i <= kbot; i++ {
		for j := ktop; j+1 < i; j++ {
			low = math.Hypot(low, h1.d[i*n+j])
		}
	}
	if !(low <= tol) {
		return vk.Failf("sweep-leaves-bulge", "Dlaqr5(kacc22=%d) n=%d ktop=%d kbot=%d shifts=%d: norm of the block below its first subdiagonal is %.3g > %.3g", c.J[2], n, ktop, kbot, ns, low, tol)
	}
	blk := func(a mat) mat { return a.sub(ktop, kbot+1, ktop, kbot+1) }
	if wantz {
		z1 := z.dense()
		if eo := orthCols(z1); !(eo <= cN*float64(n)*eps) {
			return vk.Failf("z-not-orthogonal", "Dlaqr5(kacc22=%d) n=%d: ||ZᵀZ-I||_F = %.3g", c.J[2], n, eo)
		}
		uu := mul(z0.T(), z1) // the accumulated sweep transformation
		t := mul(mul(uu.T(), h0), uu)
		if wantt {
			hh := h1.clone()
			for i := 0; i < n; i++ {
				for j := 0; j+1 < i; j++ {
					hh.d[i*n+j] = 0
				}
			}
			if r := frob(sub(t, hh)); !(r <= tol) {
				return vk.Failf("similarity-residual", "Dlaqr5(wantt,wantz,kacc22=%d) n=%d ktop=%d kbot=%d shifts=%d nv=%d nh=%d: ||UᵀHU - H'||_F = %.3g > %.3g", c.J[2], n, ktop, kbot, ns, nv, nh, r, tol)
			}
		} else {
			hb := blk(h1)
			for i := 0; i < hb.r; i++ {
				for j := 0; j+1 < i; j++ {
					hb.d[i*hb.c+j] = 0
				}
			}
			if r := frob(sub(blk(t), hb)); !(r <= tol) {
				return vk.Failf("block-similarity-residual", "Dlaqr5(wantz,kacc22=%d) n=%d ktop=%d kbot=%d shifts=%d: ||(UᵀHU - H')[block]||_F = %.3g > %.3g", c.J[2], n, ktop, kbot, ns, r, tol)
			}
		}
	} else {
		// without Z: orthogonal invariants of the active block
		b0, b1 := blk(h0), blk(h1)
		for i := 0; i < b1.r; i++ {
			for j := 0; j+1 < i; j++ {
				b1.d[i*b1.c+j] = 0
			}
		}
		if d := math.Abs(frob(b0) - frob(b1)); !(d <= tol) {
			return vk.Failf("block-norm", "Dlaqr5(kacc22=%d) n=%d: Frobenius norm of the active block changed by %.3g > %.3g", c.J[2], n, d, tol)
		}
		var t0, t1 vk.DD
		for i := 0; i < b0.r; i++ {
			t0.Add(b0.d[i*b0.c+i])
			t1.Add(b1.d[i*b1.c+i])
		}
		if d := math.Abs(t0.Float() - t1.Float()); !(d <= tol) {
			return vk.Failf("block-trace", "Dlaqr5(kacc22=%d) n=%d: trace of the active block changed by %.3g > %.3g", c.J[2], n, d, tol)
		}
	}
	return nil
}

func drawLaqr5(t *rapid.T) kase {
	c := kase{R: "Dlaqr5"}
	c.J[0] = rapid.IntRange(0, 1).Draw(t, "wantt")
	c.J[1] = rapid.IntRange(0, 2).Draw(t, "wantz")
	c.J[2] = rapid.IntRange(0, 2).Draw(t, "kacc22")
	c.J[3] = rapid.IntRange(1, 6).Draw(t, "pairs")
	c.N = rapid.IntRange(4, 48).Draw(t, "n")
	c.Ilo, c.Ihi = drawIloIhi(t)
	c.K = rapid.SampledFrom([]int{0, 0, 1, 2, 3, 7}).Draw(t, "nv")
	c.P = rapid.SampledFrom([]int{0, 0, 1, 2, 3, 7}).Draw(t, "nh")
	c.Pad = drawPads(t, 5)
	c.Cls = rapid.SampledFrom([]int{clsGauss, clsGauss, clsHessenberg, clsSymRepeated, clsCompanion, clsOrthogonal, clsGraded}).Draw(t, "cls")
	c.Seed = drawSeed(t)
	return c
}

func TestLaqr5(t *testing.T) {
	vk.Run(t, "laqr5", vk.Opts{Quick: 800, Thorough: 12000}, drawLaqr5, checkLaqr5)
}
