package c03

import (
	"fmt"
	"testing"
	"gonum.org/v1/gonum/lapack"
)

func TestDbgP3(t *testing.T) {
	c := kase{M: 4, N: 5, P: 5, Cls: 6, Seed: 20}
	rng := c.rng(14)
	a0, b0 := genPair(c.Cls, 4, 5, 5, rng)
	m, p, n := 4, 5, 5
	a := a0.clone(); b := b0.clone()
	iwork := make([]int, n); tau := make([]float64, n); work := make([]float64, 200)
	tola := 5*frob(a0)*2*eps; tolb := 5*frob(b0)*2*eps
	u := newMat(m,m); v := newMat(p,p); q := newMat(n,n)
	k, l := impl.Dggsvp3(lapack.GSVDU, lapack.GSVDV, lapack.GSVDQ, m, p, n, a.d, n, b.d, n, tola, tolb, u.d, m, v.d, p, q.d, n, iwork, tau, work, 200)
	fmt.Println(k, l, orthCols(u), orthCols(v), orthCols(q))
	w := mul(mul(v.T(), b0), q)
	fmt.Println("VtBQ"); for i:=0;i<p;i++ { fmt.Printf("%.4f\n", w.d[i*n:(i+1)*n]) }
	fmt.Println("Bout"); for i:=0;i<p;i++ { fmt.Printf("%.4f\n", b.d[i*n:(i+1)*n]) }
	w = mul(mul(u.T(), a0), q)
	fmt.Println("UtAQ"); for i:=0;i<m;i++ { fmt.Printf("%.4f\n", w.d[i*n:(i+1)*n]) }
	fmt.Println("Aout"); for i:=0;i<m;i++ { fmt.Printf("%.4f\n", a.d[i*n:(i+1)*n]) }
}
