// Package c03 checks property C03: LAPACK eigenvalue, Schur and singular value
// routines satisfy their identities.
package c03

import (
	"testing"

	"verifharness/vk"
)

func TestMain(m *testing.M) { vk.Main(m, "C03") }
