package c07mat

import (
	"fmt"
	"math"
	"sort"
	"testing"

	"gonum.org/v1/gonum/mat"
	"pgregory.net/rapid"
	"verifharness/vk"
)

// ecase is one degenerate-but-documented-valid scenario.
type ecase struct {
	Name string `json:"name"`
	// Step selects the one step of the scenario whose outcome is judged; the
	// other steps run too (they establish the state) but are not judged, so
	// that a known finding in one step does not hide the steps behind it.
	Step string `json:"step"`
	N    int    `json:"n"` // size parameter 1..5
	M    int    `json:"m"` // second size parameter 1..5
	Seed uint64 `json:"seed"`
}

// step is one call inside a scenario with its expected outcome class.
type expect int

const (
	returns expect = iota // documented valid: must return
	panics                // documented invalid: must end in a package panic
	noFault               // the documentation is silent: anything but a runtime fault
	isTrue                // a boolean fact that must hold (evaluated by the step itself)
)

type ectx struct {
	c      ecase
	rng    *vk.SplitMix
	fail   *vk.Failure
	survey bool // development: record every failure in all and go on
	all    []*vk.Failure
	labels []string // every step label seen, in order
	seen   map[string]bool
	cur    string
}

func (x *ectx) report(f *vk.Failure) {
	if x.survey {
		x.all = append(x.all, f)
		return
	}
	if x.c.Step != "" && x.c.Step != x.cur {
		return
	}
	if x.fail == nil {
		x.fail = f
	}
}

func (x *ectx) label(l string) {
	x.cur = l
	if x.seen == nil {
		x.seen = map[string]bool{}
	}
	if !x.seen[l] {
		x.seen[l] = true
		x.labels = append(x.labels, l)
	}
}

func (x *ectx) do(label string, want expect, f func()) {
	if x.fail != nil {
		return
	}
	x.label(label)
	res := vk.Call(f)
	x.cur = label
	key := x.c.Name + "/" + label
	switch {
	case res.Outcome == vk.RuntimeFault:
		x.report(vk.Failf("runtime-fault/"+key, "n=%d m=%d: %s", x.c.N, x.c.M, res.Text))
	case want == returns && res.Outcome != vk.Returned:
		x.report(vk.Failf("valid-call-panicked/"+key, "n=%d m=%d: %s", x.c.N, x.c.M, res.Text))
	case want == panics && res.Outcome != vk.PackagePanic:
		x.report(vk.Failf("invalid-call-returned/"+key, "n=%d m=%d", x.c.N, x.c.M))
	}
}

func (x *ectx) check(label string, ok bool, format string, args ...any) {
	if x.cur != label {
		x.label(label)
	}
	if x.fail == nil && !ok {
		x.report(vk.Failf("wrong/"+x.c.Name+"/"+label, "n=%d m=%d: "+format, append([]any{x.c.N, x.c.M}, args...)...))
	}
}

func (x *ectx) data(n int) []float64 {
	d := make([]float64, n)
	for i := range d {
		d[i] = x.rng.Finite()
		if d[i] == 0 {
			d[i] = 0.25
		}
	}
	return d
}

func (x *ectx) dense(r, c int) *mat.Dense { return mat.NewDense(r, c, x.data(r*c)) }
func (x *ectx) vec(n int) *mat.VecDense   { return mat.NewVecDense(n, x.data(n)) }
func (x *ectx) sym(n int) *mat.SymDense   { return mat.NewSymDense(n, x.data(n*n)) }
func (x *ectx) tri(n int, k mat.TriKind) *mat.TriDense {
	return mat.NewTriDense(n, k, x.data(n*n))
}

func sameMat(a, b mat.Matrix) bool {
	ar, ac := a.Dims()
	br, bc := b.Dims()
	if ar != br || ac != bc {
		return false
	}
	for i := 0; i < ar; i++ {
		for j := 0; j < ac; j++ {
			if math.Float64bits(a.At(i, j)) != math.Float64bits(b.At(i, j)) {
				return false
			}
		}
	}
	return true
}

type emptier interface {
	mat.Matrix
	IsEmpty() bool
	Reset()
}

var scenarios = map[string]func(x *ectx){
	// The zero value of every matrix type is empty: "The zero-value of a matrix
	// is empty"; IsEmpty "must be the case that m.Dims() returns zeros".
	"zero-value": func(x *ectx) {
		zs := map[string]emptier{"Dense": &mat.Dense{}, "VecDense": &mat.VecDense{}, "SymDense": &mat.SymDense{}, "TriDense": &mat.TriDense{},
			"BandDense": &mat.BandDense{}, "SymBandDense": &mat.SymBandDense{}, "TriBandDense": &mat.TriBandDense{}, "DiagDense": &mat.DiagDense{}, "Tridiag": &mat.Tridiag{}}
		names := make([]string, 0, len(zs))
		for k := range zs {
			names = append(names, k)
		}
		sort.Strings(names)
		for _, name := range names {
			z := zs[name]
			x.do(name+".IsEmpty", returns, func() { x.check(name+".IsEmpty", z.IsEmpty(), "zero value is not empty") })
			x.do(name+".Dims", returns, func() {
				r, c := z.Dims()
				x.check(name+".Dims", r == 0 && c == 0, "zero value has dims %dx%d", r, c)
			})
			x.do(name+".Reset", returns, func() { z.Reset() })
			x.do(name+".IsEmpty-after-Reset", returns, func() { x.check(name+".IsEmpty-after-Reset", z.IsEmpty(), "not empty after Reset") })
			x.do(name+".T", returns, func() {
				r, c := z.T().Dims()
				x.check(name+".T.Dims", r == 0 && c == 0, "transpose of the zero value has dims %dx%d", r, c)
			})
			x.do(name+".At(0,0)", panics, func() { z.At(0, 0) })
			x.do(name+".T.At(0,0)", panics, func() { z.T().At(0, 0) })
			x.do(name+".Equal", returns, func() { x.check(name+".Equal", mat.Equal(z, z), "empty matrix is not Equal to itself") })
			// "will panic with ErrZeroLength if the matrix has zero size"
			x.do(name+".Max", panics, func() { mat.Max(z) })
			x.do(name+".Min", panics, func() { mat.Min(z) })
			x.do(name+".Sum", panics, func() { mat.Sum(z) })
			x.do(name+".Norm", panics, func() { mat.Norm(z, 2) })
			x.do(name+".Trace", panics, func() { mat.Trace(z) })
			// the documentation does not say what these do on an empty receiver
			if zz, ok := z.(interface{ Zero() }); ok {
				x.do(name+".Zero", noFault, zz.Zero)
			}
			if dv, ok := z.(interface{ DiagView() mat.Diagonal }); ok {
				x.do(name+".DiagView", noFault, func() { dv.DiagView() })
			}
			// copying from an empty source copies nothing
			x.do(name+".Dense.Copy(empty)", returns, func() {
				d := x.dense(x.c.N, x.c.M)
				r, c := d.Copy(z)
				x.check(name+".Copy", r == 0 && c == 0, "Copy from an empty matrix reports %dx%d", r, c)
			})
			// an empty operand has a zero dimension: the size-restricted methods refuse it (ErrZeroLength)
			x.do(name+".Dense.Scale(empty)", panics, func() { (&mat.Dense{}).Scale(2, z) })
			x.do(name+".Dense.Mul(empty)", panics, func() { (&mat.Dense{}).Mul(z, z) })
			x.do(name+".Dense.Add(empty)", panics, func() { (&mat.Dense{}).Add(z, z) })
			x.do(name+".Dense.CloneFrom(empty)", noFault, func() { (&mat.Dense{}).CloneFrom(z) })
			x.do(name+".DenseCopyOf(empty)", noFault, func() { mat.DenseCopyOf(z) })
		}
	},
	// "The Reset method can be used to revert a matrix to an empty matrix";
	// an emptied receiver takes any shape, and computes what a fresh one computes.
	"reset-reuse-dense": func(x *ectx) {
		n, m := x.c.N, x.c.M
		a, b := x.dense(n, m), x.dense(m, n)
		recv := x.dense(1+x.rng.Intn(5), 1+x.rng.Intn(5))
		x.do("Reset", returns, recv.Reset)
		x.do("IsEmpty", returns, func() {
			r, c := recv.Dims()
			x.check("IsEmpty", recv.IsEmpty() && r == 0 && c == 0, "after Reset: IsEmpty=%v dims %dx%d", recv.IsEmpty(), r, c)
		})
		x.do("At-after-Reset", panics, func() { recv.At(0, 0) })
		x.do("Slice-after-Reset", panics, func() { recv.Slice(0, 1, 0, 1) }) // "An empty matrix can not be sliced"
		x.do("Mul", returns, func() { recv.Mul(a, b) })
		var fresh mat.Dense
		x.do("Mul-fresh", returns, func() { fresh.Mul(a, b) })
		x.do("same", returns, func() { x.check("same", sameMat(recv, &fresh), "Reset receiver and fresh receiver differ") })
		// non-empty now: a different shape is refused, the same shape is accepted
		x.do("Mul-wrong-shape", panics, func() { recv.Mul(b, x.dense(n, n+1)) })
		x.do("Mul-again", returns, func() { recv.Mul(a, b) })
		x.do("Reset2", returns, recv.Reset)
		x.do("ReuseAs", returns, func() { recv.ReuseAs(m, n) })
		x.do("ReuseAs-zeroed", returns, func() {
			x.check("ReuseAs-zeroed", sameMat(recv, mat.NewDense(m, n, nil)), "ReuseAs: \"The backing data is zero on return\" does not hold")
		})
		x.do("ReuseAs-nonempty", panics, func() { recv.ReuseAs(m, n) })
	},
	"reset-reuse-vec": func(x *ectx) {
		n, m := x.c.N, x.c.M
		a, b := x.dense(n, m), x.vec(m)
		recv := x.vec(1 + x.rng.Intn(6))
		x.do("Reset", returns, recv.Reset)
		x.do("IsEmpty", returns, func() {
			r, c := recv.Dims()
			x.check("IsEmpty", recv.IsEmpty() && r == 0 && c == 0 && recv.Len() == 0, "after Reset: IsEmpty=%v dims %dx%d len %d", recv.IsEmpty(), r, c, recv.Len())
		})
		x.do("AtVec-after-Reset", panics, func() { recv.AtVec(0) })
		x.do("SliceVec-after-Reset", panics, func() { recv.SliceVec(0, 1) })
		x.do("MulVec", returns, func() { recv.MulVec(a, b) })
		var fresh mat.VecDense
		x.do("MulVec-fresh", returns, func() { fresh.MulVec(a, b) })
		x.do("same", returns, func() { x.check("same", sameMat(recv, &fresh), "Reset receiver and fresh receiver differ") })
		x.do("Reset2", returns, recv.Reset)
		x.do("ReuseAsVec", returns, func() { recv.ReuseAsVec(m) })
		x.do("ReuseAsVec-zeroed", returns, func() {
			x.check("ReuseAsVec-zeroed", sameMat(recv, mat.NewVecDense(m, nil)), "ReuseAsVec: backing data not zero on return")
		})
		x.do("ReuseAsVec-nonempty", panics, func() { recv.ReuseAsVec(m) })
	},
	"reset-reuse-sym": func(x *ectx) {
		n := x.c.N
		a, b := x.sym(n), x.sym(n)
		recv := x.sym(1 + x.rng.Intn(5))
		x.do("Reset", returns, recv.Reset)
		x.do("IsEmpty", returns, func() {
			x.check("IsEmpty", recv.IsEmpty() && recv.SymmetricDim() == 0, "after Reset: IsEmpty=%v n=%d", recv.IsEmpty(), recv.SymmetricDim())
		})
		x.do("At-after-Reset", panics, func() { recv.At(0, 0) })
		x.do("AddSym", returns, func() { recv.AddSym(a, b) })
		var fresh mat.SymDense
		x.do("AddSym-fresh", returns, func() { fresh.AddSym(a, b) })
		x.do("same", returns, func() { x.check("same", sameMat(recv, &fresh), "Reset receiver and fresh receiver differ") })
		x.do("Reset2", returns, recv.Reset)
		x.do("ReuseAsSym", returns, func() { recv.ReuseAsSym(x.c.M) })
		x.do("ReuseAsSym-zeroed", returns, func() {
			x.check("ReuseAsSym-zeroed", sameMat(recv, mat.NewSymDense(x.c.M, nil)), "ReuseAsSym: backing data not zero on return")
		})
	},
	"reset-reuse-tri": func(x *ectx) {
		n := x.c.N
		kind := mat.TriKind(x.rng.Intn(2) == 0)
		a := x.tri(n, kind)
		recv := x.tri(1+x.rng.Intn(5), x.rng.Intn(2) == 0)
		x.do("Reset", returns, recv.Reset)
		x.do("IsEmpty", returns, func() {
			r, c := recv.Dims()
			x.check("IsEmpty", recv.IsEmpty() && r == 0 && c == 0, "after Reset: IsEmpty=%v dims %dx%d", recv.IsEmpty(), r, c)
		})
		x.do("At-after-Reset", panics, func() { recv.At(0, 0) })
		x.do("ScaleTri", returns, func() { recv.ScaleTri(2, a) })
		var fresh mat.TriDense
		x.do("ScaleTri-fresh", returns, func() { fresh.ScaleTri(2, a) })
		x.do("same", returns, func() { x.check("same", sameMat(recv, &fresh), "Reset receiver and fresh receiver differ") })
		x.do("Reset2", returns, recv.Reset)
		x.do("ReuseAsTri", returns, func() { recv.ReuseAsTri(x.c.M, !kind) })
		x.do("ReuseAsTri-zeroed", returns, func() {
			x.check("ReuseAsTri-zeroed", sameMat(recv, mat.NewTriDense(x.c.M, !kind, nil)), "ReuseAsTri: backing data not zero on return")
		})
	},
	// "An empty matrix can not be sliced ..., but can be expanded using its Grow method".
	"grow": func(x *ectx) {
		n, m := x.c.N, x.c.M
		var z mat.Dense
		var g mat.Matrix
		x.do("empty.Grow", returns, func() { g = z.Grow(n, m) })
		x.do("empty.Grow.Dims", returns, func() {
			x.check("empty.Grow.Dims", sameMat(g, mat.NewDense(n, m, nil)), "Grow of an empty matrix is not an n×m zero matrix")
		})
		x.do("empty.Grow(0,0)", returns, func() {
			x.check("empty.Grow(0,0)", z.Grow(0, 0) == mat.Matrix(&z), "Grow(0,0) does not return the receiver")
		})
		d := x.dense(n, m)
		want := mat.DenseCopyOf(d)
		x.do("Grow", returns, func() { g = d.Grow(1, 2) })
		x.do("Grow.keeps", returns, func() {
			r, c := g.Dims()
			x.check("Grow.dims", r == n+1 && c == m+2, "grown dims %dx%d", r, c)
			x.check("Grow.keeps", sameMat(g.(*mat.Dense).Slice(0, n, 0, m), want) && sameMat(d, want), "Grow changed the existing elements or the receiver")
		})
		// growing back into the capacity of a view is allowed
		v := d.Slice(0, 1, 0, 1).(*mat.Dense)
		x.do("view.Grow-within-cap", returns, func() { g = v.Grow(n-1, m-1) })
		x.do("view.Grow-within-cap.same", returns, func() {
			if n > 1 || m > 1 {
				x.check("view.Grow-within-cap.same", sameMat(g, want), "growing a view inside its capacity does not show the parent's elements")
			}
		})
		var zs mat.SymDense
		x.do("empty.GrowSym", returns, func() {
			gs := zs.GrowSym(n)
			x.check("empty.GrowSym", sameMat(gs, mat.NewSymDense(n, nil)), "GrowSym of an empty matrix is not an n×n zero matrix")
		})
		s := x.sym(n)
		x.do("GrowSym", returns, func() {
			gs := s.GrowSym(m)
			x.check("GrowSym", gs.SymmetricDim() == n+m && sameMat(gs.(*mat.SymDense).SliceSym(0, n), s), "GrowSym changed the existing elements")
		})
	},
	// Slices up to the capacity, single-element slices and slices of slices.
	"slice-extremes": func(x *ectx) {
		n, m := x.c.N, x.c.M
		d := x.dense(n, m)
		x.do("full", returns, func() { x.check("full", sameMat(d.Slice(0, n, 0, m), d), "full slice differs") })
		x.do("last-element", returns, func() {
			s := d.Slice(n-1, n, m-1, m)
			x.check("last-element", s.At(0, 0) == d.At(n-1, m-1), "last element slice reads %v", s.At(0, 0))
		})
		v := d.Slice(n-1, n, m-1, m).(*mat.Dense)
		x.do("view-beyond-cap", panics, func() { v.Slice(0, 2, 0, 1) })
		x.do("view-beyond-cap-cols", panics, func() { v.Slice(0, 1, 0, 2) })
		w := d.Slice(0, 1, 0, 1).(*mat.Dense)
		x.do("view-to-cap", returns, func() {
			x.check("view-to-cap", sameMat(w.Slice(0, n, 0, m), d), "slice of a view up to its capacity differs from the parent")
		})
		vec := x.vec(n)
		x.do("SliceVec-full", returns, func() { x.check("SliceVec-full", sameMat(vec.SliceVec(0, n), vec), "full SliceVec differs") })
		x.do("SliceVec-last", returns, func() { vec.SliceVec(n-1, n) })
		x.do("SliceVec-of-view-to-cap", returns, func() {
			x.check("SliceVec-of-view-to-cap", sameMat(vec.SliceVec(0, 1).(*mat.VecDense).SliceVec(0, n), vec), "SliceVec of a view up to its capacity differs")
		})
		s := x.sym(n)
		x.do("SliceSym-full", returns, func() { x.check("SliceSym-full", sameMat(s.SliceSym(0, n), s), "full SliceSym differs") })
		x.do("SliceSym-last", returns, func() { s.SliceSym(n-1, n) })
		t := x.tri(n, x.rng.Intn(2) == 0)
		x.do("SliceTri-full", returns, func() { x.check("SliceTri-full", sameMat(t.SliceTri(0, n), t), "full SliceTri differs") })
		x.do("SliceTri-last", returns, func() { t.SliceTri(n-1, n) })
	},
	// Copy with partial or empty overlap: "it copies as much as the overlap between the two matrices".
	"copy-overlap": func(x *ectx) {
		n, m := x.c.N, x.c.M
		src := x.dense(n, m)
		dst := x.dense(m, n)
		x.do("Dense.Copy", returns, func() {
			r, c := dst.Copy(src)
			x.check("Dense.Copy", r == min(n, m) && c == min(n, m), "copied %dx%d", r, c)
		})
		x.do("Dense.Copy(T)", returns, func() { dst.Copy(src.T()) })
		x.do("Dense.Copy(self)", returns, func() { dst.Copy(dst) })
		v, w := x.vec(n), x.vec(m)
		x.do("CopyVec", returns, func() { x.check("CopyVec", v.CopyVec(w) == min(n, m), "CopyVec count") })
		x.do("Dense.Copy(vec)", returns, func() { dst.Copy(v) })
		x.do("Dense.Copy(vec.T)", returns, func() { dst.Copy(v.T()) })
		s, s2 := x.sym(n), x.sym(m)
		x.do("CopySym", returns, func() { x.check("CopySym", s.CopySym(s2) == min(n, m), "CopySym count") })
		t := x.tri(n, x.rng.Intn(2) == 0)
		x.do("TriDense.Copy(square)", returns, func() { t.Copy(x.dense(m, m)) })
		x.do("TriDense.Copy(tri)", returns, func() { t.Copy(x.tri(m, x.rng.Intn(2) == 0)) })
		x.do("TriDense.Copy(sym)", returns, func() { t.Copy(s2) })
		// non-square sources: only the overlap with the receiver's triangle is copied
		for _, kind := range []mat.TriKind{mat.Upper, mat.Lower} {
			kind := kind
			x.do("TriDense.Copy(non-square)", returns, func() { x.tri(n+1, kind).Copy(x.dense(n+1, 1)) })
			x.do("TriDense.Copy(non-square)", returns, func() { x.tri(n+1, kind).Copy(x.dense(1, n+1)) })
			x.do("TriDense.Copy(non-square)", returns, func() { x.tri(n+1, kind).Copy(plainMat{x.dense(n+1, 1)}) })
			x.do("TriDense.Copy(non-square)", returns, func() { x.tri(n+1, kind).Copy(plainMat{x.dense(1, n+1)}) })
		}
	},
	// Vector arguments that do not expose a raw vector are valid Vectors.
	"plain-vector-operands": func(x *ectx) {
		n := x.c.N
		pv := func() mat.Vector { return plainVec{x.vec(n)} }
		spd := mat.NewSymDense(n, nil)
		for i := 0; i < n; i++ {
			spd.SetSym(i, i, float64(n)+2)
			for j := i + 1; j < n; j++ {
				spd.SetSym(i, j, 0.5)
			}
		}
		var ch mat.Cholesky
		x.do("Cholesky.Factorize", returns, func() { x.check("Cholesky.Factorize", ch.Factorize(spd), "SPD matrix rejected") })
		x.do("Cholesky.SymRankOne", returns, func() { var c2 mat.Cholesky; c2.SymRankOne(&ch, 0.5, pv()) })
		x.do("Cholesky.SymRankOne", returns, func() { var c2 mat.Cholesky; c2.SymRankOne(&ch, -1e-3, pv()) })
		x.do("Cholesky.SymRankOne", returns, func() { var c2 mat.Cholesky; c2.SymRankOne(&ch, 0, pv()) })
		x.do("Cholesky.SolveVecTo", returns, func() { var v mat.VecDense; _ = ch.SolveVecTo(&v, pv()) })
		x.do("Cholesky.ExtendVecSym", returns, func() { var c2 mat.Cholesky; c2.ExtendVecSym(&ch, plainVec{x.vec(n + 1)}) })
		var lu mat.LU
		x.do("LU.Factorize", returns, func() { lu.Factorize(spd) })
		x.do("LU.SolveVecTo", returns, func() { var v mat.VecDense; _ = lu.SolveVecTo(&v, false, pv()) })
		x.do("LU.RankOne", returns, func() { var l2 mat.LU; l2.RankOne(&lu, 0.5, pv(), pv()) })
		x.do("Dense.RankOne", returns, func() { var d mat.Dense; d.RankOne(spd, 2, pv(), pv()) })
		x.do("Dense.Outer", returns, func() { var d mat.Dense; d.Outer(2, pv(), pv()) })
		x.do("SymDense.SymRankOne", returns, func() { var s mat.SymDense; s.SymRankOne(spd, 2, pv()) })
		x.do("SymDense.RankTwo", returns, func() { s := mat.NewSymDense(n, nil); s.RankTwo(spd, 2, pv(), pv()) })
		x.do("VecDense.ops", returns, func() {
			var v mat.VecDense
			v.AddVec(pv(), pv())
			v.SubVec(pv(), x.vec(n))
			v.MulElemVec(x.vec(n), pv())
			v.DivElemVec(pv(), pv())
			v.ScaleVec(2, pv())
			v.AddScaledVec(pv(), 0.5, pv())
			v.MulVec(spd, pv())
			_ = v.SolveVec(spd, pv())
			v.CopyVec(pv())
			v.CloneFromVec(pv())
			mat.Dot(pv(), pv())
			mat.Inner(pv(), spd, pv())
		})
		x.do("QR.SolveVecTo", returns, func() { var qr mat.QR; qr.Factorize(spd); var v mat.VecDense; _ = qr.SolveVecTo(&v, false, pv()) })
		x.do("LQ.SolveVecTo", returns, func() { var lq mat.LQ; lq.Factorize(spd); var v mat.VecDense; _ = lq.SolveVecTo(&v, true, pv()) })
		x.do("SVD.SolveVecTo", returns, func() {
			var svd mat.SVD
			svd.Factorize(spd, mat.SVDFull)
			var v mat.VecDense
			svd.SolveVecTo(&v, pv(), n)
		})
		x.do("Tridiag.SolveVecTo", returns, func() {
			td := mat.NewTridiag(n, nil, nil, nil)
			for i := 0; i < n; i++ {
				td.SetBand(i, i, 3)
			}
			var v mat.VecDense
			_ = td.SolveVecTo(&v, false, pv())
			v.Reset()
			td.MulVecTo(&v, true, pv())
		})
		x.do("BandDense.MulVecTo", returns, func() { var v mat.VecDense; mat.NewBandDense(n, n, 0, n-1, nil).MulVecTo(&v, false, pv()) })
		x.do("SymBandDense.MulVecTo", returns, func() { var v mat.VecDense; mat.NewSymBandDense(n, n-1, nil).MulVecTo(&v, false, pv()) })
	},
	// Every sibling of RankTwo (RankOne, SymRankOne, SymRankK) accepts an empty
	// receiver: "Empty matrices are used to allow the destination of a matrix
	// operation to assume the correct size automatically."
	"empty-receiver-rank-updates": func(x *ectx) {
		n := x.c.N
		a := x.sym(n)
		x.do("Dense.RankOne", returns, func() { var d mat.Dense; d.RankOne(x.dense(n, x.c.M), 2, x.vec(n), x.vec(x.c.M)) })
		x.do("SymDense.SymRankOne", returns, func() { var s mat.SymDense; s.SymRankOne(a, 2, x.vec(n)) })
		x.do("SymDense.SymRankK", returns, func() { var s mat.SymDense; s.SymRankK(a, 2, x.dense(n, x.c.M)) })
		x.do("SymDense.SymOuterK", returns, func() { var s mat.SymDense; s.SymOuterK(2, x.dense(n, x.c.M)) })
		x.do("SymDense.RankTwo", returns, func() { var s mat.SymDense; s.RankTwo(a, 2, x.vec(n), x.vec(n)) })
		// a of another size than x and y: the formula has no meaning; the documentation is silent
		x.do("SymDense.RankTwo(larger-a)", noFault, func() { mat.NewSymDense(n, nil).RankTwo(x.sym(n+1), 2, x.vec(n), x.vec(n)) })
		x.do("SymDense.RankTwo(smaller-a)", noFault, func() { mat.NewSymDense(n+1, nil).RankTwo(x.sym(n), 2, x.vec(n+1), x.vec(n+1)) })
	},
	// CDense element access: the same contract as Dense.
	"cdense-index": func(x *ectx) {
		n, m := x.c.N, x.c.M
		c := mat.NewCDense(n, m, nil)
		x.do("sweep", returns, func() {
			for i := 0; i < n; i++ {
				for j := 0; j < m; j++ {
					c.Set(i, j, complex(float64(i), float64(j)))
					if c.At(i, j) != complex(float64(i), float64(j)) || c.H().At(j, i) != complex(float64(i), -float64(j)) {
						x.check("sweep", false, "CDense At/Set/H disagree at (%d,%d)", i, j)
					}
				}
			}
		})
		for _, ij := range [][2]int{{-1, 0}, {0, -1}, {n, 0}, {0, m}, {n, m}, {math.MinInt64, 0}, {0, math.MaxInt64}} {
			ij := ij
			lbl := fmt.Sprintf("(%s,%s)", idxName(ij[0], n), idxName(ij[1], m))
			x.do("At"+lbl, panics, func() { c.At(ij[0], ij[1]) })
			x.do("Set"+lbl, panics, func() { c.Set(ij[0], ij[1], 1) })
			x.do("H.At"+lbl, panics, func() { c.H().At(ij[1], ij[0]) })
		}
		x.do("NewCDense(0,1)", panics, func() { mat.NewCDense(0, 1, nil) })
		x.do("NewCDense(1,-1)", panics, func() { mat.NewCDense(1, -1, nil) })
		x.do("NewCDense(short)", panics, func() { mat.NewCDense(n, m, make([]complex128, n*m+1)) })
		x.do("CDense{}.IsEmpty", returns, func() { var z mat.CDense; x.check("CDense{}.IsEmpty", z.IsEmpty(), "zero CDense not empty") })
		x.do("CDense{}.At", panics, func() { var z mat.CDense; z.At(0, 0) })
	},
	// Constructors with nil data allocate zero matrices; 1×1 instances of every
	// type support the whole read-only interface.
	"one-by-one": func(x *ectx) {
		ms := map[string]mat.Matrix{
			"Dense": mat.NewDense(1, 1, nil), "VecDense": mat.NewVecDense(1, nil), "SymDense": mat.NewSymDense(1, nil),
			"TriDenseU": mat.NewTriDense(1, mat.Upper, nil), "TriDenseL": mat.NewTriDense(1, mat.Lower, nil),
			"BandDense": mat.NewBandDense(1, 1, 0, 0, nil), "SymBandDense": mat.NewSymBandDense(1, 0, nil),
			"TriBandDenseU": mat.NewTriBandDense(1, 0, mat.Upper, nil), "TriBandDenseL": mat.NewTriBandDense(1, 0, mat.Lower, nil),
			"DiagDense": mat.NewDiagDense(1, nil), "Tridiag": mat.NewTridiag(1, nil, nil, nil), "DiagonalRect": mat.NewDiagonalRect(1, 1, nil),
		}
		names := make([]string, 0, len(ms))
		for k := range ms {
			names = append(names, k)
		}
		sort.Strings(names)
		for _, name := range names {
			m := ms[name]
			x.do(name+".At", returns, func() { x.check(name+".At", m.At(0, 0) == 0, "nil data not zero") })
			x.do(name+".At(1,0)", panics, func() { m.At(1, 0) })
			x.do(name+".At(0,1)", panics, func() { m.At(0, 1) })
			x.do(name+".Norms", returns, func() {
				mat.Norm(m, 1)
				mat.Norm(m, 2)
				mat.Norm(m, math.Inf(1))
				mat.Max(m)
				mat.Min(m)
				mat.Sum(m)
				mat.Trace(m)
			})
			x.do(name+".Det", returns, func() { mat.Det(m); mat.LogDet(m) })
			x.do(name+".Cond", returns, func() { mat.Cond(m, 1); mat.Cond(m, 2); mat.Cond(m, math.Inf(1)) })
			x.do(name+".Equal", returns, func() {
				x.check(name+".Equal", mat.Equal(m, m.T()) && mat.EqualApprox(m, mat.NewDense(1, 1, nil), 0), "1×1 zero matrix not Equal to its transpose / a zero Dense")
			})
			x.do(name+".arith", returns, func() {
				var d mat.Dense
				d.Add(m, m)
				d.Mul(m, m.T())
				d.Scale(2, m)
				d.Pow(m, 3)
				d.Exp(m)
				d.Kronecker(m, m)
				_ = d.Inverse(m)
				_ = d.Solve(m, m)
				var v mat.VecDense
				v.MulVec(m, mat.NewVecDense(1, []float64{2}))
				_ = v.SolveVec(m, mat.NewVecDense(1, []float64{2}))
				mat.Inner(mat.NewVecDense(1, nil), m, mat.NewVecDense(1, nil))
				mat.Row(nil, 0, m)
				mat.Col(nil, 0, m)
				_ = fmt.Sprint(mat.Formatted(m))
			})
			if nz, ok := m.(mat.NonZeroDoer); ok {
				x.do(name+".DoNonZero", returns, func() { nz.DoNonZero(func(i, j int, v float64) {}) })
			}
			if nz, ok := m.(mat.RowNonZeroDoer); ok {
				x.do(name+".DoRowNonZero", returns, func() { nz.DoRowNonZero(0, func(i, j int, v float64) {}) })
				x.do(name+".DoRowNonZero(1)", panics, func() { nz.DoRowNonZero(1, func(i, j int, v float64) {}) })
				x.do(name+".DoRowNonZero(-1)", panics, func() { nz.DoRowNonZero(-1, func(i, j int, v float64) {}) })
			}
			if nz, ok := m.(mat.ColNonZeroDoer); ok {
				x.do(name+".DoColNonZero", returns, func() { nz.DoColNonZero(0, func(i, j int, v float64) {}) })
				x.do(name+".DoColNonZero(1)", panics, func() { nz.DoColNonZero(1, func(i, j int, v float64) {}) })
				x.do(name+".DoColNonZero(-1)", panics, func() { nz.DoColNonZero(-1, func(i, j int, v float64) {}) })
			}
		}
	},
	// Factorizations of 1×1 and n×1 / 1×n problems, and the zero values of the
	// factorization types: "will panic if the receiver does not contain a factorization".
	"factorizations-small": func(x *ectx) {
		n := x.c.N
		one := mat.NewDense(1, 1, []float64{3})
		x.do("LU(1x1)", returns, func() {
			var lu mat.LU
			lu.Factorize(one)
			var d mat.Dense
			_ = lu.SolveTo(&d, false, one)
			var v mat.VecDense
			_ = lu.SolveVecTo(&v, true, mat.NewVecDense(1, []float64{1}))
			lu.Det()
			lu.LogDet()
			lu.Cond()
			lu.RowPivots(nil)
			var l, u mat.TriDense
			lu.LTo(&l)
			lu.UTo(&u)
		})
		x.do("Cholesky(1x1)", returns, func() {
			var ch mat.Cholesky
			x.check("Cholesky(1x1).ok", ch.Factorize(mat.NewSymDense(1, []float64{4})), "1×1 positive matrix not positive definite")
			var d mat.Dense
			_ = ch.SolveTo(&d, one)
			var v mat.VecDense
			_ = ch.SolveVecTo(&v, mat.NewVecDense(1, []float64{1}))
			var s mat.SymDense
			ch.ToSym(&s)
			_ = ch.InverseTo(&s)
			var u, l mat.TriDense
			ch.UTo(&u)
			ch.LTo(&l)
			ch.Det()
			ch.LogDet()
			ch.Cond()
		})
		tall := x.dense(n, 1)
		tall.Set(0, 0, 5)
		x.do("QR(nx1)", returns, func() {
			var qr mat.QR
			qr.Factorize(tall)
			var q, r, d mat.Dense
			qr.QTo(&q)
			qr.RTo(&r)
			_ = qr.SolveTo(&d, false, x.dense(n, 2))
			d.Reset()
			_ = qr.SolveTo(&d, true, x.dense(1, 2))
			qr.Cond()
		})
		wide := x.dense(1, n)
		wide.Set(0, 0, 5)
		x.do("LQ(1xn)", returns, func() {
			var lq mat.LQ
			lq.Factorize(wide)
			var q, l, d mat.Dense
			lq.QTo(&q)
			lq.LTo(&l)
			_ = lq.SolveTo(&d, false, x.dense(1, 2))
			d.Reset()
			_ = lq.SolveTo(&d, true, x.dense(n, 2))
			lq.Cond()
		})
		x.do("SVD(nx1)", returns, func() {
			var svd mat.SVD
			x.check("SVD(nx1).ok", svd.Factorize(tall, mat.SVDThin), "SVD failed")
			var u, v, d mat.Dense
			svd.UTo(&u)
			svd.VTo(&v)
			svd.Values(nil)
			svd.Rank(1e-10)
			svd.Cond()
			svd.SolveTo(&d, x.dense(n, 2), 1)
		})
		x.do("EigenSym(1x1)", returns, func() {
			var es mat.EigenSym
			x.check("EigenSym(1x1).ok", es.Factorize(mat.NewSymDense(1, []float64{2}), true), "EigenSym failed")
			es.Values(nil)
			var v mat.Dense
			es.VectorsTo(&v)
		})
		// zero values
		x.do("LU{}.SolveTo", panics, func() { var lu mat.LU; var d mat.Dense; _ = lu.SolveTo(&d, false, one) })
		x.do("LU{}.Det", panics, func() { var lu mat.LU; lu.Det() })
		x.do("LU{}.LTo", panics, func() { var lu mat.LU; var t mat.TriDense; lu.LTo(&t) })
		x.do("LU{}.Reset", returns, func() { var lu mat.LU; lu.Reset() })
		x.do("LU{}.Dims", noFault, func() { var lu mat.LU; lu.Dims() })
		x.do("Cholesky{}.SolveTo", panics, func() { var ch mat.Cholesky; var d mat.Dense; _ = ch.SolveTo(&d, one) })
		x.do("Cholesky{}.Det", panics, func() { var ch mat.Cholesky; ch.Det() })
		x.do("Cholesky{}.Reset", returns, func() { var ch mat.Cholesky; ch.Reset() })
		x.do("Cholesky{}.IsEmpty", returns, func() { var ch mat.Cholesky; x.check("Cholesky{}.IsEmpty", ch.IsEmpty(), "zero Cholesky not empty") })
		x.do("Cholesky{}.Dims", noFault, func() { var ch mat.Cholesky; ch.Dims() })
		x.do("Cholesky{}.RawU", returns, func() {
			var ch mat.Cholesky
			x.check("Cholesky{}.RawU", ch.RawU() == nil, "RawU of an unfactorized Cholesky is not nil")
		})
		x.do("QR{}.SolveTo", panics, func() { var qr mat.QR; var d mat.Dense; _ = qr.SolveTo(&d, false, one) })
		x.do("QR{}.QTo", panics, func() { var qr mat.QR; var d mat.Dense; qr.QTo(&d) })
		x.do("QR{}.Dims", returns, func() { var qr mat.QR; qr.Dims() })
		x.do("LQ{}.SolveTo", panics, func() { var lq mat.LQ; var d mat.Dense; _ = lq.SolveTo(&d, false, one) })
		x.do("LQ{}.LTo", panics, func() { var lq mat.LQ; var d mat.Dense; lq.LTo(&d) })
		x.do("LQ{}.Dims", returns, func() { var lq mat.LQ; lq.Dims() })
		x.do("SVD{}.Values", panics, func() { var svd mat.SVD; svd.Values(nil) })
		x.do("SVD{}.UTo", panics, func() { var svd mat.SVD; var d mat.Dense; svd.UTo(&d) })
		x.do("SVD{}.Kind", returns, func() {
			var svd mat.SVD
			x.check("SVD{}.Kind", svd.Kind() == -1, "Kind of an unfactorized SVD is not -1")
		})
		x.do("EigenSym{}.Values", panics, func() { var es mat.EigenSym; es.Values(nil) })
		x.do("EigenSym{}.RawValues", returns, func() { var es mat.EigenSym; x.check("EigenSym{}.RawValues", es.RawValues() == nil, "not nil") })
		x.do("BandCholesky{}.SolveTo", panics, func() { var ch mat.BandCholesky; var d mat.Dense; _ = ch.SolveTo(&d, one) })
		x.do("PivotedCholesky{}.SolveTo", panics, func() { var ch mat.PivotedCholesky; var d mat.Dense; _ = ch.SolveTo(&d, one) })
		// a failed Cholesky factorization leaves the receiver unusable but not broken
		x.do("Cholesky-not-PD", returns, func() {
			var ch mat.Cholesky
			x.check("Cholesky-not-PD", !ch.Factorize(mat.NewSymDense(2, []float64{1, 2, 2, 1})), "indefinite matrix reported positive definite")
			x.check("Cholesky-not-PD.IsEmpty", ch.IsEmpty(), "failed factorization is not empty")
		})
		x.do("Cholesky-not-PD.SolveTo", panics, func() {
			var ch mat.Cholesky
			ch.Factorize(mat.NewSymDense(2, []float64{1, 2, 2, 1}))
			var d mat.Dense
			_ = ch.SolveTo(&d, x.dense(2, 1))
		})
		x.do("Cholesky-refactorize", returns, func() {
			var ch mat.Cholesky
			ch.Factorize(mat.NewSymDense(2, []float64{1, 2, 2, 1}))
			x.check("Cholesky-refactorize", ch.Factorize(mat.NewSymDense(1, []float64{4})), "re-use after a failed factorization failed")
			var d mat.Dense
			_ = ch.SolveTo(&d, one)
		})
	},
	// Structured matrices at their extremes: full bandwidth, zero bandwidth,
	// more rows than c+kl, single row / single column bands.
	"band-extremes": func(x *ectx) {
		n, m := x.c.N, x.c.M
		for ki, kk := range [][2]int{{0, 0}, {n - 1, m - 1}, {n - 1, 0}, {0, m - 1}} {
			kl, ku := kk[0], kk[1]
			lbl := []string{"band(diagonal)", "band(full)", "band(lower)", "band(upper)"}[ki]
			var b *mat.BandDense
			x.do(lbl+".New", returns, func() { b = mat.NewBandDense(n, m, kl, ku, x.data(min(n, m+kl)*(kl+ku+1))) })
			if b == nil {
				return
			}
			x.do(lbl+".sweep", returns, func() {
				for i := 0; i < n; i++ {
					for j := 0; j < m; j++ {
						b.At(i, j)
						b.T().At(j, i)
					}
				}
				b.DoNonZero(func(i, j int, v float64) {})
				for i := 0; i < n; i++ {
					b.DoRowNonZero(i, func(i, j int, v float64) {})
				}
				for j := 0; j < m; j++ {
					b.DoColNonZero(j, func(i, j int, v float64) {})
				}
				b.Norm(1)
				b.Norm(2)
				b.Norm(math.Inf(1))
				b.DiagView()
				var v mat.VecDense
				b.MulVecTo(&v, false, x.vec(m))
				v.Reset()
				b.MulVecTo(&v, true, x.vec(n))
				var d mat.Dense
				d.Mul(b, x.dense(m, 2))
				d.Reset()
				d.Mul(x.dense(2, n), b)
				d.Reset()
				d.CloneFrom(b)
				mat.DenseCopyOf(b.T())
			})
			x.do("band.Zero", returns, func() { b.Zero() })
		}
		for ki, k := range []int{0, n - 1} {
			lbl := []string{"symband(k=0)", "symband(k=n-1)"}[ki]
			var s *mat.SymBandDense
			x.do(lbl+".New", returns, func() { s = mat.NewSymBandDense(n, k, x.data(n*(k+1))) })
			if s == nil {
				return
			}
			x.do(lbl+".sweep", returns, func() {
				for i := 0; i < n; i++ {
					for j := 0; j < n; j++ {
						s.At(i, j)
					}
					s.DoRowNonZero(i, func(i, j int, v float64) {})
					s.DoColNonZero(i, func(i, j int, v float64) {})
				}
				s.DoNonZero(func(i, j int, v float64) {})
				s.Norm(1)
				s.Norm(2)
				s.Trace()
				s.DiagView()
				s.Zero()
				var v mat.VecDense
				s.MulVecTo(&v, false, x.vec(n))
			})
			for _, kind := range []mat.TriKind{mat.Upper, mat.Lower} {
				lbl := fmt.Sprintf("tri%s,upper=%v", lbl[3:], bool(kind))
				var t *mat.TriBandDense
				x.do(lbl+".New", returns, func() { t = mat.NewTriBandDense(n, k, kind, x.data(n*(k+1))) })
				if t == nil {
					return
				}
				x.do(lbl+".sweep", returns, func() {
					for i := 0; i < n; i++ {
						for j := 0; j < n; j++ {
							t.At(i, j)
							t.T().At(i, j)
						}
						t.DoRowNonZero(i, func(i, j int, v float64) {})
						t.DoColNonZero(i, func(i, j int, v float64) {})
					}
					t.DoNonZero(func(i, j int, v float64) {})
					t.Norm(1)
					t.Norm(2)
					t.Trace()
					t.DiagView()
					var d mat.Dense
					_ = t.SolveTo(&d, false, x.dense(n, 2))
					var v mat.VecDense
					_ = t.SolveVecTo(&v, true, x.vec(n))
					t.Zero()
				})
			}
		}
		var td *mat.Tridiag
		x.do("tridiag.New", returns, func() { td = mat.NewTridiag(n, nil, nil, nil) })
		x.do("tridiag.sweep", returns, func() {
			for i := 0; i < n; i++ {
				td.SetBand(i, i, 4)
				for j := 0; j < n; j++ {
					td.At(i, j)
					td.T().At(i, j)
				}
				td.DoRowNonZero(i, func(i, j int, v float64) {})
				td.DoColNonZero(i, func(i, j int, v float64) {})
			}
			td.DoNonZero(func(i, j int, v float64) {})
			td.Norm(1)
			td.Trace()
			td.DiagView()
			var v mat.VecDense
			td.MulVecTo(&v, false, x.vec(n))
			v.Reset()
			_ = td.SolveVecTo(&v, true, x.vec(n))
			var d mat.Dense
			_ = td.SolveTo(&d, false, x.dense(n, 2))
			var c mat.Tridiag
			c.CloneFromTridiag(td)
			td.Zero()
			td.Reset()
		})
		x.do("tridiag.DoRowNonZero(n)", panics, func() { mat.NewTridiag(n, nil, nil, nil).DoRowNonZero(n, func(i, j int, v float64) {}) })
		x.do("tridiag.DoColNonZero(-1)", panics, func() { mat.NewTridiag(n, nil, nil, nil).DoColNonZero(-1, func(i, j int, v float64) {}) })
		// "CloneFromTridiag does not place any restrictions on receiver shape"; an empty source has zero length
		x.do("tridiag.CloneFromTridiag(empty)", panics, func() { var c, z mat.Tridiag; c.CloneFromTridiag(&z) })
	},
	// Receiver equal to an operand: "a matrix may be used as both a receiver and as an input".
	"receiver-is-operand": func(x *ectx) {
		n := x.c.N
		a := x.dense(n, n)
		b := x.dense(n, n)
		x.do("a.Mul(a,b)", returns, func() { a.Mul(a, b) })
		x.do("a.Mul(b,a)", returns, func() { a.Mul(b, a) })
		x.do("a.Mul(a,a)", returns, func() { a.Mul(a, a) })
		x.do("a.Mul(a.T,a)", returns, func() { a.Mul(a.T(), a) })
		x.do("a.Add(a,a.T)", returns, func() { a.Add(a, a.T()) })
		x.do("a.Sub(a.T,b)", returns, func() { a.Sub(a.T(), b) })
		x.do("a.Scale(a.T)", returns, func() { a.Scale(0.5, a.T()) })
		x.do("a.Apply(a)", returns, func() { a.Apply(func(i, j int, v float64) float64 { return v / 2 }, a) })
		x.do("a.Pow(a,3)", returns, func() { a.Scale(0.1, a); a.Pow(a, 3) })
		x.do("a.Exp(a)", returns, func() { a.Exp(a) })
		x.do("a.Inverse(a)", returns, func() { _ = a.Inverse(a) })
		x.do("a.Solve(b,a)", returns, func() { _ = a.Solve(b, a) })
		x.do("a.RankOne(a)", returns, func() { a.RankOne(a, 2, x.vec(n), x.vec(n)) })
		v := x.vec(n)
		x.do("v.MulVec(b,v)", returns, func() { v.MulVec(b, v) })
		x.do("v.MulVec(b.T,v)", returns, func() { v.MulVec(b.T(), v) })
		x.do("v.AddVec(v,v)", returns, func() { v.AddVec(v, v) })
		x.do("v.ScaleVec(v)", returns, func() { v.ScaleVec(2, v) })
		x.do("v.AddScaledVec(v,2,v)", returns, func() { v.AddScaledVec(v, 2, v) })
		x.do("v.SolveVec(b,v)", returns, func() { _ = v.SolveVec(b, v) })
		x.do("v.SolveVec(b.T,v)", returns, func() { _ = v.SolveVec(b.T(), v) })
		s := x.sym(n)
		x.do("s.AddSym(s,s)", returns, func() { s.AddSym(s, s) })
		x.do("s.ScaleSym(s)", returns, func() { s.ScaleSym(2, s) })
		x.do("s.SymRankOne(s)", returns, func() { s.SymRankOne(s, 1, x.vec(n)) })
		x.do("s.SymRankK(s)", returns, func() { s.SymRankK(s, 1, x.dense(n, 2)) })
		x.do("s.RankTwo(s)", returns, func() { s.RankTwo(s, 1, x.vec(n), x.vec(n)) })
		x.do("s.SubsetSym(s)", returns, func() { s.SubsetSym(s, x.rng.Perm(n)) })
		t := x.tri(n, x.rng.Intn(2) == 0)
		x.do("t.ScaleTri(t)", returns, func() { t.ScaleTri(2, t) })
		x.do("t.MulTri(t,t)", returns, func() { t.MulTri(t, t) })
		x.do("t.InverseTri(t)", noFault, func() { _ = t.InverseTri(t) })
	},
}

func idxName(i, n int) string {
	switch {
	case i == n:
		return "n"
	case i == math.MinInt64:
		return "minint"
	case i == math.MaxInt64:
		return "maxint"
	}
	return fmt.Sprint(i)
}

var scenarioNames = func() []string {
	n := make([]string, 0, len(scenarios))
	for k := range scenarios {
		n = append(n, k)
	}
	sort.Strings(n)
	return n
}()

func checkEdge(c ecase) *vk.Failure {
	f := scenarios[c.Name]
	if f == nil {
		return vk.Failf("harness/unknown-scenario", "%q", c.Name)
	}
	x := &ectx{c: c, rng: vk.NewSplitMix(c.Seed)}
	vk.Class("mat-valid-edge/" + c.Name)
	vk.NonTrivial("mat-valid-edge", c.Name, c.Step, c.N, c.M)
	vk.Sample("mat-valid-edge", c)
	if r := vk.Call(func() { f(x) }); r.Outcome != vk.Returned && x.fail == nil {
		return vk.Failf("harness/scenario-panicked/"+c.Name, "%s", r.Text)
	}
	return x.fail
}

// stepsOf lists the step labels of every scenario (they do not depend on the
// size parameters).
var stepsOf = func() map[string][]string {
	out := map[string][]string{}
	for _, name := range scenarioNames {
		x := &ectx{c: ecase{Name: name, N: 3, M: 2}, rng: vk.NewSplitMix(1), survey: true}
		vk.Call(func() { scenarios[name](x) })
		out[name] = x.labels
	}
	return out
}()

func edgeCases() []ecase {
	var out []ecase
	for _, name := range scenarioNames {
		for _, nm := range [][2]int{{1, 1}, {2, 3}, {3, 1}, {4, 4}, {5, 2}, {1, 5}} {
			for _, step := range stepsOf[name] {
				out = append(out, ecase{Name: name, Step: step, N: nm[0], M: nm[1], Seed: uint64(len(out)) * 0x9e3779b97f4a7c15})
			}
		}
	}
	return out
}

func drawEdge(t *rapid.T) ecase {
	name := rapid.SampledFrom(scenarioNames).Draw(t, "scenario")
	return ecase{Name: name, Step: rapid.SampledFrom(stepsOf[name]).Draw(t, "step"), N: rapid.IntRange(1, 6).Draw(t, "n"), M: rapid.IntRange(1, 6).Draw(t, "m"), Seed: vk.SeedGen(t, "seed")}
}

// TestMatValidEdge: documented-valid degenerate uses return (zero values,
// Reset and re-use, Grow of an empty matrix, slices up to the capacity, 1×1
// instances of every type, extreme bandwidths, receiver equal to an operand,
// unfactorized factorization values) and the documented refusals are package
// panics.
func TestMatValidEdge(t *testing.T) {
	cases := edgeCases()
	vk.Enumerate(t, "mat-valid-edge", len(cases), func(i int) ecase { return cases[i] }, checkEdge)
	vk.Run(t, "mat-valid-edge", vk.Opts{Quick: 2000, Thorough: 40000}, drawEdge, checkEdge)
}
