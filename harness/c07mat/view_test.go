package c07mat

import (
	"fmt"
	"math/cmplx"
	"testing"

	"gonum.org/v1/gonum/mat"
	"pgregory.net/rapid"
	"verifharness/vk"
)

// vcase is a history of view-producing operations on one parent matrix: the
// capacity of a view is cached state that only shows in a LATER Slice, Grow
// or use as a receiver, so every step is checked against a model of the
// parent's storage.
type vcase struct {
	Type string `json:"type"` // Dense | CDense | VecDense | VecDenseCol | SymDense | TriDense
	R    int    `json:"r"`    // parent rows (length / order for the one-index types), 2..7
	C    int    `json:"c"`    // parent columns, 2..7
	Ops  []vop  `json:"ops"`
	Seed uint64 `json:"seed"`
}

// vop is Slice(I,K,J,L) (SliceVec/SliceSym/SliceTri(I,K)) or Grow(I,J)
// (GrowSym(I)) applied to the current view.
type vop struct {
	Kind string `json:"kind"` // slice | grow
	I    int    `json:"i"`
	K    int    `json:"k"`
	J    int    `json:"j"`
	L    int    `json:"l"`
}

var viewTypes = []string{"Dense", "CDense", "VecDense", "VecDenseCol", "SymDense", "TriDense"}

// vstore is the parent's backing array (float64 or complex128) and its snapshot.
type vstore struct {
	f    []float64
	c    []complex128
	snap []complex128
}

func (s *vstore) len() int {
	if s.c != nil {
		return len(s.c)
	}
	return len(s.f)
}

func (s *vstore) get(k int) complex128 {
	if s.c != nil {
		return s.c[k]
	}
	return complex(s.f[k], 0)
}

func (s *vstore) freeze() {
	s.snap = make([]complex128, s.len())
	for k := range s.snap {
		s.snap[k] = s.get(k)
	}
}

// vw adapts one concrete view to the operations of the check.
type vw struct {
	dims  func() (int, int)
	caps  func() (int, int)                     // nil: the type does not export its capacity
	at    func(i, j int) complex128             //
	set   func(i, j int, v complex128)          //
	slice func(o vop) *vw                       //
	grow  func(o vop) *vw                       // nil: the type cannot grow
	recv  func(src func(i, j int) float64) bool // size-restricted operation with the view as receiver: view = 2*src (conj(src) for CDense)
}

// vmodel is what the documentation implies about the current view.
type vmodel struct {
	ro, co     int // offset of the view in the parent
	rows, cols int
	capR, capC int
	square     bool // one offset and one extent (SymDense, TriDense)
	vector     bool // one column
}

func denseVW(d *mat.Dense) *vw {
	return &vw{
		dims: d.Dims, caps: d.Caps,
		at:    func(i, j int) complex128 { return complex(d.At(i, j), 0) },
		set:   func(i, j int, v complex128) { d.Set(i, j, real(v)) },
		slice: func(o vop) *vw { return denseVW(d.Slice(o.I, o.K, o.J, o.L).(*mat.Dense)) },
		grow:  func(o vop) *vw { return denseVW(d.Grow(o.I, o.J).(*mat.Dense)) },
		recv: func(src func(i, j int) float64) bool {
			r, c := d.Dims()
			a := mat.NewDense(r, c, nil)
			for i := 0; i < r; i++ {
				for j := 0; j < c; j++ {
					a.Set(i, j, src(i, j))
				}
			}
			d.Scale(2, a)
			return true
		},
	}
}

func cdenseVW(d *mat.CDense) *vw {
	return &vw{
		dims: d.Dims, caps: d.Caps, at: d.At, set: d.Set,
		slice: func(o vop) *vw { return cdenseVW(d.Slice(o.I, o.K, o.J, o.L).(*mat.CDense)) },
		grow:  func(o vop) *vw { return cdenseVW(d.Grow(o.I, o.J).(*mat.CDense)) },
		recv: func(src func(i, j int) float64) bool {
			r, c := d.Dims()
			a := mat.NewCDense(r, c, nil)
			for i := 0; i < r; i++ {
				for j := 0; j < c; j++ {
					// Conj gives conj(a): store conj(2*src - i*src) so that the result is 2*src + i*src
					a.Set(i, j, complex(2*src(i, j), -src(i, j)))
				}
			}
			d.Conj(a)
			return false
		},
	}
}

func vecVW(v *mat.VecDense) *vw {
	return &vw{
		dims:  func() (int, int) { return v.Len(), 1 },
		caps:  func() (int, int) { return v.Cap(), 1 },
		at:    func(i, j int) complex128 { return complex(v.At(i, j), 0) },
		set:   func(i, j int, x complex128) { v.SetVec(i, real(x)) },
		slice: func(o vop) *vw { return vecVW(v.SliceVec(o.I, o.K).(*mat.VecDense)) },
		recv: func(src func(i, j int) float64) bool {
			a := mat.NewVecDense(v.Len(), nil)
			for i := 0; i < v.Len(); i++ {
				a.SetVec(i, src(i, 0))
			}
			v.ScaleVec(2, a)
			return true
		},
	}
}

func symVW(s *mat.SymDense) *vw {
	return &vw{
		dims: s.Dims, caps: s.Caps,
		at:    func(i, j int) complex128 { return complex(s.At(i, j), 0) },
		set:   func(i, j int, x complex128) { s.SetSym(i, j, real(x)) },
		slice: func(o vop) *vw { return symVW(s.SliceSym(o.I, o.K).(*mat.SymDense)) },
		grow:  func(o vop) *vw { return symVW(s.GrowSym(o.I).(*mat.SymDense)) },
		recv: func(src func(i, j int) float64) bool {
			n := s.SymmetricDim()
			a := mat.NewSymDense(n, nil)
			for i := 0; i < n; i++ {
				for j := i; j < n; j++ {
					a.SetSym(i, j, src(i, j))
				}
			}
			s.ScaleSym(2, a)
			return true
		},
	}
}

func triVW(t *mat.TriDense) *vw {
	return &vw{
		dims:  t.Dims,
		at:    func(i, j int) complex128 { return complex(t.At(i, j), 0) },
		set:   func(i, j int, x complex128) { t.SetTri(i, j, real(x)) },
		slice: func(o vop) *vw { return triVW(t.SliceTri(o.I, o.K).(*mat.TriDense)) },
		recv: func(src func(i, j int) float64) bool {
			n, kind := t.Triangle()
			a := mat.NewTriDense(n, kind, nil)
			for i := 0; i < n; i++ {
				for j := 0; j < n; j++ {
					if (kind == mat.Upper && i <= j) || (kind == mat.Lower && i >= j) {
						a.SetTri(i, j, src(i, j))
					}
				}
			}
			t.ScaleTri(2, a)
			return true
		},
	}
}

// viewRun is the state of one history.
type viewRun struct {
	c     vcase
	st    *vstore
	pos   func(i, j int) int // parent storage index of parent element (i,j); -1: not stored (structural zero)
	m     vmodel
	v     *vw
	upper bool // TriDense orientation
	step  string
}

func (r *viewRun) failf(oracle, format string, args ...any) *vk.Failure {
	return vk.Failf(oracle+"/"+r.c.Type+"."+r.step, "parent %dx%d, view at (%d,%d) %dx%d cap %dx%d, ops %+v: %s",
		r.c.R, r.c.C, r.m.ro, r.m.co, r.m.rows, r.m.cols, r.m.capR, r.m.capC, r.c.Ops, fmt.Sprintf(format, args...))
}

// parentUnchanged checks the parent storage against its snapshot, except at
// the indices in want.
func (r *viewRun) parentIs(want map[int]complex128) (int, complex128, complex128, bool) {
	for k := 0; k < r.st.len(); k++ {
		w, ok := want[k]
		if !ok {
			w = r.st.snap[k]
		}
		if g := r.st.get(k); g != w && !(cmplx.IsNaN(g) && cmplx.IsNaN(w)) {
			return k, g, w, false
		}
	}
	return 0, 0, 0, true
}

// sharedElems checks that the view v, placed by the model m, shows exactly the
// parent's elements.
func (r *viewRun) sharedElems(v *vw, m vmodel) (string, bool) {
	rows, cols := v.dims()
	if rows != m.rows || cols != m.cols {
		return fmt.Sprintf("dims %dx%d, want %dx%d", rows, cols, m.rows, m.cols), false
	}
	for a := 0; a < rows; a++ {
		for b := 0; b < cols; b++ {
			want := complex128(0)
			if p := r.pos(m.ro+a, m.co+b); p >= 0 {
				want = r.st.get(p)
			}
			if got := v.at(a, b); got != want {
				return fmt.Sprintf("element (%d,%d) is %v, the parent's element (%d,%d) is %v", a, b, got, m.ro+a, m.co+b, want), false
			}
		}
	}
	return "", true
}

func (m vmodel) sliceValid(o vop) bool {
	if m.square || m.vector {
		return 0 <= o.I && o.I < o.K && o.K <= m.capR
	}
	return 0 <= o.I && o.I < o.K && o.K <= m.capR && 0 <= o.J && o.J < o.L && o.L <= m.capC
}

func (m vmodel) sliced(o vop) vmodel {
	n := m
	n.ro, n.rows, n.capR = m.ro+o.I, o.K-o.I, m.capR-o.I
	switch {
	case m.square:
		n.co, n.cols, n.capC = n.ro, n.rows, n.capR
	case m.vector:
	default:
		n.co, n.cols, n.capC = m.co+o.J, o.L-o.J, m.capC-o.J
	}
	return n
}

// checkCaps compares the exported capacity of v with the model: equal for a
// Slice result; for an in-place Grow the documentation only bounds it
// (at least the dimensions, never more than the parent provides).
func (r *viewRun) checkCaps(v *vw, m *vmodel, exact bool) *vk.Failure {
	if v.caps == nil {
		return nil
	}
	cr, cc := v.caps()
	if exact {
		if cr != m.capR || cc != m.capC {
			return r.failf("wrong-capacity", "Caps() = (%d,%d), the parent's capacity leaves (%d,%d)", cr, cc, m.capR, m.capC)
		}
		return nil
	}
	if cr < m.rows || cc < m.cols || cr > m.capR || cc > m.capC {
		return r.failf("wrong-capacity", "Caps() = (%d,%d) after an in-place Grow to %dx%d, the parent's capacity leaves (%d,%d)", cr, cc, m.rows, m.cols, m.capR, m.capC)
	}
	m.capR, m.capC = cr, cc
	return nil
}

// probes: at every stage the view can be sliced up to its capacity, showing
// the parent's elements, and not one row or column beyond.
func (r *viewRun) probes() *vk.Failure {
	save := r.step
	defer func() { r.step = save }()
	m := r.m
	full := vop{Kind: "slice", I: 0, K: m.capR, J: 0, L: m.capC}
	r.step = "Slice(to-capacity)"
	var w *vw
	if res := vk.Call(func() { w = r.v.slice(full) }); res.Outcome != vk.Returned {
		return r.failf("in-capacity-slice-rejected", "Slice up to the capacity (%d,%d): %s", m.capR, m.capC, res.Text)
	}
	if msg, ok := r.sharedElems(w, m.sliced(full)); !ok {
		return r.failf("view-shows-wrong-elements", "Slice up to the capacity (%d,%d): %s", m.capR, m.capC, msg)
	}
	outs := []vop{{Kind: "slice", I: 0, K: m.capR + 1, J: 0, L: m.cols}}
	if !m.square && !m.vector {
		outs = append(outs, vop{Kind: "slice", I: 0, K: m.rows, J: 0, L: m.capC + 1})
	}
	r.step = "Slice(capacity+1)"
	for _, o := range outs {
		res := vk.Call(func() { r.v.slice(o) })
		if res.Outcome != vk.PackagePanic {
			return r.failf("out-of-capacity-slice-accepted", "Slice(%d,%d,%d,%d) one past the capacity (%d,%d): %s %s", o.I, o.K, o.J, o.L, m.capR, m.capC, res.Outcome, res.Text)
		}
	}
	if k, g, w, ok := r.parentIs(nil); !ok {
		return r.failf("parent-written", "probing slices changed storage element %d of the parent from %v to %v", k, w, g)
	}
	return nil
}

func checkView(c vcase) *vk.Failure {
	r := &viewRun{c: c}
	rng := vk.NewSplitMix(c.Seed)
	R, C := c.R, c.C
	fill := func(n int) []float64 {
		f := make([]float64, n)
		for k := range f {
			f[k] = float64(1000 + k)
		}
		return f
	}
	switch c.Type {
	case "Dense":
		r.st = &vstore{f: fill(R * C)}
		r.pos = func(i, j int) int { return i*C + j }
		r.v = denseVW(mat.NewDense(R, C, r.st.f))
		r.m = vmodel{rows: R, cols: C, capR: R, capC: C}
	case "CDense":
		cs := make([]complex128, R*C)
		for k := range cs {
			cs[k] = complex(float64(1000+k), -float64(k+1))
		}
		r.st = &vstore{c: cs}
		r.pos = func(i, j int) int { return i*C + j }
		r.v = cdenseVW(mat.NewCDense(R, C, cs))
		r.m = vmodel{rows: R, cols: C, capR: R, capC: C}
	case "VecDense":
		n := R + C
		r.st = &vstore{f: fill(n)}
		r.pos = func(i, j int) int { return i }
		r.v = vecVW(mat.NewVecDense(n, r.st.f))
		r.m = vmodel{rows: n, cols: 1, capR: n, capC: 1, vector: true}
	case "VecDenseCol":
		jc := rng.Intn(C)
		r.st = &vstore{f: fill(R * C)}
		r.pos = func(i, j int) int { return i*C + jc }
		r.v = vecVW(mat.NewDense(R, C, r.st.f).ColView(jc).(*mat.VecDense))
		r.m = vmodel{rows: R, cols: 1, capR: R, capC: 1, vector: true}
	case "SymDense":
		r.st = &vstore{f: fill(R * R)}
		r.pos = func(i, j int) int {
			if i > j {
				i, j = j, i
			}
			return i*R + j
		}
		r.v = symVW(mat.NewSymDense(R, r.st.f))
		r.m = vmodel{rows: R, cols: R, capR: R, capC: R, square: true}
	case "TriDense":
		r.upper = rng.Intn(2) == 0
		r.st = &vstore{f: fill(R * R)}
		r.pos = func(i, j int) int {
			if (r.upper && i > j) || (!r.upper && i < j) {
				return -1
			}
			return i*R + j
		}
		r.v = triVW(mat.NewTriDense(R, mat.TriKind(r.upper), r.st.f))
		r.m = vmodel{rows: R, cols: R, capR: R, capC: R, square: true}
	default:
		return vk.Failf("harness/unknown-type", "%q", c.Type)
	}
	r.st.freeze()
	vk.Sample("mat-view-history", c)
	r.step = "root"
	if f := r.checkCaps(r.v, &r.m, true); f != nil {
		return f
	}
	depth := 0
	for _, o := range c.Ops {
		if f := r.probes(); f != nil {
			return f
		}
		switch o.Kind {
		case "slice":
			r.step = "Slice"
			valid := r.m.sliceValid(o)
			var w *vw
			res := vk.Call(func() { w = r.v.slice(o) })
			if res.Outcome == vk.RuntimeFault {
				return r.failf("runtime-fault", "Slice(%d,%d,%d,%d): %s", o.I, o.K, o.J, o.L, res.Text)
			}
			if !valid {
				vk.Class("mat-view/" + c.Type + "/slice-rejected")
				if res.Outcome != vk.PackagePanic {
					return r.failf("out-of-capacity-slice-accepted", "Slice(%d,%d,%d,%d) returned", o.I, o.K, o.J, o.L)
				}
				if k, g, w, ok := r.parentIs(nil); !ok {
					return r.failf("parent-written", "a rejected Slice changed storage element %d of the parent from %v to %v", k, w, g)
				}
				continue
			}
			vk.Class("mat-view/" + c.Type + "/slice-accepted")
			if res.Outcome != vk.Returned {
				return r.failf("in-capacity-slice-rejected", "Slice(%d,%d,%d,%d): %s", o.I, o.K, o.J, o.L, res.Text)
			}
			r.m, r.v = r.m.sliced(o), w
			depth++
			if f := r.checkCaps(w, &r.m, true); f != nil {
				return f
			}
			if msg, ok := r.sharedElems(w, r.m); !ok {
				return r.failf("view-shows-wrong-elements", "after Slice(%d,%d,%d,%d): %s", o.I, o.K, o.J, o.L, msg)
			}
		case "grow":
			if r.v.grow == nil {
				continue
			}
			r.step = "Grow"
			gr, gc := o.I, o.J
			if r.m.square {
				gc = gr
			}
			var w *vw
			res := vk.Call(func() { w = r.v.grow(o) })
			if res.Outcome == vk.RuntimeFault {
				return r.failf("runtime-fault", "Grow(%d,%d): %s", gr, gc, res.Text)
			}
			if gr < 0 || gc < 0 {
				// "If Grow is called with negative increments it will panic with ErrIndexOutOfRange."
				vk.Class("mat-view/" + c.Type + "/grow-negative")
				if res.Outcome != vk.PackagePanic {
					return r.failf("negative-grow-accepted", "Grow(%d,%d) returned", gr, gc)
				}
				continue
			}
			if res.Outcome != vk.Returned {
				return r.failf("valid-grow-panicked", "Grow(%d,%d): %s", gr, gc, res.Text)
			}
			nm := r.m
			nm.rows, nm.cols = r.m.rows+gr, r.m.cols+gc
			if nm.rows <= r.m.capR && nm.cols <= r.m.capC {
				// "If the dimensions of the expanded matrix are outside the capacities of
				// the receiver a new allocation is made, otherwise not."
				vk.Class("mat-view/" + c.Type + "/grow-in-place")
				r.m, r.v = nm, w
				depth++
				if f := r.checkCaps(w, &r.m, gr == 0 && gc == 0); f != nil {
					return f
				}
				if msg, ok := r.sharedElems(w, r.m); !ok {
					return r.failf("view-shows-wrong-elements", "after in-place Grow(%d,%d): %s", gr, gc, msg)
				}
				continue
			}
			// A new allocation: the old elements are kept, and nothing written to
			// the grown matrix reaches the parent.
			vk.Class("mat-view/" + c.Type + "/grow-reallocated")
			rows, cols := w.dims()
			if rows != nm.rows || cols != nm.cols {
				return r.failf("view-shows-wrong-elements", "Grow(%d,%d) has dims %dx%d, want %dx%d", gr, gc, rows, cols, nm.rows, nm.cols)
			}
			if w.caps != nil {
				if cr, cc := w.caps(); cr < rows || cc < cols {
					return r.failf("wrong-capacity", "Grow(%d,%d): Caps() = (%d,%d) below the dimensions %dx%d", gr, gc, cr, cc, rows, cols)
				}
			}
			for a := 0; a < r.m.rows; a++ {
				for b := 0; b < r.m.cols; b++ {
					if got, want := w.at(a, b), r.v.at(a, b); got != want {
						return r.failf("view-shows-wrong-elements", "reallocating Grow(%d,%d) changed element (%d,%d) from %v to %v", gr, gc, a, b, want, got)
					}
				}
			}
			for a := 0; a < rows; a++ {
				for b := 0; b < cols; b++ {
					if r.m.square && a > b {
						continue
					}
					w.set(a, b, complex(-7, 7))
				}
			}
			if k, g, want, ok := r.parentIs(nil); !ok {
				return r.failf("parent-written", "writing to the reallocated result of Grow(%d,%d) changed storage element %d of the parent from %v to %v", gr, gc, k, want, g)
			}
			vk.NonTrivial("mat-view-history", c.Type, "reallocated", depth, r.m.ro != r.m.co)
			return nil
		}
	}
	if f := r.probes(); f != nil {
		return f
	}
	vk.NonTrivial("mat-view-history", c.Type, depth, r.m.ro, r.m.co, r.m.rows < r.m.capR, r.m.cols < r.m.capC)

	// The view as the receiver of a size-restricted operation: it has the right
	// shape, so the operation must accept it and write its window only.
	r.step = "receiver"
	src := func(i, j int) float64 { return float64(1 + (3*i+5*j)%11) }
	var realOnly bool
	if res := vk.Call(func() { realOnly = r.v.recv(src) }); res.Outcome != vk.Returned {
		return r.failf("view-receiver-rejected", "%s: %s", res.Outcome, res.Text)
	}
	want := map[int]complex128{}
	for a := 0; a < r.m.rows; a++ {
		for b := 0; b < r.m.cols; b++ {
			if r.m.square && c.Type == "SymDense" && a > b {
				continue
			}
			if p := r.pos(r.m.ro+a, r.m.co+b); p >= 0 {
				if realOnly {
					want[p] = complex(2*src(a, b), 0)
				} else {
					want[p] = complex(2*src(a, b), src(a, b))
				}
			}
		}
	}
	if k, g, w, ok := r.parentIs(want); !ok {
		return r.failf("receiver-wrote-wrong-elements", "storage element %d of the parent is %v, want %v", k, g, w)
	}

	// Writing through the view reaches exactly the parent's elements under it.
	r.step = "Set"
	for a := 0; a < r.m.rows; a++ {
		for b := 0; b < r.m.cols; b++ {
			p := r.pos(r.m.ro+a, r.m.co+b)
			if p < 0 || (c.Type == "SymDense" && a > b) {
				continue
			}
			x := complex(float64(5000+16*a+b), 0)
			if res := vk.Call(func() { r.v.set(a, b, x) }); res.Outcome != vk.Returned {
				return r.failf("view-set-panicked", "Set(%d,%d): %s", a, b, res.Text)
			}
			want[p] = x
		}
	}
	if k, g, w, ok := r.parentIs(want); !ok {
		return r.failf("set-wrote-wrong-elements", "storage element %d of the parent is %v, want %v", k, g, w)
	}
	return nil
}

// drawViewOp draws the next operation, biased to the boundaries of the true
// capacity of the current view (the model follows the valid operations).
func drawViewOp(t *rapid.T, m *vmodel, canGrow bool, label string) vop {
	bound := func(l string, lo, hi int) int {
		switch rapid.IntRange(0, 19).Draw(t, l+"_cls") {
		case 0:
			return lo - 1
		case 1:
			return hi + 1
		case 2, 3, 4, 5:
			return hi
		case 6, 7:
			return lo
		}
		if hi < lo {
			return lo
		}
		return rapid.IntRange(lo, hi).Draw(t, l)
	}
	if canGrow && rapid.IntRange(0, 3).Draw(t, label+"_grow") == 0 {
		o := vop{Kind: "grow", I: bound(label+"_gr", 0, m.capR-m.rows), J: bound(label+"_gc", 0, m.capC-m.cols)}
		if o.I >= 0 && o.J >= 0 && m.rows+o.I <= m.capR && (m.square || m.cols+o.J <= m.capC) {
			m.rows += o.I
			if m.square {
				m.cols = m.rows
			} else {
				m.cols += o.J
			}
			// an in-place Grow may report any capacity between the new dimensions and the old capacity
			m.capR, m.capC = m.rows, m.cols
		}
		return o
	}
	o := vop{Kind: "slice"}
	o.I = bound(label+"_i", 0, m.capR-1)
	o.K = bound(label+"_k", max(o.I, 0)+1, m.capR)
	if !m.square && !m.vector {
		o.J = bound(label+"_j", 0, m.capC-1)
		o.L = bound(label+"_l", max(o.J, 0)+1, m.capC)
	}
	if m.sliceValid(o) {
		*m = m.sliced(o)
	}
	return o
}

func drawView(t *rapid.T) vcase {
	c := vcase{Type: rapid.SampledFrom(viewTypes).Draw(t, "type")}
	c.R = rapid.IntRange(2, 7).Draw(t, "r")
	c.C = rapid.IntRange(2, 7).Draw(t, "c")
	c.Seed = vk.SeedGen(t, "seed")
	m := vmodel{rows: c.R, cols: c.C, capR: c.R, capC: c.C}
	switch c.Type {
	case "VecDense":
		m = vmodel{rows: c.R + c.C, cols: 1, capR: c.R + c.C, capC: 1, vector: true}
	case "VecDenseCol":
		m = vmodel{rows: c.R, cols: 1, capR: c.R, capC: 1, vector: true}
	case "SymDense", "TriDense":
		m = vmodel{rows: c.R, cols: c.R, capR: c.R, capC: c.R, square: true}
	}
	canGrow := c.Type == "Dense" || c.Type == "CDense" || c.Type == "SymDense"
	n := rapid.IntRange(1, 4).Draw(t, "nops")
	for k := 0; k < n; k++ {
		c.Ops = append(c.Ops, drawViewOp(t, &m, canGrow, fmt.Sprintf("op%d", k)))
	}
	return c
}

// viewCases enumerates every first-level window of small parents followed by
// nothing, by a window of the window, and by a Grow back to the capacity.
func viewCases() []vcase {
	var out []vcase
	for _, typ := range viewTypes {
		one := typ != "Dense" && typ != "CDense"
		for _, d := range [][2]int{{3, 3}, {3, 4}, {4, 2}} {
			R, C := d[0], d[1]
			n, nc := R, C
			switch typ {
			case "VecDense":
				n, nc = R+C, 1
			case "VecDenseCol":
				nc = 1
			case "SymDense", "TriDense":
				nc = R
			}
			for i := 0; i < n; i++ {
				for k := i + 1; k <= n; k++ {
					for j := 0; j < nc; j++ {
						for l := j + 1; l <= nc; l++ {
							if one && (j != 0 || l != nc) {
								continue
							}
							first := vop{Kind: "slice", I: i, K: k, J: j, L: l}
							seed := uint64(len(out)) * 0x9e3779b97f4a7c15
							out = append(out, vcase{Type: typ, R: R, C: C, Ops: []vop{first}, Seed: seed})
							// a window of the window: its last element
							out = append(out, vcase{Type: typ, R: R, C: C, Ops: []vop{first, {Kind: "slice", I: k - i - 1, K: k - i, J: l - j - 1, L: l - j}}, Seed: seed})
							// back to the full capacity of the window, one step short of it, and one step beyond
							if typ == "Dense" || typ == "CDense" || typ == "SymDense" {
								gr, gc := n-k, nc-l
								out = append(out, vcase{Type: typ, R: R, C: C, Ops: []vop{first, {Kind: "grow", I: gr, J: gc}}, Seed: seed})
								out = append(out, vcase{Type: typ, R: R, C: C, Ops: []vop{first, {Kind: "grow", I: gr + 1, J: gc}}, Seed: seed})
								if !one {
									out = append(out, vcase{Type: typ, R: R, C: C, Ops: []vop{first, {Kind: "grow", I: gr, J: gc + 1}}, Seed: seed})
								}
							}
						}
					}
				}
			}
		}
	}
	return out
}

// TestMatViewHistory: Slice / Grow / SliceVec / SliceSym / GrowSym / SliceTri
// histories on a sentinel-filled parent. The capacity a view reports and
// enforces is the one the parent leaves at the view's offset: slices inside
// it are accepted and show exactly the parent's elements, slices one past it
// panic with the package's error before any write, an in-place Grow stays
// inside the parent and a reallocating Grow is detached from it, and the view
// is accepted as the receiver of a size-restricted operation and written
// through to exactly the parent's elements under it.
func TestMatViewHistory(t *testing.T) {
	cases := viewCases()
	vk.Enumerate(t, "mat-view-history", len(cases), func(i int) vcase { return cases[i] }, checkView)
	vk.Run(t, "mat-view-history", vk.Opts{Quick: 20000, Thorough: 400000, NoCrumb: true}, drawView, checkView)
}
