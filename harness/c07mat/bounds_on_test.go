//go:build bounds

package c07mat

// boundsTag reports that gonum/mat was built with bounds-checked element
// access (mat/index_bound_checks.go).
const boundsTag = true
