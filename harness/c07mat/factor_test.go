package c07mat

import (
	"fmt"
	"math"

	"gonum.org/v1/gonum/mat"
)

// registerSetters: element setters of the structured types. "It panics if the
// location is outside the appropriate half / region of the matrix."
func registerSetters() {
	pick := func(e *env, n int, k1, k2 string) int {
		switch {
		case e.is(k1):
			return -1
		case e.is(k2):
			return n
		}
		return e.rng.Intn(n)
	}
	add("SymDense.SetSym", false, ks("i=-1", "i=n", "j=-1", "j=n"), func(e *env) func() {
		s := e.mutSym("s", e.c.R)
		i, j := pick(e, e.c.R, "i=-1", "i=n"), pick(e, e.c.R, "j=-1", "j=n")
		return func() { s.SetSym(i, j, 42) }
	})
	add("TriDense.SetTri", false, ks("outside", "i=-1", "i=n", "j=-1", "j=n"), func(e *env) func() {
		n := e.c.R
		if e.c.Kind == "outside" && n < 2 {
			n = 2
		}
		kind := mat.TriKind(e.rng.Intn(2) == 0)
		t := e.triView("t", n, e.rng.Intn(3), kind, true)
		i, j := pick(e, n, "i=-1", "i=n"), pick(e, n, "j=-1", "j=n")
		inside := func(i, j int) bool { return (kind == mat.Upper && i <= j) || (kind == mat.Lower && i >= j) }
		if e.is("outside") {
			i = 1 + e.rng.Intn(n-1)
			j = e.rng.Intn(i)
			if kind == mat.Lower {
				i, j = j, i
			}
		} else if i >= 0 && i < n && j >= 0 && j < n && !inside(i, j) {
			i, j = j, i
		}
		return func() { t.SetTri(i, j, 42) }
	})
	add("BandDense.SetBand", false, ks("outside", "i=-1", "i=n", "j=-1", "j=n"), func(e *env) func() {
		r, c := e.c.R, e.c.C
		kl, ku := e.rng.Intn(r), e.rng.Intn(c)
		if e.c.Kind == "outside" {
			// make sure a position outside the band exists
			if r < 2 {
				r = 2
			}
			kl = e.rng.Intn(r - 1)
		}
		reg := e.alloc("b", min(r, c+kl)*(kl+ku+1))
		reg.allowed = allTrue(len(reg.buf))
		b := mat.NewBandDense(r, c, kl, ku, reg.buf)
		in := func(i, j int) bool { return j-i <= ku && i-j <= kl }
		i, j := pick(e, r, "i=-1", "i=n"), pick(e, c, "j=-1", "j=n")
		if e.is("outside") {
			i, j = r-1, 0 // i-j = r-1 > kl
		} else if i >= 0 && i < r && j >= 0 && j < c && !in(i, j) {
			// move to the diagonal band position of column j or row i
			if j < r {
				i = j
			} else {
				j = min(i, c-1)
				if !in(i, j) {
					i, j = 0, 0
				}
			}
		}
		return func() { b.SetBand(i, j, 42) }
	})
	add("SymBandDense.SetSymBand", false, ks("outside", "i=-1", "i=n", "j=-1", "j=n"), func(e *env) func() {
		n := e.c.R
		if e.c.Kind == "outside" && n < 2 {
			n = 2
		}
		k := e.rng.Intn(n)
		if e.c.Kind == "outside" {
			k = e.rng.Intn(n - 1)
		}
		reg := e.alloc("s", n*(k+1))
		reg.allowed = allTrue(len(reg.buf))
		s := mat.NewSymBandDense(n, k, reg.buf)
		i, j := pick(e, n, "i=-1", "i=n"), pick(e, n, "j=-1", "j=n")
		if e.is("outside") {
			i, j = 0, n-1
			if e.rng.Intn(2) == 0 {
				i, j = j, i
			}
		} else if i >= 0 && i < n && j >= 0 && j < n && abs(i-j) > k {
			j = i
		}
		return func() { s.SetSymBand(i, j, 42) }
	})
	add("TriBandDense.SetTriBand", false, ks("outside-triangle", "outside-band", "i=-1", "i=n", "j=-1", "j=n"), func(e *env) func() {
		n := e.c.R
		if (e.c.Kind == "outside-triangle" || e.c.Kind == "outside-band") && n < 2 {
			n = 2
		}
		k := e.rng.Intn(n)
		if e.c.Kind == "outside-band" {
			k = e.rng.Intn(n - 1)
		}
		kind := mat.TriKind(e.rng.Intn(2) == 0)
		reg := e.alloc("t", n*(k+1))
		reg.allowed = allTrue(len(reg.buf))
		t := mat.NewTriBandDense(n, k, kind, reg.buf)
		i, j := pick(e, n, "i=-1", "i=n"), pick(e, n, "j=-1", "j=n")
		switch {
		case e.is("outside-triangle"):
			i, j = 1, 0 // below the diagonal
			if kind == mat.Lower {
				i, j = 0, 1
			}
		case e.is("outside-band"):
			i, j = 0, n-1 // inside the triangle, k+1 or more off the diagonal
			if kind == mat.Lower {
				i, j = n-1, 0
			}
		default:
			if i >= 0 && i < n && j >= 0 && j < n {
				ok := abs(i-j) <= k && ((kind == mat.Upper && i <= j) || (kind == mat.Lower && i >= j))
				if !ok {
					j = i
				}
			}
		}
		return func() { t.SetTriBand(i, j, 42) }
	})
	add("DiagDense.SetDiag", false, ks("i=-1", "i=n"), func(e *env) func() {
		reg := e.alloc("d", e.c.R)
		reg.allowed = allTrue(e.c.R)
		d := mat.NewDiagDense(e.c.R, reg.buf)
		i := pick(e, e.c.R, "i=-1", "i=n")
		return func() { d.SetDiag(i, 42) }
	})
	add("Tridiag.SetBand", false, ks("outside", "i=-1", "i=n", "j=-1", "j=n"), func(e *env) func() {
		n := e.c.R
		if e.c.Kind == "outside" && n < 3 {
			n = 3
		}
		a := e.tridiag("a", n)
		for _, r := range e.regs {
			r.allowed = allTrue(len(r.buf))
		}
		i, j := pick(e, n, "i=-1", "i=n"), pick(e, n, "j=-1", "j=n")
		if e.is("outside") {
			i, j = 0, 2+e.rng.Intn(n-2)
			if e.rng.Intn(2) == 0 {
				i, j = j, i
			}
		} else if i >= 0 && i < n && j >= 0 && j < n && abs(i-j) > 1 {
			j = i
		}
		return func() { a.SetBand(i, j, 42) }
	})
}

func abs(a int) int {
	if a < 0 {
		return -a
	}
	return a
}

// registerCtors: constructors. "If neither of these is true, NewX will panic.
// NewX will panic if n is zero." plus the explicit negative-dimension and
// bandwidth checks.
func registerCtors() {
	// dim returns the (possibly wrong) dimension for the kinds name=0 / name=-1.
	dim := func(e *env, name string, v int) int {
		switch {
		case e.is(name + "=0"):
			return 0
		case e.is(name + "=-1"):
			return -1 - e.rng.Intn(2)
		}
		return v
	}
	// data returns nil (valid calls only, half of the time) or a slice of the
	// required length, off by one for the kind data.len.
	data := func(e *env, need int) []float64 {
		if e.c.Kind == "" && e.rng.Intn(2) == 0 {
			return nil
		}
		if need < 0 {
			need = 0
		}
		if e.c.Kind == "data.len" {
			return e.floats("data", need, false)
		}
		return e.alloc("data", need).buf
	}
	add("NewDense", false, ks("r=0", "c=0", "r=-1", "c=-1", "data.len"), func(e *env) func() {
		r, c := dim(e, "r", e.c.R), dim(e, "c", e.c.C)
		d := data(e, r*c)
		return func() { mat.NewDense(r, c, d) }
	})
	add("NewVecDense", false, ks("n=0", "n=-1", "data.len"), func(e *env) func() {
		n := dim(e, "n", e.c.R)
		d := data(e, n)
		return func() { mat.NewVecDense(n, d) }
	})
	add("NewSymDense", false, ks("n=0", "n=-1", "data.len"), func(e *env) func() {
		n := dim(e, "n", e.c.R)
		d := data(e, n*n)
		return func() { mat.NewSymDense(n, d) }
	})
	add("NewTriDense", false, ks("n=0", "n=-1", "data.len"), func(e *env) func() {
		n := dim(e, "n", e.c.R)
		d := data(e, n*n)
		kind := mat.TriKind(e.rng.Intn(2) == 0)
		return func() { mat.NewTriDense(n, kind, d) }
	})
	add("NewDiagDense", false, ks("n=0", "n=-1", "data.len"), func(e *env) func() {
		n := dim(e, "n", e.c.R)
		d := data(e, n)
		return func() { mat.NewDiagDense(n, d) }
	})
	// NewBandDense: "kl must be at least zero and less r, and ku must be at least zero and less than c".
	add("NewBandDense", false, ks("r=0", "c=0", "r=-1", "c=-1", "kl=-1", "ku=-1", "kl=r", "ku=c", "data.len"), func(e *env) func() {
		r0, c0 := e.c.R, e.c.C
		kl, ku := e.rng.Intn(r0), e.rng.Intn(c0)
		r, c := dim(e, "r", r0), dim(e, "c", c0)
		switch {
		case e.is("kl=-1"):
			kl = -1
		case e.is("ku=-1"):
			ku = -1
		case e.is("kl=r"):
			kl = r + e.rng.Intn(2)
		case e.is("ku=c"):
			ku = c + e.rng.Intn(2)
		}
		need := 0
		if r > 0 && c > 0 && kl >= 0 && ku >= 0 {
			need = min(r, c+kl) * (kl + ku + 1)
		}
		d := data(e, need)
		return func() { mat.NewBandDense(r, c, kl, ku, d) }
	})
	// NewDiagonalRect: "The length of data must be min(r, c) otherwise NewDiagonalRect will panic."
	add("NewDiagonalRect", false, ks("r=0", "c=0", "data.len"), func(e *env) func() {
		r, c := dim(e, "r", e.c.R), dim(e, "c", e.c.C)
		d := data(e, min(r, c))
		return func() { mat.NewDiagonalRect(r, c, d) }
	})
	// NewSymBandDense / NewTriBandDense: "k must be at least zero and less than n".
	for _, tri := range []bool{false, true} {
		tri := tri
		name := "NewSymBandDense"
		if tri {
			name = "NewTriBandDense"
		}
		add(name, false, ks("n=0", "n=-1", "k=-1", "k=n", "data.len"), func(e *env) func() {
			k := e.rng.Intn(e.c.R)
			n := dim(e, "n", e.c.R)
			switch {
			case e.is("k=-1"):
				k = -1
			case e.is("k=n"):
				k = n + e.rng.Intn(2)
			}
			need := 0
			if n > 0 && k >= 0 {
				need = n * (k + 1)
			}
			d := data(e, need)
			kind := mat.TriKind(e.rng.Intn(2) == 0)
			if tri {
				return func() { mat.NewTriBandDense(n, k, kind, d) }
			}
			return func() { mat.NewSymBandDense(n, k, d) }
		})
	}
	// NewTridiag: "If dl and du have length n-1 and d has length n, they will be used ... If neither of these is true, NewTridiag will panic."
	add("NewTridiag", false, ks("n=0", "n=-1", "dl.len", "d.len", "du.len"), func(e *env) func() {
		n := dim(e, "n", e.c.R)
		if e.c.Kind == "" && e.rng.Intn(2) == 0 {
			return func() { mat.NewTridiag(n, nil, nil, nil) }
		}
		m := max(n, 1)
		dl, d, du := e.floats("dl", m-1, false), e.floats("d", m, false), e.floats("du", m-1, false)
		return func() { mat.NewTridiag(n, dl, d, du) }
	})
}

// ---- factorizations ---------------------------------------------------------

func (e *env) luOf(n int) *mat.LU {
	a := e.denseView("lu.a", n, n, 0, 0, false)
	e.wellCond(a)
	lu := &mat.LU{}
	lu.Factorize(a)
	e.sigAt("lu", lu)
	return lu
}

func (e *env) cholOf(name string, n int) *mat.Cholesky {
	a := e.spd(name+".a", n)
	ch := &mat.Cholesky{}
	if !ch.Factorize(a) {
		panic("harness: SPD matrix did not factorize")
	}
	e.sigAt(name, ch)
	return ch
}

func (e *env) qrOf(r, c int) *mat.QR {
	a := e.denseView("qr.a", r, c, 0, 0, false)
	for i := 0; i < min(r, c); i++ {
		a.Set(i, i, 7+e.rng.Float())
	}
	qr := &mat.QR{}
	qr.Factorize(a)
	e.sigAt("qr", qr)
	return qr
}

func (e *env) lqOf(r, c int) *mat.LQ {
	a := e.denseView("lq.a", r, c, 0, 0, false)
	for i := 0; i < min(r, c); i++ {
		a.Set(i, i, 7+e.rng.Float())
	}
	lq := &mat.LQ{}
	lq.Factorize(a)
	e.sigAt("lq", lq)
	return lq
}

func (e *env) svdOf(r, c int, kind mat.SVDKind) *mat.SVD {
	a := e.denseView("svd.a", r, c, 0, 0, false)
	for i := 0; i < min(r, c); i++ {
		a.Set(i, i, 7+e.rng.Float())
	}
	svd := &mat.SVD{}
	if !svd.Factorize(a, kind) {
		panic("harness: SVD did not converge")
	}
	e.sig("svd", func() string {
		s := fmt.Sprint(bitsOf(svd.Values(nil)))
		if kind&(mat.SVDThinU|mat.SVDFullU) != 0 {
			var u mat.Dense
			svd.UTo(&u)
			s += fmt.Sprint(bitsOf(u.RawMatrix().Data))
		}
		if kind&(mat.SVDThinV|mat.SVDFullV) != 0 {
			var v mat.Dense
			svd.VTo(&v)
			s += fmt.Sprint(bitsOf(v.RawMatrix().Data))
		}
		return s
	})
	return svd
}

func bitsOf(x []float64) []uint64 {
	b := make([]uint64, len(x))
	for i, v := range x {
		b[i] = math.Float64bits(v)
	}
	return b
}

func (e *env) ints(name string, n int) []int {
	return make([]int, e.f(name+".len", n))
}

func registerFactor() {
	dstRC := ks("dst.rows", "dst.cols")
	dstT := ks("dst.n", "dst.kind")
	tf := func(e *env) bool { return e.rng.Intn(2) == 0 }

	// ---- LU ----
	// Factorize: explicit check m != n -> ErrSquare.
	add("LU.Factorize", false, ks("a.cols"), func(e *env) func() {
		a := e.matrix("a", e.c.R, e.c.R)
		lu := &mat.LU{}
		return func() { lu.Factorize(a) }
	})
	// SolveTo: explicit check rows(b) != n; "will panic if the receiver does not contain a factorization".
	add("LU.SolveTo", true, join(dstRC, "b.rows", "unfactorized"), func(e *env) func() {
		lu := &mat.LU{}
		if !e.is("unfactorized") {
			lu = e.luOf(e.c.R)
		}
		b := e.matrix("b", e.c.R, e.c.K)
		dst := e.recvDenseN("dst", e.c.R, e.c.K)
		trans := tf(e)
		return func() { _ = lu.SolveTo(dst, trans, b) }
	})
	add("LU.SolveVecTo", true, ks("dst.len", "b.len", "unfactorized"), func(e *env) func() {
		lu := &mat.LU{}
		if !e.is("unfactorized") {
			lu = e.luOf(e.c.R)
		}
		b := e.vector("b", e.c.R)
		dst := e.recvVecN("dst", e.c.R)
		trans := tf(e)
		return func() { _ = lu.SolveVecTo(dst, trans, b) }
	})
	// LTo / UTo: "When dst is non-empty, LTo will panic if dst is not n×n or not Lower."
	add("LU.LTo", true, join(dstT, "unfactorized"), func(e *env) func() {
		lu := &mat.LU{}
		if !e.is("unfactorized") {
			lu = e.luOf(e.c.R)
		}
		dst := e.recvTriN("dst", e.c.R, mat.Lower)
		return func() { lu.LTo(dst) }
	})
	add("LU.UTo", true, join(dstT, "unfactorized"), func(e *env) func() {
		lu := &mat.LU{}
		if !e.is("unfactorized") {
			lu = e.luOf(e.c.R)
		}
		dst := e.recvTriN("dst", e.c.R, mat.Upper)
		return func() { lu.UTo(dst) }
	})
	// RowPivots: "If dst is not nil and the length of dst does not equal the size of the factorized matrix, RowPivots will panic."
	add("LU.RowPivots", false, ks("dst.len", "unfactorized"), func(e *env) func() {
		lu := &mat.LU{}
		if !e.is("unfactorized") {
			lu = e.luOf(e.c.R)
		}
		dst := e.ints("dst", e.c.R)
		if e.c.Kind == "" && tf(e) {
			dst = nil
		}
		return func() { lu.RowPivots(dst) }
	})
	// RankOne: explicit checks on x, y and on a non-zero receiver of another size; "will panic if orig does not contain a factorization".
	add("LU.RankOne", false, ks("x.len", "y.len", "unfactorized", "recv.n"), func(e *env) func() {
		orig := &mat.LU{}
		if !e.is("unfactorized") {
			orig = e.luOf(e.c.R)
		}
		x, y := e.vector("x", e.c.R), e.vector("y", e.c.R)
		recv := &mat.LU{}
		if w := e.f("recv.n", e.c.R); w != e.c.R {
			a := e.denseView("recv.a", w, w, 0, 0, false)
			e.wellCond(a)
			recv.Factorize(a)
			e.sigAt("recv", recv)
		} else if tf(e) {
			recv = orig
			e.sigs, e.sigName, e.sigIn = nil, nil, nil // the receiver is orig: it is updated in place
		}
		return func() { recv.RankOne(orig, 0.25, x, y) }
	})

	// ---- Cholesky ----
	add("Cholesky.SolveTo", true, join(dstRC, "b.rows", "unfactorized"), func(e *env) func() {
		ch := &mat.Cholesky{}
		if !e.is("unfactorized") {
			ch = e.cholOf("chol", e.c.R)
		}
		b := e.matrix("b", e.c.R, e.c.K)
		dst := e.recvDenseN("dst", e.c.R, e.c.K)
		return func() { _ = ch.SolveTo(dst, b) }
	})
	add("Cholesky.SolveVecTo", true, ks("dst.len", "b.len", "unfactorized"), func(e *env) func() {
		ch := &mat.Cholesky{}
		if !e.is("unfactorized") {
			ch = e.cholOf("chol", e.c.R)
		}
		b := e.vector("b", e.c.R)
		dst := e.recvVecN("dst", e.c.R)
		return func() { _ = ch.SolveVecTo(dst, b) }
	})
	// SolveCholTo: explicit check a.n != b.n.
	add("Cholesky.SolveCholTo", true, join(dstRC, "b.n", "unfactorized"), func(e *env) func() {
		a := &mat.Cholesky{}
		if !e.is("unfactorized") {
			a = e.cholOf("chol", e.c.R)
		}
		b := e.cholOf("b", e.f("b.n", e.c.R))
		dst := e.recvDenseN("dst", e.c.R, e.c.R)
		return func() { _ = a.SolveCholTo(dst, b) }
	})
	// UTo / LTo: "When dst is non-empty, UTo panics if dst is not n×n or not Upper."
	add("Cholesky.UTo", true, join(dstT, "unfactorized"), func(e *env) func() {
		ch := &mat.Cholesky{}
		if !e.is("unfactorized") {
			ch = e.cholOf("chol", e.c.R)
		}
		dst := e.recvTriN("dst", e.c.R, mat.Upper)
		return func() { ch.UTo(dst) }
	})
	add("Cholesky.LTo", true, join(dstT, "unfactorized"), func(e *env) func() {
		ch := &mat.Cholesky{}
		if !e.is("unfactorized") {
			ch = e.cholOf("chol", e.c.R)
		}
		dst := e.recvTriN("dst", e.c.R, mat.Lower)
		return func() { ch.LTo(dst) }
	})
	// ToSym: "If dst is non-empty, ToSym panics if dst is not of size n×n."
	add("Cholesky.ToSym", true, ks("dst.n", "unfactorized"), func(e *env) func() {
		ch := &mat.Cholesky{}
		if !e.is("unfactorized") {
			ch = e.cholOf("chol", e.c.R)
		}
		dst := e.recvSymN("dst", e.c.R)
		return func() { ch.ToSym(dst) }
	})
	add("Cholesky.InverseTo", true, ks("dst.n", "unfactorized"), func(e *env) func() {
		ch := &mat.Cholesky{}
		if !e.is("unfactorized") {
			ch = e.cholOf("chol", e.c.R)
		}
		dst := e.recvSymN("dst", e.c.R)
		return func() { _ = ch.InverseTo(dst) }
	})
	// Scale: "panics if the constant is non-positive, or if the receiver is non-empty and is of a different size from the input".
	add("Cholesky.Scale", false, ks("f<=0", "recv.n", "unfactorized"), func(e *env) func() {
		orig := &mat.Cholesky{}
		if !e.is("unfactorized") {
			orig = e.cholOf("chol", e.c.R)
		}
		f := 0.5 + e.rng.Float()
		if e.is("f<=0") {
			f = []float64{0, -1, math.Inf(-1)}[e.rng.Intn(3)]
		}
		recv := &mat.Cholesky{}
		if w := e.f("recv.n", e.c.R); w != e.c.R {
			recv = e.cholOf("recv", w)
		} else if tf(e) {
			recv = orig
			e.sigs, e.sigName, e.sigIn = nil, nil, nil
		}
		return func() { recv.Scale(f, orig) }
	})
	// SymRankOne: explicit checks on x and on a receiver of another size.
	add("Cholesky.SymRankOne", false, ks("x.len", "recv.n", "unfactorized"), func(e *env) func() {
		orig := &mat.Cholesky{}
		if !e.is("unfactorized") {
			orig = e.cholOf("chol", e.c.R)
		}
		x := e.vector("x", e.c.R)
		recv := &mat.Cholesky{}
		if w := e.f("recv.n", e.c.R); w != e.c.R {
			recv = e.cholOf("recv", w)
		} else if tf(e) {
			recv = orig
			e.sigs, e.sigName, e.sigIn = nil, nil, nil
		}
		alpha := []float64{0, 0.5, -0.01}[e.rng.Intn(3)]
		return func() { recv.SymRankOne(orig, alpha, x) }
	})
	// ExtendVecSym: "will panic if v.Len() != a.SymmetricDim()+1 or if a does not contain a valid decomposition".
	add("Cholesky.ExtendVecSym", false, ks("v.len"), func(e *env) func() {
		a := e.cholOf("chol", e.c.R)
		v := e.vector("v", e.c.R+1)
		recv := &mat.Cholesky{}
		return func() { recv.ExtendVecSym(a, v) }
	})

	// ---- BandCholesky / PivotedCholesky ----
	add("BandCholesky.SolveTo", true, join(dstRC, "b.rows", "unfactorized"), func(e *env) func() {
		ch := &mat.BandCholesky{}
		if !e.is("unfactorized") {
			if !ch.Factorize(e.spdBand("a", e.c.R)) {
				panic("harness: SPD band matrix did not factorize")
			}
			e.sigAt("chol", ch)
		}
		b := e.matrix("b", e.c.R, e.c.K)
		dst := e.recvDenseN("dst", e.c.R, e.c.K)
		return func() { _ = ch.SolveTo(dst, b) }
	})
	add("BandCholesky.SolveVecTo", true, ks("dst.len", "b.len", "unfactorized"), func(e *env) func() {
		ch := &mat.BandCholesky{}
		if !e.is("unfactorized") {
			if !ch.Factorize(e.spdBand("a", e.c.R)) {
				panic("harness: SPD band matrix did not factorize")
			}
			e.sigAt("chol", ch)
		}
		b := e.vector("b", e.c.R)
		dst := e.recvVecN("dst", e.c.R)
		return func() { _ = ch.SolveVecTo(dst, b) }
	})
	pchol := func(e *env) *mat.PivotedCholesky {
		ch := &mat.PivotedCholesky{}
		if !e.is("unfactorized") {
			if !ch.Factorize(e.spd("a", e.c.R), -1) {
				panic("harness: SPD matrix did not factorize (pivoted)")
			}
			e.sigAt("chol", ch)
		}
		return ch
	}
	add("PivotedCholesky.SolveTo", true, join(dstRC, "b.rows", "unfactorized"), func(e *env) func() {
		ch := pchol(e)
		b := e.matrix("b", e.c.R, e.c.K)
		dst := e.recvDenseN("dst", e.c.R, e.c.K)
		return func() { _ = ch.SolveTo(dst, b) }
	})
	add("PivotedCholesky.SolveVecTo", true, ks("dst.len", "b.len", "unfactorized"), func(e *env) func() {
		ch := pchol(e)
		b := e.vector("b", e.c.R)
		dst := e.recvVecN("dst", e.c.R)
		return func() { _ = ch.SolveVecTo(dst, b) }
	})
	add("PivotedCholesky.UTo", true, join(dstT, "unfactorized"), func(e *env) func() {
		ch := pchol(e)
		dst := e.recvTriN("dst", e.c.R, mat.Upper)
		return func() { ch.UTo(dst) }
	})
	add("PivotedCholesky.ColumnPivots", false, ks("dst.len", "unfactorized"), func(e *env) func() {
		ch := pchol(e)
		dst := e.ints("dst", e.c.R)
		if e.c.Kind == "" && tf(e) {
			dst = nil
		}
		return func() { ch.ColumnPivots(dst) }
	})

	// ---- QR (m >= n) and LQ (m <= n) ----
	qrDims := func(e *env) (int, int) { return max(e.c.R, e.c.C), min(e.c.R, e.c.C) }
	add("QR.Factorize", false, ks("wide"), func(e *env) func() {
		r, c := qrDims(e)
		if e.is("wide") {
			r, c = c, r+1
		}
		a := e.matrix("a", r, c)
		qr := &mat.QR{}
		return func() { qr.Factorize(a) }
	})
	add("LQ.Factorize", false, ks("tall"), func(e *env) func() {
		c, r := qrDims(e)
		if e.is("tall") {
			r, c = c+1, r
		}
		a := e.matrix("a", r, c)
		lq := &mat.LQ{}
		return func() { lq.Factorize(a) }
	})
	// RTo / QTo / LTo: "When dst is non-empty, RTo will panic if dst is not r×c."
	add("QR.RTo", true, join(dstRC, "unfactorized"), func(e *env) func() {
		r, c := qrDims(e)
		qr := &mat.QR{}
		if !e.is("unfactorized") {
			qr = e.qrOf(r, c)
		}
		dst := e.recvDenseN("dst", r, c)
		return func() { qr.RTo(dst) }
	})
	add("QR.QTo", true, join(dstRC, "unfactorized"), func(e *env) func() {
		r, c := qrDims(e)
		qr := &mat.QR{}
		if !e.is("unfactorized") {
			qr = e.qrOf(r, c)
		}
		dst := e.recvDenseN("dst", r, r)
		return func() { qr.QTo(dst) }
	})
	add("LQ.LTo", true, join(dstRC, "unfactorized"), func(e *env) func() {
		c, r := qrDims(e)
		lq := &mat.LQ{}
		if !e.is("unfactorized") {
			lq = e.lqOf(r, c)
		}
		dst := e.recvDenseN("dst", r, c)
		return func() { lq.LTo(dst) }
	})
	add("LQ.QTo", true, join(dstRC, "unfactorized"), func(e *env) func() {
		c, r := qrDims(e)
		lq := &mat.LQ{}
		if !e.is("unfactorized") {
			lq = e.lqOf(r, c)
		}
		dst := e.recvDenseN("dst", c, c)
		return func() { lq.QTo(dst) }
	})
	// SolveTo: explicit checks on rows(b) for both values of trans; dst via reuseAsNonZeroed.
	add("QR.SolveTo", true, join(dstRC, "b.rows", "unfactorized"), func(e *env) func() {
		r, c := qrDims(e)
		qr := &mat.QR{}
		if !e.is("unfactorized") {
			qr = e.qrOf(r, c)
		}
		trans := tf(e)
		br, xr := r, c
		if trans {
			br, xr = c, r
		}
		b := e.matrix("b", br, e.c.K)
		dst := e.recvDenseN("dst", xr, e.c.K)
		return func() { _ = qr.SolveTo(dst, trans, b) }
	})
	add("QR.SolveVecTo", true, ks("dst.len", "b.len", "unfactorized"), func(e *env) func() {
		r, c := qrDims(e)
		qr := &mat.QR{}
		if !e.is("unfactorized") {
			qr = e.qrOf(r, c)
		}
		trans := tf(e)
		br, xr := r, c
		if trans {
			br, xr = c, r
		}
		b := e.vector("b", br)
		dst := e.recvVecN("dst", xr)
		return func() { _ = qr.SolveVecTo(dst, trans, b) }
	})
	add("LQ.SolveTo", true, join(dstRC, "b.rows", "unfactorized"), func(e *env) func() {
		c, r := qrDims(e)
		lq := &mat.LQ{}
		if !e.is("unfactorized") {
			lq = e.lqOf(r, c)
		}
		trans := tf(e)
		br, xr := r, c
		if trans {
			br, xr = c, r
		}
		b := e.matrix("b", br, e.c.K)
		dst := e.recvDenseN("dst", xr, e.c.K)
		return func() { _ = lq.SolveTo(dst, trans, b) }
	})
	add("LQ.SolveVecTo", true, ks("dst.len", "b.len", "unfactorized"), func(e *env) func() {
		c, r := qrDims(e)
		lq := &mat.LQ{}
		if !e.is("unfactorized") {
			lq = e.lqOf(r, c)
		}
		trans := tf(e)
		br, xr := r, c
		if trans {
			br, xr = c, r
		}
		b := e.vector("b", br)
		dst := e.recvVecN("dst", xr)
		return func() { _ = lq.SolveVecTo(dst, trans, b) }
	})

	// ---- SVD ----
	kindOf := func(e *env) mat.SVDKind {
		return []mat.SVDKind{mat.SVDThin, mat.SVDFull, mat.SVDThinU | mat.SVDFullV, mat.SVDFullU | mat.SVDThinV}[e.rng.Intn(4)]
	}
	// Values: explicit check len(s) != len(svd.s); "will panic if the receiver does not contain a successful factorization".
	add("SVD.Values", false, ks("s.len", "unfactorized"), func(e *env) func() {
		svd := &mat.SVD{}
		if !e.is("unfactorized") {
			svd = e.svdOf(e.c.R, e.c.C, kindOf(e))
		}
		s := e.floats("s", min(e.c.R, e.c.C), true)
		if e.c.Kind == "" && tf(e) {
			s = nil
		}
		return func() { svd.Values(s) }
	})
	// UTo / VTo: "When dst is non-empty, then UTo will panic if dst is not the appropriate size."
	add("SVD.UTo", true, join(dstRC, "unfactorized", "nou"), func(e *env) func() {
		kind := kindOf(e)
		if e.is("nou") {
			kind = mat.SVDThinV
		}
		svd := &mat.SVD{}
		if !e.is("unfactorized") {
			svd = e.svdOf(e.c.R, e.c.C, kind)
		}
		uc := min(e.c.R, e.c.C)
		if kind&mat.SVDFullU != 0 {
			uc = e.c.R
		}
		dst := e.recvDenseN("dst", e.c.R, uc)
		return func() { svd.UTo(dst) }
	})
	add("SVD.VTo", true, join(dstRC, "unfactorized", "nov"), func(e *env) func() {
		kind := kindOf(e)
		if e.is("nov") {
			kind = mat.SVDThinU
		}
		svd := &mat.SVD{}
		if !e.is("unfactorized") {
			svd = e.svdOf(e.c.R, e.c.C, kind)
		}
		vc := min(e.c.R, e.c.C)
		if kind&mat.SVDFullV != 0 {
			vc = e.c.C
		}
		dst := e.recvDenseN("dst", e.c.C, vc)
		return func() { svd.VTo(dst) }
	})
	// SolveTo: "rank out of range" explicit check; b and dst through Mul's checks.
	add("SVD.SolveTo", true, join(dstRC, "b.rows", "unfactorized", "rank=0", "rank>"), func(e *env) func() {
		svd := &mat.SVD{}
		if !e.is("unfactorized") {
			svd = e.svdOf(e.c.R, e.c.C, kindOf(e))
		}
		rank := 1 + e.rng.Intn(min(e.c.R, e.c.C))
		if e.is("rank=0") {
			rank = -e.rng.Intn(2)
		} else if e.is("rank>") {
			rank = min(e.c.R, e.c.C) + 1
		}
		b := e.matrix("b", e.c.R, e.c.K)
		dst := e.recvDenseN("dst", e.c.C, e.c.K)
		return func() { svd.SolveTo(dst, b, rank) }
	})
	add("SVD.SolveVecTo", true, ks("dst.len", "b.len", "unfactorized", "rank=0", "rank>"), func(e *env) func() {
		svd := &mat.SVD{}
		if !e.is("unfactorized") {
			svd = e.svdOf(e.c.R, e.c.C, kindOf(e))
		}
		rank := 1 + e.rng.Intn(min(e.c.R, e.c.C))
		if e.is("rank=0") {
			rank = -e.rng.Intn(2)
		} else if e.is("rank>") {
			rank = min(e.c.R, e.c.C) + 1
		}
		b := e.vector("b", e.c.R)
		dst := e.recvVecN("dst", e.c.C)
		return func() { svd.SolveVecTo(dst, b, rank) }
	})

	// ---- EigenSym ----
	eig := func(e *env, vectors bool) *mat.EigenSym {
		es := &mat.EigenSym{}
		if !e.is("unfactorized") {
			if !es.Factorize(e.sym("a", e.c.R), vectors) {
				panic("harness: EigenSym did not converge")
			}
		}
		return es
	}
	add("EigenSym.Values", false, ks("dst.len", "unfactorized"), func(e *env) func() {
		es := eig(e, tf(e))
		dst := e.floats("dst", e.c.R, true)
		if e.c.Kind == "" && tf(e) {
			dst = nil
		}
		return func() { es.Values(dst) }
	})
	add("EigenSym.VectorsTo", true, join(dstRC, "unfactorized", "novectors"), func(e *env) func() {
		es := eig(e, !e.is("novectors"))
		dst := e.recvDenseN("dst", e.c.R, e.c.R)
		return func() { es.VectorsTo(dst) }
	})
}

// ---- package functions ------------------------------------------------------

func registerFuncs() {
	// Inner: explicit checks x.Len() != m, y.Len() != n.
	add("Inner", false, ks("x.len", "y.len"), func(e *env) func() {
		a := e.matrix("a", e.c.R, e.c.C)
		x, y := e.vector("x", e.c.R), e.vector("y", e.c.C)
		return func() { mat.Inner(x, a, y) }
	})
	// Dot: "panics with ErrShape if the vector sizes are unequal".
	add("Dot", false, ks("a.len", "b.len"), func(e *env) func() {
		a, b := e.vector("a", e.c.R), e.vector("b", e.c.R)
		return func() { mat.Dot(a, b) }
	})
	// Col / Row: "The length of the provided slice must equal the number of rows, unless the slice is nil"; explicit index check.
	add("Col", false, ks("j=-1", "j=n", "dst.len"), func(e *env) func() {
		a := e.matrix("a", e.c.R, e.c.C)
		j := e.rng.Intn(e.c.C)
		if e.is("j=-1") {
			j = -1
		} else if e.is("j=n") {
			j = e.c.C
		}
		dst := e.floats("dst", e.c.R, true)
		if e.c.Kind != "dst.len" && e.rng.Intn(3) == 0 {
			dst = nil
		}
		return func() { mat.Col(dst, j, a) }
	})
	add("Row", false, ks("j=-1", "j=n", "dst.len"), func(e *env) func() {
		a := e.matrix("a", e.c.R, e.c.C)
		i := e.rng.Intn(e.c.R)
		if e.is("j=-1") {
			i = -1
		} else if e.is("j=n") {
			i = e.c.R
		}
		dst := e.floats("dst", e.c.C, true)
		if e.c.Kind != "dst.len" && e.rng.Intn(3) == 0 {
			dst = nil
		}
		return func() { mat.Row(dst, i, a) }
	})
	// Equal / EqualApprox: "Matrices with non-equal shapes are not equal." - they return false, never panic.
	add("Equal", false, nil, func(e *env) func() {
		a := e.matrix("a", e.c.R, e.c.C)
		b := e.matrix("b", []int{e.c.R, e.c.K}[e.rng.Intn(2)], []int{e.c.C, e.c.K}[e.rng.Intn(2)])
		return func() {
			mat.Equal(a, b)
			mat.EqualApprox(a, b, 1e-8)
		}
	})
	// Trace / Det / LogDet: "panics with ErrSquare if a is not square".
	add("Trace", false, ks("a.cols"), func(e *env) func() {
		a := e.matrix("a", e.c.R, e.c.R)
		return func() { mat.Trace(a) }
	})
	add("Det", false, ks("a.cols"), func(e *env) func() {
		a := e.matrix("a", e.c.R, e.c.R)
		return func() {
			mat.Det(a)
			mat.LogDet(a)
		}
	})
	// Norm / Cond: "will panic with ErrNormOrder if an illegal norm is specified" / "mat: bad norm value".
	add("Norm", false, ks("badnorm"), func(e *env) func() {
		a := e.matrix("a", e.c.R, e.c.C)
		norm := []float64{1, 2, math.Inf(1)}[e.rng.Intn(3)]
		if e.is("badnorm") {
			norm = []float64{0, 3, -1, math.NaN()}[e.rng.Intn(4)]
		}
		return func() { mat.Norm(a, norm) }
	})
	add("Cond", false, ks("badnorm"), func(e *env) func() {
		a := e.matrix("a", e.c.R, e.c.C)
		norm := []float64{1, 2, math.Inf(1)}[e.rng.Intn(3)]
		if e.is("badnorm") {
			norm = []float64{0, 3, -1, math.NaN()}[e.rng.Intn(4)]
		}
		return func() { mat.Cond(a, norm) }
	})
	// Max / Min / Sum: "will panic with ErrZeroLength if the matrix has zero size".
	add("MaxMinSum", false, ks("empty"), func(e *env) func() {
		a := e.matrix("a", e.c.R, e.c.C)
		if e.is("empty") {
			a = []mat.Matrix{&mat.Dense{}, &mat.VecDense{}, &mat.SymDense{}, &mat.TriDense{}, mat.Transpose{Matrix: &mat.Dense{}}}[e.rng.Intn(5)]
		}
		which := e.rng.Intn(3)
		return func() {
			switch which {
			case 0:
				mat.Max(a)
			case 1:
				mat.Min(a)
			default:
				mat.Sum(a)
			}
		}
	})
}
