#!/usr/bin/env python3
"""Sensitivity check for harness/c07mat: applies each small mutation of gonum/mat
(or blas64) to a scratch copy of /repo and runs the package against it.

  cp -r /repo /var/tmp/mut-c07m            # scratch copy (remove afterwards)
  cd /verif/harness && cp go.mod /var/tmp/mm.mod && cp go.sum /var/tmp/mm.sum
  sed -i 's#=> /repo#=> /var/tmp/mut-c07m#' /var/tmp/mm.mod
  python3 /verif/harness/c07mat/mutants.py [M3 M17 ...]

Every mutant must be reported KILLED (54 of 54 when this file was written).
"""
import subprocess, shutil, sys, os
MUT='/var/tmp/mut-c07m'; REPO='/repo'
muts = [
 ("M1 reuseAsNonZeroed accepts smaller result", "mat/dense.go", "	if r != m.mat.Rows || c != m.mat.Cols {\n		panic(ErrShape)\n	}\n}\n\n// reuseAsZeroed resizes", "	if r > m.mat.Rows || c > m.mat.Cols {\n		panic(ErrShape)\n	}\n}\n\n// reuseAsZeroed resizes", ""),
 ("M2 Dense.Mul checks ac!=br after resizing the receiver", "mat/dense_arithmetic.go", "	if ac != br {\n		panic(ErrShape)\n	}\n\n	aU, aTrans := untransposeExtract(a)\n	bU, bTrans := untransposeExtract(b)\n	m.reuseAsNonZeroed(ar, bc)\n", "	aU, aTrans := untransposeExtract(a)\n	bU, bTrans := untransposeExtract(b)\n	m.reuseAsNonZeroed(ar, bc)\n	if ac != br {\n		panic(ErrShape)\n	}\n", ""),
 ("M3 VecDense.AddVec without length check", "mat/vector.go", "func (v *VecDense) AddVec(a, b Vector) {\n	ar := a.Len()\n	br := b.Len()\n\n	if ar != br {\n		panic(ErrShape)\n	}\n", "func (v *VecDense) AddVec(a, b Vector) {\n	ar := a.Len()\n	br := b.Len()\n	_ = br\n", ""),
 ("M4 Dense.slice accepts k == cap+1", "mat/dense.go", "k < i || mr < k ||", "k < i || mr+1 < k ||", ""),
 ("M5 SymRankOne without shape check", "mat/symmetric.go", "	n := x.Len()\n	if a.SymmetricDim() != n {\n		panic(ErrShape)\n	}\n", "	n := x.Len()\n", ""),
 ("M6 Dense.at off by one (bounds build)", "mat/index_bound_checks.go", "func (m *Dense) at(i, j int) float64 {\n	if uint(i) >= uint(m.mat.Rows) {", "func (m *Dense) at(i, j int) float64 {\n	if uint(i) > uint(m.mat.Rows) {", "bounds"),
 ("M6b Dense.Set column off by one (default build)", "mat/index_no_bound_checks.go", "func (m *Dense) Set(i, j int, v float64) {\n	if uint(i) >= uint(m.mat.Rows) {\n		panic(ErrRowAccess)\n	}\n	if uint(j) >= uint(m.mat.Cols) {", "func (m *Dense) Set(i, j int, v float64) {\n	if uint(i) >= uint(m.mat.Rows) {\n		panic(ErrRowAccess)\n	}\n	if uint(j) > uint(m.mat.Cols) {", ""),
 ("M7 VecDense.reuseAsNonZeroed accepts longer receiver", "mat/vector.go", "	if r != v.mat.N {\n		panic(ErrShape)\n	}\n}\n\n// reuseAsZeroed", "	if r > v.mat.N {\n		panic(ErrShape)\n	}\n}\n\n// reuseAsZeroed", ""),
 ("M8 TriDense.reuseAsNonZeroed ignores orientation", "mat/triangular.go", "	if t.mat.Uplo != ul {\n		panic(ErrTriangle)\n	}\n}\n\n// reuseAsZeroed", "}\n\n// reuseAsZeroed", ""),
 ("M9 LU.SolveTo without rows(b) check", "mat/lu.go", "	br, bc := b.Dims()\n	if br != n {\n		panic(ErrShape)\n	}\n\n	if !lu.ok {", "	_, bc := b.Dims()\n\n	if !lu.ok {", ""),
 ("M10 Dense.SetRow copies before checking len(src)", "mat/dense.go", "	if len(src) != m.mat.Cols {\n		panic(ErrRowLength)\n	}\n\n	copy(m.rawRowView(i), src)", "	copy(m.rawRowView(i), src)\n	if len(src) != m.mat.Cols {\n		panic(ErrRowLength)\n	}\n", ""),
 ("M11 Col accepts j == c", "mat/matrix.go", "	if j < 0 || j >= c {\n		panic(ErrColAccess)", "	if j < 0 || j > c {\n		panic(ErrColAccess)", ""),
 ("M12 NewBandDense accepts kl == r", "mat/band.go", "if kl+1 > r || ku+1 > c {", "if kl > r || ku+1 > c {", ""),
 ("M13 SetTriBand without band check", "mat/index_no_bound_checks.go", "	pj := j + kl - i\n	if pj < 0 || kl+ku+1 <= pj {\n		panic(ErrBandSet)\n	}\n	// TODO(btracey): Support Diag field, see #692.\n	t.mat.Data[i*t.mat.Stride+pj] = v", "	pj := j + kl - i\n	if pj < 0 || kl+ku+2 <= pj {\n		panic(ErrBandSet)\n	}\n	// TODO(btracey): Support Diag field, see #692.\n	t.mat.Data[i*t.mat.Stride+pj] = v", ""),
 ("M14 SetSym column off by one", "mat/index_no_bound_checks.go", "func (s *SymDense) SetSym(i, j int, v float64) {\n	if uint(i) >= uint(s.mat.N) {\n		panic(ErrRowAccess)\n	}\n	if uint(j) >= uint(s.mat.N) {", "func (s *SymDense) SetSym(i, j int, v float64) {\n	if uint(i) >= uint(s.mat.N) {\n		panic(ErrRowAccess)\n	}\n	if uint(j) > uint(s.mat.N) {", ""),
 ("M15 Dense.reuseAsZeroed zeroes before the shape check", "mat/dense.go", "	if r != m.mat.Rows || c != m.mat.Cols {\n		panic(ErrShape)\n	}\n	m.Zero()\n}", "	m.Zero()\n	if r != m.mat.Rows || c != m.mat.Cols {\n		panic(ErrShape)\n	}\n}", ""),
 ("M16 Stack without column check", "mat/dense.go", "	if ac != bc || m == a || m == b {\n		panic(ErrShape)\n	}\n\n	m.reuseAsNonZeroed(ar+br, ac)", "	if m == a || m == b {\n		panic(ErrShape)\n	}\n\n	m.reuseAsNonZeroed(ar+br, ac)", ""),
 ("M17 QR.SolveTo trans branch checks the wrong dimension", "mat/qr.go", "	if trans {\n		if c != br {\n			panic(ErrShape)\n		}\n		dst.reuseAsNonZeroed(r, bc)", "	if trans {\n		if r != br && c != br {\n			panic(ErrShape)\n		}\n		dst.reuseAsNonZeroed(r, bc)", ""),
 ("M19 SliceVec accepts k == cap+1", "mat/vector.go", "if i < 0 || k <= i || v.Cap() < k {", "if i < 0 || k <= i || v.Cap()+1 < k {", ""),
 ("M20 Tridiag.SolveVecTo without length check", "mat/tridiag.go", "func (a *Tridiag) SolveVecTo(dst *VecDense, trans bool, b Vector) error {\n	n, nrhs := b.Dims()\n	if n != a.mat.N || nrhs != 1 {\n		panic(ErrShape)\n	}", "func (a *Tridiag) SolveVecTo(dst *VecDense, trans bool, b Vector) error {\n	n, nrhs := b.Dims()\n	if nrhs != 1 {\n		panic(ErrShape)\n	}", ""),
 ("M21 SymDense.reuseAsNonZeroed never checks a non-empty receiver", "mat/symmetric.go", "	if s.mat.N != n {\n		panic(ErrShape)\n	}\n}\n\n// reuseAsNonZeroed resizes an empty matrix to a n×n matrix,\n// or checks that a non-empty matrix is n×n. It then zeros", "}\n\n// reuseAsNonZeroed resizes an empty matrix to a n×n matrix,\n// or checks that a non-empty matrix is n×n. It then zeros", ""),
 ("M22 Dense.Grow accepts a negative column increment", "mat/dense.go", "	if r < 0 || c < 0 {\n		panic(ErrIndexOutOfRange)\n	}\n	if r == 0 && c == 0 {\n		return m", "	if r < 0 {\n		panic(ErrIndexOutOfRange)\n	}\n	if r == 0 && c == 0 {\n		return m", ""),
 ("M23 Cholesky.SolveTo without rows(b) check", "mat/cholesky.go", "	n := c.chol.mat.N\n	bm, bn := b.Dims()\n	if n != bm {\n		panic(ErrShape)\n	}\n\n	dst.reuseAsNonZeroed(bm, bn)\n	if b != dst {", "	bm, bn := b.Dims()\n\n	dst.reuseAsNonZeroed(bm, bn)\n	if b != dst {", ""),
 ("M24 BandDense.MulVecTo checks x against the wrong dimension", "mat/band.go", "	if x.Len() != n {\n		panic(ErrShape)\n	}\n	dst.reuseAsNonZeroed(m)\n\n	t := blas.NoTrans", "	if x.Len() != n && x.Len() != m {\n		panic(ErrShape)\n	}\n	dst.reuseAsNonZeroed(m)\n\n	t := blas.NoTrans", ""),
 ("M25 VecDense.at unchecked under bounds tag", "mat/index_bound_checks.go", "func (v *VecDense) at(i int) float64 {\n	if uint(i) >= uint(v.mat.N) {\n		panic(ErrRowAccess)\n	}", "func (v *VecDense) at(i int) float64 {\n	if i < 0 {\n		panic(ErrRowAccess)\n	}", "bounds"),
 ("M26 Dense.RankOne copies a before checking y", "mat/dense_arithmetic.go", "	if y.Len() != ac {\n		panic(ErrShape)\n	}\n\n	if a != m {\n		aU, _ := untransposeExtract(a)", "	if a != m && !m.IsEmpty() {\n		m.Copy(a)\n	}\n	if y.Len() != ac {\n		panic(ErrShape)\n	}\n\n	if a != m {\n		aU, _ := untransposeExtract(a)", ""),
 ("M28 MulTri without kind check", "mat/triangular.go", "	if kind != kindb {\n		panic(ErrTriangle)\n	}\n", "	_ = kindb\n", ""),
 ("M29 Dense.Exp without square check", "mat/dense_arithmetic.go", "	r, c := a.Dims()\n	if r != c {\n		panic(ErrShape)\n	}\n\n	m.reuseAsNonZeroed(r, r)", "	r, c := a.Dims()\n	_ = c\n\n	m.reuseAsNonZeroed(r, r)", ""),
 ("M30 LU.LTo without orientation check", "mat/lu.go", "		if kind != Lower {\n			panic(ErrTriangle)\n		}\n	}\n	// Extract the lower triangular elements.", "		_ = kind\n	}\n	// Extract the lower triangular elements.", ""),
 ("M32 NewTridiag ignores len(dl)", "mat/tridiag.go", "if len(dl) != n-1 || len(d) != n || len(du) != n-1 {", "if len(d) != n || len(du) != n-1 {", ""),
 ("M33 SVD.SolveTo without upper rank check", "mat/svd.go", "func (svd *SVD) SolveTo(dst *Dense, b Matrix, rank int) []float64 {\n	if !svd.succFact() {\n		panic(badFact)\n	}\n	if rank < 1 || len(svd.s) < rank {", "func (svd *SVD) SolveTo(dst *Dense, b Matrix, rank int) []float64 {\n	if !svd.succFact() {\n		panic(badFact)\n	}\n	if rank < 1 {", ""),
 ("M34 Dense.Permutation without len(p) check", "mat/dense.go", "func (m *Dense) Permutation(n int, p []int) {\n	if len(p) != n {\n		panic(badSliceLength)\n	}\n", "func (m *Dense) Permutation(n int, p []int) {\n", ""),
 ("M35 ColViewOf ignores a non-empty receiver of another length", "mat/vector.go", "	if !v.IsEmpty() && v.mat.N != rm.Rows {\n		panic(ErrShape)\n	}\n\n	v.mat.Inc = rm.Stride", "	v.mat.Inc = rm.Stride", ""),
 ("M36 DiagDense.reuseAsNonZeroed never checks", "mat/diagonal.go", "	if r != d.mat.N {\n		panic(ErrShape)\n	}\n}", "}", ""),
 ("M37 Augment copies a before checking the receiver", "mat/dense.go", "	m.reuseAsNonZeroed(ar, ac+bc)\n\n	m.Copy(a)", "	m.Copy(a)\n	m.reuseAsNonZeroed(ar, ac+bc)\n", ""),
 ("M38 Inner without y check", "mat/inner.go", "	if y.Len() != n {\n		panic(ErrShape)\n	}\n", "", ""),
 ("M39 TriDense.SolveTo without rows(b) check", "mat/triangular.go", "	n, nrhs := b.Dims()\n	if n != t.mat.N {\n		panic(ErrShape)\n	}\n\n	dst.reuseAsNonZeroed(n, nrhs)\n	bU, bTrans := untranspose(b)\n	if dst == bU {\n		if bTrans {\n			work := getDenseWorkspace(n, nrhs, false)\n			defer putDenseWorkspace(work)\n			work.Copy(b)\n			dst.Copy(work)\n		}\n	} else {\n		if rm, ok := bU.(RawMatrixer); ok {\n			dst.checkOverlap(rm.RawMatrix())\n		}\n		dst.Copy(b)\n	}\n\n	transT", "	n, nrhs := b.Dims()\n\n	dst.reuseAsNonZeroed(n, nrhs)\n	bU, bTrans := untranspose(b)\n	if dst == bU {\n		if bTrans {\n			work := getDenseWorkspace(n, nrhs, false)\n			defer putDenseWorkspace(work)\n			work.Copy(b)\n			dst.Copy(work)\n		}\n	} else {\n		if rm, ok := bU.(RawMatrixer); ok {\n			dst.checkOverlap(rm.RawMatrix())\n		}\n		dst.Copy(b)\n	}\n\n	transT", ""),
 ("M40 BandDense.at checks j against Rows (bounds build)", "mat/index_bound_checks.go", "func (b *BandDense) at(i, j int) float64 {\n	if uint(i) >= uint(b.mat.Rows) {\n		panic(ErrRowAccess)\n	}\n	if uint(j) >= uint(b.mat.Cols) {", "func (b *BandDense) at(i, j int) float64 {\n	if uint(i) >= uint(b.mat.Rows) {\n		panic(ErrRowAccess)\n	}\n	if uint(j) >= uint(b.mat.Rows) {", "bounds"),
 ("M41 Dense.Add checks only rows", "mat/dense_arithmetic.go", "func (m *Dense) Add(a, b Matrix) {\n	ar, ac := a.Dims()\n	br, bc := b.Dims()\n	if ar != br || ac != bc {", "func (m *Dense) Add(a, b Matrix) {\n	ar, ac := a.Dims()\n	br, bc := b.Dims()\n	if ar != br && ac != bc {", ""),
 ("M42 Cholesky.ToSym without size check", "mat/cholesky.go", "		n2 := dst.SymmetricDim()\n		if n != n2 {\n			panic(ErrShape)\n		}", "		n2 := dst.SymmetricDim()\n		_ = n2", ""),
 ("M43 SymDense.sliceSym accepts k == cap+1", "mat/symmetric.go", "if i < 0 || sz < i || k < i || sz < k {", "if i < 0 || sz < i || k < i || sz+1 < k {", ""),
 ("M44 VecDense.MulVec reuses before checking", "mat/vector.go", "	r, c := a.Dims()\n	br, bc := b.Dims()\n	if c != br || bc != 1 {\n		panic(ErrShape)\n	}\n", "	r, c := a.Dims()\n	br, bc := b.Dims()\n	v.reuseAsNonZeroed(r)\n	if c != br || bc != 1 {\n		panic(ErrShape)\n	}\n", ""),
 # view-capacity mutants (TestMatViewHistory); V1 is the independently written change3
 ("V1 CDense.slice capCols -= i (change3)","mat/cdense.go","	t.capCols -= j\n","	t.capCols -= i\n", ""),
 ("V2 Dense.slice capRows -= j","mat/dense.go","	t.capRows -= i\n","	t.capRows -= j\n", ""),
 ("V3 SymDense.sliceSym keeps the parent's cap","mat/symmetric.go","	v.cap = s.cap - i\n","	v.cap = s.cap\n", ""),
 ("V4 TriDense.sliceTri keeps the parent's cap","mat/triangular.go","	v.cap = t.cap - i\n","	v.cap = t.cap\n", ""),
 ("V5 Dense.Grow in place one row too far","mat/dense.go","	case r > m.capRows || c > m.capCols:\n		cr := max(r, m.capRows)","	case r > m.capRows+1 || c > m.capCols:\n		cr := max(r, m.capRows)", ""),
 ("V6 CDense.Grow in place one column too far","mat/cdense.go","	case r > m.capRows || c > m.capCols:","	case r > m.capRows || c > m.capCols+1:", ""),
 ("V7 GrowSym in place one too far","mat/symmetric.go","	if s.IsEmpty() || n > s.cap {","	if s.IsEmpty() || n > s.cap+1 {", ""),
 ("V8 sliceVec offset uses i without inc","mat/vector.go","			Data: v.mat.Data[i*v.mat.Inc : (k-1)*v.mat.Inc+1],","			Data: v.mat.Data[i : (k-1)*v.mat.Inc+1],", ""),
 ("V9 VecDense.Cap ignores the increment","mat/vector.go","	return (cap(v.mat.Data)-1)/v.mat.Inc + 1","	return cap(v.mat.Data)", ""),
 ("V10 Dense.slice accepts l == cap+1 for views","mat/dense.go","l <= j || mc < l {","l <= j || mc+1 < l {", ""),
 ("V11 TriDense.sliceTri understated cap","mat/triangular.go","	v.cap = t.cap - i\n","	v.cap = k - i\n", ""),
 ("V12 CDense.reuseAsNonZeroed badCap check inverted on cols","mat/cdense.go","func (m *CDense) reuseAsNonZeroed(r, c int) {\n	if m.mat.Rows > m.capRows || m.mat.Cols > m.capCols {","func (m *CDense) reuseAsNonZeroed(r, c int) {\n	if m.mat.Rows > m.capRows || m.mat.Cols >= m.capCols {", ""),
]
only = sys.argv[1:] 
env = dict(os.environ, GOFLAGS='-mod=mod', GOPROXY='off', GOSUMDB='off', GOTOOLCHAIN='local', VK_KNOWN='/verif/known_findings.jsonl', VK_FAILDIR='/var/tmp/c07m-fail')
for name, path, old, new, tags in muts:
    if only and not any(name.startswith(o+' ') for o in only): continue
    src = open(os.path.join(REPO, path)).read()
    if src.count(old) != 1:
        print("SKIP (pattern count %d): %s" % (src.count(old), name)); continue
    open(os.path.join(MUT, path), 'w').write(src.replace(old, new))
    cmd = ['go','test','-modfile=/var/tmp/mm.mod','-count=1','./c07mat']
    if tags: cmd[2:2] = ['-tags', tags]
    r = subprocess.run(cmd, cwd='/verif/harness', env=env, capture_output=True, text=True)
    out = r.stdout + r.stderr
    keys = sorted(set(l.split('key=')[1].split(' ')[0] for l in out.splitlines() if 'VK-VIOLATION' in l and 'key=' in l))
    status = 'KILLED' if r.returncode != 0 and keys else ('BUILD/OTHER FAIL' if r.returncode != 0 else 'SURVIVED')
    print("%-9s %s  %s" % (status, name, keys[:3]))
    if status == 'BUILD/OTHER FAIL': print(out[-1500:])
    shutil.copy(os.path.join(REPO, path), os.path.join(MUT, path))
