package c07mat

import (
	"fmt"
	"math"
	"strings"

	"gonum.org/v1/gonum/mat"
	"verifharness/vk"
)

// fcase is one call of one mat method: a valid base call built from small
// shapes and a data seed, with at most one thing made wrong.
type fcase struct {
	M     string `json:"m"`     // method name (key of the methods table)
	Kind  string `json:"kind"`  // what is wrong ("" = nothing: the call is valid)
	Recv  string `json:"recv"`  // receiver mode: empty | reset | sized | view
	R     int    `json:"r"`     // base sizes, 1..6
	C     int    `json:"c"`     //
	K     int    `json:"k"`     //
	Delta int    `json:"delta"` // the wrong dimension is base+1 (Delta>0) or base-1 (Delta<0 and base>1)
	Seed  uint64 `json:"seed"`  // operand data, paddings, operand types
}

// region is one backing array handed to gonum. Every float64 that an operand
// of the call can reach lives in a region, so comparing regions with their
// snapshots compares all operands bit for bit, stride padding and the parent
// elements around views included.
type region struct {
	name    string
	buf     []float64
	snap    []float64
	allowed []bool // valid calls: elements the call may write (nil: none, the region is an input)
}

type env struct {
	c    fcase
	rng  *vk.SplitMix
	regs []*region
	// sigs are header signatures (dimensions, strides, emptiness) of the
	// operands, and At-images of operands without raw access.
	sigs    []func() string
	sigName []string
	sig0    []string
	sigIn   []bool         // the signature belongs to an input-only argument (index slices)
	hit     bool           // the thing named by c.Kind was applied
	caps    map[string]int // capacity of the Sym/Tri operands by name
}

func newEnv(c fcase) *env {
	return &env{c: c, rng: vk.NewSplitMix(c.Seed ^ 0x6a09e667f3bcc908), caps: map[string]int{}}
}

// f returns the dimension v of the operand dimension called name, made wrong
// when the case asks for exactly that.
func (e *env) f(name string, v int) int {
	if e.c.Kind != name {
		return v
	}
	e.hit = true
	if e.c.Delta < 0 && v > 1 {
		return v - 1
	}
	return v + 1
}

// is reports whether the case asks for the non-dimension fault called name.
func (e *env) is(name string) bool {
	if e.c.Kind == name {
		e.hit = true
		return true
	}
	return false
}

func (e *env) alloc(name string, n int) *region {
	buf := make([]float64, n)
	for i := range buf {
		v := e.rng.Finite()
		if v == 0 {
			v = 0.5 // zeroing must be visible
		}
		buf[i] = v
	}
	r := &region{name: name, buf: buf}
	e.regs = append(e.regs, r)
	return r
}

func (e *env) sig(name string, f func() string) {
	e.sigs = append(e.sigs, f)
	e.sigName = append(e.sigName, name)
	e.sigIn = append(e.sigIn, false)
}

// sigInput registers the image of an input-only argument that is not a
// float64 region (an index slice): no call may change it, valid or not.
func (e *env) sigInput(name string, f func() string) {
	e.sig(name, f)
	e.sigIn[len(e.sigIn)-1] = true
}

// sigAt registers the image of m under Dims/At as a signature (for operands
// whose storage is not reachable: factorizations).
func (e *env) sigAt(name string, m mat.Matrix) {
	e.sig(name, func() string {
		var sb strings.Builder
		r, c := m.Dims()
		fmt.Fprintf(&sb, "%dx%d", r, c)
		for i := 0; i < r; i++ {
			for j := 0; j < c; j++ {
				fmt.Fprintf(&sb, " %x", math.Float64bits(m.At(i, j)))
			}
		}
		return sb.String()
	})
}

func (e *env) freeze() {
	for _, r := range e.regs {
		r.snap = append([]float64(nil), r.buf...)
	}
	e.sig0 = e.sig0[:0]
	for _, f := range e.sigs {
		e.sig0 = append(e.sig0, f())
	}
}

// untouched checks that no region and no header changed.
func (e *env) untouched() (string, string) {
	for _, r := range e.regs {
		for i, v := range r.buf {
			if math.Float64bits(v) != math.Float64bits(r.snap[i]) {
				return "written-before-panic", fmt.Sprintf("operand %s element %d of %d changed from %v to %v", r.name, i, len(r.buf), r.snap[i], v)
			}
		}
	}
	for i, f := range e.sigs {
		if s := f(); s != e.sig0[i] {
			return "header-changed-before-panic", fmt.Sprintf("operand %s header/image changed from [%s] to [%s]", e.sigName[i], clip(e.sig0[i]), clip(s))
		}
	}
	return "", ""
}

// onlyAllowed checks, after a valid call, that inputs are unchanged and that
// receivers were written only inside their own window.
func (e *env) onlyAllowed() (string, string) {
	for _, r := range e.regs {
		for i, v := range r.buf {
			if math.Float64bits(v) == math.Float64bits(r.snap[i]) {
				continue
			}
			if r.allowed == nil {
				return "input-modified", fmt.Sprintf("input operand %s element %d of %d changed from %v to %v", r.name, i, len(r.buf), r.snap[i], v)
			}
			if !r.allowed[i] {
				return "write-outside-receiver", fmt.Sprintf("receiver %s: element %d of %d of the backing array lies outside the receiver's window and changed from %v to %v", r.name, i, len(r.buf), r.snap[i], v)
			}
		}
	}
	for i, f := range e.sigs {
		if i < len(e.sigIn) && e.sigIn[i] && i < len(e.sig0) {
			if s := f(); s != e.sig0[i] {
				return "input-modified", fmt.Sprintf("input argument %s changed from %s to %s", e.sigName[i], clip(e.sig0[i]), clip(s))
			}
		}
	}
	return "", ""
}

func clip(s string) string {
	if len(s) > 200 {
		return s[:200] + "..."
	}
	return s
}

// ---- Dense ---------------------------------------------------------------

func denseSig(d *mat.Dense) func() string {
	return func() string {
		rm := d.RawMatrix()
		cr, cc := d.Caps()
		return fmt.Sprint(rm.Rows, rm.Cols, rm.Stride, len(rm.Data), cr, cc, d.IsEmpty())
	}
}

// denseView builds an r×c Dense that is a window at a random position of an
// (r+pr)×(c+pc) parent.
func (e *env) denseView(name string, r, c, pr, pc int, recv bool) *mat.Dense {
	i0, j0 := e.rng.Intn(pr+1), e.rng.Intn(pc+1)
	R, C := r+pr, c+pc
	reg := e.alloc(name, R*C)
	d := mat.NewDense(R, C, reg.buf)
	if pr != 0 || pc != 0 {
		d = d.Slice(i0, i0+r, j0, j0+c).(*mat.Dense)
	}
	if recv {
		reg.allowed = make([]bool, R*C)
		for i := 0; i < r; i++ {
			for j := 0; j < c; j++ {
				reg.allowed[(i0+i)*C+j0+j] = true
			}
		}
	}
	e.sig(name, denseSig(d))
	return d
}

func (e *env) pads() (int, int) {
	if e.rng.Intn(2) == 0 {
		return 0, 0
	}
	return e.rng.Intn(3), e.rng.Intn(3)
}

// dense is an input Dense called name whose dimensions can be made wrong by
// the kinds name.rows and name.cols.
func (e *env) dense(name string, r, c int) *mat.Dense {
	r, c = e.f(name+".rows", r), e.f(name+".cols", c)
	pr, pc := e.pads()
	return e.denseView(name, r, c, pr, pc, false)
}

// mutDense is a Dense that the call modifies in place (not resizable).
func (e *env) mutDense(name string, r, c int) *mat.Dense {
	pr, pc := e.pads()
	return e.denseView(name, r, c, pr, pc, true)
}

// recvDense is the receiver (or dst) of a call whose result is r×c. The
// kinds name.rows / name.cols pre-size it wrongly; otherwise c.Recv selects
// an empty, a Reset, an exactly sized or a view receiver.
func (e *env) recvDenseN(name string, r, c int) *mat.Dense {
	wr, wc := e.f(name+".rows", r), e.f(name+".cols", c)
	if wr != r || wc != c {
		pr, pc := e.pads()
		return e.denseView(name, wr, wc, pr, pc, true)
	}
	switch e.c.Recv {
	case "empty":
		d := &mat.Dense{}
		e.sig(name, denseSig(d))
		return d
	case "reset":
		r2, c2 := 1+e.rng.Intn(7), 1+e.rng.Intn(7)
		reg := e.alloc(name, r2*c2)
		reg.allowed = allTrue(r2 * c2)
		d := mat.NewDense(r2, c2, reg.buf)
		d.Reset()
		e.sig(name, denseSig(d))
		return d
	case "view":
		pr, pc := e.rng.Intn(3), e.rng.Intn(3)
		if pr == 0 && pc == 0 {
			pc = 1
		}
		return e.denseView(name, r, c, pr, pc, true)
	}
	return e.denseView(name, r, c, 0, 0, true)
}

func (e *env) recvDense(r, c int) *mat.Dense { return e.recvDenseN("recv", r, c) }

func allTrue(n int) []bool {
	b := make([]bool, n)
	for i := range b {
		b[i] = true
	}
	return b
}

// wellCond overwrites the square Dense d with a strictly diagonally dominant
// matrix (non-singular, well conditioned).
func (e *env) wellCond(d *mat.Dense) {
	n, _ := d.Dims()
	for i := 0; i < n; i++ {
		for j := 0; j < n; j++ {
			v := 2*e.rng.Float() - 1
			if i == j {
				v = float64(n) + 1 + e.rng.Float()
			}
			d.Set(i, j, v)
		}
	}
}

// ---- VecDense ------------------------------------------------------------

func vecSig(v *mat.VecDense) func() string {
	return func() string {
		rv := v.RawVector()
		return fmt.Sprint(rv.N, rv.Inc, len(rv.Data), v.IsEmpty())
	}
}

// vecStyle builds a VecDense of length n: 0 = plain, 1 = SliceVec window of a
// longer vector, 2 = column view of a Dense (increment > 1).
func (e *env) vecStyle(name string, n, style int, recv bool) *mat.VecDense {
	var v *mat.VecDense
	var reg *region
	switch style {
	case 0:
		reg = e.alloc(name, n)
		v = mat.NewVecDense(n, reg.buf)
		if recv {
			reg.allowed = allTrue(n)
		}
	case 1:
		p := 1 + e.rng.Intn(2)
		i0 := e.rng.Intn(p + 1)
		reg = e.alloc(name, n+p)
		v = mat.NewVecDense(n+p, reg.buf).SliceVec(i0, i0+n).(*mat.VecDense)
		if recv {
			reg.allowed = make([]bool, n+p)
			for i := 0; i < n; i++ {
				reg.allowed[i0+i] = true
			}
		}
	default:
		inc := 2 + e.rng.Intn(2)
		j := e.rng.Intn(inc)
		reg = e.alloc(name, n*inc)
		v = mat.NewDense(n, inc, reg.buf).ColView(j).(*mat.VecDense)
		if recv {
			reg.allowed = make([]bool, n*inc)
			for i := 0; i < n; i++ {
				reg.allowed[j+i*inc] = true
			}
		}
	}
	e.sig(name, vecSig(v))
	return v
}

// vec is an input VecDense; kind name.len makes its length wrong.
func (e *env) vec(name string, n int) *mat.VecDense {
	return e.vecStyle(name, e.f(name+".len", n), e.rng.Intn(3), false)
}

func (e *env) mutVec(name string, n int) *mat.VecDense {
	return e.vecStyle(name, n, e.rng.Intn(3), true)
}

func (e *env) recvVecN(name string, n int) *mat.VecDense {
	if w := e.f(name+".len", n); w != n {
		return e.vecStyle(name, w, e.rng.Intn(3), true)
	}
	switch e.c.Recv {
	case "empty":
		v := &mat.VecDense{}
		e.sig(name, vecSig(v))
		return v
	case "reset":
		n2 := 1 + e.rng.Intn(8)
		reg := e.alloc(name, n2)
		reg.allowed = allTrue(n2)
		v := mat.NewVecDense(n2, reg.buf)
		v.Reset()
		e.sig(name, vecSig(v))
		return v
	case "view":
		return e.vecStyle(name, n, 1+e.rng.Intn(2), true)
	}
	return e.vecStyle(name, n, 0, true)
}

func (e *env) recvVec(n int) *mat.VecDense { return e.recvVecN("recv", n) }

// ---- SymDense / TriDense -------------------------------------------------

func symSig(s *mat.SymDense) func() string {
	return func() string {
		rs := s.RawSymmetric()
		cr, _ := s.Caps()
		return fmt.Sprint(rs.N, rs.Stride, len(rs.Data), rs.Uplo, cr, s.IsEmpty())
	}
}

func (e *env) symView(name string, n, p int, recv bool) *mat.SymDense {
	i0 := e.rng.Intn(p + 1)
	N := n + p
	reg := e.alloc(name, N*N)
	s := mat.NewSymDense(N, reg.buf)
	if p > 0 {
		s = s.SliceSym(i0, i0+n).(*mat.SymDense)
	}
	if recv {
		reg.allowed = make([]bool, N*N)
		for i := 0; i < n; i++ {
			for j := 0; j < n; j++ {
				reg.allowed[(i0+i)*N+i0+j] = true
			}
		}
	}
	e.sig(name, symSig(s))
	return s
}

func (e *env) sym(name string, n int) *mat.SymDense {
	return e.symView(name, e.f(name+".n", n), e.rng.Intn(3), false)
}

func (e *env) mutSym(name string, n int) *mat.SymDense {
	return e.symView(name, n, e.rng.Intn(3), true)
}

// spd is an input SymDense that is symmetric positive definite.
func (e *env) spd(name string, n int) *mat.SymDense {
	s := e.sym(name, n)
	n = s.SymmetricDim()
	for i := 0; i < n; i++ {
		for j := i; j < n; j++ {
			v := 2*e.rng.Float() - 1
			if i == j {
				v = float64(n) + 1 + e.rng.Float()
			}
			s.SetSym(i, j, v)
		}
	}
	return s
}

func (e *env) recvSymN(name string, n int) *mat.SymDense {
	if w := e.f(name+".n", n); w != n {
		return e.symView(name, w, e.rng.Intn(3), true)
	}
	switch e.c.Recv {
	case "empty":
		s := &mat.SymDense{}
		e.sig(name, symSig(s))
		return s
	case "reset":
		n2 := 1 + e.rng.Intn(7)
		reg := e.alloc(name, n2*n2)
		reg.allowed = allTrue(n2 * n2)
		s := mat.NewSymDense(n2, reg.buf)
		s.Reset()
		e.sig(name, symSig(s))
		return s
	case "view":
		return e.symView(name, n, 1+e.rng.Intn(2), true)
	}
	return e.symView(name, n, 0, true)
}

func (e *env) recvSym(n int) *mat.SymDense { return e.recvSymN("recv", n) }

func triSig(t *mat.TriDense) func() string {
	return func() string {
		rt := t.RawTriangular()
		return fmt.Sprint(rt.N, rt.Stride, len(rt.Data), rt.Uplo, rt.Diag, t.IsEmpty())
	}
}

func (e *env) triView(name string, n, p int, kind mat.TriKind, recv bool) *mat.TriDense {
	i0 := e.rng.Intn(p + 1)
	N := n + p
	reg := e.alloc(name, N*N)
	t := mat.NewTriDense(N, kind, reg.buf)
	e.caps[name] = N
	if p > 0 {
		t = t.SliceTri(i0, i0+n).(*mat.TriDense)
		e.caps[name] = N - i0
	}
	if recv {
		reg.allowed = make([]bool, N*N)
		for i := 0; i < n; i++ {
			for j := 0; j < n; j++ {
				if (kind == mat.Upper && j >= i) || (kind == mat.Lower && j <= i) {
					reg.allowed[(i0+i)*N+i0+j] = true
				}
			}
		}
	}
	e.sig(name, triSig(t))
	return t
}

// tri is an input TriDense; kinds name.n and name.kind make it wrong.
func (e *env) tri(name string, n int, kind mat.TriKind) *mat.TriDense {
	if e.is(name + ".kind") {
		kind = !kind
	}
	return e.triView(name, e.f(name+".n", n), e.rng.Intn(3), kind, false)
}

func (e *env) recvTriN(name string, n int, kind mat.TriKind) *mat.TriDense {
	w := e.f(name+".n", n)
	if e.is(name + ".kind") {
		return e.triView(name, n, e.rng.Intn(3), !kind, true)
	}
	if w != n {
		return e.triView(name, w, e.rng.Intn(3), kind, true)
	}
	switch e.c.Recv {
	case "empty":
		t := &mat.TriDense{}
		e.sig(name, triSig(t))
		return t
	case "reset":
		n2 := 1 + e.rng.Intn(7)
		reg := e.alloc(name, n2*n2)
		reg.allowed = allTrue(n2 * n2)
		t := mat.NewTriDense(n2, e.rng.Intn(2) == 0, reg.buf)
		t.Reset()
		e.sig(name, triSig(t))
		return t
	case "view":
		return e.triView(name, n, 1+e.rng.Intn(2), kind, true)
	}
	return e.triView(name, n, 0, kind, true)
}

func (e *env) recvTri(n int, kind mat.TriKind) *mat.TriDense { return e.recvTriN("recv", n, kind) }

// ---- band, diagonal, tridiagonal -------------------------------------------

func (e *env) band(name string, r, c int) *mat.BandDense {
	r, c = e.f(name+".rows", r), e.f(name+".cols", c)
	kl, ku := e.rng.Intn(r), e.rng.Intn(c)
	reg := e.alloc(name, min(r, c+kl)*(kl+ku+1))
	b := mat.NewBandDense(r, c, kl, ku, reg.buf)
	e.sig(name, func() string {
		rb := b.RawBand()
		return fmt.Sprint(rb.Rows, rb.Cols, rb.KL, rb.KU, rb.Stride, len(rb.Data))
	})
	return b
}

func (e *env) symBand(name string, n int) *mat.SymBandDense {
	n = e.f(name+".n", n)
	k := e.rng.Intn(n)
	reg := e.alloc(name, n*(k+1))
	s := mat.NewSymBandDense(n, k, reg.buf)
	e.sig(name, func() string {
		rb := s.RawSymBand()
		return fmt.Sprint(rb.N, rb.K, rb.Stride, len(rb.Data), rb.Uplo)
	})
	return s
}

// spdBand is a symmetric positive definite SymBandDense.
func (e *env) spdBand(name string, n int) *mat.SymBandDense {
	s := e.symBand(name, n)
	n, k := s.SymBand()
	for i := 0; i < n; i++ {
		for j := i; j < min(n, i+k+1); j++ {
			v := 2*e.rng.Float() - 1
			if i == j {
				v = float64(2*k) + 2 + e.rng.Float()
			}
			s.SetSymBand(i, j, v)
		}
	}
	return s
}

func (e *env) triBand(name string, n int, kind mat.TriKind) *mat.TriBandDense {
	n = e.f(name+".n", n)
	k := e.rng.Intn(n)
	reg := e.alloc(name, n*(k+1))
	t := mat.NewTriBandDense(n, k, kind, reg.buf)
	e.sig(name, func() string {
		rb := t.RawTriBand()
		return fmt.Sprint(rb.N, rb.K, rb.Stride, len(rb.Data), rb.Uplo, rb.Diag)
	})
	return t
}

func (e *env) diag(name string, n int) *mat.DiagDense {
	n = e.f(name+".n", n)
	reg := e.alloc(name, n)
	d := mat.NewDiagDense(n, reg.buf)
	e.sig(name, func() string {
		rb := d.RawBand()
		return fmt.Sprint(rb.Rows, rb.Stride, len(rb.Data))
	})
	return d
}

func (e *env) tridiag(name string, n int) *mat.Tridiag {
	n = e.f(name+".n", n)
	dl, d, du := e.alloc(name+".dl", n-1), e.alloc(name+".d", n), e.alloc(name+".du", n-1)
	// diagonally dominant, so that solves are regular
	for i := range d.buf {
		d.buf[i] = 8 + e.rng.Float()
	}
	t := mat.NewTridiag(n, dl.buf, d.buf, du.buf)
	e.sig(name, func() string {
		rt := t.RawTridiagonal()
		return fmt.Sprint(rt.N, len(rt.DL), len(rt.D), len(rt.DU))
	})
	return t
}

// ---- operands behind the Matrix / Vector interfaces ------------------------

// plainMat hides every Raw method of the wrapped matrix.
type plainMat struct{ m mat.Matrix }

func (p plainMat) Dims() (int, int)    { return p.m.Dims() }
func (p plainMat) At(i, j int) float64 { return p.m.At(i, j) }
func (p plainMat) T() mat.Matrix       { return mat.Transpose{Matrix: p} }

// plainVec hides every Raw method of the wrapped vector.
type plainVec struct{ v *mat.VecDense }

func (p plainVec) Dims() (int, int)    { return p.v.Dims() }
func (p plainVec) At(i, j int) float64 { return p.v.At(i, j) }
func (p plainVec) T() mat.Matrix       { return mat.Transpose{Matrix: p} }
func (p plainVec) AtVec(i int) float64 { return p.v.AtVec(i) }
func (p plainVec) Len() int            { return p.v.Len() }

// matrix is an input operand of the given shape behind the Matrix interface:
// a Dense, a transposed Dense, a matrix without raw access, and, where the
// shape allows, one of the structured types or a vector.
func (e *env) matrix(name string, r, c int) mat.Matrix {
	r, c = e.f(name+".rows", r), e.f(name+".cols", c)
	opts := []int{0, 0, 0, 1, 1, 2, 9}
	if r == c {
		opts = append(opts, 3, 4, 5, 6, 7, 8)
	}
	if c == 1 {
		opts = append(opts, 10)
	}
	if r == 1 {
		opts = append(opts, 11)
	}
	pr, pc := e.pads()
	switch opts[e.rng.Intn(len(opts))] {
	case 1:
		return e.denseView(name, c, r, pr, pc, false).T()
	case 2:
		return plainMat{e.denseView(name, r, c, pr, pc, false)}
	case 3:
		return e.symView(name, r, e.rng.Intn(3), false)
	case 4:
		return e.triView(name, r, e.rng.Intn(3), e.rng.Intn(2) == 0, false)
	case 5:
		return e.diag(name+"~", r)
	case 6:
		return e.symBand(name+"~", r)
	case 7:
		return e.triBand(name+"~", r, e.rng.Intn(2) == 0)
	case 8:
		return e.tridiag(name+"~", r)
	case 9:
		return e.band(name+"~", r, c)
	case 10:
		return e.vecStyle(name, r, e.rng.Intn(3), false)
	case 11:
		return e.vecStyle(name, c, e.rng.Intn(3), false).T()
	}
	return e.denseView(name, r, c, pr, pc, false)
}

// vector is an input operand of length n behind the Vector interface.
func (e *env) vector(name string, n int) mat.Vector {
	n = e.f(name+".len", n)
	v := e.vecStyle(name, n, e.rng.Intn(3), false)
	if e.rng.Intn(4) == 0 {
		return plainVec{v}
	}
	return v
}

// symmetric is an input operand behind the Symmetric interface.
func (e *env) symmetric(name string, n int) mat.Symmetric {
	n = e.f(name+".n", n)
	switch e.rng.Intn(5) {
	case 0:
		return e.diag(name+"~", n)
	case 1:
		return e.symBand(name+"~", n)
	}
	return e.symView(name, n, e.rng.Intn(3), false)
}

// triangular is an input operand behind the Triangular interface with the
// given orientation.
func (e *env) triangular(name string, n int, kind mat.TriKind) mat.Triangular {
	if e.is(name + ".kind") {
		kind = !kind
	}
	n = e.f(name+".n", n)
	switch e.rng.Intn(5) {
	case 0:
		return e.triBand(name+"~", n, kind)
	case 1:
		// the transpose of the other orientation
		return e.triView(name, n, e.rng.Intn(3), !kind, false).TTri()
	case 2:
		if kind == mat.Upper {
			return e.diag(name+"~", n) // diagonal matrices are Upper
		}
	}
	return e.triView(name, n, e.rng.Intn(3), kind, false)
}

// ints returns p with p[i] = perm of 0..n-1.
func (e *env) perm(n int) []int { return e.rng.Perm(n) }

// floats is a []float64 argument (dst / src slice); kind name.len makes its
// length wrong.
func (e *env) floats(name string, n int, written bool) []float64 {
	n = e.f(name+".len", n)
	reg := e.alloc(name, n)
	if written {
		reg.allowed = allTrue(n)
	}
	return reg.buf
}
