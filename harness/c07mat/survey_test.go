package c07mat

import (
	"encoding/json"
	"fmt"
	"os"
	"path/filepath"
	"sort"
	"strings"
	"testing"

	"verifharness/vk"
)

// TestSurvey is a development aid (C07MAT_SURVEY=1): it runs every enumerated
// case of the three sub-checks without stopping at the first failure and
// prints the distinct failure keys with the smallest example of each. With
// C07MAT_SURVEY_DIR set it also writes one replay file per key.
func TestSurvey(t *testing.T) {
	if os.Getenv("C07MAT_SURVEY") == "" {
		t.Skip("set C07MAT_SURVEY=1")
	}
	type hit struct {
		sub  string
		c    any
		f    *vk.Failure
		size int
	}
	seen := map[string]hit{}
	count := map[string]int{}
	note := func(sub string, c any, f *vk.Failure, size int) {
		if f == nil {
			return
		}
		k := f.Key
		if !strings.HasPrefix(k, sub) {
			k = sub + "/" + k
		}
		f.Key = k
		count[k]++
		if h, ok := seen[k]; !ok || size < h.size {
			seen[k] = hit{sub, c, f, size}
		}
	}
	guarded := func(f func() *vk.Failure, key string) (out *vk.Failure) {
		if r := vk.Call(func() { out = f() }); r.Outcome != vk.Returned {
			return vk.Failf("harness/check-panicked/"+key, "%s", r.Text)
		}
		return out
	}
	cases := enumCases()
	for _, c := range cases {
		c := c
		note("mat-shape-fault", c, guarded(func() *vk.Failure { return checkShape(c) }, c.M), c.R+c.C+c.K)
	}
	// extra pseudo-random valid calls per method, to find small witnesses of
	// failures that need a particular operand type
	for _, m := range methods {
		for seed := uint64(0); seed < 400; seed++ {
			c := fcase{M: m.name, Recv: recvModes[seed%4], R: 1 + int(seed/4)%3, C: 1 + int(seed/12)%3, K: 1 + int(seed/36)%3, Delta: 1, Seed: seed}
			if !m.recv {
				c.Recv = "sized"
			}
			note("mat-shape-fault", c, guarded(func() *vk.Failure { return checkShape(c) }, c.M), c.R+c.C+c.K)
		}
	}
	ic := indexCases()
	for _, c := range ic {
		c := c
		note("mat-index", c, guarded(func() *vk.Failure { return checkIndex(c) }, c.Type), c.R+c.C)
	}
	ec := edgeCases()
	for _, c := range ec {
		c := c
		note("mat-valid-edge", c, guarded(func() *vk.Failure { return checkEdge(c) }, c.Name), c.N+c.M)
	}
	vc := viewCases()
	for _, c := range vc {
		c := c
		note("mat-view-history", c, guarded(func() *vk.Failure { return checkView(c) }, c.Type), c.R+c.C+len(c.Ops))
	}
	keys := make([]string, 0, len(seen))
	for k := range seen {
		keys = append(keys, k)
	}
	sort.Strings(keys)
	fmt.Printf("survey: %d+%d+%d+%d cases, %d methods, %d distinct failure keys\n", len(cases), len(ic), len(ec), len(vc), len(methods), len(keys))
	dir := os.Getenv("C07MAT_SURVEY_DIR")
	for _, k := range keys {
		h := seen[k]
		fmt.Printf("  %s  (x%d)\n      %+v\n      %s\n", k, count[k], h.c, h.f.Msg)
		if dir != "" {
			raw, _ := json.Marshal(h.c)
			b, _ := json.MarshalIndent(map[string]any{"property": "C07", "sub": h.sub, "failure": h.f, "case": json.RawMessage(raw)}, "", " ")
			name := strings.NewReplacer("/", "_", "{", "", "}", "", "(", "_", ")", "", "=", "", ",", "_", "<", "lt", ">", "gt").Replace(strings.TrimPrefix(k, h.sub+"/"))
			_ = os.MkdirAll(dir, 0o755)
			_ = os.WriteFile(filepath.Join(dir, "mat-"+name+".json"), b, 0o644)
		}
	}
}
