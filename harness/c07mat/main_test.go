// Package c07mat is the gonum/mat half of property C07: invalid arguments
// panic with the package's own error before any write; valid arguments never
// fault.
package c07mat

import (
	"testing"

	"verifharness/vk"
)

func TestMain(m *testing.M) { vk.Main(m, "C07") }
