package c07mat

import (
	"gonum.org/v1/gonum/blas"
	"gonum.org/v1/gonum/blas/blas64"
	"gonum.org/v1/gonum/mat"
)

// bvec is a blas64.Vector of n elements with a random increment (negative
// ones included when neg is set); kind name.n makes its N wrong.
func (e *env) bvec(name string, n int, neg, written bool) blas64.Vector {
	n = e.f(name+".n", n)
	inc := 1 + e.rng.Intn(3)
	reg := e.alloc(name, 1+(n-1)*inc+e.rng.Intn(2))
	if written {
		reg.allowed = allTrue(len(reg.buf))
	}
	if neg && e.rng.Intn(3) == 0 {
		inc = -inc
	}
	return blas64.Vector{N: n, Data: reg.buf, Inc: inc}
}

// registerWrappers: the struct-based wrappers in blas/blas64. Level 1: "Dot
// will panic if the lengths of x and y do not match", "Nrm2 will panic if the
// vector increment is negative"; conv.go: "The receiver must have the same
// dimensions as a and have adequate backing data storage."
func registerWrappers() {
	two := func(name string, writesX, writesY bool, f func(x, y blas64.Vector)) {
		add(name, false, ks("y.n"), func(e *env) func() {
			x, y := e.bvec("x", e.c.R, true, writesX), e.bvec("y", e.c.R, true, writesY)
			return func() { f(x, y) }
		})
	}
	two("blas64.Dot", false, false, func(x, y blas64.Vector) { blas64.Dot(x, y) })
	two("blas64.Swap", true, true, func(x, y blas64.Vector) { blas64.Swap(x, y) })
	two("blas64.Copy", false, true, func(x, y blas64.Vector) { blas64.Copy(x, y) })
	two("blas64.Axpy", false, true, func(x, y blas64.Vector) { blas64.Axpy(1.5, x, y) })
	two("blas64.Rot", true, true, func(x, y blas64.Vector) { blas64.Rot(x, y, 0.6, 0.8) })
	two("blas64.Rotm", true, true, func(x, y blas64.Vector) {
		blas64.Rotm(x, y, blas.DrotmParams{Flag: blas.Rescaling, H: [4]float64{0.5, -1, 2, 0.25}})
	})
	one := func(name string, writes bool, f func(x blas64.Vector)) {
		add(name, false, ks("neginc"), func(e *env) func() {
			x := e.bvec("x", e.c.R, false, writes)
			if e.is("neginc") {
				x.Inc = -x.Inc
			}
			return func() { f(x) }
		})
	}
	one("blas64.Nrm2", false, func(x blas64.Vector) { blas64.Nrm2(x) })
	one("blas64.Asum", false, func(x blas64.Vector) { blas64.Asum(x) })
	one("blas64.Iamax", false, func(x blas64.Vector) { blas64.Iamax(x) })
	one("blas64.Scal", true, func(x blas64.Vector) { blas64.Scal(-2, x) })

	add("blas64.GeneralCols.From", false, ks("a.rows", "a.cols", "short"), func(e *env) func() {
		a := e.dense("a", e.c.R, e.c.C).RawMatrix()
		ld := e.c.R + e.rng.Intn(2)
		need := (e.c.C-1)*ld + e.c.R
		if e.is("short") {
			need--
		}
		reg := e.alloc("t", need)
		reg.allowed = allTrue(need)
		t := blas64.GeneralCols{Rows: e.c.R, Cols: e.c.C, Stride: ld, Data: reg.buf}
		return func() { t.From(a) }
	})
	add("blas64.General.From", false, ks("a.rows", "a.cols", "short"), func(e *env) func() {
		ar, ac := e.f("a.rows", e.c.R), e.f("a.cols", e.c.C)
		lda := ar + e.rng.Intn(2)
		a := blas64.GeneralCols{Rows: ar, Cols: ac, Stride: lda, Data: e.alloc("a", (ac-1)*lda+ar).buf}
		ld := e.c.C + e.rng.Intn(2)
		need := (e.c.R-1)*ld + e.c.C
		if e.is("short") {
			need--
		}
		reg := e.alloc("t", need)
		reg.allowed = allTrue(need)
		t := blas64.General{Rows: e.c.R, Cols: e.c.C, Stride: ld, Data: reg.buf}
		return func() { t.From(a) }
	})
}

// nonZeroDoers: DoRowNonZero / DoColNonZero have explicit index checks.
func registerNonZeroDoers() {
	type doer interface {
		mat.Matrix
		DoRowNonZero(i int, fn func(i, j int, v float64))
		DoColNonZero(j int, fn func(i, j int, v float64))
		DoNonZero(fn func(i, j int, v float64))
	}
	for _, typ := range []string{"TriDense", "BandDense", "SymBandDense", "TriBandDense", "Tridiag"} {
		typ := typ
		build := func(e *env) doer {
			switch typ {
			case "TriDense":
				return e.tri("m", e.c.R, e.rng.Intn(2) == 0)
			case "BandDense":
				return e.band("m", e.c.R, e.c.C)
			case "SymBandDense":
				return e.symBand("m", e.c.R)
			case "TriBandDense":
				return e.triBand("m", e.c.R, e.rng.Intn(2) == 0)
			}
			return e.tridiag("m", e.c.R)
		}
		add(typ+".DoRowNonZero", false, ks("i=-1", "i=n"), func(e *env) func() {
			m := build(e)
			r, _ := m.Dims()
			i := e.rng.Intn(r)
			if e.is("i=-1") {
				i = -1
			} else if e.is("i=n") {
				i = r
			}
			return func() {
				m.DoRowNonZero(i, func(i, j int, v float64) {})
				m.DoNonZero(func(i, j int, v float64) {})
			}
		})
		add(typ+".DoColNonZero", false, ks("i=-1", "i=n"), func(e *env) func() {
			m := build(e)
			_, c := m.Dims()
			j := e.rng.Intn(c)
			if e.is("i=-1") {
				j = -1
			} else if e.is("i=n") {
				j = c
			}
			return func() { m.DoColNonZero(j, func(i, j int, v float64) {}) }
		})
	}
}
