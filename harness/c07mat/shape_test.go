package c07mat

import (
	"fmt"
	"math"
	"sort"
	"testing"

	"gonum.org/v1/gonum/mat"
	"pgregory.net/rapid"
	"verifharness/vk"
)

// method is one mat entry point together with the single faults that its doc
// comment or its argument-check prologue promises to reject with a panic.
type method struct {
	name  string
	recv  bool     // has a resizable receiver / dst: all four receiver modes apply
	kinds []string // single faults; every one of them must end in a package panic with nothing written
	// either lists argument choices on which the documentation is silent
	// (zero-extent slices, out-of-range entries of index slices). Whichever way
	// the silence is read, the call must either return or end in a package
	// panic with nothing written: a runtime fault, a panic after a write, or a
	// return that leaves an input-only argument changed violates the property
	// under both readings (one key per method: undocumented-argument-mishandled).
	either []string
	build  func(e *env) func()
}

func ks(s ...string) []string { return s }

func join(a []string, b ...string) []string { return append(append([]string(nil), a...), b...) }

var (
	methods      []method
	methodByName = map[string]*method{}
)

func add(name string, recv bool, kinds []string, build func(e *env) func()) {
	methods = append(methods, method{name: name, recv: recv, kinds: kinds, build: build})
}

// alsoKinds adds documented faults to the method added last.
func alsoKinds(kinds ...string) {
	m := &methods[len(methods)-1]
	m.kinds = append(append([]string(nil), m.kinds...), kinds...)
}

// either declares the undocumented argument choices of the method added last.
func either(kinds ...string) { methods[len(methods)-1].either = kinds }

func contains(l []string, s string) bool {
	for _, v := range l {
		if v == s {
			return true
		}
	}
	return false
}

func init() {
	registerDense()
	registerVec()
	registerSym()
	registerTri()
	registerBanded()
	registerSetters()
	registerWrappers()
	registerNonZeroDoers()
	registerCtors()
	registerFactor()
	registerFuncs()
	sort.SliceStable(methods, func(i, j int) bool { return methods[i].name < methods[j].name })
	for i := range methods {
		if _, dup := methodByName[methods[i].name]; dup {
			panic("duplicate method " + methods[i].name)
		}
		methodByName[methods[i].name] = &methods[i]
	}
}

var recvRC = ks("recv.rows", "recv.cols")

// badPerm builds the index slice of PermuteRows / PermuteCols / Permute: a
// permutation of 0..n-1 (n >= 2 when a duplicate is asked for), spoiled by the
// kinds p=-1, p=n (an entry outside 0..n-1) and p.dup (one value twice). The
// slice is an operand: it is part of the "nothing written" comparison.
func badPerm(e *env, n int) []int {
	p := e.perm(e.f("p.len", n))
	switch {
	case e.is("p=-1"):
		p[e.rng.Intn(n)] = -1
	case e.is("p=n"):
		p[e.rng.Intn(n)] = n
	case e.is("p.dup"):
		a := e.rng.Intn(n)
		b := (a + 1 + e.rng.Intn(n-1)) % n
		p[a] = p[b]
	}
	e.sigInput("p", func() string { return fmt.Sprint(p) })
	return p
}

func permDim(e *env, n int) int {
	if e.c.Kind == "p.dup" && n < 2 {
		return 2
	}
	return n
}

func registerDense() {
	// Add, Sub, MulElem, DivElem: "will panic if the two matrices do not have
	// the same shape"; the receiver is resized if empty, else must match.
	for _, op := range []struct {
		name string
		f    func(m *mat.Dense, a, b mat.Matrix)
	}{
		{"Dense.Add", func(m *mat.Dense, a, b mat.Matrix) { m.Add(a, b) }},
		{"Dense.Sub", func(m *mat.Dense, a, b mat.Matrix) { m.Sub(a, b) }},
		{"Dense.MulElem", func(m *mat.Dense, a, b mat.Matrix) { m.MulElem(a, b) }},
		{"Dense.DivElem", func(m *mat.Dense, a, b mat.Matrix) { m.DivElem(a, b) }},
	} {
		op := op
		add(op.name, true, join(recvRC, "a.rows", "a.cols", "b.rows", "b.cols"), func(e *env) func() {
			a, b := e.matrix("a", e.c.R, e.c.C), e.matrix("b", e.c.R, e.c.C)
			m := e.recvDense(e.c.R, e.c.C)
			return func() { op.f(m, a, b) }
		})
	}
	// Mul: "If the number of columns in a does not equal the number of rows in b, Mul will panic."
	add("Dense.Mul", true, join(recvRC, "a.cols", "b.rows"), func(e *env) func() {
		a, b := e.matrix("a", e.c.R, e.c.K), e.matrix("b", e.c.K, e.c.C)
		m := e.recvDense(e.c.R, e.c.C)
		return func() { m.Mul(a, b) }
	})
	// Product: newMultiplier checks the chain and a non-empty receiver early.
	add("Dense.Product3", true, join(recvRC, "f0.cols", "f1.rows", "f1.cols", "f2.rows"), func(e *env) func() {
		r2 := (e.c.R+e.c.C)%6 + 1
		f0, f1, f2 := e.matrix("f0", e.c.R, e.c.K), e.matrix("f1", e.c.K, e.c.C), e.matrix("f2", e.c.C, r2)
		m := e.recvDense(e.c.R, r2)
		return func() { m.Product(f0, f1, f2) }
	})
	add("Dense.Product4", true, join(recvRC, "f0.cols", "f1.rows", "f1.cols", "f2.rows", "f2.cols", "f3.rows"), func(e *env) func() {
		r2, r3 := (e.c.R+e.c.C)%6+1, (e.c.K+e.c.C)%6+1
		f0, f1, f2, f3 := e.matrix("f0", e.c.R, e.c.K), e.matrix("f1", e.c.K, e.c.C), e.matrix("f2", e.c.C, r2), e.matrix("f3", r2, r3)
		m := e.recvDense(e.c.R, r3)
		return func() { m.Product(f0, f1, f2, f3) }
	})
	add("Dense.Product1", true, recvRC, func(e *env) func() {
		f0 := e.matrix("f0", e.c.R, e.c.C)
		m := e.recvDense(e.c.R, e.c.C)
		return func() { m.Product(f0) }
	})
	add("Dense.Product0", false, ks("recv.nonempty"), func(e *env) func() {
		// no factors: only an empty receiver has the right (0×0) shape
		var m *mat.Dense
		if e.is("recv.nonempty") {
			m = e.mutDense("recv", e.c.R, e.c.C)
		} else {
			m = &mat.Dense{}
			e.sig("recv", denseSig(m))
		}
		return func() { m.Product() }
	})
	add("Dense.Scale", true, recvRC, func(e *env) func() {
		a := e.matrix("a", e.c.R, e.c.C)
		m := e.recvDense(e.c.R, e.c.C)
		return func() { m.Scale(1.5, a) }
	})
	add("Dense.Apply", true, recvRC, func(e *env) func() {
		a := e.matrix("a", e.c.R, e.c.C)
		m := e.recvDense(e.c.R, e.c.C)
		return func() { m.Apply(func(i, j int, v float64) float64 { return v + float64(i-j) }, a) }
	})
	// Copy never panics: it copies the overlap.
	add("Dense.Copy", false, nil, func(e *env) func() {
		a := e.matrix("a", e.c.K, (e.c.R+e.c.K)%6+1)
		m := e.mutDense("recv", e.c.R, e.c.C)
		return func() { m.Copy(a) }
	})
	// CloneFrom "does not make any restriction on shape".
	add("Dense.CloneFrom", true, nil, func(e *env) func() {
		a := e.matrix("a", e.c.K, e.c.C)
		m := e.recvDense(e.c.R, e.c.C)
		return func() { m.CloneFrom(a) }
	})
	// Stack / Augment: "will panic if the two input matrices do not have the
	// same number of columns [rows] or the constructed stacked matrix is not
	// the same shape as the receiver".
	add("Dense.Stack", true, join(recvRC, "a.cols", "b.cols"), func(e *env) func() {
		a, b := e.matrix("a", e.c.R, e.c.C), e.matrix("b", e.c.K, e.c.C)
		m := e.recvDense(e.c.R+e.c.K, e.c.C)
		return func() { m.Stack(a, b) }
	})
	add("Dense.Augment", true, join(recvRC, "a.rows", "b.rows"), func(e *env) func() {
		a, b := e.matrix("a", e.c.R, e.c.C), e.matrix("b", e.c.R, e.c.K)
		m := e.recvDense(e.c.R, e.c.C+e.c.K)
		return func() { m.Augment(a, b) }
	})
	add("Dense.Kronecker", true, recvRC, func(e *env) func() {
		k2 := (e.c.K+e.c.R)%4 + 1
		a, b := e.matrix("a", e.c.R, e.c.C), e.matrix("b", e.c.K, k2)
		m := e.recvDense(e.c.R*e.c.K, e.c.C*k2)
		return func() { m.Kronecker(a, b) }
	})
	// Pow: "will panic if n is negative or if a is not square".
	add("Dense.Pow", true, join(recvRC, "a.rows", "a.cols", "neg"), func(e *env) func() {
		a := e.matrix("a", e.c.R, e.c.R)
		m := e.recvDense(e.c.R, e.c.R)
		p := e.rng.Intn(7)
		if e.is("neg") {
			p = -1 - e.rng.Intn(3)
		}
		return func() { m.Pow(a, p) }
	})
	// Exp: "will panic with ErrShape if a is not square".
	add("Dense.Exp", true, join(recvRC, "a.rows", "a.cols"), func(e *env) func() {
		a := e.matrix("a", e.c.R, e.c.R)
		m := e.recvDense(e.c.R, e.c.R)
		return func() { m.Exp(a) }
	})
	// Inverse: explicit check r != c -> ErrSquare.
	add("Dense.Inverse", true, join(recvRC, "a.rows", "a.cols"), func(e *env) func() {
		a := e.matrix("a", e.c.R, e.c.R)
		m := e.recvDense(e.c.R, e.c.R)
		return func() { _ = m.Inverse(a) }
	})
	// Solve: A m×n, B m×k, receiver n×k.
	add("Dense.Solve", true, join(recvRC, "a.rows", "b.rows"), func(e *env) func() {
		a, b := e.matrix("a", e.c.R, e.c.C), e.matrix("b", e.c.R, e.c.K)
		m := e.recvDense(e.c.C, e.c.K)
		return func() { _ = m.Solve(a, b) }
	})
	// RankOne: explicit checks x.Len() != ar, y.Len() != ac.
	add("Dense.RankOne", true, join(recvRC, "x.len", "y.len"), func(e *env) func() {
		a := e.matrix("a", e.c.R, e.c.C)
		x, y := e.vector("x", e.c.R), e.vector("y", e.c.C)
		m := e.recvDense(e.c.R, e.c.C)
		return func() { m.RankOne(a, 0.75, x, y) }
	})
	add("Dense.Outer", true, recvRC, func(e *env) func() {
		x, y := e.vector("x", e.c.R), e.vector("y", e.c.C)
		m := e.recvDense(e.c.R, e.c.C)
		return func() { m.Outer(-1.25, x, y) }
	})
	// Slice: "panics with ErrIndexOutOfRange if the slice is outside the capacity of the receiver".
	add("Dense.Slice", false, ks("i=-1", "j=-1", "k=cap+1", "l=cap+1", "k<i", "l<j", "i=cap", "j=cap"), func(e *env) func() {
		m := e.dense("m", e.c.R, e.c.C)
		cr, cc := m.Caps()
		i, j := e.rng.Intn(cr), e.rng.Intn(cc)
		k, l := i+1+e.rng.Intn(cr-i), j+1+e.rng.Intn(cc-j)
		switch {
		case e.is("i=-1"):
			i = -1
		case e.is("j=-1"):
			j = -1
		case e.is("k=cap+1"):
			k = cr + 1
		case e.is("l=cap+1"):
			l = cc + 1
		case e.is("k<i"):
			k = i - 1
		case e.is("l<j"):
			l = j - 1
		case e.is("i=cap"):
			i, k = cr, cr
		case e.is("j=cap"):
			j, l = cc, cc
		case e.is("k=i"):
			k = i
		case e.is("l=j"):
			l = j
		}
		return func() { m.Slice(i, k, j, l) }
	})
	alsoKinds("k=i", "l=j") // "and with ErrZeroLength if it has no rows or no columns"
	// Grow: "If Grow is called with negative increments it will panic with
	// ErrIndexOutOfRange"; "the receiver itself is not modified".
	add("Dense.Grow", false, ks("r=-1", "c=-1"), func(e *env) func() {
		m := e.dense("m", e.c.R, e.c.C)
		r, c := e.rng.Intn(4), e.rng.Intn(4)
		if e.is("r=-1") {
			r = -1
		}
		if e.is("c=-1") {
			c = -1
		}
		return func() { m.Grow(r, c) }
	})
	idx := func(e *env, n int) int {
		switch {
		case e.is("i=-1"):
			return -1
		case e.is("i=n"):
			return n
		}
		return e.rng.Intn(n)
	}
	add("Dense.RowView", false, ks("i=-1", "i=n"), func(e *env) func() {
		m := e.dense("m", e.c.R, e.c.C)
		i := idx(e, e.c.R)
		return func() { m.RowView(i) }
	})
	add("Dense.ColView", false, ks("i=-1", "i=n"), func(e *env) func() {
		m := e.dense("m", e.c.R, e.c.C)
		i := idx(e, e.c.C)
		return func() { m.ColView(i) }
	})
	add("Dense.RawRowView", false, ks("i=-1", "i=n"), func(e *env) func() {
		m := e.dense("m", e.c.R, e.c.C)
		i := idx(e, e.c.R)
		return func() { m.RawRowView(i) }
	})
	// SetRow / SetCol: "len(src) must equal the number of columns [rows]".
	add("Dense.SetRow", false, ks("i=-1", "i=n", "src.len"), func(e *env) func() {
		m := e.mutDense("m", e.c.R, e.c.C)
		i := idx(e, e.c.R)
		src := e.floats("src", e.c.C, false)
		return func() { m.SetRow(i, src) }
	})
	add("Dense.SetCol", false, ks("i=-1", "i=n", "src.len"), func(e *env) func() {
		m := e.mutDense("m", e.c.R, e.c.C)
		i := idx(e, e.c.C)
		src := e.floats("src", e.c.R, false)
		return func() { m.SetCol(i, src) }
	})
	// Permutation: explicit check len(p) != n.
	add("Dense.Permutation", true, join(recvRC, "p.len"), func(e *env) func() {
		n := e.c.R
		p := e.perm(n)
		if e.is("p.len") {
			if e.c.Delta < 0 && n > 1 {
				p = p[:n-1]
			} else {
				p = append(p, 0)
			}
		}
		if e.is("p=-1") {
			p[e.rng.Intn(n)] = -1
		} else if e.is("p=n") {
			p[e.rng.Intn(n)] = n
		}
		m := e.recvDense(n, n)
		return func() { m.Permutation(n, p) }
	})
	alsoKinds("p=-1", "p=n") // explicit check: entries of p outside 0..n-1 panic with ErrRowAccess before the receiver is touched
	// PermuteRows / PermuteCols: "p must have length m, otherwise PermuteRows will panic".
	// "specified by the permutation p[0],p[1],...,p[m-1] of the integers 0,...,m-1":
	// a p that is not a permutation violates the documented contract, but no
	// panic is promised for it (weak oracle).
	add("Dense.PermuteRows", false, ks("p.len"), func(e *env) func() {
		r := permDim(e, e.c.R)
		m := e.mutDense("m", r, e.c.C)
		p := badPerm(e, r)
		inv := e.rng.Intn(2) == 0
		return func() { m.PermuteRows(p, inv) }
	})
	either("p=-1", "p=n", "p.dup")
	add("Dense.PermuteCols", false, ks("p.len"), func(e *env) func() {
		c := permDim(e, e.c.C)
		m := e.mutDense("m", e.c.R, c)
		p := badPerm(e, c)
		inv := e.rng.Intn(2) == 0
		return func() { m.PermuteCols(p, inv) }
	})
	either("p=-1", "p=n", "p.dup")
	// Trace: "will panic with ErrSquare if the matrix is not square".
	add("Dense.Trace", false, ks("m.cols"), func(e *env) func() {
		m := e.dense("m", e.c.R, e.c.R)
		return func() { m.Trace() }
	})
	// Norm: "will panic with ErrNormOrder if an illegal norm is specified".
	add("Dense.Norm", false, ks("badnorm"), func(e *env) func() {
		m := e.dense("m", e.c.R, e.c.C)
		norm := []float64{1, 2, math.Inf(1)}[e.rng.Intn(3)]
		if e.is("badnorm") {
			norm = []float64{0, 3, -1, math.Inf(-1), math.NaN()}[e.rng.Intn(5)]
		}
		return func() { m.Norm(norm) }
	})
	// ReuseAs: "panics if the receiver is not empty, and panics if the input sizes are less than one".
	add("Dense.ReuseAs", false, ks("nonempty", "r=0", "c=0", "r=-1", "c=-1"), func(e *env) func() {
		r, c := e.c.R, e.c.C
		var m *mat.Dense
		if e.is("nonempty") {
			m = e.mutDense("recv", e.c.K, e.c.K)
		} else if e.rng.Intn(2) == 0 {
			m = &mat.Dense{}
			e.sig("recv", denseSig(m))
		} else {
			reg := e.alloc("recv", e.c.K*e.c.K)
			reg.allowed = allTrue(e.c.K * e.c.K)
			m = mat.NewDense(e.c.K, e.c.K, reg.buf)
			m.Reset()
			e.sig("recv", denseSig(m))
		}
		switch {
		case e.is("r=0"):
			r = 0
		case e.is("c=0"):
			c = 0
		case e.is("r=-1"):
			r = -1
		case e.is("c=-1"):
			c = -1
		}
		return func() { m.ReuseAs(r, c) }
	})
}

func registerVec() {
	recvLen := ks("recv.len")
	for _, op := range []struct {
		name string
		f    func(v *mat.VecDense, a, b mat.Vector)
	}{
		{"VecDense.AddVec", func(v *mat.VecDense, a, b mat.Vector) { v.AddVec(a, b) }},
		{"VecDense.SubVec", func(v *mat.VecDense, a, b mat.Vector) { v.SubVec(a, b) }},
		{"VecDense.MulElemVec", func(v *mat.VecDense, a, b mat.Vector) { v.MulElemVec(a, b) }},
		{"VecDense.DivElemVec", func(v *mat.VecDense, a, b mat.Vector) { v.DivElemVec(a, b) }},
	} {
		op := op
		// explicit check ar != br -> ErrShape; receiver via reuseAsNonZeroed
		add(op.name, true, join(recvLen, "a.len", "b.len"), func(e *env) func() {
			a, b := e.vector("a", e.c.R), e.vector("b", e.c.R)
			v := e.recvVec(e.c.R)
			return func() { op.f(v, a, b) }
		})
	}
	add("VecDense.ScaleVec", true, recvLen, func(e *env) func() {
		a := e.vector("a", e.c.R)
		v := e.recvVec(e.c.R)
		return func() { v.ScaleVec(-0.5, a) }
	})
	add("VecDense.AddScaledVec", true, join(recvLen, "a.len", "b.len"), func(e *env) func() {
		a, b := e.vector("a", e.c.R), e.vector("b", e.c.R)
		v := e.recvVec(e.c.R)
		alpha := []float64{0, 1, -1, 2.5, -0.125}[e.rng.Intn(5)]
		return func() { v.AddScaledVec(a, alpha, b) }
	})
	// MulVec: "panics if the number of columns in a does not equal the number of rows in b".
	add("VecDense.MulVec", true, join(recvLen, "a.cols", "b.len"), func(e *env) func() {
		a := e.matrix("a", e.c.R, e.c.C)
		b := e.vector("b", e.c.C)
		v := e.recvVec(e.c.R)
		return func() { v.MulVec(a, b) }
	})
	// SolveVec: A m×n, b m, receiver n.
	add("VecDense.SolveVec", true, join(recvLen, "a.rows", "b.len"), func(e *env) func() {
		a := e.matrix("a", e.c.R, e.c.C)
		b := e.vector("b", e.c.R)
		v := e.recvVec(e.c.C)
		return func() { _ = v.SolveVec(a, b) }
	})
	add("VecDense.CopyVec", false, nil, func(e *env) func() {
		a := e.vector("a", e.c.K)
		v := e.mutVec("recv", e.c.R)
		return func() { v.CopyVec(a) }
	})
	add("VecDense.CloneFromVec", true, nil, func(e *env) func() {
		a := e.vector("a", e.c.K)
		v := e.recvVec(e.c.R)
		if e.c.Recv == "view" || e.c.Recv == "sized" {
			// CloneFromVec re-uses the receiver's backing slice from its start
			for _, r := range e.regs {
				if r.name == "recv" {
					r.allowed = allTrue(len(r.buf))
				}
			}
		}
		return func() { v.CloneFromVec(a) }
	})
	// SliceVec: "panics with ErrIndexOutOfRange if the slice is outside the capacity of the receiver".
	add("VecDense.SliceVec", false, ks("i=-1", "k=cap+1", "k=i", "k<i"), func(e *env) func() {
		v := e.vec("v", e.c.R)
		cp := v.Cap()
		i := e.rng.Intn(cp)
		k := i + 1 + e.rng.Intn(cp-i)
		switch {
		case e.is("i=-1"):
			i = -1
		case e.is("k=cap+1"):
			k = cp + 1
		case e.is("k=i"):
			k = i
		case e.is("k<i"):
			k = i - 1
		}
		return func() { v.SliceVec(i, k) }
	})
	// ColViewOf / RowViewOf: "The receiver must either be empty [or] have length equal to the number of rows of m."
	add("VecDense.ColViewOf", false, ks("j=-1", "j=n", "recv.len"), func(e *env) func() {
		m := e.dense("m", e.c.R, e.c.C)
		j := e.rng.Intn(e.c.C)
		if e.is("j=-1") {
			j = -1
		} else if e.is("j=n") {
			j = e.c.C
		}
		var v *mat.VecDense
		if w := e.f("recv.len", e.c.R); w != e.c.R || e.rng.Intn(2) == 0 {
			v = e.vecStyle("recv", w, e.rng.Intn(3), false)
		} else {
			v = &mat.VecDense{}
			e.sig("recv", vecSig(v))
		}
		return func() { v.ColViewOf(m, j) }
	})
	add("VecDense.RowViewOf", false, ks("j=-1", "j=n", "recv.len"), func(e *env) func() {
		m := e.dense("m", e.c.R, e.c.C)
		i := e.rng.Intn(e.c.R)
		if e.is("j=-1") {
			i = -1
		} else if e.is("j=n") {
			i = e.c.R
		}
		var v *mat.VecDense
		if w := e.f("recv.len", e.c.C); w != e.c.C || e.rng.Intn(2) == 0 {
			v = e.vecStyle("recv", w, e.rng.Intn(3), false)
		} else {
			v = &mat.VecDense{}
			e.sig("recv", vecSig(v))
		}
		return func() { v.RowViewOf(m, i) }
	})
	add("VecDense.ReuseAsVec", false, ks("nonempty", "n=0", "n=-1"), func(e *env) func() {
		n := e.c.R
		var v *mat.VecDense
		if e.is("nonempty") {
			v = e.mutVec("recv", e.c.K)
		} else {
			v = &mat.VecDense{}
			e.sig("recv", vecSig(v))
		}
		if e.is("n=0") {
			n = 0
		} else if e.is("n=-1") {
			n = -1
		}
		return func() { v.ReuseAsVec(n) }
	})
	// Permute: "p must have length n, otherwise Permute will panic".
	add("VecDense.Permute", false, ks("p.len"), func(e *env) func() {
		n := permDim(e, e.c.R)
		v := e.mutVec("v", n)
		p := badPerm(e, n)
		inv := e.rng.Intn(2) == 0
		return func() { v.Permute(p, inv) }
	})
	either("p=-1", "p=n", "p.dup")
	add("VecDense.Norm", false, ks("badnorm"), func(e *env) func() {
		v := e.vec("v", e.c.R)
		norm := []float64{1, 2, math.Inf(1)}[e.rng.Intn(3)]
		if e.is("badnorm") {
			norm = []float64{0, 3, -1, math.NaN()}[e.rng.Intn(4)]
		}
		return func() { v.Norm(norm) }
	})
}

func registerSym() {
	recvN := ks("recv.n")
	// AddSym: explicit check n != b.SymmetricDim().
	add("SymDense.AddSym", true, join(recvN, "a.n", "b.n"), func(e *env) func() {
		a, b := e.symmetric("a", e.c.R), e.symmetric("b", e.c.R)
		s := e.recvSym(e.c.R)
		return func() { s.AddSym(a, b) }
	})
	add("SymDense.CopySym", false, nil, func(e *env) func() {
		a := e.symmetric("a", e.c.K)
		s := e.mutSym("recv", e.c.R)
		return func() { s.CopySym(a) }
	})
	add("SymDense.ScaleSym", true, recvN, func(e *env) func() {
		a := e.symmetric("a", e.c.R)
		s := e.recvSym(e.c.R)
		return func() { s.ScaleSym(3, a) }
	})
	// SymRankOne: explicit check a.SymmetricDim() != x.Len().
	add("SymDense.SymRankOne", true, join(recvN, "a.n", "x.len"), func(e *env) func() {
		a := e.symmetric("a", e.c.R)
		x := e.vector("x", e.c.R)
		s := e.recvSym(e.c.R)
		return func() { s.SymRankOne(a, 0.5, x) }
	})
	// SymRankK: explicit check rows(x) != a.SymmetricDim().
	add("SymDense.SymRankK", true, join(recvN, "a.n", "x.rows"), func(e *env) func() {
		a := e.symmetric("a", e.c.R)
		x := e.matrix("x", e.c.R, e.c.K)
		s := e.recvSym(e.c.R)
		return func() { s.SymRankK(a, -0.5, x) }
	})
	add("SymDense.SymOuterK", true, recvN, func(e *env) func() {
		x := e.matrix("x", e.c.R, e.c.K)
		s := e.recvSym(e.c.R)
		return func() { s.SymOuterK(2, x) }
	})
	// RankTwo: explicit checks x.Len() != n, y.Len() != n.
	add("SymDense.RankTwo", true, join(recvN, "x.len", "y.len"), func(e *env) func() {
		a := e.symmetric("a", e.c.R)
		x, y := e.vector("x", e.c.R), e.vector("y", e.c.R)
		s := e.recvSym(e.c.R)
		return func() { s.RankTwo(a, 1.5, x, y) }
	})
	add("SymDense.SubsetSym", true, recvN, func(e *env) func() {
		a := e.symmetric("a", e.c.R)
		set := make([]int, e.c.K)
		for i := range set {
			set[i] = e.rng.Intn(e.c.R)
		}
		if e.is("set=-1") {
			set[e.rng.Intn(len(set))] = -1
		} else if e.is("set=n") {
			set[e.rng.Intn(len(set))] = e.c.R
		}
		s := e.recvSym(e.c.K)
		return func() { s.SubsetSym(a, set) }
	})
	alsoKinds("set=-1", "set=n") // "SubsetSym panics with ErrIndexOutOfRange if an element of set is not a valid index of a."
	// SliceSym: "panics with ErrIndexOutOfRange if the slice is outside the capacity of the receiver".
	add("SymDense.SliceSym", false, ks("i=-1", "k=cap+1", "k<i", "i=cap+1"), func(e *env) func() {
		s := e.sym("s", e.c.R)
		cp, _ := s.Caps()
		i := e.rng.Intn(cp)
		k := i + 1 + e.rng.Intn(cp-i)
		switch {
		case e.is("i=-1"):
			i = -1
		case e.is("k=cap+1"):
			k = cp + 1
		case e.is("k<i"):
			k = i - 1
		case e.is("i=cap+1"):
			i, k = cp+1, cp+2
		case e.is("k=i"):
			k = i
		}
		return func() { s.SliceSym(i, k) }
	})
	alsoKinds("k=i") // "and with ErrZeroLength if k equals i"
	// GrowSym: explicit check n < 0 -> ErrIndexOutOfRange; the receiver is not modified.
	add("SymDense.GrowSym", false, ks("n=-1"), func(e *env) func() {
		s := e.sym("s", e.c.R)
		n := e.rng.Intn(4)
		if e.is("n=-1") {
			n = -1
		}
		return func() { s.GrowSym(n) }
	})
	add("SymDense.ReuseAsSym", false, ks("nonempty", "n=0", "n=-1"), func(e *env) func() {
		n := e.c.R
		var s *mat.SymDense
		if e.is("nonempty") {
			s = e.mutSym("recv", e.c.K)
		} else {
			s = &mat.SymDense{}
			e.sig("recv", symSig(s))
		}
		if e.is("n=0") {
			n = 0
		} else if e.is("n=-1") {
			n = -1
		}
		return func() { s.ReuseAsSym(n) }
	})
	add("SymDense.PowPSD", true, recvN, func(e *env) func() {
		a := e.spd("a", e.c.R)
		s := e.recvSym(e.c.R)
		p := []float64{0.5, 2, -1}[e.rng.Intn(3)]
		return func() { _ = s.PowPSD(a, p) }
	})
	add("SymDense.Norm", false, ks("badnorm"), func(e *env) func() {
		s := e.sym("s", e.c.R)
		norm := []float64{1, 2, math.Inf(1)}[e.rng.Intn(3)]
		if e.is("badnorm") {
			norm = []float64{0, 3, -1, math.NaN()}[e.rng.Intn(4)]
		}
		return func() { s.Norm(norm) }
	})
}

func registerTri() {
	recvT := ks("recv.n", "recv.kind")
	add("TriDense.Copy", false, nil, func(e *env) func() {
		a := e.matrix("a", e.c.K, e.c.C)
		t := e.triView("recv", e.c.R, e.rng.Intn(3), e.rng.Intn(2) == 0, true)
		return func() { t.Copy(a) }
	})
	// ScaleTri: "If the receiver is non-zero, the size and kind of the receiver must match the input, or ScaleTri will panic."
	add("TriDense.ScaleTri", true, recvT, func(e *env) func() {
		kind := mat.TriKind(e.rng.Intn(2) == 0)
		a := e.triangular("a", e.c.R, kind)
		t := e.recvTri(e.c.R, kind)
		return func() { t.ScaleTri(-2, a) }
	})
	// MulTri: "The size of a and b must match, and they both must have the same TriKind, or Mul will panic."
	add("TriDense.MulTri", true, join(recvT, "a.n", "b.n", "a.kind", "b.kind"), func(e *env) func() {
		kind := mat.TriKind(e.rng.Intn(2) == 0)
		a, b := e.triangular("a", e.c.R, kind), e.triangular("b", e.c.R, kind)
		t := e.recvTri(e.c.R, kind)
		return func() { t.MulTri(a, b) }
	})
	add("TriDense.InverseTri", true, recvT, func(e *env) func() {
		kind := mat.TriKind(e.rng.Intn(2) == 0)
		a := e.triangular("a", e.c.R, kind)
		t := e.recvTri(e.c.R, kind)
		return func() { _ = t.InverseTri(a) }
	})
	// SliceTri: "panics with ErrIndexOutOfRange if the slice is outside the capacity of the receiver".
	add("TriDense.SliceTri", false, ks("i=-1", "k=cap+1", "k<i", "i=cap+1"), func(e *env) func() {
		t := e.tri("t", e.c.R, e.rng.Intn(2) == 0)
		cp := e.caps["t"] // TriDense does not export its capacity; the builder recorded it
		i := e.rng.Intn(cp)
		k := i + 1 + e.rng.Intn(cp-i)
		switch {
		case e.is("i=-1"):
			i = -1
		case e.is("k=cap+1"):
			k = cp + 1
		case e.is("k<i"):
			k = i - 1
		case e.is("i=cap+1"):
			i, k = cp+1, cp+2
		case e.is("k=i"):
			k = i
		}
		return func() { t.SliceTri(i, k) }
	})
	alsoKinds("k=i") // "and with ErrZeroLength if k equals i"
	// TriDense.SolveTo: "If dst is not empty, SolveTo will panic if dst is not n×nrhs."; explicit check rows(b) != n.
	add("TriDense.SolveTo", true, ks("dst.rows", "dst.cols", "b.rows"), func(e *env) func() {
		t := e.tri("t", e.c.R, e.rng.Intn(2) == 0)
		b := e.matrix("b", e.c.R, e.c.K)
		dst := e.recvDenseN("dst", e.c.R, e.c.K)
		trans := e.rng.Intn(2) == 0
		return func() { _ = t.SolveTo(dst, trans, b) }
	})
	add("TriDense.ReuseAsTri", false, ks("nonempty", "n=0", "n=-1"), func(e *env) func() {
		n := e.c.R
		var t *mat.TriDense
		if e.is("nonempty") {
			t = e.triView("recv", e.c.K, 0, e.rng.Intn(2) == 0, true)
		} else {
			t = &mat.TriDense{}
			e.sig("recv", triSig(t))
		}
		if e.is("n=0") {
			n = 0
		} else if e.is("n=-1") {
			n = -1
		}
		kind := mat.TriKind(e.rng.Intn(2) == 0)
		return func() { t.ReuseAsTri(n, kind) }
	})
	add("TriDense.Norm", false, ks("badnorm"), func(e *env) func() {
		t := e.tri("t", e.c.R, e.rng.Intn(2) == 0)
		norm := []float64{1, 2, math.Inf(1)}[e.rng.Intn(3)]
		if e.is("badnorm") {
			norm = []float64{0, 3, -1, math.NaN()}[e.rng.Intn(4)]
		}
		return func() { t.Norm(norm) }
	})
}

func registerBanded() {
	// MulVecTo: explicit check x.Len() != n; dst via reuseAsNonZeroed.
	add("BandDense.MulVecTo", true, ks("dst.len", "x.len"), func(e *env) func() {
		b := e.band("b", e.c.R, e.c.C)
		trans := e.rng.Intn(2) == 0
		m, n := e.c.R, e.c.C
		if trans {
			m, n = n, m
		}
		x := e.vector("x", n)
		dst := e.recvVecN("dst", m)
		return func() { b.MulVecTo(dst, trans, x) }
	})
	add("SymBandDense.MulVecTo", true, ks("dst.len", "x.len"), func(e *env) func() {
		s := e.symBand("s", e.c.R)
		x := e.vector("x", e.c.R)
		dst := e.recvVecN("dst", e.c.R)
		return func() { s.MulVecTo(dst, e.c.K%2 == 0, x) }
	})
	add("Tridiag.MulVecTo", true, ks("dst.len", "x.len"), func(e *env) func() {
		a := e.tridiag("a", e.c.R)
		x := e.vector("x", e.c.R)
		dst := e.recvVecN("dst", e.c.R)
		trans := e.rng.Intn(2) == 0
		return func() { a.MulVecTo(dst, trans, x) }
	})
	// SolveTo / SolveVecTo: explicit checks rows(b) != n, cols(b) != 1; dst via reuseAsNonZeroed
	// (SolveToer: "If dst is empty, SolveTo will resize it to the correct size, otherwise it must have the correct size").
	add("Tridiag.SolveTo", true, ks("dst.rows", "dst.cols", "b.rows"), func(e *env) func() {
		a := e.tridiag("a", e.c.R)
		b := e.matrix("b", e.c.R, e.c.K)
		dst := e.recvDenseN("dst", e.c.R, e.c.K)
		trans := e.rng.Intn(2) == 0
		return func() { _ = a.SolveTo(dst, trans, b) }
	})
	add("Tridiag.SolveVecTo", true, ks("dst.len", "b.len"), func(e *env) func() {
		a := e.tridiag("a", e.c.R)
		b := e.vector("b", e.c.R)
		dst := e.recvVecN("dst", e.c.R)
		trans := e.rng.Intn(2) == 0
		return func() { _ = a.SolveVecTo(dst, trans, b) }
	})
	add("TriBandDense.SolveTo", true, ks("dst.rows", "dst.cols", "b.rows"), func(e *env) func() {
		t := e.triBand("t", e.c.R, e.rng.Intn(2) == 0)
		b := e.matrix("b", e.c.R, e.c.K)
		dst := e.recvDenseN("dst", e.c.R, e.c.K)
		trans := e.rng.Intn(2) == 0
		return func() { _ = t.SolveTo(dst, trans, b) }
	})
	add("TriBandDense.SolveVecTo", true, ks("dst.len", "b.len"), func(e *env) func() {
		t := e.triBand("t", e.c.R, e.rng.Intn(2) == 0)
		b := e.vector("b", e.c.R)
		dst := e.recvVecN("dst", e.c.R)
		trans := e.rng.Intn(2) == 0
		return func() { _ = t.SolveVecTo(dst, trans, b) }
	})
	// ReuseAsTriBand: explicit checks.
	add("TriBandDense.ReuseAsTriBand", false, ks("nonempty", "n=0", "n=-1", "k=-1", "k=n"), func(e *env) func() {
		n := e.c.R
		k := e.rng.Intn(n)
		var t *mat.TriBandDense
		if e.is("nonempty") {
			t = e.triBand("recv", e.c.K, e.rng.Intn(2) == 0)
		} else {
			t = &mat.TriBandDense{}
		}
		switch {
		case e.is("n=0"):
			n, k = 0, 0
		case e.is("n=-1"):
			n = -1
		case e.is("k=-1"):
			k = -1
		case e.is("k=n"):
			k = n
		}
		kind := mat.TriKind(e.rng.Intn(2) == 0)
		return func() { t.ReuseAsTriBand(n, k, kind) }
	})
	// DiagFrom: "The receiver must be min(r, c) long or empty, otherwise DiagFrom will panic."
	add("DiagDense.DiagFrom", false, ks("recv.n"), func(e *env) func() {
		m := e.matrix("m", e.c.R, e.c.C)
		n := min(e.c.R, e.c.C)
		var d *mat.DiagDense
		if w := e.f("recv.n", n); w != n || e.rng.Intn(2) == 0 {
			reg := e.alloc("recv", w)
			reg.allowed = allTrue(w)
			d = mat.NewDiagDense(w, reg.buf)
		} else {
			d = &mat.DiagDense{}
		}
		e.sig("recv", func() string { return fmt.Sprint(d.Diag(), d.IsEmpty()) })
		return func() { d.DiagFrom(m) }
	})
	for _, nm := range []string{"BandDense.Norm", "SymBandDense.Norm", "TriBandDense.Norm", "DiagDense.Norm", "Tridiag.Norm"} {
		nm := nm
		add(nm, false, ks("badnorm"), func(e *env) func() {
			var m interface{ Norm(float64) float64 }
			switch nm {
			case "BandDense.Norm":
				m = e.band("m", e.c.R, e.c.C)
			case "SymBandDense.Norm":
				m = e.symBand("m", e.c.R)
			case "TriBandDense.Norm":
				m = e.triBand("m", e.c.R, e.rng.Intn(2) == 0)
			case "DiagDense.Norm":
				m = e.diag("m", e.c.R)
			default:
				m = e.tridiag("m", e.c.R)
			}
			norm := []float64{1, 2, math.Inf(1)}[e.rng.Intn(3)]
			if e.is("badnorm") {
				norm = []float64{0, 3, -1, math.NaN()}[e.rng.Intn(4)]
			}
			return func() { m.Norm(norm) }
		})
	}
	// BandDense.Trace: "will panic with ErrSquare if the matrix is not square".
	add("BandDense.Trace", false, ks("m.cols"), func(e *env) func() {
		m := e.band("m", e.c.R, e.c.R)
		return func() { m.Trace() }
	})
}

// ---- the check --------------------------------------------------------------

// pfx makes the failure keys identical in the enumerated and the random part
// (both run under the sub-check name mat-shape-fault).
const pfx = "mat-shape-fault/"

func checkShape(c fcase) *vk.Failure {
	m := methodByName[c.M]
	if m == nil {
		return vk.Failf(pfx+"harness/unknown-method", "%q", c.M)
	}
	e := newEnv(c)
	var call func()
	if r := vk.Call(func() { call = m.build(e) }); r.Outcome != vk.Returned {
		return vk.Failf(pfx+"harness/build-panicked/"+c.M, "building operands for kind %q: %s", c.Kind, r.Text)
	}
	if c.Kind != "" && !e.hit {
		return vk.Failf(pfx+"harness/fault-not-applied/"+c.M, "kind %q", c.Kind)
	}
	e.freeze()
	res := vk.Call(call)
	recv := "-"
	if m.recv {
		recv = c.Recv
	}
	vk.Sample("mat-shape-fault", c)
	if c.Kind == "" {
		vk.Class("mat-valid/" + c.M)
		vk.Class("mat-valid-recv/" + recv)
		vk.NonTrivial("mat-valid", c.M, recv, c.R, c.C, c.K)
		switch res.Outcome {
		case vk.RuntimeFault:
			return vk.Failf(pfx+"valid-call-runtime-fault/"+c.M, "receiver %s, r=%d c=%d k=%d: %s", recv, c.R, c.C, c.K, res.Text)
		case vk.PackagePanic:
			return vk.Failf(pfx+"valid-call-panicked/"+c.M, "receiver %s, r=%d c=%d k=%d: %s", recv, c.R, c.C, c.K, res.Text)
		}
		if k, msg := e.onlyAllowed(); k != "" {
			return vk.Failf(pfx+k+"/"+c.M, "receiver %s, r=%d c=%d k=%d: %s", recv, c.R, c.C, c.K, msg)
		}
		return nil
	}
	if contains(m.either, c.Kind) {
		vk.Class("mat-either/" + c.M + "/" + c.Kind + "/" + res.Outcome.String())
		vk.NonTrivial("mat-either", c.M, c.Kind, recv)
		switch res.Outcome {
		case vk.RuntimeFault:
			return vk.Failf(pfx+"undocumented-argument-mishandled/"+c.M, "runtime fault: kind %s, receiver %s, r=%d c=%d k=%d: %s", c.Kind, recv, c.R, c.C, c.K, res.Text)
		case vk.PackagePanic:
			if k, msg := e.untouched(); k != "" {
				return vk.Failf(pfx+"undocumented-argument-mishandled/"+c.M, "operand modified before the panic: kind %s, receiver %s, r=%d c=%d k=%d, panic %q: %s", c.Kind, recv, c.R, c.C, c.K, res.Text, msg)
			}
		case vk.Returned:
			// accepted: then the inputs are as untouchable as in any valid call
			if k, msg := e.onlyAllowed(); k == "input-modified" {
				return vk.Failf(pfx+"undocumented-argument-mishandled/"+c.M, "accepted, input modified: kind %s, receiver %s, r=%d c=%d k=%d: the call returned and %s", c.Kind, recv, c.R, c.C, c.K, msg)
			}
		}
		return nil
	}
	vk.Class("mat-fault/" + c.M + "/" + c.Kind)
	vk.Class("mat-fault-recv/" + recv)
	vk.NonTrivial("mat-fault", c.M, c.Kind, recv)
	switch res.Outcome {
	case vk.Returned:
		return vk.Failf(pfx+"invalid-call-returned/"+c.M+"/"+c.Kind, "receiver %s, r=%d c=%d k=%d delta=%d: the call returned", recv, c.R, c.C, c.K, c.Delta)
	case vk.RuntimeFault:
		return vk.Failf(pfx+"invalid-call-runtime-fault/"+c.M+"/"+c.Kind, "receiver %s, r=%d c=%d k=%d delta=%d: %s", recv, c.R, c.C, c.K, c.Delta, res.Text)
	}
	if k, msg := e.untouched(); k == "header-changed-before-panic" {
		return vk.Failf(pfx+"receiver-resized-before-panic/"+c.M, "kind %s, receiver %s, r=%d c=%d k=%d delta=%d, panic %q: %s", c.Kind, recv, c.R, c.C, c.K, c.Delta, res.Text, msg)
	} else if k != "" {
		return vk.Failf(pfx+k+"/"+c.M+"/"+c.Kind, "receiver %s, r=%d c=%d k=%d delta=%d, panic %q: %s", recv, c.R, c.C, c.K, c.Delta, res.Text, msg)
	}
	return nil
}

var recvModes = []string{"empty", "reset", "sized", "view"}

// enumCases lists, for every method, every fault kind (and the valid call)
// under every receiver mode, both deltas and a small grid of shapes.
func enumCases() []fcase {
	shapes := [][3]int{{1, 1, 1}, {2, 3, 1}, {3, 2, 4}, {1, 4, 2}, {4, 1, 3}, {5, 5, 5}, {6, 2, 6}, {3, 6, 2}}
	var out []fcase
	for _, m := range methods {
		modes := []string{"sized"}
		if m.recv {
			modes = recvModes
		}
		for _, kind := range append(append([]string{""}, m.kinds...), m.either...) {
			for _, mode := range modes {
				for si, sh := range shapes {
					for _, d := range []int{1, -1} {
						if kind == "" && d < 0 {
							continue
						}
						seed := uint64(len(out))*0x9e3779b97f4a7c15 + uint64(si)
						out = append(out, fcase{M: m.name, Kind: kind, Recv: mode, R: sh[0], C: sh[1], K: sh[2], Delta: d, Seed: seed})
					}
				}
			}
		}
	}
	return out
}

func drawShape(t *rapid.T) fcase {
	m := methods[rapid.IntRange(0, len(methods)-1).Draw(t, "method")]
	c := fcase{M: m.name, Recv: "sized", Delta: 1}
	// two thirds of the calls carry a fault when the method has any
	if all := append(append([]string(nil), m.kinds...), m.either...); len(all) > 0 && rapid.IntRange(0, 2).Draw(t, "faulty") > 0 {
		c.Kind = rapid.SampledFrom(all).Draw(t, "kind")
		if rapid.Bool().Draw(t, "minus") {
			c.Delta = -1
		}
	}
	if m.recv {
		c.Recv = rapid.SampledFrom(recvModes).Draw(t, "recv")
	}
	c.R = rapid.IntRange(1, 6).Draw(t, "r")
	c.C = rapid.IntRange(1, 6).Draw(t, "c")
	c.K = rapid.IntRange(1, 6).Draw(t, "k")
	c.Seed = vk.SeedGen(t, "seed")
	return c
}

// TestMatShapeFault: every mat method with exactly one mismatched shape, bad
// index or wrong-sized argument must end in the package's own panic with no
// operand written; the same call without the fault must return, for empty,
// Reset, exactly sized and view receivers.
func TestMatShapeFault(t *testing.T) {
	cases := enumCases()
	vk.Enumerate(t, "mat-shape-fault", len(cases), func(i int) fcase { return cases[i] }, checkShape)
	vk.Run(t, "mat-shape-fault", vk.Opts{Quick: 40000, Thorough: 800000}, drawShape, checkShape)
}
