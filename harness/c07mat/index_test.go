package c07mat

import (
	"math"
	"testing"

	"gonum.org/v1/gonum/mat"
	"pgregory.net/rapid"
	"verifharness/vk"
)

// icase is one element access. I and J are absolute indices; the sweep covers
// the window [-2, n+2) around the matrix and a few extreme values.
type icase struct {
	Type string `json:"type"`
	Op   string `json:"op"` // at | set | tat (At through T()) | atvec | setvec
	R    int    `json:"r"`
	C    int    `json:"c"`
	I    int    `json:"i"`
	J    int    `json:"j"`
	Seed uint64 `json:"seed"`
}

var indexTypes = []string{"Dense", "VecDense", "SymDense", "TriDense", "BandDense", "SymBandDense", "TriBandDense", "DiagDense", "Tridiag"}

// elem describes where the element (i,j) of a built matrix lives.
type elem struct {
	reg    *region // nil: structural zero (not stored)
	off    int
	inside bool // (i,j) may be set (inside the triangle / band)
}

// indexed is a matrix built over regions together with its storage model.
type indexed struct {
	m      mat.Matrix
	r, c   int
	at     func(i, j int) float64
	set    func(i, j int, v float64)
	tat    func(i, j int) float64 // At of the implicit transpose
	where  func(i, j int) elem    // storage model for 0<=i<r, 0<=j<c
	square bool
}

func buildIndexed(e *env, typ string, r, c int) indexed {
	switch typ {
	case "Dense":
		pr, pc := e.pads()
		i0, j0 := e.rng.Intn(pr+1), e.rng.Intn(pc+1)
		R, C := r+pr, c+pc
		reg := e.alloc("m", R*C)
		d := mat.NewDense(R, C, reg.buf)
		if pr != 0 || pc != 0 {
			d = d.Slice(i0, i0+r, j0, j0+c).(*mat.Dense)
		} else {
			i0, j0 = 0, 0
		}
		t := d.T()
		return indexed{m: d, r: r, c: c, at: d.At, set: d.Set, tat: t.At,
			where: func(i, j int) elem { return elem{reg, (i0+i)*C + j0 + j, true} }}
	case "VecDense":
		// r is the length; c is ignored (the vector is r×1)
		style := e.rng.Intn(3)
		v := e.vecStyle("m", r, style, true)
		reg := e.regs[len(e.regs)-1]
		rv := v.RawVector()
		// offset of element 0 inside the region
		off0 := len(reg.buf) - cap(rv.Data)
		t := v.T()
		at := v.At
		if e.rng.Intn(2) == 0 {
			at = func(i, j int) float64 {
				if j != 0 {
					return v.At(i, j)
				}
				return v.AtVec(i)
			}
		}
		// SetVec has a single index: checkIndex forces j = 0 for it
		return indexed{m: v, r: r, c: 1, at: at, set: func(i, j int, x float64) { v.SetVec(i, x) }, tat: t.At,
			where: func(i, j int) elem { return elem{reg, off0 + i*rv.Inc, true} }}
	case "SymDense":
		p := e.rng.Intn(3)
		s := e.symView("m", r, p, true)
		reg := e.regs[len(e.regs)-1]
		rs := s.RawSymmetric()
		off0 := len(reg.buf) - cap(rs.Data)
		return indexed{m: s, r: r, c: r, at: s.At, set: s.SetSym, tat: s.T().At, square: true,
			where: func(i, j int) elem {
				if i > j {
					i, j = j, i
				}
				return elem{reg, off0 + i*rs.Stride + j, true}
			}}
	case "TriDense":
		p := e.rng.Intn(3)
		kind := mat.TriKind(e.rng.Intn(2) == 0)
		t := e.triView("m", r, p, kind, true)
		reg := e.regs[len(e.regs)-1]
		rt := t.RawTriangular()
		off0 := len(reg.buf) - cap(rt.Data)
		return indexed{m: t, r: r, c: r, at: t.At, set: t.SetTri, tat: t.T().At, square: true,
			where: func(i, j int) elem {
				if (kind == mat.Upper && i > j) || (kind == mat.Lower && i < j) {
					return elem{}
				}
				return elem{reg, off0 + i*rt.Stride + j, true}
			}}
	case "BandDense":
		kl, ku := e.rng.Intn(r), e.rng.Intn(c)
		reg := e.alloc("m", min(r, c+kl)*(kl+ku+1))
		reg.allowed = allTrue(len(reg.buf))
		b := mat.NewBandDense(r, c, kl, ku, reg.buf)
		return indexed{m: b, r: r, c: c, at: b.At, set: b.SetBand, tat: b.T().At,
			where: func(i, j int) elem {
				if j-i > ku || i-j > kl {
					return elem{}
				}
				return elem{reg, i*(kl+ku+1) + j - i + kl, true}
			}}
	case "SymBandDense":
		k := e.rng.Intn(r)
		reg := e.alloc("m", r*(k+1))
		reg.allowed = allTrue(len(reg.buf))
		s := mat.NewSymBandDense(r, k, reg.buf)
		return indexed{m: s, r: r, c: r, at: s.At, set: s.SetSymBand, tat: s.T().At, square: true,
			where: func(i, j int) elem {
				if i > j {
					i, j = j, i
				}
				if j-i > k {
					return elem{}
				}
				return elem{reg, i*(k+1) + j - i, true}
			}}
	case "TriBandDense":
		k := e.rng.Intn(r)
		kind := mat.TriKind(e.rng.Intn(2) == 0)
		reg := e.alloc("m", r*(k+1))
		reg.allowed = allTrue(len(reg.buf))
		t := mat.NewTriBandDense(r, k, kind, reg.buf)
		return indexed{m: t, r: r, c: r, at: t.At, set: t.SetTriBand, tat: t.T().At, square: true,
			where: func(i, j int) elem {
				if kind == mat.Upper {
					if i > j || j-i > k {
						return elem{}
					}
					return elem{reg, i*(k+1) + j - i, true}
				}
				if i < j || i-j > k {
					return elem{}
				}
				return elem{reg, i*(k+1) + j - i + k, true}
			}}
	case "DiagDense":
		reg := e.alloc("m", r)
		reg.allowed = allTrue(r)
		d := mat.NewDiagDense(r, reg.buf)
		// SetDiag has a single index: checkIndex forces j = i for it
		return indexed{m: d, r: r, c: r, at: d.At, set: func(i, j int, v float64) { d.SetDiag(i, v) }, tat: d.T().At, square: true,
			where: func(i, j int) elem {
				if i != j {
					return elem{}
				}
				return elem{reg, i, true}
			}}
	case "Tridiag":
		a := e.tridiag("m", r)
		n := len(e.regs)
		dl, d, du := e.regs[n-3], e.regs[n-2], e.regs[n-1]
		for _, rg := range []*region{dl, d, du} {
			rg.allowed = allTrue(len(rg.buf))
		}
		return indexed{m: a, r: r, c: r, at: a.At, set: a.SetBand, tat: a.T().At, square: true,
			where: func(i, j int) elem {
				switch i - j {
				case -1:
					return elem{du, i, true}
				case 0:
					return elem{d, i, true}
				case 1:
					return elem{dl, j, true}
				}
				return elem{}
			}}
	}
	panic("harness: unknown type " + typ)
}

const setValue = 1234.5

func checkIndex(c icase) *vk.Failure {
	e := newEnv(fcase{Seed: c.Seed})
	var x indexed
	if r := vk.Call(func() { x = buildIndexed(e, c.Type, c.R, c.C) }); r.Outcome != vk.Returned {
		return vk.Failf("harness/build-panicked/"+c.Type, "%s", r.Text)
	}
	e.freeze()
	i, j := c.I, c.J
	if c.Op == "set" && c.Type == "VecDense" {
		j = 0
	}
	if c.Op == "set" && c.Type == "DiagDense" {
		j = i
	}
	inRange := i >= 0 && i < x.r && j >= 0 && j < x.c
	if c.Op == "tat" {
		inRange = j >= 0 && j < x.r && i >= 0 && i < x.c
	}
	var got float64
	var res vk.Result
	switch c.Op {
	case "at":
		res = vk.Call(func() { got = x.at(i, j) })
	case "tat":
		res = vk.Call(func() { got = x.tat(i, j) })
	default:
		res = vk.Call(func() { x.set(i, j, setValue) })
	}
	cls := "in-range"
	if !inRange {
		cls = "out-of-range"
	}
	vk.Class("mat-index/" + c.Type + "/" + c.Op + "/" + cls)
	vk.NonTrivial("mat-index", c.Type, c.Op, cls, sign(i), sign(j), i >= x.r, j >= x.c)
	vk.Sample("mat-index", c)
	name := c.Type + "." + c.Op
	if res.Outcome == vk.RuntimeFault {
		return vk.Failf("runtime-fault/"+name, "%dx%d, index (%d,%d): %s", x.r, x.c, i, j, res.Text)
	}
	if !inRange {
		// Both mat/index_bound_checks.go and mat/index_no_bound_checks.go range-check
		// the indices of the exported At and Set* methods ("It will panic if i or j
		// are out of bounds for the matrix").
		if res.Outcome == vk.Returned {
			return vk.Failf("out-of-range-access-returned/"+name, "%dx%d, index (%d,%d) returned (value %v), bounds tag %v", x.r, x.c, i, j, got, boundsTag)
		}
		if k, msg := e.untouched(); k != "" {
			return vk.Failf(k+"/"+name, "%dx%d, index (%d,%d), panic %q: %s", x.r, x.c, i, j, res.Text, msg)
		}
		return nil
	}
	ii, jj := i, j
	if c.Op == "tat" {
		ii, jj = j, i
	}
	el := x.where(ii, jj)
	if c.Op != "set" {
		if res.Outcome != vk.Returned {
			return vk.Failf("in-range-at-panicked/"+name, "%dx%d, index (%d,%d): %s", x.r, x.c, i, j, res.Text)
		}
		want := 0.0
		if el.reg != nil {
			want = el.reg.snap[el.off]
		}
		if math.Float64bits(got) != math.Float64bits(want) {
			return vk.Failf("at-reads-wrong-element/"+name, "%dx%d, index (%d,%d): got %v, the element stored there is %v", x.r, x.c, i, j, got, want)
		}
		if k, msg := e.untouched(); k != "" {
			return vk.Failf("at-"+k+"/"+name, "%dx%d, index (%d,%d): %s", x.r, x.c, i, j, msg)
		}
		return nil
	}
	if el.reg == nil {
		// in range but outside the triangle / band: "It panics if the location is
		// outside the appropriate half / region of the matrix."
		if res.Outcome != vk.PackagePanic {
			return vk.Failf("set-outside-structure-returned/"+name, "%dx%d, index (%d,%d)", x.r, x.c, i, j)
		}
		if k, msg := e.untouched(); k != "" {
			return vk.Failf(k+"/"+name, "%dx%d, index (%d,%d), panic %q: %s", x.r, x.c, i, j, res.Text, msg)
		}
		return nil
	}
	if res.Outcome != vk.Returned {
		return vk.Failf("in-range-set-panicked/"+name, "%dx%d, index (%d,%d): %s", x.r, x.c, i, j, res.Text)
	}
	for _, rg := range e.regs {
		for k, v := range rg.buf {
			want := rg.snap[k]
			if rg == el.reg && k == el.off {
				want = setValue
			}
			if math.Float64bits(v) != math.Float64bits(want) {
				return vk.Failf("set-writes-wrong-element/"+name, "%dx%d, index (%d,%d): storage element %d of %s is %v, want %v (the element addressed is %d)", x.r, x.c, i, j, k, rg.name, v, want, el.off)
			}
		}
	}
	return nil
}

func sign(i int) int {
	switch {
	case i < 0:
		return -1
	case i > 0:
		return 1
	}
	return 0
}

var extremeIdx = []int{math.MinInt64, math.MinInt64 + 1, -1 << 32, -1 << 31, 1 << 31, 1 << 32, 1<<32 + 1, 1 << 62, math.MaxInt64}

func indexCases() []icase {
	var out []icase
	dims := [][2]int{{1, 1}, {2, 3}, {4, 2}, {5, 5}}
	for _, typ := range indexTypes {
		ops := []string{"at", "set", "tat"}
		for di, d := range dims {
			r, c := d[0], d[1]
			cc := c
			if typ == "VecDense" {
				cc = 1
			} else if typ != "Dense" && typ != "BandDense" {
				cc = r
			}
			for _, op := range ops {
				for rep := 0; rep < 2; rep++ {
					seed := uint64(len(out))*0x9e3779b97f4a7c15 + uint64(di)
					for i := -2; i < r+2; i++ {
						for j := -2; j < cc+2; j++ {
							out = append(out, icase{Type: typ, Op: op, R: r, C: c, I: i, J: j, Seed: seed})
						}
					}
					for _, x := range extremeIdx {
						out = append(out, icase{Type: typ, Op: op, R: r, C: c, I: x, J: 0, Seed: seed})
						out = append(out, icase{Type: typ, Op: op, R: r, C: c, I: 0, J: x, Seed: seed})
						out = append(out, icase{Type: typ, Op: op, R: r, C: c, I: x, J: x, Seed: seed})
					}
				}
			}
		}
	}
	return out
}

func drawIndex(t *rapid.T) icase {
	c := icase{Type: rapid.SampledFrom(indexTypes).Draw(t, "type"), Op: rapid.SampledFrom([]string{"at", "set", "tat"}).Draw(t, "op")}
	c.R = rapid.IntRange(1, 6).Draw(t, "r")
	c.C = rapid.IntRange(1, 6).Draw(t, "c")
	idx := func(label string, n int) int {
		switch rapid.IntRange(0, 9).Draw(t, label+"_cls") {
		case 0:
			return rapid.SampledFrom(extremeIdx).Draw(t, label+"_ext")
		case 1, 2:
			return -1 - rapid.IntRange(0, 3).Draw(t, label+"_neg")
		case 3, 4:
			return n + rapid.IntRange(0, 3).Draw(t, label+"_over")
		}
		return rapid.IntRange(0, n-1).Draw(t, label)
	}
	c.I = idx("i", c.R)
	c.J = idx("j", c.C)
	c.Seed = vk.SeedGen(t, "seed")
	return c
}

// TestMatIndex: element access of every concrete matrix type. In-range At
// reads exactly the addressed storage element, in-range Set writes exactly
// that element (or panics with the documented error outside the triangle /
// band); every out-of-range index ends in the package's panic with nothing
// read past or written into the backing array (views into larger parents
// included), with and without the bounds build tag.
func TestMatIndex(t *testing.T) {
	cases := indexCases()
	vk.Enumerate(t, "mat-index", len(cases), func(i int) icase { return cases[i] }, checkIndex)
	vk.Run(t, "mat-index", vk.Opts{Quick: 10000, Thorough: 200000, NoCrumb: true}, drawIndex, checkIndex)
}
