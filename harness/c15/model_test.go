package c15

import (
	"fmt"
	"math"
	"sort"

	"gonum.org/v1/gonum/graph"
	"gonum.org/v1/gonum/graph/simple"
	"pgregory.net/rapid"
	"verifharness/vk"
)

// ---- graph cases ------------------------------------------------------------

// edgeT is one edge (arc for directed graphs) between node indices U and V.
type edgeT struct {
	U, V int
	W    vk.F
}

// graphCase holds a simple graph explicitly so that it shrinks and replays.
// Node i has the ID idsFor(N, IDMode)[i].
type graphCase struct {
	N        int
	Directed bool
	IDMode   int
	Edges    []edgeT
}

// weightSet is the exact positive weight set: all sums of up to a few hundred
// of these are exactly representable, so equality of path lengths is decidable.
var weightSet = []float64{0.5, 1, 2, 3, 5, 8}

func idsFor(n, mode int) []int64 {
	ids := make([]int64, n)
	for i := range ids {
		switch mode {
		case 1: // reversed and shifted
			ids[i] = int64(2*n - i)
		case 2: // scattered, large
			ids[i] = int64(i+1) * 1000003
		case 3: // partly negative
			ids[i] = int64(i - n/2)
		default:
			ids[i] = int64(i)
		}
	}
	return ids
}

// model is the harness's own view of a graph case: a weight matrix (0 = no
// edge; all weights positive) over node indices.
type model struct {
	n        int
	directed bool
	ids      []int64
	idx      map[int64]int
	w        [][]float64 // w[u][v] weight of u->v (symmetric when undirected)
	edges    []edgeT     // normalised edge list (undirected: U<V), no duplicates, no loops
	unit     bool        // all weights are 1
	self     float64     // `self` value of the weighted container = w[i][i] (0 everywhere but in Q/Louvain cases)
}

// withSelf returns a copy whose weighted container reports Weight(x,x) = s;
// the community routines read that as the diagonal entry A_xx.
func (m *model) withSelf(s float64) *model {
	c := *m
	c.self = s
	c.w = make([][]float64, m.n)
	for i := range c.w {
		c.w[i] = append([]float64(nil), m.w[i]...)
		c.w[i][i] = s
	}
	return &c
}

func newModel(c graphCase) *model {
	n := c.N
	if n < 0 {
		n = 0
	}
	m := &model{n: n, directed: c.Directed, ids: idsFor(n, c.IDMode), idx: map[int64]int{}, unit: true}
	for i, id := range m.ids {
		m.idx[id] = i
	}
	m.w = make([][]float64, n)
	for i := range m.w {
		m.w[i] = make([]float64, n)
	}
	for _, e := range c.Edges {
		u, v, w := e.U, e.V, float64(e.W)
		if u < 0 || v < 0 || u >= n || v >= n || u == v || !(w > 0) || math.IsInf(w, 0) {
			continue
		}
		if !c.Directed && u > v {
			u, v = v, u
		}
		if m.w[u][v] != 0 {
			continue
		}
		m.w[u][v] = w
		if !c.Directed {
			m.w[v][u] = w
		}
		if w != 1 {
			m.unit = false
		}
		m.edges = append(m.edges, edgeT{u, v, vk.F(w)})
	}
	return m
}

func (m *model) has(u, v int) bool { return m.w[u][v] != 0 }

// unitModel returns the same topology with all weights 1.
func (m *model) unitModel() *model {
	u := &model{n: m.n, directed: m.directed, ids: m.ids, idx: m.idx, unit: true}
	u.w = make([][]float64, m.n)
	for i := range u.w {
		u.w[i] = make([]float64, m.n)
		for j := range u.w[i] {
			if m.w[i][j] != 0 {
				u.w[i][j] = 1
			}
		}
	}
	for _, e := range m.edges {
		u.edges = append(u.edges, edgeT{e.U, e.V, 1})
	}
	return u
}

func (m *model) hash() string {
	return fmt.Sprintf("%d/%v/%v/%v/%v", m.n, m.directed, m.ids, m.edges, m.self)
}

// totalWeight is the sum of all edge weights (each undirected edge once).
func (m *model) totalWeight() float64 {
	var s float64
	for _, e := range m.edges {
		s += float64(e.W)
	}
	return s
}

// outDeg / inDeg count arcs.
func (m *model) outDeg(u int) int {
	k := 0
	for v := 0; v < m.n; v++ {
		if m.w[u][v] != 0 {
			k++
		}
	}
	return k
}

func (m *model) inDeg(v int) int {
	k := 0
	for u := 0; u < m.n; u++ {
		if m.w[u][v] != 0 {
			k++
		}
	}
	return k
}

func (m *model) hasDanglingOrIsolated() bool {
	for u := 0; u < m.n; u++ {
		if m.outDeg(u) == 0 {
			return true
		}
	}
	return false
}

// ---- building gonum graphs --------------------------------------------------

func (m *model) node(i int) graph.Node { return simple.Node(m.ids[i]) }

// buildUnweighted builds simple.DirectedGraph / simple.UndirectedGraph with
// the model's topology. Nodes are added in an order derived from the edge list
// so that insertion order is not always ascending.
func (m *model) buildUnweighted() graph.Graph {
	if m.directed {
		g := simple.NewDirectedGraph()
		for i := m.n - 1; i >= 0; i-- {
			g.AddNode(m.node(i))
		}
		for _, e := range m.edges {
			g.SetEdge(simple.Edge{F: m.node(e.U), T: m.node(e.V)})
		}
		return g
	}
	g := simple.NewUndirectedGraph()
	for i := 0; i < m.n; i++ {
		g.AddNode(m.node(i))
	}
	for k, e := range m.edges {
		if k%2 == 0 {
			g.SetEdge(simple.Edge{F: m.node(e.U), T: m.node(e.V)})
		} else {
			g.SetEdge(simple.Edge{F: m.node(e.V), T: m.node(e.U)})
		}
	}
	return g
}

// buildWeighted builds simple.WeightedDirectedGraph / WeightedUndirectedGraph
// (self weight 0, absent weight +Inf) holding sign*w on every edge.
func (m *model) buildWeightedSigned(sign float64) graph.Graph {
	if m.directed {
		g := simple.NewWeightedDirectedGraph(sign*m.self, math.Inf(1))
		for i := 0; i < m.n; i++ {
			g.AddNode(m.node(i))
		}
		for _, e := range m.edges {
			g.SetWeightedEdge(simple.WeightedEdge{F: m.node(e.U), T: m.node(e.V), W: sign * float64(e.W)})
		}
		return g
	}
	g := simple.NewWeightedUndirectedGraph(sign*m.self, math.Inf(1))
	for i := m.n - 1; i >= 0; i-- {
		g.AddNode(m.node(i))
	}
	for k, e := range m.edges {
		if k%2 == 1 {
			g.SetWeightedEdge(simple.WeightedEdge{F: m.node(e.U), T: m.node(e.V), W: sign * float64(e.W)})
		} else {
			g.SetWeightedEdge(simple.WeightedEdge{F: m.node(e.V), T: m.node(e.U), W: sign * float64(e.W)})
		}
	}
	return g
}

func (m *model) buildWeighted() graph.Graph { return m.buildWeightedSigned(1) }

// ---- distances and shortest-path counts (harness oracle) ---------------------

// allDist is the harness's Floyd-Warshall on exact weights (+Inf unreachable).
func (m *model) allDist() [][]float64 {
	n := m.n
	d := make([][]float64, n)
	for i := range d {
		d[i] = make([]float64, n)
		for j := range d[i] {
			switch {
			case i == j:
				d[i][j] = 0
			case m.w[i][j] != 0:
				d[i][j] = m.w[i][j]
			default:
				d[i][j] = math.Inf(1)
			}
		}
	}
	for k := 0; k < n; k++ {
		for i := 0; i < n; i++ {
			if math.IsInf(d[i][k], 1) {
				continue
			}
			for j := 0; j < n; j++ {
				if s := d[i][k] + d[k][j]; s < d[i][j] {
					d[i][j] = s
				}
			}
		}
	}
	return d
}

// sigma counts shortest paths: sig[s][t] (exact in float64 below 2^53).
func (m *model) sigma(d [][]float64) [][]float64 {
	n := m.n
	sig := make([][]float64, n)
	for s := 0; s < n; s++ {
		sig[s] = make([]float64, n)
		order := make([]int, 0, n)
		for v := 0; v < n; v++ {
			if !math.IsInf(d[s][v], 1) {
				order = append(order, v)
			}
		}
		sort.Slice(order, func(a, b int) bool {
			if d[s][order[a]] != d[s][order[b]] {
				return d[s][order[a]] < d[s][order[b]]
			}
			return order[a] < order[b]
		})
		sig[s][s] = 1
		for _, v := range order {
			if v == s {
				continue
			}
			var c float64
			for u := 0; u < n; u++ {
				if m.w[u][v] != 0 && !math.IsInf(d[s][u], 1) && d[s][u]+m.w[u][v] == d[s][v] {
					c += sig[s][u]
				}
			}
			sig[s][v] = c
		}
	}
	return sig
}

// ---- partitions -----------------------------------------------------------------

// canonPartition renders a partition (blocks of int64 IDs) canonically.
func canonPartition(blocks [][]int64) string {
	bs := make([][]int64, 0, len(blocks))
	for _, b := range blocks {
		c := append([]int64(nil), b...)
		sort.Slice(c, func(i, j int) bool { return c[i] < c[j] })
		bs = append(bs, c)
	}
	sort.Slice(bs, func(i, j int) bool {
		if len(bs[i]) == 0 || len(bs[j]) == 0 {
			return len(bs[i]) < len(bs[j])
		}
		return bs[i][0] < bs[j][0]
	})
	return fmt.Sprint(bs)
}

func idsOf(nodes []graph.Node) []int64 {
	out := make([]int64, len(nodes))
	for i, n := range nodes {
		out[i] = n.ID()
	}
	return out
}

func idBlocks(comms [][]graph.Node) [][]int64 {
	out := make([][]int64, len(comms))
	for i, c := range comms {
		out[i] = idsOf(c)
	}
	return out
}

// blocksFromLabels turns a label vector (label per node index) into blocks of
// node indices, ordered by first occurrence.
func blocksFromLabels(lab []int) [][]int {
	pos := map[int]int{}
	var out [][]int
	for i, l := range lab {
		p, ok := pos[l]
		if !ok {
			p = len(out)
			pos[l] = p
			out = append(out, nil)
		}
		out[p] = append(out[p], i)
	}
	return out
}

// allSetPartitions returns all restricted-growth label vectors of length n.
func allSetPartitions(n int) [][]int {
	var out [][]int
	cur := make([]int, n)
	var rec func(i, mx int)
	rec = func(i, mx int) {
		if i == n {
			out = append(out, append([]int(nil), cur...))
			return
		}
		for l := 0; l <= mx+1; l++ {
			cur[i] = l
			nm := mx
			if l > mx {
				nm = l
			}
			rec(i+1, nm)
		}
	}
	if n == 0 {
		return [][]int{{}}
	}
	rec(0, -1)
	return out
}

func (m *model) commNodes(blocks [][]int) [][]graph.Node {
	out := make([][]graph.Node, len(blocks))
	for i, b := range blocks {
		out[i] = make([]graph.Node, len(b))
		for j, v := range b {
			out[i][j] = m.node(v)
		}
	}
	return out
}

// ---- random structure ------------------------------------------------------------

type rnd interface{ Intn(n int) int }

type smRnd struct{ r *vk.SplitMix }

func (s smRnd) Intn(n int) int { return s.r.Intn(n) }

type rapidRnd struct{ t *rapid.T }

func (r rapidRnd) Intn(n int) int { return rapid.IntRange(0, n-1).Draw(r.t, "r") }

const numClasses = 9

// genPairs returns an undirected skeleton (pairs u<v) of the given class.
func genPairs(r rnd, n, class int) [][2]int {
	var ps [][2]int
	add := func(u, v int) {
		if u == v || u < 0 || v < 0 || u >= n || v >= n {
			return
		}
		if u > v {
			u, v = v, u
		}
		ps = append(ps, [2]int{u, v})
	}
	switch class {
	case 0: // sparse G(n,p), p ~ c/n
		c := 1 + r.Intn(3)
		for u := 0; u < n; u++ {
			for v := u + 1; v < n; v++ {
				if r.Intn(n) < c {
					add(u, v)
				}
			}
		}
	case 1: // dense
		p := 3 + r.Intn(6)
		for u := 0; u < n; u++ {
			for v := u + 1; v < n; v++ {
				if r.Intn(10) < p {
					add(u, v)
				}
			}
		}
	case 2: // tree plus a few chords
		for v := 1; v < n; v++ {
			add(r.Intn(v), v)
		}
		for k := r.Intn(4); k > 0 && n > 2; k-- {
			add(r.Intn(n), r.Intn(n))
		}
	case 3: // grid (many equal-length paths); left-over nodes stay isolated
		rows := 2 + r.Intn(3)
		cols := n / rows
		if cols < 1 {
			rows, cols = 1, n
		}
		for i := 0; i < rows; i++ {
			for j := 0; j < cols; j++ {
				if j+1 < cols {
					add(i*cols+j, i*cols+j+1)
				}
				if i+1 < rows {
					add(i*cols+j, (i+1)*cols+j)
				}
			}
		}
	case 4: // several components: cliques, cycles, paths, isolated nodes
		for lo := 0; lo < n; {
			sz := 1 + r.Intn(6)
			if lo+sz > n {
				sz = n - lo
			}
			switch r.Intn(4) {
			case 0: // clique
				for u := lo; u < lo+sz; u++ {
					for v := u + 1; v < lo+sz; v++ {
						add(u, v)
					}
				}
			case 1: // cycle
				for k := 0; k < sz && sz > 2; k++ {
					add(lo+k, lo+(k+1)%sz)
				}
			case 2: // path
				for k := 0; k+1 < sz; k++ {
					add(lo+k, lo+k+1)
				}
			default: // isolated
			}
			lo += sz
		}
	case 5: // complete bipartite / star
		a := 1 + r.Intn(3)
		if r.Intn(2) == 0 {
			a = 1
		}
		b := n - a
		if r.Intn(2) == 0 && b > 6 {
			b = 2 + r.Intn(5)
		}
		for u := 0; u < a; u++ {
			for v := a; v < a+b && v < n; v++ {
				add(u, v)
			}
		}
	case 6: // cycle or path over all nodes
		for k := 0; k+1 < n; k++ {
			add(k, k+1)
		}
		if r.Intn(2) == 0 && n > 2 {
			add(n-1, 0)
		}
	case 7: // layered: consecutive layers completely joined (many tied paths)
		var layers [][]int
		for lo := 0; lo < n; {
			sz := 1 + r.Intn(4)
			if lo+sz > n {
				sz = n - lo
			}
			l := make([]int, sz)
			for k := range l {
				l[k] = lo + k
			}
			layers = append(layers, l)
			lo += sz
		}
		for i := 0; i+1 < len(layers); i++ {
			for _, u := range layers[i] {
				for _, v := range layers[i+1] {
					if r.Intn(8) != 0 {
						add(u, v)
					}
				}
			}
		}
	default: // planted communities: dense blocks, sparse in between
		k := 2 + r.Intn(4)
		for u := 0; u < n; u++ {
			for v := u + 1; v < n; v++ {
				if u%k == v%k {
					if r.Intn(10) < 7 {
						add(u, v)
					}
				} else if r.Intn(4*n) < 3 {
					add(u, v)
				}
			}
		}
	}
	// dedupe
	seen := map[[2]int]bool{}
	out := ps[:0]
	for _, p := range ps {
		if !seen[p] {
			seen[p] = true
			out = append(out, p)
		}
	}
	return out
}

// genEdges expands a skeleton into an edge list. orient (directed only):
// 0 random per pair (forward/backward/both), 1 forward only (DAG: sinks), 2 both.
func genEdges(r rnd, n, class int, directed bool, unit bool) []edgeT {
	ps := genPairs(r, n, class)
	// relabel nodes so that structure does not correlate with IDs
	perm := make([]int, n)
	for i := range perm {
		perm[i] = i
	}
	if r.Intn(2) == 0 {
		for i := n - 1; i > 0; i-- {
			j := r.Intn(i + 1)
			perm[i], perm[j] = perm[j], perm[i]
		}
	}
	orient := r.Intn(3)
	wmode := r.Intn(3) // 0 all from set, 1 mostly 1, 2 two values only
	drawW := func() float64 {
		if unit {
			return 1
		}
		switch wmode {
		case 1:
			if r.Intn(4) != 0 {
				return 1
			}
		case 2:
			return weightSet[1+r.Intn(2)]
		}
		return weightSet[r.Intn(len(weightSet))]
	}
	var es []edgeT
	for _, p := range ps {
		u, v := perm[p[0]], perm[p[1]]
		if !directed {
			if u > v {
				u, v = v, u
			}
			es = append(es, edgeT{u, v, vk.F(drawW())})
			continue
		}
		o := orient
		if o == 0 {
			o = 3 + r.Intn(3)
		}
		switch o {
		case 1, 3:
			es = append(es, edgeT{u, v, vk.F(drawW())})
		case 4:
			es = append(es, edgeT{v, u, vk.F(drawW())})
		default:
			es = append(es, edgeT{u, v, vk.F(drawW())}, edgeT{v, u, vk.F(drawW())})
		}
	}
	// sometimes isolate a node / make a node dangling
	if n > 2 && r.Intn(3) == 0 {
		x := r.Intn(n)
		out := es[:0]
		iso := r.Intn(2) == 0
		for _, e := range es {
			if e.U == x || (iso && e.V == x) {
				continue
			}
			out = append(out, e)
		}
		es = out
	}
	return es
}

// drawGraph draws a graph case. Small graphs (n <= smallMax) are drawn pair by
// pair with rapid so that they shrink well; larger ones are expanded from a
// drawn seed at draw time (the case still holds the explicit edge list).
func drawGraph(t *rapid.T, directed bool, unit bool, maxN int) graphCase {
	c := graphCase{Directed: directed}
	c.IDMode = rapid.SampledFrom([]int{0, 0, 0, 1, 2, 3}).Draw(t, "idmode")
	if rapid.IntRange(0, 9).Draw(t, "small") < 4 || maxN <= 8 {
		hi := 8
		if maxN < hi {
			hi = maxN
		}
		c.N = rapid.IntRange(1, hi).Draw(t, "n")
		dens := rapid.IntRange(1, 9).Draw(t, "dens")
		for u := 0; u < c.N; u++ {
			for v := 0; v < c.N; v++ {
				if u == v || (!directed && u > v) {
					continue
				}
				if rapid.IntRange(0, 9).Draw(t, "e") < dens {
					w := 1.0
					if !unit {
						w = rapid.SampledFrom(weightSet).Draw(t, "w")
					}
					c.Edges = append(c.Edges, edgeT{u, v, vk.F(w)})
				}
			}
		}
		return c
	}
	c.N = vk.Dim(t, "n", 4, maxN, 12, 20)
	class := rapid.IntRange(0, numClasses-1).Draw(t, "class")
	seed := rapid.Uint64().Draw(t, "seed")
	c.Edges = genEdges(smRnd{vk.NewSplitMix(seed)}, c.N, class, directed, unit)
	return c
}

// graphFromMask builds the labelled graph number mask on n nodes (exhaustive part).
func graphFromMask(n int, directed bool, mask int) graphCase {
	c := graphCase{N: n, Directed: directed}
	bit := 0
	for u := 0; u < n; u++ {
		for v := 0; v < n; v++ {
			if u == v || (!directed && u > v) {
				continue
			}
			if mask>>bit&1 == 1 {
				c.Edges = append(c.Edges, edgeT{u, v, 1})
			}
			bit++
		}
	}
	return c
}

type exhGraph struct {
	n    int
	mask int
}

// exhGraphs lists all labelled graphs on 0..maxN nodes.
func exhGraphs(directed bool, minN, maxN int) []exhGraph {
	var out []exhGraph
	for n := minN; n <= maxN; n++ {
		p := n * (n - 1)
		if !directed {
			p /= 2
		}
		for mask := 0; mask < 1<<p; mask++ {
			out = append(out, exhGraph{n, mask})
		}
	}
	return out
}

// ---- numerics -------------------------------------------------------------------

func ddNorm2(x []float64) float64 {
	var s vk.DD
	for _, v := range x {
		s.AddProd(v, v)
	}
	return math.Sqrt(s.Float())
}

func ddSum(x []float64) float64 {
	var s vk.DD
	for _, v := range x {
		s.Add(v)
	}
	return s.Float()
}

func finiteAll(x []float64) bool {
	for _, v := range x {
		if math.IsNaN(v) || math.IsInf(v, 0) {
			return false
		}
	}
	return true
}

// mapToVec turns a result map keyed by node ID into a vector over node
// indices; it reports a message when the key set is not exactly the node set.
func (m *model) mapToVec(res map[int64]float64) ([]float64, string) {
	if len(res) != m.n {
		return nil, fmt.Sprintf("result has %d entries, graph has %d nodes", len(res), m.n)
	}
	out := make([]float64, m.n)
	for i, id := range m.ids {
		v, ok := res[id]
		if !ok {
			return nil, fmt.Sprintf("no entry for node ID %d", id)
		}
		out[i] = v
	}
	return out, ""
}
