package c15

import (
	"fmt"
	"math"
	"reflect"
	"testing"

	"gonum.org/v1/gonum/graph"
	"gonum.org/v1/gonum/graph/network"
	"gonum.org/v1/gonum/graph/spectral"
	"pgregory.net/rapid"
	"verifharness/vk"
)

// specCase: the three Laplacian constructors on one graph, Diffuse and
// DiffuseToEquilibrium with the Laplacian selected by Kind.
type specCase struct {
	G       graphCase
	Damp    vk.F
	Kind    int    // 0 D-A, 1 symmetric normalised, 2 random walk
	Heat    []vk.F // initial heat per node index (cyclic)
	Missing []int  // node indices without an entry in h
	Extra   bool   // h and dst carry entries for IDs that are not nodes
	DstMode int    // 0 nil, 1 fresh map with foreign entries, 2 dst == h
	T       vk.F
	Tol     vk.F
	Iters   int
}

// lapMatrix returns the Laplacian of the given kind over node indices.
// Kind 2 is the matrix NewRandomWalkLaplacian actually builds:
// (1-damp)*(I - A D^-1) (column u holds -1/deg(u) at the neighbours of u);
// docForm selects the documented I - D^-1 A instead (row form).
func lapMatrix(m *model, kind int, damp float64, docForm bool) [][]float64 {
	n := m.n
	L := make([][]float64, n)
	for i := range L {
		L[i] = make([]float64, n)
	}
	for u := 0; u < n; u++ {
		du := float64(m.outDeg(u))
		switch kind {
		case 0:
			L[u][u] = du
		case 1:
			if du > 0 {
				L[u][u] = 1
			}
		default:
			if du > 0 {
				L[u][u] = 1 - damp
			}
		}
		for v := 0; v < n; v++ {
			if !m.has(u, v) {
				continue
			}
			switch kind {
			case 0:
				L[u][v] = -1
			case 1:
				L[u][v] = -1 / math.Sqrt(du*float64(m.outDeg(v)))
			default:
				if docForm {
					L[u][v] = (damp - 1) / du
				} else {
					L[v][u] = (damp - 1) / du
				}
			}
		}
	}
	return L
}

func checkLapStructure(m *model, name string, L spectral.Laplacian) (perm []int, f *vk.Failure) {
	n := m.n
	if len(L.Index) != n || len(L.Nodes) != n {
		return nil, vk.Failf(name+"-index", "Index has %d entries, Nodes %d, graph %d nodes", len(L.Index), len(L.Nodes), n)
	}
	r, c := L.Matrix.Dims()
	if r != n || c != n {
		return nil, vk.Failf(name+"-dims", "matrix is %dx%d for %d nodes", r, c, n)
	}
	perm = make([]int, n) // node index -> matrix index
	seen := make([]bool, n)
	for i, id := range m.ids {
		k, ok := L.Index[id]
		if !ok || k < 0 || k >= n || seen[k] {
			return nil, vk.Failf(name+"-index", "Index is not a bijection from node IDs onto [0,n): ID %d -> %d (present %v)", id, k, ok)
		}
		seen[k] = true
		perm[i] = k
		if L.Nodes[k] == nil || L.Nodes[k].ID() != id {
			return nil, vk.Failf(name+"-nodes", "Nodes[%d] does not have ID %d", k, id)
		}
	}
	return perm, nil
}

func cmpLap(name string, L spectral.Laplacian, perm []int, want [][]float64, rel float64) *vk.Failure {
	for i := range want {
		for j := range want {
			g := L.Matrix.At(perm[i], perm[j])
			w := want[i][j]
			if g != w && !(math.Abs(g-w) <= rel*math.Abs(w)) {
				return vk.Failf(name, "entry for node indices (%d,%d): got %v want %v", i, j, g, w)
			}
		}
	}
	return nil
}

func matMul(A, B [][]float64) [][]float64 {
	n := len(A)
	C := make([][]float64, n)
	for i := range C {
		C[i] = make([]float64, n)
		for k := 0; k < n; k++ {
			a := A[i][k]
			if a == 0 {
				continue
			}
			for j := 0; j < n; j++ {
				C[i][j] += a * B[k][j]
			}
		}
	}
	return C
}

// expm computes exp(A) by scaling and squaring with a Taylor series.
func expm(A [][]float64) [][]float64 {
	n := len(A)
	var nrm float64
	for j := 0; j < n; j++ {
		var s float64
		for i := 0; i < n; i++ {
			s += math.Abs(A[i][j])
		}
		nrm = math.Max(nrm, s)
	}
	s := 0
	for nrm > 0.25 {
		nrm /= 2
		s++
	}
	sc := math.Ldexp(1, -s)
	X := make([][]float64, n)
	for i := range X {
		X[i] = make([]float64, n)
		for j := range X[i] {
			X[i][j] = A[i][j] * sc
		}
	}
	E := make([][]float64, n)
	term := make([][]float64, n)
	for i := range E {
		E[i] = make([]float64, n)
		term[i] = make([]float64, n)
		E[i][i], term[i][i] = 1, 1
	}
	for k := 1; k <= 18; k++ {
		term = matMul(term, X)
		for i := range term {
			for j := range term[i] {
				term[i][j] /= float64(k)
				E[i][j] += term[i][j]
			}
		}
	}
	for ; s > 0; s-- {
		E = matMul(E, E)
	}
	return E
}

func checkSpectral(c specCase) *vk.Failure {
	m := newModel(c.G)
	n := m.n
	damp := float64(c.Damp)
	if n == 0 || !(damp >= 0 && damp < 1) {
		return nil // NewLaplacian on an empty graph ends in mat's zero-length panic; out of scope
	}
	vk.Sample("spectral", c)
	g := m.buildUnweighted()
	kind := ((c.Kind % 3) + 3) % 3
	if m.directed {
		kind = 2
	}
	var laps [3]spectral.Laplacian
	if !m.directed {
		ug := g.(graph.Undirected)
		if f := vk.MustReturn("laplacian-panics", func() { laps[0] = spectral.NewLaplacian(ug) }); f != nil {
			return f
		}
		if f := vk.MustReturn("symnorm-laplacian-panics", func() { laps[1] = spectral.NewSymNormLaplacian(ug) }); f != nil {
			return f
		}
		for k, name := range []string{"laplacian", "symnorm-laplacian"} {
			p, f := checkLapStructure(m, name, laps[k])
			if f != nil {
				return f
			}
			if f := cmpLap(name+"-entries", laps[k], p, lapMatrix(m, k, 0, false), 16*vk.Eps); f != nil {
				return f
			}
		}
	}
	if f := vk.MustReturn("rw-laplacian-panics", func() { laps[2] = spectral.NewRandomWalkLaplacian(g, damp) }); f != nil {
		return f
	}
	p2, f := checkLapStructure(m, "rw-laplacian", laps[2])
	if f != nil {
		return f
	}
	if f := cmpLap("rw-laplacian-entries", laps[2], p2, lapMatrix(m, 2, damp, false), 4*vk.Eps); f != nil {
		return f
	}
	// (the documented orientation I - D^-1 A is asserted by the contract sub-check)
	if f := checkDiffusion(c, m, kind, damp, laps); f != nil {
		return f
	}
	return nil
}

func checkDiffusion(c specCase, m *model, kind int, damp float64, laps [3]spectral.Laplacian) *vk.Failure {
	n := m.n
	vk.Class(fmt.Sprintf("spectral:kind=%d", kind))
	if n >= 4 && m.hasDanglingOrIsolated() {
		vk.NonTrivial("spectral", m.hash(), kind)
	}
	if m.directed {
		return nil // diffusion is documented for undirected graphs
	}
	L := laps[kind]
	Lm := lapMatrix(m, kind, damp, false)

	// initial heat
	missing := map[int]bool{}
	for _, i := range c.Missing {
		if i >= 0 && i < n {
			missing[i] = true
		}
	}
	heat := make([]float64, n)
	mkH := func() map[int64]float64 {
		h := map[int64]float64{}
		for i := 0; i < n; i++ {
			if missing[i] || len(c.Heat) == 0 {
				continue
			}
			v := float64(c.Heat[i%len(c.Heat)])
			if math.IsNaN(v) || math.IsInf(v, 0) || math.Abs(v) > 1e6 {
				v = 1
			}
			h[m.ids[i]] = v
			heat[i] = v
		}
		if c.Extra {
			h[foreignID(m, 0)] = 17
		}
		return h
	}
	mkDst := func(h map[int64]float64) (dst map[int64]float64, foreign map[int64]float64) {
		foreign = map[int64]float64{}
		switch c.DstMode % 3 {
		case 1:
			dst = map[int64]float64{}
			dst[foreignID(m, 1)] = -3
			foreign[foreignID(m, 1)] = -3
			if n > 0 {
				dst[m.ids[0]] = 99 // stale value for a node: must be overwritten
			}
		case 2:
			dst = h
			if c.Extra {
				foreign[foreignID(m, 0)] = 17
			}
		}
		return dst, foreign
	}
	checkDst := func(name string, res map[int64]float64, foreign map[int64]float64) *vk.Failure {
		if len(res) != n+len(foreign) {
			return vk.Failf(name+"-keys", "result has %d entries, want %d nodes + %d untouched foreign entries", len(res), n, len(foreign))
		}
		for id, v := range foreign {
			if res[id] != v {
				return vk.Failf(name+"-foreign-entry", "entry %d of dst changed from %v to %v", id, v, res[id])
			}
		}
		return nil
	}
	var hsum float64
	h := mkH()
	for _, v := range heat {
		hsum += math.Abs(v)
	}

	// --- Diffuse: exp(-L t) h
	t := float64(c.T)
	var lnorm float64
	for j := 0; j < n; j++ {
		var s float64
		for i := 0; i < n; i++ {
			s += math.Abs(Lm[i][j])
		}
		lnorm = math.Max(lnorm, s)
	}
	if n <= 20 && t >= 0 && t*lnorm <= 200 {
		A := make([][]float64, n)
		for i := range A {
			A[i] = make([]float64, n)
			for j := range A[i] {
				A[i][j] = -t * Lm[i][j]
			}
		}
		E := expm(A)
		dst, foreign := mkDst(h)
		var res map[int64]float64
		if f := vk.MustReturn("diffuse-panics", func() { res = network.Diffuse(dst, h, L, t) }); f != nil {
			return f
		}
		if dst != nil && reflect.ValueOf(res).Pointer() != reflect.ValueOf(dst).Pointer() {
			return vk.Failf("diffuse-dst", "the returned map is not the dst map")
		}
		if f := checkDst("diffuse", res, foreign); f != nil {
			return f
		}
		for i := 0; i < n; i++ {
			var w vk.DD
			for j := 0; j < n; j++ {
				w.AddProd(E[i][j], heat[j])
			}
			got, ok := res[m.ids[i]]
			if !ok || math.Abs(got-w.Float()) > 1e-9*math.Max(1, hsum) {
				return vk.Failf("diffuse-value", "kind=%d t=%v node index %d: got %v (present %v) want exp(-Lt)h = %v", kind, t, i, got, ok, w.Float())
			}
		}
		vk.Class("spectral:diffuse")
		h = mkH() // dst may have been h
	}

	// --- DiffuseToEquilibrium: simulate h <- h - L h with a running error bound
	tol, iters := float64(c.Tol), c.Iters
	if !(tol > 0) || iters > 200 {
		return nil
	}
	var nI, nAbs float64 // inf-norms of I-L and |I|+|L|
	for i := 0; i < n; i++ {
		var a, b float64
		for j := 0; j < n; j++ {
			e := -Lm[i][j]
			if i == j {
				e += 1
			}
			a += math.Abs(e)
			b += math.Abs(Lm[i][j])
		}
		nI = math.Max(nI, a)
		nAbs = math.Max(nAbs, 1+b)
	}
	x := append([]float64(nil), heat...)
	var e float64
	wantOK, decided := false, true
	fn := float64(n)
	for k := 0; k < iters; k++ {
		y := make([]float64, n)
		var xmax float64
		for i := 0; i < n; i++ {
			var s vk.DD
			s.Add(x[i])
			for j := 0; j < n; j++ {
				s.AddProd(-Lm[i][j], x[j])
			}
			y[i] = s.Float()
			xmax = math.Max(xmax, math.Abs(x[i]))
		}
		e1 := nI*e + 4*(fn+2)*vk.Eps*nAbs*(xmax+e)
		var dd vk.DD
		for i := range y {
			dd.AddProd(y[i]-x[i], y[i]-x[i])
		}
		delta := math.Sqrt(dd.Float())
		margin := 2*math.Sqrt(fn)*(e+e1) + 8*fn*vk.Eps*delta
		x, e = y, e1
		if math.IsInf(e, 0) || math.IsNaN(e) || math.IsInf(delta, 0) || math.IsNaN(delta) {
			decided = false
			break
		}
		if math.Abs(delta-tol) <= margin {
			decided = false
			break
		}
		if delta < tol {
			wantOK = true
			break
		}
	}
	dst, foreign := mkDst(h)
	var res map[int64]float64
	var ok bool
	if f := vk.MustReturn("equilibrium-panics", func() { res, ok = network.DiffuseToEquilibrium(dst, h, L, tol, iters) }); f != nil {
		return f
	}
	if f := checkDst("equilibrium", res, foreign); f != nil {
		return f
	}
	if !decided {
		vk.Class("spectral:equilibrium-borderline")
		return nil
	}
	vk.Class(fmt.Sprintf("spectral:equilibrium-ok=%v", wantOK))
	if ok != wantOK {
		return vk.Failf("equilibrium-ok", "kind=%d tol=%v iters=%d: ok=%v, the documented update rule gives %v", kind, tol, iters, ok, wantOK)
	}
	for i := 0; i < n; i++ {
		got, present := res[m.ids[i]]
		if !present || math.Abs(got-x[i]) > 2*e+4*vk.Eps*math.Abs(x[i]) {
			return vk.Failf("equilibrium-value", "kind=%d tol=%v iters=%d ok=%v node index %d: got %v (present %v) want %v (error bound %g)", kind, tol, iters, ok, i, got, present, x[i], e)
		}
	}
	return nil
}

// foreignID returns an ID that is not a node of m.
func foreignID(m *model, k int) int64 {
	id := int64(5000011 + k)
	for {
		if _, ok := m.idx[id]; !ok {
			return id
		}
		id += 2
	}
}

func drawSpectral(t *rapid.T) specCase {
	c := specCase{}
	directed := rapid.IntRange(0, 5).Draw(t, "directed") == 0
	maxN := 20
	if rapid.IntRange(0, 4).Draw(t, "big") == 0 {
		maxN = 60
	}
	c.G = drawGraph(t, directed, true, maxN)
	c.Damp = vk.F(rapid.SampledFrom([]float64{0, 0.15, 0.5, 0.85, 0.25}).Draw(t, "damp"))
	c.Kind = rapid.IntRange(0, 2).Draw(t, "kind")
	hv := rapid.SliceOfN(rapid.IntRange(-8, 16), 1, 6).Draw(t, "heat")
	for _, v := range hv {
		c.Heat = append(c.Heat, vk.F(float64(v)/4))
	}
	c.Missing = rapid.SliceOfN(rapid.IntRange(0, c.G.N), 0, 3).Draw(t, "missing")
	c.Extra = rapid.Bool().Draw(t, "extra")
	c.DstMode = rapid.IntRange(0, 2).Draw(t, "dstmode")
	c.T = vk.F(rapid.SampledFrom([]float64{0, 0.125, 0.5, 1, 2, 5}).Draw(t, "t"))
	c.Tol = vk.F(rapid.SampledFrom([]float64{1e-1, 1e-2, 1e-4, 1e-6, 1e-9}).Draw(t, "tol"))
	c.Iters = rapid.SampledFrom([]int{-1, 0, 1, 2, 5, 10, 30, 100}).Draw(t, "iters")
	return c
}

func TestSpectral(t *testing.T) {
	ug := exhGraphs(false, 1, vk.Pick(4, 5))
	vk.Enumerate(t, "spectral-exh", len(ug), func(i int) specCase {
		return specCase{G: graphFromMask(ug[i].n, false, ug[i].mask), Damp: 0.5, Kind: i % 3, Heat: []vk.F{1, 0, 2.5, -1},
			T: vk.F([]float64{0.5, 1, 2}[i%3]), Tol: 1e-6, Iters: 40, DstMode: i % 3, Extra: i%2 == 0}
	}, checkSpectral)
	dg := exhGraphs(true, 1, 3)
	vk.Enumerate(t, "spectral-exh-directed", len(dg), func(i int) specCase {
		return specCase{G: graphFromMask(dg[i].n, true, dg[i].mask), Damp: 0.25, Kind: 2}
	}, checkSpectral)
	vk.Run(t, "spectral", vk.Opts{Quick: 6000, Thorough: 100000}, drawSpectral, checkSpectral)
}
