package c15

import (
	"fmt"
	"math"
	"testing"

	"gonum.org/v1/gonum/graph"
	"gonum.org/v1/gonum/graph/network"
	"gonum.org/v1/gonum/graph/path"
	"pgregory.net/rapid"
	"verifharness/vk"
)

// pathCase: betweenness (node and edge, weighted and unweighted) and the
// distance based measures on one graph.
type pathCase struct {
	G graphCase
}

// bruteBetweenness evaluates the defining sums over all ordered pairs (s,t)
// from exact distances d and exact path counts sig.
//
// nodeAdds / edgeAdds count the shortest paths through each node / edge over
// all pairs: the weighted routines perform that many floating-point additions
// into one accumulator, which scales their rounding error.
func bruteBetweenness(m *model, d, sig [][]float64) (node []float64, edge map[[2]int]float64, nodeAdds []float64, edgeAdds map[[2]int]float64) {
	n := m.n
	node = make([]float64, n)
	edge = map[[2]int]float64{}
	nodeAdds = make([]float64, n)
	edgeAdds = map[[2]int]float64{}
	nodeAcc := make([]vk.DD, n)
	edgeAcc := map[[2]int]*vk.DD{}
	for s := 0; s < n; s++ {
		for t := 0; t < n; t++ {
			if s == t || math.IsInf(d[s][t], 1) {
				continue
			}
			for v := 0; v < n; v++ {
				if v == s || v == t {
					continue
				}
				if d[s][v]+d[v][t] == d[s][t] {
					nodeAcc[v].Add(sig[s][v] * sig[v][t] / sig[s][t])
					nodeAdds[v] += sig[s][v] * sig[v][t]
				}
			}
			for u := 0; u < n; u++ {
				for v := 0; v < n; v++ {
					if m.w[u][v] == 0 {
						continue
					}
					if d[s][u]+m.w[u][v]+d[v][t] == d[s][t] {
						k := [2]int{u, v}
						if !m.directed && u > v {
							k = [2]int{v, u}
						}
						if edgeAcc[k] == nil {
							edgeAcc[k] = &vk.DD{}
						}
						edgeAcc[k].Add(sig[s][u] * sig[v][t] / sig[s][t])
						edgeAdds[k] += sig[s][u] * sig[v][t]
					}
				}
			}
		}
	}
	for v := range node {
		node[v] = nodeAcc[v].Float()
	}
	for k, a := range edgeAcc {
		edge[k] = a.Float()
	}
	return node, edge, nodeAdds, edgeAdds
}

// enumBetweenness is the literal brute force: enumerate every shortest path
// (depth-first over all simple paths of length d[s][t]) and count membership.
func enumBetweenness(m *model, d [][]float64) (node []float64, edge map[[2]int]float64, sigma [][]float64) {
	n := m.n
	node = make([]float64, n)
	edge = map[[2]int]float64{}
	sigma = make([][]float64, n)
	for s := range sigma {
		sigma[s] = make([]float64, n)
	}
	for s := 0; s < n; s++ {
		for t := 0; t < n; t++ {
			if s == t || math.IsInf(d[s][t], 1) {
				continue
			}
			var paths [][]int
			cur := []int{s}
			on := make([]bool, n)
			on[s] = true
			var rec func(u int, length float64)
			rec = func(u int, length float64) {
				if u == t {
					if length == d[s][t] {
						paths = append(paths, append([]int(nil), cur...))
					}
					return
				}
				for v := 0; v < n; v++ {
					if m.w[u][v] == 0 || on[v] || length+m.w[u][v] > d[s][t] {
						continue
					}
					on[v] = true
					cur = append(cur, v)
					rec(v, length+m.w[u][v])
					cur = cur[:len(cur)-1]
					on[v] = false
				}
			}
			rec(s, 0)
			sigma[s][t] = float64(len(paths))
			f := 1 / float64(len(paths))
			for _, p := range paths {
				for i, v := range p {
					if i > 0 && i < len(p)-1 {
						node[v] += f
					}
					if i > 0 {
						k := [2]int{p[i-1], v}
						if !m.directed && k[0] > k[1] {
							k = [2]int{k[1], k[0]}
						}
						edge[k] += f
					}
				}
			}
		}
	}
	return node, edge, sigma
}

func relClose(got, want float64) bool {
	return math.Abs(got-want) <= 1e-12*math.Max(1, math.Abs(want))
}

// addsClose allows the rounding of `adds` successive additions into one
// accumulator (each at most one ulp of the final value) on top of 1e-12.
func addsClose(got, want, adds float64) bool {
	return math.Abs(got-want) <= (1e-12+4*(adds+2)*vk.Eps)*math.Max(1, math.Abs(want))
}

func (m *model) cmpNodeMap(name string, got map[int64]float64, want, adds []float64, nonZeroOnly bool) *vk.Failure {
	for id := range got {
		if _, ok := m.idx[id]; !ok {
			return vk.Failf(name+"-keys", "result has an entry for ID %d which is not a node", id)
		}
	}
	for i, id := range m.ids {
		g, ok := got[id]
		if nonZeroOnly && want[i] == 0 {
			if ok {
				return vk.Failf(name+"-zero-entry", "node index %d (ID %d): entry %v present although the value by definition is 0 (only non-zero entries are documented)", i, id, g)
			}
			continue
		}
		if !ok {
			return vk.Failf(name+"-missing", "node index %d (ID %d): no entry, want %v", i, id, want[i])
		}
		if !(g == want[i] || addsClose(g, want[i], adds[i])) {
			return vk.Failf(name+"-value", "node index %d (ID %d): got %v want %v", i, id, g, want[i])
		}
	}
	return nil
}

func (m *model) cmpEdgeMap(name string, got map[[2]int64]float64, want, adds map[[2]int]float64) *vk.Failure {
	wantID := map[[2]int64]float64{}
	addsID := map[[2]int64]float64{}
	for k, v := range want {
		a, b := m.ids[k[0]], m.ids[k[1]]
		if !m.directed && a > b { // documented: u.ID < v.ID for undirected graphs
			a, b = b, a
		}
		wantID[[2]int64{a, b}] = v
		addsID[[2]int64{a, b}] = adds[k]
	}
	for k, g := range got {
		w, ok := wantID[k]
		if !ok {
			return vk.Failf(name+"-keys", "entry %v=%v: not an edge lying on a shortest path (or wrong key orientation)", k, g)
		}
		if !addsClose(g, w, addsID[k]) {
			return vk.Failf(name+"-value", "edge %v: got %v want %v", k, g, w)
		}
	}
	for k, w := range wantID {
		if _, ok := got[k]; !ok && w != 0 {
			return vk.Failf(name+"-missing", "edge %v: no entry, want %v", k, w)
		}
	}
	return nil
}

func checkPaths(c pathCase) *vk.Failure {
	m := newModel(c.G)
	n := m.n
	vk.Sample("paths", c)
	d := m.allDist()
	sig := m.sigma(d)
	var maxSig, totSig float64
	multi := false
	for s := 0; s < n; s++ {
		for t := 0; t < n; t++ {
			maxSig = math.Max(maxSig, sig[s][t])
			totSig += sig[s][t]
			if s != t && sig[s][t] >= 2 {
				multi = true
			}
		}
	}
	if maxSig >= 1<<50 {
		vk.Inconclusive("path-count-overflow")
		return nil
	}
	kind := "undirected"
	if m.directed {
		kind = "directed"
	}
	vk.Class("paths:" + kind)
	if multi {
		vk.Class("paths:tied-shortest-paths")
	}
	if n >= 4 && (multi || m.hasDanglingOrIsolated()) {
		vk.NonTrivial("paths", m.hash())
	}
	wantNode, wantEdge, nodeAdds, edgeAdds := bruteBetweenness(m, d, sig)
	if n <= 7 {
		// literal enumeration of all shortest paths cross-checks the counting formula
		en, ee, es := enumBetweenness(m, d)
		for s := 0; s < n; s++ {
			for t := 0; t < n; t++ {
				if s != t && es[s][t] != sig[s][t] {
					vk.Inconclusive("harness-sigma-mismatch")
					return vk.Failf("harness-self-check", "sigma[%d][%d]: counting %v enumeration %v", s, t, sig[s][t], es[s][t])
				}
			}
		}
		for v := range en {
			if !relClose(en[v], wantNode[v]) {
				return vk.Failf("harness-self-check", "node %d: counting %v enumeration %v", v, wantNode[v], en[v])
			}
		}
		for k, v := range ee {
			if !relClose(v, wantEdge[k]) {
				return vk.Failf("harness-self-check", "edge %v: counting %v enumeration %v", k, wantEdge[k], v)
			}
		}
		vk.Class("paths:enumerated")
	}

	// --- weighted forms from DijkstraAllPaths and FloydWarshall results
	wg := m.buildWeighted()
	var dij, fw path.AllShortest
	var fwOK bool
	if f := vk.MustReturn("dijkstra-all-paths-panics", func() { dij = path.DijkstraAllPaths(wg) }); f != nil {
		return f
	}
	if f := vk.MustReturn("floyd-warshall-panics", func() { fw, fwOK = path.FloydWarshall(wg) }); f != nil {
		return f
	}
	if !fwOK {
		return vk.Failf("floyd-warshall-ok", "FloydWarshall reports a negative cycle on positive weights")
	}
	// path enumeration by AllBetween is exponential in the number of tied paths
	enumerable := totSig <= 300000
	for k, p := range []path.AllShortest{dij, fw} {
		src := []string{"dijkstra", "floydwarshall"}[k]
		for s := 0; s < n; s++ {
			for t := 0; t < n; t++ {
				if got := p.Weight(m.ids[s], m.ids[t]); got != d[s][t] {
					return vk.Failf("allshortest-weight-"+src, "d(%d,%d): got %v want %v", s, t, got, d[s][t])
				}
			}
		}
		if f := checkDistanceMeasures(m, wg, p, d, src); f != nil {
			return f
		}
		if !enumerable {
			vk.Class("paths:too-many-tied-paths-for-weighted")
			continue
		}
		var nb map[int64]float64
		var eb map[[2]int64]float64
		wgw := wg.(graph.Weighted)
		if f := vk.MustReturn("betweenness-weighted-panics", func() { nb = network.BetweennessWeighted(wgw, p) }); f != nil {
			return f
		}
		if f := vk.MustReturn("edge-betweenness-weighted-panics", func() { eb = network.EdgeBetweennessWeighted(wgw, p) }); f != nil {
			return f
		}
		if f := m.cmpNodeMap("betweenness-weighted-"+src, nb, wantNode, nodeAdds, true); f != nil {
			return f
		}
		if f := m.cmpEdgeMap("edge-betweenness-weighted-"+src, eb, wantEdge, edgeAdds); f != nil {
			return f
		}
	}

	// --- unweighted forms (Brandes) on the unit-weight topology
	um := m
	ud, usig := d, sig
	uNode, uEdge := wantNode, wantEdge
	if !m.unit {
		um = m.unitModel()
		ud = um.allDist()
		usig = um.sigma(ud)
		uNode, uEdge, _, _ = bruteBetweenness(um, ud, usig)
	}
	ug := um.buildUnweighted()
	var nb map[int64]float64
	var eb map[[2]int64]float64
	if f := vk.MustReturn("betweenness-panics", func() { nb = network.Betweenness(ug) }); f != nil {
		return f
	}
	if f := vk.MustReturn("edge-betweenness-panics", func() { eb = network.EdgeBetweenness(ug) }); f != nil {
		return f
	}
	if f := um.cmpNodeMap("betweenness", nb, uNode, make([]float64, um.n), true); f != nil {
		return f
	}
	if f := um.cmpEdgeMap("edge-betweenness", eb, uEdge, map[[2]int]float64{}); f != nil {
		return f
	}
	// distance measures on the unweighted container (uniform cost)
	var up path.AllShortest
	if f := vk.MustReturn("dijkstra-all-paths-panics", func() { up = path.DijkstraAllPaths(ug) }); f != nil {
		return f
	}
	if f := checkDistanceMeasures(um, ug, up, ud, "unweighted"); f != nil {
		return f
	}
	return nil
}

// checkDistanceMeasures evaluates the documented formulas from the true
// distances d (incoming paths; infinite distances skipped).
func checkDistanceMeasures(m *model, g graph.Graph, p path.AllShortest, d [][]float64, src string) *vk.Failure {
	n := m.n
	far := make([]float64, n)
	clo := make([]float64, n)
	har := make([]float64, n)
	res := make([]float64, n)
	ecc := make([]float64, n)
	for v := 0; v < n; v++ {
		var sum, hs, rs vk.DD
		var mx float64
		for u := 0; u < n; u++ {
			duv := d[u][v] // incoming: from u to v
			if math.IsInf(duv, 1) {
				continue
			}
			sum.Add(duv)
			mx = math.Max(mx, duv)
			if u != v {
				hs.Add(1 / duv)
				rs.Add(math.Exp2(-duv))
			}
		}
		far[v] = sum.Float()
		clo[v] = 1 / far[v]
		har[v] = hs.Float()
		res[v] = rs.Float()
		ecc[v] = mx
	}
	type meas struct {
		name  string
		f     func(graph.Graph, path.AllShortest) map[int64]float64
		want  []float64
		exact bool
	}
	for _, ms := range []meas{
		{"farness", network.Farness, far, true},
		{"closeness", network.Closeness, clo, true},
		{"eccentricity", network.Eccentricity, ecc, true},
		{"harmonic", network.Harmonic, har, false},
		{"residual", network.Residual, res, false},
	} {
		var got map[int64]float64
		if f := vk.MustReturn(ms.name+"-panics", func() { got = ms.f(g, p) }); f != nil {
			return f
		}
		if len(got) != n {
			return vk.Failf(ms.name+"-keys", "%s: result has %d entries, graph has %d nodes", src, len(got), n)
		}
		for i, id := range m.ids {
			gv, ok := got[id]
			if !ok {
				return vk.Failf(ms.name+"-keys", "%s: no entry for node ID %d", src, id)
			}
			w := ms.want[i]
			okv := gv == w
			if !ms.exact && !okv {
				okv = math.Abs(gv-w) <= 4*float64(n)*vk.Eps*math.Abs(w)
			}
			if !okv {
				return vk.Failf(ms.name+"-value", "%s: node index %d (ID %d): got %v want %v (distances into the node: %v)", src, i, id, gv, w, column(d, i))
			}
		}
	}
	return nil
}

func column(d [][]float64, j int) string {
	out := make([]float64, len(d))
	for i := range d {
		out[i] = d[i][j]
	}
	return fmt.Sprint(out)
}

func drawPaths(maxN int) func(t *rapid.T) pathCase {
	return func(t *rapid.T) pathCase {
		directed := rapid.Bool().Draw(t, "directed")
		unit := rapid.IntRange(0, 2).Draw(t, "unit") == 0
		return pathCase{G: drawGraph(t, directed, unit, maxN)}
	}
}

func TestPaths(t *testing.T) {
	ug := exhGraphs(false, 0, vk.Pick(4, 5))
	vk.Enumerate(t, "paths-exh-undirected", len(ug), func(i int) pathCase {
		return pathCase{G: graphFromMask(ug[i].n, false, ug[i].mask)}
	}, checkPaths)
	dg := exhGraphs(true, 0, vk.Pick(3, 4))
	vk.Enumerate(t, "paths-exh-directed", len(dg), func(i int) pathCase {
		return pathCase{G: graphFromMask(dg[i].n, true, dg[i].mask)}
	}, checkPaths)
	vk.Run(t, "paths-small", vk.Opts{Quick: 6000, Thorough: 100000}, drawPaths(12), checkPaths)
	vk.Run(t, "paths", vk.Opts{Quick: 3000, Thorough: 40000}, drawPaths(60), checkPaths)
}
