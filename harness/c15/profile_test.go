package c15

import (
	"fmt"
	"math"
	"math/rand/v2"
	"testing"

	"gonum.org/v1/gonum/graph"
	"gonum.org/v1/gonum/graph/community"
	"pgregory.net/rapid"
	"verifharness/vk"
)

// profCase: ModularScore + Profile on a small graph.
type profCase struct {
	G         graphCase
	Weighted  bool
	ScoreKind int // 0 community.Size, 1 community.Weight
	Effort    int
	Log       bool
	Grain     vk.F
	Low, High vk.F
	S1, S2    uint64
}

func checkProfile(c profCase) *vk.Failure {
	m := newModel(c.G)
	n := m.n
	low, high, grain := float64(c.Low), float64(c.High), float64(c.Grain)
	if n == 0 || c.Effort < 1 || c.Effort > 5 || !(grain >= 0.05 && grain <= 1) || !(low > 0 && high > low && high <= 100) {
		return nil
	}
	if m.directed && len(m.edges) == 0 {
		return nil // Modularize on an edgeless directed graph: separate finding
	}
	vk.Sample("profile", c)
	var g graph.Graph
	if c.Weighted || !m.unit {
		g = m.buildWeighted()
	} else {
		g = m.buildUnweighted()
	}
	score := community.Size
	if c.ScoreKind%2 == 1 {
		score = community.Weight
	}
	var prof []community.Interval
	var err error
	if f := vk.MustReturn("profile-panics", func() {
		fn := community.ModularScore(g, score, c.Effort, rand.NewPCG(c.S1, c.S2))
		prof, err = community.Profile(fn, c.Log, grain, low, high)
	}); f != nil {
		return f
	}
	if err != nil {
		vk.Class("profile:error-non-monotone")
		return nil
	}
	vk.Class(fmt.Sprintf("profile:intervals=%d", min(len(prof), 4)))
	if len(prof) >= 2 {
		vk.NonTrivial("profile", m.hash(), c.ScoreKind, c.Effort, c.Log, grain, low, high, c.S1, c.S2)
	}
	if len(prof) == 0 {
		return vk.Failf("profile-empty", "Profile returned no interval and no error for [%v,%v)", low, high)
	}
	if prof[0].Low != low || prof[len(prof)-1].High != high {
		return vk.Failf("profile-tiling", "intervals span [%v,%v), want [%v,%v)", prof[0].Low, prof[len(prof)-1].High, low, high)
	}
	for i, iv := range prof {
		if !(iv.Low < iv.High) {
			return vk.Failf("profile-tiling", "interval %d is [%v,%v)", i, iv.Low, iv.High)
		}
		if i > 0 && prof[i-1].High != iv.Low {
			return vk.Failf("profile-tiling", "interval %d starts at %v, interval %d ends at %v", i, iv.Low, i-1, prof[i-1].High)
		}
		if i > 0 && !(iv.Score <= prof[i-1].Score) {
			return vk.Failf("profile-monotone", "score rises from %v to %v at resolution %v", prof[i-1].Score, iv.Score, iv.Low)
		}
		if isNilIface(iv.Reduced) {
			return vk.Failf("profile-nil-reduced", "interval %d has no community structure", i)
		}
		comms := iv.Reduced.Communities()
		seen := make([]bool, n)
		cnt := 0
		var blocks [][]int
		for _, cm := range comms {
			var b []int
			for _, nd := range cm {
				v, ok := m.idx[nd.ID()]
				if !ok || seen[v] {
					return vk.Failf("profile-communities-not-partition", "interval %d: %v", i, idBlocks(comms))
				}
				seen[v] = true
				cnt++
				b = append(b, v)
			}
			blocks = append(blocks, b)
		}
		if cnt != n {
			return vk.Failf("profile-communities-not-partition", "interval %d: %v covers %d of %d nodes", i, idBlocks(comms), cnt, n)
		}
		// the interval's partition reproduces its score
		var want float64
		if c.ScoreKind%2 == 0 {
			want = 1 / float64(len(comms))
		} else {
			for _, b := range blocks {
				for _, u := range b {
					for _, v := range b {
						want += m.w[u][v]
					}
				}
			}
		}
		if !(math.Abs(iv.Score-want) <= 1e-12*math.Max(1, math.Abs(want))) {
			return vk.Failf("profile-score-vs-partition", "interval %d [%v,%v): score %v, its communities %v give %v", i, iv.Low, iv.High, iv.Score, idBlocks(comms), want)
		}
	}
	return nil
}

func TestProfile(t *testing.T) {
	vk.Run(t, "profile", vk.Opts{Quick: 2400, Thorough: 35000}, func(t *rapid.T) profCase {
		c := profCase{}
		directed := rapid.IntRange(0, 2).Draw(t, "directed") == 0
		c.Weighted = rapid.Bool().Draw(t, "weighted")
		c.G = drawGraph(t, directed, !c.Weighted, 16)
		c.ScoreKind = rapid.IntRange(0, 1).Draw(t, "score")
		c.Effort = rapid.IntRange(1, 3).Draw(t, "effort")
		c.Log = rapid.Bool().Draw(t, "log")
		c.Grain = vk.F(rapid.SampledFrom([]float64{0.1, 0.25, 0.5, 1}).Draw(t, "grain"))
		c.Low = vk.F(rapid.SampledFrom([]float64{0.1, 0.25, 0.5, 1}).Draw(t, "low"))
		c.High = vk.F(float64(c.Low) + rapid.SampledFrom([]float64{0.5, 1, 2, 5, 10}).Draw(t, "width"))
		c.S1 = rapid.Uint64().Draw(t, "s1")
		c.S2 = rapid.Uint64().Draw(t, "s2")
		return c
	}, checkProfile)
}
