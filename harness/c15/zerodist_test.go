package c15

import (
	"fmt"
	"math"
	"testing"

	"gonum.org/v1/gonum/graph"
	"gonum.org/v1/gonum/graph/network"
	"gonum.org/v1/gonum/graph/path"
	"gonum.org/v1/gonum/graph/simple"
	"pgregory.net/rapid"
	"verifharness/vk"
)

// zdCase: the distance based measures (and, where shortest paths are
// finitely many, the weighted betweenness forms) on weighted graphs whose
// true distance matrix has exact zeros between distinct nodes: zero-weight
// edges, and in directed graphs negative arcs that cancel along shortest
// paths (no negative cycle). Edge weights are small dyadic numbers of either
// sign; a weight of 0 is a present edge of weight zero.
type zdCase struct {
	N        int
	Directed bool
	IDMode   int
	Edges    []edgeT
}

type zdModel struct {
	n        int
	directed bool
	ids      []int64
	has      [][]bool
	w        [][]float64
	edges    []edgeT
}

func newZdModel(c zdCase) *zdModel {
	n := c.N
	if n < 0 {
		n = 0
	}
	m := &zdModel{n: n, directed: c.Directed, ids: idsFor(n, c.IDMode)}
	m.has = make([][]bool, n)
	m.w = make([][]float64, n)
	for i := range m.w {
		m.has[i] = make([]bool, n)
		m.w[i] = make([]float64, n)
	}
	for _, e := range c.Edges {
		u, v, w := e.U, e.V, float64(e.W)
		if u < 0 || v < 0 || u >= n || v >= n || u == v || math.IsNaN(w) || math.IsInf(w, 0) || math.Abs(w) > 64 || w*8 != math.Trunc(w*8) {
			continue
		}
		if !c.Directed {
			if u > v {
				u, v = v, u
			}
			if w < 0 {
				continue // a negative undirected edge is a negative cycle
			}
		}
		if m.has[u][v] {
			continue
		}
		m.has[u][v], m.w[u][v] = true, w
		if !c.Directed {
			m.has[v][u], m.w[v][u] = true, w
		}
		m.edges = append(m.edges, edgeT{u, v, vk.F(w)})
	}
	return m
}

func (m *zdModel) build() graph.Graph {
	node := func(i int) graph.Node { return simple.Node(m.ids[i]) }
	if m.directed {
		g := simple.NewWeightedDirectedGraph(0, math.Inf(1))
		for i := 0; i < m.n; i++ {
			g.AddNode(node(i))
		}
		for _, e := range m.edges {
			g.SetWeightedEdge(simple.WeightedEdge{F: node(e.U), T: node(e.V), W: float64(e.W)})
		}
		return g
	}
	g := simple.NewWeightedUndirectedGraph(0, math.Inf(1))
	for i := m.n - 1; i >= 0; i-- {
		g.AddNode(node(i))
	}
	for _, e := range m.edges {
		g.SetWeightedEdge(simple.WeightedEdge{F: node(e.V), T: node(e.U), W: float64(e.W)})
	}
	return g
}

// dist is Floyd-Warshall on exact weights; negCycle reports a negative cycle.
func (m *zdModel) dist() (d [][]float64, negCycle bool) {
	n := m.n
	d = make([][]float64, n)
	for i := range d {
		d[i] = make([]float64, n)
		for j := range d[i] {
			switch {
			case i == j:
				d[i][j] = 0
			case m.has[i][j]:
				d[i][j] = m.w[i][j]
			default:
				d[i][j] = math.Inf(1)
			}
		}
	}
	for k := 0; k < n; k++ {
		for i := 0; i < n; i++ {
			if math.IsInf(d[i][k], 1) {
				continue
			}
			for j := 0; j < n; j++ {
				if s := d[i][k] + d[k][j]; s < d[i][j] {
					d[i][j] = s
				}
			}
		}
	}
	for i := 0; i < n; i++ {
		if d[i][i] < 0 {
			return d, true
		}
	}
	return d, false
}

// simplePathBetweenness enumerates all simple paths and keeps those of
// length d[s][t] (valid when no cycle has weight zero).
func (m *zdModel) simplePathBetweenness(d [][]float64) (node []float64, edge map[[2]int]float64, nodeAdds []float64, edgeAdds map[[2]int]float64) {
	n := m.n
	node = make([]float64, n)
	nodeAdds = make([]float64, n)
	edge = map[[2]int]float64{}
	edgeAdds = map[[2]int]float64{}
	for s := 0; s < n; s++ {
		for t := 0; t < n; t++ {
			if s == t || math.IsInf(d[s][t], 1) {
				continue
			}
			var paths [][]int
			cur := []int{s}
			on := make([]bool, n)
			on[s] = true
			var rec func(u int, length float64)
			rec = func(u int, length float64) {
				if u == t {
					if length == d[s][t] {
						paths = append(paths, append([]int(nil), cur...))
					}
					return
				}
				for v := 0; v < n; v++ {
					if !m.has[u][v] || on[v] {
						continue
					}
					on[v] = true
					cur = append(cur, v)
					rec(v, length+m.w[u][v])
					cur = cur[:len(cur)-1]
					on[v] = false
				}
			}
			rec(s, 0)
			f := 1 / float64(len(paths))
			for _, p := range paths {
				for i, v := range p {
					if i > 0 && i < len(p)-1 {
						node[v] += f
						nodeAdds[v]++
					}
					if i > 0 {
						k := [2]int{p[i-1], v}
						if !m.directed && k[0] > k[1] {
							k = [2]int{k[1], k[0]}
						}
						edge[k] += f
						edgeAdds[k]++
					}
				}
			}
		}
	}
	return
}

func checkZeroDist(c zdCase) *vk.Failure {
	m := newZdModel(c)
	n := m.n
	if n == 0 {
		return nil
	}
	vk.Sample("zero-dist", c)
	d, neg := m.dist()
	if neg {
		vk.Class("zero-dist:negative-cycle-skipped")
		return nil
	}
	hasNeg, zeroPair, zeroCycle := false, false, false
	for _, e := range m.edges {
		if float64(e.W) < 0 {
			hasNeg = true
		}
	}
	for u := 0; u < n; u++ {
		for v := 0; v < n; v++ {
			if u != v && d[u][v] == 0 {
				zeroPair = true
			}
			if u != v && !math.IsInf(d[u][v], 1) && !math.IsInf(d[v][u], 1) && d[u][v]+d[v][u] == 0 {
				zeroCycle = true
			}
		}
	}
	kind := "undirected"
	if m.directed {
		kind = "directed"
	}
	vk.Class("zero-dist:" + kind)
	if zeroPair {
		vk.Class("zero-dist:zero-distance-between-distinct-nodes")
		vk.NonTrivial("zero-dist", n, m.directed, fmt.Sprint(m.ids), fmt.Sprint(m.edges))
	}
	if hasNeg {
		vk.Class("zero-dist:negative-arcs")
	}
	g := m.build()
	// reference model with index helpers of the positive-weight model
	pm := &model{n: n, directed: m.directed, ids: m.ids, idx: map[int64]int{}}
	for i, id := range m.ids {
		pm.idx[id] = i
	}

	type producer struct {
		name string
		f    func() (path.AllShortest, bool)
	}
	prods := []producer{
		{"floydwarshall", func() (path.AllShortest, bool) { return path.FloydWarshall(g) }},
		{"johnson", func() (path.AllShortest, bool) { return path.JohnsonAllPaths(g) }},
	}
	if !hasNeg {
		prods = append(prods, producer{"dijkstra", func() (path.AllShortest, bool) { return path.DijkstraAllPaths(g), true }})
	}
	var wantNode []float64
	var wantEdge map[[2]int]float64
	var nodeAdds []float64
	var edgeAdds map[[2]int]float64
	between := !zeroCycle && n <= 7
	if between {
		wantNode, wantEdge, nodeAdds, edgeAdds = m.simplePathBetweenness(d)
		vk.Class("zero-dist:betweenness-checked")
	} else if zeroCycle {
		// with a zero-weight cycle the set of shortest walks is infinite and
		// nothing is documented about which paths are counted
		vk.Class("zero-dist:zero-weight-cycle-betweenness-skipped")
	}
	for _, pr := range prods {
		var p path.AllShortest
		var ok bool
		if f := vk.MustReturn("allshortest-"+pr.name+"-panics", func() { p, ok = pr.f() }); f != nil {
			return f
		}
		if !ok {
			return vk.Failf("allshortest-"+pr.name+"-ok", "%s reports a negative cycle, the graph has none (edges %v)", pr.name, m.edges)
		}
		for s := 0; s < n; s++ {
			for t := 0; t < n; t++ {
				if got := p.Weight(m.ids[s], m.ids[t]); got != d[s][t] {
					return vk.Failf("allshortest-weight-"+pr.name, "d(%d,%d): got %v want %v (edges %v)", s, t, got, d[s][t], m.edges)
				}
			}
		}
		if f := checkZeroDistMeasures(m, g, p, d, pr.name); f != nil {
			return f
		}
		if between {
			var nb map[int64]float64
			var eb map[[2]int64]float64
			wg := g.(graph.Weighted)
			if f := vk.MustReturn("betweenness-weighted-panics", func() { nb = network.BetweennessWeighted(wg, p) }); f != nil {
				return f
			}
			if f := vk.MustReturn("edge-betweenness-weighted-panics", func() { eb = network.EdgeBetweennessWeighted(wg, p) }); f != nil {
				return f
			}
			if f := pm.cmpNodeMap("betweenness-weighted-"+pr.name, nb, wantNode, nodeAdds, true); f != nil {
				return f
			}
			if f := pm.cmpEdgeMap("edge-betweenness-weighted-"+pr.name, eb, wantEdge, edgeAdds); f != nil {
				return f
			}
		}
	}
	return nil
}

// checkZeroDistMeasures evaluates the documented sums over the incoming
// finite distances. Farness, Eccentricity (max over all u including u = v)
// and Residual (sum over u != v of 2^-d) are defined for every finite
// distance. Closeness with zero farness and Harmonic with a zero distance
// between distinct nodes are 1/0 in the documented formulas: those entries
// are classified, not asserted.
func checkZeroDistMeasures(m *zdModel, g graph.Graph, p path.AllShortest, d [][]float64, src string) *vk.Failure {
	n := m.n
	type meas struct {
		name string
		f    func(graph.Graph, path.AllShortest) map[int64]float64
	}
	got := map[string]map[int64]float64{}
	for _, ms := range []meas{{"farness", network.Farness}, {"closeness", network.Closeness}, {"eccentricity", network.Eccentricity}, {"harmonic", network.Harmonic}, {"residual", network.Residual}} {
		var r map[int64]float64
		if f := vk.MustReturn(ms.name+"-panics", func() { r = ms.f(g, p) }); f != nil {
			return f
		}
		if len(r) != n {
			return vk.Failf(ms.name+"-keys", "%s: result has %d entries, graph has %d nodes", src, len(r), n)
		}
		got[ms.name] = r
	}
	for v := 0; v < n; v++ {
		id := m.ids[v]
		var far, har, harAbs, res vk.DD
		var ecc float64
		zeroIn := false
		for u := 0; u < n; u++ {
			duv := d[u][v]
			if math.IsInf(duv, 1) {
				continue
			}
			far.Add(duv)
			ecc = math.Max(ecc, duv)
			if u != v {
				if duv == 0 {
					zeroIn = true
				} else {
					har.Add(1 / duv)
					harAbs.Add(math.Abs(1 / duv))
				}
				res.Add(math.Exp2(-duv))
			}
		}
		fail := func(name string, g, w float64) *vk.Failure {
			return vk.Failf(name+"-value", "%s: node index %d (ID %d): got %v want %v (distances into the node: %v; edges %v)", src, v, id, g, w, column(d, v), m.edges)
		}
		for _, name := range []string{"farness", "closeness", "eccentricity", "harmonic", "residual"} {
			if _, ok := got[name][id]; !ok {
				return vk.Failf(name+"-keys", "%s: no entry for node ID %d", src, id)
			}
		}
		if gv := got["farness"][id]; gv != far.Float() {
			return fail("farness", gv, far.Float())
		}
		if gv := got["eccentricity"][id]; gv != ecc {
			return fail("eccentricity", gv, ecc)
		}
		if far.Float() == 0 {
			vk.Class("zero-dist:closeness-zero-farness-not-asserted")
		} else if gv, w := got["closeness"][id], 1/far.Float(); gv != w {
			return fail("closeness", gv, w)
		}
		if zeroIn {
			vk.Class("zero-dist:harmonic-zero-distance-not-asserted")
		} else if gv, w := got["harmonic"][id], har.Float(); gv != w && !(math.Abs(gv-w) <= 4*float64(n)*vk.Eps*harAbs.Float()) {
			return fail("harmonic", gv, w)
		}
		if gv, w := got["residual"][id], res.Float(); gv != w && !(math.Abs(gv-w) <= 4*float64(n)*vk.Eps*w) {
			return fail("residual", gv, w)
		}
	}
	return nil
}

// zdFromCode decodes one weight choice per (ordered) pair.
func zdFromCode(n int, directed bool, code int, ws []float64) zdCase {
	c := zdCase{N: n, Directed: directed}
	base := len(ws) + 1
	for u := 0; u < n; u++ {
		for v := 0; v < n; v++ {
			if u == v || (!directed && u > v) {
				continue
			}
			k := code % base
			code /= base
			if k > 0 {
				c.Edges = append(c.Edges, edgeT{u, v, vk.F(ws[k-1])})
			}
		}
	}
	return c
}

func ipow(b, e int) int {
	r := 1
	for ; e > 0; e-- {
		r *= b
	}
	return r
}

func drawZeroDist(t *rapid.T) zdCase {
	c := zdCase{}
	c.Directed = rapid.Bool().Draw(t, "directed")
	c.IDMode = rapid.SampledFrom([]int{0, 0, 1, 2, 3}).Draw(t, "idmode")
	c.N = rapid.IntRange(2, 8).Draw(t, "n")
	if rapid.IntRange(0, 4).Draw(t, "big") == 0 {
		c.N = rapid.IntRange(9, 24).Draw(t, "nbig")
	}
	dens := rapid.IntRange(1, 8).Draw(t, "dens")
	if c.N > 8 {
		dens = rapid.IntRange(1, 3).Draw(t, "densbig")
	}
	// non-negative base weights with many zeros; directed graphs are then
	// re-weighted by a node potential, w'(u,v) = w(u,v) + p(u) - p(v), which
	// creates negative arcs and exact cancellations but no negative cycle
	pot := make([]int, c.N)
	usePot := c.Directed && rapid.Bool().Draw(t, "potential")
	for i := range pot {
		if usePot {
			pot[i] = rapid.IntRange(0, 3).Draw(t, "p")
		}
	}
	base := []float64{0, 0, 0.5, 1, 1, 2, 3}
	for u := 0; u < c.N; u++ {
		for v := 0; v < c.N; v++ {
			if u == v || (!c.Directed && u > v) {
				continue
			}
			if rapid.IntRange(0, 9).Draw(t, "e") < dens {
				w := rapid.SampledFrom(base).Draw(t, "w")
				c.Edges = append(c.Edges, edgeT{u, v, vk.F(w + float64(pot[u]-pot[v]))})
			}
		}
	}
	return c
}

func TestZeroDist(t *testing.T) {
	// exhaustive: undirected graphs on <= 4 (thorough 5) nodes with weights {0,1}; digraphs
	// on <= 3 nodes with weights {0,1} and with weights {-1,0,1,2} (those with
	// a negative cycle are skipped by the check)
	type part struct {
		n        int
		directed bool
		ws       []float64
	}
	parts := []part{{2, false, []float64{0, 1}}, {3, false, []float64{0, 1}}, {4, false, []float64{0, 1}},
		{2, true, []float64{0, 1}}, {3, true, []float64{0, 1}}, {2, true, []float64{-1, 0, 1, 2}}}
	if vk.Quick() {
		parts = append(parts, part{3, true, []float64{-1, 0, 1}})
	} else {
		parts = append(parts, part{3, true, []float64{-1, 0, 1, 2}}, part{5, false, []float64{0, 1}})
	}
	var cases []zdCase
	for _, p := range parts {
		pairs := p.n * (p.n - 1)
		if !p.directed {
			pairs /= 2
		}
		for code := 0; code < ipow(len(p.ws)+1, pairs); code++ {
			cases = append(cases, zdFromCode(p.n, p.directed, code, p.ws))
		}
	}
	vk.Enumerate(t, "zero-dist-exh", len(cases), func(i int) zdCase { return cases[i] }, checkZeroDist)
	vk.Run(t, "zero-dist", vk.Opts{Quick: 4000, Thorough: 40000}, drawZeroDist, checkZeroDist)
}
