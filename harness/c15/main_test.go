// Package c15 checks property C15: network measures and community detection
// equal their defining formulas.
package c15

import (
	"testing"

	"verifharness/vk"
)

func TestMain(m *testing.M) { vk.Main(m, "C15") }
