package c15

import (
	"math"
	"testing"

	"gonum.org/v1/gonum/graph"
	"gonum.org/v1/gonum/graph/network"
	"gonum.org/v1/gonum/graph/path"
	"gonum.org/v1/gonum/graph/simple"
	"pgregory.net/rapid"
	"verifharness/vk"
)

// ---- distance measures on all-pairs results that contain -Inf -------------------------
//
// (added after seeded change C15-16: Farness skipping +Inf only.) The five distance measures
// document "Infinite distances are not considered". An AllShortest computed on a directed
// graph with a negative cycle reports -Inf for every pair joined through the cycle (and ok ==
// false); such a value may still be handed to the measures, and -Inf is an infinite distance.
// Oracle: the documented sums over the *finite* entries of p.Weight itself (integer weights, so
// the sums are exact in any order). Only the measures whose formula has no division by a
// possibly zero quantity are asserted unconditionally.

type ncEdge struct{ U, V, W int }

type ncCase struct {
	N     int
	Edges []ncEdge
}

func checkNegCycle(c ncCase) *vk.Failure {
	g := simple.NewWeightedDirectedGraph(0, math.Inf(1))
	for i := 0; i < c.N; i++ {
		g.AddNode(simple.Node(int64(i)))
	}
	seen := map[[2]int]bool{}
	for _, e := range c.Edges {
		if e.U == e.V || seen[[2]int{e.U, e.V}] {
			continue
		}
		seen[[2]int{e.U, e.V}] = true
		g.SetWeightedEdge(simple.WeightedEdge{F: simple.Node(int64(e.U)), T: simple.Node(int64(e.V)), W: float64(e.W)})
	}
	var p path.AllShortest
	var ok bool
	if f := vk.MustReturn("negcycle-floydwarshall-panics", func() { p, ok = path.FloydWarshall(g) }); f != nil {
		return f
	}
	ninf := 0
	for u := 0; u < c.N; u++ {
		for v := 0; v < c.N; v++ {
			if math.IsInf(p.Weight(int64(u), int64(v)), -1) {
				ninf++
			}
		}
	}
	if !ok && ninf > 0 && ninf < c.N*c.N {
		vk.NonTrivial("negcycle", c.N, c.Edges)
	}
	vk.Sample("negcycle-measures", c)
	type meas struct {
		name string
		f    func(graph.Graph, path.AllShortest) map[int64]float64
	}
	for _, ms := range []meas{{"farness", network.Farness}, {"closeness", network.Closeness}, {"eccentricity", network.Eccentricity}, {"residual", network.Residual}} {
		var r map[int64]float64
		if f := vk.MustReturn("negcycle-"+ms.name+"-panics", func() { r = ms.f(g, p) }); f != nil {
			return f
		}
		for v := 0; v < c.N; v++ {
			var far, ecc, res float64
			for u := 0; u < c.N; u++ {
				d := p.Weight(int64(u), int64(v))
				if math.IsInf(d, 0) {
					continue
				}
				far += d
				ecc = math.Max(ecc, d)
				if u != v {
					res += math.Exp2(-d)
				}
			}
			got, has := r[int64(v)]
			if !has {
				return vk.Failf("negcycle-"+ms.name+"-keys", "no entry for node %d (edges %v)", v, c.Edges)
			}
			var want float64
			switch ms.name {
			case "farness":
				want = far
			case "closeness":
				if far == 0 {
					continue
				}
				want = 1 / far
			case "eccentricity":
				want = ecc
			case "residual":
				want = res // powers of two of small integers: exact in any order
			}
			if got != want {
				return vk.Failf("negcycle-"+ms.name+"-value", "node %d: got %v, the documented sum over finite distances gives %v (ok=%v, %d pairs at -Inf, edges %v)", v, got, want, ok, ninf, c.Edges)
			}
		}
	}
	return nil
}

func TestNegCycleMeasures(t *testing.T) {
	vk.Run(t, "negcycle-measures", vk.Opts{Quick: 3000, Thorough: 60000, NoCrumb: true}, func(t *rapid.T) ncCase {
		c := ncCase{N: rapid.IntRange(3, 7).Draw(t, "n")}
		// a cycle of negative total weight on the first k nodes, then arbitrary arcs
		k := rapid.IntRange(2, min(c.N-1, 4)).Draw(t, "k")
		for i := 0; i < k; i++ {
			w := 1
			if i == 0 {
				w = -k - rapid.IntRange(0, 2).Draw(t, "neg")
			}
			c.Edges = append(c.Edges, ncEdge{i, (i + 1) % k, w})
		}
		m := rapid.IntRange(0, 2*c.N).Draw(t, "m")
		for i := 0; i < m; i++ {
			c.Edges = append(c.Edges, ncEdge{rapid.IntRange(0, c.N-1).Draw(t, "u"), rapid.IntRange(0, c.N-1).Draw(t, "v"), rapid.IntRange(1, 4).Draw(t, "w")})
		}
		return c
	}, checkNegCycle)
}
