package c15

import (
	"fmt"
	"math"
	"math/rand/v2"
	"reflect"
	"sort"
	"strings"
	"testing"

	"gonum.org/v1/gonum/graph"
	"gonum.org/v1/gonum/graph/community"
	"pgregory.net/rapid"
	"verifharness/vk"
)

// level is one level of a Louvain hierarchy, seen through the exported API.
type level struct {
	comms     [][]graph.Node
	structure [][]graph.Node
	layers    []graph.Graph // the reduced graph (one entry) or its layers
	self      any           // the ReducedGraph / ReducedMultiplex itself
}

// hierarchy describes what was modularised, for the level checks.
type hierarchy struct {
	name       string
	layers     []*model  // |weights| per layer over the original nodes
	w, res     []float64 // effective layer weights and resolutions
	normalised bool      // single graph: objective is sum/norm; multiplex: sum_l w_l*sum_l
	searchAll  bool
	directed   bool
	selfKnown  bool // the container reports a non-zero Weight(x,x): see the contract sub-check
	qOrig      func(comms [][]graph.Node) ([]float64, *vk.Failure) // gonum Q on the original graph
	qLevel     func(lv level) ([]float64, *vk.Failure)             // gonum Q on the reduced graph with its Structure
	qLevelNil  func(lv level) ([]float64, *vk.Failure)             // gonum Q on the reduced graph with communities == nil
}

func isNilIface(x any) bool {
	if x == nil {
		return true
	}
	v := reflect.ValueOf(x)
	switch v.Kind() {
	case reflect.Ptr, reflect.Map, reflect.Slice, reflect.Interface, reflect.Func, reflect.Chan:
		return v.IsNil()
	}
	return false
}

// reduceMatrix returns P^T W P for the given blocks of original indices.
func reduceMatrix(W [][]float64, blocks [][]int, sign float64) [][]float64 {
	k := len(blocks)
	R := make([][]float64, k)
	for a := range R {
		R[a] = make([]float64, k)
		for b := range R[a] {
			var s vk.DD
			for _, u := range blocks[a] {
				for _, v := range blocks[b] {
					s.Add(W[u][v])
				}
			}
			R[a][b] = sign * s.Float()
		}
	}
	return R
}

func wClose(got, want float64) bool {
	return got == want || math.Abs(got-want) <= 1e-12*math.Max(math.Abs(want), 1e-300)
}

// checkReduced compares a reduced graph, through its exported methods, with
// the community sums R of the original edge weights.
func checkReduced(name string, g graph.Graph, R [][]float64, directed bool) *vk.Failure {
	k := len(R)
	nodes := graph.NodesOf(g.Nodes())
	if len(nodes) != k {
		return vk.Failf(name+"-node-count", "reduced graph has %d nodes for %d communities", len(nodes), k)
	}
	seen := make([]bool, k)
	for _, nd := range nodes {
		id := nd.ID()
		if id < 0 || id >= int64(k) || seen[id] {
			return vk.Failf(name+"-node-ids", "reduced graph node IDs are not 0..%d: %v", k-1, idsOf(nodes))
		}
		seen[id] = true
	}
	wg, ok := g.(graph.Weighted)
	if !ok {
		return vk.Failf(name+"-not-weighted", "reduced graph %T does not implement graph.Weighted", g)
	}
	for a := 0; a < k; a++ {
		for b := 0; b < k; b++ {
			w, present := wg.Weight(int64(a), int64(b))
			if a == b {
				if !present || !wClose(w, R[a][a]) {
					return vk.Failf(name+"-self-weight", "community %d: Weight(i,i)=%v (ok=%v), sum of original weights inside the community is %v", a, w, present, R[a][a])
				}
				continue
			}
			wantPresent := R[a][b] != 0
			if present != wantPresent || (present && !wClose(w, R[a][b])) || (!present && w != 0) {
				return vk.Failf(name+"-edge-weight", "communities %d,%d: Weight=%v (ok=%v), sum of original weights between the communities is %v", a, b, w, present, R[a][b])
			}
			adj := wantPresent
			if !directed {
				adj = adj || R[b][a] != 0
			}
			if e := g.Edge(int64(a), int64(b)); (e != nil) != adj {
				return vk.Failf(name+"-edge", "communities %d,%d: Edge non-nil=%v, want %v", a, b, e != nil, adj)
			}
			if hb := g.HasEdgeBetween(int64(a), int64(b)); hb != (R[a][b] != 0 || R[b][a] != 0) {
				return vk.Failf(name+"-has-edge-between", "communities %d,%d: HasEdgeBetween=%v, weights %v/%v", a, b, hb, R[a][b], R[b][a])
			}
		}
		var from []int
		for _, nd := range graph.NodesOf(g.From(int64(a))) {
			from = append(from, int(nd.ID()))
		}
		sort.Ints(from)
		var want []int
		for b := 0; b < k; b++ {
			if b != a && (R[a][b] != 0 || (!directed && R[b][a] != 0)) {
				want = append(want, b)
			}
		}
		if fmt.Sprint(from) != fmt.Sprint(want) {
			return vk.Failf(name+"-from", "community %d: From gives %v, want %v", a, from, want)
		}
		if dg, ok := g.(graph.Directed); ok && directed {
			var to, wantTo []int
			for _, nd := range graph.NodesOf(dg.To(int64(a))) {
				to = append(to, int(nd.ID()))
			}
			sort.Ints(to)
			for b := 0; b < k; b++ {
				if b != a && R[b][a] != 0 {
					wantTo = append(wantTo, b)
				}
			}
			if fmt.Sprint(to) != fmt.Sprint(wantTo) {
				return vk.Failf(name+"-to", "community %d: To gives %v, want %v", a, to, wantTo)
			}
		}
	}
	return nil
}

// objective evaluates the modularity objective of a label vector over the
// nodes of the matrices Ws (one per layer).
func (h *hierarchy) objective(Ws [][][]float64, lab []int) (obj float64, perLayer []float64, norms []float64) {
	perLayer = make([]float64, len(Ws))
	norms = make([]float64, len(Ws))
	var tot vk.DD
	for l, W := range Ws {
		if h.w[l] == 0 {
			continue
		}
		sum, norm := qMatrix(W, lab, h.res[l])
		norms[l] = norm
		if norm == 0 {
			continue
		}
		if h.normalised {
			perLayer[l] = sum / norm
		} else {
			perLayer[l] = h.w[l] * sum
		}
		tot.Add(perLayer[l])
	}
	return tot.Float(), perLayer, norms
}

func (h *hierarchy) scale(norms []float64) float64 {
	if h.normalised {
		return 1 + math.Abs(h.res[0])
	}
	var s float64
	for l := range norms {
		s += math.Abs(h.w[l]) * norms[l] * (1 + math.Abs(h.res[l]))
	}
	return s
}

// checkLevels verifies every level of a hierarchy, base level first.
func (h *hierarchy) checkLevels(lv []level) *vk.Failure {
	m0 := h.layers[0]
	n := m0.n
	name := h.name
	// base: singletons ordered by ID
	order := make([]int, n)
	for i := range order {
		order[i] = i
	}
	sort.Slice(order, func(a, b int) bool { return m0.ids[order[a]] < m0.ids[order[b]] })
	nodeBlocks := make([][]int, n)
	for i, v := range order {
		nodeBlocks[i] = []int{v}
	}
	absW := make([][][]float64, len(h.layers))
	for l, m := range h.layers {
		absW[l] = m.w
	}
	single := make([]int, n)
	for i := range single {
		single[i] = i
	}
	prevObj, _, norms0 := h.objective(absW, single)
	sc := h.scale(norms0)
	active := false
	for l := range norms0 {
		if norms0[l] != 0 && h.w[l] != 0 {
			active = true
		}
	}
	for L, lvl := range lv {
		lname := fmt.Sprintf("%s-level", name)
		// Communities(): a partition of the original nodes
		cblocks := make([][]int, len(lvl.comms))
		seen := make([]bool, n)
		cnt := 0
		for i, c := range lvl.comms {
			if len(c) == 0 {
				return vk.Failf(lname+"-empty-community", "level %d: community %d is empty", L, i)
			}
			for _, nd := range c {
				v, ok := m0.idx[nd.ID()]
				if !ok || seen[v] {
					return vk.Failf(lname+"-communities-not-partition", "level %d: Communities()=%v is not a partition of the node IDs %v", L, idBlocks(lvl.comms), m0.ids)
				}
				seen[v] = true
				cnt++
				cblocks[i] = append(cblocks[i], v)
			}
		}
		if cnt != n {
			return vk.Failf(lname+"-communities-not-partition", "level %d: Communities()=%v covers %d of %d nodes", L, idBlocks(lvl.comms), cnt, n)
		}
		// Structure(): partition of this level's nodes whose expansion is Communities()
		k := len(nodeBlocks)
		if len(lvl.structure) != len(lvl.comms) {
			return vk.Failf(lname+"-structure-length", "level %d: Structure has %d communities, Communities %d", L, len(lvl.structure), len(lvl.comms))
		}
		slab := make([]int, k)
		for i := range slab {
			slab[i] = -1
		}
		for i, s := range lvl.structure {
			var exp []int
			for _, nd := range s {
				id := nd.ID()
				if id < 0 || id >= int64(k) || slab[id] != -1 {
					return vk.Failf(lname+"-structure-not-partition", "level %d: Structure()=%v is not a partition of the %d nodes of this level", L, idBlocks(lvl.structure), k)
				}
				slab[id] = i
				exp = append(exp, nodeBlocks[id]...)
			}
			a, b := append([]int(nil), exp...), append([]int(nil), cblocks[i]...)
			sort.Ints(a)
			sort.Ints(b)
			if fmt.Sprint(a) != fmt.Sprint(b) {
				return vk.Failf(lname+"-structure-vs-communities", "level %d community %d: Structure expands to node indices %v, Communities gives %v", L, i, a, b)
			}
		}
		for id, s := range slab {
			if s == -1 {
				return vk.Failf(lname+"-structure-not-partition", "level %d: node %d of this level is in no community of Structure()=%v", L, id, idBlocks(lvl.structure))
			}
		}
		// reduced graph weights = community sums of original weights
		Rs := make([][][]float64, len(h.layers))
		for l, m := range h.layers {
			Rs[l] = reduceMatrix(m.w, nodeBlocks, 1)
			if h.w[l] == 0 {
				continue
			}
			sign := 1.0
			if h.w[l] < 0 {
				sign = -1
			}
			if L >= len(lv) || l >= len(lvl.layers) {
				return vk.Failf(lname+"-depth", "level %d has %d layers, want %d", L, len(lvl.layers), len(h.layers))
			}
			if f := checkReduced(fmt.Sprintf("%s-reduced", name), lvl.layers[l], reduceMatrix(m.w, nodeBlocks, sign), h.directed); f != nil {
				if h.selfKnown && L == 0 && strings.HasSuffix(f.Key, "-self-weight") {
					// the base reduction drops the container's Weight(x,x), which Q
					// counts as A_xx: asserted once by the contract sub-check
					vk.Class(name + ":base-reduction-ignores-container-self-weight")
					return nil
				}
				f.Msg = fmt.Sprintf("level %d layer %d: ", L, l) + f.Msg
				return f
			}
		}
		if !active {
			nodeBlocks = cblocks
			continue
		}
		// Q of this level's partition: harness on the original graph, gonum on
		// the original graph, gonum on the reduced graph with its Structure.
		lab := labelsFromBlocks(n, cblocks)
		obj, per, norms := h.objective(absW, lab)
		objR, _, _ := h.objective(Rs, slab)
		tolQ := 8 * float64(n*n+8) * vk.Eps * sc
		if math.Abs(obj-objR) > tolQ {
			return vk.Failf(lname+"-harness-q-mismatch", "level %d: harness Q on original %v vs on expected reduced matrix %v", L, obj, objR)
		}
		for which, qf := range []func() ([]float64, *vk.Failure){
			func() ([]float64, *vk.Failure) { return h.qOrig(lvl.comms) },
			func() ([]float64, *vk.Failure) { return h.qLevel(lvl) },
		} {
			got, f := qf()
			if f != nil {
				return f
			}
			for l := range per {
				if h.w[l] == 0 || norms[l] == 0 {
					continue
				}
				if !(math.Abs(got[l]-per[l]) <= tolQ) {
					return vk.Failf(fmt.Sprintf("%s-q-consistency-%d", name, which), "level %d layer %d: gonum Q (0: original graph with Communities, 1: reduced graph with Structure; here %d) = %v, harness double sum on the original graph = %v", L, l, which, got[l], per[l])
				}
			}
		}
		// Q(reduced graph, nil): the unclustered score of the reduced graph,
		// whose nodes carry self weights, equals the defining double sum
		// with every node of this level alone, i.e. Q of the original graph
		// for the partition this level's nodes stand for.
		{
			alone := make([]int, k)
			for i := range alone {
				alone[i] = i
			}
			_, perNil, normsNil := h.objective(Rs, alone)
			got, f := h.qLevelNil(lvl)
			if f != nil {
				return f
			}
			for l := range perNil {
				if h.w[l] == 0 || normsNil[l] == 0 {
					continue
				}
				if !(math.Abs(got[l]-perNil[l]) <= tolQ) {
					return vk.Failf(name+"-q-nil-communities-on-reduced", "level %d layer %d: Q(reduced graph, nil, resolution %v) = %v, the defining double sum with singleton communities over the reduced graph (self weights included) gives %v", L, l, h.res[l], got[l], perNil[l])
				}
			}
		}
		// never worse than the previous level / the singleton partition
		if obj < prevObj-1e-9*sc {
			return vk.Failf(lname+"-q-decreases", "level %d: Q=%v is below the previous level (singletons for level 0) %v", L, obj, prevObj)
		}
		prevObj = obj
		// local optimality: the local moving heuristic ends only when no node
		// gains more than 1e-15 by moving to a community it is connected to.
		cur, _, _ := h.objective(Rs, slab)
		adjacent := func(a, b int) bool {
			for l := range Rs {
				if h.w[l] != 0 && (Rs[l][a][b] != 0 || Rs[l][b][a] != 0) {
					return true
				}
			}
			return false
		}
		if k <= 40 {
			for a := 0; a < k; a++ {
				tried := map[int]bool{slab[a]: true}
				for b := 0; b < k; b++ {
					if tried[slab[b]] || !(h.searchAll || adjacent(a, b)) {
						continue
					}
					tried[slab[b]] = true
					old := slab[a]
					slab[a] = slab[b]
					mv, _, _ := h.objective(Rs, slab)
					slab[a] = old
					if mv-cur > 1e-15+1e-10*sc {
						return vk.Failf(name+"-not-locally-optimal", "level %d: moving node %d of this level from community %d to the connected community %d raises Q from %v to %v; the local moving heuristic only stops when no such move gains more than 1e-15", L, a, old, slab[b], cur, mv)
					}
				}
			}
		}
		nodeBlocks = cblocks
	}
	return nil
}

func levelsCanon(lv []level) string {
	s := ""
	for _, l := range lv {
		s += canonPartition(idBlocks(l.comms)) + ";"
	}
	return s
}

// ---- Modularize (single graph) ---------------------------------------------------

type lvCase struct {
	G        graphCase
	Weighted bool
	Gamma    vk.F
	S1, S2   uint64
	NegEdge  int
	SelfW    vk.F // `self` value of the weighted container
}

func walkGraphLevels(top community.ReducedGraph) (lv []level, typedNil bool) {
	for cur := top; ; {
		lv = append(lv, level{comms: cur.Communities(), structure: cur.Structure(), layers: []graph.Graph{cur}, self: cur})
		nx := cur.Expanded()
		if nx == nil {
			break
		}
		if isNilIface(nx) {
			typedNil = true
			break
		}
		cur = nx
	}
	for i, j := 0, len(lv)-1; i < j; i, j = i+1, j-1 {
		lv[i], lv[j] = lv[j], lv[i]
	}
	return lv, typedNil
}

func checkLouvain(c lvCase) *vk.Failure {
	m := newModel(c.G)
	n := m.n
	gamma := float64(c.Gamma)
	if n == 0 || !(gamma > 0 && gamma <= 100) {
		return nil
	}
	vk.Sample("louvain", c)
	weighted := c.Weighted || !m.unit
	if sw := float64(c.SelfW); weighted && sw > 0 && sw <= 64 {
		m = m.withSelf(sw)
	}
	if c.NegEdge >= 0 && len(m.edges) > 0 {
		neg := *m
		neg.edges = append([]edgeT(nil), m.edges...)
		neg.edges[c.NegEdge%len(neg.edges)].W *= -1
		g := neg.buildWeighted()
		vk.Class("louvain:negative-weight")
		return vk.MustPanic("modularize-negative-weight-must-panic", func() { community.Modularize(g, gamma, rand.NewPCG(c.S1, c.S2)) })
	}
	var g graph.Graph
	if weighted {
		g = m.buildWeighted()
	} else {
		g = m.buildUnweighted()
	}
	kind := "undirected"
	if m.directed {
		kind = "directed"
	}
	var top community.ReducedGraph
	r := vk.Call(func() { top = community.Modularize(g, gamma, rand.NewPCG(c.S1, c.S2)) })
	if r.Outcome != vk.Returned {
		key := "modularize-" + kind + "-panics"
		if m.directed && len(m.edges) == 0 {
			// asserted by the contract sub-check (known finding); not repeated here
			vk.Class("louvain:directed-edgeless-panics")
			return nil
		}
		return vk.Failf(key, "Modularize on a graph without negative weights ended in %v: %s", r.Outcome, r.Text)
	}
	if isNilIface(top) {
		return vk.Failf("modularize-nil", "Modularize returned nil")
	}
	lv, typedNil := walkGraphLevels(top)
	vk.Class(fmt.Sprintf("louvain:%s:levels=%d", kind, len(lv)))
	if len(lv) >= 2 {
		vk.NonTrivial("louvain", m.hash(), weighted, gamma, c.S1, c.S2)
	}
	h := &hierarchy{name: "louvain-" + kind, layers: []*model{m}, w: []float64{1}, res: []float64{gamma}, normalised: true, directed: m.directed, selfKnown: m.self != 0}
	h.qOrig = func(comms [][]graph.Node) ([]float64, *vk.Failure) {
		var q float64
		f := vk.MustReturn("q-panics", func() { q = community.Q(g, comms, gamma) })
		return []float64{q}, f
	}
	h.qLevel = func(l level) ([]float64, *vk.Failure) {
		var q float64
		f := vk.MustReturn("q-on-reduced-panics", func() { q = community.Q(l.layers[0], l.structure, gamma) })
		return []float64{q}, f
	}
	h.qLevelNil = func(l level) ([]float64, *vk.Failure) {
		var q float64
		f := vk.MustReturn("q-on-reduced-panics", func() { q = community.Q(l.layers[0], nil, gamma) })
		return []float64{q}, f
	}
	if f := h.checkLevels(lv); f != nil {
		return f
	}
	// pure function of the seed
	var top2 community.ReducedGraph
	if f := vk.MustReturn("modularize-"+kind+"-panics", func() { top2 = community.Modularize(g, gamma, rand.NewPCG(c.S1, c.S2)) }); f != nil {
		return f
	}
	lv2, _ := walkGraphLevels(top2)
	if a, b := levelsCanon(lv), levelsCanon(lv2); a != b {
		return vk.Failf("modularize-not-deterministic", "two runs with the same seed differ:\n %s\n %s", a, b)
	}
	_ = typedNil // asserted by the contract sub-check
	return nil
}

func drawLouvain(t *rapid.T) lvCase {
	c := lvCase{NegEdge: -1}
	directed := rapid.Bool().Draw(t, "directed")
	c.Weighted = rapid.Bool().Draw(t, "weighted")
	c.G = drawGraph(t, directed, !c.Weighted, 40)
	c.Gamma = drawGamma(t)
	c.S1 = rapid.Uint64().Draw(t, "s1")
	c.S2 = rapid.Uint64().Draw(t, "s2")
	if rapid.IntRange(0, 29).Draw(t, "neg") == 0 {
		c.NegEdge = rapid.IntRange(0, 1000).Draw(t, "negedge")
	}
	if rapid.IntRange(0, 5).Draw(t, "self") == 0 {
		c.SelfW = vk.F(rapid.SampledFrom([]float64{0.5, 1, 2}).Draw(t, "selfw"))
	}
	return c
}

func TestLouvain(t *testing.T) {
	gammas := []float64{1, 0.4, 2.5}
	ug := exhGraphs(false, 1, vk.Pick(4, 5))
	vk.Enumerate(t, "louvain-exh-undirected", len(ug)*3, func(i int) lvCase {
		g := ug[i/3]
		return lvCase{G: graphFromMask(g.n, false, g.mask), Gamma: vk.F(gammas[i%3]), S1: uint64(i), S2: 7, Weighted: i%2 == 0, NegEdge: -1}
	}, checkLouvain)
	dg := exhGraphs(true, 1, vk.Pick(3, 4))
	vk.Enumerate(t, "louvain-exh-directed", len(dg)*3, func(i int) lvCase {
		g := dg[i/3]
		return lvCase{G: graphFromMask(g.n, true, g.mask), Gamma: vk.F(gammas[i%3]), S1: uint64(i), S2: 11, Weighted: i%2 == 0, NegEdge: -1}
	}, checkLouvain)
	vk.Run(t, "louvain", vk.Opts{Quick: 6000, Thorough: 100000}, drawLouvain, checkLouvain)
}

// ---- ModularizeMultiplex ------------------------------------------------------------

type lvMxCase struct {
	M      mxCase
	All    bool
	S1, S2 uint64
}

func walkMxLevels(top community.ReducedMultiplex, directed bool) (lv []level, typedNil bool) {
	for cur := top; ; {
		l := level{comms: cur.Communities(), structure: cur.Structure(), self: cur}
		for d := 0; d < cur.Depth(); d++ {
			if directed {
				l.layers = append(l.layers, cur.(community.DirectedMultiplex).Layer(d))
			} else {
				l.layers = append(l.layers, cur.(community.UndirectedMultiplex).Layer(d))
			}
		}
		lv = append(lv, l)
		nx := cur.Expanded()
		if nx == nil {
			break
		}
		if isNilIface(nx) {
			typedNil = true
			break
		}
		cur = nx
	}
	for i, j := 0, len(lv)-1; i < j; i, j = i+1, j-1 {
		lv[i], lv[j] = lv[j], lv[i]
	}
	return lv, typedNil
}

func checkLouvainMx(c lvMxCase) *vk.Failure {
	if !validMx(c.M) {
		return nil
	}
	mm := newMxModel(c.M)
	d := len(mm.layers)
	for _, r := range mm.res {
		if !(r > 0) {
			return nil
		}
	}
	vk.Sample("louvain-mx", c)
	g, err := mm.build(c.M)
	if err != nil {
		return vk.Failf("layers-error", "New*Layers on layers over one node set: %v", err)
	}
	kind := "undirected"
	if c.M.Directed {
		kind = "directed"
	}
	var top community.ReducedMultiplex
	r := vk.Call(func() { top = community.ModularizeMultiplex(g, mm.wArg, mm.resArg, c.All, rand.NewPCG(c.S1, c.S2)) })
	if r.Outcome != vk.Returned {
		key := "modularize-multiplex-" + kind + "-panics"
		switch {
		// both asserted by the contract sub-check (known findings); not repeated here
		case mm.wArg == nil && d >= 2 && r.Outcome == vk.RuntimeFault:
			vk.Class("louvain-mx:nil-weights-panics")
			return nil
		case (mm.w[0] == 0 || len(mm.layers[0].edges) == 0) && r.Outcome == vk.RuntimeFault:
			vk.Class("louvain-mx:first-layer-inactive-panics")
			return nil
		}
		return vk.Failf(key, "ModularizeMultiplex on sign-matched layers (weights %v, resolutions %v, all=%v) ended in %v: %s", mm.wArg, mm.resArg, c.All, r.Outcome, r.Text)
	}
	if isNilIface(top) {
		return vk.Failf("modularize-multiplex-nil", "ModularizeMultiplex returned nil")
	}
	lv, typedNil := walkMxLevels(top, c.M.Directed)
	vk.Class(fmt.Sprintf("louvain-mx:%s:depth=%d:levels=%d", kind, d, len(lv)))
	neg := false
	for _, w := range mm.w {
		if w < 0 {
			neg = true
		}
	}
	if neg {
		vk.Class("louvain-mx:negative-layer")
		for l := range mm.w {
			if mm.w[l] < 0 && mm.unweightedLayer(c.M, l) {
				vk.Class("louvain-mx:negative-layer-unweighted-container")
			}
		}
	}
	if len(lv) >= 2 {
		vk.NonTrivial("louvain-mx", kind, fmt.Sprint(c.M.Layers), fmt.Sprint(mm.w), fmt.Sprint(mm.res), c.All, c.S1, c.S2)
	}
	h := &hierarchy{name: "louvain-mx-" + kind, layers: mm.layers, w: mm.w, res: mm.res, searchAll: c.All && neg, directed: c.M.Directed}
	h.qOrig = func(comms [][]graph.Node) ([]float64, *vk.Failure) {
		var q []float64
		f := vk.MustReturn("qmx-panics", func() { q = community.QMultiplex(g, comms, mm.wArg, mm.resArg) })
		return q, f
	}
	h.qLevel = func(l level) ([]float64, *vk.Failure) {
		var q []float64
		f := vk.MustReturn("qmx-on-reduced-panics", func() { q = community.QMultiplex(l.self.(community.Multiplex), l.structure, mm.wArg, mm.resArg) })
		return q, f
	}
	h.qLevelNil = func(l level) ([]float64, *vk.Failure) {
		var q []float64
		f := vk.MustReturn("qmx-on-reduced-panics", func() { q = community.QMultiplex(l.self.(community.Multiplex), nil, mm.wArg, mm.resArg) })
		return q, f
	}
	if f := h.checkLevels(lv); f != nil {
		return f
	}
	var top2 community.ReducedMultiplex
	if f := vk.MustReturn("modularize-multiplex-"+kind+"-panics", func() {
		top2 = community.ModularizeMultiplex(g, mm.wArg, mm.resArg, c.All, rand.NewPCG(c.S1, c.S2))
	}); f != nil {
		return f
	}
	lv2, _ := walkMxLevels(top2, c.M.Directed)
	if a, b := levelsCanon(lv), levelsCanon(lv2); a != b {
		return vk.Failf("modularize-multiplex-not-deterministic", "two runs with the same seed differ:\n %s\n %s", a, b)
	}
	// documented panic: edge weights must sign-match the layer weight
	for l, m := range mm.layers {
		if len(m.edges) > 0 && mm.w[l] != 0 && !mm.unweightedLayer(c.M, l) {
			w := make([]float64, d)
			copy(w, mm.w)
			w[l] = -w[l]
			if f := vk.MustPanic("modularize-multiplex-sign-mismatch-must-panic", func() {
				community.ModularizeMultiplex(g, w, mm.resArg, c.All, rand.NewPCG(c.S1, c.S2))
			}); f != nil {
				return f
			}
			break
		}
	}
	_ = typedNil // asserted by the contract sub-check
	return nil
}

func TestLouvainMultiplex(t *testing.T) {
	vk.Run(t, "louvain-mx", vk.Opts{Quick: 6000, Thorough: 100000}, func(t *rapid.T) lvMxCase {
		c := lvMxCase{M: drawMx(t, 30, true, false)}
		c.M.Labels, c.M.NilComms = nil, false
		c.All = rapid.Bool().Draw(t, "all")
		c.S1 = rapid.Uint64().Draw(t, "s1")
		c.S2 = rapid.Uint64().Draw(t, "s2")
		return c
	}, checkLouvainMx)
}
