package c15

import (
	"math"
	"testing"

	"gonum.org/v1/gonum/graph"
	"gonum.org/v1/gonum/graph/network"
	"gonum.org/v1/gonum/graph/simple"
	"pgregory.net/rapid"
	"verifharness/vk"
)

// prCase: PageRank / PageRankSparse on a directed graph. When the edge list
// carries only unit weights and Weighted is false the unweighted containers
// (simple.DirectedGraph) are used, otherwise simple.WeightedDirectedGraph, for
// which the documentation promises the edge-weighted variant.
type prCase struct {
	G        graphCase
	Weighted bool
	Damp     vk.F
	Tol      vk.F
}

var tolSet = []float64{1e-4, 1e-6, 1e-8, 1e-10, 1e-12}

// prStationary returns the column-stochastic matrix S (dangling columns
// uniform) and the exact stationary vector of d*S + (1-d)/n*ones together with
// a bound on the 1-norm error of that vector.
func prStationary(m *model, d float64) (S [][]float64, rstar []float64, errBound float64) {
	n := m.n
	S = make([][]float64, n)
	for i := range S {
		S[i] = make([]float64, n)
	}
	for j := 0; j < n; j++ {
		var z vk.DD
		for i := 0; i < n; i++ {
			z.Add(m.w[j][i])
		}
		zf := z.Float()
		for i := 0; i < n; i++ {
			if zf != 0 {
				S[i][j] = m.w[j][i] / zf
			} else {
				S[i][j] = 1 / float64(n)
			}
		}
	}
	// solve (I - d S) r = (1-d)/n * 1 by Gaussian elimination with partial
	// pivoting and two steps of refinement with a double-double residual.
	A := make([][]float64, n)
	for i := range A {
		A[i] = make([]float64, n)
		for j := range A[i] {
			A[i][j] = -d * S[i][j]
		}
		A[i][i] += 1
	}
	b := make([]float64, n)
	for i := range b {
		b[i] = (1 - d) / float64(n)
	}
	lu, piv := luFactor(A)
	rstar = luSolve(lu, piv, b)
	resid := func() []float64 {
		r := make([]float64, n)
		for i := 0; i < n; i++ {
			var s vk.DD
			s.Add(b[i])
			for j := 0; j < n; j++ {
				s.AddProd(-A[i][j], rstar[j])
			}
			r[i] = s.Float()
		}
		return r
	}
	for it := 0; it < 2; it++ {
		dx := luSolve(lu, piv, resid())
		for i := range rstar {
			rstar[i] += dx[i]
		}
	}
	var r1 float64
	for _, v := range resid() {
		r1 += math.Abs(v)
	}
	// ||(I-dS)^-1||_1 <= 1/(1-d); A itself carries entry rounding of order eps.
	errBound = (r1 + 8*float64(n)*vk.Eps) / (1 - d)
	return S, rstar, errBound
}

func luFactor(A [][]float64) ([][]float64, []int) {
	n := len(A)
	lu := make([][]float64, n)
	for i := range lu {
		lu[i] = append([]float64(nil), A[i]...)
	}
	piv := make([]int, n)
	for k := 0; k < n; k++ {
		p := k
		for i := k + 1; i < n; i++ {
			if math.Abs(lu[i][k]) > math.Abs(lu[p][k]) {
				p = i
			}
		}
		piv[k] = p
		lu[k], lu[p] = lu[p], lu[k]
		for i := k + 1; i < n; i++ {
			f := lu[i][k] / lu[k][k]
			lu[i][k] = f
			for j := k + 1; j < n; j++ {
				lu[i][j] -= f * lu[k][j]
			}
		}
	}
	return lu, piv
}

func luSolve(lu [][]float64, piv []int, b []float64) []float64 {
	n := len(lu)
	x := append([]float64(nil), b...)
	for k := 0; k < n; k++ {
		x[k], x[piv[k]] = x[piv[k]], x[k]
		for i := k + 1; i < n; i++ {
			x[i] -= lu[i][k] * x[k]
		}
	}
	for i := n - 1; i >= 0; i-- {
		for j := i + 1; j < n; j++ {
			x[i] -= lu[i][j] * x[j]
		}
		x[i] /= lu[i][i]
	}
	return x
}

func checkPageRank(c prCase) *vk.Failure {
	c.G.Directed = true
	m := newModel(c.G)
	d, tol := float64(c.Damp), float64(c.Tol)
	if !(d > 0 && d < 1) || !(tol >= 1e-13 && tol <= 1e-2) {
		return nil
	}
	weighted := c.Weighted || !m.unit
	n := m.n
	vk.Sample("pagerank", c)
	cls := "pagerank:unweighted"
	if weighted {
		cls = "pagerank:weighted"
	}
	vk.Class(cls)
	if m.hasDanglingOrIsolated() {
		vk.Class("pagerank:has-dangling")
	}
	if n >= 4 && m.hasDanglingOrIsolated() {
		vk.NonTrivial("pagerank", m.hash(), weighted, d, tol)
	}
	// Arcs of weight zero (W == 0 in the case) exist only in the weighted
	// container: they carry no rank, and a node whose out-weights sum to zero
	// is dangling in the defining column-stochastic matrix although it has
	// out-edges. The model m ignores them, which is exactly that matrix.
	var zeroArcs []edgeT
	if weighted {
		seen := map[[2]int]bool{}
		for _, e := range c.G.Edges {
			k := [2]int{e.U, e.V}
			if float64(e.W) != 0 || e.U == e.V || e.U < 0 || e.V < 0 || e.U >= n || e.V >= n || m.has(e.U, e.V) || seen[k] {
				continue
			}
			seen[k] = true
			zeroArcs = append(zeroArcs, e)
		}
	}
	zeroOnly := false // some node has out-edges, all of weight zero
	for _, e := range zeroArcs {
		if m.outDeg(e.U) == 0 {
			zeroOnly = true
		}
	}
	if len(zeroArcs) > 0 {
		vk.Class("pagerank:zero-weight-arcs")
	}
	if zeroOnly {
		vk.Class("pagerank:node-with-only-zero-weight-out-arcs")
	}
	var g graph.Directed
	if weighted {
		wg := m.buildWeighted().(*simple.WeightedDirectedGraph)
		for _, e := range zeroArcs {
			wg.SetWeightedEdge(simple.WeightedEdge{F: m.node(e.U), T: m.node(e.V), W: 0})
		}
		g = wg
	} else {
		g = m.buildUnweighted().(graph.Directed)
	}
	var dense, sparse map[int64]float64
	if f := vk.MustReturn("pagerank-dense-panics", func() { dense = network.PageRank(g, d, tol) }); f != nil {
		if n == 0 {
			vk.Class("pagerank:empty-graph-dense-panics") // asserted by the contract sub-check
			return nil
		}
		return f
	}
	if f := vk.MustReturn("pagerank-sparse-panics", func() { sparse = network.PageRankSparse(g, d, tol) }); f != nil {
		if n == 0 {
			vk.Class("pagerank:empty-graph-sparse-panics") // asserted by the contract sub-check
			return nil
		}
		return f
	}
	if n == 0 {
		if len(dense) != 0 || len(sparse) != 0 {
			return vk.Failf("pagerank-empty", "empty graph gives %d/%d entries", len(dense), len(sparse))
		}
		return nil
	}
	S, rstar, solveErr := prStationary(m, d)
	fn := float64(n)
	round2 := 64 * fn * math.Sqrt(fn) * vk.Eps // rounding slack of the residual (2-norm)
	var normed [2][]float64
	var bounds [2]float64
	for k, res := range []map[int64]float64{dense, sparse} {
		name := []string{"dense", "sparse"}[k]
		r, msg := m.mapToVec(res)
		if msg != "" {
			return vk.Failf("pagerank-"+name+"-keys", "%s", msg)
		}
		if !finiteAll(r) {
			return vk.Failf("pagerank-"+name+"-nonfinite", "d=%v tol=%v result %v", d, tol, r)
		}
		s := ddSum(r)
		// The start vector is g/sum(g) with g standard normal from the global
		// RNG, so sum(r)-1 is rounding noise proportional to sum|g|/|sum g|,
		// which is unbounded in principle; 1e-3 needs |sum g| < 1e-9*sum|g|.
		if math.Abs(s-1) > 1e-3 {
			return vk.Failf("pagerank-"+name+"-sum", "n=%d d=%v tol=%v: ranks sum to %v, want 1", n, d, tol, s)
		}
		// fixed-point residual M r - r with M = d S + (1-d)/n 11^T
		q := make([]float64, n)
		for i := 0; i < n; i++ {
			var a vk.DD
			for j := 0; j < n; j++ {
				a.AddProd(d*S[i][j], r[j])
			}
			a.AddProd((1-d)/fn, s)
			a.Add(-r[i])
			q[i] = a.Float()
		}
		qn := ddNorm2(q)
		if lim := math.Sqrt(fn)*tol + round2*math.Max(1, math.Abs(s)); qn > lim {
			return vk.Failf("pagerank-"+name+"-fixed-point", "n=%d d=%v tol=%v: ||M r - r||_2 = %g exceeds sqrt(n)*tol+rounding = %g; r=%v", n, d, tol, qn, lim, r)
		}
		// distance to the exact stationary vector
		x := make([]float64, n)
		var dist float64
		for i := range r {
			x[i] = r[i] / s
			dist += math.Abs(x[i] - rstar[i])
		}
		bound := (fn*tol/math.Abs(s)+math.Sqrt(fn)*round2)/(1-d) + solveErr + 4*fn*vk.Eps
		if dist > bound {
			return vk.Failf("pagerank-"+name+"-stationary", "n=%d d=%v tol=%v: ||r/sum(r) - r*||_1 = %g exceeds n*tol/(1-d)+rounding = %g\n r =%v\n r*=%v", n, d, tol, dist, bound, r, rstar)
		}
		for i := range r {
			if x[i] < -bound {
				return vk.Failf("pagerank-"+name+"-negative", "n=%d d=%v tol=%v: r[%d]=%g", n, d, tol, i, r[i])
			}
		}
		normed[k], bounds[k] = x, bound
	}
	var dd float64
	for i := range normed[0] {
		dd += math.Abs(normed[0][i] - normed[1][i])
	}
	if dd > bounds[0]+bounds[1] {
		return vk.Failf("pagerank-dense-vs-sparse", "n=%d d=%v tol=%v: dense and sparse differ by %g in the 1-norm, bound %g", n, d, tol, dd, bounds[0]+bounds[1])
	}
	return nil
}

func drawPR(t *rapid.T) prCase {
	c := prCase{}
	c.Weighted = rapid.Bool().Draw(t, "weighted")
	c.G = drawGraph(t, true, !c.Weighted, 60)
	if c.Weighted && c.G.N >= 2 && rapid.IntRange(0, 2).Draw(t, "zeros") == 0 {
		// zero-weight arcs: all out-arcs of a few nodes become zero, plus a
		// few zero arcs anywhere
		k := rapid.IntRange(1, 3).Draw(t, "zeronodes")
		for ; k > 0; k-- {
			x := rapid.IntRange(0, c.G.N-1).Draw(t, "zeronode")
			has := false
			for i := range c.G.Edges {
				if c.G.Edges[i].U == x {
					c.G.Edges[i].W = 0
					has = true
				}
			}
			if !has {
				y := rapid.IntRange(0, c.G.N-2).Draw(t, "zeroto")
				if y >= x {
					y++
				}
				c.G.Edges = append(c.G.Edges, edgeT{x, y, 0})
			}
		}
		for k := rapid.IntRange(0, 3).Draw(t, "zeroextra"); k > 0; k-- {
			u := rapid.IntRange(0, c.G.N-1).Draw(t, "zu")
			v := rapid.IntRange(0, c.G.N-1).Draw(t, "zv")
			c.G.Edges = append(c.G.Edges, edgeT{u, v, 0})
		}
	}
	switch rapid.IntRange(0, 5).Draw(t, "dampcls") {
	case 0:
		c.Damp = 0.85
	case 1:
		c.Damp = vk.F(rapid.Float64Range(0.9, 0.99).Draw(t, "damp"))
	default:
		c.Damp = vk.F(rapid.Float64Range(0.05, 0.99).Draw(t, "damp"))
	}
	c.Tol = vk.F(rapid.SampledFrom(tolSet).Draw(t, "tol"))
	return c
}

func TestPageRank(t *testing.T) {
	gs := exhGraphs(true, 0, vk.Pick(3, 4))
	damps := []float64{0.85, 0.5, 0.99, 0.05}
	vk.Enumerate(t, "pagerank-exh", len(gs), func(i int) prCase {
		return prCase{G: graphFromMask(gs[i].n, true, gs[i].mask), Weighted: i%2 == 1, Damp: vk.F(damps[i%len(damps)]), Tol: vk.F(tolSet[i%len(tolSet)])}
	}, checkPageRank)
	// the same graphs in the weighted container with every subset of nodes
	// having all its out-arcs at weight zero (n <= 3)
	var zc []prCase
	for _, eg := range exhGraphs(true, 1, 3) {
		for sub := 1; sub < 1<<eg.n; sub++ {
			c := prCase{G: graphFromMask(eg.n, true, eg.mask), Weighted: true, Damp: vk.F(damps[len(zc)%len(damps)]), Tol: 1e-8}
			hit := false
			for i := range c.G.Edges {
				if sub>>c.G.Edges[i].U&1 == 1 {
					c.G.Edges[i].W = 0
					hit = true
				}
			}
			if hit {
				zc = append(zc, c)
			}
		}
	}
	vk.Enumerate(t, "pagerank-exh-zero-weights", len(zc), func(i int) prCase { return zc[i] }, checkPageRank)
	vk.Run(t, "pagerank", vk.Opts{Quick: 8000, Thorough: 120000}, drawPR, checkPageRank)
}
