package c15

import (
	"math"
	"testing"

	"gonum.org/v1/gonum/graph"
	"gonum.org/v1/gonum/graph/network"
	"pgregory.net/rapid"
	"verifharness/vk"
)

type hitsCase struct {
	G   graphCase
	Tol vk.F
}

// jacobiEig returns eigenvalues (descending) and the matching orthonormal
// eigenvectors (columns as vecs[k]) of the symmetric matrix B (cyclic Jacobi).
func jacobiEig(B [][]float64) (vals []float64, vecs [][]float64) {
	n := len(B)
	a := make([][]float64, n)
	v := make([][]float64, n)
	for i := range a {
		a[i] = append([]float64(nil), B[i]...)
		v[i] = make([]float64, n)
		v[i][i] = 1
	}
	for sweep := 0; sweep < 60; sweep++ {
		var off, diag float64
		for i := 0; i < n; i++ {
			diag += a[i][i] * a[i][i]
			for j := i + 1; j < n; j++ {
				off += a[i][j] * a[i][j]
			}
		}
		if off <= 1e-32*(diag+off) || off == 0 {
			break
		}
		for p := 0; p < n; p++ {
			for q := p + 1; q < n; q++ {
				if a[p][q] == 0 {
					continue
				}
				theta := (a[q][q] - a[p][p]) / (2 * a[p][q])
				t := 1 / (math.Abs(theta) + math.Sqrt(theta*theta+1))
				if theta < 0 {
					t = -t
				}
				cs := 1 / math.Sqrt(t*t+1)
				sn := t * cs
				for k := 0; k < n; k++ {
					akp, akq := a[k][p], a[k][q]
					a[k][p] = cs*akp - sn*akq
					a[k][q] = sn*akp + cs*akq
				}
				for k := 0; k < n; k++ {
					apk, aqk := a[p][k], a[q][k]
					a[p][k] = cs*apk - sn*aqk
					a[q][k] = sn*apk + cs*aqk
				}
				for k := 0; k < n; k++ {
					vkp, vkq := v[k][p], v[k][q]
					v[k][p] = cs*vkp - sn*vkq
					v[k][q] = sn*vkp + cs*vkq
				}
			}
		}
	}
	idx := make([]int, n)
	for i := range idx {
		idx[i] = i
	}
	for i := 0; i < n; i++ { // selection sort, descending
		for j := i + 1; j < n; j++ {
			if a[idx[j]][idx[j]] > a[idx[i]][idx[i]] {
				idx[i], idx[j] = idx[j], idx[i]
			}
		}
	}
	vals = make([]float64, n)
	vecs = make([][]float64, n)
	for k, i := range idx {
		vals[k] = a[i][i]
		vecs[k] = make([]float64, n)
		for r := 0; r < n; r++ {
			vecs[k][r] = v[r][i]
		}
	}
	return vals, vecs
}

// sinTan returns sin and tan of the angle between x and the unit vector u.
func sinTan(x, u []float64) (sn, tn float64) {
	var dot, nn vk.DD
	for i := range x {
		dot.AddProd(x[i], u[i])
		nn.AddProd(x[i], x[i])
	}
	c := math.Abs(dot.Float())
	var perp vk.DD
	for i := range x {
		p := x[i] - dot.Float()*u[i]
		perp.AddProd(p, p)
	}
	s := math.Sqrt(perp.Float())
	nrm := math.Sqrt(nn.Float())
	if nrm == 0 {
		return 0, 0
	}
	if c == 0 {
		return s / nrm, math.Inf(1)
	}
	return s / nrm, s / c
}

// hitsSim is the harness's own run of the documented HITS iteration.
type hitsSim struct {
	done       bool // both update norms fell below tol/2 within the cap
	stop       int  // first iteration at which both update norms are below tol
	borderline bool // some update norm up to that iteration is too close to tol to call
	hub, auth  []float64
}

// hitsIterations runs the documented HITS iteration (start from all ones,
// auth = normalise(A^T hub), hub = normalise(A auth), stop when both 2-norm
// updates are below tol) for at most maxIter iterations.
func hitsIterations(m *model, tol float64, maxIter int) hitsSim {
	n := m.n
	var sim hitsSim
	in := make([][]int, n)
	out := make([][]int, n)
	for _, e := range m.edges {
		out[e.U] = append(out[e.U], e.V)
		in[e.V] = append(in[e.V], e.U)
	}
	auth := make([]float64, n)
	hub := make([]float64, n)
	for i := range hub {
		auth[i], hub[i] = 1, 1
	}
	na := make([]float64, n)
	nh := make([]float64, n)
	near := func(d float64) bool { return math.Abs(d-tol) <= 1e-6*tol+1e-14 }
	for it := 1; it <= maxIter; it++ {
		var nrm vk.DD
		for v := 0; v < n; v++ {
			var a vk.DD
			for _, u := range in[v] {
				a.Add(hub[u])
			}
			na[v] = a.Float()
			nrm.AddProd(na[v], na[v])
		}
		nr := math.Sqrt(nrm.Float())
		var da vk.DD
		for v := range na {
			na[v] /= nr
			da.AddProd(na[v]-auth[v], na[v]-auth[v])
		}
		auth, na = na, auth
		nrm = vk.DD{}
		for u := 0; u < n; u++ {
			var h vk.DD
			for _, v := range out[u] {
				h.Add(auth[v])
			}
			nh[u] = h.Float()
			nrm.AddProd(nh[u], nh[u])
		}
		nr = math.Sqrt(nrm.Float())
		var dh vk.DD
		for u := range nh {
			nh[u] /= nr
			dh.AddProd(nh[u]-hub[u], nh[u]-hub[u])
		}
		hub, nh = nh, hub
		dan, dhn := math.Sqrt(da.Float()), math.Sqrt(dh.Float())
		if sim.stop == 0 {
			if near(dan) || near(dhn) {
				sim.borderline = true
			}
			if dan < tol && dhn < tol {
				sim.stop = it
				sim.hub = append([]float64(nil), hub...)
				sim.auth = append([]float64(nil), auth...)
			}
		}
		// the routine sums in another order, so it may cross the threshold a
		// little later than this simulation: require a margin of two
		if dan < tol/2 && dhn < tol/2 {
			sim.done = true
			return sim
		}
	}
	return sim
}

func checkHITS(c hitsCase) *vk.Failure {
	c.G.Directed = true
	m := newModel(c.G)
	tol := float64(c.Tol)
	if !(tol >= 1e-13 && tol <= 1e-3) {
		return nil
	}
	n := m.n
	vk.Sample("hits", c)
	g := m.buildUnweighted().(graph.Directed)
	// HITS converges at the rate (lambda2/lambda1) of A A^T, which can be
	// arbitrarily close to one (nearly bipartite structure); the documented
	// stopping rule is then satisfied only after billions of iterations. The
	// harness runs the documented iteration itself with an iteration cap and
	// does not call the routine on cases that are merely slow, so that the hang
	// watchdog only sees genuine non-termination.
	var sim hitsSim
	if len(m.edges) > 0 {
		sim = hitsIterations(m, tol, 10000000/(len(m.edges)+n))
		if !sim.done {
			vk.Class("hits:skipped-slow-convergence")
			return nil
		}
	}
	var res map[int64]network.HubAuthority
	// an endless loop is reported by the hang watchdog of the kit
	if f := vk.MustReturn("hits-panics", func() { res = network.HITS(g, tol) }); f != nil {
		return f
	}
	if len(res) != n {
		return vk.Failf("hits-keys", "result has %d entries, graph has %d nodes", len(res), n)
	}
	h := make([]float64, n)
	a := make([]float64, n)
	for i, id := range m.ids {
		ha, ok := res[id]
		if !ok {
			return vk.Failf("hits-keys", "no entry for node ID %d", id)
		}
		h[i], a[i] = ha.Hub, ha.Authority
	}
	if len(m.edges) == 0 {
		vk.Class("hits:edgeless")
		for i := range h {
			if h[i] != 0 || a[i] != 0 {
				return vk.Failf("hits-edgeless-nonzero", "graph without edges: node %d has hub %v authority %v, want zero scores", i, h[i], a[i])
			}
		}
		return nil
	}
	if n >= 4 && m.hasDanglingOrIsolated() {
		vk.NonTrivial("hits", m.hash(), tol)
	}
	if !finiteAll(h) || !finiteAll(a) {
		return vk.Failf("hits-nonfinite", "tol=%v hub=%v auth=%v", tol, h, a)
	}
	fn := float64(n)
	for i := range h {
		if h[i] < 0 || a[i] < 0 {
			return vk.Failf("hits-negative", "node %d: hub %v authority %v", i, h[i], a[i])
		}
	}
	if hn, an := ddNorm2(h), ddNorm2(a); math.Abs(hn-1) > 8*fn*vk.Eps || math.Abs(an-1) > 8*fn*vk.Eps {
		return vk.Failf("hits-normalisation", "||hub||_2=%v ||auth||_2=%v, want 1", hn, an)
	}
	// A[u][v] = 1 for u->v. Last update of the routine: hub = A*auth / ||A*auth||.
	mulA := func(x []float64, transpose bool) []float64 {
		y := make([]float64, n)
		for u := 0; u < n; u++ {
			var s vk.DD
			for v := 0; v < n; v++ {
				if !transpose && m.has(u, v) {
					s.Add(x[v])
				}
				if transpose && m.has(v, u) {
					s.Add(x[v])
				}
			}
			y[u] = s.Float()
		}
		return y
	}
	y := mulA(a, false)
	yn := ddNorm2(y)
	for i := range h {
		if math.Abs(h[i]-y[i]/yn) > 16*fn*vk.Eps {
			return vk.Failf("hits-hub-is-A-auth", "tol=%v node %d: hub %v but normalised A*auth gives %v", tol, i, h[i], y[i]/yn)
		}
	}
	// auth was normalize(A^T hubPrev) with ||hub - hubPrev|| < tol, hence
	// ||auth - normalize(A^T hub)|| <= 2 ||A||_2 tol / ||A^T hub||.
	var n1, ninf float64
	for u := 0; u < n; u++ {
		n1 = math.Max(n1, float64(m.inDeg(u)))
		ninf = math.Max(ninf, float64(m.outDeg(u)))
	}
	normA := math.Sqrt(n1 * ninf)
	z := mulA(h, true)
	zn := ddNorm2(z)
	var diff vk.DD
	for i := range a {
		e := a[i] - z[i]/zn
		diff.AddProd(e, e)
	}
	if dn, lim := math.Sqrt(diff.Float()), 2*normA*tol/zn+32*fn*vk.Eps; dn > lim {
		return vk.Failf("hits-fixed-point", "tol=%v: ||auth - normalize(A^T hub)||_2 = %g exceeds 2||A||tol/||A^T hub|| = %g", tol, dn, lim)
	}
	// The documented iteration itself: unless an update norm came too close to
	// tol to call, the routine stops at the same iteration as the harness's run
	// and returns that iterate (rounding differences do not grow: every step
	// renormalises and contracts towards the principal eigenvector).
	if sim.borderline {
		vk.Class("hits:stop-borderline")
	} else {
		lim := 1e-9 + 8*float64(sim.stop)*fn*vk.Eps
		for i := range h {
			if math.Abs(h[i]-sim.hub[i]) > lim || math.Abs(a[i]-sim.auth[i]) > lim {
				return vk.Failf("hits-documented-iteration", "tol=%v node %d: hub %v authority %v; the documented iteration started from all ones stops after %d iterations at hub %v authority %v", tol, i, h[i], a[i], sim.stop, sim.hub[i], sim.auth[i])
			}
		}
	}
	// Comparison with the principal eigenvectors when the top eigenvalue of
	// A A^T is simple. With rho = lambda2/lambda1 and t0 the tangent of the
	// angle between the start vector and the principal eigenvector, power
	// iteration gives tan(k+1) <= rho tan(k) <= rho t0, and the stopping rule
	// sin(k) - sin(k+1) < tol then implies sin(k+1) <= r tol/(1-r) with
	// r = rho sqrt((1+t0^2)/(1+rho^2 t0^2)).
	for side := 0; side < 2; side++ {
		B := make([][]float64, n)
		for i := range B {
			B[i] = make([]float64, n)
			for j := range B[i] {
				var s float64
				for k := 0; k < n; k++ {
					if side == 0 && m.has(i, k) && m.has(j, k) { // A A^T
						s++
					}
					if side == 1 && m.has(k, i) && m.has(k, j) { // A^T A
						s++
					}
				}
				B[i][j] = s
			}
		}
		vals, vecs := jacobiEig(B)
		if n < 2 {
			break
		}
		rho := vals[1] / vals[0]
		if rho < 0 {
			rho = 0
		}
		switch {
		case 1-rho < 1e-6:
			vk.Class("hits:degenerate")
			continue
		case 1-rho < 1e-3:
			vk.Class("hits:smallgap")
			continue
		}
		vk.Class("hits:simple-top-eigenvalue")
		start := make([]float64, n)
		for i := range start {
			start[i] = 1
		}
		x := h
		if side == 1 {
			start = mulA(start, true)
			x = a
		}
		_, t0 := sinTan(start, vecs[0])
		if math.IsInf(t0, 1) {
			continue
		}
		r := rho * math.Sqrt((1+t0*t0)/(1+rho*rho*t0*t0))
		if r >= 1 {
			continue
		}
		sn, _ := sinTan(x, vecs[0])
		if lim := r*tol/(1-r) + 1e-10; sn > lim {
			return vk.Failf("hits-principal-eigenvector", "tol=%v side=%d: sine of the angle to the principal eigenvector is %g, stopping rule allows %g (rho=%g)", tol, side, sn, lim, rho)
		}
	}
	return nil
}

func drawHITS(t *rapid.T) hitsCase {
	c := hitsCase{}
	c.G = drawGraph(t, true, true, 60)
	if rapid.IntRange(0, 19).Draw(t, "edgeless") == 0 {
		c.G.Edges = nil
	}
	c.Tol = vk.F(rapid.SampledFrom(tolSet).Draw(t, "tol"))
	return c
}

func TestHITS(t *testing.T) {
	gs := exhGraphs(true, 0, vk.Pick(3, 4))
	vk.Enumerate(t, "hits-exh", len(gs), func(i int) hitsCase {
		return hitsCase{G: graphFromMask(gs[i].n, true, gs[i].mask), Tol: vk.F(tolSet[i%len(tolSet)])}
	}, checkHITS)
	vk.Run(t, "hits", vk.Opts{Quick: 6000, Thorough: 100000}, drawHITS, checkHITS)
}
