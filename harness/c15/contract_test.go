package c15

import (
	"fmt"
	"math"
	"math/rand/v2"
	"os"
	"reflect"
	"runtime"
	"strings"
	"testing"

	"gonum.org/v1/gonum/graph"
	"gonum.org/v1/gonum/graph/community"
	"gonum.org/v1/gonum/graph/network"
	"gonum.org/v1/gonum/graph/spectral"
	"verifharness/vk"
)

// contractCase is a small fixed scenario probing one documented behaviour on a
// degenerate input. The main sub-checks skip exactly these conditions (and
// only while the call faults), so that each of them is reported once, here.
type contractCase struct {
	Scenario string
	Variant  int
}

var twoTriangles = []edgeT{{0, 1, 1}, {1, 2, 1}, {0, 2, 1}, {3, 4, 1}, {4, 5, 1}, {3, 5, 1}, {2, 3, 1}}

func biDir(es []edgeT) []edgeT {
	var out []edgeT
	for _, e := range es {
		out = append(out, e, edgeT{e.V, e.U, e.W})
	}
	return out
}

func checkContract(c contractCase) *vk.Failure {
	vk.Sample("contract", c)
	vk.Class("contract:" + c.Scenario)
	v := c.Variant
	switch c.Scenario {
	case "expanded-nil":
		// documented: "Expanded returns the next lower level of the module
		// clustering or nil if at the lowest level."
		directed := v%2 == 1
		es := twoTriangles
		if directed {
			es = biDir(es)
		}
		m := newModel(graphCase{N: 6, Directed: directed, Edges: es})
		if v < 2 {
			top := community.Modularize(m.buildWeighted(), 1, rand.NewPCG(1, uint64(v)))
			for cur := top; ; {
				nx := cur.Expanded()
				if nx == nil {
					return nil
				}
				if isNilIface(nx) {
					return vk.Failf("expanded-lowest-level-not-nil", "ReducedGraph.Expanded() at the lowest level returns a non-nil interface holding a nil %T, so `r.Expanded() == nil` is false; documented: nil at the lowest level", nx)
				}
				cur = nx
			}
		}
		mc := mxCase{N: 6, Directed: directed, Layers: [][]edgeT{es}, LayerW: []vk.F{1}}
		g, err := newMxModel(mc).build(mc)
		if err != nil {
			return vk.Failf("layers-error", "%v", err)
		}
		top := community.ModularizeMultiplex(g, []float64{1}, nil, false, rand.NewPCG(1, uint64(v)))
		for cur := top; ; {
			nx := cur.Expanded()
			if nx == nil {
				return nil
			}
			if isNilIface(nx) {
				return vk.Failf("expanded-lowest-level-not-nil", "ReducedMultiplex.Expanded() at the lowest level returns a non-nil interface holding a nil %T, so `r.Expanded() == nil` is false; documented: nil at the lowest level", nx)
			}
			cur = nx
		}

	case "rw-laplacian-orientation":
		// documented: "The random walk Laplacian is defined as I-D^(-1)A"
		gs := []graphCase{
			{N: 3, Edges: []edgeT{{0, 1, 1}, {1, 2, 1}}},
			{N: 4, Edges: []edgeT{{0, 1, 1}, {0, 2, 1}, {0, 3, 1}}},
			{N: 3, Directed: true, Edges: []edgeT{{0, 1, 1}, {0, 2, 1}, {1, 2, 1}}},
		}
		m := newModel(gs[v%len(gs)])
		damp := 0.5
		L := spectral.NewRandomWalkLaplacian(m.buildUnweighted(), damp)
		p, f := checkLapStructure(m, "rw-laplacian", L)
		if f != nil {
			return f
		}
		// Which formula does the doc comment of the tree under test state?
		rowForm, ok := rwLaplacianDocumentedAsRowForm()
		if !ok {
			vk.Inconclusive("rw-laplacian-doc-comment-unreadable")
			return nil
		}
		if !rowForm {
			vk.Class("contract:rw-laplacian-doc-does-not-say-I-D^(-1)A")
			return cmpLap("rw-laplacian-entries", L, p, lapMatrix(m, 2, damp, false), 4*vk.Eps)
		}
		if f := cmpLap("rw-laplacian-documented-orientation", L, p, lapMatrix(m, 2, damp, true), 4*vk.Eps); f != nil {
			f.Msg += fmt.Sprintf(" (edges %v, damp=%v: documented I - D^-1 A, here scaled by 1-damp; the matrix built is the transpose (1-damp)(I - A D^-1))", m.edges, damp)
			return f
		}

	case "modularize-edgeless":
		// documented panics of Modularize: negative edge weights only
		directed := v >= 4
		m := newModel(graphCase{N: v % 4, Directed: directed})
		key := "modularize-undirected-edgeless-panics"
		if directed {
			key = "modularize-directed-edgeless-panics"
		}
		r := vk.Call(func() { community.Modularize(m.buildUnweighted(), 1, rand.NewPCG(3, 4)) })
		if r.Outcome != vk.Returned {
			return vk.Failf(key, "Modularize on a graph with %d nodes and no edges ended in %v: %s", m.n, r.Outcome, r.Text)
		}

	case "mx-nil-weights":
		// documented (QMultiplex; accepted by the argument check of
		// ModularizeMultiplex): "If weights is nil layers are equally weighted"
		directed := v%2 == 1
		es := twoTriangles
		if directed {
			es = biDir(es)
		}
		mc := mxCase{N: 6, Directed: directed, Layers: [][]edgeT{es, es}}
		g, err := newMxModel(mc).build(mc)
		if err != nil {
			return vk.Failf("layers-error", "%v", err)
		}
		r := vk.Call(func() { community.ModularizeMultiplex(g, nil, nil, false, rand.NewPCG(5, 6)) })
		if r.Outcome != vk.Returned {
			return vk.Failf("modularize-multiplex-nil-weights-panics", "ModularizeMultiplex(two layers, weights=nil) ended in %v: %s", r.Outcome, r.Text)
		}

	case "mx-first-layer-inactive":
		// a first layer without edges, or with layer weight 0, is legal input
		directed := v%2 == 1
		es := twoTriangles
		if directed {
			es = biDir(es)
		}
		mc := mxCase{N: 6, Directed: directed, Layers: [][]edgeT{nil, es}, LayerW: []vk.F{1, 1}}
		if v/2 == 1 {
			mc = mxCase{N: 6, Directed: directed, Layers: [][]edgeT{es, es}, LayerW: []vk.F{0, 1}}
		}
		g, err := newMxModel(mc).build(mc)
		if err != nil {
			return vk.Failf("layers-error", "%v", err)
		}
		r := vk.Call(func() { community.ModularizeMultiplex(g, vk.Fs(mc.LayerW), nil, false, rand.NewPCG(7, 8)) })
		if r.Outcome != vk.Returned {
			return vk.Failf("modularize-multiplex-first-layer-inactive-panics", "ModularizeMultiplex with an edgeless or zero-weight first layer (weights %v) ended in %v: %s", mc.LayerW, r.Outcome, r.Text)
		}

	case "container-self-weight":
		// simple.NewWeighted*Graph(self, absent) reports Weight(x,x) = self. Q and
		// QMultiplex count that as the diagonal entry A_xx (degrees and 2m
		// included); the reduced graphs returned by Modularize are documented to
		// return "the internal node weight" for Weight(x,x), and Q of the
		// original graph for Communities() must equal Q of the reduced graph.
		directed := v%2 == 1
		es := twoTriangles
		if directed {
			es = biDir(es)
		}
		m := newModel(graphCase{N: 6, Directed: directed, Edges: es}).withSelf(1)
		if v < 2 {
			g := m.buildWeighted()
			top := community.Modularize(g, 1, rand.NewPCG(1, 1))
			qo := community.Q(g, top.Communities(), 1)
			qr := community.Q(top, nil, 1)
			if math.Abs(qo-qr) > 1e-12 {
				return vk.Failf("modularize-ignores-container-self-weight", "weighted container with self=1 (two triangles joined by an edge): Q(g, r.Communities(), 1) = %v but Q(r, nil, 1) = %v: Q counts Weight(x,x)=self as A_xx, the base reduction of Modularize gives every node internal weight 0", qo, qr)
			}
			return nil
		}
		mc := mxCase{N: 6, Directed: directed, Layers: [][]edgeT{es}, LayerW: []vk.F{1}}
		mm := newMxModel(mc)
		mm.layers[0] = m
		g, err := mm.build(mc)
		if err != nil {
			return vk.Failf("layers-error", "%v", err)
		}
		top := community.ModularizeMultiplex(g, []float64{1}, nil, false, rand.NewPCG(1, 1))
		qo := community.QMultiplex(g, top.Communities(), []float64{1}, nil)
		qr := community.QMultiplex(top, nil, []float64{1}, nil)
		if math.Abs(qo[0]-qr[0]) > 1e-9 {
			return vk.Failf("modularize-ignores-container-self-weight", "multiplex layer in a weighted container with self=1: QMultiplex(g, r.Communities()) = %v but QMultiplex(r, nil) = %v", qo, qr)
		}

	case "empty-graph":
		m := newModel(graphCase{N: 0, Directed: true})
		g := m.buildUnweighted().(graph.Directed)
		switch v {
		case 0, 1:
			// PageRank / PageRankSparse on a graph without nodes end in mat's
			// zero-length panic; nothing is documented for that input, so this
			// is only recorded.
			f := network.PageRank
			if v == 1 {
				f = network.PageRankSparse
			}
			r := vk.Call(func() { f(g, 0.85, 1e-6) })
			vk.Class("contract:pagerank-empty-graph:" + r.Outcome.String())
			if r.Outcome == vk.RuntimeFault {
				return vk.Failf("pagerank-empty-graph-runtime-fault", "variant %d: %s", v, r.Text)
			}
		case 2:
			return vk.MustReturn("hits-empty-graph-panics", func() { network.HITS(g, 1e-6) })
		}
	}
	return nil
}

// rwLaplacianDocumentedAsRowForm reads the doc comment of
// spectral.NewRandomWalkLaplacian in the source tree the test binary was built
// from and reports whether it defines the matrix as I-D^(-1)A.
func rwLaplacianDocumentedAsRowForm() (rowForm, ok bool) {
	fn := runtime.FuncForPC(reflect.ValueOf(spectral.NewRandomWalkLaplacian).Pointer())
	if fn == nil {
		return false, false
	}
	file, _ := fn.FileLine(fn.Entry())
	b, err := os.ReadFile(file)
	if err != nil {
		return false, false
	}
	src := string(b)
	end := strings.Index(src, "\nfunc NewRandomWalkLaplacian(")
	if end < 0 {
		return false, false
	}
	start := strings.LastIndex(src[:end], "\n\n")
	if start < 0 {
		return false, false
	}
	doc := strings.ReplaceAll(src[start:end], " ", "")
	return strings.Contains(doc, "I-D^(-1)A"), true
}

func TestContract(t *testing.T) {
	var cases []contractCase
	for sc, k := range map[string]int{"expanded-nil": 4, "rw-laplacian-orientation": 3, "modularize-edgeless": 8, "mx-nil-weights": 2, "mx-first-layer-inactive": 4, "empty-graph": 3, "container-self-weight": 4} {
		for v := 0; v < k; v++ {
			cases = append(cases, contractCase{sc, v})
		}
	}
	// deterministic order
	for i := range cases {
		for j := i + 1; j < len(cases); j++ {
			if cases[j].Scenario < cases[i].Scenario || (cases[j].Scenario == cases[i].Scenario && cases[j].Variant < cases[i].Variant) {
				cases[i], cases[j] = cases[j], cases[i]
			}
		}
	}
	vk.Enumerate(t, "contract", len(cases), func(i int) contractCase { return cases[i] }, checkContract)
}
