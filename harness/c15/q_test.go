package c15

import (
	"fmt"
	"math"
	"testing"

	"gonum.org/v1/gonum/graph"
	"gonum.org/v1/gonum/graph/community"
	"pgregory.net/rapid"
	"verifharness/vk"
)

// qMatrix evaluates the defining double sum of modularity on a dense weight
// matrix W (W[i][i] is the self weight, counted once in the degree):
//
//	undirected: sum_{c_i=c_j} [W_ij - gamma k_i k_j / 2m],       2m = sum_i k_i
//	directed:   sum_{c_i=c_j} [W_ij - gamma k_i^out k_j^in / m],  m = sum_i k_i^out
//
// It returns the unnormalised sum and the normaliser (2m or m).
func qMatrix(W [][]float64, lab []int, gamma float64) (sum, norm float64) {
	n := len(W)
	kout := make([]float64, n)
	kin := make([]float64, n)
	var tot vk.DD
	for i := 0; i < n; i++ {
		var o, in vk.DD
		for j := 0; j < n; j++ {
			o.Add(W[i][j])
			in.Add(W[j][i])
		}
		kout[i], kin[i] = o.Float(), in.Float()
		tot.Add(kout[i])
	}
	norm = tot.Float()
	var q vk.DD
	for i := 0; i < n; i++ {
		for j := 0; j < n; j++ {
			if lab[i] != lab[j] {
				continue
			}
			q.Add(W[i][j])
			q.Add(-gamma * kout[i] * kin[j] / norm)
		}
	}
	return q.Float(), norm
}

func labelsFromBlocks(n int, blocks [][]int) []int {
	lab := make([]int, n)
	for i := range lab {
		lab[i] = -1 - i // nodes not covered stay alone
	}
	for b, blk := range blocks {
		for _, v := range blk {
			lab[v] = b
		}
	}
	return lab
}

// normLabels maps arbitrary drawn labels to a label vector of length n.
func normLabels(n int, lab []int) []int {
	out := make([]int, n)
	for i := range out {
		if len(lab) > 0 {
			out[i] = lab[i%len(lab)]
		}
	}
	return out
}

func nontrivialPartition(blocks [][]int) bool {
	k := 0
	for _, b := range blocks {
		if len(b) >= 2 {
			k++
		}
	}
	return k >= 2
}

type qCase struct {
	G        graphCase
	Weighted bool // use the weighted containers even for unit weights
	Labels   []int
	NilComms bool
	Gamma    vk.F
	NegEdge  int // >= 0: this edge gets a negative weight; the call must panic
	SelfW    vk.F // `self` value of the weighted container (Weight(x,x)): the diagonal A_xx
}

func qBound(n int, gamma float64) float64 {
	return 4 * float64(n*n+8) * vk.Eps * (1 + math.Abs(gamma))
}

func checkQ(c qCase) *vk.Failure {
	m := newModel(c.G)
	n := m.n
	gamma := float64(c.Gamma)
	if math.IsNaN(gamma) || math.IsInf(gamma, 0) || math.Abs(gamma) > 100 {
		return nil
	}
	vk.Sample("q", c)
	weighted := c.Weighted || !m.unit
	if sw := float64(c.SelfW); weighted && sw > 0 && sw <= 64 {
		m = m.withSelf(sw)
		vk.Class("q:container-self-weight")
	}
	lab := normLabels(n, c.Labels)
	if c.NilComms {
		for i := range lab {
			lab[i] = i
		}
	}
	blocks := blocksFromLabels(lab)
	var comms [][]graph.Node
	if !c.NilComms {
		comms = m.commNodes(blocks)
		if comms == nil {
			comms = [][]graph.Node{}
		}
	}
	if c.NegEdge >= 0 && len(m.edges) > 0 {
		// documented: Q will panic if g has any edge with negative edge weight
		neg := *m
		neg.edges = append([]edgeT(nil), m.edges...)
		neg.edges[c.NegEdge%len(neg.edges)].W *= -1
		g := neg.buildWeighted()
		vk.Class("q:negative-weight")
		return vk.MustPanic("q-negative-weight-must-panic", func() { community.Q(g, comms, gamma) })
	}
	var g graph.Graph
	if weighted {
		g = m.buildWeighted()
	} else {
		g = m.buildUnweighted()
	}
	var got float64
	if f := vk.MustReturn("q-panics", func() { got = community.Q(g, comms, gamma) }); f != nil {
		return f
	}
	sum, norm := qMatrix(m.w, lab, gamma)
	kind := "undirected"
	if m.directed {
		kind = "directed"
	}
	if norm == 0 {
		vk.Class("q:" + kind + ":edgeless")
		return nil // 0/0: nothing is documented
	}
	vk.Class("q:" + kind)
	if nontrivialPartition(blocks) {
		vk.NonTrivial("q", m.hash(), fmt.Sprint(lab), gamma)
	}
	want := sum / norm
	if !(math.Abs(got-want) <= qBound(n, gamma)) {
		return vk.Failf("q-"+kind+"-value", "gamma=%v partition=%v: Q=%v, defining double sum gives %v (diff %g, bound %g)", gamma, blocks, got, want, got-want, qBound(n, gamma))
	}
	return nil
}

func drawLabels(t *rapid.T, n int) []int {
	switch rapid.IntRange(0, 5).Draw(t, "partcls") {
	case 0:
		return []int{0} // one block
	case 1: // singletons
		l := make([]int, n)
		for i := range l {
			l[i] = i
		}
		return l
	case 2: // few blocks
		k := rapid.IntRange(2, 4).Draw(t, "k")
		return rapid.SliceOfN(rapid.IntRange(0, k-1), n, n).Draw(t, "labels")
	}
	k := rapid.IntRange(1, n+1).Draw(t, "k")
	return rapid.SliceOfN(rapid.IntRange(0, k-1), n, n).Draw(t, "labels")
}

func drawGamma(t *rapid.T) vk.F {
	if rapid.IntRange(0, 3).Draw(t, "g1") == 0 {
		return 1
	}
	return vk.F(rapid.Float64Range(0.1, 5).Draw(t, "gamma"))
}

func drawQ(t *rapid.T) qCase {
	c := qCase{NegEdge: -1}
	directed := rapid.Bool().Draw(t, "directed")
	c.Weighted = rapid.Bool().Draw(t, "weighted")
	c.G = drawGraph(t, directed, !c.Weighted, 60)
	c.Labels = drawLabels(t, c.G.N)
	c.NilComms = rapid.IntRange(0, 9).Draw(t, "nil") == 0
	c.Gamma = drawGamma(t)
	if rapid.IntRange(0, 19).Draw(t, "neg") == 0 {
		c.NegEdge = rapid.IntRange(0, 1000).Draw(t, "negedge")
	}
	if rapid.IntRange(0, 3).Draw(t, "self") == 0 {
		c.SelfW = vk.F(rapid.SampledFrom([]float64{0.5, 1, 2}).Draw(t, "selfw"))
	}
	return c
}

func TestQ(t *testing.T) {
	// exhaustive: every labelled graph with every set partition
	type gp struct {
		g    exhGraph
		part []int
	}
	for _, directed := range []bool{false, true} {
		maxN := vk.Pick(4, 5)
		name := "q-exh-undirected"
		if directed {
			maxN = vk.Pick(3, 4)
			name = "q-exh-directed"
		}
		var cases []gp
		for _, g := range exhGraphs(directed, 1, maxN) {
			for _, p := range allSetPartitions(g.n) {
				cases = append(cases, gp{g, p})
			}
		}
		gammas := []float64{1, 0.5, 2.25, 0.1}
		dir := directed
		vk.Enumerate(t, name, len(cases), func(i int) qCase {
			return qCase{G: graphFromMask(cases[i].g.n, dir, cases[i].g.mask), Labels: cases[i].part, Gamma: vk.F(gammas[i%len(gammas)]), Weighted: i%3 == 0, NegEdge: -1, SelfW: vk.F([]float64{0, 0, 1, 0.5}[i%4])}
		}, checkQ)
	}
	vk.Run(t, "q", vk.Opts{Quick: 8000, Thorough: 120000}, drawQ, checkQ)
}

// ---- multiplex ------------------------------------------------------------------

// mxCase is a multiplex graph: layers over the same node set.
type mxCase struct {
	N        int
	Directed bool
	IDMode   int
	Layers   [][]edgeT
	Unweight []bool // layer held in a container that is not graph.Weighted (only honoured for unit weights)
	LayerW   []vk.F // nil: equally weighted
	Res      []vk.F // nil, one element, or one per layer
	Labels   []int
	NilComms bool
}

type mxModel struct {
	layers []*model
	w      []float64 // effective layer weights
	res    []float64 // effective resolutions
	wArg   []float64
	resArg []float64
}

func newMxModel(c mxCase) *mxModel {
	mm := &mxModel{}
	for _, es := range c.Layers {
		mm.layers = append(mm.layers, newModel(graphCase{N: c.N, Directed: c.Directed, IDMode: c.IDMode, Edges: es}))
	}
	d := len(mm.layers)
	if c.LayerW != nil && len(c.LayerW) == d {
		mm.wArg = vk.Fs(c.LayerW)
	}
	switch {
	case c.Res != nil && len(c.Res) == d:
		mm.resArg = vk.Fs(c.Res)
	case c.Res != nil && len(c.Res) >= 1:
		mm.resArg = []float64{float64(c.Res[0])}
	}
	mm.w = make([]float64, d)
	mm.res = make([]float64, d)
	for l := 0; l < d; l++ {
		mm.w[l], mm.res[l] = 1, 1
		if mm.wArg != nil {
			mm.w[l] = mm.wArg[l]
		}
		switch len(mm.resArg) {
		case 0:
		case 1:
			mm.res[l] = mm.resArg[0]
		default:
			mm.res[l] = mm.resArg[l]
		}
	}
	return mm
}

// unweightedLayer reports whether layer l is held in a container that does not
// implement graph.Weighted (only possible when all its weights are 1). Such a
// layer has unit weight on every edge whatever the sign of the layer weight.
func (mm *mxModel) unweightedLayer(c mxCase, l int) bool {
	return l < len(c.Unweight) && c.Unweight[l] && mm.layers[l].unit
}

// onlyUndirected / onlyDirected hide every method that is not part of the
// graph interface (in particular Weight), as a user type behind graph.Graph.
type onlyUndirected struct{ graph.Undirected }
type onlyDirected struct{ graph.Directed }

// layerGraph builds layer l: weighted layers hold sign-matched edge weights
// (negated for a negative layer weight, as the documentation requires);
// unweighted layers rotate through simple.{Und,D}irectedGraph, graph.Undirect
// over a directed graph and an interface-hiding wrapper of a weighted graph.
func (mm *mxModel) layerGraph(c mxCase, l int) graph.Graph {
	m := mm.layers[l]
	sign := 1.0
	if mm.w[l] < 0 {
		sign = -1
	}
	if !mm.unweightedLayer(c, l) {
		return m.buildWeightedSigned(sign)
	}
	switch (l + m.n + len(m.edges)) % 3 {
	case 1:
		if !m.directed {
			dm := *m
			dm.directed = true
			return graph.Undirect{G: dm.buildUnweighted().(graph.Directed)}
		}
	case 2:
		if m.directed {
			return onlyDirected{m.buildWeightedSigned(sign).(graph.Directed)}
		}
		return onlyUndirected{m.buildWeightedSigned(sign).(graph.Undirected)}
	}
	return m.buildUnweighted()
}

func (mm *mxModel) build(c mxCase) (community.Multiplex, error) {
	d := len(mm.layers)
	if c.Directed {
		ls := make([]graph.Directed, d)
		for l := range mm.layers {
			ls[l] = mm.layerGraph(c, l).(graph.Directed)
		}
		return community.NewDirectedLayers(ls...)
	}
	ls := make([]graph.Undirected, d)
	for l := range mm.layers {
		ls[l] = mm.layerGraph(c, l).(graph.Undirected)
	}
	return community.NewUndirectedLayers(ls...)
}

func validMx(c mxCase) bool {
	if c.N < 1 || len(c.Layers) < 1 || len(c.Layers) > 4 {
		return false
	}
	for _, w := range c.LayerW {
		if math.IsNaN(float64(w)) || math.IsInf(float64(w), 0) || math.Abs(float64(w)) > 1e3 {
			return false
		}
	}
	for _, r := range c.Res {
		if math.IsNaN(float64(r)) || math.IsInf(float64(r), 0) || math.Abs(float64(r)) > 100 {
			return false
		}
	}
	return true
}

func checkQMx(c mxCase) *vk.Failure {
	if !validMx(c) {
		return nil
	}
	mm := newMxModel(c)
	n := c.N
	d := len(mm.layers)
	vk.Sample("qmx", c)
	g, err := mm.build(c)
	if err != nil {
		return vk.Failf("layers-error", "New*Layers on layers over one node set: %v", err)
	}
	lab := normLabels(n, c.Labels)
	if c.NilComms {
		for i := range lab {
			lab[i] = i
		}
	}
	blocks := blocksFromLabels(lab)
	var comms [][]graph.Node
	if !c.NilComms {
		comms = mm.layers[0].commNodes(blocks)
	}
	var got []float64
	if f := vk.MustReturn("qmx-panics", func() { got = community.QMultiplex(g, comms, mm.wArg, mm.resArg) }); f != nil {
		return f
	}
	if len(got) != d {
		return vk.Failf("qmx-length", "QMultiplex returned %d scores for %d layers", len(got), d)
	}
	kind := "undirected"
	if c.Directed {
		kind = "directed"
	}
	vk.Class(fmt.Sprintf("qmx:%s:depth=%d", kind, d))
	if nontrivialPartition(blocks) && d >= 2 {
		vk.NonTrivial("qmx", kind, fmt.Sprint(c.Layers), fmt.Sprint(lab), fmt.Sprint(mm.w), fmt.Sprint(mm.res))
	}
	for l, m := range mm.layers {
		if mm.w[l] == 0 {
			if got[l] != 0 {
				return vk.Failf("qmx-zero-weight-layer", "layer %d has weight 0 but score %v", l, got[l])
			}
			continue
		}
		if mm.w[l] < 0 {
			vk.Class("qmx:negative-layer")
			if mm.unweightedLayer(c, l) {
				vk.Class("qmx:negative-layer-unweighted-container")
			}
		}
		sum, norm := qMatrix(m.w, lab, mm.res[l])
		if norm == 0 {
			continue // edgeless layer: 0/0, nothing documented
		}
		want := mm.w[l] * sum
		bound := qBound(n, mm.res[l]) * math.Abs(mm.w[l]) * norm
		if !(math.Abs(got[l]-want) <= bound) {
			return vk.Failf("qmx-"+kind+"-value", "layer %d weight %v resolution %v partition %v: Q_layer=%v, defining double sum gives %v (diff %g, bound %g)", l, mm.w[l], mm.res[l], blocks, got[l], want, got[l]-want, bound)
		}
	}
	// documented argument panics
	if f := vk.MustPanic("qmx-weights-length-must-panic", func() { community.QMultiplex(g, comms, make([]float64, d+1), nil) }); f != nil {
		return f
	}
	if f := vk.MustPanic("qmx-resolutions-length-must-panic", func() { community.QMultiplex(g, comms, nil, make([]float64, d+2)) }); f != nil {
		return f
	}
	// sign mismatch between layer weight and edge weights must panic
	// (containers that are not Weighted carry no sign and are skipped)
	for l, m := range mm.layers {
		if len(m.edges) > 0 && mm.w[l] != 0 && !mm.unweightedLayer(c, l) {
			w := make([]float64, d)
			copy(w, mm.w)
			w[l] = -w[l]
			if f := vk.MustPanic("qmx-sign-mismatch-must-panic", func() { community.QMultiplex(g, comms, w, mm.resArg) }); f != nil {
				return f
			}
			break
		}
	}
	return nil
}

func drawMx(t *rapid.T, maxN int, allowNilW, forQ bool) mxCase {
	c := mxCase{}
	c.Directed = rapid.Bool().Draw(t, "directed")
	d := rapid.IntRange(1, 3).Draw(t, "depth")
	base := drawGraph(t, c.Directed, rapid.IntRange(0, 2).Draw(t, "unitbase") == 0, maxN)
	c.N, c.IDMode = base.N, base.IDMode
	c.Layers = append(c.Layers, base.Edges)
	for l := 1; l < d; l++ {
		switch rapid.IntRange(0, 3).Draw(t, "layercls") {
		case 0: // same topology, new weights
			es := append([]edgeT(nil), base.Edges...)
			unit := rapid.IntRange(0, 2).Draw(t, "unitlayer") == 0
			for i := range es {
				es[i].W = 1
				if !unit {
					es[i].W = vk.F(rapid.SampledFrom(weightSet).Draw(t, "w"))
				}
			}
			c.Layers = append(c.Layers, es)
		case 1: // edgeless layer
			c.Layers = append(c.Layers, nil)
		default:
			class := rapid.IntRange(0, numClasses-1).Draw(t, "class")
			seed := rapid.Uint64().Draw(t, "seed")
			c.Layers = append(c.Layers, genEdges(smRnd{vk.NewSplitMix(seed)}, c.N, class, c.Directed, rapid.Bool().Draw(t, "unit")))
		}
	}
	if rapid.IntRange(0, 19).Draw(t, "firstempty") == 0 {
		c.Layers[0] = nil
	}
	c.Unweight = rapid.SliceOfN(rapid.Bool(), d, d).Draw(t, "unweighted")
	nilw := allowNilW && rapid.IntRange(0, 4).Draw(t, "nilw") == 0
	if nilw && d >= 2 && !forQ {
		// ModularizeMultiplex faults on nil weights with >= 2 layers (known
		// finding, asserted by the contract sub-check): keep that rare
		nilw = rapid.IntRange(0, 4).Draw(t, "nilw2") == 0
	}
	if !nilw {
		for l := 0; l < d; l++ {
			cls := rapid.IntRange(0, 7).Draw(t, "wcls")
			if cls == 0 && l == 0 && !forQ && rapid.IntRange(0, 3).Draw(t, "w0first") != 0 {
				cls = 4
			}
			switch cls {
			case 0:
				c.LayerW = append(c.LayerW, 0)
			case 1, 2:
				c.LayerW = append(c.LayerW, vk.F(-rapid.Float64Range(0.1, 3).Draw(t, "lw")))
			case 3:
				c.LayerW = append(c.LayerW, 1)
			default:
				c.LayerW = append(c.LayerW, vk.F(rapid.Float64Range(0.1, 3).Draw(t, "lw")))
			}
		}
	}
	switch rapid.IntRange(0, 2).Draw(t, "rescls") {
	case 1:
		c.Res = []vk.F{drawGamma(t)}
	case 2:
		for l := 0; l < d; l++ {
			c.Res = append(c.Res, drawGamma(t))
		}
	}
	c.Labels = drawLabels(t, c.N)
	c.NilComms = rapid.IntRange(0, 9).Draw(t, "nil") == 0
	return c
}

func TestQMultiplex(t *testing.T) {
	vk.Run(t, "qmx", vk.Opts{Quick: 6000, Thorough: 100000}, func(t *rapid.T) mxCase { return drawMx(t, 40, true, true) }, checkQMx)
}
