package blaskit

import (
	"fmt"
	"math"
	"math/cmplx"
	"unsafe"

	"verifharness/vk"
)

// num is the set of BLAS element types.
type num interface {
	~float32 | ~float64 | ~complex64 | ~complex128
}

func toC[T num](v T) complex128 {
	switch x := any(v).(type) {
	case float32:
		return complex(float64(x), 0)
	case float64:
		return complex(x, 0)
	case complex64:
		return complex128(x)
	case complex128:
		return x
	}
	panic("unreachable")
}

func fromC[T num](c complex128) T {
	var z T
	switch any(z).(type) {
	case float32:
		return any(float32(real(c))).(T)
	case float64:
		return any(real(c)).(T)
	case complex64:
		return any(complex64(c)).(T)
	case complex128:
		return any(c).(T)
	}
	panic("unreachable")
}

func isComplex[T num]() bool {
	var z T
	switch any(z).(type) {
	case complex64, complex128:
		return true
	}
	return false
}

func unitRoundoff[T num]() float64 {
	var z T
	switch any(z).(type) {
	case float32, complex64:
		return vk.Eps32
	}
	return vk.Eps
}

// sentinel returns a NaN whose payload encodes idx.
func sentinel[T num](idx int) T {
	var z T
	b64 := math.Float64frombits(0x7ff8000000000000 | uint64(idx+1)&0xffffffff)
	b32 := math.Float32frombits(0x7fc00000 | uint32(idx+1)&0x3fffff)
	switch any(z).(type) {
	case float32:
		return any(b32).(T)
	case float64:
		return any(b64).(T)
	case complex64:
		return any(complex(b32, b32)).(T)
	case complex128:
		return any(complex(b64, b64)).(T)
	}
	panic("unreachable")
}

func bitsEq[T num](a, b T) bool {
	switch x := any(a).(type) {
	case float32:
		return math.Float32bits(x) == math.Float32bits(any(b).(float32))
	case float64:
		return math.Float64bits(x) == math.Float64bits(any(b).(float64))
	case complex64:
		y := any(b).(complex64)
		return math.Float32bits(real(x)) == math.Float32bits(real(y)) && math.Float32bits(imag(x)) == math.Float32bits(imag(y))
	case complex128:
		y := any(b).(complex128)
		return math.Float64bits(real(x)) == math.Float64bits(real(y)) && math.Float64bits(imag(x)) == math.Float64bits(imag(y))
	}
	panic("unreachable")
}

func hasNaN(c complex128) bool { return math.IsNaN(real(c)) || math.IsNaN(imag(c)) }

// roundTo rounds a complex128 logical value to what is representable in T.
func roundTo[T num](c complex128) complex128 { return toC(fromC[T](c)) }

// cmat is a dense logical matrix.
type cmat struct {
	r, c int
	d    []complex128
}

func newCmat(r, c int) cmat { return cmat{r, c, make([]complex128, r*c)} }
func (m cmat) at(i, j int) complex128 {
	return m.d[i*m.c+j]
}
func (m cmat) set(i, j int, v complex128) { m.d[i*m.c+j] = v }

// opAt returns op(A)[i,j] for t in 'N','T','C'.
func (m cmat) opAt(t byte, i, j int) complex128 {
	switch t {
	case 'N':
		return m.at(i, j)
	case 'T':
		return m.at(j, i)
	default:
		return cmplx.Conj(m.at(j, i))
	}
}

// buf is an operand embedded in a larger sentinel-filled buffer.
type buf[T num] struct {
	name   string
	parent []T   // whole allocation
	s      []T   // slice handed to the routine
	off    int   // s starts at parent[off]
	orig   []T   // copy of parent before the call
	expect []int // per parent index: -1 = must be bit-identical; >=0 index into want
	want   []complex128
	tol    []float64
	// hermDiag marks parent indices that hold the diagonal of a Hermitian
	// output: imaginary part must be exactly zero after a non-quick-return call.
	hermDiag map[int]bool
	need     int // addressed extent (minimal legal slice length)
	// ignoreImag marks parent indices whose imaginary part is documented as
	// ignored on input (Hermitian diagonals).
}

// alloc creates a buffer with need addressed-extent elements, pre/post sentinel
// padding outside the slice and tail extra elements inside the slice. With
// l.guard set the slice abuts an inaccessible page at its end ("end": no post
// padding, no tail) or at its start ("start": no pre padding).
func alloc[T num](name string, need, pre, post, tail int, trim bool, l *layout) *buf[T] {
	guard := ""
	if l != nil {
		guard = l.guard
	}
	switch guard {
	case "end":
		post, tail = 0, 0
	case "start":
		pre = 0
	}
	total := pre + need + tail + post
	var p []T
	if guard != "" && total > 0 {
		var z T
		sz := int(unsafe.Sizeof(z))
		raw, free := vk.GuardedBytes(total*sz, guard == "end")
		l.frees = append(l.frees, free)
		p = unsafe.Slice((*T)(unsafe.Pointer(&raw[0])), total)
	} else {
		p = make([]T, total)
	}
	for i := range p {
		p[i] = sentinel[T](i)
	}
	b := &buf[T]{name: name, parent: p, off: pre}
	if trim || guard == "end" {
		b.s = p[pre : pre+need+tail : pre+need+tail]
	} else {
		b.s = p[pre : pre+need+tail]
	}
	b.need = need
	b.expect = make([]int, total)
	for i := range b.expect {
		b.expect[i] = -1
	}
	return b
}

func (b *buf[T]) put(idx int, v complex128) { b.s[idx] = fromC[T](v) }
func (b *buf[T]) get(idx int) complex128    { return toC(b.s[idx]) }

// snapshot records the pre-call contents.
func (b *buf[T]) snapshot() { b.orig = append([]T(nil), b.parent...) }

// expectAt declares that slice index idx must hold want within tol after the call.
func (b *buf[T]) expectAt(idx int, want complex128, tol float64) {
	b.expect[b.off+idx] = len(b.want)
	b.want = append(b.want, want)
	b.tol = append(b.tol, tol)
}

// verify checks the post-call contents: declared outputs within tolerance,
// everything else bit-identical.
func (b *buf[T]) verify(quickReturn bool) *vk.Failure {
	for i := range b.parent {
		e := b.expect[i]
		if e == -2 {
			continue // checked by the caller (solves: residual oracle)
		}
		if e < 0 {
			if !bitsEq(b.parent[i], b.orig[i]) {
				where := "padding/unreferenced storage or read-only operand"
				return vk.Failf("untouched-storage-modified", "%s: element %d of the allocation (slice index %d) changed from %v to %v (%s)", b.name, i, i-b.off, b.orig[i], b.parent[i], where)
			}
			continue
		}
		got := toC(b.parent[i])
		want, tol := b.want[e], b.tol[e]
		if hasNaN(got) {
			return vk.Failf("result-nan", "%s: slice index %d is %v, want %v (a NaN means unaddressed storage was read or beta==0 did not overwrite)", b.name, i-b.off, got, want)
		}
		if b.hermDiag[i] {
			if quickReturn {
				// either untouched or imaginary part cleared
				if bitsEq(b.parent[i], b.orig[i]) {
					continue
				}
			}
			if imag(got) != 0 {
				return vk.Failf("hermitian-diagonal-imag-not-zero", "%s: slice index %d is %v: imaginary part of a Hermitian diagonal must be set to zero", b.name, i-b.off, got)
			}
			if math.Abs(real(got)-real(want)) > tol {
				return vk.Failf("result-mismatch", "%s: slice index %d got %v want %v (tol %g)", b.name, i-b.off, got, want, tol)
			}
			continue
		}
		if quickReturn {
			if !bitsEq(b.parent[i], b.orig[i]) {
				return vk.Failf("quick-return-modified-output", "%s: slice index %d changed from %v to %v although the operation is the identity", b.name, i-b.off, b.orig[i], b.parent[i])
			}
			continue
		}
		if cmplx.Abs(got-want) > tol {
			return vk.Failf("result-mismatch", "%s: slice index %d got %v want %v diff %g (tol %g)", b.name, i-b.off, got, want, cmplx.Abs(got-want), tol)
		}
	}
	return nil
}

// ---- layouts ---------------------------------------------------------------

// vecPos returns the slice index of logical element i of an n-vector with increment inc.
func vecPos(i, n, inc int) int {
	if inc > 0 {
		return i * inc
	}
	return (n - 1 - i) * (-inc)
}

func vecNeed(n, inc int) int {
	if n <= 0 {
		return 0
	}
	if inc < 0 {
		inc = -inc
	}
	return (n-1)*inc + 1
}

type layout struct {
	pre, post, tail int
	trim            bool
	guard           string
	frees           []func()
}

func makeVec[T num](name string, vals []complex128, inc int, l *layout) *buf[T] {
	n := len(vals)
	b := alloc[T](name, vecNeed(n, inc), l.pre, l.post, l.tail, l.trim, l)
	for i, v := range vals {
		b.put(vecPos(i, n, inc), v)
	}
	return b
}

// geNeed is the slice length gonum documents/enforces for an r×c matrix with
// leading dimension ld: ld*(r-1)+c (also when c == 0).
func geNeed(r, c, ld int) int {
	if r == 0 {
		return 0
	}
	return (r-1)*ld + c
}

func makeGe[T num](name string, m cmat, ld int, l *layout) *buf[T] {
	b := alloc[T](name, geNeed(m.r, m.c, ld), l.pre, l.post, l.tail, l.trim, l)
	for i := 0; i < m.r; i++ {
		for j := 0; j < m.c; j++ {
			b.put(i*ld+j, m.at(i, j))
		}
	}
	return b
}

// inTri reports whether (i,j) lies in the referenced triangle.
func inTri(uplo byte, i, j int) bool {
	if uplo == 'U' {
		return j >= i
	}
	return j <= i
}

// makeTri stores the uplo triangle of the n×n matrix m with leading dimension
// ld; the other triangle keeps sentinels. With unit set the diagonal is not
// referenced either. With hermGarbage the imaginary parts of the diagonal hold
// a finite garbage value (documented as ignored).
func makeTri[T num](name string, m cmat, uplo byte, ld int, unit, hermGarbage bool, l *layout) *buf[T] {
	n := m.r
	b := alloc[T](name, geNeed(n, n, ld), l.pre, l.post, l.tail, l.trim, l)
	for i := 0; i < n; i++ {
		for j := 0; j < n; j++ {
			if !inTri(uplo, i, j) || (unit && i == j) {
				continue
			}
			v := m.at(i, j)
			if hermGarbage && i == j && isComplex[T]() {
				v = complex(real(v), 77.5)
			}
			b.put(i*ld+j, v)
		}
	}
	return b
}

func packedIdx(uplo byte, n, i, j int) int {
	if uplo == 'U' {
		return i*n - i*(i-1)/2 + (j - i)
	}
	return i*(i+1)/2 + j
}

func makePacked[T num](name string, m cmat, uplo byte, unit, hermGarbage bool, l *layout) *buf[T] {
	n := m.r
	b := alloc[T](name, n*(n+1)/2, l.pre, l.post, l.tail, l.trim, l)
	for i := 0; i < n; i++ {
		for j := 0; j < n; j++ {
			if !inTri(uplo, i, j) {
				continue
			}
			idx := packedIdx(uplo, n, i, j)
			if unit && i == j {
				b.s[idx] = sentinel[T](b.off + idx)
				continue
			}
			v := m.at(i, j)
			if hermGarbage && i == j && isComplex[T]() {
				v = complex(real(v), 77.5)
			}
			b.put(idx, v)
		}
	}
	return b
}

// gbIdx is the slice index of element (i,j) of a general band matrix.
func gbIdx(kl, ld, i, j int) int { return i*ld + kl + j - i }

func gbNeed(m, n, kl, ku, ld int) int {
	if m == 0 || n == 0 {
		return 0
	}
	// gonum requires len(a) >= lda*(min(m,n+kl)-1) + kl+ku+1
	rows := m
	if n+kl < rows {
		rows = n + kl
	}
	return ld*(rows-1) + kl + ku + 1
}

func makeGB[T num](name string, a cmat, kl, ku, ld int, l *layout) *buf[T] {
	b := alloc[T](name, gbNeed(a.r, a.c, kl, ku, ld), l.pre, l.post, l.tail, l.trim, l)
	for i := 0; i < a.r; i++ {
		for j := max(0, i-kl); j <= min(a.c-1, i+ku); j++ {
			b.put(gbIdx(kl, ld, i, j), a.at(i, j))
		}
	}
	return b
}

// tbIdx is the slice index of element (i,j) of a triangular/symmetric band matrix with k off-diagonals.
func tbIdx(uplo byte, k, ld, i, j int) int {
	if uplo == 'U' {
		return i*ld + j - i
	}
	return i*ld + k + j - i
}

func tbNeed(n, k, ld int) int {
	if n == 0 {
		return 0
	}
	return ld*(n-1) + k + 1
}

func inBandTri(uplo byte, k, i, j int) bool {
	if uplo == 'U' {
		return j >= i && j <= i+k
	}
	return j <= i && j >= i-k
}

func makeTB[T num](name string, a cmat, uplo byte, k, ld int, unit, hermGarbage bool, l *layout) *buf[T] {
	n := a.r
	b := alloc[T](name, tbNeed(n, k, ld), l.pre, l.post, l.tail, l.trim, l)
	for i := 0; i < n; i++ {
		for j := 0; j < n; j++ {
			if !inBandTri(uplo, k, i, j) || (unit && i == j) {
				continue
			}
			v := a.at(i, j)
			if hermGarbage && i == j && isComplex[T]() {
				v = complex(real(v), 77.5)
			}
			b.put(tbIdx(uplo, k, ld, i, j), v)
		}
	}
	return b
}

// ---- accumulation -----------------------------------------------------------

// cacc accumulates a complex sum in double-double together with the sum of
// absolute values of its terms and the number of terms.
type cacc struct {
	re, im vk.DD
	abs    float64
	k      int
}

func (a *cacc) addProd(x, y complex128) {
	a.re.AddProd(real(x), real(y))
	a.re.AddProd(-imag(x), imag(y))
	a.im.AddProd(real(x), imag(y))
	a.im.AddProd(imag(x), real(y))
	a.abs += cmplx.Abs(x) * cmplx.Abs(y)
	a.k++
}

func (a *cacc) addProd3(x, y, z complex128) {
	a.addProd(x*y, z)
	// x*y is itself rounded in float64; account for it generously through abs (float64 rounding is far below float32's and the 2x slack of the bound for float64)
}

func (a *cacc) val() complex128 { return complex(a.re.Float(), a.im.Float()) }

// bound returns the acceptance bound for the accumulated sum evaluated in
// precision u with an additional absolute term extra (e.g. |beta*y|).
func bound[T num](k int, absSum float64) float64 {
	c := 2.0
	if isComplex[T]() {
		c = 8.0
	}
	return c * float64(k+4) * unitRoundoff[T]() * absSum
}

func fmtCase(c any) string { return fmt.Sprintf("%+v", c) }
