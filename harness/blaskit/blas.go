package blaskit

import (
	"strings"
	"fmt"
	"math"
	"math/cmplx"

	"gonum.org/v1/gonum/blas"
	"pgregory.net/rapid"
	"verifharness/vk"
)

// Case is one generated BLAS call.
type Case struct {
	Prec string // S D C Z
	Fam  string
	TA   string
	TB   string
	Uplo string
	Diag string
	Side string
	Herm bool // complex only: Hermitian variant (hemm/herk/her2k) or conjugated variant (gerc, dotc)
	M    int
	N    int
	K    int
	KL   int
	KU   int
	IncX int
	IncY int
	PadA int
	PadB int
	PadC int
	Pre  int
	Post int
	Tail int
	Trim bool
	AlRe vk.F
	AlIm vk.F
	BeRe vk.F
	BeIm vk.F
	Seed uint64
	// Fault names the single argument made invalid ("" = valid call): m n k kl
	// ku (dimension -1), incx incy (increment 0), lda ldb ldc (minimum-1),
	// shortA shortB shortC shortX shortY (slice one element shorter than the
	// addressed extent), badTA badTB badUplo badDiag badSide (illegal flag).
	Fault string `json:",omitempty"`
	// Guard places every operand against an inaccessible page: "end" or "start".
	Guard string `json:",omitempty"`
}

func trFlag(s string) blas.Transpose {
	switch s {
	case "T":
		return blas.Trans
	case "C":
		return blas.ConjTrans
	}
	return blas.NoTrans
}
func ulFlag(s string) blas.Uplo {
	if s == "L" {
		return blas.Lower
	}
	return blas.Upper
}
func dgFlag(s string) blas.Diag {
	if s == "U" {
		return blas.Unit
	}
	return blas.NonUnit
}
func sdFlag(s string) blas.Side {
	if s == "R" {
		return blas.Right
	}
	return blas.Left
}

func b0(s string) byte {
	if s == "" {
		return 'N'
	}
	return s[0]
}

// env is the per-case state shared by the family runners.
type env[T num] struct {
	c    Case
	im   *impl[T]
	g    *vk.SplitMix
	lay  layout
	bufs []*buf[T]
	cx   bool
	al   complex128
	be   complex128
	// fault handling
	faultHit bool
}

// faultOK is returned by call when an injected invalid argument was rejected
// with a package panic and nothing was written.
var faultOK = &vk.Failure{Key: "__fault_ok"}

func (e *env[T]) hit(name string) bool {
	if e.c.Fault == name {
		e.faultHit = true
		return true
	}
	return false
}

func (e *env[T]) fDim(v int, name string) int {
	if e.hit(name) {
		return -1
	}
	return v
}

func (e *env[T]) fInc(v int, name string) int {
	if e.hit(name) {
		return 0
	}
	return v
}

func (e *env[T]) fLd(ld int, name string) int {
	if e.c.Fault != name {
		return ld
	}
	pad := e.c.PadA
	switch name {
	case "ldb":
		pad = e.c.PadB
	case "ldc":
		pad = e.c.PadC
	}
	e.faultHit = true
	return ld - pad - 1
}

// fS returns the slice of b, shortened to one element less than the addressed
// extent when the fault names it. Shortening is only an invalid argument when
// the routine gets as far as its slice length checks, which gonum places after
// the zero-dimension quick return.
func (e *env[T]) fS(b *buf[T], name string) []T {
	if e.c.Fault != name || b.need == 0 || e.zeroQuick() {
		return b.s
	}
	e.faultHit = true
	return b.s[: b.need-1 : b.need-1]
}

func (e *env[T]) zeroQuick() bool {
	c := e.c
	switch c.Fam {
	case "gemv", "gbmv", "ger", "gemm", "symm", "trmm", "trsm":
		return c.M == 0 || c.N == 0
	}
	return c.N == 0
}

func (e *env[T]) fTr(s string, name string) blas.Transpose {
	if e.hit(name) {
		return blas.Transpose('X')
	}
	// wrongTA: a Transpose value that other routines accept but this one
	// documents as illegal (Trans for the Hermitian rank-k updates,
	// ConjTrans for the complex symmetric ones).
	if name == "badTA" && e.cx && (e.c.Fam == "syrk" || e.c.Fam == "syr2k") && e.hit("wrongTA") {
		if e.c.Herm {
			return blas.Trans
		}
		return blas.ConjTrans
	}
	return trFlag(s)
}
func (e *env[T]) fUl() blas.Uplo {
	if e.hit("badUplo") {
		return blas.Uplo('X')
	}
	return ulFlag(e.c.Uplo)
}
func (e *env[T]) fDg() blas.Diag {
	if e.hit("badDiag") {
		return blas.Diag('X')
	}
	return dgFlag(e.c.Diag)
}
func (e *env[T]) fSd() blas.Side {
	if e.hit("badSide") {
		return blas.Side('X')
	}
	return sdFlag(e.c.Side)
}

func (e *env[T]) val() complex128 {
	if e.cx {
		return roundTo[T](complex(e.g.Finite(), e.g.Finite()))
	}
	return roundTo[T](complex(e.g.Finite(), 0))
}

func (e *env[T]) vec(n int) []complex128 {
	v := make([]complex128, n)
	for i := range v {
		v[i] = e.val()
	}
	return v
}

func (e *env[T]) mat(r, c int) cmat {
	m := newCmat(r, c)
	for i := range m.d {
		m.d[i] = e.val()
	}
	return m
}

// tri returns an n×n triangular logical matrix (zero outside the uplo triangle,
// ones on the diagonal when unit). With dominant set, the diagonal dominates the
// rows and columns so that triangular solves stay well conditioned.
func (e *env[T]) tri(n int, uplo byte, unit, dominant bool) cmat {
	m := newCmat(n, n)
	for i := 0; i < n; i++ {
		for j := 0; j < n; j++ {
			if !inTri(uplo, i, j) {
				continue
			}
			v := e.val()
			if i == j {
				if unit {
					v = 1
				} else if dominant {
					s := 1.0
					if real(v) < 0 {
						s = -1
					}
					v = roundTo[T](complex(s*(1+math.Abs(real(v))/4), 0) + complex(0, imag(v)/8))
				}
			} else if dominant {
				v = roundTo[T](v / complex(float64(4*n), 0))
			}
			m.set(i, j, v)
		}
	}
	return m
}

// band zeroes everything outside the band.
func bandLimit(m cmat, kl, ku int) {
	for i := 0; i < m.r; i++ {
		for j := 0; j < m.c; j++ {
			if j < i-kl || j > i+ku {
				m.set(i, j, 0)
			}
		}
	}
}

// herm returns a Hermitian (complex types) or symmetric (real types) n×n matrix.
func (e *env[T]) herm(n int, hermitian bool) cmat {
	m := newCmat(n, n)
	for i := 0; i < n; i++ {
		for j := i; j < n; j++ {
			v := e.val()
			if i == j && hermitian {
				v = complex(real(v), 0)
			}
			m.set(i, j, v)
			if hermitian {
				m.set(j, i, cmplx.Conj(v))
			} else {
				m.set(j, i, v)
			}
		}
	}
	return m
}

func (e *env[T]) add(b *buf[T]) *buf[T] {
	e.bufs = append(e.bufs, b)
	return b
}

// call snapshots all buffers, runs f and converts a panic into a failure. When
// an invalid argument was injected the call must end in a package panic with
// every operand bit-identical ("validate everything, then write").
func (e *env[T]) call(f func()) *vk.Failure {
	for _, b := range e.bufs {
		b.snapshot()
	}
	r := vk.Call(f)
	if e.faultHit {
		switch r.Outcome {
		case vk.Returned:
			return vk.Failf("invalid-argument-accepted/"+e.c.Fault, "%s%s: call with invalid argument %q returned normally", e.c.Prec, e.c.Fam, e.c.Fault)
		case vk.RuntimeFault:
			return vk.Failf("invalid-argument-runtime-fault/"+e.c.Fault, "%s%s: call with invalid argument %q ended in a runtime fault instead of a package panic: %s", e.c.Prec, e.c.Fam, e.c.Fault, r.Text)
		}
		for _, b := range e.bufs {
			for i := range b.expect {
				b.expect[i] = -1
			}
			if v := b.verify(false); v != nil {
				return vk.Failf("write-before-panic/"+e.c.Fault, "%s%s: invalid argument %q was rejected (%s) but an operand was modified first: %s", e.c.Prec, e.c.Fam, e.c.Fault, r.Text, v.Msg)
			}
		}
		return faultOK
	}
	if r.Outcome != vk.Returned {
		return vk.Failf("valid-call-"+r.Outcome.String()+"/"+e.c.Prec+e.c.Fam, "%s%s on valid arguments: %s", e.c.Prec, e.c.Fam, r.Text)
	}
	return nil
}

func (e *env[T]) verify(quick bool) *vk.Failure {
	for _, b := range e.bufs {
		if f := b.verify(quick); f != nil {
			return f
		}
	}
	return nil
}

// yInit prepares an output vector/matrix value: a NaN when beta == 0 (must be overwritten, never read).
func (e *env[T]) outInit(v complex128) complex128 {
	if e.be == 0 {
		return complex(math.NaN(), math.NaN())
	}
	return v
}

func cabs1(z complex128) float64 { return math.Abs(real(z)) + math.Abs(imag(z)) }

func runBLAS[T num](im *impl[T], c Case) (*vk.Failure, bool) {
	f := runBLAS1(im, c)
	if f == faultOK {
		return nil, true
	}
	hit := f != nil && (strings.HasPrefix(f.Key, "invalid-argument") || strings.HasPrefix(f.Key, "write-before-panic"))
	return f, hit
}

func runBLAS1[T num](im *impl[T], c Case) *vk.Failure {
	e := &env[T]{c: c, im: im, g: vk.NewSplitMix(c.Seed), cx: isComplex[T]()}
	e.lay = layout{pre: c.Pre, post: c.Post, tail: c.Tail, trim: c.Trim, guard: c.Guard}
	defer func() {
		for _, fr := range e.lay.frees {
			fr()
		}
	}()
	e.al = complex(float64(c.AlRe), float64(c.AlIm))
	e.be = complex(float64(c.BeRe), float64(c.BeIm))
	if !e.cx {
		e.al, e.be = complex(real(e.al), 0), complex(real(e.be), 0)
	}
	e.al, e.be = roundTo[T](e.al), roundTo[T](e.be)
	switch c.Fam {
	case "gemv", "gbmv":
		return e.gemv()
	case "trmv", "tbmv", "tpmv", "trsv", "tbsv", "tpsv":
		return e.trxv()
	case "hemv", "hbmv", "hpmv":
		return e.hemv()
	case "ger":
		return e.ger()
	case "her", "hpr", "her2", "hpr2":
		return e.her()
	case "gemm":
		return e.gemm()
	case "symm":
		return e.symm()
	case "syrk", "syr2k":
		return e.syrk()
	case "trmm", "trsm":
		return e.trxm()
	case "dot", "dsdot", "sdsdot", "nrm2", "asum", "iamax", "swap", "copy", "axpy", "scal", "rscal", "rot", "rotm":
		return e.level1()
	}
	panic("unknown family " + c.Fam)
}

// ---- Level 2 ---------------------------------------------------------------

func (e *env[T]) gemv() *vk.Failure {
	c := e.c
	m, n := c.M, c.N
	ta := b0(c.TA)
	A := e.mat(m, n)
	var ab *buf[T]
	var lda int
	if c.Fam == "gbmv" {
		bandLimit(A, c.KL, c.KU)
		lda = c.KL + c.KU + 1 + c.PadA
		ab = e.add(makeGB[T]("A", A, c.KL, c.KU, lda, &e.lay))
	} else {
		lda = max(1, n) + c.PadA
		ab = e.add(makeGe[T]("A", A, lda, &e.lay))
	}
	lenX, lenY := n, m
	if ta != 'N' {
		lenX, lenY = m, n
	}
	x := e.vec(lenX)
	y := e.vec(lenY)
	xb := e.add(makeVec[T]("x", x, c.IncX, &e.lay))
	yin := make([]complex128, lenY)
	for i := range y {
		yin[i] = e.outInit(y[i])
	}
	yb := e.add(makeVec[T]("y", yin, c.IncY, &e.lay))
	quick := m == 0 || n == 0 || (e.al == 0 && e.be == 1)
	for i := 0; i < lenY; i++ {
		var acc cacc
		for j := 0; j < lenX; j++ {
			a := A.opAt(ta, i, j)
			if a != 0 {
				acc.addProd(a, x[j])
			}
		}
		want := e.al * acc.val()
		S := cmplx.Abs(e.al) * acc.abs
		if e.be != 0 {
			want += e.be * y[i]
			S += cmplx.Abs(e.be) * cmplx.Abs(y[i])
		}
		yb.expectAt(vecPos(i, lenY, c.IncY), want, bound[T](acc.k+2, S))
	}
	if m == 0 || n == 0 {
		// standard BLAS quick return: nothing is touched
		for i := range yb.expect {
			yb.expect[i] = -1
		}
		for i := 0; i < lenY; i++ { // make the untouched check meaningful even for beta==0
			_ = i
		}
	}
	if f := e.call(func() {
		if c.Fam == "gbmv" {
			e.im.gbmv(e.fTr(c.TA, "badTA"), e.fDim(m, "m"), e.fDim(n, "n"), e.fDim(c.KL, "kl"), e.fDim(c.KU, "ku"), e.al, e.fS(ab, "shortA"), e.fLd(lda, "lda"), e.fS(xb, "shortX"), e.fInc(c.IncX, "incx"), e.be, e.fS(yb, "shortY"), e.fInc(c.IncY, "incy"))
		} else {
			e.im.gemv(e.fTr(c.TA, "badTA"), e.fDim(m, "m"), e.fDim(n, "n"), e.al, e.fS(ab, "shortA"), e.fLd(lda, "lda"), e.fS(xb, "shortX"), e.fInc(c.IncX, "incx"), e.be, e.fS(yb, "shortY"), e.fInc(c.IncY, "incy"))
		}
	}); f != nil {
		return f
	}
	return e.verify(quick)
}

// triStore renders a triangular logical matrix in the storage of the family.
func (e *env[T]) triStore(A cmat, kind byte, uplo byte, unit, herm bool) (*buf[T], int) {
	n := A.r
	switch kind {
	case 'r': // full storage
		lda := max(1, n) + e.c.PadA
		return e.add(makeTri[T]("A", A, uplo, lda, unit, herm, &e.lay)), lda
	case 'b':
		lda := e.c.K + 1 + e.c.PadA
		return e.add(makeTB[T]("A", A, uplo, e.c.K, lda, unit, herm, &e.lay)), lda
	default:
		return e.add(makePacked[T]("AP", A, uplo, unit, herm, &e.lay)), 0
	}
}

func (e *env[T]) trxv() *vk.Failure {
	c := e.c
	n := c.N
	uplo, ta, unit := b0(c.Uplo), b0(c.TA), c.Diag == "U"
	solve := c.Fam[2] == 's'
	kind := c.Fam[1] // r, b, p
	A := e.tri(n, uplo, unit, solve)
	if kind == 'b' {
		if uplo == 'U' {
			bandLimit(A, 0, c.K)
		} else {
			bandLimit(A, c.K, 0)
		}
	}
	ab, lda := e.triStore(A, kind, uplo, unit, false)
	x := e.vec(n)
	xb := e.add(makeVec[T]("x", x, c.IncX, &e.lay))
	if !solve {
		for i := 0; i < n; i++ {
			var acc cacc
			for j := 0; j < n; j++ {
				if a := A.opAt(ta, i, j); a != 0 {
					acc.addProd(a, x[j])
				}
			}
			xb.expectAt(vecPos(i, n, c.IncX), acc.val(), bound[T](acc.k+1, acc.abs))
		}
	} else {
		for i := 0; i < n; i++ {
			xb.expect[xb.off+vecPos(i, n, c.IncX)] = -2
		}
	}
	if f := e.call(func() {
		ul, tr, dg := e.fUl(), e.fTr(c.TA, "badTA"), e.fDg()
		switch c.Fam {
		case "trmv":
			e.im.trmv(ul, tr, dg, e.fDim(n, "n"), e.fS(ab, "shortA"), e.fLd(lda, "lda"), e.fS(xb, "shortX"), e.fInc(c.IncX, "incx"))
		case "trsv":
			e.im.trsv(ul, tr, dg, e.fDim(n, "n"), e.fS(ab, "shortA"), e.fLd(lda, "lda"), e.fS(xb, "shortX"), e.fInc(c.IncX, "incx"))
		case "tbmv":
			e.im.tbmv(ul, tr, dg, e.fDim(n, "n"), e.fDim(c.K, "k"), e.fS(ab, "shortA"), e.fLd(lda, "lda"), e.fS(xb, "shortX"), e.fInc(c.IncX, "incx"))
		case "tbsv":
			e.im.tbsv(ul, tr, dg, e.fDim(n, "n"), e.fDim(c.K, "k"), e.fS(ab, "shortA"), e.fLd(lda, "lda"), e.fS(xb, "shortX"), e.fInc(c.IncX, "incx"))
		case "tpmv":
			e.im.tpmv(ul, tr, dg, e.fDim(n, "n"), e.fS(ab, "shortA"), e.fS(xb, "shortX"), e.fInc(c.IncX, "incx"))
		case "tpsv":
			e.im.tpsv(ul, tr, dg, e.fDim(n, "n"), e.fS(ab, "shortA"), e.fS(xb, "shortX"), e.fInc(c.IncX, "incx"))
		}
	}); f != nil {
		return f
	}
	if solve {
		// componentwise backward error: |b - op(A) xhat| <= gamma (|op(A)||xhat| + |b|)
		xh := make([]complex128, n)
		for i := range xh {
			xh[i] = xb.get(vecPos(i, n, c.IncX))
			if hasNaN(xh[i]) || cmplx.IsInf(xh[i]) {
				return vk.Failf("solve-nonfinite", "%s%s: x[%d]=%v", c.Prec, c.Fam, i, xh[i])
			}
		}
		for i := 0; i < n; i++ {
			var acc cacc
			for j := 0; j < n; j++ {
				if a := A.opAt(ta, i, j); a != 0 {
					acc.addProd(a, xh[j])
				}
			}
			res := cmplx.Abs(x[i] - acc.val())
			tol := bound[T](n+2, acc.abs+cmplx.Abs(x[i]))
			if res > tol {
				return vk.Failf("solve-residual", "%s%s: row %d residual %g exceeds %g", c.Prec, c.Fam, i, res, tol)
			}
		}
	}
	return e.verify(false)
}

func (e *env[T]) hemv() *vk.Failure {
	c := e.c
	n := c.N
	uplo := b0(c.Uplo)
	A := e.herm(n, e.cx)
	kind := byte('r')
	switch c.Fam {
	case "hbmv":
		kind = 'b'
		bandLimit(A, c.K, c.K)
	case "hpmv":
		kind = 'p'
	}
	ab, lda := e.triStore(A, kind, uplo, false, e.cx)
	x, y := e.vec(n), e.vec(n)
	xb := e.add(makeVec[T]("x", x, c.IncX, &e.lay))
	yin := make([]complex128, n)
	for i := range y {
		yin[i] = e.outInit(y[i])
	}
	yb := e.add(makeVec[T]("y", yin, c.IncY, &e.lay))
	for i := 0; i < n; i++ {
		var acc cacc
		for j := 0; j < n; j++ {
			if a := A.at(i, j); a != 0 {
				acc.addProd(a, x[j])
			}
		}
		want := e.al * acc.val()
		S := cmplx.Abs(e.al) * acc.abs
		if e.be != 0 {
			want += e.be * y[i]
			S += cmplx.Abs(e.be) * cmplx.Abs(y[i])
		}
		yb.expectAt(vecPos(i, n, c.IncY), want, bound[T](acc.k+2, S))
	}
	quick := n == 0 || (e.al == 0 && e.be == 1)
	if f := e.call(func() {
		ul := e.fUl()
		switch c.Fam {
		case "hemv":
			e.im.hemv(ul, e.fDim(n, "n"), e.al, e.fS(ab, "shortA"), e.fLd(lda, "lda"), e.fS(xb, "shortX"), e.fInc(c.IncX, "incx"), e.be, e.fS(yb, "shortY"), e.fInc(c.IncY, "incy"))
		case "hbmv":
			e.im.hbmv(ul, e.fDim(n, "n"), e.fDim(c.K, "k"), e.al, e.fS(ab, "shortA"), e.fLd(lda, "lda"), e.fS(xb, "shortX"), e.fInc(c.IncX, "incx"), e.be, e.fS(yb, "shortY"), e.fInc(c.IncY, "incy"))
		case "hpmv":
			e.im.hpmv(ul, e.fDim(n, "n"), e.al, e.fS(ab, "shortA"), e.fS(xb, "shortX"), e.fInc(c.IncX, "incx"), e.be, e.fS(yb, "shortY"), e.fInc(c.IncY, "incy"))
		}
	}); f != nil {
		return f
	}
	return e.verify(quick)
}

func (e *env[T]) ger() *vk.Failure {
	c := e.c
	m, n := c.M, c.N
	A := e.mat(m, n)
	lda := max(1, n) + c.PadA
	ab := e.add(makeGe[T]("A", A, lda, &e.lay))
	x, y := e.vec(m), e.vec(n)
	xb := e.add(makeVec[T]("x", x, c.IncX, &e.lay))
	yb := e.add(makeVec[T]("y", y, c.IncY, &e.lay))
	for i := 0; i < m; i++ {
		for j := 0; j < n; j++ {
			yj := y[j]
			if c.Herm {
				yj = cmplx.Conj(yj)
			}
			t := e.al * x[i] * yj
			ab.expectAt(i*lda+j, A.at(i, j)+t, bound[T](3, cmplx.Abs(A.at(i, j))+cmplx.Abs(t)))
		}
	}
	quick := m == 0 || n == 0 || e.al == 0
	if f := e.call(func() {
		if c.Herm {
			e.im.gerc(e.fDim(m, "m"), e.fDim(n, "n"), e.al, e.fS(xb, "shortX"), e.fInc(c.IncX, "incx"), e.fS(yb, "shortY"), e.fInc(c.IncY, "incy"), e.fS(ab, "shortA"), e.fLd(lda, "lda"))
		} else {
			e.im.geru(e.fDim(m, "m"), e.fDim(n, "n"), e.al, e.fS(xb, "shortX"), e.fInc(c.IncX, "incx"), e.fS(yb, "shortY"), e.fInc(c.IncY, "incy"), e.fS(ab, "shortA"), e.fLd(lda, "lda"))
		}
	}); f != nil {
		return f
	}
	return e.verify(quick)
}

func (e *env[T]) her() *vk.Failure {
	c := e.c
	n := c.N
	uplo := b0(c.Uplo)
	A := e.herm(n, e.cx)
	packed := c.Fam == "hpr" || c.Fam == "hpr2"
	two := c.Fam == "her2" || c.Fam == "hpr2"
	kind := byte('r')
	if packed {
		kind = 'p'
	}
	ab, lda := e.triStore(A, kind, uplo, false, e.cx)
	al := e.al
	if !two {
		al = complex(real(al), 0) // her/hpr/syr/spr take a real alpha
	}
	x := e.vec(n)
	xb := e.add(makeVec[T]("x", x, c.IncX, &e.lay))
	var y []complex128
	var yb *buf[T]
	if two {
		y = e.vec(n)
		yb = e.add(makeVec[T]("y", y, c.IncY, &e.lay))
	}
	cj := func(z complex128) complex128 {
		if e.cx {
			return cmplx.Conj(z)
		}
		return z
	}
	ab.hermDiag = map[int]bool{}
	for i := 0; i < n; i++ {
		for j := 0; j < n; j++ {
			if !inTri(uplo, i, j) {
				continue
			}
			var t complex128
			if two {
				t = al*x[i]*cj(y[j]) + cj(al)*y[i]*cj(x[j])
			} else {
				t = al * x[i] * cj(x[j])
			}
			idx := i*lda + j
			if packed {
				idx = packedIdx(uplo, n, i, j)
			}
			S := cmplx.Abs(A.at(i, j)) + 2*cmplx.Abs(al)*(cmplx.Abs(x[i])+1)*(cmplx.Abs(x[j])+1)
			if two {
				S = cmplx.Abs(A.at(i, j)) + 2*cmplx.Abs(al)*(cmplx.Abs(x[i])*cmplx.Abs(y[j])+cmplx.Abs(y[i])*cmplx.Abs(x[j]))
			} else {
				S = cmplx.Abs(A.at(i, j)) + cmplx.Abs(al)*cmplx.Abs(x[i])*cmplx.Abs(x[j])
			}
			ab.expectAt(idx, A.at(i, j)+t, bound[T](4, S))
			if e.cx && i == j {
				ab.hermDiag[ab.off+idx] = true
			}
		}
	}
	quick := n == 0 || al == 0
	if f := e.call(func() {
		ul := e.fUl()
		switch c.Fam {
		case "her":
			e.im.her(ul, e.fDim(n, "n"), real(al), e.fS(xb, "shortX"), e.fInc(c.IncX, "incx"), e.fS(ab, "shortA"), e.fLd(lda, "lda"))
		case "hpr":
			e.im.hpr(ul, e.fDim(n, "n"), real(al), e.fS(xb, "shortX"), e.fInc(c.IncX, "incx"), e.fS(ab, "shortA"))
		case "her2":
			e.im.her2(ul, e.fDim(n, "n"), al, e.fS(xb, "shortX"), e.fInc(c.IncX, "incx"), e.fS(yb, "shortY"), e.fInc(c.IncY, "incy"), e.fS(ab, "shortA"), e.fLd(lda, "lda"))
		case "hpr2":
			e.im.hpr2(ul, e.fDim(n, "n"), al, e.fS(xb, "shortX"), e.fInc(c.IncX, "incx"), e.fS(yb, "shortY"), e.fInc(c.IncY, "incy"), e.fS(ab, "shortA"))
		}
	}); f != nil {
		return f
	}
	return e.verify(quick)
}

// ---- Level 3 ---------------------------------------------------------------

func (e *env[T]) gemm() *vk.Failure {
	c := e.c
	m, n, k := c.M, c.N, c.K
	ta, tb := b0(c.TA), b0(c.TB)
	var A, B cmat
	if ta == 'N' {
		A = e.mat(m, k)
	} else {
		A = e.mat(k, m)
	}
	if tb == 'N' {
		B = e.mat(k, n)
	} else {
		B = e.mat(n, k)
	}
	C := e.mat(m, n)
	lda, ldb, ldc := max(1, A.c)+c.PadA, max(1, B.c)+c.PadB, max(1, n)+c.PadC
	ab := e.add(makeGe[T]("A", A, lda, &e.lay))
	bb := e.add(makeGe[T]("B", B, ldb, &e.lay))
	Cin := newCmat(m, n)
	for i := range C.d {
		Cin.d[i] = e.outInit(C.d[i])
	}
	cb := e.add(makeGe[T]("C", Cin, ldc, &e.lay))
	// op(B) columns gathered once
	for i := 0; i < m; i++ {
		for j := 0; j < n; j++ {
			var acc cacc
			for l := 0; l < k; l++ {
				acc.addProd(A.opAt(ta, i, l), B.opAt(tb, l, j))
			}
			want := e.al * acc.val()
			S := cmplx.Abs(e.al) * acc.abs
			if e.be != 0 {
				want += e.be * C.at(i, j)
				S += cmplx.Abs(e.be) * cmplx.Abs(C.at(i, j))
			}
			cb.expectAt(i*ldc+j, want, bound[T](k+2, S))
		}
	}
	quick := m == 0 || n == 0 || ((e.al == 0 || k == 0) && e.be == 1)
	if f := e.call(func() {
		e.im.gemm(e.fTr(c.TA, "badTA"), e.fTr(c.TB, "badTB"), e.fDim(m, "m"), e.fDim(n, "n"), e.fDim(k, "k"), e.al, e.fS(ab, "shortA"), e.fLd(lda, "lda"), e.fS(bb, "shortB"), e.fLd(ldb, "ldb"), e.be, e.fS(cb, "shortC"), e.fLd(ldc, "ldc"))
	}); f != nil {
		return f
	}
	return e.verify(quick)
}

func (e *env[T]) symm() *vk.Failure {
	c := e.c
	m, n := c.M, c.N
	uplo := b0(c.Uplo)
	left := c.Side != "R"
	ka := n
	if left {
		ka = m
	}
	hermitian := c.Herm && e.cx
	A := e.herm(ka, hermitian)
	B, C := e.mat(m, n), e.mat(m, n)
	lda, ldb, ldc := max(1, ka)+c.PadA, max(1, n)+c.PadB, max(1, n)+c.PadC
	ab := e.add(makeTri[T]("A", A, uplo, lda, false, hermitian, &e.lay))
	bb := e.add(makeGe[T]("B", B, ldb, &e.lay))
	Cin := newCmat(m, n)
	for i := range C.d {
		Cin.d[i] = e.outInit(C.d[i])
	}
	cb := e.add(makeGe[T]("C", Cin, ldc, &e.lay))
	for i := 0; i < m; i++ {
		for j := 0; j < n; j++ {
			var acc cacc
			if left {
				for l := 0; l < m; l++ {
					acc.addProd(A.at(i, l), B.at(l, j))
				}
			} else {
				for l := 0; l < n; l++ {
					acc.addProd(B.at(i, l), A.at(l, j))
				}
			}
			want := e.al * acc.val()
			S := cmplx.Abs(e.al) * acc.abs
			if e.be != 0 {
				want += e.be * C.at(i, j)
				S += cmplx.Abs(e.be) * cmplx.Abs(C.at(i, j))
			}
			cb.expectAt(i*ldc+j, want, bound[T](acc.k+2, S))
		}
	}
	quick := m == 0 || n == 0 || (e.al == 0 && e.be == 1)
	if f := e.call(func() {
		if hermitian {
			e.im.hemm(e.fSd(), e.fUl(), e.fDim(m, "m"), e.fDim(n, "n"), e.al, e.fS(ab, "shortA"), e.fLd(lda, "lda"), e.fS(bb, "shortB"), e.fLd(ldb, "ldb"), e.be, e.fS(cb, "shortC"), e.fLd(ldc, "ldc"))
		} else {
			e.im.symm(e.fSd(), e.fUl(), e.fDim(m, "m"), e.fDim(n, "n"), e.al, e.fS(ab, "shortA"), e.fLd(lda, "lda"), e.fS(bb, "shortB"), e.fLd(ldb, "ldb"), e.be, e.fS(cb, "shortC"), e.fLd(ldc, "ldc"))
		}
	}); f != nil {
		return f
	}
	return e.verify(quick)
}

func (e *env[T]) syrk() *vk.Failure {
	c := e.c
	n, k := c.N, c.K
	uplo, t := b0(c.Uplo), b0(c.TA)
	two := c.Fam == "syr2k"
	hermitian := c.Herm && e.cx
	al, be := e.al, e.be
	if hermitian {
		be = complex(real(be), 0)
		if !two {
			al = complex(real(al), 0)
		}
	}
	var A, B cmat
	if t == 'N' {
		A = e.mat(n, k)
	} else {
		A = e.mat(k, n)
	}
	lda := max(1, A.c) + c.PadA
	ab := e.add(makeGe[T]("A", A, lda, &e.lay))
	var bb *buf[T]
	ldb := 0
	if two {
		B = e.mat(A.r, A.c)
		ldb = max(1, B.c) + c.PadB
		bb = e.add(makeGe[T]("B", B, ldb, &e.lay))
	}
	C := e.herm(n, hermitian)
	ldc := max(1, n) + c.PadC
	Cin := newCmat(n, n)
	for i := range C.d {
		Cin.d[i] = C.d[i]
		if be == 0 {
			Cin.d[i] = complex(math.NaN(), math.NaN())
		}
	}
	cb := e.add(makeTri[T]("C", Cin, uplo, ldc, false, hermitian && be != 0, &e.lay))
	cb.hermDiag = map[int]bool{}
	// X(i,l) = op-row i of A: A[i,l] for N, A[l,i] for T/C
	row := func(M cmat, i, l int) complex128 {
		if t == 'N' {
			return M.at(i, l)
		}
		v := M.at(l, i)
		if t == 'C' && e.cx {
			return cmplx.Conj(v)
		}
		return v
	}
	cj := func(z complex128) complex128 {
		if hermitian {
			return cmplx.Conj(z)
		}
		return z
	}
	// C = alpha*X*Y^H' + ... where X = op rows. For t=='N': C = alpha A A^T (or A A^H);
	// for t=='T'/'C': C = alpha A^T A (or A^H A): with row(i,l) = op(A)[i,l] the
	// element is sum_l row(A,i,l)*cj'(row(A,j,l)) where for the transposed case the
	// conjugation has already been applied by row when hermitian.
	for i := 0; i < n; i++ {
		for j := 0; j < n; j++ {
			if !inTri(uplo, i, j) {
				continue
			}
			var acc, acc2 cacc
			for l := 0; l < k; l++ {
				var ail, ajl complex128
				if t == 'N' {
					ail, ajl = A.at(i, l), cj(A.at(j, l))
				} else {
					ail, ajl = cj(A.at(l, i)), A.at(l, j)
				}
				if !two {
					acc.addProd(ail, ajl)
					continue
				}
				var bil, bjl complex128
				if t == 'N' {
					bil, bjl = B.at(i, l), cj(B.at(j, l))
				} else {
					bil, bjl = cj(B.at(l, i)), B.at(l, j)
				}
				acc.addProd(ail, bjl)  // A B^H  (or A^H B)
				acc2.addProd(bil, ajl) // B A^H  (or B^H A)
			}
			_ = row
			want := al * acc.val()
			S := cmplx.Abs(al) * acc.abs
			kk := acc.k
			if two {
				want += cj(al) * acc2.val()
				S += cmplx.Abs(al) * acc2.abs
				kk += acc2.k
			}
			cij := C.at(i, j)
			if be != 0 {
				want += be * cij
				S += cmplx.Abs(be) * cmplx.Abs(cij)
			}
			idx := i*ldc + j
			cb.expectAt(idx, want, bound[T](kk+2, S))
			if hermitian && i == j {
				cb.hermDiag[cb.off+idx] = true
			}
		}
	}
	quick := n == 0 || ((al == 0 || k == 0) && be == 1)
	if f := e.call(func() {
		ul, tr := e.fUl(), e.fTr(c.TA, "badTA")
		switch {
		case !two && hermitian:
			e.im.herk(ul, tr, e.fDim(n, "n"), e.fDim(k, "k"), real(al), e.fS(ab, "shortA"), e.fLd(lda, "lda"), real(be), e.fS(cb, "shortC"), e.fLd(ldc, "ldc"))
		case !two:
			e.im.syrk(ul, tr, e.fDim(n, "n"), e.fDim(k, "k"), al, e.fS(ab, "shortA"), e.fLd(lda, "lda"), be, e.fS(cb, "shortC"), e.fLd(ldc, "ldc"))
		case hermitian:
			e.im.her2k(ul, tr, e.fDim(n, "n"), e.fDim(k, "k"), al, e.fS(ab, "shortA"), e.fLd(lda, "lda"), e.fS(bb, "shortB"), e.fLd(ldb, "ldb"), real(be), e.fS(cb, "shortC"), e.fLd(ldc, "ldc"))
		default:
			e.im.syr2k(ul, tr, e.fDim(n, "n"), e.fDim(k, "k"), al, e.fS(ab, "shortA"), e.fLd(lda, "lda"), e.fS(bb, "shortB"), e.fLd(ldb, "ldb"), be, e.fS(cb, "shortC"), e.fLd(ldc, "ldc"))
		}
	}); f != nil {
		return f
	}
	return e.verify(quick)
}

func (e *env[T]) trxm() *vk.Failure {
	c := e.c
	m, n := c.M, c.N
	uplo, ta, unit := b0(c.Uplo), b0(c.TA), c.Diag == "U"
	left := c.Side != "R"
	solve := c.Fam == "trsm"
	ka := n
	if left {
		ka = m
	}
	A := e.tri(ka, uplo, unit, solve)
	B := e.mat(m, n)
	lda, ldb := max(1, ka)+c.PadA, max(1, n)+c.PadB
	ab := e.add(makeTri[T]("A", A, uplo, lda, unit, false, &e.lay))
	bb := e.add(makeGe[T]("B", B, ldb, &e.lay))
	if !solve {
		for i := 0; i < m; i++ {
			for j := 0; j < n; j++ {
				var acc cacc
				if left {
					for l := 0; l < m; l++ {
						if a := A.opAt(ta, i, l); a != 0 {
							acc.addProd(a, B.at(l, j))
						}
					}
				} else {
					for l := 0; l < n; l++ {
						if a := A.opAt(ta, l, j); a != 0 {
							acc.addProd(B.at(i, l), a)
						}
					}
				}
				bb.expectAt(i*ldb+j, e.al*acc.val(), bound[T](acc.k+2, cmplx.Abs(e.al)*acc.abs))
			}
		}
	} else {
		for i := 0; i < m; i++ {
			for j := 0; j < n; j++ {
				bb.expect[bb.off+i*ldb+j] = -2
			}
		}
	}
	if f := e.call(func() {
		if solve {
			e.im.trsm(e.fSd(), e.fUl(), e.fTr(c.TA, "badTA"), e.fDg(), e.fDim(m, "m"), e.fDim(n, "n"), e.al, e.fS(ab, "shortA"), e.fLd(lda, "lda"), e.fS(bb, "shortB"), e.fLd(ldb, "ldb"))
		} else {
			e.im.trmm(e.fSd(), e.fUl(), e.fTr(c.TA, "badTA"), e.fDg(), e.fDim(m, "m"), e.fDim(n, "n"), e.al, e.fS(ab, "shortA"), e.fLd(lda, "lda"), e.fS(bb, "shortB"), e.fLd(ldb, "ldb"))
		}
	}); f != nil {
		return f
	}
	if solve && m > 0 && n > 0 {
		X := newCmat(m, n)
		for i := 0; i < m; i++ {
			for j := 0; j < n; j++ {
				v := bb.get(i*ldb + j)
				if hasNaN(v) || cmplx.IsInf(v) {
					return vk.Failf("solve-nonfinite", "%strsm: X[%d,%d]=%v", c.Prec, i, j, v)
				}
				X.set(i, j, v)
			}
		}
		for i := 0; i < m; i++ {
			for j := 0; j < n; j++ {
				var acc cacc
				if left {
					for l := 0; l < m; l++ {
						if a := A.opAt(ta, i, l); a != 0 {
							acc.addProd(a, X.at(l, j))
						}
					}
				} else {
					for l := 0; l < n; l++ {
						if a := A.opAt(ta, l, j); a != 0 {
							acc.addProd(X.at(i, l), a)
						}
					}
				}
				rhs := e.al * B.at(i, j)
				res := cmplx.Abs(rhs - acc.val())
				tol := bound[T](ka+3, acc.abs+cmplx.Abs(rhs))
				if res > tol {
					return vk.Failf("solve-residual", "%strsm: element (%d,%d) residual %g exceeds %g", c.Prec, i, j, res, tol)
				}
			}
		}
	}
	return e.verify(false)
}

// ---- Level 1 ---------------------------------------------------------------

func (e *env[T]) level1() *vk.Failure {
	c := e.c
	n := c.N
	u := unitRoundoff[T]()
	x := e.vec(n)
	xb := e.add(makeVec[T]("x", x, c.IncX, &e.lay))
	single := false
	switch c.Fam {
	case "nrm2", "asum", "iamax", "scal", "rscal":
		single = true
	}
	var y []complex128
	var yb *buf[T]
	if !single {
		y = e.vec(n)
		yb = e.add(makeVec[T]("y", y, c.IncY, &e.lay))
	}
	negSingle := single && c.IncX < 0
	if negSingle && c.Fault != "incx" {
		// documented: these routines return 0 / -1 / do nothing for a negative
		// increment, before any other argument is looked at
		e.c.Fault = ""
	}
	var fret float64
	var cret complex128
	var iret int
	h := [4]float64{float64(c.AlRe), float64(c.AlIm), float64(c.BeRe), float64(c.BeIm)}
	rc, rs := float64(c.AlRe), float64(c.BeRe) // rot: c, s
	flag := c.K                                // rotm flag -2..1
	if !e.cx {
		for i := range h {
			h[i] = real(roundTo[T](complex(h[i], 0)))
		}
		rc, rs = real(roundTo[T](complex(rc, 0))), real(roundTo[T](complex(rs, 0)))
	}
	sdsAlpha := float32(real(e.al))
	// expectations
	switch c.Fam {
	case "swap":
		for i := 0; i < n; i++ {
			xb.expectAt(vecPos(i, n, c.IncX), y[i], 0)
			yb.expectAt(vecPos(i, n, c.IncY), x[i], 0)
		}
	case "copy":
		for i := 0; i < n; i++ {
			yb.expectAt(vecPos(i, n, c.IncY), x[i], 0)
		}
	case "axpy":
		for i := 0; i < n; i++ {
			t := e.al * x[i]
			yb.expectAt(vecPos(i, n, c.IncY), y[i]+t, bound[T](2, cmplx.Abs(y[i])+cmplx.Abs(t)))
		}
	case "scal":
		if !negSingle {
			for i := 0; i < n; i++ {
				t := e.al * x[i]
				xb.expectAt(vecPos(i, n, c.IncX), t, bound[T](1, cmplx.Abs(t)))
			}
		}
	case "rscal":
		if !negSingle {
			for i := 0; i < n; i++ {
				t := complex(real(e.al), 0) * x[i]
				xb.expectAt(vecPos(i, n, c.IncX), t, bound[T](1, cmplx.Abs(t)))
			}
		}
	case "rot":
		for i := 0; i < n; i++ {
			nx := complex(rc, 0)*x[i] + complex(rs, 0)*y[i]
			ny := complex(rc, 0)*y[i] - complex(rs, 0)*x[i]
			S := math.Abs(rc)*cmplx.Abs(x[i]) + math.Abs(rs)*cmplx.Abs(y[i])
			S2 := math.Abs(rc)*cmplx.Abs(y[i]) + math.Abs(rs)*cmplx.Abs(x[i])
			xb.expectAt(vecPos(i, n, c.IncX), nx, bound[T](2, S))
			yb.expectAt(vecPos(i, n, c.IncY), ny, bound[T](2, S2))
		}
	case "rotm":
		var h11, h12, h21, h22 float64
		switch flag {
		case -2:
			h11, h12, h21, h22 = 1, 0, 0, 1
		case -1:
			h11, h21, h12, h22 = h[0], h[1], h[2], h[3]
		case 0:
			h11, h21, h12, h22 = 1, h[1], h[2], 1
		case 1:
			h11, h21, h12, h22 = h[0], -1, 1, h[3]
		}
		for i := 0; i < n; i++ {
			if flag == -2 {
				break // identity: nothing may change
			}
			nx := complex(h11, 0)*x[i] + complex(h12, 0)*y[i]
			ny := complex(h21, 0)*x[i] + complex(h22, 0)*y[i]
			xb.expectAt(vecPos(i, n, c.IncX), nx, bound[T](2, math.Abs(h11)*cmplx.Abs(x[i])+math.Abs(h12)*cmplx.Abs(y[i])))
			yb.expectAt(vecPos(i, n, c.IncY), ny, bound[T](2, math.Abs(h21)*cmplx.Abs(x[i])+math.Abs(h22)*cmplx.Abs(y[i])))
		}
	}
	if f := e.call(func() {
		switch c.Fam {
		case "dot":
			if c.Herm {
				cret = e.im.dotc(e.fDim(n, "n"), e.fS(xb, "shortX"), e.fInc(c.IncX, "incx"), e.fS(yb, "shortY"), e.fInc(c.IncY, "incy"))
			} else {
				cret = e.im.dotu(e.fDim(n, "n"), e.fS(xb, "shortX"), e.fInc(c.IncX, "incx"), e.fS(yb, "shortY"), e.fInc(c.IncY, "incy"))
			}
		case "dsdot":
			fret = e.im.dsdot(e.fDim(n, "n"), e.fS(xb, "shortX"), e.fInc(c.IncX, "incx"), e.fS(yb, "shortY"), e.fInc(c.IncY, "incy"))
		case "sdsdot":
			fret = e.im.sdsdot(e.fDim(n, "n"), sdsAlpha, e.fS(xb, "shortX"), e.fInc(c.IncX, "incx"), e.fS(yb, "shortY"), e.fInc(c.IncY, "incy"))
		case "nrm2":
			fret = e.im.nrm2(e.fDim(n, "n"), e.fS(xb, "shortX"), e.fInc(c.IncX, "incx"))
		case "asum":
			fret = e.im.asum(e.fDim(n, "n"), e.fS(xb, "shortX"), e.fInc(c.IncX, "incx"))
		case "iamax":
			iret = e.im.iamax(e.fDim(n, "n"), e.fS(xb, "shortX"), e.fInc(c.IncX, "incx"))
		case "swap":
			e.im.swap(e.fDim(n, "n"), e.fS(xb, "shortX"), e.fInc(c.IncX, "incx"), e.fS(yb, "shortY"), e.fInc(c.IncY, "incy"))
		case "copy":
			e.im.copy(e.fDim(n, "n"), e.fS(xb, "shortX"), e.fInc(c.IncX, "incx"), e.fS(yb, "shortY"), e.fInc(c.IncY, "incy"))
		case "axpy":
			e.im.axpy(e.fDim(n, "n"), e.al, e.fS(xb, "shortX"), e.fInc(c.IncX, "incx"), e.fS(yb, "shortY"), e.fInc(c.IncY, "incy"))
		case "scal":
			e.im.scal(e.fDim(n, "n"), e.al, e.fS(xb, "shortX"), e.fInc(c.IncX, "incx"))
		case "rscal":
			e.im.rscal(e.fDim(n, "n"), real(e.al), e.fS(xb, "shortX"), e.fInc(c.IncX, "incx"))
		case "rot":
			e.im.rot(e.fDim(n, "n"), e.fS(xb, "shortX"), e.fInc(c.IncX, "incx"), e.fS(yb, "shortY"), e.fInc(c.IncY, "incy"), rc, rs)
		case "rotm":
			e.im.rotm(e.fDim(n, "n"), e.fS(xb, "shortX"), e.fInc(c.IncX, "incx"), e.fS(yb, "shortY"), e.fInc(c.IncY, "incy"), flag, h)
		}
	}); f != nil {
		return f
	}
	// scalar results
	switch c.Fam {
	case "dot", "dsdot", "sdsdot":
		var acc cacc
		for i := 0; i < n; i++ {
			xi := x[i]
			if c.Herm {
				xi = cmplx.Conj(xi)
			}
			acc.addProd(xi, y[i])
		}
		want := acc.val()
		S := acc.abs
		got := cret
		if c.Fam != "dot" {
			got = complex(fret, 0)
		}
		if c.Fam == "sdsdot" {
			want += complex(float64(sdsAlpha), 0)
			S += math.Abs(float64(sdsAlpha))
		}
		tol := bound[T](acc.k+2, S)
		if hasNaN(got) || cmplx.Abs(got-want) > tol {
			return vk.Failf("dot-mismatch", "%s%s n=%d incX=%d incY=%d got %v want %v (tol %g)", c.Prec, c.Fam, n, c.IncX, c.IncY, got, want, tol)
		}
	case "nrm2":
		var acc vk.DD
		for _, v := range x {
			acc.AddProd(real(v), real(v))
			acc.AddProd(imag(v), imag(v))
		}
		want := math.Sqrt(acc.Float())
		if negSingle {
			want = 0
		}
		tol := 2 * float64(2*n+4) * u * want
		if math.IsNaN(fret) || math.Abs(fret-want) > tol {
			return vk.Failf("nrm2-mismatch", "%snrm2 n=%d incX=%d got %v want %v (tol %g)", c.Prec, n, c.IncX, fret, want, tol)
		}
	case "asum":
		var acc vk.DD
		for _, v := range x {
			acc.Add(math.Abs(real(v)))
			acc.Add(math.Abs(imag(v)))
		}
		want := acc.Float()
		if negSingle {
			want = 0
		}
		tol := 2 * float64(2*n+4) * u * want
		if math.IsNaN(fret) || math.Abs(fret-want) > tol {
			return vk.Failf("asum-mismatch", "%sasum n=%d incX=%d got %v want %v (tol %g)", c.Prec, n, c.IncX, fret, want, tol)
		}
	case "iamax":
		want := -1
		best := -1.0
		for i, v := range x {
			if a := cabs1(v); a > best {
				best, want = a, i
			}
		}
		if negSingle {
			want = -1
		}
		if iret != want {
			return vk.Failf("iamax-mismatch", "%samax n=%d incX=%d got %d want %d (values %v)", c.Prec, n, c.IncX, iret, want, x)
		}
	}
	return e.verify(false)
}

// ---- dispatch, generator -----------------------------------------------------

func Check(c Case) *vk.Failure {
	f, _ := CheckFault(c)
	return f
}

// CheckFault runs the case and also reports whether the injected invalid
// argument (Case.Fault) was applicable to the routine and actually passed.
func CheckFault(c Case) (*vk.Failure, bool) {
	switch c.Prec {
	case "S":
		return runBLAS(implS(), c)
	case "D":
		return runBLAS(implD(), c)
	case "C":
		return runBLAS(implC(), c)
	default:
		return runBLAS(implZ(), c)
	}
}

func FamLevel(f string) string {
	switch f {
	case "gemm", "symm", "syrk", "syr2k", "trmm", "trsm":
		return "l3"
	case "dot", "dsdot", "sdsdot", "nrm2", "asum", "iamax", "swap", "copy", "axpy", "scal", "rscal", "rot", "rotm":
		return "l1"
	}
	return "l2"
}

func NonTrivial(c Case) {
	lvl := FamLevel(c.Fam)
	big := false
	switch lvl {
	case "l1":
		big = c.N >= 2
	case "l2":
		big = c.N >= 2 && (c.M >= 2 || (c.Fam != "gemv" && c.Fam != "gbmv" && c.Fam != "ger"))
	default:
		big = c.N >= 2 && (c.K >= 2 || c.M >= 2)
	}
	if !big {
		return
	}
	odd := c.N%4 != 0 || c.M%4 != 0 || c.K%4 != 0
	if (c.IncX != 1 && c.IncX != 0) || (c.IncY != 1 && c.IncY != 0) || c.PadA+c.PadB+c.PadC > 0 || c.TA == "T" || c.TA == "C" || c.TB == "T" || c.TB == "C" || c.Uplo == "L" || c.Diag == "U" || c.Side == "R" || c.Herm || odd {
		sc := func(re, im vk.F) string {
			switch {
			case re == 0 && im == 0:
				return "0"
			case re == 1 && im == 0:
				return "1"
			}
			return "x"
		}
		vk.NonTrivial(c.Prec, c.Fam, c.TA, c.TB, c.Uplo, c.Diag, c.Side, c.Herm, c.M, c.N, c.K, c.KL, c.KU, c.IncX, c.IncY, c.PadA, c.PadB, c.PadC, sc(c.AlRe, c.AlIm), sc(c.BeRe, c.BeIm))
	}
}

var (
	L1Fams = []string{"dot", "nrm2", "asum", "iamax", "swap", "copy", "axpy", "scal", "rscal", "rot", "rotm", "dsdot", "sdsdot"}
	L2Fams = []string{"gemv", "gbmv", "trmv", "tbmv", "tpmv", "trsv", "tbsv", "tpsv", "hemv", "hbmv", "hpmv", "ger", "her", "hpr", "her2", "hpr2"}
	L3Fams = []string{"gemm", "symm", "syrk", "syr2k", "trmm", "trsm"}
	dimBnd = []int{2, 4, 5, 8, 9, 16, 17, 33, 64, 65, 128, 129}
)

func famValid(prec, fam string) bool {
	cx := prec == "C" || prec == "Z"
	switch fam {
	case "rot", "rotm":
		return !cx
	case "rscal":
		return cx
	case "dsdot", "sdsdot":
		return prec == "S"
	}
	return true
}

func drawScalar(t *rapid.T, label string, cx bool) (vk.F, vk.F) {
	re := vk.Scalar(t, label+"_re")
	im := 0.0
	if cx && rapid.IntRange(0, 2).Draw(t, label+"_cx") > 0 {
		im = vk.Scalar(t, label+"_im")
	}
	return vk.F(re), vk.F(im)
}

func Draw(t *rapid.T, fams []string, hi int) Case {
	var c Case
	c.Prec = rapid.SampledFrom([]string{"S", "D", "C", "Z"}).Draw(t, "prec")
	cx := c.Prec == "C" || c.Prec == "Z"
	for {
		c.Fam = rapid.SampledFrom(fams).Draw(t, "fam")
		if famValid(c.Prec, c.Fam) {
			break
		}
	}
	c.Seed = rapid.Uint64().Draw(t, "seed")
	c.Pre = rapid.IntRange(0, 3).Draw(t, "pre")
	c.Post = rapid.IntRange(0, 3).Draw(t, "post")
	c.Tail = rapid.SampledFrom([]int{0, 0, 1, 3}).Draw(t, "tail")
	c.Trim = rapid.Bool().Draw(t, "trim")
	c.AlRe, c.AlIm = drawScalar(t, "alpha", cx)
	c.BeRe, c.BeIm = drawScalar(t, "beta", cx)
	tr := []string{"N", "T", "C"}
	lvl := FamLevel(c.Fam)
	switch lvl {
	case "l1":
		c.N = vk.Dim(t, "n", 0, hi, dimBnd...)
		c.IncX = vk.Inc(t, "incx")
		c.IncY = vk.Inc(t, "incy")
		switch c.Fam {
		case "nrm2", "asum", "iamax", "scal", "rscal":
			// the single-vector routines document that a negative increment
			// makes them return 0 / -1 / do nothing; sample that rarely
			if c.IncX < 0 && rapid.IntRange(0, 4).Draw(t, "keepneg") != 0 {
				c.IncX = -c.IncX
			}
		case "dot":
			c.Herm = cx && rapid.Bool().Draw(t, "conj")
		case "rotm":
			c.K = rapid.IntRange(-2, 1).Draw(t, "flag")
		}
	case "l2":
		c.N = vk.Dim(t, "n", 0, hi, dimBnd...)
		c.IncX = vk.Inc(t, "incx")
		c.IncY = vk.Inc(t, "incy")
		c.PadA = vk.Pad(t, "pada")
		c.Uplo = rapid.SampledFrom([]string{"U", "L"}).Draw(t, "uplo")
		c.TA = rapid.SampledFrom(tr).Draw(t, "ta")
		c.Diag = rapid.SampledFrom([]string{"N", "U"}).Draw(t, "diag")
		switch c.Fam {
		case "gemv", "ger":
			c.M = vk.Dim(t, "m", 0, hi, dimBnd...)
			c.Herm = c.Fam == "ger" && cx && rapid.Bool().Draw(t, "conj")
		case "gbmv":
			c.M = vk.Dim(t, "m", 0, hi, dimBnd...)
			c.KL = rapid.IntRange(0, min(c.M+1, 6)).Draw(t, "kl")
			c.KU = rapid.IntRange(0, min(c.N+1, 6)).Draw(t, "ku")
		case "tbmv", "tbsv", "hbmv":
			c.K = rapid.IntRange(0, min(c.N+1, 6)).Draw(t, "k")
		}
	default:
		c.M = vk.Dim(t, "m", 0, hi, dimBnd...)
		c.N = vk.Dim(t, "n", 0, hi, dimBnd...)
		c.K = vk.Dim(t, "k", 0, hi, dimBnd...)
		c.PadA, c.PadB, c.PadC = vk.Pad(t, "pada"), vk.Pad(t, "padb"), vk.Pad(t, "padc")
		c.Uplo = rapid.SampledFrom([]string{"U", "L"}).Draw(t, "uplo")
		c.Side = rapid.SampledFrom([]string{"L", "R"}).Draw(t, "side")
		c.Diag = rapid.SampledFrom([]string{"N", "U"}).Draw(t, "diag")
		c.TA = rapid.SampledFrom(tr).Draw(t, "ta")
		c.TB = rapid.SampledFrom(tr).Draw(t, "tb")
		switch c.Fam {
		case "symm":
			c.Herm = cx && rapid.Bool().Draw(t, "herm")
		case "syrk", "syr2k":
			c.Herm = cx && rapid.Bool().Draw(t, "herm")
			switch {
			case cx && c.Herm:
				// Hermitian rank-k: NoTrans or ConjTrans only
				c.TA = rapid.SampledFrom([]string{"N", "C"}).Draw(t, "tah")
			case cx:
				// complex symmetric rank-k: NoTrans or Trans only
				c.TA = rapid.SampledFrom([]string{"N", "T"}).Draw(t, "tas")
			}
		}
	}
	return c
}

var _ = fmt.Sprint
