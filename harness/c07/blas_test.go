package c07

import (
	"testing"

	"pgregory.net/rapid"
	"verifharness/blaskit"
	"verifharness/vk"
)

var blasFaults = []string{"m", "n", "k", "kl", "ku", "incx", "incy", "lda", "ldb", "ldc", "shortA", "shortB", "shortC", "shortX", "shortY", "badTA", "wrongTA", "badTB", "badUplo", "badDiag", "badSide"}

// faultsFor lists the single faults that exist in the signature of a family.
func faultsFor(c blaskit.Case) []string {
	var f []string
	add := func(s ...string) { f = append(f, s...) }
	switch c.Fam {
	case "gemv":
		add("m", "n", "incx", "incy", "lda", "shortA", "shortX", "shortY", "badTA")
	case "gbmv":
		add("m", "n", "kl", "ku", "incx", "incy", "lda", "shortA", "shortX", "shortY", "badTA")
	case "trmv", "trsv":
		add("n", "incx", "lda", "shortA", "shortX", "badTA", "badUplo", "badDiag")
	case "tbmv", "tbsv":
		add("n", "k", "incx", "lda", "shortA", "shortX", "badTA", "badUplo", "badDiag")
	case "tpmv", "tpsv":
		add("n", "incx", "shortA", "shortX", "badTA", "badUplo", "badDiag")
	case "hemv":
		add("n", "incx", "incy", "lda", "shortA", "shortX", "shortY", "badUplo")
	case "hbmv":
		add("n", "k", "incx", "incy", "lda", "shortA", "shortX", "shortY", "badUplo")
	case "hpmv":
		add("n", "incx", "incy", "shortA", "shortX", "shortY", "badUplo")
	case "ger":
		add("m", "n", "incx", "incy", "lda", "shortA", "shortX", "shortY")
	case "her":
		add("n", "incx", "lda", "shortA", "shortX", "badUplo")
	case "hpr":
		add("n", "incx", "shortA", "shortX", "badUplo")
	case "her2":
		add("n", "incx", "incy", "lda", "shortA", "shortX", "shortY", "badUplo")
	case "hpr2":
		add("n", "incx", "incy", "shortA", "shortX", "shortY", "badUplo")
	case "gemm":
		add("m", "n", "k", "lda", "ldb", "ldc", "shortA", "shortB", "shortC", "badTA", "badTB")
	case "symm":
		add("m", "n", "lda", "ldb", "ldc", "shortA", "shortB", "shortC", "badUplo", "badSide")
	case "syrk":
		add("n", "k", "lda", "ldc", "shortA", "shortC", "badUplo", "badTA")
		if c.Prec == "C" || c.Prec == "Z" {
			add("wrongTA", "wrongTA")
		}
	case "syr2k":
		add("n", "k", "lda", "ldb", "ldc", "shortA", "shortB", "shortC", "badUplo", "badTA")
		if c.Prec == "C" || c.Prec == "Z" {
			add("wrongTA", "wrongTA")
		}
	case "trmm", "trsm":
		add("m", "n", "lda", "ldb", "shortA", "shortB", "badUplo", "badSide", "badTA", "badDiag")
	case "nrm2", "asum", "iamax", "scal", "rscal":
		add("n", "incx", "shortX")
	default: // two-vector level 1
		add("n", "incx", "incy", "shortX", "shortY")
	}
	return f
}

func checkFault(c blaskit.Case) *vk.Failure {
	f, hit := blaskit.CheckFault(c)
	if hit {
		vk.Class("fault/" + c.Fault)
		vk.NonTrivial("fault", c.Prec, c.Fam, c.Fault)
		vk.Sample("blas-fault", c)
	} else {
		vk.Class("fault-not-applicable")
	}
	return f
}

func checkGuard(c blaskit.Case) *vk.Failure {
	vk.Class("guard/" + c.Guard + "/" + c.Prec + c.Fam)
	if c.N == 0 || (c.M == 0 && blaskit.FamLevel(c.Fam) == "l3") {
		vk.Class("guard/zero-dimension")
	}
	vk.NonTrivial("guard", c.Prec, c.Fam, c.Guard, c.TA, c.TB, c.Uplo, c.Side, c.Diag, c.M, c.N, c.K, c.IncX, c.IncY)
	vk.Sample("blas-guard", c)
	return blaskit.Check(c)
}

func drawFault(t *rapid.T) blaskit.Case {
	fams := blaskit.L2Fams
	hi := 12
	switch rapid.IntRange(0, 3).Draw(t, "level") {
	case 0:
		fams, hi = blaskit.L1Fams, 20
	case 1:
		fams, hi = blaskit.L3Fams, 9
	}
	c := blaskit.Draw(t, fams, hi)
	c.Fault = rapid.SampledFrom(faultsFor(c)).Draw(t, "fault")
	return c
}

func drawGuard(t *rapid.T) blaskit.Case {
	fams := blaskit.L2Fams
	hi := 40
	switch rapid.IntRange(0, 3).Draw(t, "level") {
	case 0:
		fams, hi = blaskit.L1Fams, 70
	case 1:
		fams, hi = blaskit.L3Fams, 20
	}
	c := blaskit.Draw(t, fams, hi)
	c.Guard = rapid.SampledFrom([]string{"end", "end", "start"}).Draw(t, "guard")
	return c
}

// TestBLASFaults: exactly one argument of an otherwise valid call is made
// invalid; the call must end in a package panic with every operand untouched.
func TestBLASFaults(t *testing.T) {
	vk.Run(t, "blas-fault", vk.Opts{Quick: 150000, Thorough: 2000000}, drawFault, checkFault)
}

// TestBLASGuard: valid calls whose slices are exactly minimal and abut an
// inaccessible page; any access beyond the slice faults.
func TestBLASGuard(t *testing.T) {
	vk.Run(t, "blas-guard", vk.Opts{Quick: 60000, Thorough: 800000}, drawGuard, checkGuard)
}

var _ = blasFaults
