// Package c07 checks property C07: invalid arguments panic before any write;
// valid arguments never fault.
package c07

import (
	"testing"

	"verifharness/vk"
)

func TestMain(m *testing.M) { vk.Main(m, "C07") }
