package c02

import (
	"fmt"
	"math"
	"testing"

	"gonum.org/v1/gonum/blas"
	"gonum.org/v1/gonum/blas/blas64"
	"gonum.org/v1/gonum/lapack"
	"gonum.org/v1/gonum/lapack/lapack64"
	"pgregory.net/rapid"
	"verifharness/vk"
)

// ---- LU family: Dgetrf/Dgetf2, Dgetrs, Dgetri, Dgesv, Dgecon ----------------

type luCase struct {
	M, N, Nrhs int
	PadA, PadB int
	Class      int
	Trans      bool
	NormInf    bool
	LwMode     int
	LwK        int
	Seed       uint64
}

const nbGetrf = 64 // Ilaenv(1, "DGETRF") = Ilaenv(1, "DGETRI") = 64

// permRows applies the interchanges row i <-> ipiv[i], i = 0..len(ipiv)-1, to a copy of a.
func permRows(a dm, ipiv []int) dm {
	b := a.clone()
	for i, p := range ipiv {
		if p != i {
			ri, rp := b.row(i), b.row(p)
			for j := range ri {
				ri[j], rp[j] = rp[j], ri[j]
			}
		}
	}
	return b
}

// luFactors extracts L (m x k, unit lower) and U (k x n, upper) from the packed result.
func luFactors(f dm) (l, u dm) {
	m, n := f.r, f.c
	k := min(m, n)
	l, u = newDM(m, k), newDM(k, n)
	for i := 0; i < m; i++ {
		for j := 0; j < n; j++ {
			v := f.at(i, j)
			if i > j {
				if j < k {
					l.set(i, j, v)
				}
			} else if i < k {
				u.set(i, j, v)
			}
		}
	}
	for i := 0; i < k; i++ {
		l.set(i, i, 1)
	}
	return l, u
}

// verifyLU checks the structure and the componentwise backward error
// |P^T A - L U| <= cwBound(k,1) |L||U| (Higham, Accuracy and Stability, Thm 9.3
// and Thm 13.6 for the partitioned algorithm; valid for any pivot growth).
// It returns LU = L*U (float64 product) and S = |L||U| in pivoted row order.
func verifyLU(call string, a dm, f *pmat, ipiv []int, ok bool, cls int) (lu, s dm, fl *vk.Failure) {
	m, n := a.r, a.c
	k := min(m, n)
	for i, p := range ipiv {
		if p < i || p >= m {
			return lu, s, vk.Failf("ipiv-range", "%s: ipiv[%d]=%d not in [%d,%d)", call, i, p, i, m)
		}
	}
	fd := f.dense()
	if fd.hasNaN() {
		return lu, s, vk.Failf("non-finite-output", "%s: factor contains NaN/Inf on finite input (m=%d n=%d lda=%d)", call, m, n, f.ld)
	}
	zeroPivot := -1
	for i := 0; i < k; i++ {
		if fd.at(i, i) == 0 {
			zeroPivot = i
			break
		}
	}
	if ok != (zeroPivot < 0) {
		return lu, s, vk.Failf("ok-flag", "%s: ok=%v but first exactly zero U diagonal is at %d (m=%d n=%d)", call, ok, zeroPivot, m, n)
	}
	forced := cls == clsZeroCol && k > 0 || cls == clsZeroRow && m <= n && k > 0
	if forced && ok {
		return lu, s, vk.Failf("singular-not-reported", "%s: exactly singular input (%s) but ok=true (m=%d n=%d)", call, clsNames[cls], m, n)
	}
	l, u := luFactors(fd)
	lu, s = mul(l, u)
	pa := permRows(a, ipiv)
	if fl := cwCheck("lu-backward-error", fmt.Sprintf("%s m=%d n=%d lda=%d: P^T A vs L*U", call, m, n, f.ld), pa, lu, s, cwBound(k, 1)); fl != nil {
		return lu, s, fl
	}
	return lu, s, nil
}

// refInverse computes the inverse by Gauss-Jordan elimination with partial
// pivoting (reference for the condition estimators). ok=false if a pivot vanishes.
func refInverse(a dm) (dm, bool) {
	n := a.r
	w := a.clone()
	x := eye(n)
	for j := 0; j < n; j++ {
		p := j
		for i := j + 1; i < n; i++ {
			if math.Abs(w.at(i, j)) > math.Abs(w.at(p, j)) {
				p = i
			}
		}
		if w.at(p, j) == 0 {
			return x, false
		}
		if p != j {
			for c := 0; c < n; c++ {
				a1, a2 := w.at(j, c), w.at(p, c)
				w.set(j, c, a2)
				w.set(p, c, a1)
				a1, a2 = x.at(j, c), x.at(p, c)
				x.set(j, c, a2)
				x.set(p, c, a1)
			}
		}
		piv := w.at(j, j)
		for c := 0; c < n; c++ {
			w.set(j, c, w.at(j, c)/piv)
			x.set(j, c, x.at(j, c)/piv)
		}
		for i := 0; i < n; i++ {
			if i == j {
				continue
			}
			f := w.at(i, j)
			if f == 0 {
				continue
			}
			wi, wj, xi, xj := w.row(i), w.row(j), x.row(i), x.row(j)
			for c := 0; c < n; c++ {
				wi[c] -= f * wj[c]
				xi[c] -= f * xj[c]
			}
		}
	}
	return x, true
}

// condCheck verifies the relation between an estimated reciprocal condition
// number and the reference: the Hager/Higham estimator returns a lower bound of
// ||inv(A)||, hence rcond_est >= rcond_true*(1-delta) where delta =
// 100*n*eps*kappa absorbs the rounding errors of the factorization, of the
// triangular solves inside the estimator and of the reference inverse
// (cases with delta > 0.1 are classified, not judged). The upper side
// rcond_est <= 10*n*rcond_true has no worst-case theory and is kept loose.
func condCheck(call string, n int, rcond, anorm, ainvNorm, growth float64) *vk.Failure {
	if math.IsNaN(rcond) || rcond < 0 {
		return vk.Failf("rcond-invalid", "%s: rcond=%v", call, rcond)
	}
	kappa := anorm * ainvNorm
	delta := 100 * float64(n) * vk.Eps * kappa * growth
	if !(delta <= 0.1) {
		vk.Class("cond:ill-conditioned-skipped")
		return nil
	}
	truth := 1 / kappa
	if rcond < truth*(1-delta) {
		return vk.Failf("rcond-below-true", "%s: n=%d rcond=%v is below the true reciprocal condition number %v (the estimator must bound ||inv(A)|| from below), ratio %v", call, n, rcond, truth, rcond/truth)
	}
	ratio := rcond / truth
	switch {
	case ratio <= 1.0000001:
		vk.Class("cond:exact")
	case ratio <= 3:
		vk.Class("cond:within3")
	case ratio <= 10:
		vk.Class("cond:within10")
	case ratio <= float64(max(n, 1)):
		vk.Class("cond:within-n")
	default:
		vk.Class("cond:worse-than-max(10,n)")
	}
	if ratio > 10*float64(max(n, 1))*(1+delta) {
		return vk.Failf("rcond-too-optimistic", "%s: n=%d rcond=%v exceeds 10*n times the true value %v", call, n, rcond, truth)
	}
	return nil
}

func checkLU(c luCase) *vk.Failure {
	m, n := c.M, c.N
	k := min(m, n)
	r := vk.NewSplitMix(c.Seed)
	a := genGeneral(c.Class, m, n, r)
	blocked := k > nbGetrf
	vk.Class("lu:class=" + clsNames[c.Class])
	vk.Class("lu:shape=" + shapeClass(m, n))
	vk.Class("lu:k=" + sizeClass(k))
	vk.Class("lu:lwork=" + lwNames[c.LwMode])
	if blocked {
		vk.Class("lu:path=blocked")
	} else {
		vk.Class("lu:path=unblocked")
	}
	if k >= 2 && (blocked || c.PadA > 0 || c.Trans || c.NormInf || c.LwMode != lwQuery || isSingularClass(c.Class)) {
		vk.NonTrivial("lu", m, n, c.PadA, c.Class, c.Trans, c.NormInf, c.LwMode, c.Seed)
	}
	vk.Sample("lu", c)

	pre, post, trim := padFrom(r)
	lda := max(1, n) + c.PadA

	// Path 1: Dgetrf, padded lda.
	f1 := newPmat("a", m, n, lda, pre, post, trim)
	f1.load(a)
	in1 := f1.clone()
	ip1 := newPints("ipiv", k, 1, 1)
	var ok1 bool
	call := fmt.Sprintf("Dgetrf(m=%d,n=%d,lda=%d)", m, n, lda)
	if fl := vk.MustReturn("getrf-panics", func() { ok1 = impl.Dgetrf(m, n, f1.sl(), lda, ip1.sl()) }); fl != nil {
		return fl
	}
	if fl := first(f1.checkPad(call), ip1.checkPad(call)); fl != nil {
		return fl
	}
	lu1, s1, fl := verifyLU(call, a, f1, ip1.sl(), ok1, c.Class)
	if fl != nil {
		return fl
	}

	// Path 2: Dgetf2 (unblocked) with the other leading dimension.
	lda2 := max(1, n)
	if c.PadA == 0 {
		lda2 += 3
	}
	f2 := newPmat("a", m, n, lda2, post, pre, !trim)
	f2.load(a)
	ip2 := newPints("ipiv", k, 1, 1)
	var ok2 bool
	call2 := fmt.Sprintf("Dgetf2(m=%d,n=%d,lda=%d)", m, n, lda2)
	if fl := vk.MustReturn("getf2-panics", func() { ok2 = impl.Dgetf2(m, n, f2.sl(), lda2, ip2.sl()) }); fl != nil {
		return fl
	}
	if fl := first(f2.checkPad(call2), ip2.checkPad(call2)); fl != nil {
		return fl
	}
	if _, _, fl := verifyLU(call2, a, f2, ip2.sl(), ok2, c.Class); fl != nil {
		return fl
	}
	if !blocked {
		// Dgetrf documents nothing about its path, but below the block size both
		// run the same elementwise operations: classify agreement only.
		same := ok1 == ok2
		for i := 0; same && i < k; i++ {
			same = ip1.sl()[i] == ip2.sl()[i]
		}
		if same {
			vk.Class("lu:unblocked-paths-same-pivots")
		} else {
			vk.Class("lu:unblocked-paths-differ")
		}
	}

	// Path 3: lapack64 wrapper, same geometry as path 1: the wrapper only
	// forwards its arguments, so the result must be bit-identical.
	f3 := in1.clone()
	ip3 := newPints("ipiv", k, 1, 1)
	var ok3 bool
	if fl := vk.MustReturn("lapack64-getrf-panics", func() {
		ok3 = lapack64.Getrf(blas64.General{Rows: m, Cols: n, Stride: lda, Data: f3.sl()}, ip3.sl())
	}); fl != nil {
		return fl
	}
	if fl := f3.checkSame("lapack64.Getrf vs Dgetrf", f1.buf); fl != nil {
		fl.Key = "lapack64-getrf-differs"
		return fl
	}
	if ok3 != ok1 {
		return vk.Failf("lapack64-getrf-differs", "ok %v vs %v", ok3, ok1)
	}
	for i := 0; i < k; i++ {
		if ip3.sl()[i] != ip1.sl()[i] {
			return vk.Failf("lapack64-getrf-differs", "ipiv[%d] %d vs %d", i, ip3.sl()[i], ip1.sl()[i])
		}
	}

	if m != n {
		return nil
	}
	// ---------------- square: solve, inverse, condition ----------------
	ipiv := ip1.sl()
	fsnap := f1.snapshot()
	ipsnap := ip1.snapshot()

	if !ok1 {
		vk.Class("lu:square-singular")
		// Dgetri: "will not perform the inversion if the matrix is singular".
		w := newWork(max(1, n), 2)
		g := f1.clone()
		var okI bool
		if fl := vk.MustReturn("getri-panics", func() { okI = impl.Dgetri(n, g.sl(), lda, ipiv, w.sl(), max(1, n)) }); fl != nil {
			return fl
		}
		if okI {
			return vk.Failf("getri-singular-ok", "Dgetri(n=%d) returned ok=true for a factorization with an exactly zero pivot", n)
		}
		if fl := first(g.checkPad("Dgetri singular"), w.check("Dgetri singular")); fl != nil {
			return fl
		}
		// Dgesv must report the same.
		ga := in1.clone()
		bb := newPmat("b", n, c.Nrhs, max(1, c.Nrhs)+c.PadB, 1, 1, true)
		bb.load(genGeneral(clsGauss, n, c.Nrhs, r))
		ipg := newPints("ipiv", n, 1, 1)
		var okS bool
		if fl := vk.MustReturn("gesv-panics", func() {
			okS = impl.Dgesv(n, c.Nrhs, ga.sl(), lda, ipg.sl(), bb.sl(), bb.ld)
		}); fl != nil {
			return fl
		}
		if okS && c.Nrhs == 0 {
			return vk.Failf("gesv-nrhs0-not-factored", "Dgesv(n=%d,nrhs=0,lda=%d) returned ok=true for an exactly singular matrix (class %s): with nrhs=0 it returns before factorizing, although the documentation says the factors and pivots are stored in a and ipiv on return", n, lda, clsNames[c.Class])
		}
		if okS {
			return vk.Failf("gesv-singular-ok", "Dgesv(n=%d,nrhs=%d) returned ok=true although Dgetrf reports an exactly zero pivot", n, c.Nrhs)
		}
		if fl := first(ga.checkPad("Dgesv singular"), bb.checkPad("Dgesv singular"), ipg.checkPad("Dgesv singular")); fl != nil {
			return fl
		}
		// Dgecon on a singular factorization must return without fault.
		wc := newPvec("work", 4*n, 1, 1, true)
		iw := newPints("iwork", n, 1, 1)
		var rc float64
		if fl := vk.MustReturn("gecon-panics", func() {
			rc = impl.Dgecon(lapack.MaxColumnSum, n, f1.sl(), lda, a.norm1(), wc.sl(), iw.sl())
		}); fl != nil {
			return fl
		}
		if math.IsNaN(rc) || rc < 0 || rc > 1e-8 {
			return vk.Failf("gecon-singular", "Dgecon(n=%d) on an exactly singular factorization returned rcond=%v", n, rc)
		}
		return first(f1.checkSame("Dgecon", fsnap), wc.checkPad("Dgecon"), iw.checkPad("Dgecon"))
	}

	// P*L*U and P*|L||U| in the original row order.
	unperm := func(x dm) dm { // apply the interchanges in reverse order
		y := x.clone()
		for i := len(ipiv) - 1; i >= 0; i-- {
			if p := ipiv[i]; p != i {
				ri, rp := y.row(i), y.row(p)
				for j := range ri {
					ri[j], rp[j] = rp[j], ri[j]
				}
			}
		}
		return y
	}

	// --- Dgetrs ---
	nrhs := c.Nrhs
	ldb := max(1, nrhs) + c.PadB
	bd := genGeneral(clsGauss, n, nrhs, r)
	b := newPmat("b", n, nrhs, ldb, post, pre, trim)
	b.load(bd)
	bIn := b.clone()
	callS := fmt.Sprintf("Dgetrs(trans=%v,n=%d,nrhs=%d,lda=%d,ldb=%d)", c.Trans, n, nrhs, lda, ldb)
	if fl := vk.MustReturn("getrs-panics", func() {
		impl.Dgetrs(transOf(c.Trans), n, nrhs, f1.sl(), lda, ipiv, b.sl(), ldb)
	}); fl != nil {
		return fl
	}
	if fl := first(b.checkPad(callS), f1.checkSame(callS, fsnap), ip1.checkSame(callS, ipsnap), b.checkFinite(callS)); fl != nil {
		return fl
	}
	if fl := verifyLUSolve(callS, lu1, s1, ipiv, bd, b.dense(), c.Trans); fl != nil {
		return fl
	}
	// lapack64.Getrs: bit-identical.
	b3 := bIn.clone()
	if fl := vk.MustReturn("lapack64-getrs-panics", func() {
		lapack64.Getrs(transOf(c.Trans), blas64.General{Rows: n, Cols: n, Stride: lda, Data: f1.sl()}, blas64.General{Rows: n, Cols: nrhs, Stride: ldb, Data: b3.sl()}, ipiv)
	}); fl != nil {
		return fl
	}
	if fl := b3.checkSame("lapack64.Getrs vs Dgetrs", b.buf); fl != nil {
		fl.Key = "lapack64-getrs-differs"
		return fl
	}

	// --- Dgesv ---
	{
		ga := in1.clone()
		gb := bIn.clone()
		ipg := newPints("ipiv", n, 1, 1)
		var okS bool
		callG := fmt.Sprintf("Dgesv(n=%d,nrhs=%d,lda=%d,ldb=%d)", n, nrhs, lda, ldb)
		if fl := vk.MustReturn("gesv-panics", func() { okS = impl.Dgesv(n, nrhs, ga.sl(), lda, ipg.sl(), gb.sl(), ldb) }); fl != nil {
			return fl
		}
		if fl := first(ga.checkPad(callG), gb.checkPad(callG), ipg.checkPad(callG)); fl != nil {
			return fl
		}
		if nrhs == 0 && n > 0 && ipg.sl()[0] == ipg.buf[ipg.off] && ipg.sl()[0] < 0 {
			// ipiv still holds its sentinel: nothing was factorized.
			return vk.Failf("gesv-nrhs0-not-factored", "%s returned ok=%v without storing L, U and the pivots in a and ipiv (ipiv[0] untouched); the documentation says they are stored on return", callG, okS)
		}
		lug, sg, fl := verifyLU(callG, a, ga, ipg.sl(), okS, c.Class)
		if fl != nil {
			return fl
		}
		if okS {
			if fl := first(gb.checkFinite(callG), verifyLUSolve(callG, lug, sg, ipg.sl(), bd, gb.dense(), false)); fl != nil {
				return fl
			}
		}
	}

	// --- Dgetri, with the drawn lwork mode and with the minimum ---
	minW := max(1, n)
	{
		g := f1.clone()
		ipq := newPints("ipiv", n, 1, 1)
		copy(ipq.sl(), ipiv)
		q, fl := wsQuery(fmt.Sprintf("Dgetri(n=%d,lda=%d)", n, lda), minW, func(w []float64) {
			impl.Dgetri(n, g.sl(), lda, ipq.sl(), w, -1)
		}, g, ipq)
		if fl != nil {
			return fl
		}
		modes := []int{c.LwMode}
		if c.LwMode != lwMin {
			modes = append(modes, lwMin)
		}
		for _, mode := range modes {
			lw := lworkFor(mode, c.LwK, minW, q)
			w := newWork(lw, c.LwK%3)
			g := f1.clone()
			var okI bool
			callI := fmt.Sprintf("Dgetri(n=%d,lda=%d,lwork=%d[%s],query=%d)", n, lda, lw, lwNames[mode], q)
			if fl := vk.MustReturn("getri-panics", func() { okI = impl.Dgetri(n, g.sl(), lda, ipiv, w.sl(), lw) }); fl != nil {
				fl.Msg = callI + ": " + fl.Msg
				return fl
			}
			if !okI {
				return vk.Failf("getri-not-ok", "%s returned false for a nonsingular factorization", callI)
			}
			if fl := first(g.checkPad(callI), w.check(callI), ip1.checkSame(callI, ipsnap), g.checkFinite(callI)); fl != nil {
				return fl
			}
			if n > 0 {
				if w0 := w.sl()[0]; !(w0 >= float64(minW)) || w0 != math.Floor(w0) {
					return vk.Failf("getri-work0", "%s: work[0]=%v on return is not a sufficient length (minimum %d)", callI, w0, minW)
				}
			}
			// Left residual: |X (P L U) - I| <= cwBound(n,3) |X| (P |L||U|), see
			// Higham section 14.3.2 (method B) with the left residual bound of the
			// triangular inversion (method 2 / 2B, which Dtrtri implements).
			x := g.dense()
			plu, ps := unperm(lu1), unperm(s1)
			res, _ := mul(x, plu)
			_, bound := mul(x.abs(), ps)
			if fl := cwCheck("getri-left-residual", callI+": X*(P*L*U) vs I", eye(n), res, bound, cwBound(n, 3)); fl != nil {
				return fl
			}
			if mode == c.LwMode {
				// lapack64.Getri: bit-identical.
				g3 := f1.clone()
				w3 := newWork(lw, 0)
				var ok3 bool
				if fl := vk.MustReturn("lapack64-getri-panics", func() {
					ok3 = lapack64.Getri(blas64.General{Rows: n, Cols: n, Stride: lda, Data: g3.sl()}, ipiv, w3.sl(), lw)
				}); fl != nil {
					return fl
				}
				if fl := g3.checkSame("lapack64.Getri vs Dgetri", g.buf); fl != nil || !ok3 {
					return vk.Failf("lapack64-getri-differs", "%s: wrapper result differs (ok=%v)", callI, ok3)
				}
			}
		}
	}

	// --- Dgecon ---
	if n > 0 {
		norm := lapack.MaxColumnSum
		anorm := a.norm1()
		if c.NormInf {
			norm = lapack.MaxRowSum
			anorm = a.normInf()
		}
		wc := newPvec("work", 4*n, 1, 1, trim)
		iw := newPints("iwork", n, 1, 1)
		var rc float64
		callC := fmt.Sprintf("Dgecon(norm=%c,n=%d,lda=%d)", norm, n, lda)
		if fl := vk.MustReturn("gecon-panics", func() { rc = impl.Dgecon(norm, n, f1.sl(), lda, anorm, wc.sl(), iw.sl()) }); fl != nil {
			return fl
		}
		if fl := first(f1.checkSame(callC, fsnap), wc.checkPad(callC), iw.checkPad(callC)); fl != nil {
			return fl
		}
		var rc3 float64
		wc3 := newPvec("work", 4*n, 1, 1, trim)
		iw3 := newPints("iwork", n, 1, 1)
		if fl := vk.MustReturn("lapack64-gecon-panics", func() {
			rc3 = lapack64.Gecon(norm, blas64.General{Rows: n, Cols: n, Stride: lda, Data: f1.sl()}, anorm, wc3.sl(), iw3.sl())
		}); fl != nil {
			return fl
		}
		if !vk.SameBits(rc, rc3) {
			return vk.Failf("lapack64-gecon-differs", "%s: %v vs wrapper %v", callC, rc, rc3)
		}
		if xinv, okR := refInverse(a); okR {
			ainv := xinv.norm1()
			growth := s1.norm1() / anorm
			if c.NormInf {
				ainv = xinv.normInf()
				growth = s1.normInf() / anorm
			}
			if fl := condCheck(callC, n, rc, anorm, ainv, math.Max(1, growth)); fl != nil {
				return fl
			}
		}
	}
	return nil
}

// verifyLUSolve checks x against the factorization that produced it:
// NoTrans: |P^T b - (L U) x| <= cwBound(n,3) |L||U||x|  (two triangular solves
// with gamma_n each, Higham Thm 9.4, plus the reference products);
// Trans:   |b - (L U)^T z| <= cwBound(n,3) (|L||U|)^T |z| with z = P^T x.
func verifyLUSolve(call string, lu, s dm, ipiv []int, b, x dm, trans bool) *vk.Failure {
	n := lu.r
	if x.c == 0 || n == 0 {
		return nil
	}
	if !trans {
		pb := permRows(b, ipiv)
		res, _ := mul(lu, x)
		_, bound := mul(s, x.abs())
		return cwCheck("getrs-backward-error", call+": P^T*B vs (L*U)*X", pb, res, bound, cwBound(n, 3))
	}
	z := permRows(x, ipiv)
	res, _ := mul(lu.t(), z)
	_, bound := mul(s.t(), z.abs())
	return cwCheck("getrs-backward-error", call+": B vs (L*U)^T*(P^T*X)", b, res, bound, cwBound(n, 3))
}

func drawLU(t *rapid.T) luCase {
	m, n := drawShape(t, 80, 200)
	if rapid.IntRange(0, 2).Draw(t, "forceSquare") == 0 {
		n = m
	}
	return luCase{
		M: m, N: n, Nrhs: drawNrhs(t),
		PadA: vk.Pad(t, "padA"), PadB: vk.Pad(t, "padB"),
		Class:   rapid.IntRange(0, nGeneralClasses-1).Draw(t, "class"),
		Trans:   rapid.Bool().Draw(t, "trans"),
		NormInf: rapid.Bool().Draw(t, "norminf"),
		LwMode:  rapid.IntRange(0, nLwModes-1).Draw(t, "lwmode"),
		LwK:     rapid.IntRange(0, 1000).Draw(t, "lwk"),
		Seed:    vk.SeedGen(t, "seed"),
	}
}

func TestLU(t *testing.T) {
	vk.Run(t, "lu", vk.Opts{Quick: 700, Thorough: 16000}, drawLU, finish(checkLU))
}

var _ = blas.NoTrans
