package c02

import (
	"fmt"
	"math"
	"testing"

	"gonum.org/v1/gonum/lapack"
	"pgregory.net/rapid"
	"verifharness/vk"
)

// ---- Dlarfg, Dlarf, Dlarfx, Dlarft, Dlarfb ----------------------------------

type larfgCase struct {
	N    int
	Inc  int
	Kind int // 0 gauss, 1 x = 0, 2 tiny (2^-1000: rescaling loop), 3 alpha = 0, 4 small integers
	Seed uint64
}

func checkLarfg(c larfgCase) *vk.Failure {
	n := c.N
	r := vk.NewSplitMix(c.Seed)
	alpha := r.Norm()
	x := make([]float64, max(0, n-1))
	for i := range x {
		x[i] = r.Norm()
	}
	switch c.Kind {
	case 1:
		for i := range x {
			x[i] = 0
		}
	case 2:
		alpha = math.Ldexp(alpha, -1000)
		for i := range x {
			x[i] = math.Ldexp(x[i], -1000)
		}
	case 3:
		alpha = 0
	case 4:
		alpha = float64(r.Intn(7) - 3)
		for i := range x {
			x[i] = float64(r.Intn(7) - 3)
		}
	}
	vk.Class(fmt.Sprintf("larfg:kind=%d", c.Kind))
	if n >= 2 {
		vk.NonTrivial("larfg", n, c.Inc, c.Kind, c.Seed)
	}
	vk.Sample("larfg", c)
	pre, post, trim := padFrom(r)
	p := newPmat("x", len(x), 1, c.Inc, pre, post, trim)
	for i, v := range x {
		p.set(i, 0, v)
	}
	var beta, tau float64
	call := fmt.Sprintf("Dlarfg(n=%d,alpha=%v,incX=%d)", n, alpha, c.Inc)
	if fl := vk.MustReturn("larfg-panics", func() { beta, tau = impl.Dlarfg(n, alpha, p.sl(), c.Inc) }); fl != nil {
		fl.Msg = call + ": " + fl.Msg
		return fl
	}
	if fl := p.checkPad(call); fl != nil {
		return fl
	}
	if math.IsNaN(beta) || math.IsNaN(tau) || math.IsInf(beta, 0) || math.IsInf(tau, 0) {
		return vk.Failf("non-finite-output", "%s: beta=%v tau=%v", call, beta, tau)
	}
	xnorm := 0.0
	for _, v := range x {
		xnorm = math.Hypot(xnorm, v)
	}
	if n <= 1 || xnorm == 0 {
		// H = I
		if tau != 0 || beta != alpha {
			return vk.Failf("larfg-identity", "%s with x = 0: beta=%v tau=%v, want beta=alpha, tau=0", call, beta, tau)
		}
		return nil
	}
	v := make([]float64, n)
	v[0] = 1
	vtv := 1.0
	for i := 0; i < n-1; i++ {
		v[i+1] = p.at(i, 0)
		vtv += v[i+1] * v[i+1]
	}
	tolN := cOrth * float64(n) * vk.Eps
	if !(math.Abs(tau*vtv-2) <= tolN) {
		return vk.Failf("reflector-not-orthogonal", "%s: tau=%v, v^T v=%v, tau*v^T v - 2 = %.3g", call, tau, vtv, tau*vtv-2)
	}
	norm := math.Hypot(alpha, xnorm)
	if !(math.Abs(math.Abs(beta)-norm) <= tolN*norm) || (alpha != 0 && math.Signbit(beta) == math.Signbit(alpha)) {
		return vk.Failf("larfg-beta", "%s: beta=%v, ||(alpha,x)||=%v", call, beta, norm)
	}
	if !(tau >= 1-tolN && tau <= 2+tolN) {
		return vk.Failf("larfg-tau-range", "%s: tau=%v outside [1,2]", call, tau)
	}
	// H*(alpha;x) = (beta;0); evaluated on data scaled to unit norm so that tiny inputs do not underflow.
	col := newDM(n, 1)
	col.set(0, 0, alpha/norm)
	for i, xv := range x {
		col.set(i+1, 0, xv/norm)
	}
	applyHLeft(tau, v, col)
	col.add(0, 0, -beta/norm)
	if e := col.fro(); !(e <= tolN) {
		return vk.Failf("larfg-annihilation", "%s: ||H*(alpha;x) - (beta;0)|| / ||(alpha;x)|| = %.3g exceeds %.3g", call, e, tolN)
	}
	return nil
}

type larfCase struct {
	M, N     int
	Right    bool
	Inc      int // increment of v for Dlarf (non-zero); Dlarfx uses 1
	PadC     int
	Tau0     bool // tau = 0
	ZeroTail int  // trailing zeros of v (exercises the lastv / lastc scans)
	Seed     uint64
}

func checkLarf(c larfCase) *vk.Failure {
	m, n := c.M, c.N
	r := vk.NewSplitMix(c.Seed)
	nh := m
	if c.Right {
		nh = n
	}
	v := make([]float64, nh)
	vtv := 0.0
	for i := range v {
		if i < nh-c.ZeroTail {
			v[i] = r.Norm()
		}
		vtv += v[i] * v[i]
	}
	tau := 0.0
	if !c.Tau0 && vtv > 0 {
		tau = 2 / vtv
		if r.Intn(3) == 0 {
			tau = r.Norm() // not orthogonal: still a rank one update
		}
	}
	cd := genGeneral(clsGauss, m, n, r)
	want := cd.clone()
	if c.Right {
		applyHRight(tau, v, want)
	} else {
		applyHLeft(tau, v, want)
	}
	tol := orthTol(m, n) * (1 + math.Abs(tau)*vtv) * cd.fro()
	vk.Class(fmt.Sprintf("larf:right=%v,nh<=10:%v", c.Right, nh <= 10))
	if nh >= 2 && m >= 1 && n >= 1 {
		vk.NonTrivial("larf", m, n, c.Right, c.Inc, c.PadC, c.Tau0, c.ZeroTail, c.Seed)
	}
	vk.Sample("larf", c)
	pre, post, trim := padFrom(r)
	ldc := max(1, n) + c.PadC
	side := sideOf(c.Right)
	nw := n
	if c.Right {
		nw = m
	}
	for variant := 0; variant < 2; variant++ {
		inc := c.Inc
		name := "Dlarf"
		if variant == 1 {
			inc, name = 1, "Dlarfx"
		}
		ainc := inc
		if ainc < 0 {
			ainc = -ainc
		}
		pv := newPmat("v", nh, 1, ainc, pre, post, trim)
		for i, x := range v {
			if inc > 0 {
				pv.set(i, 0, x)
			} else {
				pv.set(nh-1-i, 0, x)
			}
		}
		vsnap := pv.snapshot()
		pc := newPmat("c", m, n, ldc, post, pre, trim)
		pc.load(cd)
		var work []float64
		wp := newPvec("work", nw, 1, 1, true)
		work = wp.sl()
		if variant == 1 && nh <= 10 && c.Seed%2 == 0 {
			work = nil // "work is not referenced if H has order < 11"
		}
		call := fmt.Sprintf("%s(side=%c,m=%d,n=%d,incv=%d,tau=%v,ldc=%d)", name, side, m, n, inc, tau, ldc)
		if fl := vk.MustReturn("larf-panics", func() {
			if variant == 0 {
				impl.Dlarf(side, m, n, pv.sl(), inc, tau, pc.sl(), ldc, work)
			} else {
				impl.Dlarfx(side, m, n, pv.sl(), tau, pc.sl(), ldc, work)
			}
		}); fl != nil {
			fl.Msg = call + ": " + fl.Msg
			return fl
		}
		if fl := first(pc.checkPad(call), pv.checkSame(call, vsnap), wp.checkPad(call), pc.checkFinite(call)); fl != nil {
			return fl
		}
		if e := diffFro(pc.dense(), want); !(e <= tol) {
			key := "larf-result"
			if inc < 0 && nh > 0 && v[nh-1] == 0 {
				// Dlarf trims trailing zeros of v and then passes the shortened length
				// with the unchanged base and the negative increment to Dgemv/Dger,
				// which then address the wrong end of v (same in reference DLARF).
				key = "larf/larf-negative-incv-trailing-zeros"
			}
			return vk.Failf(key, "%s: ||result - (I - tau v v^T) applied directly||_F = %.3g exceeds %.3g", call, e, tol)
		}
	}
	return nil
}

type larfbCase struct {
	M, N, K  int
	Right    bool
	Trans    bool
	Backward bool
	RowWise  bool
	PadV     int
	PadT     int
	PadC     int
	PadW     int
	Seed     uint64
}

func checkLarfb(c larfbCase) *vk.Failure {
	m, n := c.M, c.N
	r := vk.NewSplitMix(c.Seed)
	nq := m
	if c.Right {
		nq = n
	}
	k := max(1, min(c.K, nq)) // Dlarft requires k >= 1
	if nq == 0 {
		return nil
	}
	// reflectors: H_i, i = 0..k-1, with the documented zero / unit pattern
	hs := make([]refl, k)
	for i := 0; i < k; i++ {
		v := make([]float64, nq)
		unitAt := i
		lo, hi := i+1, nq // free entries
		if c.Backward {
			unitAt = nq - k + i
			lo, hi = 0, unitAt
		}
		v[unitAt] = 1
		vtv := 1.0
		for j := lo; j < hi; j++ {
			v[j] = r.Norm()
			vtv += v[j] * v[j]
		}
		tau := 2 / vtv
		if r.Intn(6) == 0 {
			tau = 0
		}
		hs[i] = refl{tau, v}
	}
	// H = H_0...H_{k-1} (forward) or H_{k-1}...H_0 (backward)
	seq := append([]refl(nil), hs...)
	if c.Backward {
		for i, j := 0, k-1; i < j; i, j = i+1, j-1 {
			seq[i], seq[j] = seq[j], seq[i]
		}
	}
	direct, store := lapack.Forward, lapack.ColumnWise
	if c.Backward {
		direct = lapack.Backward
	}
	if c.RowWise {
		store = lapack.RowWise
	}
	vk.Class(fmt.Sprintf("larfb:direct=%c,store=%c,side-right=%v,trans=%v", direct, store, c.Right, c.Trans))
	if k >= 2 && m >= 1 && n >= 1 {
		vk.NonTrivial("larfb", m, n, k, c.Right, c.Trans, c.Backward, c.RowWise, c.PadV, c.PadC, c.Seed)
	}
	vk.Sample("larfb", c)
	pre, post, trim := padFrom(r)
	// storage of V: unit and zero entries are not referenced
	vr, vc := nq, k
	if c.RowWise {
		vr, vc = k, nq
	}
	ldv := max(1, vc) + c.PadV
	// Known defect: Dlarft(Forward, ColumnWise) with n == k slices v[(i+1)*ldv:]
	// and v[(i+1)*ldv+i:] for the last reflector, which lie beyond a minimal-length v.
	faultCfg := !c.Backward && !c.RowWise && nq == k
	if faultCfg {
		post += ldv + k
	}
	pv := newPmat("v", vr, vc, ldv, pre, post, trim)
	backward := c.Backward
	rowwise := c.RowWise
	pv.ref = func(a, b int) bool {
		row, i := a, b // row index within the reflector, reflector index
		if rowwise {
			row, i = b, a
		}
		if backward {
			return row < nq-k+i
		}
		return row > i
	}
	for a := 0; a < vr; a++ {
		for b := 0; b < vc; b++ {
			if pv.ref(a, b) {
				row, i := a, b
				if rowwise {
					row, i = b, a
				}
				pv.set(a, b, hs[i].v[row])
			}
		}
	}
	ptau := newPvec("tau", k, 1, 1, true)
	for i := range hs {
		ptau.sl()[i] = hs[i].tau
	}
	ldt := k + c.PadT
	pt := newPmat("t", k, k, ldt, post, pre, trim)
	pt.ref = triRef(!c.Backward)
	vsnap, tausnap := pv.snapshot(), ptau.snapshot()
	call := fmt.Sprintf("Dlarft(direct=%c,store=%c,n=%d,k=%d,ldv=%d,ldt=%d)", direct, store, nq, k, ldv, ldt)
	vslice := pv.sl()
	if fl := vk.MustReturn("larft-panics", func() { impl.Dlarft(direct, store, nq, k, vslice, ldv, ptau.sl(), pt.sl(), ldt) }); fl != nil {
		fl.Msg = call + ": " + fl.Msg
		if !faultCfg {
			return fl
		}
		fl.Key = "larft-square-v-minimal-length-fault"
		fl.Msg += fmt.Sprintf(" (len(v)=%d=(n-1)*ldv+k)", len(vslice))
		if deferred == nil {
			deferred = fl
		}
		// continue with a longer slice (the stride padding of the last row included)
		vslice = pv.buf[pv.off : pv.off+vr*ldv+k]
		pt = newPmat("t", k, k, ldt, post, pre, trim)
		pt.ref = triRef(!c.Backward)
		if fl := vk.MustReturn("larft-panics", func() { impl.Dlarft(direct, store, nq, k, vslice, ldv, ptau.sl(), pt.sl(), ldt) }); fl != nil {
			fl.Msg = call + " (long v): " + fl.Msg
			return fl
		}
	}
	if fl := first(pt.checkPad(call), pv.checkSame(call, vsnap), ptau.checkSame(call, tausnap), pt.checkFinite(call)); fl != nil {
		return fl
	}
	// H_T = I - V T V^T against the explicit product of the reflectors
	vm := newDM(nq, k)
	for i := range hs {
		for row := 0; row < nq; row++ {
			vm.set(row, i, hs[i].v[row])
		}
	}
	tm := newDM(k, k)
	for i := 0; i < k; i++ {
		for j := 0; j < k; j++ {
			if pt.ref(i, j) {
				tm.set(i, j, pt.at(i, j))
			}
		}
	}
	ht := mulP(mulP(vm, tm), vm.t())
	for i := range ht.d {
		ht.d[i] = -ht.d[i]
	}
	for i := 0; i < nq; i++ {
		ht.add(i, i, 1)
	}
	href := eye(nq)
	applyQLeft(seq, false, href)
	tolH := orthTol(nq, k) * math.Sqrt(float64(nq))
	if e := diffFro(ht, href); !(e <= tolH) {
		return vk.Failf("larft-block-reflector", "%s: ||(I - V T V^T) - product of the reflectors||_F = %.3g exceeds %.3g", call, e, tolH)
	}

	// --- Dlarfb ---
	cd := genGeneral(clsGauss, m, n, r)
	want := cd.clone()
	if c.Right {
		applyQRight(seq, c.Trans, want)
	} else {
		applyQLeft(seq, c.Trans, want)
	}
	ldc := max(1, n) + c.PadC
	pc := newPmat("c", m, n, ldc, pre, post, trim)
	pc.load(cd)
	nw := n
	if c.Right {
		nw = m
	}
	ldw := k + c.PadW
	pw := newPmat("work", nw, k, ldw, 1, 1, true)
	for i := 0; i < nw; i++ {
		for j := 0; j < k; j++ {
			pw.set(i, j, math.NaN()) // workspace contents are unspecified on entry
		}
	}
	tsnap := pt.snapshot()
	side, tr := sideOf(c.Right), transOf(c.Trans)
	callB := fmt.Sprintf("Dlarfb(side=%c,trans=%c,direct=%c,store=%c,m=%d,n=%d,k=%d,ldv=%d,ldt=%d,ldc=%d,ldwork=%d)", side, tr, direct, store, m, n, k, ldv, ldt, ldc, ldw)
	if fl := vk.MustReturn("larfb-panics", func() {
		impl.Dlarfb(side, tr, direct, store, m, n, k, vslice, ldv, pt.sl(), ldt, pc.sl(), ldc, pw.sl(), ldw)
	}); fl != nil {
		fl.Msg = callB + ": " + fl.Msg
		return fl
	}
	if fl := first(pc.checkPad(callB), pw.checkPad(callB), pv.checkSame(callB, vsnap), pt.checkSame(callB, tsnap), pc.checkFinite(callB)); fl != nil {
		return fl
	}
	if e, tol := diffFro(pc.dense(), want), orthTol(max(m, n), k)*cd.fro(); !(e <= tol) {
		return vk.Failf("larfb-result", "%s: ||result - sequential application of the reflectors||_F = %.3g exceeds %.3g", callB, e, tol)
	}
	return nil
}

func TestLarf(t *testing.T) {
	vk.Run(t, "larfg", vk.Opts{Quick: 300, Thorough: 12000, NoCrumb: true}, func(t *rapid.T) larfgCase {
		return larfgCase{N: rapid.IntRange(0, 40).Draw(t, "n"), Inc: rapid.IntRange(1, 4).Draw(t, "inc"),
			Kind: rapid.IntRange(0, 4).Draw(t, "kind"), Seed: vk.SeedGen(t, "seed")}
	}, finish(checkLarfg))
	vk.Run(t, "larf", vk.Opts{Quick: 400, Thorough: 12000, NoCrumb: true}, func(t *rapid.T) larfCase {
		return larfCase{M: rapid.IntRange(0, 24).Draw(t, "m"), N: rapid.IntRange(0, 24).Draw(t, "n"),
			Right: rapid.Bool().Draw(t, "right"), Inc: rapid.SampledFrom([]int{1, 1, 2, 3, -1, -2}).Draw(t, "inc"),
			PadC: vk.Pad(t, "padC"), Tau0: vk.NewSplitMix(rapid.Uint64().Draw(t, "tau0")).Intn(8) == 0,
			ZeroTail: rapid.SampledFrom([]int{0, 0, 1, 3, 30}).Draw(t, "zerotail"), Seed: vk.SeedGen(t, "seed")}
	}, finish(checkLarf))
	vk.Run(t, "larfb", vk.Opts{Quick: 500, Thorough: 15000}, func(t *rapid.T) larfbCase {
		return larfbCase{M: rapid.IntRange(0, 40).Draw(t, "m"), N: rapid.IntRange(0, 40).Draw(t, "n"), K: rapid.IntRange(1, 12).Draw(t, "k"),
			Right: rapid.Bool().Draw(t, "right"), Trans: rapid.Bool().Draw(t, "trans"),
			Backward: rapid.Bool().Draw(t, "backward"), RowWise: rapid.Bool().Draw(t, "rowwise"),
			PadV: vk.Pad(t, "padV"), PadT: vk.Pad(t, "padT"), PadC: vk.Pad(t, "padC"), PadW: vk.Pad(t, "padW"),
			Seed: vk.SeedGen(t, "seed")}
	}, finish(checkLarfb))
}
