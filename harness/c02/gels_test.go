package c02

import (
	"fmt"
	"math"
	"testing"

	"gonum.org/v1/gonum/blas/blas64"
	"gonum.org/v1/gonum/lapack/lapack64"
	"pgregory.net/rapid"
	"verifharness/vk"
)

// ---- Dgels ------------------------------------------------------------------

type gelsCase struct {
	M, N, Nrhs int
	PadA, PadB int
	Trans      bool
	Class      int
	ScaleA     int // A is multiplied by 2^ScaleA (0, +-400, +-975)
	ScaleB     int
	LwMode     int
	LwK        int
	Seed       uint64
}

// houseQR is the reference Householder QR of a tall matrix (rows >= cols):
// it returns the thin Q (rows x cols) and R (cols x cols).
func houseQR(a dm) (q, rm dm) {
	m, n := a.r, a.c
	w := a.clone()
	vs := make([][]float64, n)
	taus := make([]float64, n)
	for j := 0; j < n; j++ {
		v := make([]float64, m)
		norm := 0.0
		for i := j; i < m; i++ {
			norm = math.Hypot(norm, w.at(i, j))
		}
		if norm == 0 {
			continue
		}
		alpha := w.at(j, j)
		beta := -math.Copysign(norm, alpha)
		for i := j + 1; i < m; i++ {
			v[i] = w.at(i, j) / (alpha - beta)
		}
		v[j] = 1
		taus[j] = (beta - alpha) / beta
		vs[j] = v
		applyHLeft(taus[j], v, w)
	}
	rm = newDM(n, n)
	for i := 0; i < n; i++ {
		for j := i; j < n; j++ {
			rm.set(i, j, w.at(i, j))
		}
	}
	q = newDM(m, n)
	for i := 0; i < n; i++ {
		q.set(i, i, 1)
	}
	for j := n - 1; j >= 0; j-- {
		if vs[j] != nil {
			applyHLeft(taus[j], vs[j], q)
		}
	}
	return q, rm
}

// invUpperFro returns ||R^{-1}||_F of an upper triangular matrix (Inf if singular).
func invUpperFro(rm dm) float64 {
	n := rm.r
	s := 0.0
	x := make([]float64, n)
	for c := 0; c < n; c++ { // solve R x = e_c
		for i := n - 1; i >= 0; i-- {
			v := 0.0
			if i == c {
				v = 1
			}
			for j := i + 1; j < n; j++ {
				v -= rm.at(i, j) * x[j]
			}
			if rm.at(i, i) == 0 {
				return math.Inf(1)
			}
			x[i] = v / rm.at(i, i)
		}
		for _, v := range x {
			s += v * v
		}
	}
	return math.Sqrt(s)
}

func checkGels(c gelsCase) *vk.Failure {
	m, n, nrhs := c.M, c.N, c.Nrhs
	mn := min(m, n)
	r := vk.NewSplitMix(c.Seed)
	a0 := genGeneral(c.Class, m, n, r)
	brow, xrow := m, n
	if c.Trans {
		brow, xrow = n, m
	}
	b0 := genGeneral(clsGauss, brow, nrhs, r)
	// Exact power-of-two scaling of the operands; the oracles work on the
	// unscaled problem: (2^sa A) x' = 2^sb b has x' = 2^(sb-sa) x.
	if d := c.ScaleB - c.ScaleA; d > 1000 || d < -1000 {
		c.ScaleB = c.ScaleA // the solution itself would over/underflow
	}
	sa, sb := math.Ldexp(1, c.ScaleA), math.Ldexp(1, c.ScaleB)
	as, bs := a0.clone(), b0.clone()
	for i := range as.d {
		as.d[i] *= sa
	}
	for i := range bs.d {
		bs.d[i] *= sb
	}
	aeff, beff := as.clone(), bs.clone() // what gonum sees, scaled back exactly
	for i := range aeff.d {
		aeff.d[i] = math.Ldexp(aeff.d[i], -c.ScaleA)
	}
	for i := range beff.d {
		beff.d[i] = math.Ldexp(beff.d[i], -c.ScaleB)
	}
	vk.Class("gels:class=" + clsNames[c.Class])
	vk.Class("gels:shape=" + shapeClass(m, n) + fmt.Sprintf(",trans=%v", c.Trans))
	vk.Class(fmt.Sprintf("gels:scaleA=%d,scaleB=%d", c.ScaleA, c.ScaleB))
	vk.Class("gels:lwork=" + lwNames[c.LwMode])
	if mn >= 2 && (mn > nxQR || c.PadA > 0 || c.Trans || c.LwMode != lwQuery || isSingularClass(c.Class) || c.ScaleA != 0 || c.ScaleB != 0) {
		vk.NonTrivial("gels", m, n, nrhs, c.PadA, c.Trans, c.Class, c.ScaleA, c.ScaleB, c.LwMode, c.Seed)
	}
	vk.Sample("gels", c)
	pre, post, trim := padFrom(r)
	lda, ldb := max(1, n)+c.PadA, max(1, nrhs)+c.PadB
	tr := transOf(c.Trans)
	// The routine accepts lwork >= mn+max(mn,nrhs) (the minimum of the reference
	// implementation); the doc comment states the larger max(m,n)+max(m,n,nrhs).
	minW := max(1, mn+max(mn, nrhs))
	ap := newPmat("a", m, n, lda, pre, post, trim)
	ap.load(as)
	bp := newPmat("b", max(m, n), nrhs, ldb, post, pre, trim)
	for i := 0; i < max(m, n); i++ {
		for j := 0; j < nrhs; j++ {
			if i < brow {
				bp.set(i, j, bs.at(i, j))
			} else {
				bp.set(i, j, math.NaN()) // rows beyond B are not input
			}
		}
	}
	q, fl := wsQuery(fmt.Sprintf("Dgels(trans=%c,m=%d,n=%d,nrhs=%d,lda=%d,ldb=%d)", tr, m, n, nrhs, lda, ldb), minW, func(w []float64) {
		impl.Dgels(tr, m, n, nrhs, ap.sl(), lda, bp.sl(), ldb, w, -1)
	}, ap, bp)
	if fl != nil && fl.Key == "query-touches-operand" && (mn == 0 || nrhs == 0) {
		// Dgels takes its quick return (which clears B) before it looks at
		// lwork == -1: a query with min(m,n) == 0 zeroes b.
		fl.Key = "query-degenerate-zeroes-b"
		if deferred == nil {
			deferred = fl
		}
		fl, q = nil, minW
	}
	if fl != nil {
		return fl
	}
	modes := []int{c.LwMode}
	if c.LwMode != lwMin && mn > nbQR {
		modes = append(modes, lwMin)
	}
	for mi, mode := range modes {
		lw := lworkFor(mode, c.LwK, minW, q)
		w := newWork(lw, c.LwK%3)
		ga, gb := ap.clone(), bp.clone()
		var ok bool
		call := fmt.Sprintf("Dgels(trans=%c,m=%d,n=%d,nrhs=%d,lda=%d,ldb=%d,lwork=%d[%s],query=%d,scaleA=2^%d,scaleB=2^%d)", tr, m, n, nrhs, lda, ldb, lw, lwNames[mode], q, c.ScaleA, c.ScaleB)
		if fl := vk.MustReturn("gels-panics", func() { ok = impl.Dgels(tr, m, n, nrhs, ga.sl(), lda, gb.sl(), ldb, w.sl(), lw) }); fl != nil {
			fl.Msg = call + ": " + fl.Msg
			return fl
		}
		if fl := first(ga.checkPad(call), gb.checkPad(call), deferOverrun(w.check(call))); fl != nil {
			return fl
		}
		if mi == 0 {
			g3a, g3b := ap.clone(), bp.clone()
			w3 := newWork(lw, 0)
			var ok3 bool
			if fl := vk.MustReturn("lapack64-gels-panics", func() {
				ok3 = lapack64.Gels(tr, blas64.General{Rows: m, Cols: n, Stride: lda, Data: g3a.sl()}, blas64.General{Rows: max(m, n), Cols: nrhs, Stride: ldb, Data: g3b.sl()}, w3.sl(), lw)
			}); fl != nil {
				return fl
			}
			if fl := first(g3a.checkSame("lapack64.Gels vs Dgels", ga.buf), g3b.checkSame("lapack64.Gels vs Dgels", gb.buf)); fl != nil || ok3 != ok {
				return vk.Failf("lapack64-gels-differs", "%s: wrapper differs (ok %v vs %v)", call, ok3, ok)
			}
		}
		// (an all-zero A takes the documented-by-reference shortcut X = 0, ok = true)
		forced := mn > 0 && nrhs > 0 && as.maxAbs() != 0 && (c.Class == clsZeroCol && m >= n || c.Class == clsZeroRow && m < n)
		if forced && ok {
			return vk.Failf("gels-singular-not-reported", "%s: the triangular factor has an exactly zero diagonal (class %s) but ok=true", call, clsNames[c.Class])
		}
		if !ok {
			vk.Class("gels:ok=false")
			continue
		}
		// (work[0] after a real run is not documented for Dgels; by convention it
		// holds the optimal length when the solve succeeded.)
		if fl := checkWork0(call, w.sl()[0], 1); fl != nil {
			return fl
		}
		if mn == 0 || nrhs == 0 || as.maxAbs() == 0 {
			// quick return / all-zero A: the solution is zero
			for i := 0; i < xrow && nrhs > 0; i++ {
				for j := 0; j < nrhs; j++ {
					if gb.at(i, j) != 0 {
						return vk.Failf("gels-degenerate", "%s: X[%d,%d]=%v, want 0", call, i, j, gb.at(i, j))
					}
				}
			}
			continue
		}
		// solution of the unscaled problem
		x := newDM(xrow, nrhs)
		// integer-valued classes may be exactly or nearly singular: a huge solution
		// times the scale factor may overflow legitimately.
		illPosed := !(c.Class == clsGauss || c.Class == clsDiagDom || c.Class == clsKappa3)
		overflow := false
		for i := 0; i < xrow; i++ {
			for j := 0; j < nrhs; j++ {
				v := math.Ldexp(gb.at(i, j), c.ScaleA-c.ScaleB)
				if math.IsNaN(v) || math.IsInf(v, 0) {
					if !illPosed {
						return vk.Failf("non-finite-output", "%s: X[%d,%d]=%v", call, i, j, gb.at(i, j))
					}
					overflow = true
				}
				x.set(i, j, v)
			}
		}
		if overflow {
			vk.Class("gels:ill-posed-overflow-skipped")
			continue
		}
		// Known defect family: for max|A| > 2^970 (bignum) Dgels scales A down but
		// never rescales the solution (iascl is not set to 2). Failures of the
		// oracles in that regime carry their own key.
		// Second family: for m < n with trans == Trans the variable scllen is never
		// set, so no rescaling of the solution happens at all when A or B was scaled.
		key := func(k string) string {
			big, sml := math.Ldexp(1, 970), math.Ldexp(1, -970)
			an, bn := as.maxAbs(), bs.maxAbs()
			if m < n && c.Trans && (an > big || an < sml || bn > big || (bn > 0 && bn < sml)) {
				return "wide-trans-solution-not-rescaled"
			}
			if an > big {
				return "hugeA-solution-not-rescaled"
			}
			return k
		}
		mm := opOf(aeff, c.Trans) // the system is mm * x ~ beff
		na, nx, nb := mm.fro(), x.fro(), beff.fro()
		tol := orthTol(m, n) * (na*nx + nb)
		res := mulP(mm, x)
		for i := range res.d {
			res.d[i] = beff.d[i] - res.d[i]
		}
		if mm.r >= mm.c {
			// least squares: ||M^T (b - M x)||_F <= C max(m,n) eps ||M||_F (||M||_F ||x||_F + ||b||_F)
			// (x is the exact least-squares solution of a nearby problem).
			g := mulP(mm.t(), res)
			if e := g.fro(); !(e <= tol*na) {
				return vk.Failf(key("gels-normal-equations"), "%s: ||op(A)^T (B - op(A) X)||_F = %.3g exceeds %.3g", call, e, tol*na)
			}
		}
		if mm.r <= mm.c {
			// consistent system: ||b - M x||_F small, and x in range(M^T) up to
			// C max(m,n) eps kappa ||x|| with kappa <= ||M||_F ||R^{-1}||_F from the
			// reference QR of M^T.
			if e := res.fro(); !(e <= tol) {
				return vk.Failf(key("gels-residual"), "%s: ||B - op(A) X||_F = %.3g exceeds %.3g", call, e, tol)
			}
			if mm.r < mm.c {
				qq, rr := houseQR(mm.t())
				kappa := na * invUpperFro(rr)
				if delta := orthTol(m, n) * kappa; delta <= 0.1 {
					proj := mulP(qq, mulP(qq.t(), x))
					if e := diffFro(proj, x); !(e <= delta*nx+orthTol(m, n)*nx) {
						return vk.Failf(key("gels-not-minimum-norm"), "%s: distance of X from range(op(A)^T) = %.3g exceeds %.3g (kappa estimate %.3g)", call, e, delta*nx, kappa)
					}
					vk.Class("gels:min-norm-checked")
				} else {
					vk.Class("gels:min-norm-skipped-ill-conditioned")
				}
			}
		}
	}
	return nil
}

func drawGels(t *rapid.T) gelsCase {
	var m, n int
	if vk.NewSplitMix(rapid.Uint64().Draw(t, "bigsel")).Intn(10) < 2 {
		m = rapid.IntRange(129, 190).Draw(t, "mBig")
		n = rapid.IntRange(129, 190).Draw(t, "nBig")
	} else {
		m, n = drawShape(t, 60, 120)
	}
	sc := []int{0, 0, 0, 0, 0, 0, 0, 0, 400, -400, 975, -975}
	return gelsCase{
		M: m, N: n, Nrhs: drawNrhs(t),
		PadA: vk.Pad(t, "padA"), PadB: vk.Pad(t, "padB"),
		Trans:  rapid.Bool().Draw(t, "trans"),
		Class:  rapid.IntRange(0, nGeneralClasses-1).Draw(t, "class"),
		ScaleA: sc[vk.NewSplitMix(rapid.Uint64().Draw(t, "scaleA")).Intn(len(sc))],
		ScaleB: sc[vk.NewSplitMix(rapid.Uint64().Draw(t, "scaleB")).Intn(len(sc))],
		LwMode: rapid.IntRange(0, nLwModes-1).Draw(t, "lwmode"),
		LwK:    rapid.IntRange(0, 100000).Draw(t, "lwk"),
		Seed:   vk.SeedGen(t, "seed"),
	}
}

func TestGels(t *testing.T) {
	vk.Run(t, "gels", vk.Opts{Quick: 500, Thorough: 12000}, drawGels, finish(checkGels))
}
