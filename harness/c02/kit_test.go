package c02

import (
	"fmt"
	"math"
	"strings"

	"gonum.org/v1/gonum/blas"
	"gonum.org/v1/gonum/lapack"
	"gonum.org/v1/gonum/lapack/gonum"
	"pgregory.net/rapid"
	"verifharness/vk"
)

var impl = gonum.Implementation{}

// ---------------------------------------------------------------------------
// Rounding bounds (all tolerances used by the sub-checks are derived here).
// ---------------------------------------------------------------------------

// gam is Higham's gamma_k = k*u/(1-k*u), u = 2^-53.
func gam(k int) float64 {
	ku := float64(k) * vk.Eps
	return ku / (1 - ku)
}

// cwBound is the componentwise acceptance factor for an identity whose exact
// rounding analysis gives gamma_k*S (S = the product of absolute values): the
// routine under test contributes at most gamma_{k+c} (c a small routine
// dependent constant <= 4 covering reciprocal scaling, square roots and the
// alpha/beta combination of the BLAS call), the float64 reference product used
// to evaluate the residual contributes another gamma_k, and a factor is left
// as slack. Every componentwise test of this package is
//
//	|residual_ij| <= cwBound(k, nfac) * S_ij
//
// where nfac is the number of gamma_k terms of the analysis (1 for a
// factorization, 2-3 for a solve through two triangular factors).
func cwBound(k, nfac int) float64 {
	return float64(2*(nfac+1)) * gam(k+4)
}

// cOrth is the constant C of the normwise bound C*max(m,n)*eps*||A||_F used
// for everything built from Householder reflectors (DESIGN section 3: two
// orders above what Householder methods deliver, ten orders below the effect
// of an indexing or sign error).
const cOrth = 200.0

func orthTol(m, n int) float64 {
	return cOrth * float64(max(1, max(m, n))) * vk.Eps
}

// ---------------------------------------------------------------------------
// Sentinel-padded operands.
// ---------------------------------------------------------------------------

// sentinel returns a quiet NaN whose payload encodes the operand tag and the
// buffer position.
func sentinel(tag uint32, pos int) float64 {
	return math.Float64frombits(0x7ff8_0000_0000_0000 | uint64(tag&0xffff)<<32 | uint64(uint32(pos+1)))
}

// pmat is an r x c row-major matrix embedded in a larger buffer. Every buffer
// position that is not a referenced element holds sentinel(tag,pos).
type pmat struct {
	name    string
	buf     []float64
	off     int
	r, c    int
	ld      int
	tag     uint32
	trimCap bool
	// ref reports whether element (i,j) is referenced by the routine (nil:
	// all r*c elements). Unreferenced elements keep their sentinels.
	ref func(i, j int) bool
}

var tagCounter uint32

func newPmat(name string, r, c, ld, pre, post int, trimCap bool) *pmat {
	if ld < max(1, c) {
		ld = max(1, c)
	}
	// An r x 0 operand still spans (r-1)*ld positions: several routines check
	// len(b) >= (n-1)*ldb+nrhs before looking at nrhs.
	need := 0
	if r > 0 {
		need = (r-1)*ld + c
	}
	tagCounter++
	p := &pmat{name: name, off: pre, r: r, c: c, ld: ld, tag: tagCounter, trimCap: trimCap}
	p.buf = make([]float64, pre+need+post)
	for i := range p.buf {
		p.buf[i] = sentinel(p.tag, i)
	}
	return p
}

// padFrom derives prefix/suffix/cap choices from a generator.
func padFrom(r *vk.SplitMix) (pre, post int, trim bool) {
	return r.Intn(4), r.Intn(4), r.Intn(2) == 0
}

func (p *pmat) need() int {
	if p.r > 0 {
		return (p.r-1)*p.ld + p.c
	}
	return 0
}

// sl returns the slice handed to the routine under test (exactly the minimal
// length; capacity trimmed or not).
func (p *pmat) sl() []float64 {
	end := p.off + p.need()
	if p.trimCap {
		return p.buf[p.off:end:end]
	}
	return p.buf[p.off:end]
}

func (p *pmat) at(i, j int) float64     { return p.buf[p.off+i*p.ld+j] }
func (p *pmat) set(i, j int, v float64) { p.buf[p.off+i*p.ld+j] = v }

// load copies the referenced elements of d into p.
func (p *pmat) load(d dm) {
	for i := 0; i < p.r; i++ {
		for j := 0; j < p.c; j++ {
			if p.ref == nil || p.ref(i, j) {
				p.set(i, j, d.at(i, j))
			}
		}
	}
}

// dense extracts the r x c contents (unreferenced elements as they are).
func (p *pmat) dense() dm {
	d := newDM(p.r, p.c)
	for i := 0; i < p.r; i++ {
		for j := 0; j < p.c; j++ {
			d.set(i, j, p.at(i, j))
		}
	}
	return d
}

func (p *pmat) isElem(pos int) bool {
	q := pos - p.off
	if q < 0 || q >= p.need() {
		return false
	}
	i, j := q/p.ld, q%p.ld
	if i >= p.r || j >= p.c {
		return false
	}
	return p.ref == nil || p.ref(i, j)
}

// checkPad verifies that every non-element position still holds its sentinel.
func (p *pmat) checkPad(call string) *vk.Failure {
	for pos, v := range p.buf {
		if p.isElem(pos) {
			continue
		}
		if math.Float64bits(v) != math.Float64bits(sentinel(p.tag, pos)) {
			q := pos - p.off
			return vk.Failf("padding-modified", "%s: operand %s (r=%d c=%d ld=%d off=%d): buffer position %d (row %d col %d of the stride grid) outside the referenced elements changed to %v",
				call, p.name, p.r, p.c, p.ld, p.off, pos, floorDiv(q, p.ld), mod(q, p.ld), v)
		}
	}
	return nil
}

// checkFinite verifies that no referenced element is NaN (a read of padding or
// of uninitialised workspace propagates a NaN payload into the result).
func (p *pmat) checkFinite(call string) *vk.Failure {
	for i := 0; i < p.r; i++ {
		for j := 0; j < p.c; j++ {
			if p.ref != nil && !p.ref(i, j) {
				continue
			}
			if v := p.at(i, j); math.IsNaN(v) || math.IsInf(v, 0) {
				return vk.Failf("non-finite-output", "%s: operand %s element (%d,%d) = %v on finite well-posed input (r=%d c=%d ld=%d)", call, p.name, i, j, v, p.r, p.c, p.ld)
			}
		}
	}
	return nil
}

func (p *pmat) snapshot() []float64 { return append([]float64(nil), p.buf...) }

// checkSame verifies that the whole buffer is bit-identical to snap.
func (p *pmat) checkSame(call string, snap []float64) *vk.Failure {
	for i := range snap {
		if math.Float64bits(snap[i]) != math.Float64bits(p.buf[i]) {
			q := i - p.off
			return vk.Failf("readonly-modified", "%s: read-only operand %s changed at buffer position %d (row %d col %d): %v -> %v", call, p.name, i, floorDiv(q, p.ld), mod(q, p.ld), snap[i], p.buf[i])
		}
	}
	return nil
}

// checkSameElems verifies that the referenced elements of p and q are bit-identical.
func (p *pmat) checkSameElems(call string, q *pmat) *vk.Failure {
	for i := 0; i < p.r; i++ {
		for j := 0; j < p.c; j++ {
			if p.ref != nil && !p.ref(i, j) {
				continue
			}
			if math.Float64bits(p.at(i, j)) != math.Float64bits(q.at(i, j)) {
				return vk.Failf("results-differ", "%s: operand %s element (%d,%d): %v vs %v", call, p.name, i, j, p.at(i, j), q.at(i, j))
			}
		}
	}
	return nil
}

// clone returns a copy with the same geometry and a fresh tag-independent
// buffer (sentinels are copied, so checkPad keeps working with the same tag).
func (p *pmat) clone() *pmat {
	q := *p
	q.buf = append([]float64(nil), p.buf...)
	return &q
}

func floorDiv(a, b int) int {
	q := a / b
	if a%b != 0 && (a < 0) != (b < 0) {
		q--
	}
	return q
}
func mod(a, b int) int { return a - floorDiv(a, b)*b }

// pvec is a sentinel-padded vector with unit increment (tau, d, e, work ...).
func newPvec(name string, n, pre, post int, trim bool) *pmat {
	return newPmat(name, 1, n, n, pre, post, trim)
}

// pints is a sentinel padded []int.
type pints struct {
	name string
	buf  []int
	off  int
	n    int
}

const intSentinel = -0x5a5a5a5a

func newPints(name string, n, pre, post int) *pints {
	p := &pints{name: name, off: pre, n: n, buf: make([]int, pre+n+post)}
	for i := range p.buf {
		p.buf[i] = intSentinel - i
	}
	return p
}
func (p *pints) sl() []int { return p.buf[p.off : p.off+p.n : p.off+p.n] }
func (p *pints) checkPad(call string) *vk.Failure {
	for i, v := range p.buf {
		if i >= p.off && i < p.off+p.n {
			continue
		}
		if v != intSentinel-i {
			return vk.Failf("padding-modified", "%s: int operand %s: position %d outside the slice changed to %d", call, p.name, i, v)
		}
	}
	return nil
}
func (p *pints) snapshot() []int { return append([]int(nil), p.buf...) }
func (p *pints) checkSame(call string, snap []int) *vk.Failure {
	for i := range snap {
		if snap[i] != p.buf[i] {
			return vk.Failf("readonly-modified", "%s: read-only int operand %s changed at %d: %d -> %d", call, p.name, i-p.off, snap[i], p.buf[i])
		}
	}
	return nil
}

// Some violations (writes beyond lwork) do not invalidate the remainder of a
// case. They are remembered and reported at the end of the case, so that the
// other oracles still run when such a violation is a known finding.
var deferred *vk.Failure

func begin() {
	deferred = nil
}

// deferOverrun keeps work-overrun failures for the end of the case and returns
// every other failure immediately.
func deferOverrun(fl *vk.Failure) *vk.Failure {
	if fl != nil && strings.HasPrefix(fl.Key, "work-overrun-") {
		if deferred == nil {
			deferred = fl
		}
		return nil
	}
	return fl
}

// finish wraps a check function so that a deferred failure is reported.
func finish[C any](check func(C) *vk.Failure) func(C) *vk.Failure {
	return func(c C) *vk.Failure {
		begin()
		if fl := check(c); fl != nil {
			return fl
		}
		return deferred
	}
}

// first returns the first non-nil failure.
func first(fs ...*vk.Failure) *vk.Failure {
	for _, f := range fs {
		if f != nil {
			return f
		}
	}
	return nil
}

// ---------------------------------------------------------------------------
// Workspace handling.
// ---------------------------------------------------------------------------

// lwork modes
const (
	lwMin = iota
	lwQuery
	lwBetween
	lwPlus
	nLwModes
)

var lwNames = [...]string{"min", "query", "between", "query+k"}

func lworkFor(mode, k, minW, queryW int) int {
	if queryW < minW {
		queryW = minW
	}
	switch mode {
	case lwMin:
		return minW
	case lwQuery:
		return queryW
	case lwBetween:
		if queryW-minW >= 2 {
			return minW + 1 + k%(queryW-minW-1)
		}
		return minW
	}
	return queryW + 1 + k%64
}

// work is a sentinel workspace. The slice handed over has length
// max(1,lwork)+tail; the tail (beyond lwork) must stay untouched because
// "lwork specifies the usable memory length".
type work struct {
	p     *pmat
	lwork int
}

func newWork(lwork, tail int) *work {
	n := max(1, lwork)
	w := &work{p: newPvec("work", n+tail, 1, 1, true), lwork: lwork}
	return w
}
func (w *work) sl() []float64 { return w.p.sl() }

// check verifies the part of the buffer beyond lwork and the padding.
func (w *work) check(call string) *vk.Failure {
	n := max(1, w.lwork)
	for pos, v := range w.p.buf {
		q := pos - w.p.off
		if q >= 0 && q < n {
			continue
		}
		if math.Float64bits(v) != math.Float64bits(sentinel(w.p.tag, pos)) {
			name := call
			if i := strings.IndexAny(name, "( "); i > 0 {
				name = name[:i]
			}
			return vk.Failf("work-overrun-"+name, "%s: work[%d] changed to %v although lwork=%d (len(work)=%d): lwork is documented as the usable length of work", call, q, v, w.lwork, len(w.sl()))
		}
	}
	return nil
}

// queryResult runs a workspace query: f is called with a 1-element sentinel
// work slice; operands are snapshotted by the caller through ops. It returns
// the reported length.
func wsQuery(call string, minW int, f func(work []float64), ops ...interface {
	snapshotAny() any
	checkSameAny(call string, snap any) *vk.Failure
}) (int, *vk.Failure) {
	w := newPvec("work", 1, 2, 2, true)
	snaps := make([]any, len(ops))
	for i, o := range ops {
		snaps[i] = o.snapshotAny()
	}
	if fl := vk.MustReturn("query-panics", func() { f(w.sl()) }); fl != nil {
		fl.Msg = call + " with lwork=-1: " + fl.Msg
		return 0, fl
	}
	if fl := w.checkPad(call + " lwork=-1"); fl != nil {
		return 0, fl
	}
	for i, o := range ops {
		if fl := o.checkSameAny(call+" lwork=-1", snaps[i]); fl != nil {
			fl.Key = "query-touches-operand"
			return 0, fl
		}
	}
	v := w.at(0, 0)
	if math.IsNaN(v) || v != math.Floor(v) || v < 1 || v > 1e9 {
		return 0, vk.Failf("query-value", "%s lwork=-1: work[0]=%v is not a valid length", call, v)
	}
	q := int(v)
	if q < minW {
		// The reported length is rejected by the routine itself (lwork below the
		// documented minimum panics): the query is not sufficient. Deferred, so
		// that the remainder of the case runs with the documented minimum.
		name := call
		if i := strings.IndexAny(name, "( "); i > 0 {
			name = name[:i]
		}
		if deferred == nil {
			deferred = vk.Failf("query-insufficient-"+name, "%s lwork=-1 reports work[0]=%d which is below the documented minimum lwork %d (running with the reported length panics)", call, q, minW)
		}
		return minW, nil
	}
	return q, nil
}

// routineName returns the routine name at the start of a call description.
func routineName(call string) string {
	if i := strings.IndexAny(call, "( "); i > 0 {
		return call[:i]
	}
	return call
}

// checkWork0 verifies that work[0] on return from a real run is a sufficient
// length. A value below the documented minimum has the same root cause as an
// insufficient query result and is deferred under the same key.
func checkWork0(call string, w0 float64, minW int) *vk.Failure {
	if math.IsNaN(w0) || w0 != math.Floor(w0) || w0 < 1 {
		return vk.Failf("work0-invalid", "%s: work[0]=%v on return is not a length", call, w0)
	}
	if w0 < float64(minW) && deferred == nil {
		deferred = vk.Failf("query-insufficient-"+routineName(call), "%s: work[0]=%v on return is below the documented minimum lwork %d", call, w0, minW)
	}
	return nil
}

func (p *pmat) snapshotAny() any { return p.snapshot() }
func (p *pmat) checkSameAny(call string, s any) *vk.Failure {
	return p.checkSame(call, s.([]float64))
}
func (p *pints) snapshotAny() any { return p.snapshot() }
func (p *pints) checkSameAny(call string, s any) *vk.Failure {
	return p.checkSame(call, s.([]int))
}

// ---------------------------------------------------------------------------
// Dense reference matrices and the naive reference BLAS.
// ---------------------------------------------------------------------------

type dm struct {
	r, c int
	d    []float64
}

func newDM(r, c int) dm              { return dm{r, c, make([]float64, r*c)} }
func (a dm) at(i, j int) float64     { return a.d[i*a.c+j] }
func (a dm) set(i, j int, v float64) { a.d[i*a.c+j] = v }
func (a dm) add(i, j int, v float64) { a.d[i*a.c+j] += v }
func (a dm) clone() dm               { return dm{a.r, a.c, append([]float64(nil), a.d...)} }
func (a dm) row(i int) []float64     { return a.d[i*a.c : (i+1)*a.c] }
func eye(n int) dm {
	e := newDM(n, n)
	for i := 0; i < n; i++ {
		e.set(i, i, 1)
	}
	return e
}
func (a dm) t() dm {
	b := newDM(a.c, a.r)
	for i := 0; i < a.r; i++ {
		for j := 0; j < a.c; j++ {
			b.set(j, i, a.at(i, j))
		}
	}
	return b
}
func (a dm) abs() dm {
	b := newDM(a.r, a.c)
	for i, v := range a.d {
		b.d[i] = math.Abs(v)
	}
	return b
}
func (a dm) sub(i0, i1, j0, j1 int) dm {
	b := newDM(i1-i0, j1-j0)
	for i := i0; i < i1; i++ {
		copy(b.row(i-i0), a.d[i*a.c+j0:i*a.c+j1])
	}
	return b
}
func (a dm) fro() float64 {
	// plain scaled-free sum: data are moderate by construction
	s := 0.0
	for _, v := range a.d {
		s += v * v
	}
	return math.Sqrt(s)
}
func (a dm) maxAbs() float64 {
	s := 0.0
	for _, v := range a.d {
		if math.Abs(v) > s || math.IsNaN(v) {
			s = math.Abs(v)
		}
	}
	return s
}
func (a dm) norm1() float64 {
	best := 0.0
	for j := 0; j < a.c; j++ {
		s := 0.0
		for i := 0; i < a.r; i++ {
			s += math.Abs(a.at(i, j))
		}
		if s > best {
			best = s
		}
	}
	return best
}
func (a dm) normInf() float64 {
	best := 0.0
	for i := 0; i < a.r; i++ {
		s := 0.0
		for _, v := range a.row(i) {
			s += math.Abs(v)
		}
		if s > best {
			best = s
		}
	}
	return best
}
func (a dm) hasNaN() bool {
	for _, v := range a.d {
		if math.IsNaN(v) || math.IsInf(v, 0) {
			return true
		}
	}
	return false
}

// mul returns P = A*B and S = |A|*|B| (plain float64 triple loop, i-k-j order).
func mul(a, b dm) (p, s dm) {
	if a.c != b.r {
		panic(fmt.Sprintf("mul: %dx%d * %dx%d", a.r, a.c, b.r, b.c))
	}
	p, s = newDM(a.r, b.c), newDM(a.r, b.c)
	for i := 0; i < a.r; i++ {
		pi, si := p.row(i), s.row(i)
		for k := 0; k < a.c; k++ {
			v := a.at(i, k)
			if v == 0 {
				continue
			}
			av := math.Abs(v)
			bk := b.row(k)
			for j, w := range bk {
				pi[j] += v * w
				si[j] += av * math.Abs(w)
			}
		}
	}
	return p, s
}

// mulP returns only the product.
func mulP(a, b dm) dm {
	p, _ := mul(a, b)
	return p
}

// diffFro returns ||a-b||_F.
func diffFro(a, b dm) float64 {
	s := 0.0
	for i := range a.d {
		d := a.d[i] - b.d[i]
		s += d * d
	}
	return math.Sqrt(s)
}

// cwCheck verifies |want-got|_ij <= tol*S_ij + tiny for all i,j and returns a
// description of the worst violation.
func cwCheck(key, what string, want, got, s dm, tol float64) *vk.Failure {
	worst, wi, wj := 0.0, -1, -1
	for i := 0; i < want.r; i++ {
		for j := 0; j < want.c; j++ {
			d := math.Abs(want.at(i, j) - got.at(i, j))
			b := tol * s.at(i, j)
			if !(d <= b) { // also catches NaN
				ratio := math.Inf(1)
				if b > 0 && !math.IsNaN(d) {
					ratio = d / b
				}
				if wi < 0 || ratio > worst {
					worst, wi, wj = ratio, i, j
				}
			}
		}
	}
	if wi >= 0 {
		return vk.Failf(key, "%s: element (%d,%d): |%v - %v| = %.3g exceeds the componentwise bound %.3g (= %.3g * %.3g), ratio %.3g",
			what, wi, wj, want.at(wi, wj), got.at(wi, wj), math.Abs(want.at(wi, wj)-got.at(wi, wj)), tol*s.at(wi, wj), tol, s.at(wi, wj), worst)
	}
	return nil
}

// ---------------------------------------------------------------------------
// Householder reference.
// ---------------------------------------------------------------------------

// applyHLeft overwrites C with (I - tau v v^T) C; v has length C.r.
func applyHLeft(tau float64, v []float64, c dm) {
	if tau == 0 {
		return
	}
	for j := 0; j < c.c; j++ {
		s := 0.0
		for i := 0; i < c.r; i++ {
			s += v[i] * c.at(i, j)
		}
		s *= tau
		for i := 0; i < c.r; i++ {
			c.add(i, j, -s*v[i])
		}
	}
}

// applyHRight overwrites C with C (I - tau v v^T); v has length C.c.
func applyHRight(tau float64, v []float64, c dm) {
	if tau == 0 {
		return
	}
	for i := 0; i < c.r; i++ {
		ri := c.row(i)
		s := 0.0
		for j, w := range ri {
			s += w * v[j]
		}
		s *= tau
		for j := range ri {
			ri[j] -= s * v[j]
		}
	}
}

// orthErr returns ||Q^T Q - I||_F for a matrix with orthonormal columns, or
// ||Q Q^T - I||_F with rows=true.
func orthErr(q dm, rows bool) float64 {
	if rows {
		q = q.t()
	}
	g := mulP(q.t(), q)
	for i := 0; i < g.r; i++ {
		g.add(i, i, -1)
	}
	return g.fro()
}

// ---------------------------------------------------------------------------
// Matrix classes.
// ---------------------------------------------------------------------------

const (
	clsGauss = iota
	clsFinite
	clsSmallInt
	clsDiagDom
	clsKappa3 // prescribed singular values, kappa = 1e3
	clsKappa8 // kappa = 1e8
	clsZeroCol
	clsZeroRow
	clsDupRow
	nGeneralClasses
)

var clsNames = [...]string{"gauss", "finite", "smallint", "diagdom", "kappa1e3", "kappa1e8", "zerocol", "zerorow", "duprow"}

func isSingularClass(c int) bool { return c == clsZeroCol || c == clsZeroRow || c == clsDupRow }

// genGeneral builds an m x n matrix of the class.
func genGeneral(cls, m, n int, r *vk.SplitMix) dm {
	a := newDM(m, n)
	switch cls {
	case clsFinite:
		r.FillFinite(a.d)
	case clsSmallInt:
		for i := range a.d {
			a.d[i] = float64(r.Intn(9) - 4)
		}
	case clsKappa3, clsKappa8:
		k := min(m, n)
		kappa := 1e3
		if cls == clsKappa8 {
			kappa = 1e8
		}
		for i := 0; i < k; i++ {
			e := 0.0
			if k > 1 {
				e = float64(i) / float64(k-1)
			}
			a.set(i, i, math.Pow(kappa, -e))
		}
		for rep := 0; rep < 2; rep++ {
			if m > 0 {
				v := unitVec(m, r)
				applyHLeft(2, v, a)
			}
			if n > 0 {
				v := unitVec(n, r)
				applyHRight(2, v, a)
			}
		}
	default:
		for i := range a.d {
			a.d[i] = r.Norm()
		}
	}
	switch cls {
	case clsDiagDom:
		for i := 0; i < min(m, n); i++ {
			s := 1.0
			for j := 0; j < n; j++ {
				s += math.Abs(a.at(i, j))
			}
			for k := 0; k < m; k++ {
				s += math.Abs(a.at(k, i))
			}
			if r.Intn(2) == 0 {
				s = -s
			}
			a.set(i, i, s)
		}
	case clsZeroCol:
		if n > 0 {
			j := r.Intn(n)
			if min(m, n) > 0 && j >= min(m, n) {
				j = r.Intn(min(m, n))
			}
			for i := 0; i < m; i++ {
				a.set(i, j, 0)
			}
		}
	case clsZeroRow:
		if m > 0 {
			i := r.Intn(m)
			for j := 0; j < n; j++ {
				a.set(i, j, 0)
			}
		}
	case clsDupRow:
		if m > 1 {
			i := r.Intn(m)
			k := r.Intn(m - 1)
			if k >= i {
				k++
			}
			copy(a.row(k), a.row(i))
		}
	}
	return a
}

func unitVec(n int, r *vk.SplitMix) []float64 {
	v := make([]float64, n)
	s := 0.0
	for i := range v {
		v[i] = r.Norm()
		s += v[i] * v[i]
	}
	if s == 0 {
		v[0], s = 1, 1
	}
	s = 1 / math.Sqrt(s)
	for i := range v {
		v[i] *= s
	}
	return v
}

// genSPD returns B^T B + delta*I (n x n, symmetric by construction).
func genSPD(n int, r *vk.SplitMix, delta float64, ints bool) dm {
	b := newDM(n, n)
	for i := range b.d {
		if ints {
			b.d[i] = float64(r.Intn(5) - 2)
		} else {
			b.d[i] = r.Norm()
		}
	}
	a := symGram(b)
	for i := 0; i < n; i++ {
		a.add(i, i, delta)
	}
	return a
}

// symGram returns B^T B with exactly symmetric entries.
func symGram(b dm) dm {
	n := b.c
	a := newDM(n, n)
	bt := b.t()
	for i := 0; i < n; i++ {
		for j := i; j < n; j++ {
			s := 0.0
			ri, rj := bt.row(i), bt.row(j)
			for k := range ri {
				s += ri[k] * rj[k]
			}
			a.set(i, j, s)
			a.set(j, i, s)
		}
	}
	return a
}

// genSymGauss returns a symmetric matrix with Gaussian entries.
func genSymGauss(n int, r *vk.SplitMix) dm {
	a := newDM(n, n)
	for i := 0; i < n; i++ {
		for j := i; j < n; j++ {
			v := r.Norm()
			a.set(i, j, v)
			a.set(j, i, v)
		}
	}
	return a
}

// ---------------------------------------------------------------------------
// Flags, sizes.
// ---------------------------------------------------------------------------

func uploOf(upper bool) blas.Uplo {
	if upper {
		return blas.Upper
	}
	return blas.Lower
}
func transOf(t bool) blas.Transpose {
	if t {
		return blas.Trans
	}
	return blas.NoTrans
}
func diagOf(unit bool) blas.Diag {
	if unit {
		return blas.Unit
	}
	return blas.NonUnit
}
func sideOf(right bool) blas.Side {
	if right {
		return blas.Right
	}
	return blas.Left
}

var normKinds = [...]lapack.MatrixNorm{lapack.MaxAbs, lapack.MaxColumnSum, lapack.MaxRowSum, lapack.Frobenius}
var normNames = [...]string{"max", "one", "inf", "fro"}

var dimBoundaries = []int{0, 1, 2, 31, 32, 33, 63, 64, 65, 127, 128, 129}

// drawDim draws a size in [0,big]: about 6% degenerate (0 or 1), 12% large
// (65..big, biased to 127..129), 30% at the block-size boundaries
// 31..33 / 63..65 (when <= small) and the remainder uniform in [2,small].
// vk.Dim is used for the boundary mixture of the large range.
func drawDim(t *rapid.T, label string, small, big int) int {
	// rapid's integer generators favour small values; the mixture selector is
	// therefore hashed so that the stated proportions hold.
	k := vk.NewSplitMix(rapid.Uint64().Draw(t, label+"_mix")).Intn(100)
	switch {
	case k < 6:
		return rapid.IntRange(0, 1).Draw(t, label+"_deg")
	case k < 18 && big > small:
		return vk.Dim(t, label+"_big", min(65, big), big, 65, 128, big)
	case k < 48:
		var cand []int
		for _, b := range []int{2, 3, 4, 31, 32, 33, 63, 64, 65} {
			if b <= small {
				cand = append(cand, b)
			}
		}
		return rapid.SampledFrom(cand).Draw(t, label+"_bnd")
	}
	return rapid.IntRange(2, small).Draw(t, label)
}

// drawShape draws (m,n) tall / wide / square in equal thirds.
func drawShape(t *rapid.T, small, big int) (m, n int) {
	a := drawDim(t, "dimA", small, big)
	switch vk.NewSplitMix(rapid.Uint64().Draw(t, "shape")).Intn(3) {
	case 0:
		return a, a
	case 1:
		b := drawDim(t, "dimB", small, big)
		return max(a, b), min(a, b)
	default:
		b := drawDim(t, "dimB", small, big)
		return min(a, b), max(a, b)
	}
}

func drawNrhs(t *rapid.T) int {
	if vk.NewSplitMix(rapid.Uint64().Draw(t, "nrhs0")).Intn(20) == 0 {
		return 0
	}
	return rapid.SampledFrom([]int{1, 1, 2, 3, 4, 5, 7, 9}).Draw(t, "nrhs")
}

func sizeClass(n int) string {
	switch {
	case n == 0:
		return "0"
	case n == 1:
		return "1"
	case n <= 32:
		return "2-32"
	case n <= 64:
		return "33-64"
	case n <= 128:
		return "65-128"
	}
	return ">128"
}

func shapeClass(m, n int) string {
	switch {
	case m == n:
		return "square"
	case m > n:
		return "tall"
	}
	return "wide"
}

func b2i(b bool) int {
	if b {
		return 1
	}
	return 0
}
