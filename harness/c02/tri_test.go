package c02

import (
	"fmt"
	"math"
	"testing"

	"gonum.org/v1/gonum/blas/blas64"
	"gonum.org/v1/gonum/lapack"
	"gonum.org/v1/gonum/lapack/lapack64"
	"pgregory.net/rapid"
	"verifharness/vk"
)

// ---- Triangular: Dtrtri/Dtrti2, Dtrtrs, Dtrcon, Dtbtrs ----------------------

const (
	triDominant = iota // Gaussian off-diagonal, |diagonal| >= 1 + row sum / 4
	triGauss           // plain Gaussian triangle (condition grows quickly with n)
	triInt             // small integers with unit-magnitude diagonal: exact arithmetic
	triSingular        // one exactly zero diagonal entry
	nTriClasses
)

var triNames = [...]string{"dominant", "gauss", "int", "singular"}

type triCase struct {
	N, Nrhs, Kd int
	PadA, PadB  int
	Upper       bool
	Trans       bool
	Unit        bool
	NormInf     bool
	Class       int
	Seed        uint64
}

// genTri builds a full n x n matrix that is triangular with bandwidth kd
// (kd < 0: full triangle). For unit=true the diagonal is set to one.
func genTri(cls, n, kd int, upper, unit bool, r *vk.SplitMix) dm {
	t := newDM(n, n)
	for i := 0; i < n; i++ {
		for j := 0; j < n; j++ {
			in := j >= i
			d := j - i
			if !upper {
				in, d = j <= i, i-j
			}
			if !in || (kd >= 0 && d > kd) {
				continue
			}
			if cls == triInt {
				t.set(i, j, float64(r.Intn(5)-2))
			} else {
				t.set(i, j, r.Norm())
			}
		}
	}
	for i := 0; i < n; i++ {
		switch cls {
		case triDominant, triSingular:
			s := 0.0
			for j := 0; j < n; j++ {
				if j != i {
					s += math.Abs(t.at(i, j))
				}
			}
			v := 1 + s/4
			if r.Intn(2) == 0 {
				v = -v
			}
			t.set(i, i, v)
		case triInt:
			t.set(i, i, float64(2*r.Intn(2)-1))
		case triGauss:
			if t.at(i, i) == 0 {
				t.set(i, i, 1)
			}
		}
	}
	if cls == triSingular && n > 0 {
		t.set(r.Intn(n), r.Intn(n), 0) // may hit off-diagonal: harmless
		p := r.Intn(n)
		t.set(p, p, 0)
	}
	if unit {
		for i := 0; i < n; i++ {
			t.set(i, i, 1)
		}
	}
	return t
}

func triStoreRef(upper, unit bool) func(i, j int) bool {
	return func(i, j int) bool {
		if unit && i == j {
			return false
		}
		if upper {
			return j >= i
		}
		return j <= i
	}
}

// opOf returns T or T^T.
func opOf(t dm, trans bool) dm {
	if trans {
		return t.t()
	}
	return t
}

func checkTri(c triCase) *vk.Failure {
	n := c.N
	r := vk.NewSplitMix(c.Seed)
	singular := c.Class == triSingular && !c.Unit && n > 0
	t := genTri(c.Class, n, -1, c.Upper, c.Unit, r)
	ul, dg, tr := uploOf(c.Upper), diagOf(c.Unit), transOf(c.Trans)
	vk.Class("tri:class=" + triNames[c.Class])
	vk.Class("tri:n=" + sizeClass(n))
	vk.Class(fmt.Sprintf("tri:upper=%v,unit=%v,trans=%v", c.Upper, c.Unit, c.Trans))
	if n >= 2 && (n > nbPotrf || c.PadA > 0 || !c.Upper || c.Unit || c.Trans || singular) {
		vk.NonTrivial("tri", n, c.PadA, c.Upper, c.Unit, c.Trans, c.Class, c.Seed)
	}
	vk.Sample("tri", c)
	pre, post, trim := padFrom(r)
	lda := max(1, n) + c.PadA
	a0 := newPmat("a", n, n, lda, pre, post, trim)
	a0.ref = triStoreRef(c.Upper, c.Unit)
	a0.load(t)
	asnap := a0.snapshot()

	// --- Dtrtrs ---
	nrhs := c.Nrhs
	ldb := max(1, nrhs) + c.PadB
	bd := genGeneral(clsGauss, n, nrhs, r)
	b := newPmat("b", n, nrhs, ldb, post, pre, trim)
	b.load(bd)
	bIn := b.clone()
	var okS bool
	callS := fmt.Sprintf("Dtrtrs(uplo=%c,trans=%c,diag=%c,n=%d,nrhs=%d,lda=%d,ldb=%d)", ul, tr, dg, n, nrhs, lda, ldb)
	if fl := vk.MustReturn("trtrs-panics", func() { okS = impl.Dtrtrs(ul, tr, dg, n, nrhs, a0.sl(), lda, b.sl(), ldb) }); fl != nil {
		return fl
	}
	if fl := first(b.checkPad(callS), a0.checkSame(callS, asnap)); fl != nil {
		return fl
	}
	if okS == singular {
		return vk.Failf("trtrs-ok-flag", "%s returned ok=%v, exactly zero diagonal present: %v", callS, okS, singular)
	}
	if singular {
		if fl := b.checkSame(callS+" (singular: no solve is performed)", bIn.buf); fl != nil {
			return fl
		}
	} else if n > 0 && nrhs > 0 {
		if fl := b.checkFinite(callS); fl != nil {
			return fl
		}
		x := b.dense()
		op := opOf(t, c.Trans)
		res, s := mul(op, x)
		if fl := cwCheck("trtrs-backward-error", callS+": B vs op(T)*X", bd, res, s, cwBound(n, 1)); fl != nil {
			return fl
		}
	}
	{
		b3 := bIn.clone()
		var ok3 bool
		if fl := vk.MustReturn("lapack64-trtrs-panics", func() {
			ok3 = lapack64.Trtrs(tr, blas64.Triangular{Uplo: ul, Diag: dg, N: n, Stride: lda, Data: a0.sl()}, blas64.General{Rows: n, Cols: nrhs, Stride: ldb, Data: b3.sl()})
		}); fl != nil {
			return fl
		}
		if fl := b3.checkSame("lapack64.Trtrs vs Dtrtrs", b.buf); fl != nil || ok3 != okS {
			return vk.Failf("lapack64-trtrs-differs", "%s: wrapper differs (ok %v vs %v)", callS, ok3, okS)
		}
	}

	// --- Dtrtri (blocked, this lda) and Dtrti2 (other lda) ---
	for path := 0; path < 2; path++ {
		name, ld := "Dtrtri", lda
		if path == 1 {
			if singular {
				break
			}
			name, ld = "Dtrti2", max(1, n)
			if c.PadA == 0 {
				ld += 2
			}
		}
		g := newPmat("a", n, n, ld, post, pre, !trim)
		g.ref = a0.ref
		g.load(t)
		gIn := g.clone()
		okI := true
		call := fmt.Sprintf("%s(uplo=%c,diag=%c,n=%d,lda=%d)", name, ul, dg, n, ld)
		if fl := vk.MustReturn("trtri-panics", func() {
			if path == 0 {
				okI = impl.Dtrtri(ul, dg, n, g.sl(), ld)
			} else {
				impl.Dtrti2(ul, dg, n, g.sl(), ld)
			}
		}); fl != nil {
			return fl
		}
		if fl := g.checkPad(call); fl != nil {
			return fl
		}
		if okI == singular {
			return vk.Failf("trtri-ok-flag", "%s returned ok=%v, exactly zero diagonal present: %v", call, okI, singular)
		}
		if singular {
			if fl := g.checkSame(call+" (singular: the inversion is not performed)", gIn.buf); fl != nil {
				return fl
			}
			continue
		}
		if fl := g.checkFinite(call); fl != nil {
			return fl
		}
		// Left residual of method 2 / 2B (Higham, section 14.2): |X T - I| <= c gamma_n |X||T|.
		x := newDM(n, n)
		for i := 0; i < n; i++ {
			for j := 0; j < n; j++ {
				if g.ref(i, j) {
					x.set(i, j, g.at(i, j))
				} else if i == j {
					x.set(i, j, 1)
				}
			}
		}
		res, s := mul(x, t)
		if fl := cwCheck("trtri-left-residual", call+": X*T vs I", eye(n), res, s, cwBound(n, 2)); fl != nil {
			return fl
		}
		if path == 0 {
			g3 := gIn.clone()
			var ok3 bool
			if fl := vk.MustReturn("lapack64-trtri-panics", func() {
				ok3 = lapack64.Trtri(blas64.Triangular{Uplo: ul, Diag: dg, N: n, Stride: ld, Data: g3.sl()})
			}); fl != nil {
				return fl
			}
			if fl := g3.checkSame("lapack64.Trtri vs Dtrtri", g.buf); fl != nil || ok3 != okI {
				return vk.Failf("lapack64-trtri-differs", "%s: wrapper differs", call)
			}
		}
	}

	// --- Dtrcon ---
	if n > 0 {
		norm := lapack.MaxColumnSum
		if c.NormInf {
			norm = lapack.MaxRowSum
		}
		wc := newPvec("work", 3*n, 1, 1, trim)
		iw := newPints("iwork", n, 1, 1)
		var rc float64
		callC := fmt.Sprintf("Dtrcon(norm=%c,uplo=%c,diag=%c,n=%d,lda=%d)", norm, ul, dg, n, lda)
		if fl := vk.MustReturn("trcon-panics", func() { rc = impl.Dtrcon(norm, ul, dg, n, a0.sl(), lda, wc.sl(), iw.sl()) }); fl != nil {
			return fl
		}
		if fl := first(a0.checkSame(callC, asnap), wc.checkPad(callC), iw.checkPad(callC)); fl != nil {
			return fl
		}
		wc3 := newPvec("work", 3*n, 1, 1, trim)
		iw3 := newPints("iwork", n, 1, 1)
		var rc3 float64
		if fl := vk.MustReturn("lapack64-trcon-panics", func() {
			rc3 = lapack64.Trcon(norm, blas64.Triangular{Uplo: ul, Diag: dg, N: n, Stride: lda, Data: a0.sl()}, wc3.sl(), iw3.sl())
		}); fl != nil {
			return fl
		}
		if !vk.SameBits(rc, rc3) {
			return vk.Failf("lapack64-trcon-differs", "%s: %v vs wrapper %v", callC, rc, rc3)
		}
		if singular {
			if math.IsNaN(rc) || rc < 0 || rc > 1e-8 {
				return vk.Failf("trcon-singular", "%s on an exactly singular matrix returned rcond=%v", callC, rc)
			}
		} else if xinv, okR := refInverse(t); okR && !xinv.hasNaN() {
			anorm, ainv := t.norm1(), xinv.norm1()
			if c.NormInf {
				anorm, ainv = t.normInf(), xinv.normInf()
			}
			if fl := condCheck(callC, n, rc, anorm, ainv, 1); fl != nil {
				return fl
			}
		}
	}

	// --- Dtbtrs: same class with bandwidth kd ---
	kd := c.Kd
	if n > 0 && kd > n-1 {
		kd = n - 1
	}
	if n == 0 {
		kd = 0
	}
	tb := genTri(c.Class, n, kd, c.Upper, c.Unit, r)
	ldab := kd + 1 + c.PadA
	ab := newPmat("ab", n, kd+1, ldab, pre, post, trim)
	upper, unit := c.Upper, c.Unit
	ab.ref = func(i, d int) bool {
		j := i + d
		if !upper {
			j = i - kd + d
		}
		if j < 0 || j >= n {
			return false
		}
		return !(unit && i == j)
	}
	for i := 0; i < n; i++ {
		for d := 0; d <= kd; d++ {
			if ab.ref(i, d) {
				j := i + d
				if !upper {
					j = i - kd + d
				}
				ab.set(i, d, tb.at(i, j))
			}
		}
	}
	absnap := ab.snapshot()
	b2 := bIn.clone()
	var okB bool
	callB := fmt.Sprintf("Dtbtrs(uplo=%c,trans=%c,diag=%c,n=%d,kd=%d,nrhs=%d,ldab=%d,ldb=%d)", ul, tr, dg, n, kd, nrhs, ldab, ldb)
	if fl := vk.MustReturn("tbtrs-panics", func() { okB = impl.Dtbtrs(ul, tr, dg, n, kd, nrhs, ab.sl(), ldab, b2.sl(), ldb) }); fl != nil {
		return fl
	}
	if fl := first(b2.checkPad(callB), ab.checkSame(callB, absnap)); fl != nil {
		return fl
	}
	singB := false
	if !c.Unit {
		for i := 0; i < n; i++ {
			if tb.at(i, i) == 0 {
				singB = true
			}
		}
	}
	if okB == singB {
		return vk.Failf("tbtrs-ok-flag", "%s returned ok=%v, exactly zero diagonal present: %v", callB, okB, singB)
	}
	if singB {
		if fl := b2.checkSame(callB+" (singular: no solution is computed)", bIn.buf); fl != nil {
			return fl
		}
	} else if n > 0 && nrhs > 0 {
		if fl := b2.checkFinite(callB); fl != nil {
			return fl
		}
		x := b2.dense()
		res, s := mul(opOf(tb, c.Trans), x)
		if fl := cwCheck("tbtrs-backward-error", callB+": B vs op(T)*X", bd, res, s, cwBound(min(n, kd+1), 1)); fl != nil {
			return fl
		}
	}
	b3 := bIn.clone()
	var ok3 bool
	if fl := vk.MustReturn("lapack64-tbtrs-panics", func() {
		ok3 = lapack64.Tbtrs(tr, blas64.TriangularBand{Uplo: ul, Diag: dg, N: n, K: kd, Stride: ldab, Data: ab.sl()}, blas64.General{Rows: n, Cols: nrhs, Stride: ldb, Data: b3.sl()})
	}); fl != nil {
		return fl
	}
	if fl := b3.checkSame("lapack64.Tbtrs vs Dtbtrs", b2.buf); fl != nil || ok3 != okB {
		return vk.Failf("lapack64-tbtrs-differs", "%s: wrapper differs", callB)
	}
	return nil
}

func drawTri(t *rapid.T) triCase {
	return triCase{
		N: drawDim(t, "n", 80, 200), Nrhs: drawNrhs(t),
		Kd:   rapid.SampledFrom([]int{0, 1, 2, 3, 5, 8, 20, 70}).Draw(t, "kd"),
		PadA: vk.Pad(t, "padA"), PadB: vk.Pad(t, "padB"),
		Upper:   rapid.Bool().Draw(t, "upper"),
		Trans:   rapid.Bool().Draw(t, "trans"),
		Unit:    rapid.Bool().Draw(t, "unit"),
		NormInf: rapid.Bool().Draw(t, "norminf"),
		Class:   rapid.IntRange(0, nTriClasses-1).Draw(t, "class"),
		Seed:    vk.SeedGen(t, "seed"),
	}
}

func TestTri(t *testing.T) {
	vk.Run(t, "tri", vk.Opts{Quick: 600, Thorough: 15000}, drawTri, finish(checkTri))
}
