package c02

import (
	"fmt"
	"math"
	"testing"

	"gonum.org/v1/gonum/blas/blas64"
	"gonum.org/v1/gonum/lapack/lapack64"
	"pgregory.net/rapid"
	"verifharness/vk"
)

// ---- Orthogonal factorizations: Dgeqrf/Dgeqr2, Dgelqf/Dgelq2, Dgerqf/Dgerq2,
// Dgeql2; generators Dorg2r/Dorgqr, Dorgl2/Dorglq, Dorgr2, Dorg2l/Dorgql;
// multipliers Dorm2r/Dormqr, Dorml2/Dormlq, Dormr2. -------------------------

const (
	kindQR = iota
	kindLQ
	kindRQ
	kindQL
)

var kindNames = [...]string{"QR", "LQ", "RQ", "QL"}

const (
	nbQR = 32  // Ilaenv(1, DGEQRF/DGELQF/DGERQF/DORGQR/DORGLQ/DORGQL/DORMQR/DORMLQ)
	nxQR = 128 // Ilaenv(3, ...) crossover of the factorizations and generators
)

type refl struct {
	tau float64
	v   []float64
}

// reflectorsOf extracts the elementary reflectors (in the order of the product
// that defines Q: Q = seq[0]*seq[1]*...) and the triangular / trapezoidal
// factor T (m x n, zero outside the documented region) from a factored matrix.
func reflectorsOf(kind int, f dm, tau []float64) (seq []refl, tm dm) {
	m, n := f.r, f.c
	k := min(m, n)
	tm = newDM(m, n)
	hs := make([]refl, k)
	switch kind {
	case kindQR:
		for i := 0; i < k; i++ {
			v := make([]float64, m)
			v[i] = 1
			for j := i + 1; j < m; j++ {
				v[j] = f.at(j, i)
			}
			hs[i] = refl{tau[i], v}
		}
		for i := 0; i < k; i++ {
			for j := i; j < n; j++ {
				tm.set(i, j, f.at(i, j))
			}
		}
		return hs, tm
	case kindLQ:
		for i := 0; i < k; i++ {
			v := make([]float64, n)
			v[i] = 1
			for j := i + 1; j < n; j++ {
				v[j] = f.at(i, j)
			}
			hs[i] = refl{tau[i], v}
		}
		for i := 0; i < m; i++ {
			for j := 0; j <= i && j < k; j++ {
				tm.set(i, j, f.at(i, j))
			}
		}
	case kindRQ:
		for i := 0; i < k; i++ {
			v := make([]float64, n)
			v[n-k+i] = 1
			for j := 0; j < n-k+i; j++ {
				v[j] = f.at(m-k+i, j)
			}
			hs[i] = refl{tau[i], v}
		}
		for i := 0; i < m; i++ {
			for j := 0; j < n; j++ {
				if j-i >= n-m {
					tm.set(i, j, f.at(i, j))
				}
			}
		}
		return hs, tm
	case kindQL:
		for i := 0; i < k; i++ {
			v := make([]float64, m)
			v[m-k+i] = 1
			for j := 0; j < m-k+i; j++ {
				v[j] = f.at(j, n-k+i)
			}
			hs[i] = refl{tau[i], v}
		}
		for i := 0; i < m; i++ {
			for j := 0; j < n; j++ {
				if i-j >= m-n {
					tm.set(i, j, f.at(i, j))
				}
			}
		}
	}
	// LQ and QL: Q = H_{k-1} ... H_0
	for i, j := 0, k-1; i < j; i, j = i+1, j-1 {
		hs[i], hs[j] = hs[j], hs[i]
	}
	return hs, tm
}

// applyQLeft overwrites c with Q*c (trans=false) or Q^T*c, Q = seq[0]*seq[1]*...
func applyQLeft(seq []refl, trans bool, c dm) {
	if trans {
		for _, h := range seq {
			applyHLeft(h.tau, h.v, c)
		}
		return
	}
	for i := len(seq) - 1; i >= 0; i-- {
		applyHLeft(seq[i].tau, seq[i].v, c)
	}
}

// applyQRight overwrites c with c*Q (trans=false) or c*Q^T.
func applyQRight(seq []refl, trans bool, c dm) {
	if !trans {
		for _, h := range seq {
			applyHRight(h.tau, h.v, c)
		}
		return
	}
	for i := len(seq) - 1; i >= 0; i-- {
		applyHRight(seq[i].tau, seq[i].v, c)
	}
}

// verifyOrthFact checks a computed factorization: each H_i orthogonal
// (tau_i*(v_i^T v_i) = 2 or tau_i = 0, to cOrth*len*eps), and
// ||A - Q T||_F (or ||A - T Q||_F) <= cOrth*max(m,n)*eps*||A||_F.
func verifyOrthFact(call string, kind int, a dm, f *pmat, tau []float64) ([]refl, *vk.Failure) {
	m, n := a.r, a.c
	fd := f.dense()
	if fd.hasNaN() {
		return nil, vk.Failf("non-finite-output", "%s: factored matrix contains NaN/Inf", call)
	}
	for i, t := range tau {
		if math.IsNaN(t) || math.IsInf(t, 0) {
			return nil, vk.Failf("non-finite-output", "%s: tau[%d]=%v", call, i, t)
		}
	}
	seq, tm := reflectorsOf(kind, fd, tau)
	for i, h := range seq {
		if h.tau == 0 {
			continue
		}
		vtv := 0.0
		for _, x := range h.v {
			vtv += x * x
		}
		if d := math.Abs(h.tau*vtv - 2); !(d <= cOrth*float64(len(h.v))*vk.Eps) {
			return nil, vk.Failf("reflector-not-orthogonal", "%s: reflector #%d of the product has tau=%v, v^T v=%v: tau*v^T v - 2 = %.3g", call, i, h.tau, vtv, d)
		}
	}
	rec := tm.clone()
	if kind == kindQR || kind == kindQL {
		applyQLeft(seq, false, rec)
	} else {
		applyQRight(seq, false, rec)
	}
	if e, tol := diffFro(a, rec), orthTol(m, n)*a.fro(); !(e <= tol) {
		return nil, vk.Failf("orth-reconstruction", "%s: ||A - %s product||_F = %.3g exceeds %.3g (= %g*max(m,n)*eps*||A||_F)", call, kindNames[kind], e, tol, cOrth)
	}
	return seq, nil
}

type qrCase struct {
	Kind      int
	M, N      int
	PadA      int
	Class     int
	LwMode    int
	LwK       int
	OrgExtra  int // additional columns/rows generated beyond k (QR / LQ)
	OrgDrop   int // reflectors dropped (kk = k - OrgDrop, QR / LQ)
	OrgLwMode int
	Right     bool
	Trans     bool
	NC        int // free dimension of C
	PadC      int
	OrmLwMode int
	Seed      uint64
}

// factor runs the blocked (if any) or unblocked factorization routine.
func runFact(kind int, blocked bool, m, n int, a []float64, lda int, tau, work []float64, lwork int) {
	switch kind {
	case kindQR:
		if blocked {
			impl.Dgeqrf(m, n, a, lda, tau, work, lwork)
		} else {
			impl.Dgeqr2(m, n, a, lda, tau, work)
		}
	case kindLQ:
		if blocked {
			impl.Dgelqf(m, n, a, lda, tau, work, lwork)
		} else {
			impl.Dgelq2(m, n, a, lda, tau, work)
		}
	case kindRQ:
		if blocked {
			impl.Dgerqf(m, n, a, lda, tau, work, lwork)
		} else {
			impl.Dgerq2(m, n, a, lda, tau, work)
		}
	case kindQL:
		impl.Dgeql2(m, n, a, lda, tau, work)
	}
}

var factNames = [4][2]string{{"Dgeqr2", "Dgeqrf"}, {"Dgelq2", "Dgelqf"}, {"Dgerq2", "Dgerqf"}, {"Dgeql2", ""}}

// minWorkFact is the documented minimum work length.
func minWorkFact(kind, m, n int) int {
	if kind == kindQR || kind == kindQL {
		return max(1, n)
	}
	return max(1, m)
}

func checkQR(c qrCase) *vk.Failure {
	m, n, kind := c.M, c.N, c.Kind
	k := min(m, n)
	r := vk.NewSplitMix(c.Seed)
	a := genGeneral(c.Class, m, n, r)
	blockedPath := kind != kindQL && k > nxQR
	vk.Class("qr:kind=" + kindNames[kind])
	vk.Class("qr:class=" + clsNames[c.Class])
	vk.Class("qr:shape=" + shapeClass(m, n))
	vk.Class("qr:k=" + sizeClass(k))
	if blockedPath {
		vk.Class("qr:path=blocked,lwork=" + lwNames[c.LwMode])
	}
	if k >= 2 && (blockedPath || c.PadA > 0 || c.Right || c.Trans || c.LwMode != lwQuery || isSingularClass(c.Class) || k > nbQR) {
		vk.NonTrivial("qr", kind, m, n, c.PadA, c.Class, c.LwMode, c.Right, c.Trans, c.NC, c.Seed)
	}
	vk.Sample("qr", c)
	pre, post, trim := padFrom(r)
	lda := max(1, n) + c.PadA
	minW := minWorkFact(kind, m, n)

	var seq []refl
	var fact *pmat
	var tauMain []float64

	// blocked driver with the drawn lwork mode (and the minimum as second mode)
	if kind != kindQL {
		name := factNames[kind][1]
		f0 := newPmat("a", m, n, lda, pre, post, trim)
		f0.load(a)
		tau0 := newPvec("tau", k, 1, 1, true)
		q, fl := wsQuery(fmt.Sprintf("%s(m=%d,n=%d,lda=%d)", name, m, n, lda), minW, func(w []float64) {
			runFact(kind, true, m, n, f0.sl(), lda, tau0.sl(), w, -1)
		}, f0, tau0)
		if fl != nil {
			return fl
		}
		modes := []int{c.LwMode}
		if c.LwMode != lwMin && blockedPath {
			modes = append(modes, lwMin)
		}
		for mi, mode := range modes {
			lw := lworkFor(mode, c.LwK, minW, q)
			w := newWork(lw, c.LwK%3)
			f := f0.clone()
			tau := newPvec("tau", k, 1, 1, true)
			call := fmt.Sprintf("%s(m=%d,n=%d,lda=%d,lwork=%d[%s],query=%d)", name, m, n, lda, lw, lwNames[mode], q)
			if fl := vk.MustReturn("fact-panics", func() { runFact(kind, true, m, n, f.sl(), lda, tau.sl(), w.sl(), lw) }); fl != nil {
				fl.Msg = call + ": " + fl.Msg
				return fl
			}
			if fl := first(f.checkPad(call), tau.checkPad(call), deferOverrun(w.check(call))); fl != nil {
				return fl
			}
			if fl := checkWork0(call, w.sl()[0], minW); fl != nil {
				return fl
			}
			s, fl := verifyOrthFact(call, kind, a, f, tau.sl())
			if fl != nil {
				return fl
			}
			if mi == 0 {
				seq, fact, tauMain = s, f, append([]float64(nil), tau.sl()...)
				// lapack64 wrapper (QR and LQ only): bit-identical
				if kind == kindQR || kind == kindLQ {
					f3 := f0.clone()
					tau3 := newPvec("tau", k, 1, 1, true)
					w3 := newWork(lw, 0)
					if fl := vk.MustReturn("lapack64-fact-panics", func() {
						g := blas64.General{Rows: m, Cols: n, Stride: lda, Data: f3.sl()}
						if kind == kindQR {
							lapack64.Geqrf(g, tau3.sl(), w3.sl(), lw)
						} else {
							lapack64.Gelqf(g, tau3.sl(), w3.sl(), lw)
						}
					}); fl != nil {
						return fl
					}
					if fl := first(f3.checkSame("lapack64 wrapper vs "+name, f.buf), tau3.checkSameElems("lapack64 wrapper vs "+name, tau)); fl != nil {
						fl.Key = "lapack64-fact-differs"
						return fl
					}
				}
			}
		}
	}
	// unblocked routine with the other leading dimension
	{
		lda2 := max(1, n)
		if c.PadA == 0 {
			lda2 += 2
		}
		name := factNames[kind][0]
		f := newPmat("a", m, n, lda2, post, pre, !trim)
		f.load(a)
		tau := newPvec("tau", k, 1, 1, true)
		w := newPvec("work", minWorkFact(kind, m, n), 1, 1, true)
		call := fmt.Sprintf("%s(m=%d,n=%d,lda=%d)", name, m, n, lda2)
		if fl := vk.MustReturn("fact2-panics", func() { runFact(kind, false, m, n, f.sl(), lda2, tau.sl(), w.sl(), 0) }); fl != nil {
			fl.Msg = call + ": " + fl.Msg
			return fl
		}
		if fl := first(f.checkPad(call), tau.checkPad(call), w.checkPad(call)); fl != nil {
			return fl
		}
		s, fl := verifyOrthFact(call, kind, a, f, tau.sl())
		if fl != nil {
			return fl
		}
		if kind == kindQL {
			seq, fact, tauMain = s, f, append([]float64(nil), tau.sl()...)
		}
	}
	if k == 0 {
		return nil
	}
	if fl := checkOrg(c, r, fact, tauMain, seq); fl != nil {
		return fl
	}
	if kind != kindQL {
		return checkOrm(c, r, fact, tauMain, seq)
	}
	return nil
}

// checkOrg: explicit generation of Q from the reflectors of a factorization.
func checkOrg(c qrCase, r *vk.SplitMix, fact *pmat, tau []float64, seq []refl) *vk.Failure {
	m, n, kind := c.M, c.N, c.Kind
	k := min(m, n)
	pre, post, trim := padFrom(r)
	nanv := math.NaN()
	// geometry of the call: Q is qr x qc, uses kk reflectors
	var qr, qc, kk int
	var sub []refl
	var want dm
	switch kind {
	case kindQR: // first qc columns of H_0..H_{kk-1}, kk <= qc <= m
		kk = max(0, k-c.OrgDrop%(k+1))
		qc = min(m, k+c.OrgExtra)
		qr = m
		sub = seq[:kk]
		want = newDM(qr, qc)
		for i := 0; i < qc; i++ {
			want.set(i, i, 1)
		}
		applyQLeft(sub, false, want)
	case kindLQ: // first qr rows of H_{kk-1}..H_0, kk <= qr <= n
		kk = max(0, k-c.OrgDrop%(k+1))
		qr = min(n, k+c.OrgExtra)
		qc = n
		sub = seq[len(seq)-kk:] // seq is reversed: H_{k-1}..H_0; the first kk reflectors are the last kk entries
		want = newDM(qr, qc)
		for i := 0; i < qr; i++ {
			want.set(i, i, 1)
		}
		applyQRight(sub, false, want)
	case kindRQ: // last m rows of H_0..H_{k-1}; needs n >= m
		if n < m {
			return nil
		}
		kk, qr, qc, sub = k, m, n, seq
		want = newDM(qr, qc)
		for i := 0; i < qr; i++ {
			want.set(i, n-m+i, 1)
		}
		applyQRight(sub, false, want)
	case kindQL: // last n columns of H_{k-1}..H_0; needs m >= n
		if m < n {
			return nil
		}
		kk, qr, qc, sub = k, m, n, seq
		want = newDM(qr, qc)
		for j := 0; j < qc; j++ {
			want.set(m-n+j, j, 1)
		}
		applyQLeft(sub, false, want)
	}
	ldq := max(1, qc) + c.PadA
	q0 := newPmat("a", qr, qc, ldq, pre, post, trim)
	for i := 0; i < qr; i++ {
		for j := 0; j < qc; j++ {
			if i < fact.r && j < fact.c {
				q0.set(i, j, fact.at(i, j))
			} else {
				q0.set(i, j, nanv) // contents unspecified on entry
			}
		}
	}
	tauv := newPvec("tau", kk, 1, 1, true)
	copy(tauv.sl(), tau[:kk])
	tsnap := tauv.snapshot()

	type variant struct {
		name    string
		blocked bool
	}
	var vars []variant
	var minW int
	switch kind {
	case kindQR:
		vars, minW = []variant{{"Dorg2r", false}, {"Dorgqr", true}}, max(1, qc)
	case kindLQ:
		vars, minW = []variant{{"Dorgl2", false}, {"Dorglq", true}}, max(1, qr)
	case kindRQ:
		vars, minW = []variant{{"Dorgr2", false}}, max(1, qr)
	case kindQL:
		vars, minW = []variant{{"Dorg2l", false}, {"Dorgql", true}}, max(1, qc)
	}
	run := func(v variant, a []float64, work []float64, lwork int) {
		switch v.name {
		case "Dorg2r":
			impl.Dorg2r(qr, qc, kk, a, ldq, tauv.sl(), work)
		case "Dorgqr":
			impl.Dorgqr(qr, qc, kk, a, ldq, tauv.sl(), work, lwork)
		case "Dorgl2":
			impl.Dorgl2(qr, qc, kk, a, ldq, tauv.sl(), work)
		case "Dorglq":
			impl.Dorglq(qr, qc, kk, a, ldq, tauv.sl(), work, lwork)
		case "Dorgr2":
			impl.Dorgr2(qr, qc, kk, a, ldq, tauv.sl(), work)
		case "Dorg2l":
			impl.Dorg2l(qr, qc, kk, a, ldq, tauv.sl(), work)
		case "Dorgql":
			impl.Dorgql(qr, qc, kk, a, ldq, tauv.sl(), work, lwork)
		}
	}
	tol := orthTol(qr, qc) * math.Sqrt(float64(max(1, min(qr, qc))))
	for _, v := range vars {
		if qr == 0 || qc == 0 {
			continue
		}
		call := fmt.Sprintf("%s(m=%d,n=%d,k=%d,lda=%d)", v.name, qr, qc, kk, ldq)
		lws := []int{minW}
		if v.blocked {
			g := q0.clone()
			q, fl := wsQuery(call, minW, func(w []float64) { run(v, g.sl(), w, -1) }, g, tauv)
			if fl != nil {
				return fl
			}
			lws = []int{lworkFor(c.OrgLwMode, c.LwK, minW, q)}
			if kk > nxQR && c.OrgLwMode != lwMin {
				lws = append(lws, minW)
			}
			vk.Class("org:" + v.name + ",lwork=" + lwNames[c.OrgLwMode])
			if kk > nxQR {
				vk.Class("org:" + v.name + ":blocked-path")
			}
		}
		for _, lw := range lws {
			g := q0.clone()
			w := newWork(lw, b2i(v.blocked)*(c.LwK%2))
			callw := fmt.Sprintf("%s lwork=%d", call, lw)
			if fl := vk.MustReturn("org-panics", func() { run(v, g.sl(), w.sl(), lw) }); fl != nil {
				fl.Msg = callw + ": " + fl.Msg
				return fl
			}
			if fl := first(g.checkPad(callw), deferOverrun(w.check(callw)), tauv.checkSame(callw, tsnap), g.checkFinite(callw)); fl != nil {
				return fl
			}
			if v.blocked {
				if fl := checkWork0(callw, w.sl()[0], minW); fl != nil {
					return fl
				}
			}
			got := g.dense()
			if e := diffFro(got, want); !(e <= tol) {
				return vk.Failf("org-vs-reflector-product", "%s: ||Q - explicit product of the reflectors||_F = %.3g exceeds %.3g", callw, e, tol)
			}
			if e := orthErr(got, kind == kindLQ || kind == kindRQ); !(e <= tol) {
				return vk.Failf("org-not-orthonormal", "%s: ||Q^T Q - I||_F = %.3g exceeds %.3g", callw, e, tol)
			}
			if lw == lws[0] && (v.name == "Dorgqr" || v.name == "Dorglq") {
				g3 := q0.clone()
				w3 := newWork(lw, 0)
				if fl := vk.MustReturn("lapack64-org-panics", func() {
					gg := blas64.General{Rows: qr, Cols: qc, Stride: ldq, Data: g3.sl()}
					if v.name == "Dorgqr" {
						lapack64.Orgqr(gg, tauv.sl(), w3.sl(), lw)
					} else {
						lapack64.Orglq(gg, tauv.sl(), w3.sl(), lw)
					}
				}); fl != nil {
					fl.Msg = callw + ": " + fl.Msg
					return fl
				}
				if fl := g3.checkSame("lapack64 wrapper vs "+v.name, g.buf); fl != nil {
					fl.Key = "lapack64-org-differs"
					return fl
				}
			}
		}
	}
	return nil
}

// checkOrm: multiplication by Q without forming it.
func checkOrm(c qrCase, r *vk.SplitMix, fact *pmat, tau []float64, seq []refl) *vk.Failure {
	m, n, kind := c.M, c.N, c.Kind
	k := min(m, n)
	pre, post, trim := padFrom(r)
	// order of Q and the operand that holds the reflectors
	var nq int
	var av *pmat // reflector storage handed to the routine
	switch kind {
	case kindQR: // nq x k, columns
		nq = m
		av = newPmat("a", m, k, max(1, k)+c.PadA, pre, post, trim)
		for i := 0; i < m; i++ {
			for j := 0; j < k; j++ {
				av.set(i, j, fact.at(i, j))
			}
		}
	case kindLQ: // k x nq, rows
		nq = n
		av = newPmat("a", k, n, max(1, n)+c.PadA, pre, post, trim)
		for i := 0; i < k; i++ {
			for j := 0; j < n; j++ {
				av.set(i, j, fact.at(i, j))
			}
		}
	case kindRQ: // k x nq: the last k rows of the factored matrix
		nq = n
		av = newPmat("a", k, n, max(1, n)+c.PadA, pre, post, trim)
		for i := 0; i < k; i++ {
			for j := 0; j < n; j++ {
				av.set(i, j, fact.at(m-k+i, j))
			}
		}
	}
	cr, cc := nq, c.NC
	if c.Right {
		cr, cc = c.NC, nq
	}
	ldc := max(1, cc) + c.PadC
	cd := genGeneral(clsGauss, cr, cc, r)
	c0 := newPmat("c", cr, cc, ldc, post, pre, trim)
	c0.load(cd)
	want := cd.clone()
	if c.Right {
		applyQRight(seq, c.Trans, want)
	} else {
		applyQLeft(seq, c.Trans, want)
	}
	tauv := newPvec("tau", k, 1, 1, true)
	copy(tauv.sl(), tau)
	asnap, tsnap := av.snapshot(), tauv.snapshot()
	nw := max(1, cc) // left: n columns of C
	if c.Right {
		nw = max(1, cr)
	}
	type variant struct {
		name    string
		blocked bool
	}
	var vars []variant
	switch kind {
	case kindQR:
		vars = []variant{{"Dorm2r", false}, {"Dormqr", true}}
	case kindLQ:
		vars = []variant{{"Dorml2", false}, {"Dormlq", true}}
	case kindRQ:
		vars = []variant{{"Dormr2", false}}
	}
	side, tr := sideOf(c.Right), transOf(c.Trans)
	run := func(v variant, cbuf, work []float64, lwork int) {
		switch v.name {
		case "Dorm2r":
			impl.Dorm2r(side, tr, cr, cc, k, av.sl(), av.ld, tauv.sl(), cbuf, ldc, work)
		case "Dormqr":
			impl.Dormqr(side, tr, cr, cc, k, av.sl(), av.ld, tauv.sl(), cbuf, ldc, work, lwork)
		case "Dorml2":
			impl.Dorml2(side, tr, cr, cc, k, av.sl(), av.ld, tauv.sl(), cbuf, ldc, work)
		case "Dormlq":
			impl.Dormlq(side, tr, cr, cc, k, av.sl(), av.ld, tauv.sl(), cbuf, ldc, work, lwork)
		case "Dormr2":
			impl.Dormr2(side, tr, cr, cc, k, av.sl(), av.ld, tauv.sl(), cbuf, ldc, work)
		}
	}
	tol := orthTol(cr, cc) * cd.fro()
	for _, v := range vars {
		call := fmt.Sprintf("%s(side=%c,trans=%c,m=%d,n=%d,k=%d,lda=%d,ldc=%d)", v.name, side, tr, cr, cc, k, av.ld, ldc)
		lws := []int{nw}
		if v.blocked {
			g := c0.clone()
			q, fl := wsQuery(call, nw, func(w []float64) { run(v, g.sl(), w, -1) }, g, av, tauv)
			if fl != nil {
				return fl
			}
			lws = []int{lworkFor(c.OrmLwMode, c.LwK, nw, q)}
			if k > nbQR && c.OrmLwMode != lwMin {
				lws = append(lws, nw)
			}
			vk.Class("orm:" + v.name + ",lwork=" + lwNames[c.OrmLwMode])
			if k > nbQR && cr > 0 && cc > 0 {
				vk.Class("orm:" + v.name + ":k>nb")
			}
		}
		for _, lw := range lws {
			g := c0.clone()
			w := newWork(lw, b2i(v.blocked)*(c.LwK%2))
			callw := fmt.Sprintf("%s lwork=%d", call, lw)
			if fl := vk.MustReturn("orm-panics", func() { run(v, g.sl(), w.sl(), lw) }); fl != nil {
				fl.Msg = callw + ": " + fl.Msg
				return fl
			}
			if fl := first(g.checkPad(callw), deferOverrun(w.check(callw)), av.checkSame(callw, asnap), tauv.checkSame(callw, tsnap), g.checkFinite(callw)); fl != nil {
				return fl
			}
			if v.blocked {
				if fl := checkWork0(callw, w.sl()[0], nw); fl != nil {
					return fl
				}
			}
			if e := diffFro(g.dense(), want); !(e <= tol) {
				return vk.Failf("orm-vs-reflector-product", "%s: ||result - sequential application of the reflectors||_F = %.3g exceeds %.3g", callw, e, tol)
			}
			if lw == lws[0] && v.blocked {
				g3 := c0.clone()
				w3 := newWork(lw, 0)
				if fl := vk.MustReturn("lapack64-orm-panics", func() {
					cg := blas64.General{Rows: cr, Cols: cc, Stride: ldc, Data: g3.sl()}
					ag := blas64.General{Rows: av.r, Cols: av.c, Stride: av.ld, Data: av.sl()}
					if v.name == "Dormqr" {
						lapack64.Ormqr(side, tr, ag, tauv.sl(), cg, w3.sl(), lw)
					} else {
						lapack64.Ormlq(side, tr, ag, tauv.sl(), cg, w3.sl(), lw)
					}
				}); fl != nil {
					fl.Msg = callw + ": " + fl.Msg
					return fl
				}
				if fl := g3.checkSame("lapack64 wrapper vs "+v.name, g.buf); fl != nil {
					fl.Key = "lapack64-orm-differs"
					return fl
				}
			}
		}
	}
	return nil
}

func drawQR(t *rapid.T) qrCase {
	// blocked code needs min(m,n) > 128: a quarter of the cases draw from the large range
	var m, n int
	if vk.NewSplitMix(rapid.Uint64().Draw(t, "bigsel")).Intn(10) < 3 {
		big := []int{129, 130, 131, 140, 159, 160, 161, 162, 175, 192, 193, 200}
		m = big[vk.NewSplitMix(rapid.Uint64().Draw(t, "mBig")).Intn(len(big))]
		n = big[vk.NewSplitMix(rapid.Uint64().Draw(t, "nBig")).Intn(len(big))]
		if rapid.Bool().Draw(t, "bigSkew") {
			// one dimension free: blocked Dorm* and tall/wide blocked factorizations
			if rapid.Bool().Draw(t, "bigSkewM") {
				m = rapid.IntRange(129, 230).Draw(t, "mBigFree")
			} else {
				n = rapid.IntRange(129, 230).Draw(t, "nBigFree")
			}
		}
	} else {
		m, n = drawShape(t, 70, 140)
	}
	return qrCase{
		Kind: rapid.IntRange(0, 3).Draw(t, "kind"),
		M:    m, N: n,
		PadA:      vk.Pad(t, "padA"),
		Class:     rapid.IntRange(0, nGeneralClasses-1).Draw(t, "class"),
		LwMode:    rapid.IntRange(0, nLwModes-1).Draw(t, "lwmode"),
		LwK:       rapid.IntRange(0, 100000).Draw(t, "lwk"),
		OrgExtra:  rapid.IntRange(0, 40).Draw(t, "orgExtra"),
		OrgDrop:   rapid.IntRange(0, 40).Draw(t, "orgDrop"),
		OrgLwMode: rapid.IntRange(0, nLwModes-1).Draw(t, "orgLw"),
		Right:     rapid.Bool().Draw(t, "right"),
		Trans:     rapid.Bool().Draw(t, "trans"),
		NC:        rapid.SampledFrom([]int{1, 2, 3, 5, 8, 0, 17, 40}).Draw(t, "nc"),
		PadC:      vk.Pad(t, "padC"),
		OrmLwMode: rapid.IntRange(0, nLwModes-1).Draw(t, "ormLw"),
		Seed:      vk.SeedGen(t, "seed"),
	}
}

func TestQR(t *testing.T) {
	vk.Run(t, "qr", vk.Opts{Quick: 900, Thorough: 16000}, drawQR, finish(checkQR))
}
