// Package c02 checks property C02: LAPACK factorizations, solves and inverses
// are backward stable for all shapes.
package c02

import (
	"testing"

	"verifharness/vk"
)

func TestMain(m *testing.M) { vk.Main(m, "C02") }
