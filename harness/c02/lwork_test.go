package c02

import (
	"fmt"
	"math"
	"sort"
	"testing"

	"pgregory.net/rapid"
	"verifharness/vk"
)

// ---- Workspace lengths strictly between the documented minimum and the
// queried optimum -------------------------------------------------------------
//
// A blocked routine that is handed less than the optimal workspace, but enough
// for its blocked code, reduces its block size to nb' = (usable length)/nw and
// keeps the blocked path while nb' >= 2. Every loop bound, start index and
// leading dimension that was derived from the block size must follow the
// reduction. The "between" lwork mode of the other sub-checks draws one length
// uniformly from (minimum, optimum); for Dormqr / Dormlq almost all of that
// interval (everything below the 64*64 triangular-factor storage) selects the
// unblocked code. The two sub-checks of this file aim at the reduced-nb window
// by construction: several lengths per case, for all four side/trans
// combinations of the multipliers (orm-lwork) and for the blocked
// factorizations, generators and the LU inverse (fact-lwork). The oracles and
// the tolerances are those of qr_test.go / lu_test.go.

// hashPick maps a drawn 64-bit value to [0,n): rapid's integer generators
// favour small values, which matters with budgets of a few cases per shard.
func hashPick(t *rapid.T, label string, n int) int {
	return vk.NewSplitMix(rapid.Uint64().Draw(t, label)).Intn(n)
}

// drawNbs draws cnt reduced block sizes in [2,hi] (hashed uniform) and as many
// remainders.
func drawNbs(t *rapid.T, cnt, hi int) (nbs, rems []int) {
	for i := 0; i < cnt; i++ {
		nbs = append(nbs, 2+hashPick(t, fmt.Sprintf("nb%d", i), hi-1))
		rems = append(rems, hashPick(t, fmt.Sprintf("rem%d", i), 1<<16))
	}
	return nbs, rems
}

func uniqSorted(x []int, lo int) []int {
	sort.Ints(x)
	out := x[:0]
	for _, v := range x {
		if v < lo || len(out) > 0 && out[len(out)-1] == v {
			continue
		}
		out = append(out, v)
	}
	return out
}

// ---------------------------------------------------------------------------
// orm-lwork: Dormqr / Dormlq, k > 32, all four side/trans combinations.
// ---------------------------------------------------------------------------

type ormLwCase struct {
	LQ      bool  // Dormlq (reflectors stored in rows) instead of Dormqr
	NQ      int   // order of Q
	K       int   // number of reflectors (> 32: the blocked code is eligible)
	NC      int   // free dimension of C (= nw, the workspace unit)
	PadA    int   // extra leading dimension of the reflector storage
	PadC    int   // extra leading dimension of C
	Nbs     []int // reduced block sizes aimed at: lwork = tsize + nb*nw + rem%nw
	Rems    []int
	TauZero int // every TauZero-th reflector is the identity (tau = 0); 0: none
	LwK     int
	Seed    uint64
}

// genReflectors fills the reflector storage of k elementary reflectors of
// order nq in the layout of Dgeqrf (cols: nq x k, vectors below the diagonal)
// or Dgelqf (k x nq, vectors right of the diagonal) with admissible values:
// the tail of v_i has norm rho in (0,1] and tau_i = 2/(1+rho^2) in [1,2), the
// range Dlarfg produces, or tau_i = 0. The triangle that holds R / L in a real
// factorization (not referenced by the multipliers) holds Gaussian values.
func genReflectors(rows bool, nq, k, tauZero int, r *vk.SplitMix) (a dm, tau []float64) {
	if rows {
		a = newDM(k, nq)
	} else {
		a = newDM(nq, k)
	}
	for i := range a.d {
		a.d[i] = r.Norm()
	}
	tau = make([]float64, k)
	for i := 0; i < k; i++ {
		rho := 0.05 + 0.95*r.Float()
		s := 0.0
		for j := i + 1; j < nq; j++ {
			var v float64
			if rows {
				v = a.at(i, j)
			} else {
				v = a.at(j, i)
			}
			s += v * v
		}
		s = math.Sqrt(s)
		vtv := 1.0
		for j := i + 1; j < nq; j++ {
			var v float64
			if rows {
				v = a.at(i, j) * rho / s
				a.set(i, j, v)
			} else {
				v = a.at(j, i) * rho / s
				a.set(j, i, v)
			}
			vtv += v * v
		}
		tau[i] = 2 / vtv
		if i == nq-1 || tauZero > 0 && i%tauZero == tauZero-1 { // Dlarfg returns tau = 0 for a vector of length 1
			tau[i] = 0
		}
	}
	return a, tau
}

func checkOrmLw(c ormLwCase) *vk.Failure {
	nq, k, nc := c.NQ, c.K, c.NC
	kind, name := kindQR, "Dormqr"
	if c.LQ {
		kind, name = kindLQ, "Dormlq"
	}
	r := vk.NewSplitMix(c.Seed)
	ad, tau := genReflectors(c.LQ, nq, k, c.TauZero, r)
	seq, _ := reflectorsOf(kind, ad, tau)
	pre, post, trim := padFrom(r)
	av := newPmat("a", ad.r, ad.c, max(1, ad.c)+c.PadA, pre, post, trim)
	av.load(ad)
	tauv := newPvec("tau", k, 1, 1, true)
	copy(tauv.sl(), tau)
	asnap, tsnap := av.snapshot(), tauv.snapshot()

	vk.Class("orm-lwork:routine=" + name)
	vk.Class("orm-lwork:k=" + sizeClass(k))
	vk.NonTrivial("orm-lwork", c.LQ, nq, k, nc, c.PadA, c.PadC, fmt.Sprint(c.Nbs, c.Rems), c.TauZero, c.Seed)
	vk.Sample("orm-lwork", c)

	nw := max(1, nc)
	for combo := 0; combo < 4; combo++ {
		right, trans := combo&1 != 0, combo&2 != 0
		side, tr := sideOf(right), transOf(trans)
		cr, cc := nq, nc
		if right {
			cr, cc = nc, nq
		}
		ldc := max(1, cc) + c.PadC
		cd := genGeneral(clsGauss, cr, cc, r)
		c0 := newPmat("c", cr, cc, ldc, post, pre, trim)
		c0.load(cd)
		want := cd.clone()
		if right {
			applyQRight(seq, trans, want)
		} else {
			applyQLeft(seq, trans, want)
		}
		run := func(cbuf, work []float64, lwork int) {
			if c.LQ {
				impl.Dormlq(side, tr, cr, cc, k, av.sl(), av.ld, tauv.sl(), cbuf, ldc, work, lwork)
			} else {
				impl.Dormqr(side, tr, cr, cc, k, av.sl(), av.ld, tauv.sl(), cbuf, ldc, work, lwork)
			}
		}
		call := fmt.Sprintf("%s(side=%c,trans=%c,m=%d,n=%d,k=%d,lda=%d,ldc=%d)", name, side, tr, cr, cc, k, av.ld, ldc)
		g := c0.clone()
		q, fl := wsQuery(call, nw, func(w []float64) { run(g.sl(), w, -1) }, g, av, tauv)
		if fl != nil {
			return fl
		}
		// The optimum is nw*nbopt + tsize; the routine keeps the blocked code for
		// lwork >= tsize + 2*nw. nbopt = 32 for both routines (Ilaenv).
		tsize := q - nbQR*nw
		lws := []int{nw, q, q + 1 + c.LwK%64, lworkFor(lwBetween, c.LwK+combo, nw, q)}
		if tsize >= 0 {
			vk.Class("orm-lwork:window=found")
			lws = append(lws, tsize+nw, tsize+2*nw-1, tsize+2*nw, q-1)
			for i, nb := range c.Nbs {
				lws = append(lws, tsize+nb*nw+c.Rems[i]%nw)
			}
		} else {
			// unexpected optimum: spread the lengths over (minimum, optimum)
			vk.Class("orm-lwork:window=unknown")
			for i := range c.Nbs {
				lws = append(lws, lworkFor(lwBetween, c.Rems[i], nw, q))
			}
		}
		lws = uniqSorted(lws, nw)
		tol := orthTol(cr, cc) * cd.fro()
		for _, lw := range lws {
			g := c0.clone()
			w := newWork(lw, c.LwK%2)
			callw := fmt.Sprintf("%s lwork=%d (minimum %d, query %d)", call, lw, nw, q)
			if tsize >= 0 && lw >= tsize+2*nw && lw < q {
				vk.Class(fmt.Sprintf("orm-lwork:%s,side=%c,trans=%c:reduced-nb", name, side, tr))
				callw += fmt.Sprintf(" [reduced block size %d]", (lw-tsize)/nw)
			}
			if fl := vk.MustReturn("orm-panics", func() { run(g.sl(), w.sl(), lw) }); fl != nil {
				fl.Msg = callw + ": " + fl.Msg
				return fl
			}
			if fl := first(g.checkPad(callw), deferOverrun(w.check(callw)), av.checkSame(callw, asnap), tauv.checkSame(callw, tsnap), g.checkFinite(callw)); fl != nil {
				return fl
			}
			if fl := checkWork0(callw, w.sl()[0], nw); fl != nil {
				return fl
			}
			if e := diffFro(g.dense(), want); !(e <= tol) {
				return vk.Failf("orm-vs-reflector-product", "%s: ||result - sequential application of the reflectors||_F = %.3g exceeds %.3g", callw, e, tol)
			}
		}
	}
	return nil
}

func drawOrmLw(t *rapid.T) ormLwCase {
	kb := []int{33, 34, 47, 63, 64, 65, 66, 95, 96, 97, 98, 127, 128, 129}
	var k int
	if hashPick(t, "kmix", 2) == 0 {
		k = kb[hashPick(t, "kbnd", len(kb))]
	} else {
		k = 33 + hashPick(t, "k", 108)
	}
	nq := k
	if hashPick(t, "nqmix", 3) != 0 {
		nq = k + hashPick(t, "nqextra", 31)
	}
	nbs, rems := drawNbs(t, 3, nbQR-1)
	tz := 0
	if hashPick(t, "tzmix", 4) == 0 {
		tz = 2 + hashPick(t, "tz", 9)
	}
	return ormLwCase{
		LQ:      rapid.Bool().Draw(t, "lq"),
		NQ:      nq,
		K:       k,
		NC:      1 + hashPick(t, "nc", 12),
		PadA:    vk.Pad(t, "padA"),
		PadC:    vk.Pad(t, "padC"),
		Nbs:     nbs,
		Rems:    rems,
		TauZero: tz,
		LwK:     rapid.IntRange(0, 100000).Draw(t, "lwk"),
		Seed:    vk.SeedGen(t, "seed"),
	}
}

func TestOrmLwork(t *testing.T) {
	vk.Run(t, "orm-lwork", vk.Opts{Quick: 320, Thorough: 8000}, drawOrmLw, finish(checkOrmLw))
}

// ---------------------------------------------------------------------------
// fact-lwork: Dgeqrf / Dgelqf / Dgerqf, Dorgqr / Dorglq / Dorgql (min(m,n) >
// 128, the crossover) and Dgetri (n > 64) with reduced block sizes.
// ---------------------------------------------------------------------------

const (
	flQR = iota
	flLQ
	flRQ
	flQL // Dgeql2 (there is no blocked QL factorization) + Dorgql
	flGetri
	nFlKinds
)

var flNames = [...]string{"QR", "LQ", "RQ", "QL", "GETRI"}

type factLwCase struct {
	Kind int
	M, N int
	PadA int
	Nbs  []int
	Rems []int
	LwK  int
	Seed uint64
}

// reducedLworks returns the lengths unit*nb+rem for the drawn block sizes plus
// one boundary length of the reduced-nb window [2*unit, query).
func reducedLworks(c factLwCase, cnt, unit, minW, q int, double bool) []int {
	var lws []int
	for i := 0; i < cnt && i < len(c.Nbs); i++ {
		nb := c.Nbs[i]
		if double { // block size 64: window 2..63
			nb += (c.Rems[i] >> 8 & 1) * 32
		}
		lws = append(lws, unit*nb+c.Rems[i]%unit)
	}
	switch c.LwK % 4 {
	case 0:
		lws = append(lws, 2*unit-1)
	case 1:
		lws = append(lws, 2*unit)
	case 2:
		lws = append(lws, q-1)
	default:
		lws = append(lws, lworkFor(lwBetween, c.LwK, minW, q))
	}
	var out []int
	for _, lw := range lws {
		if lw >= minW && lw < q {
			out = append(out, lw)
		}
	}
	return uniqSorted(out, minW)
}

func checkFactLw(c factLwCase) *vk.Failure {
	vk.Class("fact-lwork:kind=" + flNames[c.Kind])
	vk.NonTrivial("fact-lwork", c.Kind, c.M, c.N, c.PadA, fmt.Sprint(c.Nbs, c.Rems), c.LwK, c.Seed)
	vk.Sample("fact-lwork", c)
	if c.Kind == flGetri {
		return checkGetriLw(c)
	}
	m, n := c.M, c.N
	kind := [...]int{kindQR, kindLQ, kindRQ, kindQL}[c.Kind]
	if kind == kindQL && m < n {
		m, n = n, m // Dorgql needs m >= n
	}
	k := min(m, n)
	r := vk.NewSplitMix(c.Seed)
	a := genGeneral(clsGauss, m, n, r)
	pre, post, trim := padFrom(r)
	lda := max(1, n) + c.PadA
	minW := minWorkFact(kind, m, n)
	f0 := newPmat("a", m, n, lda, pre, post, trim)
	f0.load(a)

	var seq []refl
	var fact *pmat
	var tauMain []float64
	if kind == kindQL {
		f := f0.clone()
		tau := newPvec("tau", k, 1, 1, true)
		w := newPvec("work", minW, 1, 1, true)
		call := fmt.Sprintf("Dgeql2(m=%d,n=%d,lda=%d)", m, n, lda)
		if fl := vk.MustReturn("fact2-panics", func() { runFact(kind, false, m, n, f.sl(), lda, tau.sl(), w.sl(), 0) }); fl != nil {
			fl.Msg = call + ": " + fl.Msg
			return fl
		}
		s, fl := verifyOrthFact(call, kind, a, f, tau.sl())
		if fl != nil {
			return fl
		}
		seq, fact, tauMain = s, f, append([]float64(nil), tau.sl()...)
	} else {
		name := factNames[kind][1]
		tau0 := newPvec("tau", k, 1, 1, true)
		q, fl := wsQuery(fmt.Sprintf("%s(m=%d,n=%d,lda=%d)", name, m, n, lda), minW, func(w []float64) {
			runFact(kind, true, m, n, f0.sl(), lda, tau0.sl(), w, -1)
		}, f0, tau0)
		if fl != nil {
			return fl
		}
		lws := reducedLworks(c, 2, minW, minW, q, false)
		if len(lws) == 0 {
			lws = []int{minW}
		}
		for _, lw := range lws {
			w := newWork(lw, c.LwK%3)
			f := f0.clone()
			tau := newPvec("tau", k, 1, 1, true)
			call := fmt.Sprintf("%s(m=%d,n=%d,lda=%d,lwork=%d,minimum=%d,query=%d) [block size lwork/%d = %d]", name, m, n, lda, lw, minW, q, minW, lw/minW)
			vk.Class("fact-lwork:" + name + ":reduced-nb")
			if fl := vk.MustReturn("fact-panics", func() { runFact(kind, true, m, n, f.sl(), lda, tau.sl(), w.sl(), lw) }); fl != nil {
				fl.Msg = call + ": " + fl.Msg
				return fl
			}
			if fl := first(f.checkPad(call), tau.checkPad(call), deferOverrun(w.check(call))); fl != nil {
				return fl
			}
			if fl := checkWork0(call, w.sl()[0], minW); fl != nil {
				return fl
			}
			s, fl := verifyOrthFact(call, kind, a, f, tau.sl())
			if fl != nil {
				return fl
			}
			seq, fact, tauMain = s, f, append([]float64(nil), tau.sl()...)
		}
	}
	if kind == kindRQ {
		return nil // Dorgr2 has no workspace length
	}

	// Generator with reduced block sizes: all k reflectors; Q is m x min(m,n)
	// (QR), min(m,n) x n (LQ) or m x n (QL, m >= n).
	qr, qc := m, n
	var want dm
	var gname string
	switch kind {
	case kindQR:
		gname, qc = "Dorgqr", k
		want = newDM(qr, qc)
		for i := 0; i < qc; i++ {
			want.set(i, i, 1)
		}
		applyQLeft(seq, false, want)
	case kindLQ:
		gname, qr = "Dorglq", k
		want = newDM(qr, qc)
		for i := 0; i < qr; i++ {
			want.set(i, i, 1)
		}
		applyQRight(seq, false, want)
	case kindQL:
		gname = "Dorgql"
		want = newDM(qr, qc)
		for j := 0; j < qc; j++ {
			want.set(m-n+j, j, 1)
		}
		applyQLeft(seq, false, want)
	}
	ldq := max(1, qc) + c.PadA
	q0 := newPmat("a", qr, qc, ldq, post, pre, trim)
	for i := 0; i < qr; i++ {
		for j := 0; j < qc; j++ {
			q0.set(i, j, fact.at(i, j))
		}
	}
	tauv := newPvec("tau", k, 1, 1, true)
	copy(tauv.sl(), tauMain)
	tsnap := tauv.snapshot()
	gminW := max(1, qc)
	if kind == kindLQ {
		gminW = max(1, qr)
	}
	run := func(abuf, work []float64, lwork int) {
		switch kind {
		case kindQR:
			impl.Dorgqr(qr, qc, k, abuf, ldq, tauv.sl(), work, lwork)
		case kindLQ:
			impl.Dorglq(qr, qc, k, abuf, ldq, tauv.sl(), work, lwork)
		case kindQL:
			impl.Dorgql(qr, qc, k, abuf, ldq, tauv.sl(), work, lwork)
		}
	}
	call := fmt.Sprintf("%s(m=%d,n=%d,k=%d,lda=%d)", gname, qr, qc, k, ldq)
	g := q0.clone()
	q, fl := wsQuery(call, gminW, func(w []float64) { run(g.sl(), w, -1) }, g, tauv)
	if fl != nil {
		return fl
	}
	tol := orthTol(qr, qc) * math.Sqrt(float64(max(1, k)))
	for li, lw := range reducedLworks(c, 3, gminW, gminW, q, false) {
		g := q0.clone()
		w := newWork(lw, c.LwK%2)
		callw := fmt.Sprintf("%s lwork=%d (minimum %d, query %d) [block size lwork/%d = %d]", call, lw, gminW, q, gminW, lw/gminW)
		vk.Class("fact-lwork:" + gname + ":reduced-nb")
		if fl := vk.MustReturn("org-panics", func() { run(g.sl(), w.sl(), lw) }); fl != nil {
			fl.Msg = callw + ": " + fl.Msg
			return fl
		}
		if fl := first(g.checkPad(callw), deferOverrun(w.check(callw)), tauv.checkSame(callw, tsnap), g.checkFinite(callw)); fl != nil {
			return fl
		}
		if fl := checkWork0(callw, w.sl()[0], gminW); fl != nil {
			return fl
		}
		got := g.dense()
		if e := diffFro(got, want); !(e <= tol) {
			return vk.Failf("org-vs-reflector-product", "%s: ||Q - explicit product of the reflectors||_F = %.3g exceeds %.3g", callw, e, tol)
		}
		if li == 0 {
			if e := orthErr(got, kind == kindLQ); !(e <= tol) {
				return vk.Failf("org-not-orthonormal", "%s: ||Q^T Q - I||_F = %.3g exceeds %.3g", callw, e, tol)
			}
		}
	}
	return nil
}

// checkGetriLw: Dgetri with reduced block sizes (n > 64), oracle of lu_test.go:
// |X (P L U) - I| <= cwBound(n,3) |X| (P |L||U|).
func checkGetriLw(c factLwCase) *vk.Failure {
	n := 65 + max(0, c.M-129)%64 // 65..128
	r := vk.NewSplitMix(c.Seed)
	cls := clsGauss
	if c.LwK%3 == 0 {
		cls = clsDiagDom
	}
	a := genGeneral(cls, n, n, r)
	pre, post, trim := padFrom(r)
	lda := n + c.PadA
	f1 := newPmat("a", n, n, lda, pre, post, trim)
	f1.load(a)
	ip1 := newPints("ipiv", n, 1, 1)
	var ok1 bool
	call := fmt.Sprintf("Dgetrf(m=%d,n=%d,lda=%d)", n, n, lda)
	if fl := vk.MustReturn("getrf-panics", func() { ok1 = impl.Dgetrf(n, n, f1.sl(), lda, ip1.sl()) }); fl != nil {
		return fl
	}
	lu1, s1, fl := verifyLU(call, a, f1, ip1.sl(), ok1, cls)
	if fl != nil {
		return fl
	}
	if !ok1 {
		return nil // exactly singular Gaussian matrix: not produced in practice
	}
	ipiv := ip1.sl()
	ipsnap := ip1.snapshot()
	unperm := func(x dm) dm {
		y := x.clone()
		for i := len(ipiv) - 1; i >= 0; i-- {
			if p := ipiv[i]; p != i {
				ri, rp := y.row(i), y.row(p)
				for j := range ri {
					ri[j], rp[j] = rp[j], ri[j]
				}
			}
		}
		return y
	}
	plu, ps := unperm(lu1), unperm(s1)
	minW := n
	g := f1.clone()
	q, fl := wsQuery(fmt.Sprintf("Dgetri(n=%d,lda=%d)", n, lda), minW, func(w []float64) {
		impl.Dgetri(n, g.sl(), lda, ipiv, w, -1)
	}, g, ip1)
	if fl != nil {
		return fl
	}
	for _, lw := range reducedLworks(c, 3, n, minW, q, q >= 64*n) {
		w := newWork(lw, c.LwK%3)
		g := f1.clone()
		var okI bool
		callI := fmt.Sprintf("Dgetri(n=%d,lda=%d,lwork=%d,minimum=%d,query=%d) [block size lwork/n = %d]", n, lda, lw, minW, q, lw/n)
		vk.Class("fact-lwork:Dgetri:reduced-nb")
		if fl := vk.MustReturn("getri-panics", func() { okI = impl.Dgetri(n, g.sl(), lda, ipiv, w.sl(), lw) }); fl != nil {
			fl.Msg = callI + ": " + fl.Msg
			return fl
		}
		if !okI {
			return vk.Failf("getri-not-ok", "%s returned false for a nonsingular factorization", callI)
		}
		if fl := first(g.checkPad(callI), w.check(callI), ip1.checkSame(callI, ipsnap), g.checkFinite(callI)); fl != nil {
			return fl
		}
		if w0 := w.sl()[0]; !(w0 >= float64(minW)) || w0 != math.Floor(w0) {
			return vk.Failf("getri-work0", "%s: work[0]=%v on return is not a sufficient length (minimum %d)", callI, w0, minW)
		}
		x := g.dense()
		res, _ := mul(x, plu)
		_, bound := mul(x.abs(), ps)
		if fl := cwCheck("getri-left-residual", callI+": X*(P*L*U) vs I", eye(n), res, bound, cwBound(n, 3)); fl != nil {
			return fl
		}
	}
	return nil
}

func drawFactLw(t *rapid.T) factLwCase {
	// min(m,n) > 128 (the crossover of the blocked factorizations and
	// generators); the number of reflectors handled by block code is k-128.
	k := 129 + hashPick(t, "k", 56)
	if hashPick(t, "kbnd", 4) == 0 {
		k = []int{129, 130, 160, 161, 162, 192}[hashPick(t, "kb", 6)]
	}
	o := k
	if hashPick(t, "shape", 3) != 0 {
		o = k + hashPick(t, "extra", 25)
	}
	m, n := k, o
	if rapid.Bool().Draw(t, "tall") {
		m, n = o, k
	}
	nbs, rems := drawNbs(t, 3, nbQR-1)
	return factLwCase{
		Kind: hashPick(t, "kind", nFlKinds),
		M:    m, N: n,
		PadA: vk.Pad(t, "padA"),
		Nbs:  nbs,
		Rems: rems,
		LwK:  rapid.IntRange(0, 100000).Draw(t, "lwk"),
		Seed: vk.SeedGen(t, "seed"),
	}
}

func TestFactLwork(t *testing.T) {
	vk.Run(t, "fact-lwork", vk.Opts{Quick: 48, Thorough: 1600}, drawFactLw, finish(checkFactLw))
}
