package c02

import (
	"fmt"
	"testing"

	"gonum.org/v1/gonum/blas"
	"verifharness/vk"
)

// ---- Documented minimum work lengths must be accepted -----------------------
//
// The lwork modes of the other sub-checks use the lengths the routines actually
// require. Where the doc comment states a different (smaller in some shapes)
// minimum, the documented value is tried here on a shape where the two differ.

type docminCase struct {
	Routine string
	Right   bool
	M, N    int
}

func checkDocmin(c docminCase) *vk.Failure {
	m, n := c.M, c.N
	vk.NonTrivial("docmin", c.Routine, c.Right, m, n)
	vk.Sample("docmin", c)
	side := blas.Left
	if c.Right {
		side = blas.Right
	}
	r := vk.NewSplitMix(uint64(m*31 + n))
	cm := genGeneral(clsGauss, m, n, r)
	pc := newPmat("c", m, n, n, 1, 1, true)
	pc.load(cm)
	nq := m
	if c.Right {
		nq = n
	}
	switch c.Routine {
	case "Dlarf":
		// "work must have length at least m if side == blas.Left and at least n if side == blas.Right."
		lw := m
		if c.Right {
			lw = n
		}
		v := make([]float64, nq)
		for i := range v {
			v[i] = r.Norm()
		}
		work := make([]float64, lw)
		if fl := vk.MustReturn("Dlarf-documented-work-length-rejected", func() { impl.Dlarf(side, m, n, v, 1, 0.5, pc.sl(), n, work) }); fl != nil {
			fl.Msg = fmt.Sprintf("Dlarf(side=%c,m=%d,n=%d) with len(work)=%d as documented: %s", side, m, n, lw, fl.Msg)
			return fl
		}
	case "Dormlq", "Dormqr":
		// Dormlq: "At minimum, lwork >= m if side == blas.Left and lwork >= n if side == blas.Right".
		// Dormqr repeats that sentence (after stating the opposite one paragraph earlier).
		lw := m
		if c.Right {
			lw = n
		}
		k := 1
		tau := []float64{0.5}
		work := make([]float64, lw)
		var a []float64
		var lda int
		key := c.Routine + "-documented-lwork-rejected"
		if c.Routine == "Dormlq" {
			a, lda = make([]float64, nq), nq // k x nq
			a[0] = 1
			if fl := vk.MustReturn(key, func() { impl.Dormlq(side, blas.NoTrans, m, n, k, a, lda, tau, pc.sl(), n, work, lw) }); fl != nil {
				fl.Msg = fmt.Sprintf("Dormlq(side=%c,m=%d,n=%d,k=1) with lwork=%d as documented: %s", side, m, n, lw, fl.Msg)
				return fl
			}
		} else {
			a, lda = make([]float64, nq), 1 // nq x k
			a[0] = 1
			if fl := vk.MustReturn(key, func() { impl.Dormqr(side, blas.NoTrans, m, n, k, a, lda, tau, pc.sl(), n, work, lw) }); fl != nil {
				fl.Msg = fmt.Sprintf("Dormqr(side=%c,m=%d,n=%d,k=1) with lwork=%d as documented: %s", side, m, n, lw, fl.Msg)
				return fl
			}
		}
	}
	return pc.checkPad(c.Routine)
}

func TestDocmin(t *testing.T) {
	var cases []docminCase
	for _, rt := range []string{"Dlarf", "Dormlq", "Dormqr"} {
		for _, right := range []bool{false, true} {
			for _, sh := range [][2]int{{2, 5}, {5, 2}, {3, 3}} {
				cases = append(cases, docminCase{rt, right, sh[0], sh[1]})
			}
		}
	}
	vk.Enumerate(t, "docmin", len(cases), func(i int) docminCase { return cases[i] }, finish(checkDocmin))
}
