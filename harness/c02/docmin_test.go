package c02

import (
	"fmt"
	"os"
	"path/filepath"
	"reflect"
	"regexp"
	"runtime"
	"strings"
	"testing"

	"gonum.org/v1/gonum/blas"
	"gonum.org/v1/gonum/lapack/gonum"
	"verifharness/vk"
)

// ---- Documented minimum work lengths must be accepted -----------------------
//
// The lwork modes of the other sub-checks use the lengths the routines actually
// require. Where the doc comment states a different (smaller in some shapes)
// minimum, the documented value (read from the doc comment in the source tree
// the binary was built from) is tried here on shapes where the two differ.

type docminCase struct {
	Routine string
	Right   bool
	M, N    int
}

// documentedLeft returns the dimension letters ("m" or "n") that the doc
// comment of the routine names as the minimum work length for side == Left,
// read from the source file the test binary was built from (every statement
// found is tried; Dormqr used to contain two contradictory ones).
func documentedLeft(routine string) []string {
	var pc uintptr
	switch routine {
	case "Dlarf":
		pc = reflect.ValueOf(gonum.Implementation.Dlarf).Pointer()
	case "Dormlq":
		pc = reflect.ValueOf(gonum.Implementation.Dormlq).Pointer()
	case "Dormqr":
		pc = reflect.ValueOf(gonum.Implementation.Dormqr).Pointer()
	}
	f := runtime.FuncForPC(pc)
	if f == nil {
		return nil
	}
	file, _ := f.FileLine(f.Entry())
	file = filepath.Join(filepath.Dir(file), strings.ToLower(routine)+".go")
	src, err := os.ReadFile(file)
	if err != nil {
		return nil
	}
	end := strings.Index(string(src), "\nfunc (impl Implementation) "+routine+"(")
	if end < 0 {
		return nil
	}
	doc := string(src[:end])
	doc = doc[strings.LastIndex(doc, "\n\n")+1:]
	doc = strings.Join(strings.Fields(strings.ReplaceAll(doc, "//", " ")), " ")
	var out []string
	for _, re := range []*regexp.Regexp{
		regexp.MustCompile(`length at least ([mn]) if side == blas\.Left`),
		regexp.MustCompile(`lwork >= ([mn]) if side == blas\.Left`),
		regexp.MustCompile(`lwork must be at least ([mn]) if side == blas\.Left`),
	} {
		for _, mt := range re.FindAllStringSubmatch(doc, -1) {
			out = append(out, mt[1])
		}
	}
	return out
}

func checkDocmin(c docminCase) *vk.Failure {
	m, n := c.M, c.N
	vk.NonTrivial("docmin", c.Routine, c.Right, m, n)
	vk.Sample("docmin", c)
	side := blas.Left
	if c.Right {
		side = blas.Right
	}
	letters := documentedLeft(c.Routine)
	if len(letters) == 0 {
		vk.Inconclusive("docmin: doc comment of " + c.Routine + " not found or not understood")
		return nil
	}
	nq := m
	if c.Right {
		nq = n
	}
	for _, letter := range letters {
		// documented length for this side: the comment gives the letter for Left
		// and the other one for Right
		lw := n
		if (letter == "m") != c.Right {
			lw = m
		}
		r := vk.NewSplitMix(uint64(m*31 + n))
		cm := genGeneral(clsGauss, m, n, r)
		pc := newPmat("c", m, n, n, 1, 1, true)
		pc.load(cm)
		work := make([]float64, lw)
		var fl *vk.Failure
		switch c.Routine {
		case "Dlarf":
			v := make([]float64, nq)
			for i := range v {
				v[i] = r.Norm()
			}
			fl = vk.MustReturn("Dlarf-documented-work-length-rejected", func() { impl.Dlarf(side, m, n, v, 1, 0.5, pc.sl(), n, work) })
		case "Dormlq":
			a := make([]float64, nq) // k x nq, k = 1
			a[0] = 1
			fl = vk.MustReturn("Dormlq-documented-lwork-rejected", func() {
				impl.Dormlq(side, blas.NoTrans, m, n, 1, a, nq, []float64{0.5}, pc.sl(), n, work, lw)
			})
		case "Dormqr":
			a := make([]float64, nq) // nq x k, k = 1
			a[0] = 1
			fl = vk.MustReturn("Dormqr-documented-lwork-rejected", func() {
				impl.Dormqr(side, blas.NoTrans, m, n, 1, a, 1, []float64{0.5}, pc.sl(), n, work, lw)
			})
		}
		if fl != nil {
			fl.Msg = fmt.Sprintf("%s(side=%c,m=%d,n=%d) with work length %d, which the doc comment states as sufficient (\"%s\" for side == Left): %s", c.Routine, side, m, n, lw, letter, fl.Msg)
			return fl
		}
		if fl := pc.checkPad(c.Routine); fl != nil {
			return fl
		}
	}
	return nil
}

func TestDocmin(t *testing.T) {
	var cases []docminCase
	for _, rt := range []string{"Dlarf", "Dormlq", "Dormqr"} {
		for _, right := range []bool{false, true} {
			for _, sh := range [][2]int{{2, 5}, {5, 2}, {3, 3}} {
				cases = append(cases, docminCase{rt, right, sh[0], sh[1]})
			}
		}
	}
	vk.Enumerate(t, "docmin", len(cases), func(i int) docminCase { return cases[i] }, finish(checkDocmin))
}
