package c02

import (
	"fmt"
	"math"
	"testing"

	"gonum.org/v1/gonum/blas"
	"gonum.org/v1/gonum/blas/blas64"
	"gonum.org/v1/gonum/lapack/lapack64"
	"pgregory.net/rapid"
	"verifharness/vk"
)

// ---- Band Cholesky: Dpbtrf/Dpbtf2, Dpbtrs, Dpbcon ---------------------------

type pbCase struct {
	N, Kd, Nrhs int
	PadA, PadB  int
	Upper       bool
	NotPD       bool
	Ints        bool
	Seed        uint64
}

// symBandStore maps band storage position (i,d) to the matrix column.
func symBandCol(upper bool, kd, i, d int) int {
	if upper {
		return i + d
	}
	return i - kd + d
}

func checkPB(c pbCase) *vk.Failure {
	n := c.N
	kd := c.Kd
	if kd > max(0, n-1) {
		kd = max(0, n-1)
	}
	r := vk.NewSplitMix(c.Seed)
	// symmetric band matrix, strictly diagonally dominant with positive diagonal
	a := newDM(n, n)
	for i := 0; i < n; i++ {
		for j := i + 1; j <= min(n-1, i+kd); j++ {
			v := r.Norm()
			if c.Ints {
				v = float64(r.Intn(5) - 2)
			}
			a.set(i, j, v)
			a.set(j, i, v)
		}
	}
	for i := 0; i < n; i++ {
		s := 1.0
		for j := 0; j < n; j++ {
			if j != i {
				s += math.Abs(a.at(i, j))
			}
		}
		a.set(i, i, s)
	}
	if c.NotPD && n > 0 {
		p := r.Intn(n)
		v := 0.0
		if r.Intn(2) == 0 {
			v = -1 - math.Abs(r.Norm())
		}
		a.set(p, p, v)
	}
	blocked := kd > 64 // Ilaenv(1, DPBTRF) = 32 only for kd > 64
	ul := uploOf(c.Upper)
	vk.Class("pb:n=" + sizeClass(n))
	vk.Class(fmt.Sprintf("pb:upper=%v,notpd=%v", c.Upper, c.NotPD))
	if blocked {
		vk.Class("pb:path=blocked")
	} else {
		vk.Class("pb:path=unblocked")
	}
	if n >= 2 && (blocked || c.PadA > 0 || !c.Upper || c.NotPD) {
		vk.NonTrivial("pb", n, kd, c.PadA, c.Upper, c.NotPD, c.Seed)
	}
	vk.Sample("pb", c)
	pre, post, trim := padFrom(r)
	upper := c.Upper
	mk := func(ld, pre, post int, trim bool) *pmat {
		p := newPmat("ab", n, kd+1, ld, pre, post, trim)
		p.ref = func(i, d int) bool { j := symBandCol(upper, kd, i, d); return j >= 0 && j < n }
		for i := 0; i < n; i++ {
			for d := 0; d <= kd; d++ {
				if p.ref(i, d) {
					p.set(i, d, a.at(i, symBandCol(upper, kd, i, d)))
				}
			}
		}
		return p
	}
	factorOf := func(p *pmat) dm { // R upper triangular with A = R^T R
		rm := newDM(n, n)
		for i := 0; i < n; i++ {
			for d := 0; d <= kd; d++ {
				if p.ref(i, d) {
					j := symBandCol(upper, kd, i, d)
					if upper {
						rm.set(i, j, p.at(i, d))
					} else {
						rm.set(j, i, p.at(i, d))
					}
				}
			}
		}
		return rm
	}
	ldab := kd + 1 + c.PadA
	f1 := mk(ldab, pre, post, trim)
	in1 := f1.clone()
	var ok1 bool
	call := fmt.Sprintf("Dpbtrf(uplo=%c,n=%d,kd=%d,ldab=%d)", ul, n, kd, ldab)
	if fl := vk.MustReturn("pbtrf-panics", func() { ok1 = impl.Dpbtrf(ul, n, kd, f1.sl(), ldab) }); fl != nil {
		return fl
	}
	if fl := f1.checkPad(call); fl != nil {
		return fl
	}
	ld2 := kd + 1
	if c.PadA == 0 {
		ld2 += 2
	}
	f2 := mk(ld2, post, pre, !trim)
	var ok2 bool
	call2 := fmt.Sprintf("Dpbtf2(uplo=%c,n=%d,kd=%d,ldab=%d)", ul, n, kd, ld2)
	if fl := vk.MustReturn("pbtf2-panics", func() { ok2 = impl.Dpbtf2(ul, n, kd, f2.sl(), ld2) }); fl != nil {
		return fl
	}
	if fl := f2.checkPad(call2); fl != nil {
		return fl
	}
	f3 := in1.clone()
	var ok3 bool
	if fl := vk.MustReturn("lapack64-pbtrf-panics", func() {
		_, ok3 = lapack64.Pbtrf(blas64.SymmetricBand{Uplo: ul, N: n, K: kd, Stride: ldab, Data: f3.sl()})
	}); fl != nil {
		return fl
	}
	if fl := f3.checkSame("lapack64.Pbtrf vs Dpbtrf", f1.buf); fl != nil || ok3 != ok1 {
		return vk.Failf("lapack64-pbtrf-differs", "%s: wrapper differs (ok %v vs %v)", call, ok3, ok1)
	}
	if c.NotPD && n > 0 {
		if ok1 || ok2 {
			return vk.Failf("not-spd-not-reported", "%s / Dpbtf2: non-positive diagonal entry but ok=%v/%v", call, ok1, ok2)
		}
		return nil
	}
	if !ok1 || !ok2 {
		return vk.Failf("spd-rejected", "%s ok=%v, %s ok=%v on a strictly diagonally dominant matrix with positive diagonal", call, ok1, call2, ok2)
	}
	k := min(n, kd+1)
	var rtr, s1 dm
	for i, f := range []*pmat{f1, f2} {
		cl := call
		if i == 1 {
			cl = call2
		}
		if fl := f.checkFinite(cl); fl != nil {
			return fl
		}
		rm := factorOf(f)
		for d := 0; d < n; d++ {
			if !(rm.at(d, d) > 0) {
				return vk.Failf("chol-diagonal", "%s: factor diagonal %d is %v", cl, d, rm.at(d, d))
			}
		}
		p, s := mul(rm.t(), rm)
		tol := cwBound(k, 1)
		if fl := cwCheck("pb-backward-error", cl+": A vs R^T*R", a, p, s, tol); fl != nil {
			return fl
		}
		if i == 0 {
			rtr, s1 = p, s
		}
	}
	if n == 0 {
		return nil
	}
	fsnap := f1.snapshot()
	// --- Dpbtrs ---
	nrhs := c.Nrhs
	ldb := max(1, nrhs) + c.PadB
	bd := genGeneral(clsGauss, n, nrhs, r)
	b := newPmat("b", n, nrhs, ldb, post, pre, trim)
	b.load(bd)
	bIn := b.clone()
	callS := fmt.Sprintf("Dpbtrs(uplo=%c,n=%d,kd=%d,nrhs=%d,ldab=%d,ldb=%d)", ul, n, kd, nrhs, ldab, ldb)
	if fl := vk.MustReturn("pbtrs-panics", func() { impl.Dpbtrs(ul, n, kd, nrhs, f1.sl(), ldab, b.sl(), ldb) }); fl != nil {
		return fl
	}
	if fl := first(b.checkPad(callS), f1.checkSame(callS, fsnap), b.checkFinite(callS)); fl != nil {
		return fl
	}
	if nrhs > 0 {
		x := b.dense()
		res, _ := mul(rtr, x)
		_, bound := mul(s1, x.abs())
		if fl := cwCheck("pbtrs-backward-error", callS+": B vs (R^T*R)*X", bd, res, bound, cwBound(k, 3)); fl != nil {
			return fl
		}
	}
	b3 := bIn.clone()
	if fl := vk.MustReturn("lapack64-pbtrs-panics", func() {
		lapack64.Pbtrs(blas64.TriangularBand{Uplo: ul, Diag: blas.NonUnit, N: n, K: kd, Stride: ldab, Data: f1.sl()}, blas64.General{Rows: n, Cols: nrhs, Stride: ldb, Data: b3.sl()})
	}); fl != nil {
		return fl
	}
	if fl := b3.checkSame("lapack64.Pbtrs vs Dpbtrs", b.buf); fl != nil {
		fl.Key = "lapack64-pbtrs-differs"
		return fl
	}
	// --- Dpbcon ---
	anorm := a.norm1()
	wc := newPvec("work", 3*n, 1, 1, trim)
	iw := newPints("iwork", n, 1, 1)
	var rc float64
	callC := fmt.Sprintf("Dpbcon(uplo=%c,n=%d,kd=%d,ldab=%d)", ul, n, kd, ldab)
	if fl := vk.MustReturn("pbcon-panics", func() { rc = impl.Dpbcon(ul, n, kd, f1.sl(), ldab, anorm, wc.sl(), iw.sl()) }); fl != nil {
		return fl
	}
	if fl := first(f1.checkSame(callC, fsnap), wc.checkPad(callC), iw.checkPad(callC)); fl != nil {
		return fl
	}
	wc3 := newPvec("work", 3*n, 1, 1, trim)
	iw3 := newPints("iwork", n, 1, 1)
	var rc3 float64
	if fl := vk.MustReturn("lapack64-pbcon-panics", func() {
		rc3 = lapack64.Pbcon(blas64.SymmetricBand{Uplo: ul, N: n, K: kd, Stride: ldab, Data: f1.sl()}, anorm, wc3.sl(), iw3.sl())
	}); fl != nil {
		return fl
	}
	if !vk.SameBits(rc, rc3) {
		return vk.Failf("lapack64-pbcon-differs", "%s: %v vs wrapper %v", callC, rc, rc3)
	}
	if xinv, okR := refInverse(a); okR {
		if fl := condCheck(callC, n, rc, anorm, xinv.norm1(), 1); fl != nil {
			return fl
		}
	}
	return nil
}

func TestPB(t *testing.T) {
	vk.Run(t, "pb", vk.Opts{Quick: 500, Thorough: 12000}, func(t *rapid.T) pbCase {
		kds := []int{0, 1, 2, 3, 5, 8, 20, 31, 32, 33, 63, 64, 65, 66, 80, 96, 97, 120}
		kd := kds[vk.NewSplitMix(rapid.Uint64().Draw(t, "kd")).Intn(len(kds))]
		n := drawDim(t, "n", 80, 200)
		if kd > 64 && n <= kd+1 && rapid.IntRange(0, 3).Draw(t, "keepSmall") != 0 {
			// the blocked code needs kd > 64 and n > kd
			n = kd + 2 + rapid.IntRange(0, 70).Draw(t, "nExtra")
		}
		return pbCase{
			N:    n,
			Kd:   kd,
			Nrhs: drawNrhs(t), PadA: vk.Pad(t, "padA"), PadB: vk.Pad(t, "padB"),
			Upper: rapid.Bool().Draw(t, "upper"),
			NotPD: vk.NewSplitMix(rapid.Uint64().Draw(t, "notpd")).Intn(5) == 0,
			Ints:  rapid.Bool().Draw(t, "ints"),
			Seed:  vk.SeedGen(t, "seed"),
		}
	}, finish(checkPB))
}
