package c02

import (
	"fmt"
	"math"
	"testing"

	"gonum.org/v1/gonum/blas/blas64"
	"gonum.org/v1/gonum/lapack"
	"gonum.org/v1/gonum/lapack/lapack64"
	"pgregory.net/rapid"
	"verifharness/vk"
)

// ---- Dlange, Dlansy, Dlantr, Dlansb, Dlantb, Dlangb, Dlangt, Dlanst --------

const (
	nrmGE = iota
	nrmSY
	nrmTR
	nrmSB
	nrmTB
	nrmGB
	nrmGT
	nrmST
	nNrmKinds
)

var nrmNames = [...]string{"Dlange", "Dlansy", "Dlantr", "Dlansb", "Dlantb", "Dlangb", "Dlangt", "Dlanst"}

type normCase struct {
	Kind     int
	Norm     int // index into normKinds
	M, N     int
	KL, KU   int
	Pad      int
	Upper    bool
	Unit     bool
	Ints     bool
	ScaleExp int // entries are multiplied by 2^ScaleExp
	Seed     uint64
}

// refNorm evaluates the norm of a dense matrix directly; terms is the largest
// number of summands of any single sum.
func refNorm(a dm, norm int) (v float64, terms int) {
	switch norm {
	case 0:
		return a.maxAbs(), 1
	case 1:
		return a.norm1(), a.r
	case 2:
		return a.normInf(), a.c
	}
	return a.fro(), a.r * a.c
}

func checkNorm(c normCase) *vk.Failure {
	m, n := c.M, c.N
	kind := c.Kind
	square := kind != nrmGE && kind != nrmTR && kind != nrmGB
	if square {
		m = n
	}
	kl, ku := c.KL, c.KU
	r := vk.NewSplitMix(c.Seed)
	val := func() float64 {
		if c.Ints {
			return float64(r.Intn(9) - 4)
		}
		return r.Norm()
	}
	// in(i,j): element belongs to the stored structure; sym: mirrored.
	var in func(i, j int) bool
	sym := false
	unit := false
	switch kind {
	case nrmGE:
		in = func(i, j int) bool { return true }
	case nrmSY:
		sym = true
		in = triRef(c.Upper)
	case nrmTR:
		unit = c.Unit
		in = triRef(c.Upper)
	case nrmSB:
		sym = true
		ku = min(ku, max(0, n-1))
		kl = ku
		if c.Upper {
			in = func(i, j int) bool { return j >= i && j-i <= ku }
		} else {
			in = func(i, j int) bool { return j <= i && i-j <= ku }
		}
	case nrmTB:
		unit = c.Unit
		ku = min(ku, max(0, n-1))
		if c.Upper {
			in = func(i, j int) bool { return j >= i && j-i <= ku }
		} else {
			in = func(i, j int) bool { return j <= i && i-j <= ku }
		}
	case nrmGB:
		in = func(i, j int) bool { return j-i <= ku && i-j <= kl }
	case nrmGT:
		in = func(i, j int) bool { return j-i <= 1 && i-j <= 1 }
	case nrmST:
		sym = true
		in = func(i, j int) bool { return j >= i && j-i <= 1 }
	}
	// unscaled dense matrix (what the norm is taken of, divided by 2^ScaleExp)
	full := newDM(m, n)
	stored := newDM(m, n)
	for i := 0; i < m; i++ {
		for j := 0; j < n; j++ {
			if !in(i, j) {
				continue
			}
			v := val()
			if unit && i == j {
				continue
			}
			stored.set(i, j, v)
			full.set(i, j, v)
			if sym && i != j {
				full.set(j, i, v)
			}
		}
	}
	sc := math.Ldexp(1, c.ScaleExp)
	if unit {
		// the implicit unit diagonal is not scaled
		for i := 0; i < min(m, n); i++ {
			full.set(i, i, 1/sc)
		}
	}
	want, terms := refNorm(full, c.Norm)
	want *= sc
	name := nrmNames[kind]
	vk.Class("norm:" + name + "," + normNames[c.Norm])
	if min(m, n) >= 2 {
		vk.NonTrivial("norm", kind, c.Norm, m, n, kl, ku, c.Pad, c.Upper, c.Unit, c.ScaleExp, c.Seed)
	}
	vk.Sample("norm", c)
	pre, post, trim := padFrom(r)
	nk := normKinds[c.Norm]
	ul, dg := uploOf(c.Upper), diagOf(c.Unit)

	// work: required only for some norms; nil otherwise ("work is unused").
	needWork := false
	switch kind {
	case nrmGE, nrmTR, nrmTB:
		needWork = c.Norm == 1
	case nrmSY, nrmSB:
		needWork = c.Norm == 1 || c.Norm == 2
	}
	var wp *pmat
	var work []float64
	if needWork {
		wp = newPvec("work", n, 1, 1, true)
		work = wp.sl()
	}
	var got, got3 float64
	has3 := true
	var ops []*pmat
	var call string
	skipStoreDiag := func(i, j int) bool { return unit && i == j }
	switch kind {
	case nrmGE, nrmSY, nrmTR:
		lda := max(1, n) + c.Pad
		p := newPmat("a", m, n, lda, pre, post, trim)
		p.ref = func(i, j int) bool { return in(i, j) && !skipStoreDiag(i, j) }
		for i := 0; i < m; i++ {
			for j := 0; j < n; j++ {
				if p.ref(i, j) {
					p.set(i, j, stored.at(i, j)*sc)
				}
			}
		}
		ops = []*pmat{p}
		call = fmt.Sprintf("%s(norm=%c,uplo=%c,diag=%c,m=%d,n=%d,lda=%d)", name, nk, ul, dg, m, n, lda)
		switch kind {
		case nrmGE:
			got = callNorm(func() float64 { return impl.Dlange(nk, m, n, p.sl(), lda, work) })
			got3 = callNorm(func() float64 {
				return lapack64.Lange(nk, blas64.General{Rows: m, Cols: n, Stride: lda, Data: p.sl()}, work)
			})
		case nrmSY:
			got = callNorm(func() float64 { return impl.Dlansy(nk, ul, n, p.sl(), lda, work) })
			got3 = callNorm(func() float64 {
				return lapack64.Lansy(nk, blas64.Symmetric{Uplo: ul, N: n, Stride: lda, Data: p.sl()}, work)
			})
		case nrmTR:
			got = callNorm(func() float64 { return impl.Dlantr(nk, ul, dg, m, n, p.sl(), lda, work) })
			if m == n {
				got3 = callNorm(func() float64 {
					return lapack64.Lantr(nk, blas64.Triangular{Uplo: ul, Diag: dg, N: n, Stride: lda, Data: p.sl()}, work)
				})
			} else {
				has3 = false
			}
		}
	case nrmSB, nrmTB:
		ldab := ku + 1 + c.Pad
		p := newPmat("ab", n, ku+1, ldab, pre, post, trim)
		col := func(i, d int) int { return symBandCol(c.Upper, ku, i, d) }
		p.ref = func(i, d int) bool { j := col(i, d); return j >= 0 && j < n && !skipStoreDiag(i, j) }
		for i := 0; i < n; i++ {
			for d := 0; d <= ku; d++ {
				if p.ref(i, d) {
					p.set(i, d, stored.at(i, col(i, d))*sc)
				}
			}
		}
		ops = []*pmat{p}
		call = fmt.Sprintf("%s(norm=%c,uplo=%c,diag=%c,n=%d,kd=%d,ldab=%d)", name, nk, ul, dg, n, ku, ldab)
		if kind == nrmSB {
			got = callNorm(func() float64 { return impl.Dlansb(nk, ul, n, ku, p.sl(), ldab, work) })
			got3 = callNorm(func() float64 {
				return lapack64.Lansb(nk, blas64.SymmetricBand{Uplo: ul, N: n, K: ku, Stride: ldab, Data: p.sl()}, work)
			})
		} else {
			got = callNorm(func() float64 { return impl.Dlantb(nk, ul, dg, n, ku, p.sl(), ldab, work) })
			got3 = callNorm(func() float64 {
				return lapack64.Lantb(nk, blas64.TriangularBand{Uplo: ul, Diag: dg, N: n, K: ku, Stride: ldab, Data: p.sl()}, work)
			})
		}
	case nrmGB:
		ncol := kl + 1 + ku
		ldab := ncol + c.Pad
		rows := min(m, n+kl)
		// Dlangb requires len(ab) >= rows*ldab: the stride padding of the last
		// row is part of the slice (and must stay untouched).
		p := newPmat("ab", rows, ldab, ldab, pre, post, trim)
		p.ref = func(i, d int) bool { j := i - kl + d; return d < ncol && j >= 0 && j < n }
		for i := 0; i < rows; i++ {
			for d := 0; d < ncol; d++ {
				if p.ref(i, d) {
					p.set(i, d, stored.at(i, i-kl+d)*sc)
				}
			}
		}
		ops = []*pmat{p}
		call = fmt.Sprintf("%s(norm=%c,m=%d,n=%d,kl=%d,ku=%d,ldab=%d)", name, nk, m, n, kl, ku, ldab)
		got = callNorm(func() float64 { return impl.Dlangb(nk, m, n, kl, ku, p.sl(), ldab) })
		got3 = callNorm(func() float64 {
			return lapack64.Langb(nk, blas64.Band{Rows: m, Cols: n, KL: kl, KU: ku, Stride: ldab, Data: p.sl()})
		})
	case nrmGT, nrmST:
		m1 := max(0, n-1)
		pd, pl, pu := newPvec("d", n, pre, post, trim), newPvec("dl", m1, post, pre, trim), newPvec("du", m1, pre, post, trim)
		for i := 0; i < n; i++ {
			pd.sl()[i] = stored.at(i, i) * sc
			if i < m1 {
				pu.sl()[i] = stored.at(i, i+1) * sc
				if kind == nrmGT {
					pl.sl()[i] = stored.at(i+1, i) * sc
				}
			}
		}
		call = fmt.Sprintf("%s(norm=%c,n=%d)", name, nk, n)
		if kind == nrmGT {
			ops = []*pmat{pd, pl, pu}
			got = callNorm(func() float64 { return impl.Dlangt(nk, n, pl.sl(), pd.sl(), pu.sl()) })
			got3 = callNorm(func() float64 {
				return lapack64.Langt(nk, lapack64.Tridiagonal{N: n, DL: pl.sl(), D: pd.sl(), DU: pu.sl()})
			})
		} else {
			ops = []*pmat{pd, pu}
			got = callNorm(func() float64 { return impl.Dlanst(nk, n, pd.sl(), pu.sl()) })
			has3 = false
		}
	}
	if math.IsNaN(got) && normPanic != "" {
		return vk.Failf("norm-panics", "%s: %s", call, normPanic)
	}
	for _, p := range ops {
		if fl := p.checkPad(call); fl != nil {
			return fl
		}
		// referenced elements are inputs only
		for i := 0; i < p.r; i++ {
			for j := 0; j < p.c; j++ {
				if (p.ref == nil || p.ref(i, j)) && math.IsNaN(p.at(i, j)) {
					return vk.Failf("readonly-modified", "%s: input element (%d,%d) of %s became NaN", call, i, j, p.name)
				}
			}
		}
	}
	if wp != nil {
		if fl := wp.checkPad(call); fl != nil {
			return fl
		}
	}
	if has3 && !vk.SameBits(got, got3) {
		return vk.Failf("lapack64-norm-differs", "%s = %v, lapack64 wrapper = %v", call, got, got3)
	}
	var tol float64
	switch {
	case c.Norm == 0 || c.Ints && c.Norm != 3 && (c.ScaleExp == 0 || !unit):
		tol = 0 // maximum: exact; sums of (scaled) small integers: exact
	case c.Norm == 3:
		// scaled sum of squares (k terms) and a square root: (k/2+3) eps relative
		// for each of the routine and the reference
		tol = float64(terms+8) * vk.Eps * want
	default:
		tol = vk.SumBound(terms, vk.Eps, want)
	}
	if !(math.Abs(got-want) <= tol) {
		return vk.Failf("norm-value", "%s = %v, direct evaluation gives %v (difference %.3g, bound %.3g; scale 2^%d)", call, got, want, math.Abs(got-want), tol, c.ScaleExp)
	}
	return nil
}

var normPanic string

// callNorm runs f; a panic is remembered and NaN returned.
func callNorm(f func() float64) (v float64) {
	normPanic = ""
	res := vk.Call(func() { v = f() })
	if res.Outcome != vk.Returned {
		normPanic = fmt.Sprintf("call on valid arguments ended in %v: %s", res.Outcome, res.Text)
		return math.NaN()
	}
	return v
}

func TestNorm(t *testing.T) {
	vk.Run(t, "norm", vk.Opts{Quick: 800, Thorough: 20000, NoCrumb: true}, func(t *rapid.T) normCase {
		return normCase{
			Kind: rapid.IntRange(0, nNrmKinds-1).Draw(t, "kind"),
			Norm: rapid.IntRange(0, 3).Draw(t, "norm"),
			M:    drawDim(t, "m", 40, 90), N: drawDim(t, "n", 40, 90),
			KL: rapid.IntRange(0, 6).Draw(t, "kl"), KU: rapid.IntRange(0, 6).Draw(t, "ku"),
			Pad:   vk.Pad(t, "pad"),
			Upper: rapid.Bool().Draw(t, "upper"), Unit: rapid.Bool().Draw(t, "unit"),
			Ints:     rapid.Bool().Draw(t, "ints"),
			ScaleExp: rapid.SampledFrom([]int{0, 0, 400, -400}).Draw(t, "scale"),
			Seed:     vk.SeedGen(t, "seed"),
		}
	}, finish(checkNorm))
}

var _ = lapack.MaxAbs
