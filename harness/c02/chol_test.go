package c02

import (
	"fmt"
	"math"
	"testing"

	"gonum.org/v1/gonum/blas"
	"gonum.org/v1/gonum/blas/blas64"
	"gonum.org/v1/gonum/lapack/lapack64"
	"pgregory.net/rapid"
	"verifharness/vk"
)

// ---- Cholesky family: Dpotrf/Dpotf2, Dpotrs, Dpotri, Dpocon, Dlauum/Dlauu2 ----

const (
	spdGauss = iota
	spdInt
	spdDiagDom
	spdWeak   // B^T B + 1e-3 I
	symNonPos // symmetric with one diagonal entry <= 0: not positive definite
	// psdExact: L*L^T with L integer unit lower triangular except for one zero
	// diagonal entry: every operation of the factorization is exact, so the
	// pivot at that position is exactly zero (positive semidefinite, singular).
	psdExact
	nSpdClasses
)

var spdNames = [...]string{"spd-gauss", "spd-int", "spd-diagdom", "spd-weak", "sym-nonpositive-diagonal", "psd-exact-zero-pivot"}

const nbPotrf = 64 // Ilaenv(1, DPOTRF / DTRTRI / DLAUUM)

type cholCase struct {
	N, Nrhs    int
	PadA, PadB int
	Upper      bool
	Class      int
	Seed       uint64
}

func genSym(cls, n int, r *vk.SplitMix) dm {
	switch cls {
	case spdGauss:
		return genSPD(n, r, 1, false)
	case spdInt:
		return genSPD(n, r, 1, true)
	case spdWeak:
		return genSPD(n, r, 1e-3, false)
	case spdDiagDom:
		a := genSymGauss(n, r)
		for i := 0; i < n; i++ {
			s := 1.0
			for j := 0; j < n; j++ {
				if j != i {
					s += math.Abs(a.at(i, j))
				}
			}
			a.set(i, i, s)
		}
		return a
	}
	if cls == psdExact {
		l := eye(n)
		for i := 0; i < n; i++ {
			for j := 0; j < i; j++ {
				l.set(i, j, float64(r.Intn(5)-2))
			}
		}
		if n > 0 {
			p := n - 1
			if r.Intn(2) == 0 {
				p = r.Intn(n)
			}
			l.set(p, p, 0)
		}
		return symGram(l.t())
	}
	// symNonPos: an SPD matrix whose diagonal entry p is replaced by a value <= 0.
	a := genSPD(n, r, 1, false)
	if n > 0 {
		p := r.Intn(n)
		v := 0.0
		if r.Intn(2) == 0 {
			v = -math.Abs(r.Norm()) - 0.5
		}
		a.set(p, p, v)
	}
	return a
}

func triRef(upper bool) func(i, j int) bool {
	if upper {
		return func(i, j int) bool { return j >= i }
	}
	return func(i, j int) bool { return j <= i }
}

// triOf extracts the referenced triangle as an upper triangular matrix R with
// A = R^T R (for lower storage R = L^T).
func cholFactor(p *pmat, upper bool) dm {
	n := p.r
	rm := newDM(n, n)
	for i := 0; i < n; i++ {
		for j := i; j < n; j++ {
			if upper {
				rm.set(i, j, p.at(i, j))
			} else {
				rm.set(i, j, p.at(j, i))
			}
		}
	}
	return rm
}

// symOf rebuilds the full symmetric matrix from the stored triangle.
func symOf(p *pmat, upper bool) dm {
	n := p.r
	a := newDM(n, n)
	for i := 0; i < n; i++ {
		for j := i; j < n; j++ {
			v := p.at(j, i)
			if upper {
				v = p.at(i, j)
			}
			a.set(i, j, v)
			a.set(j, i, v)
		}
	}
	return a
}

// verifyChol checks |A - R^T R| <= cwBound(n,1) |R^T||R| (Higham Thm 10.3; the
// bound holds for the partitioned algorithm as well) and the diagonal sign.
func verifyChol(call string, a dm, f *pmat, upper bool) (rtr, s dm, fl *vk.Failure) {
	n := a.r
	if fl := f.checkFinite(call); fl != nil {
		return rtr, s, fl
	}
	rm := cholFactor(f, upper)
	for i := 0; i < n; i++ {
		if !(rm.at(i, i) > 0) {
			return rtr, s, vk.Failf("chol-diagonal", "%s: ok=true but factor diagonal %d is %v", call, i, rm.at(i, i))
		}
	}
	rtr, s = mul(rm.t(), rm)
	return rtr, s, cwCheck("chol-backward-error", call+": A vs R^T*R", a, rtr, s, cwBound(n, 1))
}

func checkChol(c cholCase) *vk.Failure {
	n := c.N
	r := vk.NewSplitMix(c.Seed)
	a := genSym(c.Class, n, r)
	blocked := n > nbPotrf
	vk.Class("chol:class=" + spdNames[c.Class])
	vk.Class("chol:n=" + sizeClass(n))
	vk.Class(fmt.Sprintf("chol:upper=%v", c.Upper))
	if n >= 2 && (blocked || c.PadA > 0 || !c.Upper || c.Class >= symNonPos) {
		vk.NonTrivial("chol", n, c.PadA, c.Upper, c.Class, c.Seed)
	}
	vk.Sample("chol", c)
	pre, post, trim := padFrom(r)
	ul := uploOf(c.Upper)
	lda := max(1, n) + c.PadA

	f1 := newPmat("a", n, n, lda, pre, post, trim)
	f1.ref = triRef(c.Upper)
	f1.load(a)
	in1 := f1.clone()
	var ok1 bool
	call := fmt.Sprintf("Dpotrf(uplo=%c,n=%d,lda=%d)", ul, n, lda)
	if fl := vk.MustReturn("potrf-panics", func() { ok1 = impl.Dpotrf(ul, n, f1.sl(), lda) }); fl != nil {
		return fl
	}
	if fl := f1.checkPad(call); fl != nil {
		return fl
	}
	// unblocked, other lda
	lda2 := max(1, n)
	if c.PadA == 0 {
		lda2 += 2
	}
	f2 := newPmat("a", n, n, lda2, post, pre, !trim)
	f2.ref = triRef(c.Upper)
	f2.load(a)
	var ok2 bool
	call2 := fmt.Sprintf("Dpotf2(uplo=%c,n=%d,lda=%d)", ul, n, lda2)
	if fl := vk.MustReturn("potf2-panics", func() { ok2 = impl.Dpotf2(ul, n, f2.sl(), lda2) }); fl != nil {
		return fl
	}
	if fl := f2.checkPad(call2); fl != nil {
		return fl
	}
	// lapack64 wrapper
	f3 := in1.clone()
	var ok3 bool
	if fl := vk.MustReturn("lapack64-potrf-panics", func() {
		_, ok3 = lapack64.Potrf(blas64.Symmetric{Uplo: ul, N: n, Stride: lda, Data: f3.sl()})
	}); fl != nil {
		return fl
	}
	if fl := f3.checkSame("lapack64.Potrf vs Dpotrf", f1.buf); fl != nil || ok3 != ok1 {
		return vk.Failf("lapack64-potrf-differs", "%s: wrapper result differs (ok %v vs %v)", call, ok3, ok1)
	}

	if (c.Class == symNonPos || c.Class == psdExact) && n > 0 {
		// a_pp <= 0: every elimination order computes a_pp minus a non-negative
		// sum of squares, so the factorization must stop with ok=false.
		// psdExact: all data are small integers and the factor has a unit
		// diagonal, so the pivot is computed exactly and is exactly zero.
		if ok1 || ok2 {
			return vk.Failf("not-spd-not-reported", "%s / Dpotf2: matrix that is not positive definite (class %s) but ok=%v/%v", call, spdNames[c.Class], ok1, ok2)
		}
		// Dpocon etc. are not defined; done.
		return nil
	}
	if !ok1 || !ok2 {
		return vk.Failf("spd-rejected", "%s ok=%v, %s ok=%v on a positive definite matrix (class %s)", call, ok1, call2, ok2, spdNames[c.Class])
	}
	rtr, s1, fl := verifyChol(call, a, f1, c.Upper)
	if fl != nil {
		return fl
	}
	if _, _, fl := verifyChol(call2, a, f2, c.Upper); fl != nil {
		return fl
	}
	if n == 0 {
		return nil
	}
	fsnap := f1.snapshot()

	// --- Dpotrs ---
	nrhs := c.Nrhs
	ldb := max(1, nrhs) + c.PadB
	bd := genGeneral(clsGauss, n, nrhs, r)
	b := newPmat("b", n, nrhs, ldb, post, pre, trim)
	b.load(bd)
	bIn := b.clone()
	callS := fmt.Sprintf("Dpotrs(uplo=%c,n=%d,nrhs=%d,lda=%d,ldb=%d)", ul, n, nrhs, lda, ldb)
	if fl := vk.MustReturn("potrs-panics", func() { impl.Dpotrs(ul, n, nrhs, f1.sl(), lda, b.sl(), ldb) }); fl != nil {
		return fl
	}
	if fl := first(b.checkPad(callS), f1.checkSame(callS, fsnap), b.checkFinite(callS)); fl != nil {
		return fl
	}
	if nrhs > 0 {
		x := b.dense()
		res, _ := mul(rtr, x)
		_, bound := mul(s1, x.abs())
		if fl := cwCheck("potrs-backward-error", callS+": B vs (R^T*R)*X", bd, res, bound, cwBound(n, 3)); fl != nil {
			return fl
		}
	}
	b3 := bIn.clone()
	if fl := vk.MustReturn("lapack64-potrs-panics", func() {
		lapack64.Potrs(blas64.Triangular{Uplo: ul, Diag: blas.NonUnit, N: n, Stride: lda, Data: f1.sl()}, blas64.General{Rows: n, Cols: nrhs, Stride: ldb, Data: b3.sl()})
	}); fl != nil {
		return fl
	}
	if fl := b3.checkSame("lapack64.Potrs vs Dpotrs", b.buf); fl != nil {
		fl.Key = "lapack64-potrs-differs"
		return fl
	}

	// --- Dpotri ---
	{
		g := f1.clone()
		var okI bool
		callI := fmt.Sprintf("Dpotri(uplo=%c,n=%d,lda=%d)", ul, n, lda)
		if fl := vk.MustReturn("potri-panics", func() { okI = impl.Dpotri(ul, n, g.sl(), lda) }); fl != nil {
			return fl
		}
		if !okI {
			return vk.Failf("potri-not-ok", "%s returned false for a valid Cholesky factor", callI)
		}
		if fl := first(g.checkPad(callI), g.checkFinite(callI)); fl != nil {
			return fl
		}
		// X = inv(R) inv(R)^T computed as Dtrtri (left residual gamma_n |X_R||R|)
		// followed by the product (gamma_n |X_R||X_R|^T):
		// ||X A - I||_F <= 3 gamma_n tr(X) tr(A) + O(u^2); accepted below
		// cOrth*n*eps*tr(X)*tr(A).
		x := symOf(g, c.Upper)
		trX, trA := 0.0, 0.0
		for i := 0; i < n; i++ {
			if !(x.at(i, i) > 0) {
				return vk.Failf("potri-diagonal", "%s: inverse diagonal %d is %v", callI, i, x.at(i, i))
			}
			trX += x.at(i, i)
			trA += a.at(i, i)
		}
		res := mulP(x, a)
		for i := 0; i < n; i++ {
			res.add(i, i, -1)
		}
		if e, tol := res.fro(), cOrth*float64(n)*vk.Eps*trX*trA; !(e <= tol) {
			return vk.Failf("potri-residual", "%s: ||X*A - I||_F = %.3g exceeds %.3g (= %g*n*eps*tr(X)*tr(A))", callI, e, tol, cOrth)
		}
		g3 := f1.clone()
		var ok3 bool
		if fl := vk.MustReturn("lapack64-potri-panics", func() {
			_, ok3 = lapack64.Potri(blas64.Triangular{Uplo: ul, Diag: blas.NonUnit, N: n, Stride: lda, Data: g3.sl()})
		}); fl != nil {
			return fl
		}
		if fl := g3.checkSame("lapack64.Potri vs Dpotri", g.buf); fl != nil || !ok3 {
			return vk.Failf("lapack64-potri-differs", "%s: wrapper result differs", callI)
		}
	}

	// --- Dpocon ---
	{
		anorm := a.norm1()
		wc := newPvec("work", 3*n, 1, 1, trim)
		iw := newPints("iwork", n, 1, 1)
		var rc float64
		callC := fmt.Sprintf("Dpocon(uplo=%c,n=%d,lda=%d)", ul, n, lda)
		if fl := vk.MustReturn("pocon-panics", func() { rc = impl.Dpocon(ul, n, f1.sl(), lda, anorm, wc.sl(), iw.sl()) }); fl != nil {
			return fl
		}
		if fl := first(f1.checkSame(callC, fsnap), wc.checkPad(callC), iw.checkPad(callC)); fl != nil {
			return fl
		}
		wc3 := newPvec("work", 3*n, 1, 1, trim)
		iw3 := newPints("iwork", n, 1, 1)
		var rc3 float64
		if fl := vk.MustReturn("lapack64-pocon-panics", func() {
			rc3 = lapack64.Pocon(blas64.Symmetric{Uplo: ul, N: n, Stride: lda, Data: f1.sl()}, anorm, wc3.sl(), iw3.sl())
		}); fl != nil {
			return fl
		}
		if !vk.SameBits(rc, rc3) {
			return vk.Failf("lapack64-pocon-differs", "%s: %v vs wrapper %v", callC, rc, rc3)
		}
		if xinv, okR := refInverse(a); okR {
			if fl := condCheck(callC, n, rc, anorm, xinv.norm1(), math.Max(1, s1.norm1()/anorm)); fl != nil {
				return fl
			}
		}
	}
	return nil
}

func drawChol(t *rapid.T) cholCase {
	return cholCase{
		N: drawDim(t, "n", 80, 200), Nrhs: drawNrhs(t),
		PadA: vk.Pad(t, "padA"), PadB: vk.Pad(t, "padB"),
		Upper: rapid.Bool().Draw(t, "upper"),
		Class: rapid.IntRange(0, nSpdClasses-1).Draw(t, "class"),
		Seed:  vk.SeedGen(t, "seed"),
	}
}

func TestChol(t *testing.T) {
	vk.Run(t, "chol", vk.Opts{Quick: 600, Thorough: 15000}, drawChol, finish(checkChol))
}

// ---- Dlauum / Dlauu2 -------------------------------------------------------

type lauumCase struct {
	N, PadA int
	Upper   bool
	Ints    bool
	Seed    uint64
}

func checkLauum(c lauumCase) *vk.Failure {
	n := c.N
	r := vk.NewSplitMix(c.Seed)
	ul := uploOf(c.Upper)
	vk.Class("lauum:n=" + sizeClass(n))
	if n >= 2 && (n > nbPotrf || c.PadA > 0 || !c.Upper) {
		vk.NonTrivial("lauum", n, c.PadA, c.Upper, c.Seed)
	}
	vk.Sample("lauum", c)
	tm := newDM(n, n)
	for i := 0; i < n; i++ {
		for j := 0; j < n; j++ {
			if c.Upper == (j >= i) || i == j {
				if c.Ints {
					tm.set(i, j, float64(r.Intn(7)-3))
				} else {
					tm.set(i, j, r.Norm())
				}
			}
		}
	}
	var want, s dm
	if c.Upper {
		want, s = mul(tm, tm.t())
	} else {
		want, s = mul(tm.t(), tm)
	}
	pre, post, trim := padFrom(r)
	for path := 0; path < 2; path++ {
		lda := max(1, n) + c.PadA
		if path == 1 {
			lda = max(1, n)
			if c.PadA == 0 {
				lda += 3
			}
		}
		p := newPmat("a", n, n, lda, pre, post, trim)
		p.ref = triRef(c.Upper)
		p.load(tm)
		name := "Dlauum"
		if path == 1 {
			name = "Dlauu2"
		}
		call := fmt.Sprintf("%s(uplo=%c,n=%d,lda=%d)", name, ul, n, lda)
		if fl := vk.MustReturn("lauum-panics", func() {
			if path == 0 {
				impl.Dlauum(ul, n, p.sl(), lda)
			} else {
				impl.Dlauu2(ul, n, p.sl(), lda)
			}
		}); fl != nil {
			return fl
		}
		if fl := p.checkPad(call); fl != nil {
			return fl
		}
		got := newDM(n, n)
		w := want.clone()
		for i := 0; i < n; i++ {
			for j := 0; j < n; j++ {
				if p.ref(i, j) {
					got.set(i, j, p.at(i, j))
				} else {
					w.set(i, j, 0)
				}
			}
		}
		tol := cwBound(n, 1)
		if c.Ints {
			tol = 0 // integer data: every partial sum is exact
		}
		if fl := cwCheck("lauum-product", call+": stored triangle vs T*T^T / T^T*T", w, got, s, tol); fl != nil {
			return fl
		}
	}
	return nil
}

func TestLauum(t *testing.T) {
	vk.Run(t, "lauum", vk.Opts{Quick: 300, Thorough: 6000}, func(t *rapid.T) lauumCase {
		return lauumCase{N: drawDim(t, "n", 80, 200), PadA: vk.Pad(t, "padA"), Upper: rapid.Bool().Draw(t, "upper"),
			Ints: rapid.Bool().Draw(t, "ints"), Seed: vk.SeedGen(t, "seed")}
	}, finish(checkLauum))
}
