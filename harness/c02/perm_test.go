package c02

import (
	"fmt"
	"math"
	"testing"

	"gonum.org/v1/gonum/blas/blas64"
	"gonum.org/v1/gonum/lapack/lapack64"
	"pgregory.net/rapid"
	"verifharness/vk"
)

// ---- Dlaswp, Dlapmt, Dlapmr: exact data movement ----------------------------

type swpCase struct {
	Rows, N int
	PadA    int
	K1, K2  int
	Reverse bool
	Fixed   int // percentage of pivots equal to their own index
	Seed    uint64
}

func checkSwp(c swpCase) *vk.Failure {
	rows, n := c.Rows, c.N
	k1, k2 := c.K1, c.K2
	if rows == 0 {
		return nil
	}
	k2 = min(k2, rows-1)
	k1 = min(k1, k2)
	r := vk.NewSplitMix(c.Seed)
	a := newDM(rows, n)
	for i := range a.d {
		a.d[i] = float64(i) + 0.25 // distinct values
	}
	ipiv := make([]int, k2+1)
	for i := range ipiv {
		switch {
		case i < k1:
			ipiv[i] = -1000 - i // never referenced
		case r.Intn(100) < c.Fixed:
			ipiv[i] = i
		default:
			ipiv[i] = r.Intn(rows)
		}
	}
	vk.Class(fmt.Sprintf("laswp:reverse=%v", c.Reverse))
	if rows >= 2 && n >= 1 {
		vk.NonTrivial("laswp", rows, n, c.PadA, k1, k2, c.Reverse, c.Fixed, c.Seed)
	}
	vk.Sample("laswp", c)
	want := a.clone()
	swap := func(k int) {
		if p := ipiv[k]; p != k {
			rk, rp := want.row(k), want.row(p)
			for j := range rk {
				rk[j], rp[j] = rp[j], rk[j]
			}
		}
	}
	inc := 1
	if c.Reverse {
		inc = -1
		for k := k2; k >= k1; k-- {
			swap(k)
		}
	} else {
		for k := k1; k <= k2; k++ {
			swap(k)
		}
	}
	pre, post, trim := padFrom(r)
	lda := max(1, n) + c.PadA
	p := newPmat("a", rows, n, lda, pre, post, trim)
	p.load(a)
	ip := newPints("ipiv", k2+1, 1, 1)
	copy(ip.sl(), ipiv)
	isnap := ip.snapshot()
	call := fmt.Sprintf("Dlaswp(n=%d,lda=%d,k1=%d,k2=%d,incX=%d) on %d rows", n, lda, k1, k2, inc, rows)
	if fl := vk.MustReturn("laswp-panics", func() { impl.Dlaswp(n, p.sl(), lda, k1, k2, ip.sl(), inc) }); fl != nil {
		fl.Msg = call + ": " + fl.Msg
		return fl
	}
	if fl := first(p.checkPad(call), ip.checkSame(call, isnap)); fl != nil {
		return fl
	}
	got := p.dense()
	for i := range want.d {
		if math.Float64bits(want.d[i]) != math.Float64bits(got.d[i]) {
			return vk.Failf("laswp-result", "%s: element (%d,%d) = %v, want %v (ipiv=%v)", call, i/max(1, n), i%max(1, n), got.d[i], want.d[i], ipiv)
		}
	}
	return nil
}

type lapmCase struct {
	M, N    int
	PadX    int
	Rows    bool // Dlapmr (rows) instead of Dlapmt (columns)
	Forward bool
	Kind    int // 0 random permutation, 1 identity, 2 reversal, 3 single cycle, 4 transpositions
	Seed    uint64
}

func checkLapm(c lapmCase) *vk.Failure {
	m, n := c.M, c.N
	r := vk.NewSplitMix(c.Seed)
	np := n
	if c.Rows {
		np = m
	}
	k := make([]int, np)
	for i := range k {
		k[i] = i
	}
	switch c.Kind {
	case 0:
		k = r.Perm(np)
	case 2:
		for i := range k {
			k[i] = np - 1 - i
		}
	case 3:
		for i := range k {
			k[i] = (i + 1) % np
		}
	case 4:
		for i := 0; i+1 < np; i += 2 {
			if r.Intn(2) == 0 {
				k[i], k[i+1] = k[i+1], k[i]
			}
		}
	}
	x := newDM(m, n)
	for i := range x.d {
		x.d[i] = float64(i) + 0.5
	}
	want := newDM(m, n)
	for i := 0; i < m; i++ {
		for j := 0; j < n; j++ {
			switch {
			case c.Rows && c.Forward: // X[k[i],:] is moved to X[i,:]
				want.set(i, j, x.at(k[i], j))
			case c.Rows:
				want.set(k[i], j, x.at(i, j))
			case c.Forward: // X[:,k[j]] is moved to X[:,j]
				want.set(i, j, x.at(i, k[j]))
			default:
				want.set(i, k[j], x.at(i, j))
			}
		}
	}
	name := "Dlapmt"
	if c.Rows {
		name = "Dlapmr"
	}
	vk.Class(fmt.Sprintf("lapm:%s,forward=%v,kind=%d", name, c.Forward, c.Kind))
	if np >= 2 && m >= 1 && n >= 1 {
		vk.NonTrivial("lapm", m, n, c.PadX, c.Rows, c.Forward, c.Kind, c.Seed)
	}
	vk.Sample("lapm", c)
	pre, post, trim := padFrom(r)
	ldx := max(1, n) + c.PadX
	p := newPmat("x", m, n, ldx, pre, post, trim)
	p.load(x)
	p3 := p.clone()
	kp := newPints("k", np, 1, 1)
	copy(kp.sl(), k)
	kp3 := newPints("k", np, 1, 1)
	copy(kp3.sl(), k)
	call := fmt.Sprintf("%s(forward=%v,m=%d,n=%d,ldx=%d)", name, c.Forward, m, n, ldx)
	if fl := vk.MustReturn("lapm-panics", func() {
		if c.Rows {
			impl.Dlapmr(c.Forward, m, n, p.sl(), ldx, kp.sl())
		} else {
			impl.Dlapmt(c.Forward, m, n, p.sl(), ldx, kp.sl())
		}
	}); fl != nil {
		fl.Msg = call + ": " + fl.Msg
		return fl
	}
	if fl := first(p.checkPad(call), kp.checkPad(call)); fl != nil {
		return fl
	}
	for i, v := range kp.sl() {
		if v != k[i] {
			return vk.Failf("lapm-k-modified", "%s: k[%d]=%d on return, was %d (the permutation vector is an input)", call, i, v, k[i])
		}
	}
	got := p.dense()
	for i := range want.d {
		if math.Float64bits(want.d[i]) != math.Float64bits(got.d[i]) {
			return vk.Failf("lapm-result", "%s: element (%d,%d) = %v, want %v (k=%v)", call, i/max(1, n), i%max(1, n), got.d[i], want.d[i], k)
		}
	}
	if fl := vk.MustReturn("lapack64-lapm-panics", func() {
		g := blas64.General{Rows: m, Cols: n, Stride: ldx, Data: p3.sl()}
		if c.Rows {
			lapack64.Lapmr(c.Forward, g, kp3.sl())
		} else {
			lapack64.Lapmt(c.Forward, g, kp3.sl())
		}
	}); fl != nil {
		return fl
	}
	if fl := p3.checkSame("lapack64 wrapper vs "+name, p.buf); fl != nil {
		fl.Key = "lapack64-lapm-differs"
		return fl
	}
	return nil
}

func TestPerm(t *testing.T) {
	vk.Run(t, "laswp", vk.Opts{Quick: 400, Thorough: 12000, NoCrumb: true}, func(t *rapid.T) swpCase {
		rows := rapid.IntRange(0, 40).Draw(t, "rows")
		return swpCase{Rows: rows, N: rapid.IntRange(0, 20).Draw(t, "n"), PadA: vk.Pad(t, "padA"),
			K1: rapid.IntRange(0, 40).Draw(t, "k1"), K2: rapid.IntRange(0, 40).Draw(t, "k2"),
			Reverse: rapid.Bool().Draw(t, "reverse"), Fixed: rapid.SampledFrom([]int{0, 30, 90}).Draw(t, "fixed"),
			Seed: vk.SeedGen(t, "seed")}
	}, finish(checkSwp))
	vk.Run(t, "lapm", vk.Opts{Quick: 400, Thorough: 12000, NoCrumb: true}, func(t *rapid.T) lapmCase {
		return lapmCase{M: rapid.IntRange(0, 30).Draw(t, "m"), N: rapid.IntRange(0, 30).Draw(t, "n"), PadX: vk.Pad(t, "padX"),
			Rows: rapid.Bool().Draw(t, "rows"), Forward: rapid.Bool().Draw(t, "forward"),
			Kind: rapid.IntRange(0, 4).Draw(t, "kind"), Seed: vk.SeedGen(t, "seed")}
	}, finish(checkLapm))
}
