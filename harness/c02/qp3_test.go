package c02

import (
	"fmt"
	"math"
	"strings"
	"testing"

	"gonum.org/v1/gonum/blas/blas64"
	"gonum.org/v1/gonum/lapack/lapack64"
	"pgregory.net/rapid"
	"verifharness/vk"
)

// ---- Dgeqp3: QR with column pivoting ---------------------------------------

type qp3Case struct {
	M, N   int
	PadA   int
	Class  int
	Fixed  int // 0 none, 1 few, 2 half, 3 all columns are "leading" columns
	LwMode int
	LwK    int
	Seed   uint64
	// LowRank > 0 replaces the matrix class by "low rank + tiny noise":
	// A = X*Y + 10^-NoiseExp * sqrt(rank) * E with X m x rank, Y rank x n and E
	// Gaussian. The partial column norms of such a matrix collapse inside a
	// Dlaqps panel, which makes Dlaqps return early (fewer columns factorized
	// than requested) and forces norm recomputation.
	LowRank  int
	NoiseExp int
}

func checkQP3(c qp3Case) *vk.Failure {
	m, n := c.M, c.N
	k := min(m, n)
	r := vk.NewSplitMix(c.Seed)
	a := genGeneral(c.Class, m, n, r)
	className := clsNames[c.Class]
	rank, noiseFro := 0, 0.0
	if c.LowRank > 0 && k > 0 {
		rank = min(c.LowRank, k)
		x, y := genGeneral(clsGauss, m, rank, r), genGeneral(clsGauss, rank, n, r)
		a = mulP(x, y)
		sc := math.Pow(10, -float64(c.NoiseExp)) * math.Sqrt(float64(rank))
		for i := range a.d {
			e := sc * r.Norm()
			a.d[i] += e
			noiseFro = math.Hypot(noiseFro, e)
		}
		className = "lowrank+noise"
	}
	lda := max(1, n) + c.PadA
	pre, post, trim := padFrom(r)
	// requested leading columns
	jin := make([]int, n)
	nfxd := 0
	for j := range jin {
		jin[j] = -1
		lead := false
		switch c.Fixed {
		case 1:
			lead = r.Intn(8) == 0
		case 2:
			lead = r.Intn(2) == 0
		case 3:
			lead = true
		}
		if lead {
			jin[j] = r.Intn(max(1, n)) // any value >= 0 marks a leading column
			nfxd++
		}
	}
	free := k - min(k, nfxd)
	blocked := free > nxQR
	vk.Class("qp3:class=" + className)
	vk.Class("qp3:shape=" + shapeClass(m, n))
	vk.Class(fmt.Sprintf("qp3:fixed=%d", c.Fixed))
	if blocked {
		vk.Class("qp3:path=blocked,lwork=" + lwNames[c.LwMode])
	}
	if rank > 0 && blocked {
		vk.Class("qp3:lowrank+noise,path=blocked")
	}
	if k >= 2 && (blocked || c.PadA > 0 || c.Fixed > 0 || c.LwMode != lwQuery || isSingularClass(c.Class) || rank > 0) {
		vk.NonTrivial("qp3", m, n, c.PadA, c.Class, c.Fixed, c.LwMode, c.LowRank, c.NoiseExp, c.Seed)
	}
	vk.Sample("qp3", c)

	minW := 3*n + 1
	if k == 0 {
		minW = 1
	}
	f0 := newPmat("a", m, n, lda, pre, post, trim)
	f0.load(a)
	jp0 := newPints("jpvt", n, 1, 1)
	copy(jp0.sl(), jin)
	tau0 := newPvec("tau", k, 1, 1, true)
	q, fl := wsQuery(fmt.Sprintf("Dgeqp3(m=%d,n=%d,lda=%d)", m, n, lda), minW, func(w []float64) {
		impl.Dgeqp3(m, n, f0.sl(), lda, jp0.sl(), tau0.sl(), w, -1)
	}, f0, jp0, tau0)
	if fl != nil {
		return fl
	}
	modes := []int{c.LwMode}
	if blocked && c.LwMode != lwMin {
		modes = append(modes, lwMin)
	}
	// numerical rank revealed by each run (low rank + noise class)
	revealed := make([]int, 0, 2)
	for mi, mode := range modes {
		lw := lworkFor(mode, c.LwK, minW, q)
		w := newWork(lw, c.LwK%3)
		f := f0.clone()
		jp := newPints("jpvt", n, 1, 1)
		copy(jp.sl(), jin)
		tau := newPvec("tau", k, 1, 1, true)
		call := fmt.Sprintf("Dgeqp3(m=%d,n=%d,lda=%d,nfixed=%d,lwork=%d[%s],query=%d)", m, n, lda, nfxd, lw, lwNames[mode], q)
		if fl := vk.MustReturn("geqp3-panics", func() { impl.Dgeqp3(m, n, f.sl(), lda, jp.sl(), tau.sl(), w.sl(), lw) }); fl != nil {
			fl.Msg = call + ": " + fl.Msg
			if nfxd > 0 && blocked && lw < q && strings.Contains(fl.Msg, "insufficient length of f") {
				// Known defect: the reduced block size is computed from lwork-2*sn
				// (sn = number of free columns) but the work layout reserves 2*n
				// entries for the column norms, so with leading columns the F block
				// handed to Dlaqps can be up to 2*nfxd entries short.
				fl.Key = "geqp3-leading-columns-reduced-lwork-panics"
				if deferred == nil {
					deferred = fl
				}
				continue
			}
			return fl
		}
		if fl := first(f.checkPad(call), jp.checkPad(call), tau.checkPad(call), deferOverrun(w.check(call))); fl != nil {
			return fl
		}
		if fl := checkWork0(call, w.sl()[0], minW); fl != nil {
			return fl
		}
		if k == 0 {
			continue
		}
		// jpvt is a permutation whose first nfxd entries are the requested columns
		seen := make([]bool, n)
		for j, p := range jp.sl() {
			if p < 0 || p >= n || seen[p] {
				return vk.Failf("jpvt-not-permutation", "%s: jpvt[%d]=%d (jpvt=%v)", call, j, p, jp.sl())
			}
			seen[p] = true
			if j < nfxd && jin[p] < 0 {
				return vk.Failf("jpvt-leading-columns", "%s: position %d of A*P holds the free column %d although %d leading columns were requested", call, j, p, nfxd)
			}
		}
		ap := newDM(m, n)
		for j, p := range jp.sl() {
			for i := 0; i < m; i++ {
				ap.set(i, j, a.at(i, p))
			}
		}
		if _, fl := verifyOrthFact(call, kindQR, ap, f, tau.sl()); fl != nil {
			return fl
		}
		// |r_jj| non-increasing over the free columns, to the accuracy of the
		// down-dated partial column norms (relative 100*sqrt(eps)) plus the
		// backward-error level of the factorization.
		slack := orthTol(m, n) * a.fro()
		for j := nfxd; j+1 < k; j++ {
			d0, d1 := math.Abs(f.at(j, j)), math.Abs(f.at(j+1, j+1))
			if !(d1 <= d0*(1+100*math.Sqrt(vk.Eps))+slack) {
				return vk.Failf("geqp3-diagonal-order", "%s: |R[%d,%d]|=%v > |R[%d,%d]|=%v among the free columns", call, j+1, j+1, d1, j, j, d0)
			}
		}
		if rank > 0 && nfxd+rank < k {
			// Rank revealed: number of free diagonal entries above the geometric
			// mean of the signal level |R[nfxd,nfxd]| and the noise level
			// sqrt(n)*||E||_F. For this class the two levels are at least four
			// orders of magnitude apart and the R diagonal of every correct run
			// (blocked or unblocked, any workspace) has exactly `rank` entries at
			// the signal level; runs on the same input must agree.
			thr := math.Sqrt(math.Abs(f.at(nfxd, nfxd)) * math.Sqrt(float64(n)) * noiseFro)
			cnt := 0
			for j := nfxd; j < k; j++ {
				if math.Abs(f.at(j, j)) > thr {
					cnt++
				}
			}
			revealed = append(revealed, cnt)
			if cnt == rank {
				vk.Class("qp3:lowrank:revealed-rank=rank")
			} else {
				vk.Class("qp3:lowrank:revealed-rank!=rank")
			}
			if len(revealed) == 2 && revealed[0] != revealed[1] {
				return vk.Failf("geqp3-rank-agreement", "%s: %d diagonal entries of R above %.3g, but %d in the run with lwork mode %s on the same input (rank %d + noise %.3g)", call, cnt, thr, revealed[0], lwNames[modes[0]], rank, noiseFro)
			}
		}
		if mi == 0 {
			f3 := f0.clone()
			jp3 := newPints("jpvt", n, 1, 1)
			copy(jp3.sl(), jin)
			tau3 := newPvec("tau", k, 1, 1, true)
			w3 := newWork(lw, 0)
			if fl := vk.MustReturn("lapack64-geqp3-panics", func() {
				lapack64.Geqp3(blas64.General{Rows: m, Cols: n, Stride: lda, Data: f3.sl()}, jp3.sl(), tau3.sl(), w3.sl(), lw)
			}); fl != nil {
				return fl
			}
			if fl := first(f3.checkSame("lapack64.Geqp3 vs Dgeqp3", f.buf), tau3.checkSameElems("lapack64.Geqp3 vs Dgeqp3", tau)); fl != nil {
				fl.Key = "lapack64-geqp3-differs"
				return fl
			}
			for j := range jp.sl() {
				if jp.sl()[j] != jp3.sl()[j] {
					return vk.Failf("lapack64-geqp3-differs", "%s: jpvt[%d] %d vs %d", call, j, jp.sl()[j], jp3.sl()[j])
				}
			}
		}
	}
	return nil
}

func drawQP3(t *rapid.T) qp3Case {
	var m, n int
	if vk.NewSplitMix(rapid.Uint64().Draw(t, "bigsel")).Intn(10) < 3 {
		m = rapid.IntRange(129, 200).Draw(t, "mBig")
		n = rapid.IntRange(129, 200).Draw(t, "nBig")
	} else {
		m, n = drawShape(t, 70, 140)
	}
	c := qp3Case{
		M: m, N: n, PadA: vk.Pad(t, "padA"),
		Class:  rapid.IntRange(0, nGeneralClasses-1).Draw(t, "class"),
		Fixed:  rapid.SampledFrom([]int{0, 0, 1, 2, 3}).Draw(t, "fixed"),
		LwMode: rapid.IntRange(0, nLwModes-1).Draw(t, "lwmode"),
		LwK:    rapid.IntRange(0, 100000).Draw(t, "lwk"),
		Seed:   vk.SeedGen(t, "seed"),
	}
	if lr := vk.NewSplitMix(rapid.Uint64().Draw(t, "lowrank")); lr.Intn(7) == 0 {
		c.LowRank, c.NoiseExp = 1+lr.Intn(40), 7+lr.Intn(6)
	}
	return c
}

// drawQP3LowRank: dedicated run for the blocked path on numerically
// rank-deficient input (m, n in 130..200, mostly the queried workspace so that
// full-width Dlaqps panels are used; the minimum-workspace run follows as the
// second mode inside the check).
func drawQP3LowRank(t *rapid.T) qp3Case {
	sel := vk.NewSplitMix(rapid.Uint64().Draw(t, "sel"))
	c := qp3Case{
		M:        130 + sel.Intn(71),
		N:        130 + sel.Intn(71),
		PadA:     vk.Pad(t, "padA"),
		Class:    clsGauss,
		Fixed:    []int{0, 0, 0, 0, 1}[sel.Intn(5)],
		LwMode:   []int{lwQuery, lwQuery, lwPlus, lwBetween}[sel.Intn(4)],
		LwK:      rapid.IntRange(0, 100000).Draw(t, "lwk"),
		LowRank:  1 + sel.Intn(40),
		NoiseExp: 7 + sel.Intn(6),
		Seed:     vk.SeedGen(t, "seed"),
	}
	if sel.Intn(6) == 0 {
		c.N = 201 + sel.Intn(100) // wide
	}
	if c.LwMode == lwBetween {
		// leading columns with a reduced workspace hit the open finding
		// qp3/geqp3-leading-columns-reduced-lwork-panics, which the qp3 run covers
		c.Fixed = 0
	}
	return c
}

func TestQP3(t *testing.T) {
	vk.Run(t, "qp3", vk.Opts{Quick: 500, Thorough: 8000}, drawQP3, finish(checkQP3))
	vk.Run(t, "qp3-lowrank", vk.Opts{Quick: 160, Thorough: 4000}, drawQP3LowRank, finish(checkQP3))
}
