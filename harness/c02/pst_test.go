package c02

import (
	"fmt"
	"math"
	"testing"

	"gonum.org/v1/gonum/blas/blas64"
	"gonum.org/v1/gonum/lapack/lapack64"
	"pgregory.net/rapid"
	"verifharness/vk"
)

// ---- Pivoted Cholesky: Dpstrf / Dpstf2 --------------------------------------

const (
	pstSPD = iota
	pstSPDInt
	pstRankDef // B^T B, B r0 x n small integers: exactly rank deficient PSD
	pstZero
	pstIndef // symmetric Gaussian: not semidefinite
	nPstClasses
)

var pstNames = [...]string{"spd", "spd-int", "psd-rank-deficient", "zero", "indefinite"}

type pstCase struct {
	N, PadA int
	Upper   bool
	Class   int
	Rank    int // rank of the rank-deficient class (clipped to n-1)
	TolMode int // 0: negative (default), 1: zero, 2: 1e-6*max diagonal
	Seed    uint64
}

func checkPST(c pstCase) *vk.Failure {
	n := c.N
	r := vk.NewSplitMix(c.Seed)
	var a dm
	r0 := n
	switch c.Class {
	case pstSPD:
		a = genSPD(n, r, 1, false)
	case pstSPDInt:
		a = genSPD(n, r, 1, true)
	case pstRankDef:
		r0 = max(0, min(c.Rank, n-1))
		b := newDM(r0, n)
		for i := range b.d {
			b.d[i] = float64(r.Intn(7) - 3)
		}
		a = symGram(b)
		if r0 == 0 {
			a = newDM(n, n)
		}
	case pstZero:
		a, r0 = newDM(n, n), 0
	default:
		a = genSymGauss(n, r)
	}
	psd := c.Class != pstIndef
	maxDiag := 0.0
	for i := 0; i < n; i++ {
		maxDiag = math.Max(maxDiag, a.at(i, i))
	}
	tol := -1.0
	switch c.TolMode {
	case 1:
		tol = 0
	case 2:
		tol = 1e-6 * maxDiag
	}
	dstop := tol
	if tol < 0 {
		dstop = float64(n) * vk.Eps * maxDiag
	}
	ul := uploOf(c.Upper)
	blocked := n > nbPotrf
	vk.Class("pst:class=" + pstNames[c.Class])
	vk.Class("pst:n=" + sizeClass(n))
	if n >= 2 && (blocked || c.PadA > 0 || !c.Upper || c.TolMode != 0 || c.Class >= pstRankDef) {
		vk.NonTrivial("pst", n, c.PadA, c.Upper, c.Class, c.Rank, c.TolMode, c.Seed)
	}
	vk.Sample("pst", c)
	pre, post, trim := padFrom(r)

	var f1 *pmat
	var piv1 []int
	var rank1 int
	var ok1 bool
	for path := 0; path < 2; path++ {
		name, lda := "Dpstrf", max(1, n)+c.PadA
		if path == 1 {
			name, lda = "Dpstf2", max(1, n)
			if c.PadA == 0 {
				lda += 2
			}
		}
		f := newPmat("a", n, n, lda, pre, post, trim)
		f.ref = triRef(c.Upper)
		f.load(a)
		piv := newPints("piv", n, 1, 1)
		w := newPvec("work", 2*n, 1, 1, true)
		var rank int
		var ok bool
		call := fmt.Sprintf("%s(uplo=%c,n=%d,lda=%d,tol=%g)", name, ul, n, lda, tol)
		if fl := vk.MustReturn("pstrf-panics", func() {
			if path == 0 {
				rank, ok = impl.Dpstrf(ul, n, f.sl(), lda, piv.sl(), tol, w.sl())
			} else {
				rank, ok = impl.Dpstf2(ul, n, f.sl(), lda, piv.sl(), tol, w.sl())
			}
		}); fl != nil {
			fl.Msg = call + ": " + fl.Msg
			return fl
		}
		if fl := first(f.checkPad(call), piv.checkPad(call), w.checkPad(call)); fl != nil {
			return fl
		}
		if path == 0 {
			f1, piv1, rank1, ok1 = f, piv.sl(), rank, ok
		}
		if n == 0 {
			if rank != 0 || !ok {
				return vk.Failf("pstrf-n0", "%s returned rank=%d ok=%v", call, rank, ok)
			}
			continue
		}
		if rank < 0 || rank > n || ok != (rank == n) {
			return vk.Failf("pstrf-rank-ok", "%s returned rank=%d ok=%v", call, rank, ok)
		}
		if rank == 0 {
			// nothing was factorized (first pivot <= 0): piv may be untouched by the blocked code
			if psd && maxDiag > 0 {
				return vk.Failf("pstrf-rank", "%s: rank 0 for a semidefinite matrix with positive diagonal %v", call, maxDiag)
			}
			vk.Class("pst:rank=0")
			continue
		}
		seen := make([]bool, n)
		for j, p := range piv.sl() {
			if p < 0 || p >= n || seen[p] {
				return vk.Failf("piv-not-permutation", "%s: piv[%d]=%d (rank=%d)", call, j, p, rank)
			}
			seen[p] = true
		}
		if (c.Class == pstSPD || c.Class == pstSPDInt) && c.TolMode != 2 && rank != n {
			return vk.Failf("pstrf-rank", "%s: rank=%d for a well conditioned positive definite matrix", call, rank)
		}
		if c.Class == pstRankDef {
			switch {
			case rank == r0:
				vk.Class("pst:rank=true-rank")
			case rank < r0:
				vk.Class("pst:rank<true-rank")
			default:
				vk.Class("pst:rank>true-rank")
			}
		}
		// U1: the first `rank` rows of the factor
		u1 := newDM(rank, n)
		for i := 0; i < rank; i++ {
			for j := i; j < n; j++ {
				v := f.at(i, j)
				if !c.Upper {
					v = f.at(j, i)
				}
				if math.IsNaN(v) || math.IsInf(v, 0) {
					return vk.Failf("non-finite-output", "%s: factor element (%d,%d)=%v (rank=%d)", call, i, j, v, rank)
				}
				u1.set(i, j, v)
			}
			if !(u1.at(i, i) > 0) {
				return vk.Failf("chol-diagonal", "%s: factor diagonal %d is %v (rank=%d)", call, i, u1.at(i, i), rank)
			}
		}
		pap := newDM(n, n)
		for i := 0; i < n; i++ {
			for j := 0; j < n; j++ {
				pap.set(i, j, a.at(piv.sl()[i], piv.sl()[j]))
			}
		}
		prod, s := mul(u1.t(), u1)
		cw := cwBound(rank, 1)
		for i := 0; i < n; i++ {
			for j := 0; j < n; j++ {
				d := math.Abs(pap.at(i, j) - prod.at(i, j))
				bound := cw * s.at(i, j)
				what := "P^T*A*P vs U1^T*U1 (rows/columns of the factored part)"
				if i >= rank && j >= rank {
					if !psd {
						continue
					}
					// Schur complement of a semidefinite matrix: |s_ij| <= max_k s_kk <= dstop;
					// the backward error E of the factored part (||E||_2 <= gamma_r*tr(A)
					// <= gamma_r*n*max diagonal) may shift the spectrum by as much.
					bound += dstop + 2*cw*float64(n)*maxDiag
					what = "trailing Schur complement vs the stopping tolerance"
				}
				if !(d <= bound) {
					return vk.Failf("pstrf-backward-error", "%s rank=%d: %s: element (%d,%d): |%v - %v| = %.3g > %.3g", call, rank, what, i, j, pap.at(i, j), prod.at(i, j), d, bound)
				}
			}
		}
		// complete pivoting: pivots non-increasing up to rounding
		for j := 0; j+1 < rank; j++ {
			d0, d1 := u1.at(j, j)*u1.at(j, j), u1.at(j+1, j+1)*u1.at(j+1, j+1)
			if !(d1 <= d0*(1+8*vk.Eps)+cw*maxDiag) {
				return vk.Failf("pstrf-pivot-order", "%s: squared pivots %d,%d = %v, %v increase", call, j, j+1, d0, d1)
			}
		}
	}
	// lapack64 wrapper: bit-identical to Dpstrf
	{
		lda := max(1, n) + c.PadA
		f3 := newPmat("a", n, n, lda, pre, post, trim)
		f3.ref = triRef(c.Upper)
		f3.load(a)
		piv3 := newPints("piv", n, 1, 1)
		w3 := newPvec("work", 2*n, 1, 1, true)
		var rank3 int
		var ok3 bool
		if fl := vk.MustReturn("lapack64-pstrf-panics", func() {
			_, rank3, ok3 = lapack64.Pstrf(blas64.Symmetric{Uplo: ul, N: n, Stride: lda, Data: f3.sl()}, piv3.sl(), tol, w3.sl())
		}); fl != nil {
			return fl
		}
		if fl := f3.checkSameElems("lapack64.Pstrf vs Dpstrf", f1); fl != nil || rank3 != rank1 || ok3 != ok1 {
			return vk.Failf("lapack64-pstrf-differs", "wrapper differs: rank %d vs %d, ok %v vs %v", rank3, rank1, ok3, ok1)
		}
		for i := range piv1 {
			if piv1[i] != piv3.sl()[i] {
				return vk.Failf("lapack64-pstrf-differs", "piv[%d] %d vs %d", i, piv3.sl()[i], piv1[i])
			}
		}
	}
	return nil
}

func TestPST(t *testing.T) {
	vk.Run(t, "pst", vk.Opts{Quick: 500, Thorough: 12000}, func(t *rapid.T) pstCase {
		return pstCase{
			N: drawDim(t, "n", 80, 200), PadA: vk.Pad(t, "padA"),
			Upper:   rapid.Bool().Draw(t, "upper"),
			Class:   rapid.IntRange(0, nPstClasses-1).Draw(t, "class"),
			Rank:    rapid.SampledFrom([]int{1, 2, 3, 5, 10, 40, 63, 64, 65, 70, 100}).Draw(t, "rank"),
			TolMode: rapid.SampledFrom([]int{0, 0, 1, 2}).Draw(t, "tolmode"),
			Seed:    vk.SeedGen(t, "seed"),
		}
	}, finish(checkPST))
}
