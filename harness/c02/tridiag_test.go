package c02

import (
	"fmt"
	"math"
	"testing"

	"gonum.org/v1/gonum/blas/blas64"
	"gonum.org/v1/gonum/lapack/lapack64"
	"pgregory.net/rapid"
	"verifharness/vk"
)

// ---- Tridiagonal: Dgtsv, Dptsv, Dpttrf, Dpttrs ------------------------------

type gtCase struct {
	N, Nrhs int
	PadB    int
	Class   int // 0 gauss, 1 diagonally dominant, 2 small integers, 3 zero column (singular)
	Trans   bool
	Seed    uint64
}

var gtNames = [...]string{"gauss", "diagdom", "smallint", "zerocol"}

// cTridiag: Gaussian elimination with partial pivoting on a tridiagonal matrix
// has |L| <= 1 (one multiplier per column), at most three entries per row of U,
// each bounded by 2 max|a_ij|, hence || |L||U| ||_inf <= 12 ||A||_inf, and the
// solve has backward error gamma_3-like terms: ||b - A x||_inf <= 72 eps ||A||_inf ||x||_inf
// up to second order. 200 leaves a factor of almost three.
const cTridiag = 200.0

func tridiagDense(n int, dl, d, du []float64) dm {
	a := newDM(n, n)
	for i := 0; i < n; i++ {
		a.set(i, i, d[i])
		if i+1 < n {
			a.set(i, i+1, du[i])
			a.set(i+1, i, dl[i])
		}
	}
	return a
}

func checkGT(c gtCase) *vk.Failure {
	n, nrhs := c.N, c.Nrhs
	r := vk.NewSplitMix(c.Seed)
	gen := func() float64 {
		if c.Class == 2 {
			return float64(r.Intn(7) - 3)
		}
		return r.Norm()
	}
	m1 := max(0, n-1)
	dl, d, du := make([]float64, m1), make([]float64, n), make([]float64, m1)
	for i := range d {
		d[i] = gen()
	}
	for i := range dl {
		dl[i], du[i] = gen(), gen()
	}
	if c.Class == 1 {
		for i := range d {
			s := 1.0
			if i > 0 {
				s += math.Abs(dl[i-1])
			}
			if i < m1 {
				s += math.Abs(du[i])
			}
			d[i] = math.Copysign(s, d[i])
		}
	}
	if c.Class == 3 && n > 0 {
		j := r.Intn(n)
		d[j] = 0
		if j < m1 {
			dl[j] = 0
		}
		if j > 0 {
			du[j-1] = 0
		}
	}
	a := tridiagDense(n, dl, d, du)
	if c.Trans {
		a = a.t()
	}
	vk.Class("gt:class=" + gtNames[c.Class])
	vk.Class("gt:n=" + sizeClass(n))
	if n >= 2 && (c.PadB > 0 || c.Trans || c.Class == 3 || nrhs > 1) {
		vk.NonTrivial("gt", n, nrhs, c.PadB, c.Class, c.Trans, c.Seed)
	}
	vk.Sample("gt", c)
	pre, post, trim := padFrom(r)
	ldb := max(1, nrhs) + c.PadB
	bd := genGeneral(clsGauss, n, nrhs, r)
	mkv := func(name string, x []float64) *pmat {
		p := newPvec(name, len(x), pre, post, trim)
		copy(p.sl(), x)
		return p
	}
	pdl, pd, pdu := mkv("dl", dl), mkv("d", d), mkv("du", du)
	b := newPmat("b", n, nrhs, ldb, post, pre, trim)
	b.load(bd)
	// lapack64.Gtsv swaps dl and du for the transposed system; the direct call
	// does the same here.
	xdl, xdu := pdl, pdu
	if c.Trans {
		xdl, xdu = pdu, pdl
	}
	w3 := []*pmat{pdl.clone(), pd.clone(), pdu.clone(), b.clone()}
	var ok bool
	call := fmt.Sprintf("Dgtsv(n=%d,nrhs=%d,ldb=%d,trans-by-swap=%v)", n, nrhs, ldb, c.Trans)
	if fl := vk.MustReturn("gtsv-panics", func() { ok = impl.Dgtsv(n, nrhs, xdl.sl(), pd.sl(), xdu.sl(), b.sl(), ldb) }); fl != nil {
		return fl
	}
	if fl := first(pdl.checkPad(call), pd.checkPad(call), pdu.checkPad(call), b.checkPad(call)); fl != nil {
		return fl
	}
	var ok3 bool
	if fl := vk.MustReturn("lapack64-gtsv-panics", func() {
		ok3 = lapack64.Gtsv(transOf(c.Trans), lapack64.Tridiagonal{N: n, DL: w3[0].sl(), D: w3[1].sl(), DU: w3[2].sl()}, blas64.General{Rows: n, Cols: nrhs, Stride: ldb, Data: w3[3].sl()})
	}); fl != nil {
		return fl
	}
	if fl := first(w3[0].checkSame("lapack64.Gtsv", pdl.buf), w3[1].checkSame("lapack64.Gtsv", pd.buf), w3[2].checkSame("lapack64.Gtsv", pdu.buf), w3[3].checkSame("lapack64.Gtsv", b.buf)); fl != nil || ok3 != ok {
		return vk.Failf("lapack64-gtsv-differs", "%s: wrapper differs (ok %v vs %v)", call, ok3, ok)
	}
	if n == 0 || nrhs == 0 {
		if !ok {
			return vk.Failf("gtsv-ok-flag", "%s returned false", call)
		}
		return nil
	}
	if c.Class == 3 && ok {
		return vk.Failf("gtsv-singular-not-reported", "%s: matrix with an exactly zero column but ok=true", call)
	}
	if c.Class <= 1 && !ok {
		return vk.Failf("gtsv-ok-flag", "%s returned false for a nonsingular matrix (class %s)", call, gtNames[c.Class])
	}
	if !ok {
		vk.Class("gt:ok=false")
		return nil
	}
	if fl := b.checkFinite(call); fl != nil {
		return fl
	}
	x := b.dense()
	res := mulP(a, x)
	an := a.normInf()
	for j := 0; j < nrhs; j++ {
		xn, rn := 0.0, 0.0
		for i := 0; i < n; i++ {
			xn = math.Max(xn, math.Abs(x.at(i, j)))
			rn = math.Max(rn, math.Abs(bd.at(i, j)-res.at(i, j)))
		}
		if tol := cTridiag * vk.Eps * an * xn; !(rn <= tol) {
			return vk.Failf("gtsv-backward-error", "%s: column %d: ||b - A x||_inf = %.3g exceeds %.3g (= %g*eps*||A||_inf*||x||_inf)", call, j, rn, tol, cTridiag)
		}
	}
	return nil
}

type ptCase struct {
	N, Nrhs int
	PadB    int
	NotPD   bool
	Ints    bool
	Seed    uint64
}

func checkPT(c ptCase) *vk.Failure {
	n, nrhs := c.N, c.Nrhs
	r := vk.NewSplitMix(c.Seed)
	m1 := max(0, n-1)
	d, e := make([]float64, n), make([]float64, m1)
	for i := range e {
		e[i] = r.Norm()
		if c.Ints {
			e[i] = float64(r.Intn(7) - 3)
		}
	}
	for i := range d {
		s := 1.0
		if i > 0 {
			s += math.Abs(e[i-1])
		}
		if i < m1 {
			s += math.Abs(e[i])
		}
		d[i] = s
	}
	if c.NotPD && n > 0 {
		p := r.Intn(n)
		d[p] = 0
		if r.Intn(2) == 0 {
			d[p] = -1 - math.Abs(r.Norm())
		}
	}
	vk.Class("pt:n=" + sizeClass(n))
	vk.Class(fmt.Sprintf("pt:notpd=%v", c.NotPD))
	if n >= 2 && (c.PadB > 0 || c.NotPD || nrhs > 1) {
		vk.NonTrivial("pt", n, nrhs, c.PadB, c.NotPD, c.Ints, c.Seed)
	}
	vk.Sample("pt", c)
	pre, post, trim := padFrom(r)
	ldb := max(1, nrhs) + c.PadB
	bd := genGeneral(clsGauss, n, nrhs, r)
	mkv := func(name string, x []float64) *pmat {
		p := newPvec(name, len(x), pre, post, trim)
		copy(p.sl(), x)
		return p
	}
	// --- Dpttrf ---
	pd, pe := mkv("d", d), mkv("e", e)
	var ok bool
	call := fmt.Sprintf("Dpttrf(n=%d)", n)
	if fl := vk.MustReturn("pttrf-panics", func() { ok = impl.Dpttrf(n, pd.sl(), pe.sl()) }); fl != nil {
		return fl
	}
	if fl := first(pd.checkPad(call), pe.checkPad(call)); fl != nil {
		return fl
	}
	// --- Dptsv on the same input ---
	sd, se := mkv("d", d), mkv("e", e)
	sb := newPmat("b", n, nrhs, ldb, post, pre, trim)
	sb.load(bd)
	var okS bool
	callS := fmt.Sprintf("Dptsv(n=%d,nrhs=%d,ldb=%d)", n, nrhs, ldb)
	if fl := vk.MustReturn("ptsv-panics", func() { okS = impl.Dptsv(n, nrhs, sd.sl(), se.sl(), sb.sl(), ldb) }); fl != nil {
		return fl
	}
	if fl := first(sd.checkPad(callS), se.checkPad(callS), sb.checkPad(callS)); fl != nil {
		return fl
	}
	if n == 0 {
		if !ok || !okS {
			return vk.Failf("pt-ok-flag", "n=0: ok=%v/%v", ok, okS)
		}
		return nil
	}
	if c.NotPD {
		// d_p <= 0: d_p minus a non-negative quantity stays <= 0 in floating point.
		if ok || (okS && nrhs > 0) {
			return vk.Failf("not-spd-not-reported", "%s ok=%v / %s ok=%v for a matrix with a non-positive diagonal entry", call, ok, callS, okS)
		}
		return nil
	}
	if !ok || !okS {
		return vk.Failf("spd-rejected", "%s ok=%v / %s ok=%v on a strictly diagonally dominant matrix with positive diagonal", call, ok, callS, okS)
	}
	// A = L D L^T: d_i = D_i + l_{i-1}^2 D_{i-1} (three roundings), e_i = l_i D_i (one).
	D, L := pd.sl(), pe.sl()
	for i := 0; i < n; i++ {
		if !(D[i] > 0) {
			return vk.Failf("pttrf-diagonal", "%s: D[%d]=%v with ok=true", call, i, D[i])
		}
		want, s := D[i], math.Abs(D[i])
		if i > 0 {
			t := L[i-1] * L[i-1] * D[i-1]
			want += t
			s += math.Abs(t)
		}
		tol := 8 * vk.Eps * s
		if !(math.Abs(want-d[i]) <= tol) {
			return vk.Failf("pttrf-backward-error", "%s: diagonal %d: L*D*L^T gives %v, A has %v (bound %.3g)", call, i, want, d[i], tol)
		}
		if i < m1 {
			if got := L[i] * D[i]; !(math.Abs(got-e[i]) <= 4*vk.Eps*math.Abs(e[i])) {
				return vk.Failf("pttrf-backward-error", "%s: off-diagonal %d: l*D = %v, A has %v", call, i, got, e[i])
			}
		}
	}
	// --- Dpttrs with the factors (read-only) ---
	b := newPmat("b", n, nrhs, ldb, post, pre, trim)
	b.load(bd)
	dsnap, esnap := pd.snapshot(), pe.snapshot()
	callT := fmt.Sprintf("Dpttrs(n=%d,nrhs=%d,ldb=%d)", n, nrhs, ldb)
	if fl := vk.MustReturn("pttrs-panics", func() { impl.Dpttrs(n, nrhs, pd.sl(), pe.sl(), b.sl(), ldb) }); fl != nil {
		return fl
	}
	if fl := first(b.checkPad(callT), pd.checkSame(callT, dsnap), pe.checkSame(callT, esnap), b.checkFinite(callT)); fl != nil {
		return fl
	}
	// |b - L D L^T x| <= c eps |L||D||L^T||x|: each of the three sweeps performs
	// two operations per row.
	lm, dmn := eye(n), newDM(n, n)
	for i := 0; i < n; i++ {
		dmn.set(i, i, D[i])
		if i < m1 {
			lm.set(i+1, i, L[i])
		}
	}
	ld, sld := mul(lm, dmn)
	ldl, _ := mul(ld, lm.t())
	_, sldl := mul(sld, lm.t().abs())
	for _, pr := range []struct {
		name string
		x    dm
	}{{callT, b.dense()}, {callS, sb.dense()}} {
		if nrhs == 0 {
			break
		}
		if pr.x.hasNaN() {
			return vk.Failf("non-finite-output", "%s: solution contains NaN/Inf", pr.name)
		}
		res, _ := mul(ldl, pr.x)
		_, bound := mul(sldl, pr.x.abs())
		if fl := cwCheck("pttrs-backward-error", pr.name+": B vs (L*D*L^T)*X", bd, res, bound, cwBound(6, 3)); fl != nil {
			return fl
		}
	}
	// Dptsv must leave the same factors as Dpttrf (it is documented to return them).
	if nrhs > 0 {
		if fl := first(sd.checkSameElems(callS+" factors vs Dpttrf", pd), se.checkSameElems(callS+" factors vs Dpttrf", pe)); fl != nil {
			fl.Key = "ptsv-factors-differ"
			return fl
		}
	}
	return nil
}

func TestTridiag(t *testing.T) {
	vk.Run(t, "gt", vk.Opts{Quick: 400, Thorough: 12000}, func(t *rapid.T) gtCase {
		return gtCase{N: drawDim(t, "n", 60, 200), Nrhs: drawNrhs(t), PadB: vk.Pad(t, "padB"),
			Class: rapid.IntRange(0, 3).Draw(t, "class"), Trans: rapid.Bool().Draw(t, "trans"), Seed: vk.SeedGen(t, "seed")}
	}, finish(checkGT))
	vk.Run(t, "pt", vk.Opts{Quick: 400, Thorough: 12000}, func(t *rapid.T) ptCase {
		return ptCase{N: drawDim(t, "n", 60, 200), Nrhs: drawNrhs(t), PadB: vk.Pad(t, "padB"),
			NotPD: vk.NewSplitMix(rapid.Uint64().Draw(t, "notpd")).Intn(5) == 0,
			Ints:  rapid.Bool().Draw(t, "ints"), Seed: vk.SeedGen(t, "seed")}
	}, finish(checkPT))
}
