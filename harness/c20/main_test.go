// Package c20 checks property C20: spatial indexes equal a linear scan; curves
// and enumerations are bijections.
package c20

import (
	"testing"

	"verifharness/vk"
)

func TestMain(m *testing.M) { vk.Main(m, "C20") }
