package c20

import (
	"fmt"
	"math"
	"sort"
	"testing"

	"gonum.org/v1/gonum/stat/combin"
	"pgregory.net/rapid"
	"verifharness/vk"
)

// ---- combinations / permutations: exhaustive (n,k) -------------------------

type nkCase struct{ N, K int }

func refBinomial(n, k int) float64 {
	// Pascal triangle in float64 (exact below 2^53).
	row := make([]float64, n+1)
	row[0] = 1
	for i := 1; i <= n; i++ {
		for j := i; j >= 1; j-- {
			row[j] += row[j-1]
		}
	}
	return row[k]
}

// refCombinations enumerates k-subsets of [0,n) in lexicographic order.
func refCombinations(n, k int) [][]int {
	var out [][]int
	cur := make([]int, 0, k)
	var rec func(start int)
	rec = func(start int) {
		if len(cur) == k {
			out = append(out, append([]int(nil), cur...))
			return
		}
		for v := start; v < n; v++ {
			cur = append(cur, v)
			rec(v + 1)
			cur = cur[:len(cur)-1]
		}
	}
	rec(0)
	return out
}

func eqInts(a, b []int) bool {
	if len(a) != len(b) {
		return false
	}
	for i := range a {
		if a[i] != b[i] {
			return false
		}
	}
	return true
}

func checkNK(c nkCase) *vk.Failure {
	n, k := c.N, c.K
	vk.NonTrivial("nk", n, k)
	vk.Sample("combin-nk", c)
	want := refCombinations(n, k)
	if b := combin.Binomial(n, k); b != len(want) {
		return vk.Failf("binomial", "Binomial(%d,%d)=%d want %d", n, k, b, len(want))
	}
	// Pascal and symmetry.
	if combin.Binomial(n, k) != combin.Binomial(n, n-k) {
		return vk.Failf("binomial-symmetry", "n=%d k=%d", n, k)
	}
	if k >= 1 && n >= 1 && k <= n-1 {
		if combin.Binomial(n, k) != combin.Binomial(n-1, k-1)+combin.Binomial(n-1, k) {
			return vk.Failf("binomial-pascal", "n=%d k=%d", n, k)
		}
	}
	gb := combin.GeneralizedBinomial(float64(n), float64(k))
	if math.Abs(gb-float64(len(want))) > 1e-9*float64(len(want)) {
		return vk.Failf("generalized-binomial", "GeneralizedBinomial(%d,%d)=%v want %d", n, k, gb, len(want))
	}
	lgb := combin.LogGeneralizedBinomial(float64(n), float64(k))
	if math.Abs(lgb-math.Log(float64(len(want)))) > 1e-9*(1+math.Abs(lgb)) {
		return vk.Failf("log-generalized-binomial", "n=%d k=%d got %v", n, k, lgb)
	}
	got := combin.Combinations(n, k)
	if len(got) != len(want) {
		return vk.Failf("combinations-count", "n=%d k=%d got %d want %d", n, k, len(got), len(want))
	}
	for i := range want {
		if !eqInts(got[i], want[i]) {
			return vk.Failf("combinations-order", "n=%d k=%d row %d got %v want %v", n, k, i, got[i], want[i])
		}
	}
	// generator, with dst supplied and nil alternately
	g := combin.NewCombinationGenerator(n, k)
	i := 0
	dst := make([]int, k)
	for g.Next() {
		if i >= len(want) {
			return vk.Failf("combgen-too-many", "n=%d k=%d", n, k)
		}
		var r []int
		if i%2 == 0 {
			r = g.Combination(dst)
		} else {
			r = g.Combination(nil)
		}
		if !eqInts(r, want[i]) {
			return vk.Failf("combgen-order", "n=%d k=%d step %d got %v want %v", n, k, i, r, want[i])
		}
		i++
	}
	if i != len(want) {
		return vk.Failf("combgen-count", "n=%d k=%d got %d want %d", n, k, i, len(want))
	}
	if g.Next() {
		return vk.Failf("combgen-next-after-end", "n=%d k=%d", n, k)
	}
	if f := vk.MustPanic("combgen-combination-after-end", func() { g.Combination(nil) }); f != nil {
		return f
	}
	if f := vk.MustPanic("combgen-combination-before-next", func() { combin.NewCombinationGenerator(n, k).Combination(nil) }); f != nil {
		return f
	}
	// index maps
	for idx, comb := range want {
		if ci := combin.CombinationIndex(comb, n, k); ci != idx {
			return vk.Failf("combination-index", "n=%d k=%d comb=%v got %d want %d", n, k, comb, ci, idx)
		}
		var r []int
		if idx%2 == 0 {
			r = combin.IndexToCombination(nil, idx, n, k)
		} else {
			r = combin.IndexToCombination(make([]int, k), idx, n, k)
		}
		if !eqInts(r, comb) {
			return vk.Failf("index-to-combination", "n=%d k=%d idx=%d got %v want %v", n, k, idx, r, comb)
		}
	}
	if f := vk.MustPanic("index-to-combination-oob", func() { combin.IndexToCombination(nil, len(want), n, k) }); f != nil {
		return f
	}
	if f := vk.MustPanic("index-to-combination-neg", func() { combin.IndexToCombination(nil, -1, n, k) }); f != nil {
		return f
	}
	if f := vk.MustPanic("binomial-k>n", func() { combin.Binomial(n, n+1) }); f != nil {
		return f
	}
	if f := vk.MustPanic("binomial-neg", func() { combin.Binomial(n, -1) }); f != nil {
		return f
	}
	if k >= 2 {
		// unsorted / repeated combination must be rejected
		bad := append([]int(nil), want[len(want)-1]...)
		bad[0], bad[1] = bad[1], bad[0]
		if f := vk.MustPanic("combination-index-unsorted", func() { combin.CombinationIndex(bad, n, k) }); f != nil {
			return f
		}
		bad[0] = bad[1]
		if f := vk.MustPanic("combination-index-repeat", func() { combin.CombinationIndex(bad, n, k) }); f != nil {
			return f
		}
	}

	// permutations (only while n!/(n-k)! stays small)
	np := 1
	for j := 0; j < k; j++ {
		np *= n - j
	}
	if got := combin.NumPermutations(n, k); got != np {
		return vk.Failf("num-permutations", "n=%d k=%d got %d want %d", n, k, got, np)
	}
	if np > 50000 {
		return nil
	}
	perms := combin.Permutations(n, k)
	if len(perms) != np {
		return vk.Failf("permutations-count", "n=%d k=%d got %d want %d", n, k, len(perms), np)
	}
	seen := make(map[string]bool, np)
	pg := combin.NewPermutationGenerator(n, k)
	for idx := 0; idx < np; idx++ {
		p := perms[idx]
		if len(p) != k {
			return vk.Failf("permutation-length", "n=%d k=%d idx=%d %v", n, k, idx, p)
		}
		used := map[int]bool{}
		for _, v := range p {
			if v < 0 || v >= n || used[v] {
				return vk.Failf("permutation-invalid", "n=%d k=%d idx=%d %v", n, k, idx, p)
			}
			used[v] = true
		}
		key := fmt.Sprint(p)
		if seen[key] {
			return vk.Failf("permutation-duplicate", "n=%d k=%d idx=%d %v", n, k, idx, p)
		}
		seen[key] = true
		if !pg.Next() {
			return vk.Failf("permgen-short", "n=%d k=%d stopped at %d of %d", n, k, idx, np)
		}
		var gp []int
		if idx%2 == 0 {
			gp = pg.Permutation(nil)
		} else {
			gp = pg.Permutation(make([]int, k))
		}
		if !eqInts(gp, p) {
			return vk.Failf("permgen-order", "n=%d k=%d idx=%d generator %v Permutations %v", n, k, idx, gp, p)
		}
		ip := combin.IndexToPermutation(nil, idx, n, k)
		if !eqInts(ip, p) {
			return vk.Failf("index-to-permutation", "n=%d k=%d idx=%d got %v want %v", n, k, idx, ip, p)
		}
		if pi := combin.PermutationIndex(p, n, k); pi != idx {
			return vk.Failf("permutation-index", "n=%d k=%d perm=%v got %d want %d", n, k, p, pi, idx)
		}
	}
	if pg.Next() {
		return vk.Failf("permgen-too-many", "n=%d k=%d", n, k)
	}
	if f := vk.MustPanic("permgen-permutation-after-end", func() { pg.Permutation(nil) }); f != nil {
		return f
	}
	if f := vk.MustPanic("index-to-permutation-oob", func() { combin.IndexToPermutation(nil, np, n, k) }); f != nil {
		return f
	}
	if k >= 1 {
		bad := append([]int(nil), perms[0]...)
		bad[0] = n
		if f := vk.MustPanic("permutation-index-bad-element", func() { combin.PermutationIndex(bad, n, k) }); f != nil {
			return f
		}
	}
	return nil
}

func TestCombinNK(t *testing.T) {
	maxN := vk.Pick(8, 10)
	var cases []nkCase
	for n := 0; n <= maxN; n++ {
		for k := 0; k <= n; k++ {
			cases = append(cases, nkCase{n, k})
		}
	}
	vk.Enumerate(t, "combin-nk", len(cases), func(i int) nkCase { return cases[i] }, checkNK)
}

// larger (n,k): index maps on sampled indices, Binomial identities where it fits.
type nkBigCase struct {
	N, K int
	Idx  []uint64
}

func checkNKBig(c nkBigCase) *vk.Failure {
	n, k := c.N, c.K
	vk.NonTrivial("nkbig", n, k)
	vk.Sample("combin-nk-big", c)
	want := refBinomial(n, k)
	if want >= 1<<53 {
		return nil
	}
	b := combin.Binomial(n, k)
	if float64(b) != want {
		return vk.Failf("binomial-big", "Binomial(%d,%d)=%d want %.0f", n, k, b, want)
	}
	if b != combin.Binomial(n, n-k) {
		return vk.Failf("binomial-symmetry", "n=%d k=%d", n, k)
	}
	gb := combin.GeneralizedBinomial(float64(n), float64(k))
	if math.Abs(gb-want) > 1e-9*want {
		return vk.Failf("generalized-binomial", "n=%d k=%d got %v want %v", n, k, gb, want)
	}
	prev := -1
	idxs := make([]int, 0, len(c.Idx))
	for _, u := range c.Idx {
		idxs = append(idxs, int(u%uint64(b)))
	}
	sort.Ints(idxs)
	var prevComb []int
	for _, idx := range idxs {
		comb := combin.IndexToCombination(nil, idx, n, k)
		if len(comb) != k {
			return vk.Failf("index-to-combination-len", "n=%d k=%d idx=%d %v", n, k, idx, comb)
		}
		for j, v := range comb {
			if v < 0 || v >= n || (j > 0 && comb[j-1] >= v) {
				return vk.Failf("index-to-combination-invalid", "n=%d k=%d idx=%d %v", n, k, idx, comb)
			}
		}
		if ci := combin.CombinationIndex(comb, n, k); ci != idx {
			return vk.Failf("combination-index-roundtrip", "n=%d k=%d idx=%d comb=%v back=%d", n, k, idx, comb, ci)
		}
		// rank order: larger index <=> lexicographically larger combination
		if prevComb != nil && idx > prev {
			lt := false
			for j := range comb {
				if prevComb[j] != comb[j] {
					lt = prevComb[j] < comb[j]
					break
				}
			}
			if !lt {
				return vk.Failf("index-to-combination-order", "n=%d k=%d idx %d -> %v, idx %d -> %v", n, k, prev, prevComb, idx, comb)
			}
		}
		prev, prevComb = idx, comb
	}
	return nil
}

func TestCombinNKBig(t *testing.T) {
	vk.Run(t, "combin-nk-big", vk.Opts{Quick: 3000, Thorough: 60000, NoCrumb: true}, func(t *rapid.T) nkBigCase {
		n := rapid.IntRange(1, 60).Draw(t, "n")
		k := rapid.IntRange(0, n).Draw(t, "k")
		idx := rapid.SliceOfN(rapid.Uint64(), 1, 12).Draw(t, "idx")
		return nkBigCase{n, k, idx}
	}, checkNKBig)
}

// ---- Cartesian / IdxFor / SubFor -------------------------------------------

type dimsCase struct{ Dims []int }

func checkDims(c dimsCase) *vk.Failure {
	dims := c.Dims
	vk.NonTrivial("dims", fmt.Sprint(dims))
	vk.Sample("combin-dims", c)
	card := 1
	for _, d := range dims {
		card *= d
	}
	if got := combin.Card(dims); got != card {
		return vk.Failf("card", "dims=%v got %d want %d", dims, got, card)
	}
	all := combin.Cartesian(dims)
	if len(all) != card {
		return vk.Failf("cartesian-count", "dims=%v got %d want %d", dims, len(all), card)
	}
	g := combin.NewCartesianGenerator(dims)
	// reference: odometer, last index fastest ("row-major", lexicographic)
	cur := make([]int, len(dims))
	for idx := 0; idx < card; idx++ {
		if !eqInts(all[idx], cur) {
			return vk.Failf("cartesian-order", "dims=%v row %d got %v want %v", dims, idx, all[idx], cur)
		}
		if !g.Next() {
			return vk.Failf("cartgen-short", "dims=%v stopped at %d", dims, idx)
		}
		var p []int
		if idx%2 == 0 {
			p = g.Product(nil)
		} else {
			p = g.Product(make([]int, len(dims)))
		}
		if !eqInts(p, cur) {
			return vk.Failf("cartgen-order", "dims=%v row %d got %v want %v", dims, idx, p, cur)
		}
		if got := combin.IdxFor(cur, dims); got != idx {
			return vk.Failf("idxfor", "dims=%v sub=%v got %d want %d", dims, cur, got, idx)
		}
		s := combin.SubFor(nil, idx, dims)
		if !eqInts(s, cur) {
			return vk.Failf("subfor", "dims=%v idx=%d got %v want %v", dims, idx, s, cur)
		}
		for j := len(dims) - 1; j >= 0; j-- {
			cur[j]++
			if cur[j] < dims[j] {
				break
			}
			cur[j] = 0
		}
	}
	if g.Next() {
		return vk.Failf("cartgen-too-many", "dims=%v", dims)
	}
	// documented panics: "SubFor panics if idx < 0 or if idx is greater than or
	// equal to the product of the dimensions."
	if f := vk.MustPanic("subfor-idx-eq-card", func() { combin.SubFor(nil, card, dims) }); f != nil {
		f.Msg += fmt.Sprintf(" (dims=%v idx=%d)", dims, card)
		return f
	}
	if f := vk.MustPanic("subfor-idx-neg", func() { combin.SubFor(nil, -1, dims) }); f != nil {
		return f
	}
	if f := vk.MustPanic("subfor-bad-len", func() { combin.SubFor(make([]int, len(dims)+1), 0, dims) }); f != nil {
		return f
	}
	// IdxFor: sub[i] >= dims[i] or negative panics
	for j := range dims {
		bad := make([]int, len(dims))
		bad[j] = dims[j]
		if f := vk.MustPanic("idxfor-sub-too-large", func() { combin.IdxFor(bad, dims) }); f != nil {
			return f
		}
		bad[j] = -1
		if f := vk.MustPanic("idxfor-sub-neg", func() { combin.IdxFor(bad, dims) }); f != nil {
			return f
		}
	}
	return nil
}

func allDims(maxCard, maxLen int) [][]int {
	var out [][]int
	var rec func(cur []int, card int)
	rec = func(cur []int, card int) {
		if len(cur) > 0 {
			out = append(out, append([]int(nil), cur...))
		}
		if len(cur) == maxLen {
			return
		}
		for d := 1; card*d <= maxCard; d++ {
			rec(append(cur, d), card*d)
		}
	}
	rec(nil, 1)
	return out
}

func TestCombinDims(t *testing.T) {
	// exhaustive over all dims vectors (entries >= 1) of bounded product and length
	ds := allDims(vk.Pick(60, 400), vk.Pick(4, 5))
	vk.Enumerate(t, "combin-dims", len(ds), func(i int) dimsCase { return dimsCase{ds[i]} }, checkDims)
	vk.Run(t, "combin-dims-rand", vk.Opts{Quick: 300, Thorough: 4000, NoCrumb: true}, func(t *rapid.T) dimsCase {
		n := rapid.IntRange(1, 5).Draw(t, "len")
		dims := make([]int, n)
		card := 1
		for i := range dims {
			hi := 10000 / card
			if hi > 30 {
				hi = 30
			}
			if hi < 1 {
				hi = 1
			}
			dims[i] = rapid.IntRange(1, hi).Draw(t, "d")
			card *= dims[i]
		}
		return dimsCase{dims}
	}, checkDims)
}

// ---- permutation index maps at sizes the enumeration cannot reach -----------
//
// (added after seeded change C20-13: a factorial helper that is only wrong from 13! on; the
// exhaustive check above stops at n = 10, so k >= 13 was never looked at.) For n <= 20 every
// NumPermutations(n, k) fits in an int64, so the documented bijection can be sampled: each index
// gives a valid k-permutation of [0, n), PermutationIndex inverts IndexToPermutation, distinct
// indices give distinct permutations, and the two ends of the range are accepted while
// NumPermutations(n, k) itself is rejected.
type permBigCase struct {
	N, K int
	Idx  []uint64
}

func checkPermBig(c permBigCase) *vk.Failure {
	n, k := c.N, c.K
	if k >= 11 {
		vk.NonTrivial("permbig", n, k)
	}
	vk.Sample("combin-perm-big", c)
	np := uint64(1)
	for i := n - k + 1; i <= n; i++ {
		np *= uint64(i)
	}
	if got := combin.NumPermutations(n, k); uint64(got) != np {
		return vk.Failf("num-permutations-big", "n=%d k=%d got %d want %d", n, k, got, np)
	}
	idxs := []int{0, int(np - 1)}
	for _, u := range c.Idx {
		idxs = append(idxs, int(u%np))
	}
	seen := map[string]int{}
	for _, idx := range idxs {
		var p []int
		if f := vk.MustReturn("index-to-permutation-big-panics", func() { p = combin.IndexToPermutation(nil, idx, n, k) }); f != nil {
			f.Msg += fmt.Sprintf(" (n=%d k=%d idx=%d)", n, k, idx)
			return f
		}
		if len(p) != k {
			return vk.Failf("index-to-permutation-big-len", "n=%d k=%d idx=%d %v", n, k, idx, p)
		}
		used := make([]bool, n)
		for _, v := range p {
			if v < 0 || v >= n || used[v] {
				return vk.Failf("index-to-permutation-big-invalid", "n=%d k=%d idx=%d %v", n, k, idx, p)
			}
			used[v] = true
		}
		var back int
		if f := vk.MustReturn("permutation-index-big-panics", func() { back = combin.PermutationIndex(p, n, k) }); f != nil {
			f.Msg += fmt.Sprintf(" (n=%d k=%d perm=%v)", n, k, p)
			return f
		}
		if back != idx {
			return vk.Failf("permutation-index-big-roundtrip", "n=%d k=%d idx=%d -> %v -> %d", n, k, idx, p, back)
		}
		key := fmt.Sprint(p)
		if o, ok := seen[key]; ok && o != idx {
			return vk.Failf("index-to-permutation-big-not-injective", "n=%d k=%d idx %d and %d both give %v", n, k, o, idx, p)
		}
		seen[key] = idx
	}
	// n == k: the identity is the first and the reversal the last permutation (the order of
	// Permutations, which the exhaustive check pins for small n, is lexicographic there).
	if n == k && n > 0 {
		id := make([]int, n)
		rev := make([]int, n)
		for i := range id {
			id[i], rev[i] = i, n-1-i
		}
		if got := combin.PermutationIndex(id, n, k); got != 0 {
			return vk.Failf("permutation-index-big-identity", "n=k=%d identity has index %d", n, got)
		}
		if got := combin.PermutationIndex(rev, n, k); uint64(got) != np-1 {
			return vk.Failf("permutation-index-big-reversal", "n=k=%d reversal has index %d want %d", n, got, np-1)
		}
	}
	if f := vk.MustPanic("index-to-permutation-big-oob", func() { combin.IndexToPermutation(nil, int(np), n, k) }); f != nil {
		return f
	}
	return nil
}

func TestCombinPermBig(t *testing.T) {
	vk.Run(t, "combin-perm-big", vk.Opts{Quick: 3000, Thorough: 60000, NoCrumb: true}, func(t *rapid.T) permBigCase {
		n := rapid.IntRange(1, 20).Draw(t, "n")
		k := rapid.IntRange(0, n).Draw(t, "k")
		if rapid.Bool().Draw(t, "full") {
			k = n
		}
		idx := rapid.SliceOfN(rapid.Uint64(), 1, 8).Draw(t, "idx")
		return permBigCase{n, k, idx}
	}, checkPermBig)
}
