package c20

import (
	"testing"

	"gonum.org/v1/gonum/spatial/kdtree"
	"gonum.org/v1/gonum/spatial/r2"
	"gonum.org/v1/gonum/spatial/r3"
	"pgregory.net/rapid"
	"verifharness/vk"
)

// boxCase: two boxes and a point/vector on a small integer lattice (all
// arithmetic exact), for r2 and r3 (the third coordinates are ignored for r2).
type boxCase struct {
	A, B [6]int // x0,y0,z0,x1,y1,z1 (not necessarily ordered)
	V    [3]int
	S    [3]int // scale factors in halves: S/2
}

func checkBox(c boxCase) *vk.Failure {
	vk.Sample("box", c)
	vk.NonTrivial("box", c.A, c.B, c.V, c.S)
	f := func(i int) float64 { return float64(i) }
	// ---- r2
	{
		a := r2.NewBox(f(c.A[0]), f(c.A[1]), f(c.A[3]), f(c.A[4]))
		b := r2.NewBox(f(c.B[0]), f(c.B[1]), f(c.B[3]), f(c.B[4]))
		v := r2.Vec{X: f(c.V[0]), Y: f(c.V[1])}
		if a.Min.X > a.Max.X || a.Min.Y > a.Max.Y {
			return vk.Failf("r2-newbox-wellformed", "%+v", a)
		}
		raw := r2.Box{Min: r2.Vec{X: f(c.A[0]), Y: f(c.A[1])}, Max: r2.Vec{X: f(c.A[3]), Y: f(c.A[4])}}
		if cn := raw.Canon(); cn != a || cn.Canon() != cn {
			return vk.Failf("r2-canon", "Canon(%+v)=%+v want %+v", raw, cn, a)
		}
		sz := a.Size()
		if sz.X != a.Max.X-a.Min.X || sz.Y != a.Max.Y-a.Min.Y {
			return vk.Failf("r2-size", "%+v size %+v", a, sz)
		}
		ce := a.Center()
		if ce.X != (a.Min.X+a.Max.X)/2 || ce.Y != (a.Min.Y+a.Max.Y)/2 {
			return vk.Failf("r2-center", "%+v center %+v", a, ce)
		}
		empty := sz.X == 0 || sz.Y == 0
		if a.Empty() != empty {
			return vk.Failf("r2-empty", "%+v Empty=%v want %v (documented: zero volume)", a, a.Empty(), empty)
		}
		vs := a.Vertices()
		if len(vs) != 4 {
			return vk.Failf("r2-vertices", "%+v has %d vertices", a, len(vs))
		}
		seen := map[r2.Vec]bool{}
		for _, p := range vs {
			if (p.X != a.Min.X && p.X != a.Max.X) || (p.Y != a.Min.Y && p.Y != a.Max.Y) {
				return vk.Failf("r2-vertices", "%+v vertex %+v is not a corner", a, p)
			}
			seen[p] = true
			if !empty && !a.Contains(p) {
				return vk.Failf("r2-contains-corner", "%+v does not contain its corner %+v", a, p)
			}
		}
		if !empty && len(seen) != 4 {
			return vk.Failf("r2-vertices", "%+v vertices not distinct: %v", a, vs)
		}
		if !empty {
			in := a.Min.X <= v.X && v.X <= a.Max.X && a.Min.Y <= v.Y && v.Y <= a.Max.Y
			if a.Contains(v) != in {
				return vk.Failf("r2-contains", "%+v Contains(%+v)=%v want %v", a, v, a.Contains(v), in)
			}
		}
		tr := a.Add(v)
		if tr.Min != r2.Add(a.Min, v) || tr.Max != r2.Add(a.Max, v) {
			return vk.Failf("r2-add", "%+v + %+v = %+v", a, v, tr)
		}
		if !a.Empty() && !b.Empty() {
			u := a.Union(b)
			want := r2.Box{Min: r2.Vec{X: min(a.Min.X, b.Min.X), Y: min(a.Min.Y, b.Min.Y)}, Max: r2.Vec{X: max(a.Max.X, b.Max.X), Y: max(a.Max.Y, b.Max.Y)}}
			if u != want || b.Union(a) != want {
				return vk.Failf("r2-union", "%+v U %+v = %+v want %+v", a, b, u, want)
			}
		} else if a.Empty() && a.Union(b) != b {
			return vk.Failf("r2-union-empty", "empty %+v U %+v = %+v", a, b, a.Union(b))
		}
		s := r2.Vec{X: f(c.S[0]) / 2, Y: f(c.S[1]) / 2}
		sc := a.Scale(s)
		sx, sy := max(s.X, 0), max(s.Y, 0)
		if sc.Center() != a.Center() || sc.Size().X != sx*sz.X || sc.Size().Y != sy*sz.Y {
			return vk.Failf("r2-scale", "%+v scaled by %+v = %+v (centre %+v size %+v)", a, s, sc, sc.Center(), sc.Size())
		}
	}
	// ---- r3
	{
		a := r3.NewBox(f(c.A[0]), f(c.A[1]), f(c.A[2]), f(c.A[3]), f(c.A[4]), f(c.A[5]))
		b := r3.NewBox(f(c.B[0]), f(c.B[1]), f(c.B[2]), f(c.B[3]), f(c.B[4]), f(c.B[5]))
		v := r3.Vec{X: f(c.V[0]), Y: f(c.V[1]), Z: f(c.V[2])}
		if a.Min.X > a.Max.X || a.Min.Y > a.Max.Y || a.Min.Z > a.Max.Z {
			return vk.Failf("r3-newbox-wellformed", "%+v", a)
		}
		raw := r3.Box{Min: r3.Vec{X: f(c.A[0]), Y: f(c.A[1]), Z: f(c.A[2])}, Max: r3.Vec{X: f(c.A[3]), Y: f(c.A[4]), Z: f(c.A[5])}}
		if cn := raw.Canon(); cn != a || cn.Canon() != cn {
			return vk.Failf("r3-canon", "Canon(%+v)=%+v want %+v", raw, cn, a)
		}
		sz := a.Size()
		if sz != r3.Sub(a.Max, a.Min) {
			return vk.Failf("r3-size", "%+v size %+v", a, sz)
		}
		ce := a.Center()
		if ce.X != (a.Min.X+a.Max.X)/2 || ce.Y != (a.Min.Y+a.Max.Y)/2 || ce.Z != (a.Min.Z+a.Max.Z)/2 {
			return vk.Failf("r3-center", "%+v center %+v", a, ce)
		}
		empty := sz.X == 0 || sz.Y == 0 || sz.Z == 0
		if a.Empty() != empty {
			return vk.Failf("r3-empty", "%+v Empty=%v want %v (documented: zero volume)", a, a.Empty(), empty)
		}
		vs := a.Vertices()
		if len(vs) != 8 {
			return vk.Failf("r3-vertices", "%+v has %d vertices", a, len(vs))
		}
		seen := map[r3.Vec]bool{}
		for _, p := range vs {
			if (p.X != a.Min.X && p.X != a.Max.X) || (p.Y != a.Min.Y && p.Y != a.Max.Y) || (p.Z != a.Min.Z && p.Z != a.Max.Z) {
				return vk.Failf("r3-vertices", "%+v vertex %+v is not a corner", a, p)
			}
			seen[p] = true
			if !empty && !a.Contains(p) {
				return vk.Failf("r3-contains-corner", "%+v does not contain its corner %+v", a, p)
			}
		}
		if !empty && len(seen) != 8 {
			return vk.Failf("r3-vertices", "%+v vertices not distinct: %v", a, vs)
		}
		if !empty {
			in := a.Min.X <= v.X && v.X <= a.Max.X && a.Min.Y <= v.Y && v.Y <= a.Max.Y && a.Min.Z <= v.Z && v.Z <= a.Max.Z
			if a.Contains(v) != in {
				return vk.Failf("r3-contains", "%+v Contains(%+v)=%v want %v", a, v, a.Contains(v), in)
			}
		}
		tr := a.Add(v)
		if tr.Min != r3.Add(a.Min, v) || tr.Max != r3.Add(a.Max, v) {
			return vk.Failf("r3-add", "%+v + %+v = %+v", a, v, tr)
		}
		if !a.Empty() && !b.Empty() {
			u := a.Union(b)
			want := r3.Box{Min: r3.Vec{X: min(a.Min.X, b.Min.X), Y: min(a.Min.Y, b.Min.Y), Z: min(a.Min.Z, b.Min.Z)}, Max: r3.Vec{X: max(a.Max.X, b.Max.X), Y: max(a.Max.Y, b.Max.Y), Z: max(a.Max.Z, b.Max.Z)}}
			if u != want || b.Union(a) != want {
				return vk.Failf("r3-union", "%+v U %+v = %+v want %+v", a, b, u, want)
			}
		}
		s := r3.Vec{X: f(c.S[0]) / 2, Y: f(c.S[1]) / 2, Z: f(c.S[2]) / 2}
		sc := a.Scale(s)
		sx, sy, szz := max(s.X, 0), max(s.Y, 0), max(s.Z, 0)
		if sc.Center() != a.Center() || sc.Size().X != sx*sz.X || sc.Size().Y != sy*sz.Y || sc.Size().Z != szz*sz.Z {
			return vk.Failf("r3-scale", "%+v scaled by %+v = %+v", a, s, sc)
		}
	}
	return nil
}

func TestBox(t *testing.T) {
	vk.Run(t, "box", vk.Opts{Quick: 30000, Thorough: 500000, NoCrumb: true}, func(t *rapid.T) boxCase {
		var c boxCase
		g := rapid.IntRange(-4, 4)
		for i := range c.A {
			c.A[i] = g.Draw(t, "a") * 2
			c.B[i] = g.Draw(t, "b") * 2
		}
		for i := range c.V {
			c.V[i] = rapid.IntRange(-9, 9).Draw(t, "v")
			c.S[i] = rapid.IntRange(-2, 6).Draw(t, "s")
		}
		return c
	}, checkBox)
}

// ---- kd-tree medians -----------------------------------------------------------

type medCase struct {
	X []int
	K int
}

type intSlicer []int

func (s intSlicer) Len() int                         { return len(s) }
func (s intSlicer) Less(i, j int) bool               { return s[i] < s[j] }
func (s intSlicer) Swap(i, j int)                    { s[i], s[j] = s[j], s[i] }
func (s intSlicer) Slice(a, b int) kdtree.SortSlicer { return s[a:b] }

func sameMultiset(a, b []int) bool {
	m := map[int]int{}
	for _, v := range a {
		m[v]++
	}
	for _, v := range b {
		m[v]--
	}
	for _, n := range m {
		if n != 0 {
			return false
		}
	}
	return len(a) == len(b)
}

func checkMedians(c medCase) *vk.Failure {
	vk.Sample("kd-medians", c)
	n := len(c.X)
	vk.NonTrivial("med", c.X, c.K)
	k := c.K % n
	// Partition
	x := append(intSlicer(nil), c.X...)
	pv := x[k]
	pos := kdtree.Partition(x, k)
	if pos < 0 || pos >= n || x[pos] != pv || !sameMultiset(x, c.X) {
		return vk.Failf("partition-result", "x=%v pivot index %d -> pos %d, result %v", c.X, k, pos, []int(x))
	}
	for i, v := range x {
		if (i < pos && v > pv) || (i > pos && v < pv) {
			return vk.Failf("partition-order", "x=%v pivot %d at %d: result %v", c.X, pv, pos, []int(x))
		}
	}
	// Select
	y := append(intSlicer(nil), c.X...)
	r := kdtree.Select(y, k)
	_ = r // the return value of Select is not specified by its documentation
	if !sameMultiset(y, c.X) {
		return vk.Failf("select-result", "x=%v k=%d -> %d, result %v", c.X, k, r, []int(y))
	}
	for i, v := range y {
		if (i < k && v > y[k]) || (i > k && v < y[k]) {
			return vk.Failf("select-order", "x=%v k=%d: result %v", c.X, k, []int(y))
		}
	}
	// MedianOfMedians / MedianOfRandoms return an index in range and do not lose elements
	z := append(intSlicer(nil), c.X...)
	m := kdtree.MedianOfMedians(z)
	if m < 0 || m >= n || !sameMultiset(z, c.X) {
		return vk.Failf("median-of-medians", "x=%v -> index %d, slice %v", c.X, m, []int(z))
	}
	w := append(intSlicer(nil), c.X...)
	m = kdtree.MedianOfRandoms(w, 1+c.K%7)
	if m < 0 || m >= n || !sameMultiset(w, c.X) {
		return vk.Failf("median-of-randoms", "x=%v -> index %d, slice %v", c.X, m, []int(w))
	}
	return nil
}

func TestKDMedians(t *testing.T) {
	vk.Run(t, "kd-medians", vk.Opts{Quick: 30000, Thorough: 500000, NoCrumb: true}, func(t *rapid.T) medCase {
		return medCase{
			X: rapid.SliceOfN(rapid.IntRange(0, 6), 1, 40).Draw(t, "x"),
			K: rapid.IntRange(0, 1000).Draw(t, "k"),
		}
	}, checkMedians)
}
