package c20

import (
	"errors"
	"fmt"
	"math"
	"math/rand/v2"
	"strings"
	"testing"

	"gonum.org/v1/gonum/spatial/curve"
	"gonum.org/v1/gonum/spatial/kdtree"
	"gonum.org/v1/gonum/spatial/vptree"
	"gonum.org/v1/gonum/stat/combin"
	"pgregory.net/rapid"
	"verifharness/vk"
)

// Sub-checks for boundary behaviour: box queries of the kd-tree against a
// linear scan, empty trees, index maps on arguments outside their domain and
// the largest orders the Hilbert constructors accept.
//
// Convention used throughout this file: a deviation that matches the exact
// behaviour of a recorded defect is reported under its own narrow key, and only
// after every other oracle of the case has been evaluated ("late"), so that a
// narrow key listed as open in known_findings.jsonl never hides another
// deviation in the same case.

// ---- kd-tree: DoBounded and Tree.Contains against a linear scan ---------------

type kdBoxCase struct {
	Dim      int
	Pts      [][]int // bulk points (integer lattice: ties in every coordinate)
	Ins      [][]int // inserted afterwards
	Bounding bool
	InsBound bool
	// Boxes holds Min and Max in half units (value/2), Min <= Max in every
	// coordinate: faces lie on lattice coordinates or midway between them.
	Boxes  [][2][]int
	Probes [][]int // half units, for Tree.Contains
	Stop   int     // early termination: fn returns true at visit 1 + Stop%total
}

func halfPoint(v []int) kdtree.Point {
	p := make(kdtree.Point, len(v))
	for i, x := range v {
		p[i] = float64(x) / 2
	}
	return p
}

func checkKDBox(c kdBoxCase) *vk.Failure {
	vk.Sample("kd-bounded", c)
	var all []kdtree.Point
	pts := make(kdtree.Points, len(c.Pts))
	for i, p := range c.Pts {
		q := make(kdtree.Point, len(p))
		for j, x := range p {
			q[j] = float64(x)
		}
		pts[i] = q
		all = append(all, append(kdtree.Point(nil), q...))
	}
	tree := kdtree.New(pts, c.Bounding)
	for _, p := range c.Ins {
		q := make(kdtree.Point, len(p))
		for j, x := range p {
			q[j] = float64(x)
		}
		tree.Insert(q, c.InsBound)
		all = append(all, append(kdtree.Point(nil), q...))
	}
	vk.NonTrivial("kd-bounded", c.Dim, fmt.Sprint(c.Pts), fmt.Sprint(c.Ins), c.Bounding, c.InsBound, fmt.Sprint(c.Boxes))
	if len(c.Pts) > 0 && len(c.Ins) > 0 {
		vk.Class("kd-bounded=bulk+insert")
	} else if len(c.Ins) > 0 {
		vk.Class("kd-bounded=insert-only")
	} else {
		vk.Class("kd-bounded=bulk-only")
	}
	var late *vk.Failure
	// Do and DoBounded(nil): "If b is nil, the result is the same as a Do."
	nDo, nNil := 0, 0
	if tree.Do(func(kdtree.Comparable, *kdtree.Bounding, int) bool { nDo++; return false }) {
		return vk.Failf("do-return", "Do returned true although fn never did")
	}
	if tree.DoBounded(nil, func(kdtree.Comparable, *kdtree.Bounding, int) bool { nNil++; return false }) {
		return vk.Failf("dobounded-nil-return", "DoBounded(nil) returned true although fn never did")
	}
	if nDo != len(all) || nNil != len(all) {
		return vk.Failf("dobounded-nil", "Do visited %d, DoBounded(nil) visited %d, stored %d", nDo, nNil, len(all))
	}
	for _, bx := range c.Boxes {
		lo, hi := halfPoint(bx[0]), halfPoint(bx[1])
		b := &kdtree.Bounding{Min: lo, Max: hi}
		// linear scan, faces inclusive as Bounding.Contains implements it
		want := map[string]int{}
		total := 0
		for _, p := range all {
			in := true
			for d := range p {
				if p[d] < lo[d] || p[d] > hi[d] {
					in = false
				}
			}
			if in != b.Contains(p) {
				return vk.Failf("bounding-contains", "Bounding[%v,%v].Contains(%v)=%v", lo, hi, p, !in)
			}
			if in {
				want[fmt.Sprint(p)]++
				total++
			}
		}
		got := map[string]int{}
		calls := 0
		ret := tree.DoBounded(b, func(cp kdtree.Comparable, _ *kdtree.Bounding, _ int) bool {
			calls++
			got[fmt.Sprint(cp.(kdtree.Point))]++
			return false
		})
		if ret {
			return vk.Failf("dobounded-return", "DoBounded returned true although fn never did")
		}
		for k, n := range got {
			if n > want[k] {
				return vk.Failf("dobounded-extra", "box [%v,%v]: point %s visited %d times, %d stored inside the box", lo, hi, k, n, want[k])
			}
		}
		if calls != total {
			// Points were missed. The recorded defect: the left subtree is skipped
			// when the Min face coincides with the node's coordinate, so every
			// missed point lies on a Min face of the box.
			onMinFace := true
			var missed []kdtree.Point
			for _, p := range all {
				k := fmt.Sprint(p)
				if want[k] > got[k] {
					got[k]++
					missed = append(missed, p)
					face := false
					for d := range p {
						if p[d] == lo[d] {
							face = true
						}
					}
					onMinFace = onMinFace && face
				}
			}
			f := vk.Failf("dobounded-missed", "box [%v,%v]: visited %d of the %d points inside; missed %v", lo, hi, calls, total, missed)
			if !onMinFace {
				return f
			}
			if late == nil {
				f.Key = "dobounded-skips-min-face"
				f.Msg += " (all on a Min face of the box)"
				late = f
			}
			continue
		}
		// early termination: "A boolean is returned indicating whether the
		// DoBounded traversal was interrupted by an Operation returning true."
		if total > 0 {
			stop := 1 + c.Stop%total
			calls = 0
			ret = tree.DoBounded(b, func(kdtree.Comparable, *kdtree.Bounding, int) bool { calls++; return calls == stop })
			if !ret || calls != stop {
				return vk.Failf("dobounded-interrupt", "box [%v,%v]: fn returned true at visit %d of %d: DoBounded returned %v after %d visits", lo, hi, stop, total, ret, calls)
			}
		}
	}
	// Tree.Contains: "returns whether a Comparable is in the bounds of the tree.
	// If no bounding has been constructed Contains returns true." (The empty tree
	// is the subject of the sub-check kd-empty.)
	if tree.Root != nil {
		bounded := tree.Root.Bounding != nil
		if bounded {
			vk.Class("kd-bounded=root-bounding")
		}
		hull := func(q kdtree.Point) bool {
			for d := range q {
				lo, hi := math.Inf(1), math.Inf(-1)
				for _, p := range all {
					lo, hi = math.Min(lo, p[d]), math.Max(hi, p[d])
				}
				if q[d] < lo || q[d] > hi {
					return false
				}
			}
			return true
		}
		for _, p := range all {
			if !tree.Contains(p) {
				return vk.Failf("tree-contains-stored", "Contains(%v) is false for a stored point", p)
			}
		}
		for _, pr := range c.Probes {
			q := halfPoint(pr)
			want := !bounded || hull(q)
			if got := tree.Contains(q); got != want {
				return vk.Failf("tree-contains", "Contains(%v)=%v want %v (root bounding present: %v)", q, got, want, bounded)
			}
		}
	}
	return late
}

func drawKDBox(t *rapid.T) kdBoxCase {
	var c kdBoxCase
	c.Dim = rapid.IntRange(1, 3).Draw(t, "dim")
	side := rapid.IntRange(2, 5).Draw(t, "side")
	pt := func(label string) []int {
		p := make([]int, c.Dim)
		for i := range p {
			p[i] = rapid.IntRange(0, side-1).Draw(t, label)
		}
		return p
	}
	n := vk.Dim(t, "n", 0, 40, 3, 8)
	for i := 0; i < n; i++ {
		c.Pts = append(c.Pts, pt("p"))
	}
	ni := rapid.IntRange(0, 8).Draw(t, "nins")
	if n == 0 && ni == 0 {
		ni = 1
	}
	for i := 0; i < ni; i++ {
		c.Ins = append(c.Ins, pt("ins"))
	}
	c.Bounding = rapid.Bool().Draw(t, "bounding")
	c.InsBound = rapid.Bool().Draw(t, "insbound")
	half := rapid.IntRange(-1, 2*side-1)
	nb := rapid.IntRange(1, 6).Draw(t, "nbox")
	for i := 0; i < nb; i++ {
		lo, hi := make([]int, c.Dim), make([]int, c.Dim)
		for d := range lo {
			a, b := half.Draw(t, "face"), half.Draw(t, "face")
			if rapid.IntRange(0, 3).Draw(t, "onlattice") != 0 {
				a, b = a&^1, b&^1 // faces on lattice coordinates
			}
			lo[d], hi[d] = min(a, b), max(a, b)
		}
		c.Boxes = append(c.Boxes, [2][]int{lo, hi})
	}
	np := rapid.IntRange(1, 4).Draw(t, "nprobe")
	for i := 0; i < np; i++ {
		p := make([]int, c.Dim)
		for d := range p {
			p[d] = rapid.IntRange(-2, 2*side).Draw(t, "probe")
		}
		c.Probes = append(c.Probes, p)
	}
	c.Stop = rapid.IntRange(0, 50).Draw(t, "stop")
	return c
}

func TestKDBounded(t *testing.T) {
	vk.Run(t, "kd-bounded", vk.Opts{Quick: 16000, Thorough: 300000}, drawKDBox, checkKDBox)
}

// ---- empty trees ---------------------------------------------------------------

type emptyCase struct {
	VP       bool // vp-tree instead of kd-tree
	Contains bool // kd-tree: the case examines Contains and the first Insert instead of NearestSet
	NilSet   bool // build from a nil collection instead of an empty one
	Bounding bool // kd-tree: bounding requested
	Effort   int  // vp-tree
	Dim      int
	K        int
	R        vk.F
}

// sentinelOnly reports whether the heap holds exactly the keeper's sentinel.
func sentinelOnly(n int, isNil func(i int) bool) bool { return n == 1 && isNil(0) }

// checkEmptyKD: a linear scan over the empty set finds nothing, visits nothing
// and has no bounds.
func checkEmptyKD(c emptyCase) *vk.Failure {
	vk.Sample("kd-empty", c)
	vk.NonTrivial("kd-empty", c.Contains, c.NilSet, c.Bounding, c.Dim, c.K, float64(c.R))
	mk := func() *kdtree.Tree {
		if c.NilSet {
			return kdtree.New(kdtree.Points(nil), c.Bounding)
		}
		return kdtree.New(kdtree.Points{}, c.Bounding)
	}
	tree := mk()
	q := make(kdtree.Point, c.Dim)
	for i := range q {
		q[i] = float64(i + 1)
	}
	if tree.Len() != 0 {
		return vk.Failf("len", "Len=%d on an empty tree", tree.Len())
	}
	if got, d := tree.Nearest(q); got != nil || !math.IsInf(d, 1) {
		return vk.Failf("nearest", "Nearest on an empty tree returned %v, %v", got, d)
	}
	calls := 0
	fn := func(kdtree.Comparable, *kdtree.Bounding, int) bool { calls++; return false }
	if tree.Do(fn) || tree.DoBounded(nil, fn) || tree.DoBounded(&kdtree.Bounding{Min: q, Max: q}, fn) || calls != 0 {
		return vk.Failf("do", "Do/DoBounded on an empty tree visited %d values or reported an interruption", calls)
	}
	if !c.Contains {
		// "If a sentinel ComparableDist with a nil Comparable is used by the Keeper to
		// mark the maximum distance, NearestSet will remove it before returning."
		nk := kdtree.NewNKeeper(c.K)
		dk := kdtree.NewDistKeeper(float64(c.R))
		if f := vk.MustReturn("nearestset-fault", func() { tree.NearestSet(nk, q); tree.NearestSet(dk, q) }); f != nil {
			return f
		}
		var late *vk.Failure
		for _, h := range []kdtree.Heap{nk.Heap, dk.Heap} {
			if len(h) == 0 {
				continue
			}
			f := vk.Failf("nearestset-nonempty", "keeper after NearestSet(NKeeper(%d) / DistKeeper(%v)) on an empty tree: %+v", c.K, float64(c.R), h)
			if !sentinelOnly(len(h), func(i int) bool { return h[i].Comparable == nil }) {
				return f
			}
			if late == nil {
				f.Key = "nearestset-sentinel-left"
				late = f
			}
		}
		return late
	}
	// the first insertion makes an ordinary one-element tree
	ins := mk()
	p := append(kdtree.Point(nil), q...)
	ins.Insert(p, c.Bounding)
	got, d := ins.Nearest(q)
	if ins.Len() != 1 || got == nil || d != 0 || !ins.Contains(p) {
		return vk.Failf("insert-into-empty", "after one Insert: Len=%d Nearest=%v,%v Contains=%v", ins.Len(), got, d, ins.Contains(p))
	}
	if c.Bounding && (ins.Root.Bounding == nil || ins.Contains(kdtree.Point(make([]float64, c.Dim)))) {
		return vk.Failf("insert-into-empty-bounding", "Insert(p, true) into an empty tree must construct the bounding of p")
	}
	// "If no bounding has been constructed Contains returns true."
	r := vk.Call(func() {
		if !tree.Contains(q) {
			panic("false")
		}
	})
	switch {
	case r.Outcome == vk.Returned:
		return nil
	case r.Outcome == vk.RuntimeFault && strings.Contains(r.Text, "nil pointer"):
		return vk.Failf("contains-nil-deref", "Contains on an empty tree (no bounding constructed, documented result true): %s", r.Text)
	}
	return vk.Failf("contains", "Contains on an empty tree (no bounding constructed, documented result true): %v %s", r.Outcome, r.Text)
}

func checkEmptyVP(c emptyCase) *vk.Failure {
	vk.Sample("vp-empty", c)
	vk.NonTrivial("vp-empty", c.NilSet, c.Effort, c.Dim, c.K, float64(c.R))
	var set []vptree.Comparable
	if !c.NilSet {
		set = []vptree.Comparable{}
	}
	tree, err := vptree.New(set, c.Effort, rand.NewPCG(1, uint64(c.K)))
	if err != nil || tree == nil {
		return vk.Failf("new", "New on an empty set: %v", err)
	}
	q := make(vptree.Point, c.Dim)
	for i := range q {
		q[i] = float64(i + 1)
	}
	if tree.Len() != 0 {
		return vk.Failf("len", "Len=%d on an empty tree", tree.Len())
	}
	if got, d := tree.Nearest(q); got != nil || !math.IsInf(d, 1) {
		return vk.Failf("nearest", "Nearest on an empty tree returned %v, %v", got, d)
	}
	calls := 0
	if tree.Do(func(vptree.Comparable, int) bool { calls++; return false }) || calls != 0 {
		return vk.Failf("do", "Do on an empty tree visited %d values or reported an interruption", calls)
	}
	nk := vptree.NewNKeeper(c.K)
	dk := vptree.NewDistKeeper(float64(c.R))
	if f := vk.MustReturn("nearestset-fault", func() { tree.NearestSet(nk, q); tree.NearestSet(dk, q) }); f != nil {
		return f
	}
	var late *vk.Failure
	for _, h := range []vptree.Heap{nk.Heap, dk.Heap} {
		if len(h) == 0 {
			continue
		}
		f := vk.Failf("nearestset-nonempty", "keeper after NearestSet(NKeeper(%d) / DistKeeper(%v)) on an empty tree: %+v", c.K, float64(c.R), h)
		if !sentinelOnly(len(h), func(i int) bool { return h[i].Comparable == nil }) {
			return f
		}
		if late == nil {
			f.Key = "nearestset-sentinel-left"
			late = f
		}
	}
	return late
}

func TestEmptyTrees(t *testing.T) {
	var kd, vp []emptyCase
	for _, nilSet := range []bool{false, true} {
		for dim := 1; dim <= 3; dim++ {
			for _, bounding := range []bool{false, true} {
				kd = append(kd, emptyCase{Contains: true, NilSet: nilSet, Bounding: bounding, Dim: dim, K: 1})
			}
			for _, k := range []int{1, 2, 5} {
				for _, r := range []float64{0, 1, math.Inf(1)} {
					for _, bounding := range []bool{false, true} {
						kd = append(kd, emptyCase{NilSet: nilSet, Bounding: bounding, Dim: dim, K: k, R: vk.F(r)})
					}
					vp = append(vp, emptyCase{VP: true, NilSet: nilSet, Effort: k - 1, Dim: dim, K: k, R: vk.F(r)})
				}
			}
		}
	}
	vk.Enumerate(t, "kd-empty", len(kd), func(i int) emptyCase { return kd[i] }, checkEmptyKD)
	vk.Enumerate(t, "vp-empty", len(vp), func(i int) emptyCase { return vp[i] }, checkEmptyVP)
}

// ---- combin: arguments outside the domain of the index maps -----------------------

// combRangeCase: a valid combination of (N,K) whose last element was moved to
// N or beyond, or whose first element was made negative: Comb stays strictly
// increasing and of length K but is not a subset of [0,N).
type combRangeCase struct {
	N, K int
	Comb []int
}

// checkCombRange: "CombinationIndex panics if comb is not a sorted combination
// of the first [0,n) integers". An accepted out-of-range element also makes the
// object-to-index map non-injective (CombinationIndex([5],5,1) = 4 =
// CombinationIndex([4],5,1)).
func checkCombRange(c combRangeCase) *vk.Failure {
	vk.Sample("combin-index-range", c)
	vk.NonTrivial("combin-index-range", c.N, c.K, fmt.Sprint(c.Comb))
	var idx int
	r := vk.Call(func() { idx = combin.CombinationIndex(c.Comb, c.N, c.K) })
	switch r.Outcome {
	case vk.PackagePanic:
		return nil
	case vk.Returned:
		return vk.Failf("combination-index-out-of-range-accepted", "CombinationIndex(%v, %d, %d) = %d, documented to panic (not a combination of [0,%d))", c.Comb, c.N, c.K, idx, c.N)
	}
	return vk.Failf("combination-index-out-of-range", "CombinationIndex(%v, %d, %d): %v %s", c.Comb, c.N, c.K, r.Outcome, r.Text)
}

func combRangeCases(maxN int) []combRangeCase {
	var out []combRangeCase
	for n := 1; n <= maxN; n++ {
		for k := 1; k <= n; k++ {
			for _, comb := range refCombinations(n, k) {
				// the last element pushed beyond n-1, the first below 0
				for _, v := range []int{n, n + 1, n + 7} {
					bad := append([]int(nil), comb...)
					bad[k-1] = v
					out = append(out, combRangeCase{n, k, bad})
				}
				for _, v := range []int{-1, -2, -n - 3} {
					bad := append([]int(nil), comb...)
					bad[0] = v
					out = append(out, combRangeCase{n, k, bad})
				}
			}
		}
	}
	return out
}

// dimsBadCase: a dims vector with one entry replaced by a non-positive value.
type dimsBadCase struct {
	Dims []int
	Idx  int
}

// checkDimsBad. SubFor: "SubFor panics if idx < 0 or if idx is greater than or
// equal to the product of the dimensions" (with a zero dimension the product is
// 0, so every idx is out of range; the prologue has a "non-positive dimension"
// panic for this). IdxFor: "panics if ... any of the entries of dim are
// non-positive".
func checkDimsBad(c dimsBadCase) *vk.Failure {
	vk.Sample("combin-dims-bad", c)
	vk.NonTrivial("combin-dims-bad", fmt.Sprint(c.Dims), c.Idx)
	zero, neg := false, false
	for _, d := range c.Dims {
		zero = zero || d == 0
		neg = neg || d < 0
	}
	sub := make([]int, len(c.Dims))
	if f := vk.MustPanic("idxfor-nonpositive-dim", func() { combin.IdxFor(sub, c.Dims) }); f != nil {
		f.Msg += fmt.Sprintf(" (IdxFor(%v, %v))", sub, c.Dims)
		return f
	}
	var got []int
	r := vk.Call(func() { got = combin.SubFor(nil, c.Idx, c.Dims) })
	switch {
	case r.Outcome == vk.PackagePanic:
		return nil
	case r.Outcome == vk.RuntimeFault && zero && !neg && strings.Contains(r.Text, "divide by zero"):
		return vk.Failf("subfor-zero-dim-divide-by-zero", "SubFor(nil, %d, %v): %s instead of the package's non-positive dimension / index too large panic", c.Idx, c.Dims, r.Text)
	case r.Outcome == vk.Returned:
		return vk.Failf("subfor-nonpositive-dim", "SubFor(nil, %d, %v) = %v, documented to panic (idx >= product of the dimensions)", c.Idx, c.Dims, got)
	}
	return vk.Failf("subfor-nonpositive-dim", "SubFor(nil, %d, %v): %v %s", c.Idx, c.Dims, r.Outcome, r.Text)
}

func dimsBadCases() []dimsBadCase {
	var out []dimsBadCase
	for _, dims := range allDims(12, 3) {
		for j := range dims {
			for _, v := range []int{0, -1, -3} {
				bad := append([]int(nil), dims...)
				bad[j] = v
				for _, idx := range []int{0, 1, 5} {
					out = append(out, dimsBadCase{bad, idx})
				}
			}
		}
	}
	return out
}

func TestCombinDomain(t *testing.T) {
	cr := combRangeCases(vk.Pick(7, 9))
	vk.Enumerate(t, "combin-index-range", len(cr), func(i int) combRangeCase { return cr[i] }, checkCombRange)
	db := dimsBadCases()
	vk.Enumerate(t, "combin-dims-bad", len(db), func(i int) dimsBadCase { return db[i] }, checkDimsBad)
}

// ---- Hilbert constructors: every accepted order has a representable Len ---------

type hilbertLimitCase struct{ Dim, Order int }

// checkHilbertLimit: "NewHilbertND returns ErrOverflow (wrapped) if the order
// would cause Len and Pos to overflow", ErrUnderflow "when the power is less
// than 1". An accepted order therefore has Len = 2^(dim*order) as a positive int
// and round-trips its last position inside the grid.
func checkHilbertLimit(c hilbertLimitCase) *vk.Failure {
	vk.Sample("hilbert-limits", c)
	vk.NonTrivial("hilbert-limits", c.Dim, c.Order)
	h, err := newHilbert(c.Dim, c.Order)
	bits := c.Dim * c.Order
	intBits := 63
	if math.MaxInt == math.MaxInt32 {
		intBits = 31
	}
	switch {
	case c.Order < 1:
		if !errors.Is(err, curve.ErrUnderflow) {
			return vk.Failf("underflow-error", "dim=%d order=%d: error %v, want ErrUnderflow", c.Dim, c.Order, err)
		}
		return nil
	case bits > intBits:
		// the largest position 2^bits - 1 does not fit in an int
		if !errors.Is(err, curve.ErrOverflow) {
			return vk.Failf("overflow-error", "dim=%d order=%d: error %v, want ErrOverflow (positions need %d bits)", c.Dim, c.Order, err, bits)
		}
		return nil
	}
	if err != nil {
		if bits == intBits && errors.Is(err, curve.ErrOverflow) {
			return nil // Len = 2^bits overflows: the documented reason to refuse
		}
		return vk.Failf("constructor-error", "dim=%d order=%d (Len = 2^%d fits): %v", c.Dim, c.Order, bits, err)
	}
	var late *vk.Failure
	if bits == intBits {
		// accepted, but Len = 2^bits is not representable
		late = vk.Failf("accepted-order-len-overflows", "NewHilbert%dD(%d) returned no error, Len() = %d (2^%d overflows int)", c.Dim, c.Order, h.Len(), bits)
	} else if h.Len() != 1<<bits {
		return vk.Failf("len", "dim=%d order=%d Len=%d want 2^%d", c.Dim, c.Order, h.Len(), bits)
	}
	// the last position of the curve round-trips
	last := math.MaxInt
	if bits < intBits {
		last = 1<<bits - 1
	}
	v := h.Coord(nil, last)
	side := 1 << c.Order
	for _, x := range v {
		if len(v) != c.Dim || x < 0 || x >= side {
			return vk.Failf("last-coord-range", "dim=%d order=%d Coord(%d)=%v", c.Dim, c.Order, last, v)
		}
	}
	if back := h.Pos(append([]int(nil), v...)); back != last {
		return vk.Failf("last-roundtrip", "dim=%d order=%d Pos(Coord(%d)=%v)=%d", c.Dim, c.Order, last, v, back)
	}
	return late
}

func TestHilbertLimits(t *testing.T) {
	var cases []hilbertLimitCase
	for dim := 2; dim <= 4; dim++ {
		for o := -2; o <= 70; o++ {
			cases = append(cases, hilbertLimitCase{dim, o})
		}
	}
	vk.Enumerate(t, "hilbert-limits", len(cases), func(i int) hilbertLimitCase { return cases[i] }, checkHilbertLimit)
}
