package c20

import (
	"fmt"
	"math"
	"math/rand/v2"
	"sort"
	"testing"

	"gonum.org/v1/gonum/spatial/barneshut"
	"gonum.org/v1/gonum/spatial/curve"
	"gonum.org/v1/gonum/spatial/kdtree"
	"gonum.org/v1/gonum/spatial/r2"
	"gonum.org/v1/gonum/spatial/r3"
	"gonum.org/v1/gonum/spatial/vptree"
	"pgregory.net/rapid"
	"verifharness/vk"
)

// ---- Hilbert curves ---------------------------------------------------------

type hilbertCase struct {
	Dim, Order int
	Pos        []int64 // nil: enumerate the whole curve
}

type hcurve interface {
	Coord(dst []int, pos int) []int
	Pos(v []int) int
	Dims() []int
	Len() int
}

func newHilbert(dim, order int) (hcurve, error) {
	switch dim {
	case 2:
		return curve.NewHilbert2D(order)
	case 3:
		return curve.NewHilbert3D(order)
	default:
		return curve.NewHilbert4D(order)
	}
}

func checkHilbert(c hilbertCase) *vk.Failure {
	h, err := newHilbert(c.Dim, c.Order)
	if err != nil {
		return vk.Failf("hilbert-constructor", "dim=%d order=%d: %v", c.Dim, c.Order, err)
	}
	vk.Sample("hilbert", hilbertCase{c.Dim, c.Order, nil})
	dims := h.Dims()
	if len(dims) != c.Dim {
		return vk.Failf("hilbert-dims", "dim=%d order=%d Dims=%v", c.Dim, c.Order, dims)
	}
	side := 1 << c.Order
	for _, d := range dims {
		if d != side {
			return vk.Failf("hilbert-dims", "dim=%d order=%d Dims=%v want side %d", c.Dim, c.Order, dims, side)
		}
	}
	if c.Dim*c.Order < 62 {
		want := 1 << (c.Dim * c.Order)
		if h.Len() != want {
			return vk.Failf("hilbert-len", "dim=%d order=%d Len=%d want %d", c.Dim, c.Order, h.Len(), want)
		}
	}
	inRange := func(v []int) bool {
		for _, x := range v {
			if x < 0 || x >= side {
				return false
			}
		}
		return true
	}
	one := func(p int, dst []int) ([]int, *vk.Failure) {
		v := h.Coord(dst, p)
		if len(v) != c.Dim || !inRange(v) {
			return nil, vk.Failf("hilbert-coord-range", "dim=%d order=%d Coord(%d)=%v", c.Dim, c.Order, p, v)
		}
		if dst != nil && &dst[0] != &v[0] {
			return nil, vk.Failf("hilbert-coord-dst", "dim=%d order=%d Coord did not use the provided dst", c.Dim, c.Order)
		}
		cp := append([]int(nil), v...)
		if back := h.Pos(cp); back != p {
			return nil, vk.Failf("hilbert-roundtrip", "dim=%d order=%d Pos(Coord(%d)=%v)=%d", c.Dim, c.Order, p, v, back)
		}
		return v, nil
	}
	adjacent := func(a, b []int) bool {
		diff := 0
		for i := range a {
			d := a[i] - b[i]
			if d < 0 {
				d = -d
			}
			diff += d
		}
		return diff == 1
	}
	if c.Pos == nil {
		// exhaustive: bijection onto the grid, unit-step adjacency, origin at 0
		n := h.Len()
		seen := make([]bool, n)
		var prev []int
		dst := make([]int, c.Dim)
		for p := 0; p < n; p++ {
			var v []int
			var f *vk.Failure
			if p%2 == 0 {
				v, f = one(p, dst)
			} else {
				v, f = one(p, nil)
			}
			if f != nil {
				return f
			}
			idx := 0
			for _, x := range v {
				idx = idx*side + x
			}
			if seen[idx] {
				return vk.Failf("hilbert-not-injective", "dim=%d order=%d position %d maps to %v, already used", c.Dim, c.Order, p, v)
			}
			seen[idx] = true
			if p == 0 {
				for _, x := range v {
					if x != 0 {
						return vk.Failf("hilbert-origin", "dim=%d order=%d Coord(0)=%v", c.Dim, c.Order, v)
					}
				}
			} else if !adjacent(prev, v) {
				return vk.Failf("hilbert-adjacency", "dim=%d order=%d positions %d,%d map to %v,%v", c.Dim, c.Order, p-1, p, prev, v)
			}
			prev = append(prev[:0], v...)
			vk.NonTrivial("hilbert", c.Dim, c.Order, p)
		}
		return nil
	}
	for _, u := range c.Pos {
		p := int(u)
		v, f := one(p, nil)
		if f != nil {
			return f
		}
		vk.NonTrivial("hilbert-sampled", c.Dim, c.Order, p)
		// p+1 is a position of the curve (Len itself is not representable for
		// the 3-D curve of order 21, whose last position is MaxInt64)
		if bits := c.Dim * c.Order; (bits < 63 && p+1 < 1<<bits) || (bits >= 63 && p < math.MaxInt64) {
			w, f := one(p+1, nil)
			if f != nil {
				return f
			}
			if !adjacent(v, w) {
				return vk.Failf("hilbert-adjacency", "dim=%d order=%d positions %d,%d map to %v,%v", c.Dim, c.Order, p, p+1, v, w)
			}
		}
	}
	return nil
}

func TestHilbert(t *testing.T) {
	var cases []hilbertCase
	max := map[int]int{2: vk.Pick(6, 8), 3: vk.Pick(4, 5), 4: vk.Pick(3, 4)}
	for dim := 2; dim <= 4; dim++ {
		for o := 1; o <= max[dim]; o++ {
			cases = append(cases, hilbertCase{dim, o, nil})
		}
	}
	vk.Enumerate(t, "hilbert", len(cases), func(i int) hilbertCase { return cases[i] }, checkHilbert)
	// sampled positions at every legal order up to the largest the constructors accept
	vk.Run(t, "hilbert-sampled", vk.Opts{Quick: 4000, Thorough: 100000, NoCrumb: true}, func(t *rapid.T) hilbertCase {
		dim := rapid.IntRange(2, 4).Draw(t, "dim")
		// the largest orders the constructors accept (3-D order 21: positions fill
		// the whole non-negative int64 range)
		maxOrder := map[int]int{2: 31, 3: 21, 4: 15}[dim]
		order := rapid.IntRange(1, maxOrder).Draw(t, "order")
		bits := uint(dim * order)
		n := rapid.IntRange(1, 8).Draw(t, "npos")
		pos := make([]int64, n)
		for i := range pos {
			u := rapid.Uint64().Draw(t, "pos")
			if bits < 64 {
				u &= (1 << bits) - 1
			}
			u &= math.MaxInt64
			pos[i] = int64(u)
		}
		return hilbertCase{dim, order, pos}
	}, checkHilbert)
	// constructor errors
	for _, c := range []struct{ dim, order int }{{2, 0}, {3, 0}, {4, 0}, {2, -1}, {2, 32}, {3, 22}, {4, 16}, {2, 64}} {
		if _, err := newHilbert(c.dim, c.order); err == nil {
			t.Errorf("VK-VIOLATION hilbert constructor accepted dim=%d order=%d", c.dim, c.order)
		}
	}
}

// ---- nearest neighbour indexes -----------------------------------------------

type nnCase struct {
	Dim      int
	Pts      [][]vk.F // initial bulk points
	Ins      [][]vk.F // inserted afterwards (kd-tree only)
	Bounding bool
	InsBound bool
	Queries  [][]vk.F
	K        []int
	Radius   []vk.F
	Effort   int
	Seed     uint64
	L1       bool // vp-tree only: exact Manhattan metric (user Comparable) instead of vptree.Point
}

// l1Point is a user-defined vptree.Comparable with the Manhattan metric. On the
// generated coordinates (multiples of 1/64 of small magnitude) every distance
// and every sum in the triangle inequality is exact, so ties are exact.
type l1Point []float64

func (p l1Point) Distance(c vptree.Comparable) float64 {
	q := c.(l1Point)
	var s float64
	for i := range p {
		s += math.Abs(p[i] - q[i])
	}
	return s
}

func toPt(v []vk.F) []float64 { return vk.Fs(v) }

func sqDist(a, b []float64) float64 {
	var s float64
	for i := range a {
		d := a[i] - b[i]
		s += d * d
	}
	return s
}

func sortedCopy(x []float64) []float64 {
	y := append([]float64(nil), x...)
	sort.Float64s(y)
	return y
}

func eqFloats(a, b []float64) bool {
	if len(a) != len(b) {
		return false
	}
	for i := range a {
		if a[i] != b[i] {
			return false
		}
	}
	return true
}

func nnNonTrivial(c nnCase, tag string) {
	// duplicate points, inserts after bulk build, or dimension >= 3
	dup := false
	seen := map[string]bool{}
	for _, p := range c.Pts {
		k := fmt.Sprint(p)
		if seen[k] {
			dup = true
		}
		seen[k] = true
	}
	if dup || (len(c.Ins) > 0 && len(c.Pts) > 0) || c.Dim >= 3 {
		vk.NonTrivial(tag, c.Dim, len(c.Pts), len(c.Ins), c.Bounding, c.InsBound, c.Seed, fmt.Sprint(c.Queries), dup)
	}
}

func checkKD(c nnCase) *vk.Failure {
	vk.Sample("kdtree", c)
	nnNonTrivial(c, "kd")
	var all [][]float64
	pts := make(kdtree.Points, len(c.Pts))
	for i, p := range c.Pts {
		pts[i] = kdtree.Point(toPt(p))
		all = append(all, toPt(p))
	}
	tree := kdtree.New(pts, c.Bounding)
	for _, p := range c.Ins {
		tree.Insert(kdtree.Point(toPt(p)), c.InsBound)
		all = append(all, toPt(p))
	}
	if tree.Len() != len(all) {
		return vk.Failf("kd-len", "Len=%d want %d", tree.Len(), len(all))
	}
	// structure: splitting-plane ordering, bounding boxes contain subtrees, Do visits everything once
	var walk func(n *kdtree.Node) ([][]float64, *vk.Failure)
	walk = func(n *kdtree.Node) ([][]float64, *vk.Failure) {
		if n == nil {
			return nil, nil
		}
		l, f := walk(n.Left)
		if f != nil {
			return nil, f
		}
		r, f := walk(n.Right)
		if f != nil {
			return nil, f
		}
		p := []float64(n.Point.(kdtree.Point))
		d := int(n.Plane)
		for _, q := range l {
			if q[d] > p[d] {
				return nil, vk.Failf("kd-plane-order", "left subtree point %v beyond node %v on plane %d", q, p, d)
			}
		}
		for _, q := range r {
			if q[d] < p[d] {
				return nil, vk.Failf("kd-plane-order", "right subtree point %v before node %v on plane %d", q, p, d)
			}
		}
		sub := append(append(l, r...), p)
		if n.Bounding != nil {
			for _, q := range sub {
				if !n.Bounding.Contains(kdtree.Point(q)) {
					return nil, vk.Failf("kd-bounding", "bounding box [%v,%v] of node %v does not contain subtree point %v", n.Bounding.Min, n.Bounding.Max, p, q)
				}
			}
		}
		return sub, nil
	}
	sub, f := walk(tree.Root)
	if f != nil {
		return f
	}
	if len(sub) != len(all) {
		return vk.Failf("kd-node-count", "tree holds %d points, want %d", len(sub), len(all))
	}
	visited := 0
	tree.Do(func(kdtree.Comparable, *kdtree.Bounding, int) bool { visited++; return false })
	if visited != len(all) {
		return vk.Failf("kd-do", "Do visited %d want %d", visited, len(all))
	}
	multiset := map[string]int{}
	for _, p := range all {
		multiset[fmt.Sprint(p)]++
	}
	for qi, qv := range c.Queries {
		q := toPt(qv)
		dists := make([]float64, len(all))
		for i, p := range all {
			dists[i] = sqDist(p, q)
		}
		sd := sortedCopy(dists)
		got, d := tree.Nearest(kdtree.Point(q))
		if len(all) == 0 {
			if got != nil {
				return vk.Failf("kd-nearest-empty", "Nearest on empty tree returned %v", got)
			}
			continue
		}
		if got == nil || d != sd[0] || sqDist([]float64(got.(kdtree.Point)), q) != d || multiset[fmt.Sprint([]float64(got.(kdtree.Point)))] == 0 {
			return vk.Failf("kd-nearest", "query %v: got %v dist %v, brute-force minimum %v", q, got, d, sd[0])
		}
		k := c.K[qi%len(c.K)]
		nk := kdtree.NewNKeeper(k)
		tree.NearestSet(nk, kdtree.Point(q))
		var gd []float64
		cnt := map[string]int{}
		for _, cd := range nk.Heap {
			if cd.Comparable == nil {
				return vk.Failf("kd-nkeeper-sentinel", "sentinel left in heap for query %v k=%d", q, k)
			}
			p := []float64(cd.Comparable.(kdtree.Point))
			if sqDist(p, q) != cd.Dist {
				return vk.Failf("kd-nkeeper-dist", "reported distance %v for %v, query %v", cd.Dist, p, q)
			}
			cnt[fmt.Sprint(p)]++
			if cnt[fmt.Sprint(p)] > multiset[fmt.Sprint(p)] {
				return vk.Failf("kd-nkeeper-multiplicity", "point %v returned more often than stored, query %v k=%d", p, q, k)
			}
			gd = append(gd, cd.Dist)
		}
		want := sd[:min(k, len(sd))]
		if !eqFloats(sortedCopy(gd), want) {
			return vk.Failf("kd-nkeeper", "query %v k=%d: distances %v, brute force %v", q, k, sortedCopy(gd), want)
		}
		r := float64(c.Radius[qi%len(c.Radius)])
		if r < 0 {
			// negative code: use the exact distance to a stored point (tie on the boundary)
			r = sd[int(-r)%len(sd)]
		}
		dk := kdtree.NewDistKeeper(r)
		tree.NearestSet(dk, kdtree.Point(q))
		gd = gd[:0]
		for _, cd := range dk.Heap {
			if cd.Comparable == nil {
				return vk.Failf("kd-distkeeper-sentinel", "sentinel left in heap for query %v r=%v", q, r)
			}
			gd = append(gd, cd.Dist)
		}
		var wr []float64
		for _, v := range sd {
			if v <= r {
				wr = append(wr, v)
			}
		}
		if !eqFloats(sortedCopy(gd), wr) {
			return vk.Failf("kd-distkeeper", "query %v r=%v: distances %v, brute force %v", q, r, sortedCopy(gd), wr)
		}
	}
	return nil
}

func checkVP(c nnCase) *vk.Failure {
	vk.Sample("vptree", c)
	nnNonTrivial(c, "vp")
	if c.L1 {
		vk.Class("vp-metric=L1-exact")
	} else {
		vk.Class("vp-metric=euclid")
	}
	mk := func(p []float64) vptree.Comparable {
		if c.L1 {
			return l1Point(p)
		}
		return vptree.Point(p)
	}
	coords := func(cp vptree.Comparable) []float64 {
		if c.L1 {
			return []float64(cp.(l1Point))
		}
		return []float64(cp.(vptree.Point))
	}
	var all [][]float64
	pts := make([]vptree.Comparable, len(c.Pts))
	for i, p := range c.Pts {
		pts[i] = mk(toPt(p))
		all = append(all, toPt(p))
	}
	tree, err := vptree.New(pts, c.Effort, rand.NewPCG(c.Seed, c.Seed^0x9e3779b97f4a7c15))
	if err != nil {
		return vk.Failf("vp-new-error", "New returned %v for finite points", err)
	}
	if tree.Len() != len(all) {
		return vk.Failf("vp-len", "Len=%d want %d", tree.Len(), len(all))
	}
	visited := 0
	tree.Do(func(vptree.Comparable, int) bool { visited++; return false })
	if visited != len(all) {
		return vk.Failf("vp-do", "Do visited %d want %d", visited, len(all))
	}
	multiset := map[string]int{}
	for _, p := range all {
		multiset[fmt.Sprint(p)]++
	}
	dist := func(a, b []float64) float64 { return mk(a).Distance(mk(b)) }
	for qi, qv := range c.Queries {
		q := toPt(qv)
		dists := make([]float64, len(all))
		var dmax float64
		for i, p := range all {
			dists[i] = dist(p, q)
			dmax = math.Max(dmax, dists[i])
		}
		sd := sortedCopy(dists)
		// Pruning uses the triangle inequality on computed distances. With the
		// exact L1 metric it holds exactly and the result must equal the scan.
		// With Euclidean distances (square roots) it holds only to rounding, so
		// a point whose distance ties with the k-th distance / the radius to
		// within tau may be exchanged for its tie partner or left out.
		tau := 0.0
		if !c.L1 {
			tau = 64 * vk.Eps * (2*dmax + 1)
		}
		got, d := tree.Nearest(mk(q))
		if len(all) == 0 {
			if got != nil {
				return vk.Failf("vp-nearest-empty", "Nearest on empty tree returned %v", got)
			}
			continue
		}
		if got == nil || math.Abs(d-sd[0]) > tau || dist(coords(got), q) != d || multiset[fmt.Sprint(coords(got))] == 0 {
			return vk.Failf("vp-nearest", "query %v: got %v dist %v, brute-force minimum %v", q, got, d, sd[0])
		}
		k := c.K[qi%len(c.K)]
		nk := vptree.NewNKeeper(k)
		tree.NearestSet(nk, mk(q))
		var gd []float64
		cnt := map[string]int{}
		for _, cd := range nk.Heap {
			if cd.Comparable == nil {
				return vk.Failf("vp-nkeeper-sentinel", "sentinel left in heap for query %v k=%d", q, k)
			}
			p := coords(cd.Comparable)
			if dist(p, q) != cd.Dist {
				return vk.Failf("vp-nkeeper-dist", "reported distance %v for %v, query %v", cd.Dist, p, q)
			}
			cnt[fmt.Sprint(p)]++
			if cnt[fmt.Sprint(p)] > multiset[fmt.Sprint(p)] {
				return vk.Failf("vp-nkeeper-multiplicity", "point %v returned more often than stored", p)
			}
			gd = append(gd, cd.Dist)
		}
		want := sd[:min(k, len(sd))]
		gs := sortedCopy(gd)
		bad := len(gs) != len(want)
		for i := 0; !bad && i < len(gs); i++ {
			bad = math.Abs(gs[i]-want[i]) > tau
		}
		if bad {
			return vk.Failf("vp-nkeeper", "query %v k=%d: distances %v, brute force %v (tie slack %g)", q, k, gs, want, tau)
		}
		r := float64(c.Radius[qi%len(c.Radius)])
		if r < 0 {
			r = sd[int(-r)%len(sd)]
		} else if !c.L1 {
			r = math.Sqrt(r)
		}
		dk := vptree.NewDistKeeper(r)
		tree.NearestSet(dk, mk(q))
		gd = gd[:0]
		for _, cd := range dk.Heap {
			if cd.Comparable == nil {
				return vk.Failf("vp-distkeeper-sentinel", "sentinel left in heap for query %v r=%v", q, r)
			}
			if cd.Dist > r {
				return vk.Failf("vp-distkeeper-outside", "query %v r=%v: returned distance %v", q, r, cd.Dist)
			}
			gd = append(gd, cd.Dist)
		}
		// every point clearly inside must be present; points within tau of the
		// boundary are optional (none when tau == 0)
		var must, may []float64
		for _, v := range sd {
			switch {
			case v < r-tau || (tau == 0 && v <= r):
				must = append(must, v)
			case v <= r:
				may = append(may, v)
			}
		}
		gs = sortedCopy(gd)
		if len(gs) < len(must) || len(gs) > len(must)+len(may) || !eqFloats(gs[:len(must)], must) {
			return vk.Failf("vp-distkeeper", "query %v r=%v: distances %v, brute force inside %v boundary %v", q, r, gs, must, may)
		}
	}
	return nil
}

func drawNN(t *rapid.T, maxN int, inserts bool) nnCase { return drawNNTies(t, maxN, inserts, false) }

// drawNNTies with ties set biases the case towards exact distance ties across
// splitting planes: one or two dimensions, a tiny lattice (many duplicates and
// points sharing coordinates), lattice queries and radii equal to exact distances.
func drawNNTies(t *rapid.T, maxN int, inserts, ties bool) nnCase {
	var c nnCase
	c.Dim = rapid.IntRange(1, 6).Draw(t, "dim")
	lattice := rapid.Bool().Draw(t, "lattice")
	side := rapid.IntRange(2, 5).Draw(t, "side")
	if ties {
		c.Dim = rapid.IntRange(1, 2).Draw(t, "tdim")
		lattice = true
		side = rapid.IntRange(2, 4).Draw(t, "tside")
	}
	coord := func(label string) vk.F {
		if lattice {
			return vk.F(rapid.IntRange(0, side-1).Draw(t, label))
		}
		return vk.F(float64(rapid.IntRange(-4096, 4096).Draw(t, label)) / 64)
	}
	pt := func(label string) []vk.F {
		p := make([]vk.F, c.Dim)
		for i := range p {
			p[i] = coord(label)
		}
		return p
	}
	n := vk.Dim(t, "n", 0, maxN, 2, 8, 100)
	for i := 0; i < n; i++ {
		c.Pts = append(c.Pts, pt("p"))
	}
	if inserts {
		ni := rapid.IntRange(0, 12).Draw(t, "nins")
		for i := 0; i < ni; i++ {
			c.Ins = append(c.Ins, pt("ins"))
		}
		c.Bounding = rapid.Bool().Draw(t, "bounding")
		c.InsBound = rapid.Bool().Draw(t, "insbound")
	}
	nq := rapid.IntRange(1, 8).Draw(t, "nq")
	for i := 0; i < nq; i++ {
		qk := rapid.IntRange(0, 3).Draw(t, "qkind")
		if ties && qk != 0 {
			qk = 3
		}
		switch qk {
		case 0: // on a stored point
			if len(c.Pts) > 0 {
				c.Queries = append(c.Queries, c.Pts[rapid.IntRange(0, len(c.Pts)-1).Draw(t, "qi")])
				continue
			}
			fallthrough
		case 1: // midway between lattice points
			p := pt("q")
			for j := range p {
				p[j] += 0.5
			}
			c.Queries = append(c.Queries, p)
		case 2: // far outside
			p := pt("q")
			for j := range p {
				p[j] += 1000
			}
			c.Queries = append(c.Queries, p)
		default:
			c.Queries = append(c.Queries, pt("q"))
		}
	}
	total := len(c.Pts) + len(c.Ins)
	c.K = []int{1, 2, max(1, total-1), max(1, total), total + 5, rapid.IntRange(1, 10).Draw(t, "k")}
	// permute K so that different queries see different k
	rot := rapid.IntRange(0, len(c.K)-1).Draw(t, "krot")
	c.K = append(c.K[rot:], c.K[:rot]...)
	c.Radius = []vk.F{0, -1, -2, vk.F(rapid.IntRange(0, 40).Draw(t, "r")) / 4, -3}
	if ties {
		c.Radius = []vk.F{0, 1, -1, 0, 4, -2, -3, 2}
		c.K = []int{1, 2, 3, rapid.IntRange(1, 6).Draw(t, "tk"), 4, 5}
	}
	c.Effort = rapid.IntRange(0, 5).Draw(t, "effort")
	c.Seed = rapid.Uint64().Draw(t, "seed")
	c.L1 = !inserts && rapid.Bool().Draw(t, "l1")
	return c
}

func TestKDTree(t *testing.T) {
	vk.Run(t, "kdtree", vk.Opts{Quick: 12000, Thorough: 250000}, func(t *rapid.T) nnCase { return drawNN(t, 120, true) }, checkKD)
	vk.Run(t, "kdtree-ties", vk.Opts{Quick: 30000, Thorough: 400000}, func(t *rapid.T) nnCase { return drawNNTies(t, 40, true, true) }, checkKD)
	vk.Run(t, "kdtree-large", vk.Opts{Quick: 150, Thorough: 3000}, func(t *rapid.T) nnCase {
		c := drawNN(t, 30, true)
		// enlarge the bulk set from the seed (lattice with duplicates or continuous)
		g := vk.NewSplitMix(c.Seed)
		n := 200 + g.Intn(1800)
		lattice := g.Intn(2) == 0
		for i := 0; i < n; i++ {
			p := make([]vk.F, c.Dim)
			for j := range p {
				if lattice {
					p[j] = vk.F(g.Intn(5))
				} else {
					p[j] = vk.F(g.Norm())
				}
			}
			c.Pts = append(c.Pts, p)
		}
		return c
	}, checkKD)
}

func TestVPTree(t *testing.T) {
	vk.Run(t, "vptree", vk.Opts{Quick: 12000, Thorough: 250000}, func(t *rapid.T) nnCase { return drawNN(t, 120, false) }, checkVP)
	vk.Run(t, "vptree-ties", vk.Opts{Quick: 20000, Thorough: 300000}, func(t *rapid.T) nnCase { return drawNNTies(t, 40, false, true) }, checkVP)
}

// ---- Barnes-Hut --------------------------------------------------------------

type bhCase struct {
	Three bool
	N     int
	Seed  uint64
	Theta vk.F
	Dup   bool // add a coincident pair
}

type part2 struct {
	x, y, m float64
}

func (p part2) Coord2() r2.Vec { return r2.Vec{X: p.x, Y: p.y} }
func (p part2) Mass() float64  { return p.m }

type part3 struct {
	x, y, z, m float64
}

func (p part3) Coord3() r3.Vec { return r3.Vec{X: p.x, Y: p.y, Z: p.z} }
func (p part3) Mass() float64  { return p.m }

func checkBH(c bhCase) *vk.Failure {
	vk.Sample("barneshut", c)
	g := vk.NewSplitMix(c.Seed)
	theta := float64(c.Theta)
	if c.N >= 2 {
		vk.NonTrivial("bh", c.Three, c.N, c.Seed, theta, c.Dup)
	}
	if !c.Three {
		ps := make([]barneshut.Particle2, c.N)
		for i := range ps {
			ps[i] = part2{float64(g.Intn(2001)-1000) / 16, float64(g.Intn(2001)-1000) / 16, float64(1+g.Intn(8)) / 2}
		}
		if c.Dup && c.N >= 2 {
			ps[1] = part2{ps[0].(part2).x, ps[0].(part2).y, 3}
		}
		coincident := false
		seen := map[[2]float64]bool{}
		for _, p := range ps {
			k := [2]float64{p.(part2).x, p.(part2).y}
			if seen[k] {
				coincident = true
			}
			seen[k] = true
		}
		plane, err := barneshut.NewPlane(ps)
		if coincident {
			if err == nil {
				return vk.Failf("bh2-coincident-accepted", "coincident particles must make NewPlane return an error")
			}
			return nil
		}
		if err != nil {
			return vk.Failf("bh2-error", "NewPlane failed on distinct particles: %v", err)
		}
		for i, p := range ps {
			var want r2.Vec
			var abs float64
			for _, e := range ps {
				f := barneshut.Gravity2(p, e, p.Mass(), e.Mass(), r2.Sub(e.Coord2(), p.Coord2()))
				want = r2.Add(want, f)
				abs += math.Abs(f.X) + math.Abs(f.Y)
			}
			got := plane.ForceOn(p, theta, barneshut.Gravity2)
			tol := 8 * float64(c.N+4) * vk.Eps * abs
			if math.Abs(got.X-want.X) > tol || math.Abs(got.Y-want.Y) > tol || math.IsNaN(got.X) || math.IsNaN(got.Y) {
				return vk.Failf("bh2-force", "particle %d theta=%g: force %v, direct sum %v (tol %g)", i, theta, got, want, tol)
			}
		}
		// History: Particles altered after the tree was built. Documented: "Reset
		// must be called if the Particles field or elements of Particles have been
		// altered, unless ForceOn is called with theta=0": with theta = 0 the
		// current particles decide, without a Reset; after Reset any theta does.
		if c.N >= 2 {
			ps2 := append([]barneshut.Particle2(nil), ps...)
			ps2[0] = part2{ps[0].(part2).x + 1000.25, ps[0].(part2).y - 999.5, 2.5} // moved far away
			switch g.Intn(3) {
			case 0:
				ps2 = append(ps2, part2{-2000.5, 1500.25, 4})
			case 1:
				ps2 = ps2[:len(ps2)-1]
			}
			plane.Particles = ps2
			direct := func(p barneshut.Particle2) (r2.Vec, float64) {
				var want r2.Vec
				var abs float64
				for _, e := range ps2 {
					f := barneshut.Gravity2(p, e, p.Mass(), e.Mass(), r2.Sub(e.Coord2(), p.Coord2()))
					want = r2.Add(want, f)
					abs += math.Abs(f.X) + math.Abs(f.Y)
				}
				return want, abs
			}
			for i, p := range ps2 {
				want, abs := direct(p)
				got := plane.ForceOn(p, 0, barneshut.Gravity2)
				tol := 8 * float64(len(ps2)+4) * vk.Eps * abs
				if math.Abs(got.X-want.X) > tol || math.Abs(got.Y-want.Y) > tol {
					return vk.Failf("bh2-theta0-after-mutation", "particle %d: ForceOn(theta=0) after altering Particles without Reset = %v, direct sum over the current particles %v", i, got, want)
				}
			}
			if err := plane.Reset(); err != nil {
				return vk.Failf("bh2-reset-error", "Reset after altering Particles: %v", err)
			}
			for i, p := range ps2 {
				want, abs := direct(p)
				got := plane.ForceOn(p, 1e-300, barneshut.Gravity2)
				tol := 8 * float64(len(ps2)+4) * vk.Eps * abs
				if math.Abs(got.X-want.X) > tol || math.Abs(got.Y-want.Y) > tol || math.IsNaN(got.X+got.Y) {
					return vk.Failf("bh2-force-after-reset", "particle %d: force after Reset %v, direct sum %v", i, got, want)
				}
			}
		}
		return nil
	}
	ps := make([]barneshut.Particle3, c.N)
	for i := range ps {
		ps[i] = part3{float64(g.Intn(2001)-1000) / 16, float64(g.Intn(2001)-1000) / 16, float64(g.Intn(2001)-1000) / 16, float64(1+g.Intn(8)) / 2}
	}
	if c.Dup && c.N >= 2 {
		q := ps[0].(part3)
		ps[1] = part3{q.x, q.y, q.z, 3}
	}
	coincident := false
	seen := map[[3]float64]bool{}
	for _, p := range ps {
		q := p.(part3)
		k := [3]float64{q.x, q.y, q.z}
		if seen[k] {
			coincident = true
		}
		seen[k] = true
	}
	vol, err := barneshut.NewVolume(ps)
	if coincident {
		if err == nil {
			return vk.Failf("bh3-coincident-accepted", "coincident particles must make NewVolume return an error")
		}
		return nil
	}
	if err != nil {
		return vk.Failf("bh3-error", "NewVolume failed on distinct particles: %v", err)
	}
	for i, p := range ps {
		var want r3.Vec
		var abs float64
		for _, e := range ps {
			f := barneshut.Gravity3(p, e, p.Mass(), e.Mass(), r3.Sub(e.Coord3(), p.Coord3()))
			want = r3.Add(want, f)
			abs += math.Abs(f.X) + math.Abs(f.Y) + math.Abs(f.Z)
		}
		got := vol.ForceOn(p, theta, barneshut.Gravity3)
		tol := 8 * float64(c.N+4) * vk.Eps * abs
		if math.Abs(got.X-want.X) > tol || math.Abs(got.Y-want.Y) > tol || math.Abs(got.Z-want.Z) > tol || math.IsNaN(got.X+got.Y+got.Z) {
			return vk.Failf("bh3-force", "particle %d theta=%g: force %v, direct sum %v (tol %g)", i, theta, got, want, tol)
		}
	}
	// History: see the 2-D case.
	if c.N >= 2 {
		ps2 := append([]barneshut.Particle3(nil), ps...)
		q0 := ps[0].(part3)
		ps2[0] = part3{q0.x + 1000.25, q0.y - 999.5, q0.z + 500.75, 2.5}
		switch g.Intn(3) {
		case 0:
			ps2 = append(ps2, part3{-2000.5, 1500.25, 700.5, 4})
		case 1:
			ps2 = ps2[:len(ps2)-1]
		}
		vol.Particles = ps2
		direct := func(p barneshut.Particle3) (r3.Vec, float64) {
			var want r3.Vec
			var abs float64
			for _, e := range ps2 {
				f := barneshut.Gravity3(p, e, p.Mass(), e.Mass(), r3.Sub(e.Coord3(), p.Coord3()))
				want = r3.Add(want, f)
				abs += math.Abs(f.X) + math.Abs(f.Y) + math.Abs(f.Z)
			}
			return want, abs
		}
		for i, p := range ps2 {
			want, abs := direct(p)
			got := vol.ForceOn(p, 0, barneshut.Gravity3)
			tol := 8 * float64(len(ps2)+4) * vk.Eps * abs
			if math.Abs(got.X-want.X) > tol || math.Abs(got.Y-want.Y) > tol || math.Abs(got.Z-want.Z) > tol {
				return vk.Failf("bh3-theta0-after-mutation", "particle %d: ForceOn(theta=0) after altering Particles without Reset = %v, direct sum over the current particles %v", i, got, want)
			}
		}
		if err := vol.Reset(); err != nil {
			return vk.Failf("bh3-reset-error", "Reset after altering Particles: %v", err)
		}
		for i, p := range ps2 {
			want, abs := direct(p)
			got := vol.ForceOn(p, 1e-300, barneshut.Gravity3)
			tol := 8 * float64(len(ps2)+4) * vk.Eps * abs
			if math.Abs(got.X-want.X) > tol || math.Abs(got.Y-want.Y) > tol || math.Abs(got.Z-want.Z) > tol || math.IsNaN(got.X+got.Y+got.Z) {
				return vk.Failf("bh3-force-after-reset", "particle %d: force after Reset %v, direct sum %v", i, got, want)
			}
		}
	}
	return nil
}

func TestBarnesHut(t *testing.T) {
	vk.Run(t, "barneshut", vk.Opts{Quick: 3000, Thorough: 60000}, func(t *rapid.T) bhCase {
		return bhCase{
			Three: rapid.Bool().Draw(t, "three"),
			N:     vk.Dim(t, "n", 0, 300, 2, 5, 9),
			Seed:  rapid.Uint64().Draw(t, "seed"),
			// theta = 0 takes the direct path, 1e-300 forces a full walk of the tree
			Theta: vk.F(rapid.SampledFrom([]float64{0, 1e-300, 1e-300}).Draw(t, "theta")),
			Dup:   rapid.IntRange(0, 9).Draw(t, "dup") == 0,
		}
	}, checkBH)
}
