package c01

import (
	"math"
	"testing"

	"gonum.org/v1/gonum/blas"
	bg "gonum.org/v1/gonum/blas/gonum"
	"pgregory.net/rapid"
	"verifharness/vk"
)

type rotgCase struct {
	Single bool
	A, B   vk.F
}

// checkRotg: the plane rotation satisfies its defining relations.
func checkRotg(c rotgCase) *vk.Failure {
	var impl bg.Implementation
	a, b := float64(c.A), float64(c.B)
	u := vk.Eps
	// tiny is the spacing of the subnormal numbers: a result r in that range
	// carries an absolute error of tiny/2 instead of a relative one of u.
	tiny := math.SmallestNonzeroFloat64
	var cs, sn, r, z float64
	if c.Single {
		tiny = math.SmallestNonzeroFloat32
		a, b = float64(float32(a)), float64(float32(b))
		c1, s1, r1, z1 := impl.Srotg(float32(a), float32(b))
		cs, sn, r, z = float64(c1), float64(s1), float64(r1), float64(z1)
		u = vk.Eps32
	} else {
		cs, sn, r, z = impl.Drotg(a, b)
	}
	vk.Sample("rotg", c)
	if a != 0 && b != 0 {
		vk.NonTrivial("rotg", c.Single, a, b)
	}
	// z = 1/c may overflow when c is tiny: that is the documented formula.
	for _, v := range []float64{cs, sn, r} {
		if math.IsNaN(v) || math.IsInf(v, 0) {
			return vk.Failf("rotg-nonfinite", "rotg(%g,%g) = c %g s %g r %g z %g", a, b, cs, sn, r, z)
		}
	}
	ue := u
	if r != 0 {
		ue += tiny / math.Abs(r)
	}
	if math.Abs(cs*cs+sn*sn-1) > 16*ue {
		return vk.Failf("rotg-unit", "rotg(%g,%g): c^2+s^2-1 = %g", a, b, cs*cs+sn*sn-1)
	}
	scale := math.Abs(a) + math.Abs(b)
	if math.Abs(cs*a+sn*b-r) > 16*(ue*scale+tiny) {
		return vk.Failf("rotg-r", "rotg(%g,%g): c*a+s*b = %g, r = %g", a, b, cs*a+sn*b, r)
	}
	if math.Abs(-sn*a+cs*b) > 16*(ue*scale+tiny) {
		return vk.Failf("rotg-zero", "rotg(%g,%g): -s*a+c*b = %g", a, b, -sn*a+cs*b)
	}
	// documented sign convention: sigma = sgn(a) if |a| > |b| else sgn(b)
	if a != 0 && b != 0 {
		sigma := math.Copysign(1, b)
		if math.Abs(a) > math.Abs(b) {
			sigma = math.Copysign(1, a)
			if cs < 0 {
				return vk.Failf("rotg-c-sign", "rotg(%g,%g): c = %g < 0 although |a| > |b|", a, b, cs)
			}
		}
		if math.Copysign(1, r) != sigma {
			return vk.Failf("rotg-r-sign", "rotg(%g,%g): r = %g, documented sign %g", a, b, r, sigma)
		}
		// documented z encoding
		var wz float64
		switch {
		case math.Abs(a) > math.Abs(b):
			wz = sn
		case cs != 0:
			wz = 1 / cs
		default:
			wz = 1
		}
		if c.Single {
			wz = float64(float32(wz))
		}
		if math.IsInf(wz, 0) || math.IsInf(z, 0) {
			if z != wz && math.Abs(wz) < math.MaxFloat32/2 {
				return vk.Failf("rotg-z", "rotg(%g,%g): z = %g, documented %g", a, b, z, wz)
			}
		} else if math.Abs(z-wz) > 8*u*math.Abs(wz) {
			return vk.Failf("rotg-z", "rotg(%g,%g): z = %g, documented %g", a, b, z, wz)
		}
	}
	return nil
}

type rotmgCase struct {
	Single         bool
	D1, D2, X1, Y1 vk.F
}

// checkRotmg: H*(x1,y1)^T = (rx1, 0)^T and the weighted energy is preserved:
// rd1*rx1^2 = d1*x1^2 + d2*y1^2 (d1, d2 > 0).
func checkRotmg(c rotmgCase) *vk.Failure {
	var impl bg.Implementation
	d1, d2, x1, y1 := float64(c.D1), float64(c.D2), float64(c.X1), float64(c.Y1)
	u := vk.Eps
	var flag blas.Flag
	var h [4]float64
	var rd1, rd2, rx1 float64
	if c.Single {
		d1, d2, x1, y1 = float64(float32(d1)), float64(float32(d2)), float64(float32(x1)), float64(float32(y1))
		p, a, b, cc := impl.Srotmg(float32(d1), float32(d2), float32(x1), float32(y1))
		flag, h = p.Flag, [4]float64{float64(p.H[0]), float64(p.H[1]), float64(p.H[2]), float64(p.H[3])}
		rd1, rd2, rx1 = float64(a), float64(b), float64(cc)
		u = vk.Eps32
	} else {
		p, a, b, cc := impl.Drotmg(d1, d2, x1, y1)
		flag, h = p.Flag, p.H
		rd1, rd2, rx1 = a, b, cc
	}
	vk.Sample("rotmg", c)
	vk.NonTrivial("rotmg", c.Single, d1, d2, x1, y1)
	var h11, h12, h21, h22 float64
	switch flag {
	case blas.Identity:
		h11, h12, h21, h22 = 1, 0, 0, 1
	case blas.Rescaling:
		h11, h21, h12, h22 = h[0], h[1], h[2], h[3]
	case blas.OffDiagonal:
		h11, h21, h12, h22 = 1, h[1], h[2], 1
	case blas.Diagonal:
		h11, h21, h12, h22 = h[0], -1, 1, h[3]
	default:
		return vk.Failf("rotmg-flag", "rotmg(%g,%g,%g,%g): flag %v", d1, d2, x1, y1, flag)
	}
	vk.Class("rotmg-flag=" + map[blas.Flag]string{blas.Identity: "identity", blas.Rescaling: "rescaling", blas.OffDiagonal: "offdiag", blas.Diagonal: "diag"}[flag])
	for _, v := range []float64{h11, h12, h21, h22, rd1, rd2, rx1} {
		if math.IsNaN(v) || math.IsInf(v, 0) {
			return vk.Failf("rotmg-nonfinite", "rotmg(%g,%g,%g,%g): H=%v rd1=%g rd2=%g rx1=%g", d1, d2, x1, y1, h, rd1, rd2, rx1)
		}
	}
	if rd1 < 0 || rd2 < 0 {
		return vk.Failf("rotmg-negative-d", "rotmg(%g,%g,%g,%g): rd1=%g rd2=%g for positive d1, d2", d1, d2, x1, y1, rd1, rd2)
	}
	nx := h11*x1 + h12*y1
	ny := h21*x1 + h22*y1
	sx := math.Abs(h11*x1) + math.Abs(h12*y1)
	sy := math.Abs(h21*x1) + math.Abs(h22*y1)
	if math.Abs(nx-rx1) > 32*u*sx {
		return vk.Failf("rotmg-x", "rotmg(%g,%g,%g,%g): (H*v)[0] = %g, returned x1 = %g", d1, d2, x1, y1, nx, rx1)
	}
	if math.Abs(ny) > 32*u*sy {
		return vk.Failf("rotmg-zero", "rotmg(%g,%g,%g,%g): (H*v)[1] = %g, want 0 (terms %g)", d1, d2, x1, y1, ny, sy)
	}
	e0 := d1*x1*x1 + d2*y1*y1
	e1 := rd1 * rx1 * rx1
	if math.Abs(e1-e0) > 64*u*e0 {
		return vk.Failf("rotmg-energy", "rotmg(%g,%g,%g,%g): rd1*rx1^2 = %g, d1*x1^2+d2*y1^2 = %g", d1, d2, x1, y1, e1, e0)
	}
	return nil
}

func TestRotg(t *testing.T) {
	val := rapid.Custom(func(t *rapid.T) float64 {
		switch rapid.IntRange(0, 5).Draw(t, "cls") {
		case 0:
			return 0
		case 1:
			return float64(rapid.IntRange(-8, 8).Draw(t, "int"))
		case 2:
			e := rapid.IntRange(-120, 120).Draw(t, "exp")
			return math.Ldexp(rapid.Float64Range(1, 2).Draw(t, "m"), e) * float64(rapid.SampledFrom([]int{-1, 1}).Draw(t, "sg"))
		}
		return rapid.Float64Range(-100, 100).Draw(t, "v")
	})
	vk.Run(t, "rotg", vk.Opts{Quick: 60000, Thorough: 1000000, NoCrumb: true}, func(t *rapid.T) rotgCase {
		return rotgCase{Single: rapid.Bool().Draw(t, "single"), A: vk.F(val.Draw(t, "a")), B: vk.F(val.Draw(t, "b"))}
	}, checkRotg)
	pos := rapid.Custom(func(t *rapid.T) float64 {
		if rapid.Bool().Draw(t, "int") {
			return float64(rapid.IntRange(1, 16).Draw(t, "i")) / 4
		}
		e := rapid.IntRange(-30, 30).Draw(t, "exp")
		return math.Ldexp(rapid.Float64Range(1, 2).Draw(t, "m"), e)
	})
	nz := rapid.Custom(func(t *rapid.T) float64 {
		v := pos.Draw(t, "p")
		if rapid.Bool().Draw(t, "neg") {
			return -v
		}
		return v
	})
	vk.Run(t, "rotmg", vk.Opts{Quick: 60000, Thorough: 1000000, NoCrumb: true}, func(t *rapid.T) rotmgCase {
		return rotmgCase{Single: rapid.Bool().Draw(t, "single"), D1: vk.F(pos.Draw(t, "d1")), D2: vk.F(pos.Draw(t, "d2")), X1: vk.F(nz.Draw(t, "x1")), Y1: vk.F(nz.Draw(t, "y1"))}
	}, checkRotmg)
}
