package c01

import (
	"testing"

	"pgregory.net/rapid"
	"verifharness/blaskit"
	"verifharness/vk"
)

func checkC01(c blaskit.Case) *vk.Failure {
	vk.Class(c.Prec + c.Fam)
	blaskit.NonTrivial(c)
	vk.Sample("blas-"+blaskit.FamLevel(c.Fam), c)
	return blaskit.Check(c)
}

func TestBLASLevel1(t *testing.T) {
	vk.Run(t, "blas-l1", vk.Opts{Quick: 80000, Thorough: 1500000}, func(t *rapid.T) blaskit.Case { return blaskit.Draw(t, blaskit.L1Fams, 300) }, checkC01)
}

func TestBLASLevel2(t *testing.T) {
	vk.Run(t, "blas-l2", vk.Opts{Quick: 140000, Thorough: 2500000}, func(t *rapid.T) blaskit.Case { return blaskit.Draw(t, blaskit.L2Fams, 150) }, checkC01)
}

func TestBLASLevel3(t *testing.T) {
	vk.Run(t, "blas-l3", vk.Opts{Quick: 40000, Thorough: 600000}, func(t *rapid.T) blaskit.Case { return blaskit.Draw(t, blaskit.L3Fams, 48) }, checkC01)
	// large shapes: several 64-blocks, the parallel gemm path
	vk.Run(t, "blas-l3-large", vk.Opts{Quick: 1500, Thorough: 20000}, func(t *rapid.T) blaskit.Case {
		c := blaskit.Draw(t, blaskit.L3Fams, 40)
		big := func(label string) int {
			return rapid.SampledFrom([]int{63, 64, 65, 100, 127, 128, 129, 130, 200, 257}).Draw(t, label)
		}
		switch rapid.IntRange(0, 3).Draw(t, "which") {
		case 0:
			c.M, c.N = big("bm"), big("bn")
			c.K = rapid.IntRange(1, 70).Draw(t, "sk")
		case 1:
			c.M = big("bm")
		case 2:
			c.N = big("bn")
		default:
			c.M, c.N, c.K = big("bm"), big("bn"), big("bk")
			if c.M*c.N*c.K > 3_000_000 {
				c.K = 65
			}
		}
		return c
	}, checkC01)
}
