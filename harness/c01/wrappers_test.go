package c01

import (
	"testing"

	"gonum.org/v1/gonum/blas"
	"pgregory.net/rapid"
	"verifharness/vk"
)

// wrapCase drives the differential check of the blas64/blas32/cblas128/cblas64
// wrapper functions: the wrapper called on struct operands must have exactly
// the effect of the corresponding blas/gonum method called with the arguments
// the wrapper's documentation describes.
type wrapCase struct {
	Pkg                    string
	Fn                     string
	M, N, K, KL, KU        int
	IncX, IncY, Pad        int
	Uplo, Diag, Side       string
	TA, TB                 string
	AlRe, AlIm, BeRe, BeIm vk.F
	Seed                   uint64
}

func ulOf(s string) blas.Uplo {
	if s == "L" {
		return blas.Lower
	}
	return blas.Upper
}
func dgOf(s string) blas.Diag {
	if s == "U" {
		return blas.Unit
	}
	return blas.NonUnit
}
func sdOf(s string) blas.Side {
	if s == "R" {
		return blas.Right
	}
	return blas.Left
}
func trOf(s string) blas.Transpose {
	switch s {
	case "T":
		return blas.Trans
	case "C":
		return blas.ConjTrans
	}
	return blas.NoTrans
}

var realFns = []string{"Dot", "Nrm2", "Asum", "Iamax", "Swap", "Copy", "Axpy", "Scal", "Rot", "Rotm", "Gemv", "Gbmv", "Trmv", "Trsv", "Tbmv", "Tbsv", "Tpmv", "Tpsv", "Symv", "Sbmv", "Spmv", "Ger", "Syr", "Spr", "Syr2", "Spr2", "Gemm", "Symm", "Syrk", "Syr2k", "Trmm", "Trsm"}
var cplxFns = []string{"Dotu", "Dotc", "Nrm2", "Asum", "Iamax", "Swap", "Copy", "Axpy", "Scal", "Dscal", "Gemv", "Gbmv", "Trmv", "Trsv", "Tbmv", "Tbsv", "Tpmv", "Tpsv", "Hemv", "Hbmv", "Hpmv", "Geru", "Gerc", "Her", "Hpr", "Her2", "Hpr2", "Gemm", "Symm", "Hemm", "Syrk", "Syr2k", "Herk", "Her2k", "Trmm", "Trsm"}

func checkWrap(c wrapCase) *vk.Failure {
	vk.Class("wrap/" + c.Pkg + "." + c.Fn)
	vk.NonTrivial("wrap", c.Pkg, c.Fn, c.M, c.N, c.K, c.KL, c.KU, c.IncX, c.IncY, c.Pad, c.Uplo, c.Diag, c.Side, c.TA, c.TB)
	vk.Sample("blas-wrappers", c)
	var f *vk.Failure
	r := vk.Call(func() {
		switch c.Pkg {
		case "blas64":
			f = wrap_blas64(c)
		case "blas32":
			f = wrap_blas32(c)
		case "cblas128":
			f = wrap_cblas128(c)
		default:
			f = wrap_cblas64(c)
		}
	})
	if r.Outcome != vk.Returned {
		return vk.Failf("wrapper-panic/"+c.Pkg+"."+c.Fn, "%s.%s on valid operands: %s", c.Pkg, c.Fn, r.Text)
	}
	return f
}

func TestBLASWrappers(t *testing.T) {
	vk.Run(t, "blas-wrappers", vk.Opts{Quick: 60000, Thorough: 1000000}, func(t *rapid.T) wrapCase {
		var c wrapCase
		c.Pkg = rapid.SampledFrom([]string{"blas64", "blas32", "cblas128", "cblas64"}).Draw(t, "pkg")
		if c.Pkg[0] == 'c' {
			c.Fn = rapid.SampledFrom(cplxFns).Draw(t, "fn")
		} else {
			c.Fn = rapid.SampledFrom(realFns).Draw(t, "fn")
		}
		c.M = rapid.IntRange(1, 7).Draw(t, "m")
		c.N = rapid.IntRange(1, 7).Draw(t, "n")
		c.K = rapid.IntRange(0, 5).Draw(t, "k")
		c.KL = rapid.IntRange(0, 3).Draw(t, "kl")
		c.KU = rapid.IntRange(0, 3).Draw(t, "ku")
		c.IncX = rapid.IntRange(1, 3).Draw(t, "incx")
		c.IncY = rapid.IntRange(1, 3).Draw(t, "incy")
		c.Pad = rapid.IntRange(0, 2).Draw(t, "pad")
		c.Uplo = rapid.SampledFrom([]string{"U", "L"}).Draw(t, "uplo")
		c.Diag = rapid.SampledFrom([]string{"N", "U"}).Draw(t, "diag")
		c.Side = rapid.SampledFrom([]string{"L", "R"}).Draw(t, "side")
		c.TA = rapid.SampledFrom([]string{"N", "T", "C"}).Draw(t, "ta")
		c.TB = rapid.SampledFrom([]string{"N", "T", "C"}).Draw(t, "tb")
		c.AlRe, c.AlIm = vk.F(vk.Scalar(t, "alre")), vk.F(vk.Scalar(t, "alim"))
		c.BeRe, c.BeIm = vk.F(vk.Scalar(t, "bere")), vk.F(vk.Scalar(t, "beim"))
		c.Seed = rapid.Uint64().Draw(t, "seed")
		return c
	}, checkWrap)
}
