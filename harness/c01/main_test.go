// Package c01 checks property C01: BLAS routines compute the reference
// operation on exactly the addressed elements.
package c01

import (
	"testing"

	"verifharness/vk"
)

func TestMain(m *testing.M) { vk.Main(m, "C01") }
