package c13

import (
	"fmt"
	"math"
	"testing"

	"gonum.org/v1/gonum/graph"
	"gonum.org/v1/gonum/graph/path"
	"pgregory.net/rapid"
	"verifharness/vk"
)

// yenCase is a graph with one YenKShortestPaths query.
type yenCase struct {
	graphDef
	S, T int // node indices; index n = an ID absent from the graph
	K    int
	Cost vk.F
	View int // viewFull, viewWeightOnly or viewPlain
}

const (
	yenEnumLimit = 30000 // give up brute force beyond this many loopless s-t paths
	yenMaxReturn = 250   // do not ask Yen for more paths than this (quadratic cost)
)

func checkYen(c yenCase) *vk.Failure {
	vk.Sample("yen", c)
	real := newModel(c.nodeIDs(), c.allArcs(), c.Undir)
	m := real
	if c.View == viewPlain {
		m = newModel(c.nodeIDs(), unitArcs(c.allArcs()), c.Undir)
	}
	g := viewOf(c.View, buildGraph(c.Kind, real), c.Undir)
	vk.Class("yen-" + viewNames[c.View%numViews])
	n := m.n
	s, t := c.S, c.T
	if s < 0 || s > n || t < 0 || t > n {
		return nil
	}
	src, dst := graph.Node(simpleNode(m.id(s))), graph.Node(simpleNode(m.id(t)))
	cost := float64(c.Cost)
	what := fmt.Sprintf("YenKShortestPaths(k=%d, cost=%v, %d -> %d)", c.K, cost, m.id(s), m.id(t))

	if m.hasNeg {
		// "YenKShortestPaths will panic if g contains a negative edge weight":
		// the search stops at the target, so an arc that is never examined
		// cannot be reported; only the absence of faults is asserted.
		vk.Class("yen=negative-arc")
		if c.K < 0 && n > 7 {
			return nil // would enumerate every loopless path of a large graph
		}
		_, f := outcome("negative", what, false, true, func() { path.YenKShortestPaths(g, c.K, cost, src, dst) })
		return f
	}

	var ws []float64
	if s < n && t < n {
		var ok bool
		ws, ok = m.allSimpleWeights(s, t, yenEnumLimit)
		if !ok {
			vk.Class("yen=skipped-too-many-paths-to-enumerate")
			return nil
		}
	}
	within := 0
	if len(ws) > 0 {
		bound := ws[0] + cost
		for _, w := range ws {
			if w <= bound {
				within++
			}
		}
	}
	expect := within
	if c.K >= 0 && c.K < expect {
		expect = c.K
	}
	if expect > yenMaxReturn {
		vk.Class("yen=skipped-too-many-paths-requested")
		return nil
	}
	switch {
	case len(ws) == 0:
		vk.Class("yen=no-path")
	case s == t:
		vk.Class("yen=s==t")
	case expect < within:
		vk.Class("yen=limited-by-k")
	case within < len(ws):
		vk.Class("yen=limited-by-cost")
	default:
		vk.Class("yen=all-paths")
	}
	if len(ws) >= 2 {
		vk.NonTrivial("yen", m.hash, s, t, c.K, cost, c.Kind, c.View)
	}

	var got [][]graph.Node
	if _, f := outcome("call", what, false, false, func() { got = path.YenKShortestPaths(g, c.K, cost, src, dst) }); f != nil {
		return f
	}

	if len(ws) == 0 {
		if len(got) != 0 {
			return vk.Failf("path-without-route", "%s: no path exists but %d returned, first %s", what, len(got), showPath(got[0]))
		}
		return nil
	}
	// every path is a loopless real s-t walk; distinct; weights non-decreasing
	seen := map[string]bool{}
	gw := make([]float64, len(got))
	for i, p := range got {
		sum, r := m.walkWeight(p, s, t)
		if r != "" {
			return vk.Failf("path", "%s: path %d %s: %s", what, i, showPath(p), r)
		}
		gw[i] = sum
		is, _ := m.idxString(p)
		if seen[is] {
			return vk.Failf("duplicate", "%s: path %s returned twice", what, showPath(p))
		}
		seen[is] = true
		if i > 0 && gw[i] < gw[i-1] {
			return vk.Failf("order", "%s: path %d has weight %v after weight %v", what, i, gw[i], gw[i-1])
		}
		if sum > ws[0]+cost {
			return vk.Failf("cost-bound", "%s: path %s of weight %v exceeds shortest %v + cost %v", what, showPath(p), sum, ws[0], cost)
		}
	}
	if len(got) != expect {
		key := "count"
		switch {
		case c.K == 0:
			key = "k-zero/count"
		case s == t && s < n && len(m.out[s]) == 0:
			key = "sink-self/count"
		}
		return vk.Failf(key, "%s: %d paths returned, want %d (%d loopless paths exist, %d within the cost bound; weights %v)", what, len(got), expect, len(ws), within, head(ws, 8))
	}
	for i := range got {
		if gw[i] != ws[i] {
			return vk.Failf("omitted-cheaper", "%s: path %d has weight %v but the %d-th cheapest loopless path weighs %v (returned %v, cheapest %v)", what, i, gw[i], i+1, ws[i], head(gw, 8), head(ws, 8))
		}
	}
	return nil
}

func head(x []float64, k int) []float64 {
	if len(x) > k {
		return x[:k]
	}
	return x
}

type simpleNode int64

func (n simpleNode) ID() int64 { return int64(n) }

// walkWeight checks that p is a simple walk from s to t and returns its weight.
func (m *model) walkWeight(p []graph.Node, s, t int) (float64, string) {
	is, ok := m.idxString(p)
	if !ok || len(is) == 0 {
		return 0, "empty path, nil node or node not in the graph"
	}
	sum := 0.0
	for i := 1; i < len(is); i++ {
		u, v := int(is[i-1]), int(is[i])
		if !m.has(u, v) {
			return 0, fmt.Sprintf("hop %d->%d is not an arc of the graph", m.ids[u], m.ids[v])
		}
		sum += m.w[u][v]
	}
	if r := m.validPath(p, s, t, sum); r != "" {
		return 0, r
	}
	return sum, ""
}

func drawYen(t *rapid.T) yenCase {
	var c yenCase
	var n int
	switch sz := rapid.IntRange(0, 99).Draw(t, "sizeclass"); {
	case sz < 2:
		n = rapid.IntRange(0, 1).Draw(t, "n")
	case sz < 40:
		n = rapid.IntRange(2, 6).Draw(t, "n")
	case sz < 88:
		n = rapid.IntRange(7, 9).Draw(t, "n")
	default:
		n = rapid.IntRange(10, 16).Draw(t, "n")
	}
	classes := []int{clsDense, clsSparse, clsSparse, clsDense, clsTree, clsDisconnected, clsSinks, clsZeroCycle}
	if n >= 10 {
		classes = []int{clsTree, clsSparse, clsDisconnected}
	}
	if rapid.IntRange(0, 24).Draw(t, "negative") == 0 {
		classes = []int{clsNegArcs, clsNegPotential}
	}
	c.graphDef = drawGraphDef(t, n, classes, []int{wAll, wAll, wUnit, w01, w12, wPos}, 16)
	absent := 0
	if rapid.IntRange(0, 19).Draw(t, "absent") == 0 {
		absent = 1
	}
	hi := n - 1 + absent
	if hi < 0 {
		hi = 0
	}
	c.S = rapid.IntRange(0, hi).Draw(t, "s")
	c.T = rapid.IntRange(0, hi).Draw(t, "t")
	if c.T == c.S && hi > 0 && rapid.IntRange(0, 7).Draw(t, "allowself") > 0 {
		c.T = (c.S + 1 + rapid.IntRange(0, hi-1).Draw(t, "tshift")) % (hi + 1)
	}
	if c.S < n && c.T < n && c.S != c.T && rapid.IntRange(0, 3).Draw(t, "forcereach") > 0 {
		// prefer a target that can be reached
		m := newModel(c.nodeIDs(), c.allArcs(), c.Undir)
		d := m.bf(c.S)
		if math.IsInf(d[c.T], 1) {
			var reach []int
			for v := range d {
				if v != c.S && !math.IsInf(d[v], 1) {
					reach = append(reach, v)
				}
			}
			if len(reach) > 0 {
				c.T = reach[rapid.IntRange(0, len(reach)-1).Draw(t, "treach")]
			}
		}
	}
	c.View = rapid.SampledFrom([]int{viewFull, viewFull, viewFull, viewWeightOnly, viewPlain}).Draw(t, "view")
	c.K = rapid.SampledFrom([]int{-1, -1, 0, 1, 2, 2, 3, 5, 5, 50}).Draw(t, "k")
	c.Cost = vk.F(rapid.SampledFrom([]float64{0, 0.5, 1, 3, math.Inf(1), math.Inf(1)}).Draw(t, "cost"))
	return c
}

func TestYen(t *testing.T) {
	vk.Run(t, "yen", vk.Opts{Quick: 16000, Thorough: 300000}, drawYen, checkYen)
}
