package c13

import (
	"fmt"
	"math"
	"testing"

	"gonum.org/v1/gonum/graph"
	"gonum.org/v1/gonum/graph/path"
	"gonum.org/v1/gonum/graph/path/dynamic"
	"gonum.org/v1/gonum/graph/simple"
	"pgregory.net/rapid"
	"verifharness/vk"
)

// D* Lite history operations.
const (
	opStep     = iota // d.Step()
	opUpdate          // change the world, d.UpdateWorld(changed edges)
	opMove            // d.MoveTo(node), change the world, d.UpdateWorld(changed edges)
	opMoveOnly        // d.MoveTo(node) and nothing else: Path() must describe the new location
)

type dsOp struct {
	Kind int
	Node int   // opMove: index of the node moved to
	Ch   []arc // changed or new arcs with their new weight (+Inf = blocked)
}

// dstarCase is an initial world, a start/goal pair, a heuristic and a history.
type dstarCase struct {
	Undir bool
	IDs   []int64
	Arcs  []arc
	S, T  int
	HMode int // 0: nil heuristic, 1: path.NullHeuristic, 2: factor x distance in the all-time cheapest world
	HF    int
	Ops   []dsOp
	View  int // viewFull or viewWeightOnly: what the world graph handed to NewDStarLite implements
}

// budgetExceeded is the panic value of the guarded world model.
type budgetExceeded struct{}

// guardModel is the world model handed to D* Lite. It counts adjacency
// queries and panics when a single library call makes implausibly many, which
// turns a non-terminating Path or replanning loop into a reportable failure
// instead of an ever-growing slice.
type guardModel struct {
	*simple.WeightedDirectedGraph
	calls, limit int
}

func (g *guardModel) tick() {
	g.calls++
	if g.calls > g.limit {
		panic(budgetExceeded{})
	}
}
func (g *guardModel) From(id int64) graph.Nodes { g.tick(); return g.WeightedDirectedGraph.From(id) }
func (g *guardModel) To(id int64) graph.Nodes   { g.tick(); return g.WeightedDirectedGraph.To(id) }

type dstarRun struct {
	c     *dstarCase
	m     *model
	g     graph.Graph
	dg    *simple.WeightedDirectedGraph
	ug    *simple.WeightedUndirectedGraph
	world *guardModel
	d     *dynamic.DStarLite
	zero  bool // a zero weight is or was present in the world
	// replanAt is the node index at which the planner last replanned
	// (construction or a non-empty UpdateWorld); kmLost records a MoveTo made
	// after Step had moved away from it.
	replanAt int
	kmLost   bool
	// stale: a MoveTo was not followed by a non-empty UpdateWorld yet.
	stale bool
	// foreign counts heuristic calls that received a node value that is
	// neither a node of the world graph nor the start/goal given by the caller.
	foreign     int
	foreignType string
}

func (r *dstarRun) key(base string) string { return base }

// call runs one library call under the adjacency-query budget.
func (r *dstarRun) call(base, what string, mustPanic bool, f func()) (returned bool, fail *vk.Failure) {
	r.world.calls = 0
	res := vk.Call(f)
	switch res.Outcome {
	case vk.RuntimeFault:
		return false, vk.Failf(r.key(base+"/runtime-fault"), "%s ended in a runtime fault: %s", what, res.Text)
	case vk.PackagePanic:
		if _, ok := res.Value.(budgetExceeded); ok {
			return false, vk.Failf(r.key(base+"/non-terminating"), "%s made more than %d adjacency queries on a %d-node world (does not terminate)", what, r.world.limit, r.m.n)
		}
		if !mustPanic {
			return false, vk.Failf(r.key(base+"/unexpected-panic"), "%s panicked on valid input: %s", what, res.Text)
		}
		return false, nil
	}
	if mustPanic {
		return true, vk.Failf(base+"/no-panic", "%s returned although the documentation promises a panic on a negative edge weight", what)
	}
	return true, nil
}

func (r *dstarRun) setWorld(u, v int, w float64) {
	r.m.set(u, v, w)
	e := simple.WeightedEdge{F: simple.Node(r.m.ids[u]), T: simple.Node(r.m.ids[v]), W: w}
	if r.c.Undir {
		r.ug.SetWeightedEdge(e)
	} else {
		r.dg.SetWeightedEdge(e)
	}
	if w == 0 {
		r.zero = true
	}
}

// distToGoal returns the true distance from every node to the goal.
func (r *dstarRun) distToGoal() []float64 {
	r.m.finish()
	return r.m.reversed().bf(r.c.T)
}

// verifyPath checks Path() against the current world.
func (r *dstarRun) verifyPath(stage string) (p []graph.Node, w float64, fail *vk.Failure) {
	if _, f := r.call("path", "Path() "+stage, false, func() { p, w = r.d.Path() }); f != nil {
		return nil, 0, f
	}
	here, ok := r.m.idx[r.d.Here().ID()]
	if !ok {
		return nil, 0, vk.Failf("here", "%s: Here() = %d is not a node of the world", stage, r.d.Here().ID())
	}
	want := r.distToGoal()[here]
	if math.IsInf(want, 1) {
		if len(p) != 0 || !math.IsInf(w, 1) {
			return nil, 0, vk.Failf(r.key("path-unreachable"), "%s: goal unreachable from %d but Path() = %s, %v", stage, r.m.ids[here], showPath(p), w)
		}
		return p, w, nil
	}
	if w != want {
		return nil, 0, vk.Failf(r.key("path-weight"), "%s: Path() from %d has weight %v (%s), true distance %v", stage, r.m.ids[here], w, showPath(p), want)
	}
	// With zero-weight arcs a shortest walk may revisit nodes; the
	// documentation does not promise a simple path then.
	if reason := r.m.validWalk(p, here, r.c.T, w, !r.zero); reason != "" {
		return nil, 0, vk.Failf(r.key("path-walk"), "%s: Path() = %s: %s", stage, showPath(p), reason)
	}
	return p, w, nil
}

// step checks one Step() call.
func (r *dstarRun) step(stage string) (moved bool, fail *vk.Failure) {
	before := r.m.idx[r.d.Here().ID()]
	dt := r.distToGoal()
	expect := before != r.c.T && !math.IsInf(dt[before], 1)
	var ok bool
	if _, f := r.call("step", "Step() "+stage, false, func() { ok = r.d.Step() }); f != nil {
		return false, f
	}
	if ok != expect {
		return false, vk.Failf(r.key("step-result"), "%s: Step() at %d returned %v; goal %d, true distance to goal %v", stage, r.m.ids[before], ok, r.m.ids[r.c.T], dt[before])
	}
	after, in := r.m.idx[r.d.Here().ID()]
	if !in {
		return false, vk.Failf("here", "%s: Here() = %d is not a node of the world", stage, r.d.Here().ID())
	}
	if !ok {
		if after != before {
			return false, vk.Failf(r.key("step-moved-on-false"), "%s: Step() returned false but moved from %d to %d", stage, r.m.ids[before], r.m.ids[after])
		}
		return false, nil
	}
	if !r.m.has(before, after) || r.m.w[before][after]+dt[after] != dt[before] {
		return false, vk.Failf(r.key("step-not-on-shortest-path"), "%s: Step() moved %d -> %d (arc weight %v, distances to goal %v -> %v): not a step along a shortest path", stage, r.m.ids[before], r.m.ids[after], r.m.w[before][after], dt[before], dt[after])
	}
	return true, nil
}

// checkDStar runs checkDStar1 and files two special situations under keys of
// their own, so that they do not hide other failures:
//
//   - NewDStarLite called with start == goal creates two distinct node records
//     for the one ID and enters only one of them in the world model; a later
//     MoveTo away from the goal then plans on the wrong record.
//   - D* Lite (doi:10.1109/tro.2004.838026) assumes strictly positive arc
//     costs. gonum neither documents nor rejects zero weights; with a
//     zero-weight cycle the g/rhs values of the cycle support each other, so
//     stale finite estimates survive the loss of the last route to the goal.
//   - MoveTo sets its record of the last replanning position to the current
//     position before moving, so the distance covered by Step calls since the
//     last UpdateWorld never enters the key modifier; with a non-zero
//     heuristic the keys left in the queue are then no longer lower bounds.
//   - NewDStarLite asserts graph.Weighted (Weight and WeightedEdge); a world
//     graph that implements the one-method path.Weighted only is silently
//     planned with UniformCost.
//   - MoveTo does not replan, and UpdateWorld returns early for an empty change
//     list, so after MoveTo to a node the earlier search never expanded Path()
//     and Step() report "no path" until some edge changes.
func checkDStar(c dstarCase) *vk.Failure {
	f, r := checkDStar1(c)
	zero, kmLost := r.zero, r.kmLost
	if f == nil {
		if r.foreign > 0 {
			return vk.Failf("heuristic-gets-internal-node", "the heuristic was called %d times with a node value of type %s instead of the caller's nodes (NewDStarLite and the key computation pass the caller's nodes)", r.foreign, r.foreignType)
		}
		return nil
	}
	if c.View == viewWeightOnly && dstarUsesHopCounts() {
		return vk.Failf("weight-only-world/uniform-cost-used", "world graph implementing path.Weighted (Weight) but not graph.Weighted (WeightedEdge): NewDStarLite plans with hop counts: %s: %s", f.Key, f.Msg)
	}
	if r.stale && !zero {
		return vk.Failf("moveto-without-replan", "MoveTo not followed by a non-empty UpdateWorld: %s: %s", f.Key, f.Msg)
	}
	if kmLost && c.HMode == 2 && !zero {
		return vk.Failf("moveto-after-step", "MoveTo after Step without UpdateWorld in between, non-zero heuristic: %s: %s", f.Key, f.Msg)
	}
	if zero {
		return vk.Failf("zero-weight-world", "world with zero-weight arcs: %s: %s", f.Key, f.Msg)
	}
	if c.S == c.T {
		for _, op := range c.Ops {
			if op.Kind == opMove || op.Kind == opMoveOnly {
				return vk.Failf("start-at-goal-then-moveto", "NewDStarLite with start == goal followed by MoveTo: %s: %s", f.Key, f.Msg)
			}
		}
	}
	return f
}

func checkDStar1(c dstarCase) (*vk.Failure, *dstarRun) {
	r := &dstarRun{c: &c}
	return checkDStar2(r, c), r
}

// dstarUsesHopCounts probes whether NewDStarLite honours a world graph that
// implements path.Weighted but not graph.Weighted: on the two-node world
// 0 -> 1 of weight 5 the plan must weigh 5; with UniformCost it weighs 1.
func dstarUsesHopCounts() bool {
	g := simple.NewWeightedDirectedGraph(0, inf)
	g.SetWeightedEdge(simple.WeightedEdge{F: simple.Node(0), T: simple.Node(1), W: 5})
	var w float64
	res := vk.Call(func() {
		d := dynamic.NewDStarLite(simple.Node(0), simple.Node(1), viewOf(viewWeightOnly, g, false), nil, simple.NewWeightedDirectedGraph(0, inf))
		_, w = d.Path()
	})
	return res.Outcome == vk.Returned && w == 1
}

func checkDStar2(r *dstarRun, c dstarCase) *vk.Failure {
	vk.Sample("dstar", c)
	n := len(c.IDs)
	if n == 0 || c.S < 0 || c.S >= n || c.T < 0 || c.T >= n {
		return nil
	}
	r.m = newModel(c.IDs, nil, c.Undir)
	if c.Undir {
		r.ug = simple.NewWeightedUndirectedGraph(0, inf)
		r.g = r.ug
		for _, id := range c.IDs {
			r.ug.AddNode(simple.Node(id))
		}
	} else {
		r.dg = simple.NewWeightedDirectedGraph(0, inf)
		r.g = r.dg
		for _, id := range c.IDs {
			r.dg.AddNode(simple.Node(id))
		}
	}
	for _, a := range c.Arcs {
		if a.U != a.V && a.U >= 0 && a.V >= 0 && a.U < n && a.V < n && !math.IsNaN(float64(a.W)) {
			r.setWorld(a.U, a.V, float64(a.W))
		}
	}
	r.m.finish()
	r.world = &guardModel{WeightedDirectedGraph: simple.NewWeightedDirectedGraph(0, inf), limit: 100*n*(n+1) + 2000}

	// The heuristic: factor x distance in the world in which every arc that
	// ever exists has its all-time minimum weight. It is non-negative,
	// satisfies the triangle inequality and never exceeds a current arc cost.
	var h path.Heuristic
	switch c.HMode {
	case 1:
		h = path.NullHeuristic
	case 2:
		lb := newModel(c.IDs, nil, c.Undir)
		low := func(a arc) {
			w := float64(a.W)
			if a.U == a.V || a.U < 0 || a.V < 0 || a.U >= n || a.V >= n || math.IsNaN(w) || math.IsInf(w, 1) {
				return
			}
			if w < 0 {
				w = 0
			}
			if old := lb.w[a.U][a.V]; math.IsNaN(old) || w < old {
				lb.set(a.U, a.V, w)
			}
		}
		for _, a := range c.Arcs {
			low(a)
		}
		for _, op := range c.Ops {
			for _, a := range op.Ch {
				low(a)
			}
		}
		lb.finish()
		L := lb.allPairs()
		f := hFactors[c.HF%len(hFactors)]
		idx := r.m.idx
		h = func(x, y graph.Node) float64 {
			xi, ok1 := idx[x.ID()]
			yi, ok2 := idx[y.ID()]
			if !ok1 || !ok2 || f == 0 {
				return 0
			}
			if math.IsInf(L[xi][yi], 1) {
				return 1 << 20
			}
			return f * L[xi][yi]
		}
	}
	vk.Class([]string{"dstar-h=nil", "dstar-h=null", "dstar-h=consistent"}[c.HMode%3])
	if h != nil {
		inner := h
		h = func(x, y graph.Node) float64 {
			for _, nd := range []graph.Node{x, y} {
				if _, ok := nd.(simple.Node); !ok {
					r.foreign++
					r.foreignType = fmt.Sprintf("%T", nd)
				}
			}
			return inner(x, y)
		}
	}
	if c.View == viewWeightOnly {
		vk.Class("dstar-" + viewNames[viewWeightOnly])
		r.g = viewOf(viewWeightOnly, r.g.(weightedGraph), c.Undir)
	}

	src, dst := simple.Node(c.IDs[c.S]), simple.Node(c.IDs[c.T])
	ret, f := r.call("new", "NewDStarLite", r.m.hasNeg, func() { r.d = dynamic.NewDStarLite(src, dst, r.g, h, r.world) })
	if f != nil {
		return f
	}
	if !ret {
		vk.Class("dstar=negative-initial-world")
		vk.NonTrivial("dstar-neg", r.m.hash)
		return nil
	}
	if r.d.Here().ID() != src.ID() {
		return vk.Failf("here", "after NewDStarLite Here() = %d, start is %d", r.d.Here().ID(), src.ID())
	}
	r.replanAt = c.S
	prevP, prevW, f := r.verifyPath("after NewDStarLite")
	if f != nil {
		return f
	}

	changedOptimum := 0
	for i, op := range c.Ops {
		stage := fmt.Sprintf("op %d", i)
		switch op.Kind {
		case opStep:
			if _, f := r.step(stage + " (Step)"); f != nil {
				return f
			}
			if prevP, prevW, f = r.verifyPath(stage + " (after Step)"); f != nil {
				return f
			}
		case opMoveOnly:
			if op.Node < 0 || op.Node >= n {
				continue
			}
			if r.m.idx[r.d.Here().ID()] != r.replanAt {
				r.kmLost = true
			}
			if _, f := r.call("moveto", "MoveTo "+stage, false, func() { r.d.MoveTo(simple.Node(c.IDs[op.Node])) }); f != nil {
				return f
			}
			if r.d.Here().ID() != c.IDs[op.Node] {
				return vk.Failf("here", "%s: after MoveTo(%d) Here() = %d", stage, c.IDs[op.Node], r.d.Here().ID())
			}
			r.stale = true
			vk.Class("dstar-op=moveto-only")
			if prevP, prevW, f = r.verifyPath(stage + " (after MoveTo alone)"); f != nil {
				return f
			}
		case opUpdate, opMove:
			var valid []arc
			neg := false
			for _, a := range op.Ch {
				if a.U == -1 {
					// the V-th arc (cyclically) of the plan last returned by Path():
					// the robot finds the cost of an arc on its route changed
					if len(prevP) >= 2 && a.V >= 0 {
						j := a.V % (len(prevP) - 1)
						a.U, a.V = r.m.idx[prevP[j].ID()], r.m.idx[prevP[j+1].ID()]
						// only increases (W is added to the present weight, +Inf
						// blocks), so that the heuristic, which is built before the
						// plan is known, stays a lower bound
						if old := r.m.w[a.U][a.V]; a.W < 0 || math.IsNaN(old) {
							continue
						} else {
							a.W = vk.F(old + float64(a.W))
						}
						vk.Class("dstar-change=arc-on-current-plan")
					} else {
						continue
					}
				}
				if a.U != a.V && a.U >= 0 && a.V >= 0 && a.U < n && a.V < n && !math.IsNaN(float64(a.W)) {
					valid = append(valid, a)
					neg = neg || a.W < 0
				}
			}
			if op.Kind == opMove {
				if op.Node < 0 || op.Node >= n {
					continue
				}
				if len(valid) == 0 {
					// re-announce an existing arc so that UpdateWorld replans from the new position
					found := false
					for u := 0; u < n && !found; u++ {
						for v := 0; v < n && !found; v++ {
							if w := r.m.w[u][v]; !math.IsNaN(w) {
								valid = append(valid, arc{u, v, vk.F(w)})
								found = true
							}
						}
					}
					if !found {
						continue
					}
				}
				if r.m.idx[r.d.Here().ID()] != r.replanAt {
					r.kmLost = true
					vk.Class("dstar-op=moveto-after-step")
				}
				if _, f := r.call("moveto", "MoveTo "+stage, false, func() { r.d.MoveTo(simple.Node(c.IDs[op.Node])) }); f != nil {
					return f
				}
				if r.d.Here().ID() != c.IDs[op.Node] {
					return vk.Failf("here", "%s: after MoveTo(%d) Here() = %d", stage, c.IDs[op.Node], r.d.Here().ID())
				}
				prevP = nil
				r.stale = true
				vk.Class("dstar-op=moveto")
			}
			if len(valid) == 0 {
				continue
			}
			var changes []graph.Edge
			for _, a := range valid {
				r.setWorld(a.U, a.V, float64(a.W))
				changes = append(changes, simple.Edge{F: simple.Node(c.IDs[a.U]), T: simple.Node(c.IDs[a.V])})
				if c.Undir {
					changes = append(changes, simple.Edge{F: simple.Node(c.IDs[a.V]), T: simple.Node(c.IDs[a.U])})
				}
			}
			r.m.finish()
			neg = false // what counts is the weight the world holds when UpdateWorld reads it
			for _, a := range valid {
				neg = neg || r.m.w[a.U][a.V] < 0
			}
			ret, f := r.call("updateworld", "UpdateWorld "+stage, neg, func() { r.d.UpdateWorld(changes) })
			if f != nil {
				return f
			}
			if !ret {
				vk.Class("dstar=negative-update")
				return nil // state after the documented panic is not specified
			}
			r.replanAt = r.m.idx[r.d.Here().ID()]
			r.stale = false
			// did the update change the optimum of the previous plan?
			if prevP != nil {
				here := r.m.idx[r.d.Here().ID()]
				now := r.distToGoal()[here]
				if now != prevW || r.m.validWalk(prevP, here, c.T, prevW, false) != "" {
					changedOptimum++
				}
			}
			if prevP, prevW, f = r.verifyPath(stage + " (after UpdateWorld)"); f != nil {
				return f
			}
		}
	}

	// the documented loop on a world that no longer changes: every step is
	// along a shortest path, and with positive weights the goal is reached
	// (with zero-weight cycles the walk may wander; arrival is not asserted)
	start := r.m.idx[r.d.Here().ID()]
	reachable := !math.IsInf(r.distToGoal()[start], 1)
	arrived := false
	for i := 0; i <= n+1; i++ {
		moved, f := r.step(fmt.Sprintf("final walk step %d", i))
		if f != nil {
			return f
		}
		if !moved {
			arrived = true
			break
		}
	}
	if reachable && !r.zero {
		if !arrived || r.d.Here().ID() != dst.ID() {
			return vk.Failf(r.key("walk-does-not-arrive"), "for d.Step() {} on a static world starting at %d did not reach the goal %d within %d steps (at %d)", c.IDs[start], dst.ID(), n+2, r.d.Here().ID())
		}
	}

	if changedOptimum > 0 {
		vk.Class("dstar=update-changed-optimum")
		vk.NonTrivial("dstar", r.m.hash, c.S, c.T, c.HMode, len(c.Ops), changedOptimum)
	}
	if r.zero {
		vk.Class("dstar=zero-weights")
	} else {
		vk.Class("dstar=positive-weights")
	}
	if c.Undir {
		vk.Class("dstar=undirected-world")
	}
	return nil
}

func drawDStar(t *rapid.T) dstarCase {
	var c dstarCase
	n := rapid.IntRange(1, 14).Draw(t, "n")
	if rapid.IntRange(0, 9).Draw(t, "big") == 0 {
		n = rapid.IntRange(15, 30).Draw(t, "nbig")
	}
	c.Undir = rapid.IntRange(0, 9).Draw(t, "undirected") < 3
	c.IDs = drawIDs(t, n)
	wmode := rapid.SampledFrom([]int{wPos, wPos, wPos, wPos, wPos, w12, wUnit, wAll}).Draw(t, "wmode")
	cls := rapid.SampledFrom([]int{clsTree, clsSparse, clsSparse, clsDense, clsDisconnected, clsSinks}).Draw(t, "class")
	r := rapidRnd{t}
	c.Arcs = genArcs(r, n, cls, wmode, c.Undir)
	negative := rapid.IntRange(0, 39).Draw(t, "negative") == 0
	if negative && len(c.Arcs) > 0 && rapid.Bool().Draw(t, "neginit") {
		c.Arcs[r.Intn(len(c.Arcs))].W = -1
		negative = false
	}
	c.S = r.Intn(n)
	c.T = r.Intn(n)
	c.HMode = rapid.SampledFrom([]int{2, 2, 0, 1}).Draw(t, "hmode")
	c.HF = rapid.IntRange(1, len(hFactors)-1).Draw(t, "hf")
	if rapid.IntRange(0, 7).Draw(t, "weightonly") == 0 {
		c.View = viewWeightOnly
	}
	nops := rapid.IntRange(0, vk.Pick(24, 40)).Draw(t, "nops")
	for i := 0; i < nops; i++ {
		var op dsOp
		switch k := rapid.IntRange(0, 10).Draw(t, "op"); {
		case k < 5:
			op.Kind = opStep
		case k < 9:
			op.Kind = opUpdate
		case k == 9:
			op.Kind = opMove
			op.Node = r.Intn(n)
		default:
			op.Kind = opMoveOnly
			op.Node = r.Intn(n)
		}
		if (op.Kind == opUpdate || op.Kind == opMove) && n >= 2 {
			nch := rapid.IntRange(1, 3).Draw(t, "nch")
			for j := 0; j < nch; j++ {
				var a arc
				if rapid.IntRange(0, 2).Draw(t, "onplan") == 0 {
					a.U, a.V = -1, rapid.IntRange(0, 5).Draw(t, "planpos")
				} else if len(c.Arcs) > 0 && rapid.IntRange(0, 3).Draw(t, "existing") > 0 {
					e := c.Arcs[r.Intn(len(c.Arcs))]
					a.U, a.V = e.U, e.V
				} else {
					a.U, a.V = r.Intn(n), r.Intn(n)
				}
				switch k := rapid.IntRange(0, 9).Draw(t, "wkind"); {
				case k < 3:
					a.W = vk.F(inf)
				case k == 3 && negative:
					a.W = -1
				default:
					a.W = vk.F(drawW(r, wmode))
				}
				op.Ch = append(op.Ch, a)
			}
		}
		c.Ops = append(c.Ops, op)
	}
	return c
}

func TestDStarLite(t *testing.T) {
	vk.Run(t, "dstar", vk.Opts{Quick: 16000, Thorough: 250000}, drawDStar, checkDStar)
}
