package c13

import (
	"fmt"
	"math"
	"sort"

	"gonum.org/v1/gonum/graph"
	"gonum.org/v1/gonum/graph/path"
	"gonum.org/v1/gonum/graph/simple"
	"gonum.org/v1/gonum/graph/traverse"
	"verifharness/vk"
)

// staticCase is a graph with the queries made on it.
type staticCase struct {
	graphDef
	Implicit int      // 0: routines get the graph.Graph, 1: only the traverse.Graph+Weighted view, 2: both
	Srcs     []int    // sources of the single-source routines (index n = an ID absent from the graph)
	Pairs    [][2]int // point-to-point queries (DijkstraFromTo, AStar)
	HF       int      // index of the factor of the consistent heuristic
	HSeed    uint64   // selects the per-node factors of the inconsistent heuristic
	View     int      // what the value handed to the routines implements (viewFull, viewWeightOnly, viewPlain)
	View2    int      `json:",omitempty"` // exhaustive part: a second view under which the graph is checked as well
}

const (
	enumMaxN     = 9   // brute-force path enumeration up to this many nodes
	setCap       = 400 // all-shortest-path sets are compared only up to this many paths
	allSrcsMaxN  = 6   // every node is used as a source up to this size
	allPairsMaxN = 4   // every pair is used as a point-to-point query up to this size
)

var hFactors = []float64{0, 0.25, 0.5, 1}

type ctx struct {
	c      *staticCase
	m      *model
	cg     weightedGraph // the container holding the real weights
	g      graph.Graph   // the view of it that the routines get
	D      [][]float64
	negAny bool   // a negative cycle exists somewhere
	negRow []bool // a negative cycle is reachable from the source
	enum   []*sEnum
	zc     []bool
	col    map[int][]float64
	sets   map[[2]int]setRes
	// soft is the first failure of an oracle that is reported only after all
	// other oracles of the case have been evaluated (so that a known finding
	// does not mask the rest of the case).
	soft *vk.Failure
	// skippedSets counts (routine, pair) combinations for which the set of
	// all shortest paths was not compared.
	skippedSets int
}

func (k *ctx) softFail(f *vk.Failure) {
	if k.soft == nil {
		k.soft = f
	}
}

type setRes struct {
	paths []string
	known bool
}

func newCtx(c *staticCase) *ctx {
	arcs := c.allArcs()
	real := newModel(c.nodeIDs(), arcs, c.Undir)
	m := real
	if c.View == viewPlain {
		// the routines cannot see the weights: UniformCost is documented
		m = newModel(c.nodeIDs(), unitArcs(arcs), c.Undir)
	}
	k := &ctx{c: c, m: m, col: map[int][]float64{}, sets: map[[2]int]setRes{}}
	k.cg = buildGraph(c.Kind, real)
	k.g = viewOf(c.View, k.cg, c.Undir)
	k.D = m.allPairs()
	k.negRow = make([]bool, m.n+1)
	for s := 0; s < m.n; s++ {
		for _, d := range k.D[s] {
			if math.IsInf(d, -1) {
				k.negRow[s] = true
				k.negAny = true
				break
			}
		}
	}
	k.enum = make([]*sEnum, m.n+1)
	if m.n <= enumMaxN {
		for s := 0; s < m.n; s++ {
			if k.negRow[s] {
				continue
			}
			e := m.enumFrom(s)
			k.enum[s] = e
			for t := 0; t < m.n; t++ {
				if e.best[t] != k.D[s][t] {
					panic(fmt.Sprintf("harness oracle disagreement: enumeration %v, Bellman-Ford %v for %d->%d", e.best[t], k.D[s][t], s, t))
				}
			}
		}
	}
	k.zc = make([]bool, m.n)
	for a := 0; a < m.n; a++ {
		for _, b := range m.out[a] {
			if m.w[a][b]+k.D[b][a] == 0 {
				k.zc[a] = true
			}
		}
	}
	return k
}

func (k *ctx) node(i int) graph.Node { return simple.Node(k.m.id(i)) }

func (k *ctx) column(t int) []float64 {
	if c, ok := k.col[t]; ok {
		return c
	}
	c := make([]float64, k.m.n)
	for x := range c {
		c[x] = k.D[x][t]
	}
	k.col[t] = c
	return c
}

// shortSet returns the set of simple shortest s->t paths (sorted index
// strings) if the harness can determine it.
func (k *ctx) shortSet(s, t int) (paths []string, known bool) {
	if r, ok := k.sets[[2]int{s, t}]; ok {
		return r.paths, r.known
	}
	paths, known = k.shortSet1(s, t)
	k.sets[[2]int{s, t}] = setRes{paths, known}
	return paths, known
}

func (k *ctx) shortSet1(s, t int) (paths []string, known bool) {
	if s >= k.m.n || t >= k.m.n || k.negRow[s] {
		return nil, false
	}
	if math.IsInf(k.D[s][t], 1) {
		return nil, true
	}
	if e := k.enum[s]; e != nil {
		if len(e.short[t]) > setCap {
			return nil, false
		}
		paths = append([]string(nil), e.short[t]...)
	} else {
		var ok bool
		limit, budget := 64, 4000
		if k.m.n > 25 {
			limit, budget = 16, 500
		}
		paths, ok = k.m.tightPaths(s, t, k.D[s], k.column(t), limit, budget)
		if !ok {
			return nil, false
		}
	}
	sort.Strings(paths)
	return paths, true
}

// zeroCycleOnShortestWalk reports whether a zero-weight cycle lies on some
// shortest walk from s to t.
func (k *ctx) zeroCycleOnShortestWalk(s, t int) bool {
	for a := 0; a < k.m.n; a++ {
		if k.zc[a] && k.D[s][a]+k.D[a][t] == k.D[s][t] {
			return true
		}
	}
	return false
}

// zeroCycleReps is the number of extra To/Between samples taken where the
// returned path depends on the library's random choices.
const zeroCycleReps = 8

// randomised reports whether To/Between for (s,t) involve random choices that
// are worth sampling repeatedly (small graphs with a zero-weight cycle on a
// shortest walk).
func (k *ctx) randomised(s, t int) bool {
	return k.m.n <= enumMaxN && k.zeroCycleOnShortestWalk(s, t)
}

// uniqueRule checks the documented meaning of the unique result.
func (k *ctx) uniqueRule(s, t int, unique bool) string {
	set, known := k.shortSet(s, t)
	if !known {
		return ""
	}
	switch {
	case len(set) >= 2 && unique:
		return fmt.Sprintf("unique==true although %d simple shortest paths exist (e.g. %s and %s)", len(set), k.m.showIdx(set[0]), k.m.showIdx(set[1]))
	case len(set) == 1 && !unique && !k.zeroCycleOnShortestWalk(s, t):
		return fmt.Sprintf("unique==false although %s is the only shortest path and no zero-weight cycle lies on a shortest walk", k.m.showIdx(set[0]))
	}
	return ""
}

func (k *ctx) compareSet(got [][]graph.Node, s, t int) string {
	want, known := k.shortSet(s, t)
	if !known {
		return ""
	}
	gs := make([]string, len(got))
	for i, p := range got {
		if r := k.m.validPath(p, s, t, k.D[s][t]); r != "" {
			return fmt.Sprintf("returned path %s: %s", showPath(p), r)
		}
		gs[i], _ = k.m.idxString(p)
	}
	sort.Strings(gs)
	for i := 1; i < len(gs); i++ {
		if gs[i] == gs[i-1] {
			return fmt.Sprintf("path %s returned twice", k.m.showIdx(gs[i]))
		}
	}
	if len(gs) != len(want) {
		missing := ""
		have := map[string]bool{}
		for _, x := range gs {
			have[x] = true
		}
		for _, x := range want {
			if !have[x] {
				missing = " e.g. missing " + k.m.showIdx(x)
				break
			}
		}
		return fmt.Sprintf("%d paths returned, %d simple shortest paths exist%s", len(gs), len(want), missing)
	}
	for i := range gs {
		if gs[i] != want[i] {
			return fmt.Sprintf("returned %s which differs from the expected set (expected %s)", k.m.showIdx(gs[i]), k.m.showIdx(want[i]))
		}
	}
	return ""
}

// wantAllPaths says whether the all-shortest-paths queries are made for (s,t).
//
// AllTo/AllBetween search the predecessor graph depth first from the target.
// When zero-weight cycles lie on shortest walks that search can meet
// exponentially many dead ends although few shortest paths exist; this is a
// cost, not a correctness, matter, so beyond enumMaxN nodes the queries are
// made only where no zero-weight cycle is involved.
func (k *ctx) wantAllPaths(s, t int) bool {
	_, known := k.shortSet(s, t)
	if !known {
		return false
	}
	return k.m.n <= enumMaxN || !k.zeroCycleOnShortestWalk(s, t)
}

// ---- Shortest ---------------------------------------------------------------

func (k *ctx) where(name string, s, t int) string {
	return fmt.Sprintf("%s from %d to %d", name, k.m.id(s), k.m.id(t))
}

// How the query for the source itself is treated.
const (
	selfNormal       = iota
	selfAbsent       // the source is not in the graph: the answer is not asserted, but it must not fault
	selfImplicitSink // a source without successors seen through a traverse.Graph: findings get their own key
)

// checkShortest checks a Shortest tree rooted at s.
func (k *ctx) checkShortest(name string, sp path.Shortest, s int, self int) *vk.Failure {
	m := k.m
	if sp.From() == nil || sp.From().ID() != m.id(s) {
		return vk.Failf(name+"/from", "From() does not return the source %d", m.id(s))
	}
	for t := 0; t <= m.n; t++ {
		if t == s && self != selfNormal {
			sid := m.id(s)
			var p []graph.Node
			var w, wt float64
			r := vk.Call(func() { wt = sp.WeightTo(sid); p, w = sp.To(sid) })
			switch {
			case r.Outcome != vk.Returned:
				k.softFail(vk.Failf("source-self-query/panic", "%s: Shortest.WeightTo/To(source) ended in %v: %s", k.where(name, s, t), r.Outcome, r.Text))
			case self == selfImplicitSink && !(wt == 0 && w == 0 && len(p) == 1 && p[0] != nil && p[0].ID() == sid):
				k.softFail(vk.Failf("implicit-sink-self/no-trivial-path", "%s: the source has no successors: WeightTo=%v To=%s,%v; want the one-node path of weight 0", k.where(name, s, t), wt, showPath(p), w))
			}
			continue
		}
		want := inf
		if t < m.n {
			want = k.D[s][t]
		}
		tid := m.id(t)
		if got := sp.WeightTo(tid); got != want {
			return vk.Failf(name+"/weightto", "%s: WeightTo=%v, true distance %v", k.where(name, s, t), got, want)
		}
		p, w := sp.To(tid)
		if w != want {
			return vk.Failf(name+"/to-weight", "%s: To weight=%v, true distance %v", k.where(name, s, t), w, want)
		}
		if math.IsInf(want, 1) {
			if len(p) != 0 {
				return vk.Failf(name+"/to-unreachable", "%s: unreachable but path %s returned", k.where(name, s, t), showPath(p))
			}
			continue
		}
		if r := m.validPath(p, s, t, w); r != "" {
			return vk.Failf(name+"/to-path", "%s: path %s: %s", k.where(name, s, t), showPath(p), r)
		}
	}
	return nil
}

// checkAlts checks a ShortestAlts tree rooted at s.
func (k *ctx) checkAlts(name string, sp path.ShortestAlts, s int, self int) *vk.Failure {
	m := k.m
	if sp.From() == nil || sp.From().ID() != m.id(s) {
		return vk.Failf(name+"/from", "From() does not return the source %d", m.id(s))
	}
	for t := 0; t <= m.n; t++ {
		if t == s && self != selfNormal {
			sid := m.id(s)
			var p []graph.Node
			var ps, fs [][]graph.Node
			var w, wt, aw float64
			r := vk.Call(func() { wt = sp.WeightTo(sid); p, w, _ = sp.To(sid) })
			if r.Outcome == vk.Returned {
				r = vk.Call(func() {
					ps, aw = sp.AllTo(sid)
					sp.AllToFunc(sid, func(p []graph.Node) { fs = append(fs, append([]graph.Node(nil), p...)) })
				})
				if r.Outcome != vk.Returned && self == selfAbsent {
					k.softFail(vk.Failf("allto-absent-source-self/panic", "%s: the source is not in the graph: ShortestAlts.AllTo/AllToFunc(source) ended in %v: %s", k.where(name, s, t), r.Outcome, r.Text))
					continue
				}
			}
			one := func(p []graph.Node) bool { return len(p) == 1 && p[0] != nil && p[0].ID() == sid }
			switch {
			case r.Outcome != vk.Returned:
				k.softFail(vk.Failf("source-self-query/panic", "%s: ShortestAlts queries for the source ended in %v: %s", k.where(name, s, t), r.Outcome, r.Text))
			case self == selfImplicitSink && !(wt == 0 && w == 0 && one(p) && aw == 0 && len(ps) == 1 && one(ps[0]) && len(fs) == 1 && one(fs[0])):
				k.softFail(vk.Failf("implicit-sink-self/no-trivial-path", "%s: the source has no successors: WeightTo=%v To=%s,%v AllTo=%d paths,%v; want the one-node path of weight 0", k.where(name, s, t), wt, showPath(p), w, len(ps), aw))
			}
			continue
		}
		want := inf
		if t < m.n {
			want = k.D[s][t]
		}
		tid := m.id(t)
		if got := sp.WeightTo(tid); got != want {
			return vk.Failf(name+"/weightto", "%s: WeightTo=%v, true distance %v", k.where(name, s, t), got, want)
		}
		p, w, unique := sp.To(tid)
		if w != want {
			return vk.Failf(name+"/to-weight", "%s: To weight=%v, true distance %v", k.where(name, s, t), w, want)
		}
		if math.IsInf(want, 1) {
			if len(p) != 0 || unique {
				return vk.Failf(name+"/to-unreachable", "%s: unreachable but path %s unique=%v returned", k.where(name, s, t), showPath(p), unique)
			}
			ps, aw := sp.AllTo(tid)
			if len(ps) != 0 || !math.IsInf(aw, 1) {
				return vk.Failf(name+"/allto-unreachable", "%s: unreachable but AllTo returned %d paths, weight %v", k.where(name, s, t), len(ps), aw)
			}
			continue
		}
		r := m.validPath(p, s, t, w)
		if r == "" && k.randomised(s, t) {
			// the path is chosen with the global RNG: sample a few more
			for rep := 0; rep < zeroCycleReps && r == ""; rep++ {
				p2, w2, _ := sp.To(tid)
				if r = m.validPath(p2, s, t, w2); r != "" {
					p = p2
				}
			}
		}
		if r != "" {
			if k.zeroCycleOnShortestWalk(s, t) {
				k.softFail(vk.Failf("zero-cycle-cut/invalid-path", "%s (ShortestAlts.To; a zero-weight cycle lies on a shortest walk): path %s: %s", k.where(name, s, t), showPath(p), r))
			} else {
				return vk.Failf(name+"/to-path", "%s: path %s: %s", k.where(name, s, t), showPath(p), r)
			}
		}
		if r := k.uniqueRule(s, t, unique); r != "" {
			return vk.Failf(name+"/to-unique", "%s: %s", k.where(name, s, t), r)
		}
		if !k.wantAllPaths(s, t) {
			k.skippedSets++
			continue
		}
		ps, aw := sp.AllTo(tid)
		if aw != want {
			return vk.Failf(name+"/allto-weight", "%s: AllTo weight=%v, true distance %v", k.where(name, s, t), aw, want)
		}
		if r := k.compareSet(ps, s, t); r != "" {
			return vk.Failf(name+"/allto-set", "%s: %s", k.where(name, s, t), r)
		}
		var fs [][]graph.Node
		sp.AllToFunc(tid, func(p []graph.Node) { fs = append(fs, append([]graph.Node(nil), p...)) })
		if r := k.compareSet(fs, s, t); r != "" {
			return vk.Failf(name+"/alltofunc-set", "%s: %s", k.where(name, s, t), r)
		}
	}
	return nil
}

// ---- AllShortest ------------------------------------------------------------

// checkAll checks an AllShortest for every pair. With negCycles the documented
// -Inf reporting of the Floyd-Warshall result is expected for pairs whose walks
// can pass through a negative cycle.
func (k *ctx) checkAll(name string, ap path.AllShortest, negCycles bool) *vk.Failure {
	m := k.m
	for s := 0; s <= m.n; s++ {
		if k.negRow[s] && !negCycles {
			panic("checkAll: negative cycle without negCycles")
		}
		for t := 0; t <= m.n; t++ {
			if s == m.n && t == m.n {
				continue // s == t absent: not asserted
			}
			want := inf
			if s < m.n && t < m.n {
				want = k.D[s][t]
			}
			sid, tid := m.id(s), m.id(t)
			if got := ap.Weight(sid, tid); got != want {
				return vk.Failf(name+"/weight", "%s: Weight=%v, true distance %v", k.where(name, s, t), got, want)
			}
			p, w, unique := ap.Between(sid, tid)
			if s == t && math.IsInf(want, -1) {
				// A node on a negative closed walk asked for the path to itself:
				// the documentation can be read either way (the one-node path of
				// weight 0, or the negative-cycle report); both are accepted.
				trivial := len(p) == 1 && p[0] != nil && p[0].ID() == sid && w == 0
				flagged := len(p) == 0 && math.IsInf(w, -1) && !unique
				if !trivial && !flagged {
					return vk.Failf(name+"/between-self-negcycle", "%s: got path %s weight %v unique %v", k.where(name, s, t), showPath(p), w, unique)
				}
				ap.AllBetween(sid, tid)
				continue
			}
			if w != want {
				return vk.Failf(name+"/between-weight", "%s: Between weight=%v, true distance %v", k.where(name, s, t), w, want)
			}
			if math.IsInf(want, 0) {
				// +Inf: unreachable; -Inf: "path will be returned nil, weight will be -Inf and unique will be false"
				if len(p) != 0 || unique {
					return vk.Failf(name+"/between-nopath", "%s: distance %v but path %s unique=%v returned", k.where(name, s, t), want, showPath(p), unique)
				}
				ps, aw := ap.AllBetween(sid, tid)
				if len(ps) != 0 || aw != want {
					return vk.Failf(name+"/allbetween-nopath", "%s: distance %v but AllBetween returned %d paths, weight %v", k.where(name, s, t), want, len(ps), aw)
				}
				n := 0
				ap.AllBetweenFunc(sid, tid, func([]graph.Node) { n++ })
				if n != 0 {
					return vk.Failf(name+"/allbetweenfunc-nopath", "%s: distance %v but AllBetweenFunc produced %d paths", k.where(name, s, t), want, n)
				}
				continue
			}
			r := m.validPath(p, s, t, w)
			if r == "" && !k.negRow[s] && k.randomised(s, t) {
				for rep := 0; rep < zeroCycleReps && r == ""; rep++ {
					p2, w2, _ := ap.Between(sid, tid)
					if r = m.validPath(p2, s, t, w2); r != "" {
						p = p2
					}
				}
			}
			if r != "" {
				if k.zeroCycleOnShortestWalk(s, t) {
					k.softFail(vk.Failf("zero-cycle-cut/invalid-path", "%s (AllShortest.Between; a zero-weight cycle lies on a shortest walk): path %s: %s", k.where(name, s, t), showPath(p), r))
				} else {
					return vk.Failf(name+"/between-path", "%s: path %s: %s", k.where(name, s, t), showPath(p), r)
				}
			}
			if k.negRow[s] {
				continue // uniqueness and path sets are asserted without negative cycles only
			}
			if r := k.uniqueRule(s, t, unique); r != "" {
				return vk.Failf(name+"/between-unique", "%s: %s", k.where(name, s, t), r)
			}
			if !k.wantAllPaths(s, t) {
				k.skippedSets++
				continue
			}
			ps, aw := ap.AllBetween(sid, tid)
			if aw != want {
				return vk.Failf(name+"/allbetween-weight", "%s: AllBetween weight=%v, true distance %v", k.where(name, s, t), aw, want)
			}
			if r := k.compareSet(ps, s, t); r != "" {
				return vk.Failf(name+"/allbetween-set", "%s: %s", k.where(name, s, t), r)
			}
			var fs [][]graph.Node
			ap.AllBetweenFunc(sid, tid, func(p []graph.Node) { fs = append(fs, append([]graph.Node(nil), p...)) })
			if r := k.compareSet(fs, s, t); r != "" {
				return vk.Failf(name+"/allbetweenfunc-set", "%s: %s", k.where(name, s, t), r)
			}
		}
	}
	return nil
}

// ---- the check --------------------------------------------------------------

// negReachable reports whether a negative arc has its tail reachable from s.
func (k *ctx) negReachable(s int) bool {
	if s >= k.m.n || !k.m.hasNeg {
		return false
	}
	for u := 0; u < k.m.n; u++ {
		if math.IsInf(k.D[s][u], 1) {
			continue
		}
		for _, v := range k.m.out[u] {
			if k.m.w[u][v] < 0 {
				return true
			}
		}
	}
	return false
}

// outcome runs f. mustPanic: the documentation promises a panic; mayPanic: a
// package panic is acceptable. A runtime fault is never acceptable.
func outcome(key, what string, mustPanic, mayPanic bool, f func()) (returned bool, fail *vk.Failure) {
	r := vk.Call(f)
	switch r.Outcome {
	case vk.RuntimeFault:
		return false, vk.Failf(key+"/runtime-fault", "%s ended in a runtime fault: %s", what, r.Text)
	case vk.PackagePanic:
		if !mustPanic && !mayPanic {
			return false, vk.Failf(key+"/unexpected-panic", "%s panicked on valid input: %s", what, r.Text)
		}
		return false, nil
	}
	if mustPanic {
		return true, vk.Failf(key+"/no-panic", "%s returned although the documentation promises a panic (negative edge weight)", what)
	}
	return true, nil
}

func (k *ctx) heuristic(mode int) path.Heuristic {
	m := k.m
	f := hFactors[k.c.HF%len(hFactors)]
	return func(x, y graph.Node) float64 {
		xi, ok1 := m.idx[x.ID()]
		yi, ok2 := m.idx[y.ID()]
		if !ok1 || !ok2 {
			return 0
		}
		d := k.D[xi][yi]
		fx := f
		if mode == 2 {
			z := vk.NewSplitMix(k.c.HSeed ^ uint64(xi)*0x9e3779b97f4a7c15)
			fx = float64(z.Intn(2))
		}
		if fx == 0 || math.IsInf(d, -1) || math.IsNaN(d) {
			return 0
		}
		return fx * d
	}
}

// usesHopCounts reports whether, in the weight-only view, an all-pairs result
// holds exactly the uniform-cost distances although these differ from the
// weighted ones (or a negative weight should have been rejected).
func (k *ctx) usesHopCounts(ap path.AllShortest) bool {
	if k.c.View != viewWeightOnly || k.m.n == 0 {
		return false
	}
	m := k.m
	var arcs []arc
	for u := 0; u < m.n; u++ {
		for _, v := range m.out[u] {
			if !m.und || u < v {
				arcs = append(arcs, arc{u, v, 1})
			}
		}
	}
	hop := newModel(m.ids, arcs, m.und).allPairs()
	differs := m.hasNeg
	for s := 0; s < m.n; s++ {
		for t := 0; t < m.n; t++ {
			if ap.Weight(m.ids[s], m.ids[t]) != hop[s][t] {
				return false
			}
			differs = differs || hop[s][t] != k.D[s][t]
		}
	}
	return differs
}

func checkStatic(c staticCase) *vk.Failure {
	k := newCtx(&c)
	m := k.m
	n := m.n
	k.evidence()

	// ---- all-pairs routines ----
	{
		var ap path.AllShortest
		ret, f := outcome("dijkstra-all-paths", "DijkstraAllPaths", m.hasNeg, false, func() { ap = path.DijkstraAllPaths(k.g) })
		if ret && k.usesHopCounts(ap) {
			// DijkstraAllPaths on a graph that implements path.Weighted but not
			// graph.Weighted: own key, the remaining routines are still checked
			k.softFail(vk.Failf("weight-only-graph/dijkstra-all-paths-uses-uniform-cost", "DijkstraAllPaths on a graph implementing path.Weighted (Weight) but not graph.Weighted (WeightedEdge) reports hop counts for every pair instead of the weights that DijkstraFrom, FloydWarshall and JohnsonAllPaths use on the same value"))
		} else {
			if f != nil {
				return f
			}
			if ret {
				if f := k.checkAll("dijkstra-all-paths", ap, false); f != nil {
					return f
				}
			}
		}
	}
	{
		ap, ok := path.FloydWarshall(k.g)
		if ok == k.negAny {
			return vk.Failf("floyd-warshall/ok", "FloydWarshall ok=%v, negative cycle exists: %v", ok, k.negAny)
		}
		if f := k.checkAll("floyd-warshall", ap, k.negAny); f != nil {
			return f
		}
	}
	{
		ap, ok := path.JohnsonAllPaths(k.g)
		if ok == k.negAny {
			return vk.Failf("johnson/ok", "JohnsonAllPaths ok=%v, negative cycle exists: %v", ok, k.negAny)
		}
		if ok {
			if f := k.checkAll("johnson", ap, false); f != nil {
				return f
			}
		}
	}

	// ---- single-source routines ----
	srcs := c.Srcs
	if n <= allSrcsMaxN {
		srcs = srcs[:0:0]
		for s := 0; s <= n; s++ {
			srcs = append(srcs, s)
		}
	}
	for _, s := range srcs {
		if s < 0 || s > n {
			continue
		}
		for imp := 0; imp < 2; imp++ {
			if (imp == 0 && c.Implicit == 1) || (imp == 1 && c.Implicit == 0) {
				continue
			}
			var tg traverse.Graph = k.g
			sfx := ""
			self := selfNormal
			if s == n {
				self = selfAbsent
			}
			if imp == 1 {
				tg = implicitOf(c.View, k.cg)
				sfx = "-implicit"
				if s < n && len(m.out[s]) == 0 {
					self = selfImplicitSink
				}
			}
			src := k.node(s)
			negArc := k.negReachable(s)

			var sp path.Shortest
			ret, f := outcome("dijkstra-from"+sfx, "DijkstraFrom", negArc, false, func() { sp = path.DijkstraFrom(src, tg) })
			if f != nil {
				return f
			}
			if ret {
				if f := k.checkShortest("dijkstra-from"+sfx, sp, s, self); f != nil {
					return f
				}
			}
			var sa path.ShortestAlts
			ret, f = outcome("dijkstra-all-from"+sfx, "DijkstraAllFrom", negArc, false, func() { sa = path.DijkstraAllFrom(src, tg) })
			if f != nil {
				return f
			}
			if ret {
				if f := k.checkAlts("dijkstra-all-from"+sfx, sa, s, self); f != nil {
					return f
				}
			}

			bf, ok := path.BellmanFordFrom(src, tg)
			if ok == k.negRow[s] {
				return vk.Failf("bellman-ford-from"+sfx+"/ok", "BellmanFordFrom(%d) ok=%v, negative cycle reachable from the source: %v", m.id(s), ok, k.negRow[s])
			}
			if ok {
				if f := k.checkShortest("bellman-ford-from"+sfx, bf, s, self); f != nil {
					return f
				}
			} else if f := k.checkNegShortest("bellman-ford-from"+sfx, bf, s); f != nil {
				return f
			}
			bfa, ok := path.BellmanFordAllFrom(src, tg)
			if ok == k.negRow[s] {
				return vk.Failf("bellman-ford-all-from"+sfx+"/ok", "BellmanFordAllFrom(%d) ok=%v, negative cycle reachable from the source: %v", m.id(s), ok, k.negRow[s])
			}
			if ok {
				if f := k.checkAlts("bellman-ford-all-from"+sfx, bfa, s, self); f != nil {
					return f
				}
			} else if f := k.checkNegAlts("bellman-ford-all-from"+sfx, bfa, s); f != nil {
				return f
			}
		}
	}

	// ---- point-to-point routines ----
	pairs := c.Pairs
	if n <= allPairsMaxN {
		pairs = pairs[:0:0]
		for s := 0; s <= n; s++ {
			for t := 0; t <= n; t++ {
				pairs = append(pairs, [2]int{s, t})
			}
		}
	}
	for _, q := range pairs {
		s, t := q[0], q[1]
		if s < 0 || t < 0 || s > n || t > n || (s == n && t == n) {
			continue
		}
		for imp := 0; imp < 2; imp++ {
			if (imp == 0 && c.Implicit == 1) || (imp == 1 && c.Implicit == 0) {
				continue
			}
			var tg traverse.Graph = k.g
			sfx := ""
			if imp == 1 {
				tg = implicitOf(c.View, k.cg)
				sfx = "-implicit"
			}
			if f := k.checkP2P(sfx, tg, s, t); f != nil {
				return f
			}
		}
	}
	if k.skippedSets > 0 {
		vk.Class("allpaths=some-sets-not-compared")
	} else {
		vk.Class("allpaths=all-sets-compared")
	}
	return k.soft
}

// checkP2P checks DijkstraFromTo and AStar for one query.
func (k *ctx) checkP2P(sfx string, tg traverse.Graph, s, t int) *vk.Failure {
	m := k.m
	want := inf
	if s < m.n && t < m.n {
		want = k.D[s][t]
	}
	negArc := k.negReachable(s)
	src, dst := k.node(s), k.node(t)
	judge := func(name string, p []graph.Node, w float64) *vk.Failure {
		if w != want {
			return vk.Failf(name+"/weight", "%s: weight=%v, true distance %v (path %s)", k.where(name, s, t), w, want, showPath(p))
		}
		if math.IsInf(want, 1) {
			if len(p) != 0 {
				return vk.Failf(name+"/unreachable", "%s: unreachable but path %s returned", k.where(name, s, t), showPath(p))
			}
			return nil
		}
		if r := m.validPath(p, s, t, w); r != "" {
			return vk.Failf(name+"/path", "%s: path %s: %s", k.where(name, s, t), showPath(p), r)
		}
		return nil
	}
	{
		var p []graph.Node
		var w float64
		ret, f := outcome("dijkstra-from-to"+sfx, "DijkstraFromTo", false, negArc, func() { p, w = path.DijkstraFromTo(src, dst, tg) })
		if f != nil {
			return f
		}
		if ret && !negArc {
			name := "dijkstra-from-to" + sfx
			if s == t && len(m.out[s]) == 0 {
				name = "dijkstra-from-to-sink-self"
			}
			if f := judge(name, p, w); f != nil {
				if s == t && len(m.out[s]) == 0 {
					if sfx != "" {
						f = vk.Failf("implicit-sink-self/no-trivial-path", "DijkstraFromTo(%d,%d) on a traverse.Graph, the node has no successors: %s", m.id(s), m.id(t), f.Msg)
					}
					k.softFail(f)
				} else {
					return f
				}
			}
		}
	}
	for mode := 0; mode < 3; mode++ {
		var h path.Heuristic
		name := "astar-nil" + sfx
		switch mode {
		case 1:
			h = k.heuristic(1)
			name = "astar-consistent" + sfx
		case 2:
			h = k.heuristic(2)
			name = "astar-inconsistent" + sfx
		}
		var sp path.Shortest
		ret, f := outcome(name, "AStar", false, negArc, func() { sp, _ = path.AStar(src, dst, tg, h) })
		if f != nil {
			return f
		}
		if !ret || negArc {
			continue
		}
		f = nil
		if got := sp.WeightTo(m.id(t)); got != want {
			f = vk.Failf(name+"/weightto", "%s: WeightTo=%v, true distance %v", k.where(name, s, t), got, want)
		} else {
			p, w := sp.To(m.id(t))
			f = judge(name, p, w)
		}
		if f != nil {
			if mode == 2 {
				k.softFail(vk.Failf("astar-inconsistent-heuristic/suboptimal", "admissible but inconsistent heuristic (seed %d): %s", k.c.HSeed, f.Msg))
			} else {
				return f
			}
		}
	}
	return nil
}

// checkNegShortest: Bellman-Ford reported a negative cycle. The queries must
// still terminate without a fault, and a node none of whose walks touches a
// negative cycle keeps its true weight ("If the path to v includes a negative
// cycle, the returned weight will not reflect the true path weight").
func (k *ctx) checkNegShortest(name string, sp path.Shortest, s int) *vk.Failure {
	m := k.m
	for t := 0; t <= m.n; t++ {
		tid := m.id(t)
		want := inf
		if t < m.n {
			want = k.D[s][t]
		}
		var got float64
		if _, f := outcome(name+"-neg", "Shortest.WeightTo/To after a negative cycle", false, false, func() {
			got = sp.WeightTo(tid)
			sp.To(tid)
		}); f != nil {
			return f
		}
		if !math.IsInf(want, -1) && got != want {
			return vk.Failf(name+"-neg/weightto", "%s: node not touched by the negative cycle: WeightTo=%v, true distance %v", k.where(name, s, t), got, want)
		}
	}
	return nil
}

func (k *ctx) checkNegAlts(name string, sp path.ShortestAlts, s int) *vk.Failure {
	m := k.m
	for t := 0; t <= m.n; t++ {
		tid := m.id(t)
		want := inf
		if t < m.n {
			want = k.D[s][t]
		}
		var got float64
		if _, f := outcome(name+"-neg", "ShortestAlts.WeightTo/To/AllTo after a negative cycle", false, false, func() {
			got = sp.WeightTo(tid)
			sp.To(tid)
			if m.n <= enumMaxN {
				sp.AllTo(tid)
			}
		}); f != nil {
			return f
		}
		if !math.IsInf(want, -1) && got != want {
			return vk.Failf(name+"-neg/weightto", "%s: node not touched by the negative cycle: WeightTo=%v, true distance %v", k.where(name, s, t), got, want)
		}
	}
	return nil
}

// evidence records the classes and the non-triviality of the case.
func (k *ctx) evidence() {
	m := k.m
	c := k.c
	switch {
	case m.n <= 3:
		vk.Class("n=0-3")
	case m.n <= 6:
		vk.Class("n=4-6")
	case m.n <= 9:
		vk.Class("n=7-9")
	case m.n <= 25:
		vk.Class("n=10-25")
	default:
		vk.Class("n=26-60")
	}
	vk.Class([]string{"container=simple", "container=dense-matrix", "container=multi"}[c.Kind%numKinds])
	if c.Undir {
		vk.Class("undirected")
	} else {
		vk.Class("directed")
	}
	if c.Implicit > 0 {
		vk.Class("implicit-traverse-graph")
	}
	vk.Class(viewNames[c.View%numViews])
	if c.Cls >= 0 && c.Cls < numClasses {
		vk.Class("struct=" + classNames[c.Cls])
	}
	contig := true
	for i, id := range m.ids {
		contig = contig && id == int64(i)
	}
	if !contig {
		vk.Class("ids=non-contiguous")
	}
	tie, multi, zero, unreachable := false, false, false, false
	for s := 0; s < m.n; s++ {
		for t := 0; t < m.n; t++ {
			if math.IsInf(k.D[s][t], 1) {
				unreachable = true
			}
		}
		if e := k.enum[s]; e != nil {
			for t := 0; t < m.n; t++ {
				tie = tie || len(e.short[t]) >= 2
				multi = multi || e.total[t] >= 2
			}
		} else if !k.negRow[s] {
			// larger graphs: a node with two tight incoming arcs is a tie
			for t := 0; t < m.n && !tie; t++ {
				if s == t || math.IsInf(k.D[s][t], 1) {
					continue
				}
				cnt := 0
				for _, u := range m.in[t] {
					if k.D[s][u]+m.w[u][t] == k.D[s][t] {
						cnt++
					}
				}
				tie = tie || cnt >= 2
				multi = multi || len(m.in[t]) >= 2
			}
		}
	}
	for a := range k.zc {
		zero = zero || k.zc[a]
	}
	if tie {
		vk.Class("has-tie")
	}
	if zero {
		vk.Class("has-zero-weight-cycle")
	}
	if unreachable {
		vk.Class("has-unreachable-pair")
	}
	switch {
	case k.negAny:
		vk.Class("neg=negative-cycle")
	case m.hasNeg:
		vk.Class("neg=negative-arcs-no-cycle")
	default:
		vk.Class("neg=none")
	}
	if tie || multi || zero || m.hasNeg {
		vk.NonTrivial("static", m.hash, c.Kind, c.Implicit, c.View)
	}
}
