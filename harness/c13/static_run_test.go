package c13

import (
	"math"
	"testing"

	"pgregory.net/rapid"
	"verifharness/vk"
)

type rapidRnd struct{ t *rapid.T }

func (r rapidRnd) Intn(n int) int { return rapid.IntRange(0, n-1).Draw(r.t, "r") }

var bigIDs = []int64{1 << 31, 1<<31 - 1, 1<<32 + 1, 1 << 53, 1<<62 + 3, -(1 << 62), -(1 << 40), -1, math.MaxInt64 - 70, math.MinInt64 + 1, 1000000007}

// drawIDs draws n distinct node IDs: contiguous, shifted, scattered small, or
// mixed with very large and negative values.
func drawIDs(t *rapid.T, n int) []int64 {
	mode := rapid.IntRange(0, 4).Draw(t, "idmode")
	off := int64(0)
	if mode == 1 {
		off = int64(rapid.IntRange(-5, 1000).Draw(t, "idoff"))
	}
	ids := make([]int64, 0, n)
	used := map[int64]bool{}
	for i := 0; i < n; i++ {
		var id int64
		switch mode {
		case 0:
			id = int64(i)
		case 1:
			id = int64(i) + off
		case 2:
			id = int64(rapid.IntRange(-8, 3*n+8).Draw(t, "id"))
		case 3:
			if rapid.IntRange(0, 2).Draw(t, "idbig") == 0 {
				id = rapid.SampledFrom(bigIDs).Draw(t, "id")
			} else {
				id = int64(rapid.IntRange(-8, 3*n+8).Draw(t, "id"))
			}
		case 4:
			id = int64(n - 1 - i)
		}
		for used[id] {
			id++
		}
		used[id] = true
		ids = append(ids, id)
	}
	return ids
}

// drawGraphDef draws a graph with n nodes. Up to explicitMaxN nodes the arcs
// are drawn one by one (so that they shrink); larger graphs are expanded from
// a seed and get a few explicit extra arcs.
func drawGraphDef(t *rapid.T, n int, classes []int, wmodes []int, explicitMaxN int) graphDef {
	var d graphDef
	switch k := rapid.IntRange(0, 9).Draw(t, "kind"); {
	case k < 7:
		d.Kind = kindSimple
	case k < 8:
		d.Kind = kindDense
	default:
		d.Kind = kindMulti
	}
	if n == 0 && d.Kind == kindDense {
		d.Kind = kindSimple
	}
	d.Undir = rapid.IntRange(0, 9).Draw(t, "undirected") < 3
	d.IDs = drawIDs(t, n)
	d.Cls = rapid.SampledFrom(classes).Draw(t, "class")
	wmode := rapid.SampledFrom(wmodes).Draw(t, "wmode")
	if n <= explicitMaxN {
		d.Arcs = genArcs(rapidRnd{t}, n, d.Cls, wmode, d.Undir)
		return d
	}
	d.Gen = &genSpec{Class: d.Cls, WMode: wmode, Seed: rapid.Uint64().Draw(t, "seed")}
	for i := rapid.IntRange(0, 3).Draw(t, "extras"); i > 0; i-- {
		d.Arcs = append(d.Arcs, arc{rapid.IntRange(0, n-1).Draw(t, "xu"), rapid.IntRange(0, n-1).Draw(t, "xv"), vk.F(drawW(rapidRnd{t}, wmode))})
	}
	return d
}

func allClasses() []int {
	c := make([]int, numClasses)
	for i := range c {
		c[i] = i
	}
	return c
}

func drawStatic(t *rapid.T) staticCase {
	var c staticCase
	var n int
	switch sz := rapid.IntRange(0, 99).Draw(t, "sizeclass"); {
	case sz < 2:
		n = rapid.IntRange(0, 1).Draw(t, "n")
	case sz < 40:
		n = rapid.IntRange(2, 6).Draw(t, "n")
	case sz < 74:
		n = rapid.IntRange(7, 9).Draw(t, "n")
	case sz < 92:
		n = rapid.IntRange(10, 25).Draw(t, "n")
	default:
		n = rapid.IntRange(26, 60).Draw(t, "n")
	}
	c.graphDef = drawGraphDef(t, n, allClasses(), []int{wAll, wAll, wAll, wUnit, w01, w12, wPos}, 12)
	c.Implicit = rapid.SampledFrom([]int{0, 0, 1, 2}).Draw(t, "implicit")
	c.View = rapid.SampledFrom([]int{viewFull, viewFull, viewFull, viewWeightOnly, viewWeightOnly, viewPlain}).Draw(t, "view")
	c.Srcs = rapid.SliceOfN(rapid.IntRange(0, n), 1, 3).Draw(t, "srcs")
	np := rapid.IntRange(1, 3).Draw(t, "npairs")
	for i := 0; i < np; i++ {
		c.Pairs = append(c.Pairs, [2]int{rapid.IntRange(0, n).Draw(t, "ps"), rapid.IntRange(0, n).Draw(t, "pt")})
	}
	c.HF = rapid.IntRange(0, len(hFactors)-1).Draw(t, "hf")
	c.HSeed = rapid.Uint64().Draw(t, "hseed")
	return c
}

func checkStaticSampled(c staticCase) *vk.Failure {
	vk.Sample("static", c)
	return checkStatic(c)
}

func TestStatic(t *testing.T) {
	vk.Run(t, "static", vk.Opts{Quick: 40000, Thorough: 500000}, drawStatic, checkStaticSampled)
}

// ---- exhaustive part --------------------------------------------------------

var exhIDs = []int64{7, -3, 1000000007, 2}

// digraphCase decodes index i into the labelled digraph on n nodes whose arc
// u->v (in row-major order of ordered pairs) is absent for digit 0 and has
// weight ws[digit-1] otherwise (base len(ws)+1).
func digraphCase(n int, ws []float64, i int, undir bool) staticCase {
	c := staticCase{Implicit: 2, HF: i % len(hFactors), HSeed: uint64(i) * 0x9e3779b97f4a7c15, View2: i % 3}
	c.Kind = kindSimple
	c.Undir = undir
	c.Cls = -1
	c.IDs = append([]int64(nil), exhIDs[:n]...)
	base := len(ws) + 1
	for u := 0; u < n; u++ {
		for v := 0; v < n; v++ {
			if u == v || (undir && u > v) {
				continue
			}
			d := i % base
			i /= base
			if d > 0 {
				c.Arcs = append(c.Arcs, arc{u, v, vk.F(ws[d-1])})
			}
		}
	}
	return c
}

func ipow(b, e int) int {
	r := 1
	for ; e > 0; e-- {
		r *= b
	}
	return r
}

// checkExh checks an enumerated graph as the container itself and, for two
// thirds of the graphs, also through one of the restricted views.
func checkExh(c staticCase) *vk.Failure {
	vk.Sample("exhaustive", c)
	if f := checkStatic(c); f != nil {
		return f
	}
	if c.View2 != viewFull {
		c.View = c.View2
		return checkStatic(c)
	}
	return nil
}

// exhPart is one exhaustively enumerated family of graphs.
type exhPart struct {
	count int
	gen   func(i int) staticCase
}

func exhParts() []exhPart {
	ws := []float64{-1, 0, 1, 2}
	var parts []exhPart
	// all labelled digraphs on 1..3 nodes, arc weights in {-1,0,1,2}
	for n := 1; n <= 3; n++ {
		n := n
		parts = append(parts, exhPart{ipow(5, n*(n-1)), func(i int) staticCase { return digraphCase(n, ws, i, false) }})
	}
	// all labelled undirected graphs on 2..4 nodes, edge weights in {-1,0,1,2}
	for n := 2; n <= 4; n++ {
		n := n
		parts = append(parts, exhPart{ipow(5, n*(n-1)/2), func(i int) staticCase { return digraphCase(n, ws, i, true) }})
	}
	if vk.Quick() {
		return parts
	}
	// all labelled digraphs on 4 nodes with arc weights in {0,1}; one arc
	// position (chosen from the index) is made negative when present.
	parts = append(parts, exhPart{ipow(3, 12), func(i int) staticCase {
		c := digraphCase(4, []float64{0, 1}, i, false)
		if len(c.Arcs) > 0 {
			z := vk.NewSplitMix(uint64(i) + 12345)
			if j := z.Intn(len(c.Arcs) + 1); j < len(c.Arcs) {
				c.Arcs[j].W = -1
			}
		}
		return c
	}})
	return parts
}

func TestExhaustive(t *testing.T) {
	parts := exhParts()
	total := 0
	for _, p := range parts {
		total += p.count
	}
	vk.Enumerate(t, "exhaustive", total, func(i int) staticCase {
		for _, p := range parts {
			if i < p.count {
				return p.gen(i)
			}
			i -= p.count
		}
		panic("index out of range")
	}, checkExh)
}
