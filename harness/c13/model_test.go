package c13

import (
	"fmt"
	"hash/fnv"
	"math"
	"sort"

	"gonum.org/v1/gonum/graph"
	"gonum.org/v1/gonum/graph/multi"
	"gonum.org/v1/gonum/graph/simple"
	"verifharness/vk"
)

// arc is one weighted arc (or, in an undirected case, one edge) between the
// nodes with indices U and V into the ID list of the case.
type arc struct {
	U, V int
	W    vk.F
}

// genSpec describes pseudo-random bulk arcs expanded from Seed (large graphs).
type genSpec struct {
	Class int
	WMode int
	Seed  uint64
}

// Graph containers.
const (
	kindSimple = iota // simple.WeightedDirectedGraph / WeightedUndirectedGraph
	kindDense         // simple.DirectedMatrix / UndirectedMatrix (IDs forced to 0..n-1)
	kindMulti         // multi.WeightedDirectedGraph / WeightedUndirectedGraph (some arcs split in two lines)
	numKinds
)

// graphDef is the graph part of every case.
type graphDef struct {
	Kind  int
	Undir bool
	Cls   int // structure class the arcs were drawn from (label only)
	IDs   []int64
	Arcs  []arc
	Gen   *genSpec `json:",omitempty"`
}

var inf = math.Inf(1)

// ---- the harness's own model of the graph ----------------------------------

type model struct {
	n      int
	ids    []int64
	idx    map[int64]int
	und    bool
	w      [][]float64 // NaN = no arc; +Inf weights are stored but not listed in out/in (blocked)
	out    [][]int
	in     [][]int
	narcs  int
	hasNeg bool
	hash   uint64
}

func (d graphDef) nodeIDs() []int64 {
	if d.Kind == kindDense {
		ids := make([]int64, len(d.IDs))
		for i := range ids {
			ids[i] = int64(i)
		}
		return ids
	}
	return d.IDs
}

func (d graphDef) allArcs() []arc {
	if d.Gen == nil {
		return d.Arcs
	}
	r := vk.NewSplitMix(d.Gen.Seed)
	arcs := genArcs(smRnd{r}, len(d.IDs), d.Gen.Class, d.Gen.WMode, d.Undir)
	return append(arcs, d.Arcs...)
}

func newModel(ids []int64, arcs []arc, und bool) *model {
	n := len(ids)
	m := &model{n: n, ids: ids, idx: make(map[int64]int, n), und: und}
	for i, id := range ids {
		m.idx[id] = i
	}
	m.w = make([][]float64, n)
	for i := range m.w {
		m.w[i] = make([]float64, n)
		for j := range m.w[i] {
			m.w[i][j] = math.NaN()
		}
	}
	for _, a := range arcs {
		m.set(a.U, a.V, float64(a.W))
	}
	m.finish()
	return m
}

func (m *model) set(u, v int, w float64) {
	if u < 0 || v < 0 || u >= m.n || v >= m.n || u == v || math.IsNaN(w) {
		return
	}
	m.w[u][v] = w
	if m.und {
		m.w[v][u] = w
	}
}

// finish rebuilds the adjacency lists and the canonical hash from the matrix.
func (m *model) finish() {
	n := m.n
	m.out = make([][]int, n)
	m.in = make([][]int, n)
	m.narcs = 0
	m.hasNeg = false
	h := fnv.New64a()
	fmt.Fprintf(h, "%v|%v|", m.und, m.ids)
	for u := 0; u < n; u++ {
		for v := 0; v < n; v++ {
			w := m.w[u][v]
			if math.IsNaN(w) {
				continue
			}
			fmt.Fprintf(h, "%d>%d:%g,", u, v, w)
			if math.IsInf(w, 1) {
				continue
			}
			m.out[u] = append(m.out[u], v)
			m.in[v] = append(m.in[v], u)
			m.narcs++
			if w < 0 {
				m.hasNeg = true
			}
		}
	}
	m.hash = h.Sum64()
}

func (m *model) has(u, v int) bool {
	return !math.IsNaN(m.w[u][v]) && !math.IsInf(m.w[u][v], 1)
}

// id returns the ID of node index i; i == n denotes an ID absent from the graph.
func (m *model) id(i int) int64 {
	if i >= 0 && i < m.n {
		return m.ids[i]
	}
	for c := int64(424243); ; c++ {
		if _, ok := m.idx[c]; !ok {
			return c
		}
	}
}

// bf is the reference single-source computation: Bellman-Ford on the arc
// list. The result holds the true minimum walk weight from s to every node:
// +Inf when unreachable, -Inf when some walk from s to the node passes through
// a negative cycle. s == n (absent) gives all +Inf.
func (m *model) bf(s int) []float64 {
	n := m.n
	d := make([]float64, n)
	for i := range d {
		d[i] = inf
	}
	if s < 0 || s >= n {
		return d
	}
	d[s] = 0
	changed := true
	for round := 0; round < n-1 && changed; round++ {
		changed = false
		for u := 0; u < n; u++ {
			du := d[u]
			if math.IsInf(du, 1) {
				continue
			}
			wu := m.w[u]
			for _, v := range m.out[u] {
				if nd := du + wu[v]; nd < d[v] {
					d[v] = nd
					changed = true
				}
			}
		}
	}
	if !changed || !m.hasNeg {
		return d
	}
	mark := make([]bool, n)
	var stack []int
	for u := 0; u < n; u++ {
		if math.IsInf(d[u], 1) {
			continue
		}
		for _, v := range m.out[u] {
			if d[u]+m.w[u][v] < d[v] && !mark[v] {
				mark[v] = true
				stack = append(stack, v)
			}
		}
	}
	for len(stack) > 0 {
		x := stack[len(stack)-1]
		stack = stack[:len(stack)-1]
		for _, v := range m.out[x] {
			if !mark[v] {
				mark[v] = true
				stack = append(stack, v)
			}
		}
	}
	for v := range d {
		if mark[v] {
			d[v] = math.Inf(-1)
		}
	}
	return d
}

// allPairs returns D[s][t] for all s (row n = absent source: all +Inf).
func (m *model) allPairs() [][]float64 {
	D := make([][]float64, m.n+1)
	for s := 0; s <= m.n; s++ {
		D[s] = m.bf(s)
	}
	return D
}

// reversed returns the model with every arc reversed.
func (m *model) reversed() *model {
	r := &model{n: m.n, ids: m.ids, idx: m.idx, und: m.und}
	r.w = make([][]float64, m.n)
	for i := range r.w {
		r.w[i] = make([]float64, m.n)
		for j := range r.w[i] {
			r.w[i][j] = m.w[j][i]
		}
	}
	r.finish()
	return r
}

// sEnum is the result of enumerating every simple path from one source.
type sEnum struct {
	total []int      // number of simple paths s->v
	best  []float64  // minimum weight over simple paths
	short [][]string // the simple paths attaining best, as index strings
}

// enumFrom enumerates all simple paths from s by depth-first search.
func (m *model) enumFrom(s int) *sEnum {
	n := m.n
	e := &sEnum{total: make([]int, n), best: make([]float64, n), short: make([][]string, n)}
	for i := range e.best {
		e.best[i] = inf
	}
	on := make([]bool, n)
	cur := make([]byte, 0, n)
	var rec func(v int, w float64)
	rec = func(v int, w float64) {
		on[v] = true
		cur = append(cur, byte(v))
		e.total[v]++
		switch {
		case w < e.best[v]:
			e.best[v] = w
			e.short[v] = append(e.short[v][:0], string(cur))
		case w == e.best[v]:
			e.short[v] = append(e.short[v], string(cur))
		}
		for _, x := range m.out[v] {
			if !on[x] {
				rec(x, w+m.w[v][x])
			}
		}
		cur = cur[:len(cur)-1]
		on[v] = false
	}
	rec(s, 0)
	return e
}

// allSimpleWeights returns the sorted weights of all simple s->t paths; it
// gives up (ok=false) after limit paths.
func (m *model) allSimpleWeights(s, t, limit int) (ws []float64, ok bool) {
	if s == t {
		return []float64{0}, true
	}
	on := make([]bool, m.n)
	ok = true
	var rec func(v int, w float64)
	rec = func(v int, w float64) {
		if !ok {
			return
		}
		if v == t {
			ws = append(ws, w)
			if len(ws) > limit {
				ok = false
			}
			return
		}
		on[v] = true
		for _, x := range m.out[v] {
			if !on[x] {
				rec(x, w+m.w[v][x])
			}
		}
		on[v] = false
	}
	rec(s, 0)
	sort.Float64s(ws)
	return ws, ok
}

// tightPaths enumerates the simple shortest s->t paths by a depth-first search
// restricted to arcs that are tight with respect to the reference distances
// ds (from s) and dt (to t). It gives up (ok=false) after budget steps or when
// more than limit paths exist.
func (m *model) tightPaths(s, t int, ds, dt []float64, limit, budget int) (paths []string, ok bool) {
	if math.IsInf(ds[t], 0) {
		return nil, true
	}
	total := ds[t]
	on := make([]bool, m.n)
	cur := make([]byte, 0, m.n)
	ok = true
	steps := 0
	var rec func(v int)
	rec = func(v int) {
		if !ok {
			return
		}
		steps++
		if steps > budget {
			ok = false
			return
		}
		cur = append(cur, byte(v))
		if v == t {
			paths = append(paths, string(cur))
			if len(paths) > limit {
				ok = false
			}
			cur = cur[:len(cur)-1]
			return
		}
		on[v] = true
		for _, x := range m.out[v] {
			if on[x] {
				continue
			}
			if ds[v]+m.w[v][x] == ds[x] && ds[x]+dt[x] == total {
				rec(x)
			}
		}
		on[v] = false
		cur = cur[:len(cur)-1]
	}
	rec(s)
	return paths, ok
}

// ---- building the gonum graph ----------------------------------------------

type weightedGraph interface {
	graph.Graph
	Weight(xid, yid int64) (w float64, ok bool)
}

// splitArc says whether the multigraph container stores arc u->v as two lines.
func splitArc(u, v int) bool { return (u*7+v*3)%4 == 0 }

func buildGraph(kind int, m *model) weightedGraph {
	und := m.und
	switch kind {
	case kindDense:
		if und {
			g := simple.NewUndirectedMatrix(m.n, inf, 0, inf)
			for u := 0; u < m.n; u++ {
				for v := u + 1; v < m.n; v++ {
					if !math.IsNaN(m.w[u][v]) {
						g.SetWeightedEdge(simple.WeightedEdge{F: simple.Node(u), T: simple.Node(v), W: m.w[u][v]})
					}
				}
			}
			return g
		}
		g := simple.NewDirectedMatrix(m.n, inf, 0, inf)
		for u := 0; u < m.n; u++ {
			for v := 0; v < m.n; v++ {
				if !math.IsNaN(m.w[u][v]) {
					g.SetWeightedEdge(simple.WeightedEdge{F: simple.Node(u), T: simple.Node(v), W: m.w[u][v]})
				}
			}
		}
		return g
	case kindMulti:
		if und {
			g := multi.NewWeightedUndirectedGraph()
			for _, id := range m.ids {
				g.AddNode(multi.Node(id))
			}
			for u := 0; u < m.n; u++ {
				for v := u + 1; v < m.n; v++ {
					w := m.w[u][v]
					if math.IsNaN(w) {
						continue
					}
					if splitArc(u, v) {
						g.SetWeightedLine(g.NewWeightedLine(multi.Node(m.ids[u]), multi.Node(m.ids[v]), w/2))
						g.SetWeightedLine(g.NewWeightedLine(multi.Node(m.ids[v]), multi.Node(m.ids[u]), w/2))
					} else {
						g.SetWeightedLine(g.NewWeightedLine(multi.Node(m.ids[u]), multi.Node(m.ids[v]), w))
					}
				}
			}
			return g
		}
		g := multi.NewWeightedDirectedGraph()
		for _, id := range m.ids {
			g.AddNode(multi.Node(id))
		}
		for u := 0; u < m.n; u++ {
			for v := 0; v < m.n; v++ {
				w := m.w[u][v]
				if math.IsNaN(w) {
					continue
				}
				if splitArc(u, v) {
					g.SetWeightedLine(g.NewWeightedLine(multi.Node(m.ids[u]), multi.Node(m.ids[v]), w/2))
					g.SetWeightedLine(g.NewWeightedLine(multi.Node(m.ids[u]), multi.Node(m.ids[v]), w/2))
				} else {
					g.SetWeightedLine(g.NewWeightedLine(multi.Node(m.ids[u]), multi.Node(m.ids[v]), w))
				}
			}
		}
		return g
	}
	if und {
		g := simple.NewWeightedUndirectedGraph(0, inf)
		for _, id := range m.ids {
			g.AddNode(simple.Node(id))
		}
		for u := 0; u < m.n; u++ {
			for v := u + 1; v < m.n; v++ {
				if !math.IsNaN(m.w[u][v]) {
					// alternate the orientation in which the edge is given
					a, b := u, v
					if (u+v)%2 == 1 {
						a, b = v, u
					}
					g.SetWeightedEdge(simple.WeightedEdge{F: simple.Node(m.ids[a]), T: simple.Node(m.ids[b]), W: m.w[u][v]})
				}
			}
		}
		return g
	}
	g := simple.NewWeightedDirectedGraph(0, inf)
	for _, id := range m.ids {
		g.AddNode(simple.Node(id))
	}
	for u := 0; u < m.n; u++ {
		for v := 0; v < m.n; v++ {
			if !math.IsNaN(m.w[u][v]) {
				g.SetWeightedEdge(simple.WeightedEdge{F: simple.Node(m.ids[u]), T: simple.Node(m.ids[v]), W: m.w[u][v]})
			}
		}
	}
	return g
}

// implicitGraph exposes only what traverse.Graph and path.Weighted need, so
// that the routines take their "not a graph.Graph" route (nodes added lazily).
// Without w it is a bare traverse.Graph (uniform cost).
type implicitGraph struct{ g weightedGraph }

func (i implicitGraph) From(id int64) graph.Nodes              { return i.g.From(id) }
func (i implicitGraph) Edge(u, v int64) graph.Edge             { return i.g.Edge(u, v) }
func (i implicitGraph) Weight(x, y int64) (w float64, ok bool) { return i.g.Weight(x, y) }

type implicitPlain struct{ g graph.Graph }

func (i implicitPlain) From(id int64) graph.Nodes  { return i.g.From(id) }
func (i implicitPlain) Edge(u, v int64) graph.Edge { return i.g.Edge(u, v) }

// Views of a graph: what the value handed to the routines implements.
const (
	viewFull       = iota // the container itself (graph.Weighted and more)
	viewWeightOnly        // graph.Graph (+Directed/Undirected) and the one-method path.Weighted
	viewPlain             // graph.Graph (+Directed/Undirected) only: the documented UniformCost applies
	numViews
)

var viewNames = []string{"view=container", "view=graph+path.Weighted-only", "view=graph-only-uniform-cost"}

type directedGraph interface {
	graph.Graph
	HasEdgeFromTo(uid, vid int64) bool
	To(id int64) graph.Nodes
}

type undirectedGraph interface {
	graph.Graph
	EdgeBetween(xid, yid int64) graph.Edge
}

// plainDir and plainUnd expose graph.Directed / graph.Undirected and nothing else.
type plainDir struct{ g directedGraph }

func (p plainDir) Node(id int64) graph.Node       { return p.g.Node(id) }
func (p plainDir) Nodes() graph.Nodes             { return p.g.Nodes() }
func (p plainDir) From(id int64) graph.Nodes      { return p.g.From(id) }
func (p plainDir) HasEdgeBetween(x, y int64) bool { return p.g.HasEdgeBetween(x, y) }
func (p plainDir) Edge(u, v int64) graph.Edge     { return p.g.Edge(u, v) }
func (p plainDir) HasEdgeFromTo(u, v int64) bool  { return p.g.HasEdgeFromTo(u, v) }
func (p plainDir) To(id int64) graph.Nodes        { return p.g.To(id) }

type plainUnd struct{ g undirectedGraph }

func (p plainUnd) Node(id int64) graph.Node          { return p.g.Node(id) }
func (p plainUnd) Nodes() graph.Nodes                { return p.g.Nodes() }
func (p plainUnd) From(id int64) graph.Nodes         { return p.g.From(id) }
func (p plainUnd) HasEdgeBetween(x, y int64) bool    { return p.g.HasEdgeBetween(x, y) }
func (p plainUnd) Edge(u, v int64) graph.Edge        { return p.g.Edge(u, v) }
func (p plainUnd) EdgeBetween(x, y int64) graph.Edge { return p.g.EdgeBetween(x, y) }

// wOnlyDir and wOnlyUnd add the Weight method (path.Weighted) but not
// WeightedEdge, so they are not graph.Weighted.
type wOnlyDir struct {
	plainDir
	w weightedGraph
}

func (p wOnlyDir) Weight(x, y int64) (float64, bool) { return p.w.Weight(x, y) }

type wOnlyUnd struct {
	plainUnd
	w weightedGraph
}

func (p wOnlyUnd) Weight(x, y int64) (float64, bool) { return p.w.Weight(x, y) }

// viewOf wraps the container according to the view.
func viewOf(view int, g weightedGraph, und bool) graph.Graph {
	switch view {
	case viewWeightOnly:
		if und {
			return wOnlyUnd{plainUnd{g.(undirectedGraph)}, g}
		}
		return wOnlyDir{plainDir{g.(directedGraph)}, g}
	case viewPlain:
		if und {
			return plainUnd{g.(undirectedGraph)}
		}
		return plainDir{g.(directedGraph)}
	}
	return g
}

// implicitOf gives the traverse.Graph-only view matching the view.
func implicitOf(view int, g weightedGraph) interface {
	From(id int64) graph.Nodes
	Edge(u, v int64) graph.Edge
} {
	if view == viewPlain {
		return implicitPlain{g}
	}
	return implicitGraph{g}
}

// unitArcs replaces every weight by 1 (what UniformCost sees).
func unitArcs(arcs []arc) []arc {
	out := make([]arc, len(arcs))
	for i, a := range arcs {
		out[i] = arc{a.U, a.V, 1}
	}
	return out
}

// ---- path helpers -----------------------------------------------------------

// idxString maps a returned node list to an index string; ok is false when a
// node is nil or not a node of the graph.
func (m *model) idxString(p []graph.Node) (string, bool) {
	b := make([]byte, len(p))
	for i, nd := range p {
		if nd == nil {
			return "", false
		}
		j, ok := m.idx[nd.ID()]
		if !ok {
			return "", false
		}
		b[i] = byte(j)
	}
	return string(b), true
}

func (m *model) showIdx(s string) string {
	ids := make([]int64, len(s))
	for i := range ids {
		ids[i] = m.ids[s[i]]
	}
	return fmt.Sprint(ids)
}

func showPath(p []graph.Node) string {
	ids := make([]string, len(p))
	for i, nd := range p {
		if nd == nil {
			ids[i] = "<nil>"
		} else {
			ids[i] = fmt.Sprint(nd.ID())
		}
	}
	return fmt.Sprint(ids)
}

// validPath checks that p is a simple walk from s to t in the model whose arc
// weights sum to weight. It returns "" or the reason.
func (m *model) validPath(p []graph.Node, s, t int, weight float64) string {
	return m.validWalk(p, s, t, weight, true)
}

// validWalk is validPath with the simplicity requirement optional.
func (m *model) validWalk(p []graph.Node, s, t int, weight float64, simple bool) string {
	if len(p) == 0 {
		return "empty path"
	}
	is, ok := m.idxString(p)
	if !ok {
		return "path holds a nil node or a node that is not in the graph"
	}
	if int(is[0]) != s {
		return fmt.Sprintf("path starts at %d, not at the source %d", m.ids[is[0]], m.ids[s])
	}
	if int(is[len(is)-1]) != t {
		return fmt.Sprintf("path ends at %d, not at the target %d", m.ids[is[len(is)-1]], m.ids[t])
	}
	var seen [256]bool
	sum := 0.0
	for i := 0; i < len(is); i++ {
		if seen[is[i]] && simple {
			return fmt.Sprintf("node %d is repeated (path not simple)", m.ids[is[i]])
		}
		seen[is[i]] = true
		if i > 0 {
			u, v := int(is[i-1]), int(is[i])
			if !m.has(u, v) {
				return fmt.Sprintf("hop %d->%d is not an arc of the graph", m.ids[u], m.ids[v])
			}
			sum += m.w[u][v]
		}
	}
	if sum != weight {
		return fmt.Sprintf("arc weights sum to %v, reported weight %v", sum, weight)
	}
	return ""
}

// ---- generation -------------------------------------------------------------

// rnd is the source of choices of the arc generator: rapid draws for small
// (explicit, shrinkable) graphs, SplitMix for bulk graphs expanded from a seed.
type rnd interface{ Intn(n int) int }

type smRnd struct{ r *vk.SplitMix }

func (s smRnd) Intn(n int) int { return s.r.Intn(n) }

// Structure classes.
const (
	clsTree = iota
	clsSparse
	clsDense
	clsDisconnected
	clsSinks
	clsZeroCycle
	clsNegPotential
	clsNegCycle
	clsNegArcs
	numClasses
)

var classNames = []string{"tree", "sparse", "dense", "disconnected", "sinks-sources", "zero-cycle", "neg-potential", "neg-cycle", "neg-arcs"}

var posW = []float64{0, 0.5, 1, 2, 3, 5, 8}

// Weight modes: which non-negative weights are used.
const (
	wAll = iota
	wUnit
	w01
	w12
	wPos // no zero
	numWModes
)

func drawW(r rnd, mode int) float64 {
	switch mode {
	case wUnit:
		return 1
	case w01:
		return float64(r.Intn(2))
	case w12:
		return float64(1 + r.Intn(2))
	case wPos:
		return posW[1+r.Intn(len(posW)-1)]
	}
	return posW[r.Intn(len(posW))]
}

// genArcs produces the arc list of a graph of the given class.
func genArcs(r rnd, n, class, wmode int, und bool) []arc {
	if n < 2 {
		return nil
	}
	type pair struct{ u, v int }
	w := map[pair]float64{}
	var order []pair
	add := func(u, v int, x float64) {
		if u == v {
			return
		}
		if und && u > v {
			u, v = v, u
		}
		p := pair{u, v}
		if _, ok := w[p]; !ok {
			order = append(order, p)
		}
		w[p] = x
	}
	sparse := func(m int) {
		for i := 0; i < m; i++ {
			u := r.Intn(n)
			v := r.Intn(n)
			add(u, v, drawW(r, wmode))
		}
	}
	dense := func(pct int, same func(u, v int) bool) {
		for u := 0; u < n; u++ {
			for v := 0; v < n; v++ {
				if u == v || (und && u > v) || (same != nil && !same(u, v)) {
					continue
				}
				if r.Intn(100) < pct {
					add(u, v, drawW(r, wmode))
				}
			}
		}
	}
	base := func(c int) {
		switch c {
		case clsTree:
			for v := 1; v < n; v++ {
				u := r.Intn(v)
				if r.Intn(4) == 0 {
					add(v, u, drawW(r, wmode))
				} else {
					add(u, v, drawW(r, wmode))
				}
			}
			sparse(r.Intn(3))
		case clsSparse:
			sparse(n + r.Intn(n+1))
		case clsDense:
			dense(50+r.Intn(51), nil)
		case clsDisconnected:
			k := 2 + r.Intn(2)
			block := make([]int, n)
			for i := range block {
				block[i] = r.Intn(k)
			}
			dense(30+r.Intn(50), func(u, v int) bool { return block[u] == block[v] })
		case clsSinks:
			if r.Intn(2) == 0 {
				sparse(2*n + r.Intn(n+1))
			} else {
				dense(40+r.Intn(40), nil)
			}
			role := make([]int, n) // 1 = sink, 2 = source
			for i := range role {
				if r.Intn(3) == 0 {
					role[i] = 1 + r.Intn(2)
				}
			}
			for _, p := range order {
				if und {
					continue
				}
				if role[p.u] == 1 || role[p.v] == 2 {
					delete(w, p)
				}
			}
		}
	}
	switch class {
	case clsTree, clsSparse, clsDense, clsDisconnected, clsSinks:
		base(class)
	case clsZeroCycle:
		base([]int{clsSparse, clsTree, clsDense}[r.Intn(3)])
		for c := 1 + r.Intn(2); c > 0; c-- {
			l := 2 + r.Intn(4)
			if l > n {
				l = n
			}
			// a cycle over l distinct nodes with all-zero weights
			nodes := make([]int, 0, l)
			for len(nodes) < l {
				x := r.Intn(n)
				dup := false
				for _, y := range nodes {
					dup = dup || x == y
				}
				if !dup {
					nodes = append(nodes, x)
				}
			}
			if und && l == 2 {
				add(nodes[0], nodes[1], 0)
				continue
			}
			for i := range nodes {
				add(nodes[i], nodes[(i+1)%l], 0)
			}
		}
	case clsNegPotential:
		base([]int{clsTree, clsSparse, clsDense, clsSinks}[r.Intn(4)])
		if !und {
			phi := make([]float64, n)
			for i := range phi {
				phi[i] = float64(r.Intn(4))
			}
			for p := range w {
				w[p] += phi[p.u] - phi[p.v]
			}
		}
	case clsNegCycle:
		base([]int{clsTree, clsSparse, clsDense, clsDisconnected}[r.Intn(4)])
		l := 2 + r.Intn(3)
		if l > n {
			l = n
		}
		nodes := make([]int, 0, l)
		for len(nodes) < l {
			x := r.Intn(n)
			dup := false
			for _, y := range nodes {
				dup = dup || x == y
			}
			if !dup {
				nodes = append(nodes, x)
			}
		}
		for i := range nodes {
			x := drawW(r, w01)
			if i == 0 {
				x = -float64(l) // the cycle sums to < 0
				if und {
					x = -1
				}
			}
			add(nodes[i], nodes[(i+1)%l], x)
			if und {
				break
			}
		}
	case clsNegArcs:
		base([]int{clsTree, clsSparse, clsDense, clsSinks}[r.Intn(4)])
		k := 1 + r.Intn(3)
		for i := 0; i < k && len(order) > 0; i++ {
			p := order[r.Intn(len(order))]
			if _, ok := w[p]; ok {
				w[p] = -float64(1 + r.Intn(3))
			}
		}
	}
	arcs := make([]arc, 0, len(w))
	for _, p := range order {
		if x, ok := w[p]; ok {
			arcs = append(arcs, arc{p.u, p.v, vk.F(x)})
		}
	}
	return arcs
}
