// Package c13 checks property C13: shortest-path routines return true optimal
// weights and real paths (gonum.org/v1/gonum/graph/path and path/dynamic).
package c13

import (
	"testing"

	"verifharness/vk"
)

func TestMain(m *testing.M) { vk.Main(m, "C13") }
