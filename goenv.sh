export GOFLAGS=-mod=mod GOPROXY=off GOSUMDB=off GOTOOLCHAIN=local
